(** [reshape_or_view]: when it succeeds, the result denotes the reshaped dense tensor (same
    elements in row-major order) -- [reshape_refines_partial] -- and the unification at its heart
    cannot fail on a target of the right number of elements unless it warns ([reshape_unify_succeeds]).

    What is proved here is everything that is specific to reshape: the target axes, the soundness
    direction through [unify_sound], the re-factoring of the storage through [prime_factors], the
    cloned target pattern.  What is taken as explicit premises are facts about the unifier that
    belong to the completeness development of agent-UNIFY (Proofs/Axis_complete_gen.v, Axis_rank.v,
    Axis_typed.v; not in this tree), stated so that those theorems discharge them:
      [complete_for]     = the conclusion of [C_unify] (unify_complete_both) for this call
      [solvable]         = [model_exists] (acyclic solved form)
      [size_preserving]  = [wts_ty] + [ty_numel] (every binding keeps the size)
    plus well-formedness of the result ([wf r]; the run-time monitor checks it on every construction). *)
From Coq Require Import List Arith Lia PeanoNat Bool PArith.
Import ListNotations.
Require Import Fggs.Model.Axis Fggs.Model.AxisCheck Fggs.Model.PTensor Fggs.Model.PTensorOps Fggs.Model.PTensorCheck Fggs.Model.PTensorOpsCheck.
Require Import Fggs.Proofs.Axis_sem Fggs.Proofs.Axis_unify Fggs.Proofs.Axis_antiunify Fggs.Proofs.Axis_antiunify_inv.
Require Import Fggs.Proofs.PTensor_sem Fggs.Proofs.PTensor_dense Fggs.Proofs.PTensor_views Fggs.Proofs.PTensor_gen.
Require Import Fggs.Proofs.PTensor_binary Fggs.Proofs.Axis_clone Fggs.Proofs.Axis_subst Fggs.Proofs.PTensor_struct.
Local Open Scope nat_scope.

(** * premises about the unifier (see the header) *)
Definition extends_to (nx : positive) (rho rho' : env) : Prop := forall k, (k < nx)%positive -> rho' k = rho k.
Definition inr_s (rho : env) (s : subst) : Prop := Forall (fun kT => inrange rho (snd kT)) s.
Definition complete_for (nx : positive) (e f : axis) (sigma : subst) : Prop :=
  forall rho, inrange rho e -> inrange rho f -> eval rho e = eval rho f ->
    exists rho', extends_to nx rho rho' /\ inr_s rho' sigma /\ models rho' sigma.
Definition solvable (sigma : subst) : Prop :=
  forall g : env, exists rho, models rho sigma /\ forall k, assoc k sigma = None -> rho k = g k.
Definition size_preserving (sigma : subst) (es : list axis) : Prop :=
  Sized sigma /\ forall e, In e es -> sized_for sigma e.

Lemma pcoords_app' ps1 ps2 rho : pcoords (ps1 ++ ps2) rho = pcoords ps1 rho ++ pcoords ps2 rho.
Proof. unfold pcoords. apply map_app. Qed.
Lemma firstn_app_exact' {A} (l1 l2 : list A) : firstn (length l1) (l1 ++ l2) = l1.
Proof. induction l1; simpl; [destruct l2; reflexivity|f_equal; assumption]. Qed.
Lemma skipn_app_exact'' {A} (l1 l2 : list A) : skipn (length l1) (l1 ++ l2) = l2.
Proof. induction l1; simpl; auto. Qed.
Lemma list_eq_nat_eq a : forall b, list_eq_nat a b = true -> a = b.
Proof.
  induction a as [|x a IH]; intros [|y b] H; try discriminate; [reflexivity|]. simpl in H.
  apply andb_true_iff in H. destruct H as [H1 H2]. apply Nat.eqb_eq in H1. subst. f_equal. apply IH. exact H2.
Qed.

(** * row-major offsets and their inverse *)
Lemma prodl_prodl' l : prodl l = prodl' l.
Proof. reflexivity. Qed.

Lemma unflat_flat : forall shp idx, in_bounds shp idx -> unflat shp (flat_offset shp idx) = idx.
Proof.
  induction shp as [|n shp IH]; intros idx B; inversion B as [|i ? idx' ? Hi B']; subst; [reflexivity|].
  rewrite flat_offset_cons by (eapply Forall2_len; eauto). cbn [unflat]. fold (prodl shp).
  pose proof (flat_offset_bound _ _ B') as Hb.
  assert (Hp : prodl shp <> 0) by lia.
  rewrite Nat.div_add_l by exact Hp. rewrite Nat.div_small by exact Hb.
  rewrite (Nat.add_comm (i * prodl shp)), Nat.mod_add by exact Hp. rewrite Nat.mod_small by exact Hb.
  rewrite Nat.add_0_r. f_equal. apply IH. exact B'.
Qed.

Lemma flat_unflat : forall shp i, i < prodl shp -> in_bounds shp (unflat shp i) /\ flat_offset shp (unflat shp i) = i.
Proof.
  induction shp as [|n shp IH]; intros i Hi.
  - simpl in Hi. split; [constructor|]. unfold flat_offset. simpl. lia.
  - cbn [unflat]. fold (prodl shp). unfold prodl in Hi. simpl in Hi. fold (prodl shp) in Hi.
    assert (Hp : prodl shp <> 0) by (intros E; rewrite E in Hi; lia).
    destruct (IH (i mod prodl shp)) as [B E]; [apply Nat.mod_upper_bound; exact Hp|].
    split.
    + constructor; [apply Nat.div_lt_upper_bound; [exact Hp|nia]|exact B].
    + rewrite flat_offset_cons by (eapply Forall2_len; eauto). rewrite E.
      pose proof (Nat.div_mod i (prodl shp) Hp). lia.
Qed.

(** * the target axes are the axes of a dense tensor of the target shape *)
Lemma goal_axes_dense : forall s next, goal_axes s next = dense_axes s next.
Proof. induction s as [|g s IH]; intros next; [reflexivity|]. simpl. rewrite !IH. reflexivity. Qed.

Lemma dense_evals : forall shp next vs nx idx rho, dense_axes shp next = (vs, nx) -> Forall2 lt idx shp ->
  Forall (fun ki => rho (fst ki) = snd ki) (dbinds shp next idx) ->
  Forall (inrange rho) vs /\ evals rho vs = idx.
Proof.
  induction shp as [|n shp IH]; intros next vs nx idx rho H B F.
  - inversion B; subst. simpl in H. inversion H; subst. split; [constructor|reflexivity].
  - inversion B as [|i ? idx' ? Hi B']; subst. cbn [dense_axes] in H. cbn [dbinds] in F. destruct (Nat.eqb_spec n 1) as [E|E].
    + destruct (dense_axes shp next) as [r nx'] eqn:D. inversion H; subst. destruct (IH _ _ _ _ _ D B' F) as [R Ev].
      split; [constructor; [exact I|exact R]|]. unfold evals in *. simpl. f_equal; [lia|exact Ev].
    + destruct (dense_axes shp (Pos.succ next)) as [r nx'] eqn:D. inversion H; subst. inversion F as [|? ? F1 F2]; subst.
      simpl in F1. destruct (IH _ _ _ _ _ D B' F2) as [R Ev].
      split; [constructor; [simpl; lia|exact R]|]. unfold evals in *. simpl. f_equal; [exact F1|exact Ev].
Qed.

Lemma dense_axes_elems : forall shp next vs nx, dense_axes shp next = (vs, nx) ->
  forall e, In e vs -> e = unitAxis \/ exists k n, e = Phys k n /\ In n shp.
Proof.
  induction shp as [|g shp IH]; intros next vs nx H e He; simpl in H.
  - inversion H; subst. destruct He.
  - destruct (Nat.eqb g 1).
    + destruct (dense_axes shp next) as [r0 n0] eqn:D. inversion H; subst. destruct He as [<-|He]; [left; reflexivity|].
      destruct (IH _ _ _ D e He) as [->|(k & n & -> & Hn)]; [left; reflexivity|right; exists k, n; split; [reflexivity|right; exact Hn]].
    + destruct (dense_axes shp (Pos.succ next)) as [r0 n0] eqn:D. inversion H; subst.
      destruct He as [<-|He]; [right; exists next, g; split; [reflexivity|left; reflexivity]|].
      destruct (IH _ _ _ D e He) as [->|(k & n & -> & Hn)]; [left; reflexivity|right; exists k, n; split; [reflexivity|right; exact Hn]].
Qed.

Lemma dbinds_range : forall shp next idx k i, In (k, i) (dbinds shp next idx) -> (next <= k)%positive.
Proof.
  induction shp as [|n shp IH]; intros next idx k i H; destruct idx as [|j idx]; simpl in H; try contradiction.
  destruct (Nat.eqb n 1); [exact (IH _ _ _ _ H)|]. destruct H as [H|H]; [inversion H; subst; lia|]. apply IH in H. lia.
Qed.

Lemma dbinds_nodup : forall shp next idx, NoDup (map fst (dbinds shp next idx)).
Proof.
  induction shp as [|n shp IH]; intros next idx; destruct idx as [|j idx]; simpl; try constructor.
  destruct (Nat.eqb n 1); [apply IH|]. simpl. constructor; [|apply IH].
  intros H. apply in_map_iff in H. destruct H as ([k i] & E & H). simpl in E. subst k. apply dbinds_range in H. lia.
Qed.

Lemma over_binds (binds : list pn) (rho : env) : NoDup (map fst binds) ->
  Forall (fun ki => (fun k => match assoc k binds with Some i => i | None => rho k end) (fst ki) = snd ki) binds.
Proof.
  intros ND. rewrite Forall_forall. intros [k i] H. cbn [fst snd].
  assert (E : assoc k binds = Some i).
  { clear rho. induction binds as [|[k' i'] l IH]; [contradiction|]. simpl in *. inversion ND as [|? ? Hk ND']; subst.
    destruct H as [H|H].
    - inversion H; subst. rewrite Pos.eqb_refl. reflexivity.
    - destruct (Pos.eqb_spec k' k) as [->|_]; [exfalso; apply Hk; apply in_map_iff; exists (k, i); auto|auto]. }
  rewrite E. reflexivity.
Qed.

(** * re-factoring the storage *)
Lemma regroup_spec rho : forall groups,
  regroup groups (pcoords (concat groups) rho) = map (fun g => evalL rho (paxes_axes' g)) groups.
Proof.
  induction groups as [|g groups IH]; [reflexivity|]. cbn [regroup concat map]. rewrite pcoords_app'.
  replace (length g) with (length (pcoords g rho)) by (unfold pcoords; apply map_length).
  rewrite firstn_app_exact', skipn_app_exact''. f_equal; [|exact IH].
  unfold evalL, paxes_axes', pcoords. generalize 0 as acc. clear. induction g as [|[k n] g IH]; intros acc; [reflexivity|].
  simpl. apply IH.
Qed.

Section Reshape.
Variable V : Type.
Notation ptensor := (ptensor V).

Definition rs_fuel (goals : list axis) (t : ptensor) : nat := 6 * (asize_list goals + asize_list (vaxes t)) + 12.

(** what a successful call of the general branch computed *)
Lemma reshape_inv inferred s next (t r : ptensor) nx' :
  (Nat.eqb (prodl' (shape V t)) (pnumel (paxes t)) && (prodl' (shape V t) <=? 1)) = false ->
  pt_reshape V inferred s next t = Ok (r, nx') ->
  exists s' goals nx st' groups vs,
    prodl' (shape V t) = prodl' s' /\
    (inferred = 0 -> s' = s) /\
    goal_axes s' next = (goals, nx) /\
    unify (rs_fuel goals t) (productAxis goals) (productAxis (vaxes t)) (ustate0 nx) = Ok (true, st') /\
    mapM (fun kn => pf <- prime_factors (rs_fuel goals t + length (us_subst st') + 2) (us_subst st') (Phys (fst kn) (snd kn)) ;;
                    mapM phys_pn pf) (paxes t) = Ok groups /\
    mapM (clone (rs_fuel goals t + length (us_subst st') + 2) (us_subst st')) goals = Ok vs /\
    map numel vs = s' /\
    map (fun g => prodl' (map snd g)) groups = map snd (paxes t) /\
    r = mkPT (fun idx => physical t (regroup groups idx)) (concat groups) vs (default t).
Proof.
  intros Tiny H. unfold pt_reshape in H. rewrite Tiny in H.
  destruct (match inferred with
            | 0 => Ok s
            | S i => if Nat.eqb (prodl' (remove_nth i s)) 0 then Fail ZeroDivisionError
                     else Ok (replace_nth i (prodl' (shape V t) / prodl' (remove_nth i s)) s)
            end) as [s'|] eqn:Es; [|discriminate]. cbn [bind] in H.
  destruct (Nat.eqb_spec (prodl' (shape V t)) (prodl' s')) as [En|]; [|discriminate]. cbn [negb] in H.
  destruct (goal_axes s' next) as [goals nx] eqn:Eg.
  fold (rs_fuel goals t) in H.
  destruct (unify (rs_fuel goals t) (productAxis goals) (productAxis (vaxes t)) {| us_subst := []; us_next := nx; us_warn := false |})
    as [[b st']|] eqn:Eu; [|discriminate]. cbn [bind fst snd] in H.
  destruct b; [|discriminate]. cbn [negb] in H.
  destruct (mapM _ (paxes t)) as [groups|] eqn:Egr; [|discriminate]. cbn [bind] in H.
  destruct (mapM (clone _ _) goals) as [vs|] eqn:Ev; [|discriminate]. cbn [bind] in H.
  destruct (list_eq_nat (map numel vs) s') eqn:E1; [|discriminate].
  destruct (list_eq_nat (map (fun g => prodl' (map snd g)) groups) (map snd (paxes t))) eqn:E2; [|discriminate].
  cbn [negb orb] in H. inversion H; subst r nx'.
  exists s', goals, nx, st', groups, vs. repeat split; try assumption; try reflexivity.
  - intros ->. inversion Es. reflexivity.
  - apply list_eq_nat_eq. exact E1.
  - apply list_eq_nat_eq. exact E2.
Qed.

(** general form: the premises about the unifier are only needed for the shape actually computed *)
Theorem reshape_refines_partial_gen inferred s next (t r : ptensor) nx' :
  wf V t -> vars_below V next t -> forallb pos_sizes (vaxes t) = true ->
  (Nat.eqb (prodl' (shape V t)) (pnumel (paxes t)) && (prodl' (shape V t) <=? 1)) = false ->
  pt_reshape V inferred s next t = Ok (r, nx') ->
  wf V r ->
  (forall s' goals nx st', s' = shape V r -> (inferred = 0 -> s' = s) -> goal_axes s' next = (goals, nx) ->
     unify (rs_fuel goals t) (productAxis goals) (productAxis (vaxes t)) (ustate0 nx) = Ok (true, st') ->
     (next <= nx)%positive -> (forall e, In e goals -> below nx e) ->
     complete_for nx (productAxis goals) (productAxis (vaxes t)) (us_subst st') /\
     solvable (us_subst st') /\
     size_preserving (us_subst st') (goals ++ paxes_axes' (paxes t))) ->
  prodl' (shape V r) = prodl' (shape V t) /\ default r = default t /\
  forall idx', in_bounds (shape V r) idx' ->
    denote V r idx' = denote V t (unflat (shape V t) (flat_offset (shape V r) idx')).
Proof.
  intros W Bt Pos Tiny H Wr Prem.
  destruct (reshape_inv _ _ _ _ _ _ Tiny H) as (s' & goals & nx & st' & groups & vs & En & Hinf & Eg & Eu & Egr & Ev & Es & Egs & ->).
  set (sigma := us_subst st') in *. set (f2 := rs_fuel goals t + length sigma + 2) in *.
  pose proof Eg as EgA. rewrite goal_axes_dense in Eg. destruct (dense_axes_spec _ _ _ _ Eg) as (Gn & Gle & Gk & Gnd).
  assert (Gbel : forall e, In e goals -> below nx e).
  { intros e He k Hk. apply fv_of_fvn in Hk. destruct Hk as (n & Hk).
    assert (In (k, n) (flat_map fvn goals)) by (apply in_flat_map; eauto). destruct (Gk _ _ H0) as (_ & Hlt & _). exact Hlt. }
  destruct (Prem s' goals nx st' (eq_sym Es) Hinf EgA Eu Gle Gbel) as (Hc & Hm & [SZ Sz]). fold sigma in Hc, Hm, SZ, Sz.
  set (R := mkPT _ _ _ _) in *.
  assert (ShR : shape V R = s') by exact Es.
  split; [rewrite ShR; symmetry; exact En|]. split; [reflexivity|]. intros idx' Bd. rewrite ShR in Bd |- *.
  (* sizes are positive *)
  assert (Spos : Forall (fun n => n <> 0) s').
  { clear - Bd. induction Bd; constructor; [lia|assumption]. }
  assert (PosG : pos_sizes (productAxis goals) = true).
  { apply pos_productAxis. apply forallb_forall. intros e He.
    destruct (dense_axes_elems _ _ _ _ Eg e He) as [->|(k & n & -> & Hn)]; [reflexivity|].
    simpl. apply negb_true_iff. apply Nat.eqb_neq. rewrite Forall_forall in Spos. exact (Spos n Hn). }
  assert (PosE : pos_sizes (productAxis (vaxes t)) = true) by (apply pos_productAxis; exact Pos).
  destruct (proj1 (unify_sound_both (rs_fuel goals t)) (productAxis goals) (productAxis (vaxes t)) (ustate0 nx) true st'
                  PosG PosE eq_refl Eu) as [_ Snd].
  specialize (Snd eq_refl). fold sigma in Snd.
  (* evaluation of the two products as row-major offsets *)
  assert (EvG : forall rho, eval rho (productAxis goals) = flat_offset s' (evals rho goals)).
  { intros rho. rewrite (proj1 (productAxis_sem rho goals)), <- Gn. symmetry. apply flat_offset_evals. }
  assert (EvE : forall rho, eval rho (productAxis (vaxes t)) = flat_offset (shape V t) (evals rho (vaxes t))).
  { intros rho. rewrite (proj1 (productAxis_sem rho (vaxes t))). symmetry. apply flat_offset_evals. }
  (* the clones *)
  assert (Cl : Forall2 (fun e c => clone f2 sigma e = Ok c) goals vs) by (apply mapM_Forall2'; exact Ev).
  assert (ClSem : forall rho, models rho sigma -> evals rho vs = evals rho goals).
  { intros rho M. unfold evals. clear - Cl M SZ Sz.
    assert (Sz' : forall e, In e goals -> sized_for sigma e) by (intros e He; apply Sz; apply in_or_app; left; exact He).
    clear Sz. induction Cl as [|e c l l' Hec _ IHl]; [reflexivity|]. simpl.
    rewrite (proj2 (clone_sem_models rho sigma M SZ _ _ _ (Sz' e (or_introl eq_refl)) Hec)). f_equal.
    apply IHl. intros x Hx. apply Sz'. right. exact Hx. }
  assert (ClUnb : forall k, In k (flat_map fv vs) -> assoc k sigma = None).
  { intros k Hk. apply in_flat_map in Hk. destruct Hk as (c & Hc' & Hk). clear - Cl Hc' Hk.
    induction Cl as [|e c' l l' Hec _ IHl]; [contradiction|]. destruct Hc' as [<-|Hc']; [exact (clone_unbound sigma _ _ _ Hec k Hk)|auto]. }
  (* the prime factors of every physical axis of t *)
  assert (Gr : Forall2 (fun kn g => prime_factors f2 sigma (Phys (fst kn) (snd kn)) = Ok (paxes_axes' g)) (paxes t) groups).
  { apply mapM_Forall2' in Egr. apply (Forall2_impl_in _ _ _ _ Egr). intros [k n] g _ Hg. cbn [fst snd] in *.
    destruct (prime_factors f2 sigma (Phys k n)) as [pf|]; [|discriminate]. cbn [bind] in Hg. f_equal.
    clear - Hg. revert g Hg. induction pf as [|p pf IH]; intros g Hg; simpl in Hg.
    - inversion Hg. reflexivity.
    - destruct p as [k n| |]; try discriminate. cbn [phys_pn bind] in Hg.
      destruct (mapM phys_pn pf) as [g'|] eqn:E; [|discriminate]. cbn [bind] in Hg. inversion Hg; subst. simpl. f_equal. apply IH. reflexivity. }
  assert (GrSem : forall rho, models rho sigma -> map (fun g => evalL rho (paxes_axes' g)) groups = pcoords (paxes t) rho).
  { intros rho M. unfold pcoords.
    assert (Sz' : forall kn, In kn (paxes t) -> sized_for sigma (Phys (fst kn) (snd kn))).
    { intros kn Hkn. apply Sz. apply in_or_app. right. unfold paxes_axes'. apply in_map_iff. exists kn. auto. }
    clear - Gr M SZ Sz'. induction Gr as [|kn g l l' Hg _ IHl]; [reflexivity|]. simpl.
    rewrite <- (proj1 (prime_factors_sem rho sigma M SZ _ _ _ (Sz' kn (or_introl eq_refl)) Hg)). simpl. f_equal.
    apply IHl. intros x Hx. apply Sz'. right. exact Hx. }
  assert (Lr : length idx' = length (vaxes R)).
  { rewrite (Forall2_len _ _ _ Bd), <- Es. cbn [vaxes R]. apply map_length. }
  assert (KeysT : forall k n, In (k, n) (paxes t) -> (k < next)%positive).
  { intros k n Hk. apply (wf_fv V t W) in Hk. apply in_flat_map in Hk. destruct Hk as (e & He & Hk).
    apply (Bt e He). apply fv_of_fvn. eauto. }
  destruct (denote_cases V R idx' (wf_covers V R Wr) Lr) as [(rho' & Rr & Er & D)|[N D]].
  - (* backed *)
    rewrite D. cbn [vaxes R] in Rr, Er.
    destruct (Hm rho') as (rh & M & Agree).
    assert (SameVs : forall k, In k (flat_map fv vs) -> rh k = rho' k) by (intros k Hk; apply Agree; apply ClUnb; exact Hk).
    assert (Eg' : evals rh goals = idx').
    { rewrite <- (ClSem rh M), <- Er. apply evals_ext. exact SameVs. }
    (* every prime-factor axis is an unbound axis of R, in range under rho' *)
    assert (PfIn : forall g p, In g groups -> In p g -> assoc (fst p) sigma = None /\ rho' (fst p) < snd p).
    { intros g [kp np] Hg Hp. cbn [fst snd].
      assert (Hin : In (kp, np) (paxes R)) by (cbn [paxes R]; apply in_concat; eauto).
      apply (wf_fv V R Wr) in Hin. split.
      - apply ClUnb. cbn [vaxes R] in Hin. apply In_fv_fvn. eauto.
      - exact (proj1 (inrange_list_fvn rho' vs) Rr kp np Hin). }
    assert (Rt : Forall (inrange rh) (vaxes t)).
    { apply inrange_list_fvn. intros k n Hk. apply (wf_fv V t W) in Hk.
      assert (Hsz : sized_for sigma (Phys k n)).
      { apply Sz. apply in_or_app. right. unfold paxes_axes'. apply in_map_iff. exists (k, n). auto. }
      clear - Gr Hk M SZ Hsz PfIn Agree. induction Gr as [|kn g l l' Hg _ IHl]; [contradiction|].
      destruct Hk as [->|Hk]; [|apply IHl; [intros g0 p Hg0; apply PfIn; right; exact Hg0|exact Hk]].
      cbn [fst snd] in Hg. destruct (prime_factors_sem rh sigma M SZ _ _ _ Hsz Hg) as [E1 E2]. simpl in E1, E2.
      rewrite E1, E2. apply evalL_bound. unfold paxes_axes'. rewrite Forall_map. rewrite Forall_forall. intros [kp np] Hp. simpl.
      destruct (PfIn g (kp, np) (or_introl eq_refl) Hp) as [U Rg]. cbn [fst snd] in U, Rg. rewrite (Agree kp U). exact Rg. }
    assert (Off : flat_offset (shape V t) (evals rh (vaxes t)) = flat_offset s' idx').
    { rewrite <- EvE, <- (Snd rh M), EvG, Eg'. reflexivity. }
    assert (Eidx : evals rh (vaxes t) = unflat (shape V t) (flat_offset s' idx')).
    { rewrite <- Off. symmetry. apply unflat_flat. apply evals_in_bounds. exact Rt. }
    rewrite <- Eidx, (denote_backed V t rh (wf_covers V t W) Rt).
    unfold pget. cbn [physical paxes R]. f_equal. rewrite regroup_spec, <- (GrSem rh M).
    apply map_ext_in. intros g Hg. unfold evalL. apply (f_equal (fun l => fold_left _ l 0)) || idtac.
    change (evalL rho' (paxes_axes' g) = evalL rh (paxes_axes' g)).
    assert (Hext : forall e, In e (paxes_axes' g) -> eval rho' e = eval rh e).
    { intros e He. unfold paxes_axes' in He. apply in_map_iff in He. destruct He as ([kp np] & <- & Hp). simpl.
      symmetry. apply Agree. exact (proj1 (PfIn g (kp, np) Hg Hp)). }
    clear - Hext. unfold evalL. generalize 0 as acc. induction (paxes_axes' g) as [|e l IH]; intros acc; [reflexivity|].
    simpl. rewrite (Hext e (or_introl eq_refl)). apply IH. intros x Hx. apply Hext. right. exact Hx.
  - (* unbacked *)
    rewrite D. cbn [default R]. symmetry.
    assert (Hlt : flat_offset s' idx' < prodl (shape V t)).
    { rewrite prodl_prodl', En. apply flat_offset_bound. exact Bd. }
    destruct (flat_unflat (shape V t) _ Hlt) as [Bu Eu'].
    assert (Lu : length (unflat (shape V t) (flat_offset s' idx')) = length (vaxes t)).
    { rewrite (Forall2_len _ _ _ Bu). unfold shape. apply map_length. }
    destruct (denote_cases V t _ (wf_covers V t W) Lu) as [(rho & Rr & Er & _)|[_ Dt]]; [|exact Dt].
    exfalso.
    set (binds := dbinds s' next idx').
    set (rho0 := fun k => match assoc k binds with Some i => i | None => rho k end).
    assert (B0 : Forall (fun ki => rho0 (fst ki) = snd ki) binds).
    { exact (over_binds binds rho (dbinds_nodup _ _ _)). }
    destruct (dense_evals _ _ _ _ _ rho0 Eg Bd B0) as [Rg0 Eg0].
    assert (Same0 : forall k, (k < next)%positive -> rho0 k = rho k).
    { intros k Hk. unfold rho0. destruct (assoc k binds) as [i|] eqn:E; [|reflexivity].
      apply assoc_In in E. apply dbinds_range in E. lia. }
    assert (SameT : forall k, In k (flat_map fv (vaxes t)) -> rho0 k = rho k).
    { intros k Hk. apply Same0. apply in_flat_map in Hk. destruct Hk as (e & He & Hk). exact (Bt e He k Hk). }
    assert (Rt0 : Forall (inrange rho0) (vaxes t)) by (apply (Forall_inrange_ext' rho); [intros k Hk; symmetry; apply SameT; exact Hk|exact Rr]).
    assert (Et0 : evals rho0 (vaxes t) = unflat (shape V t) (flat_offset s' idx')) by (rewrite <- Er; apply evals_ext; exact SameT).
    assert (Coin : eval rho0 (productAxis goals) = eval rho0 (productAxis (vaxes t))).
    { rewrite EvG, EvE, Eg0, Et0, Eu'. reflexivity. }
    destruct (Hc rho0 (proj2 (inrange_productAxis rho0 goals) Rg0) (proj2 (inrange_productAxis rho0 (vaxes t)) Rt0) Coin)
      as (rh & Ext & Inr & M).
    assert (Eg' : evals rh goals = idx').
    { rewrite <- Eg0. apply evals_ext. intros k Hk. apply Ext. apply in_flat_map in Hk. destruct Hk as (e & He & Hk). exact (Gbel e He k Hk). }
    apply (N rh); cbn [vaxes R].
    + apply inrange_list_fvn. intros kp np Hp. apply (wf_fv V R Wr) in Hp. cbn [paxes R] in Hp.
      apply in_concat in Hp. destruct Hp as (g & Hg & Hp).
      assert (exists kn, In kn (paxes t) /\ prime_factors f2 sigma (Phys (fst kn) (snd kn)) = Ok (paxes_axes' g)) as (kn & Hkn & Hpf).
      { clear - Gr Hg. induction Gr as [|kn g0 l l' Hg0 _ IHl]; [contradiction|]. destruct Hg as [<-|Hg]; [exists kn; split; [left; reflexivity|exact Hg0]|].
        destruct (IHl Hg) as (kn' & H1 & H2). exists kn'. split; [right; exact H1|exact H2]. }
      assert (Hpin : In (Phys kp np) (paxes_axes' g)) by (unfold paxes_axes'; apply in_map_iff; exists (kp, np); auto).
      pose proof (prime_factors_vars sigma _ _ _ Hpf (Phys kp np) Hpin) as [_ [Q|(k0 & c & Hc0 & Q)]].
      * destruct kn as [k n]. cbn [fst snd] in Hpf, Q. destruct Q as [Q|[]]. injection Q as Qk Qn. rewrite <- Qk, <- Qn.
        rewrite (Ext k) by (pose proof (KeysT k n Hkn); lia). rewrite (Same0 k (KeysT k n Hkn)).
        apply (proj1 (inrange_list_fvn rho (vaxes t)) Rr). apply (wf_fv V t W). exact Hkn.
      * unfold inr_s in Inr. rewrite Forall_forall in Inr. specialize (Inr (k0, c) Hc0). cbn [snd] in Inr.
        exact (proj2 (inrange_fvn rh c) Inr kp np Q).
    + rewrite (ClSem rh M). exact Eg'.
Qed.

Theorem reshape_refines_partial inferred s next (t r : ptensor) nx' :
  wf V t -> vars_below V next t -> forallb pos_sizes (vaxes t) = true ->
  (Nat.eqb (prodl' (shape V t)) (pnumel (paxes t)) && (prodl' (shape V t) <=? 1)) = false ->
  pt_reshape V inferred s next t = Ok (r, nx') ->
  wf V r ->
  (forall s' goals nx st', (inferred = 0 -> s' = s) -> goal_axes s' next = (goals, nx) ->
     unify (rs_fuel goals t) (productAxis goals) (productAxis (vaxes t)) (ustate0 nx) = Ok (true, st') ->
     (next <= nx)%positive -> (forall e, In e goals -> below nx e) ->
     complete_for nx (productAxis goals) (productAxis (vaxes t)) (us_subst st') /\
     solvable (us_subst st') /\
     size_preserving (us_subst st') (goals ++ paxes_axes' (paxes t))) ->
  prodl' (shape V r) = prodl' (shape V t) /\ default r = default t /\
  forall idx', in_bounds (shape V r) idx' ->
    denote V r idx' = denote V t (unflat (shape V t) (flat_offset (shape V r) idx')).
Proof.
  intros W Bt Pos Tiny H Wr Prem. apply (reshape_refines_partial_gen inferred s next t r nx'); trivial.
  intros s' goals nx st' _. apply Prem.
Qed.

(** the unification inside [reshape] cannot fail on a target with the right number of elements,
    unless it warns (index type mismatch): a coincidence of the two products always exists *)
Theorem reshape_unify_succeeds s next (t : ptensor) goals nx b st' :
  wf V t -> vars_below V next t ->
  prodl' (shape V t) = prodl' s -> (exists rho, Forall (inrange rho) (vaxes t)) ->
  goal_axes s next = (goals, nx) ->
  unify (rs_fuel goals t) (productAxis goals) (productAxis (vaxes t)) (ustate0 nx) = Ok (b, st') ->
  (* completeness of this call: every coincidence extends to a model if b, and there is none otherwise *)
  (forall rho, inrange rho (productAxis goals) -> inrange rho (productAxis (vaxes t)) ->
     eval rho (productAxis goals) = eval rho (productAxis (vaxes t)) -> b = true) ->
  b = true.
Proof.
  intros W Bt En (rho & Rr) Eg Eu Hc.
  rewrite goal_axes_dense in Eg. destruct (dense_axes_spec _ _ _ _ Eg) as (Gn & Gle & Gk & Gnd).
  set (off := flat_offset (shape V t) (evals rho (vaxes t))).
  assert (Hlt : off < prodl s).
  { rewrite prodl_prodl', <- En. apply flat_offset_bound. apply evals_in_bounds. exact Rr. }
  destruct (flat_unflat s off Hlt) as [Bd Eo].
  set (idx' := unflat s off) in *.
  set (binds := dbinds s next idx').
  set (rho0 := fun k => match assoc k binds with Some i => i | None => rho k end).
  assert (B0 : Forall (fun ki => rho0 (fst ki) = snd ki) binds).
    { exact (over_binds binds rho (dbinds_nodup _ _ _)). }
  destruct (dense_evals _ _ _ _ _ rho0 Eg Bd B0) as [Rg0 Eg0].
  assert (SameT : forall k, In k (flat_map fv (vaxes t)) -> rho0 k = rho k).
  { intros k Hk. unfold rho0. destruct (assoc k binds) as [i|] eqn:E; [|reflexivity].
    apply assoc_In in E. apply dbinds_range in E. apply in_flat_map in Hk. destruct Hk as (e & He & Hk). pose proof (Bt e He k Hk). lia. }
  assert (Rt0 : Forall (inrange rho0) (vaxes t)) by (apply (Forall_inrange_ext' rho); [intros k Hk; symmetry; apply SameT; exact Hk|exact Rr]).
  apply (Hc rho0); [apply inrange_productAxis; exact Rg0|apply inrange_productAxis; exact Rt0|].
  rewrite (proj1 (productAxis_sem rho0 goals)), (proj1 (productAxis_sem rho0 (vaxes t))).
  rewrite <- (flat_offset_evals rho0 goals), <- (flat_offset_evals rho0 (vaxes t)), Gn, Eg0, Eo.
  unfold off. f_equal. symmetry. apply evals_ext. exact SameT.
Qed.

End Reshape.

(** the premises are satisfiable: a 2 x 3 matrix (storage 2 x 3, pattern [X(2), Y(3)]) reshaped to [6];
    the unifier binds the target axis to [X * Y] *)
Definition rs_ex : ptensor nat := mkPT (fun c => match c with [i; j] => 10 * i + j | _ => 0 end)
                                      [(1%positive, 2); (2%positive, 3)] [Phys 1 2; Phys 2 3] 99.

Example reshape_ex :
  exists r nx', pt_reshape nat 0 [6] 3 rs_ex = Ok (r, nx') /\ wf nat r /\ shape nat r = [6] /\
    denote nat r [5] = 12 /\ denote nat rs_ex [1; 2] = 12 /\
    (forall s' goals nx st', (0 = 0 -> s' = [6]) -> goal_axes s' 3 = (goals, nx) ->
       unify (rs_fuel nat goals rs_ex) (productAxis goals) (productAxis (vaxes rs_ex)) (ustate0 nx) = Ok (true, st') ->
       complete_for nx (productAxis goals) (productAxis (vaxes rs_ex)) (us_subst st') /\
       solvable (us_subst st') /\
       size_preserving (us_subst st') (goals ++ paxes_axes' (paxes rs_ex))).
Proof.
  do 2 eexists. split; [vm_compute; reflexivity|]. split.
  { constructor; cbn [paxes vaxes].
    - simpl. repeat constructor; simpl; intuition discriminate.
    - intros k n. simpl. intuition. }
  split; [reflexivity|]. split; [reflexivity|]. split; [reflexivity|].
  intros s' goals nx st' Hs Eg Eu. rewrite (Hs eq_refl) in Eg. vm_compute in Eg. inversion Eg; subst goals nx. clear Eg Hs.
  vm_compute in Eu. inversion Eu; subst st'. clear Eu. cbn [us_subst].
  set (P := Prod [Phys 1 2; Phys 2 3]).
  split; [|split].
  - intros rho _ R2 E. exists rho. split; [intros k _; reflexivity|]. split.
    + constructor; [|constructor]. cbn [snd]. exact R2.
    + constructor; [|constructor]. cbn [fst snd]. exact E.
  - intros g. exists (fun k => if Pos.eqb k 3 then eval g P else g k). split.
    + constructor; [|constructor]. cbn [fst snd]. reflexivity.
    + intros k Hk. destruct (Pos.eqb_spec k 3) as [->|_]; [discriminate Hk|reflexivity].
  - split.
    + intros k c Hk. simpl in Hk. destruct (Pos.eqb_spec 3 k) as [<-|_]; [|discriminate]. inversion Hk; subst c.
      intros k' n' c' Hk' Ha. simpl in Hk'. simpl in Ha.
      destruct Hk' as [Hk'|[Hk'|[]]]; inversion Hk'; subst; simpl in Ha; discriminate.
    + intros e He k n c Hk Ha. simpl in He. destruct He as [<-|[<-|[<-|[]]]]; simpl in Hk; destruct Hk as [Hk|[]]; inversion Hk; subst;
        simpl in Ha; inversion Ha; subst; reflexivity.
Qed.

