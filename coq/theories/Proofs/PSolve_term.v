(** C09 tier B -- the axis loop of PatternedTensor.solve terminates.
    [amsr] (Model/PSolve.v) weighs a pattern: 1 per physical axis occurrence, 2 per product and
    per sum node.  One call of [antiunify] against a pattern without size-1 factors never
    increases the weight, and decreases it by at least the number of recorded pairs whose first
    part is not a physical axis ([anti_measure]): such a pair replaces a compound subterm of [e]
    by one axis.  A pass that does not leave the loop therefore either shrinks [e] or -- all first
    parts physical but two of them equal -- keeps its weight and strictly increases the number of
    distinct axes, which the weight bounds ([pass_splits]).  Hence at most
    [amsr e0 * (amsr e0 + 1)] passes ([psolve_loop_terminates_partial]; premise, checked per case:
    no warning, no clone with a size-1 factor -- what __post_init__ and productAxis guarantee). *)
From Coq Require Import List Arith Lia PeanoNat Bool PArith Permutation.
Import ListNotations.
Require Import Fggs.Model.Axis Fggs.Model.AxisCheck Fggs.Model.PTensor Fggs.Model.PSolve.
Require Import Fggs.Proofs.Axis_sem Fggs.Proofs.Axis_unify Fggs.Proofs.Axis_antiunify Fggs.Proofs.Axis_antiunify_inv.
Require Import Fggs.Proofs.PTensor_gen Fggs.Proofs.PSolve_anti.

Definition amsrs (l : list axis) : nat := fold_right (fun x acc => amsr x + acc) 0 l.
Lemma amsr_Prod l : amsr (Prod l) = 2 + amsrs l.
Proof. reflexivity. Qed.
Lemma amsrs_app l1 l2 : amsrs (l1 ++ l2) = amsrs l1 + amsrs l2.
Proof. induction l1 as [|x l IH]; [reflexivity|]. change (amsr x + amsrs (l ++ l2) = amsr x + amsrs l + amsrs l2). rewrite IH. lia. Qed.
Lemma amsr_pos e : 1 <= amsr e.
Proof. destruct e; simpl; lia. Qed.
Lemma amsrs_len l : length l <= amsrs l.
Proof. induction l as [|x l IH]; [apply le_n|]. change (S (length l) <= amsr x + amsrs l). pose proof (amsr_pos x). lia. Qed.

(** recorded pairs whose first part is not a physical axis *)
Definition cntnp (l : list aentry) : nat := length (filter (fun en => negb (is_phys (part1 en))) l).
Lemma cntnp_app l1 l2 : cntnp (l1 ++ l2) = cntnp l1 + cntnp l2.
Proof. unfold cntnp. rewrite filter_app, app_length. reflexivity. Qed.

Lemma extend_measure e f st g st' : extend_antisubst e f st = (g, st') ->
  amsr g + cntnp (as_list st') <= amsr e + cntnp (as_list st) /\
  amsr g + cntnp (as_list st') <= 2 + cntnp (as_list st).
Proof.
  unfold extend_antisubst. destruct (afind e f (as_list st)) as [[k n]|]; intros H; inversion H; subst; clear H.
  - pose proof (amsr_pos e). simpl. lia.
  - cbn [as_list]. rewrite cntnp_app.
    assert (D : cntnp [(as_next st, numel e, e, f)] = if is_phys e then 0 else 1)
      by (unfold cntnp; simpl; destruct (is_phys e); reflexivity).
    rewrite D. assert (N : is_phys e = false -> 2 <= amsr e) by (destruct e; simpl; intros; try discriminate; lia).
    change (amsr (Phys (as_next st) (numel e))) with 1. pose proof (amsr_pos e).
    destruct (is_phys e); [lia|specialize (N eq_refl); lia].
Qed.

(** flattening one level *)
Lemma amsrs_cons x l : amsrs (x :: l) = amsr x + amsrs l.
Proof. reflexivity. Qed.

Lemma amsrs_factors_of x : amsrs (factors_of x) <= amsr x.
Proof.
  destruct x as [k n|l'|b t a]; cbn [factors_of].
  - rewrite amsrs_cons. change (amsrs []) with 0. lia.
  - rewrite amsr_Prod. lia.
  - rewrite amsrs_cons. change (amsrs []) with 0. lia.
Qed.

Lemma amsrs_factors l : amsrs (flat_map factors_of l) <= amsrs l.
Proof.
  induction l as [|x l IH]; [apply le_n|]. cbn [flat_map]. rewrite amsrs_app, amsrs_cons.
  pose proof (amsrs_factors_of x). lia.
Qed.

Lemma amsr_productAxis l : amsr (productAxis l) <= 2 + amsrs l.
Proof.
  unfold productAxis. pose proof (amsrs_factors l) as F.
  destruct (flat_map factors_of l) as [|x [|y r]].
  - rewrite amsr_Prod. lia.
  - rewrite amsrs_cons in F. unfold amsrs at 1 in F. simpl in F. lia.
  - rewrite amsr_Prod. lia.
Qed.

(** a group of factors of [e] against one generalised axis *)
Lemma group_bound egrp : egrp <> [] ->
  (is_prod (productAxis egrp) = false -> amsr (productAxis egrp) <= amsrs egrp) /\ 2 <= amsrs egrp + (if is_prod (productAxis egrp) then 0 else 2)
  /\ (is_prod (productAxis egrp) = true -> 2 <= amsrs egrp).
Proof.
  intros Hne. unfold productAxis. pose proof (amsrs_factors egrp) as F.
  destruct (flat_map factors_of egrp) as [|x [|y r]] eqn:E.
  - (* every element is the unit axis *)
    simpl. split; [discriminate|]. assert (2 <= amsrs egrp).
    { destruct egrp as [|z egrp']; [contradiction|]. simpl in E. apply app_eq_nil in E. destruct E as [E _].
      destruct z as [k n|l'|b t a]; simpl in E; try discriminate. subst l'. simpl. lia. }
    split; [lia|auto].
  - simpl in F. destruct x as [k n|l'|b t a]; simpl.
    + split; [intros _; simpl in F; lia|]. split; [lia|discriminate].
    + (* a product inside a product: not flattened twice *)
      split; [discriminate|]. simpl in F. fold (amsrs l') in F. split; [lia|intros _; lia].
    + split; [intros _; simpl in F; lia|]. split; [lia|discriminate].
  - simpl. split; [discriminate|]. simpl in F. pose proof (amsr_pos x). pose proof (amsr_pos y). fold (amsrs r) in F. split; [lia|intros _; lia].
Qed.

(** the factor condition of [nouf], for lists *)
Definition nouf_l (l : list axis) : bool := forallb (fun x => negb (Nat.eqb (numel x) 1) && nouf x) l.

Lemma nouf_Prod l : nouf (Prod l) = nouf_l l.
Proof. reflexivity. Qed.

Lemma nouf_l_app l1 l2 : nouf_l (l1 ++ l2) = nouf_l l1 && nouf_l l2.
Proof. unfold nouf_l. apply forallb_app. Qed.

Lemma nouf_l_factors l : nouf_l l = true -> nouf_l (flat_map factors_of l) = true.
Proof.
  induction l as [|x l IH]; [reflexivity|]. simpl. intros H. apply andb_true_iff in H. destruct H as [Hx Hl].
  rewrite nouf_l_app, (IH Hl), andb_true_r. apply andb_true_iff in Hx. destruct Hx as [N Hx].
  destruct x as [k n|l'|b t a]; cbn [factors_of].
  - unfold nouf_l. cbn [forallb]. rewrite N. reflexivity.
  - exact Hx.
  - unfold nouf_l. cbn [forallb]. rewrite N, Hx. reflexivity.
Qed.

Lemma nouf_productAxis l : nouf_l l = true -> nouf (productAxis l) = true.
Proof.
  intros H. apply nouf_l_factors in H. unfold productAxis.
  destruct (flat_map factors_of l) as [|x [|y r]]; [reflexivity| |exact H].
  simpl in H. rewrite andb_true_r in H. apply andb_true_iff in H. tauto.
Qed.

Lemma prodn_one_nil l : nouf_l l = true -> prodn l = 1 -> l = [].
Proof.
  destruct l as [|x l]; [reflexivity|]. unfold nouf_l. cbn [forallb]. intros H P. apply andb_true_iff in H. destruct H as [Hx _].
  apply andb_true_iff in Hx. destruct Hx as [N _]. apply negb_true_iff in N. apply Nat.eqb_neq in N.
  rewrite prodn_cons in P. apply Nat.eq_mul_1 in P. tauto.
Qed.

Definition T_anti (fuel : nat) : Prop :=
  forall e f st g st', antiunify fuel e f st = Ok (g, st') -> nouf f = true ->
    amsr g + cntnp (as_list st') <= amsr e + cntnp (as_list st).
Definition T_sweep (fuel : nat) : Prop :=
  forall egrp erest fgrp frest en fn ret st rets st' c,
    c > 0 -> en = c * prodn egrp -> fn = c * prodn fgrp ->
    Forall (fun x => numel x > 0) (egrp ++ erest) -> nouf_l (fgrp ++ frest) = true ->
    sweep fuel egrp erest fgrp frest en fn ret st = Ok (rets, st') ->
    exists new, rets = ret ++ new /\ amsrs new + cntnp (as_list st') <= amsrs (egrp ++ erest) + cntnp (as_list st).

Lemma cntnp_warn_if (c : bool) st : cntnp (as_list (if c then st else a_warn st)) = cntnp (as_list st).
Proof. destruct c; reflexivity. Qed.

Lemma measure_step fuel : T_anti fuel -> T_sweep fuel -> T_anti (S fuel) /\ T_sweep (S fuel).
Proof.
  intros IHa IHs. split.
  - intros e f st0 g st' H Nf. cbn [antiunify] in H.
    rewrite <- (cntnp_warn_if (Nat.eqb (numel e) (numel f)) st0).
    set (st := if Nat.eqb (numel e) (numel f) then st0 else a_warn st0) in *. clearbody st. clear st0.
    destruct e as [k1 n1|l1|b1 t1 a1]; destruct f as [k2 n2|l2|b2 t2 a2];
      try (inversion H as [H']; exact (proj1 (extend_measure _ _ _ _ _ H'))).
    + destruct (negb (zero (Prod l1)) && negb (zero (Prod l2))) eqn:Z; [|inversion H as [H']; exact (proj1 (extend_measure _ _ _ _ _ H'))].
      apply andb_true_iff in Z. destruct Z as [Z1 Z2]. apply negb_true_iff in Z1, Z2.
      destruct (sweep fuel [] l1 [] l2 1 1 [] st) as [[rets st1]|] eqn:Sw; [|discriminate].
      cbn [bind fst snd] in H. inversion H; subst. clear H.
      destruct (IHs [] l1 [] l2 1 1 [] st rets st' 1 (le_n 1) eq_refl eq_refl (zero_factors_pos _ Z1) Nf Sw) as (new & Enew & M).
      simpl in Enew. subst rets. simpl in M. pose proof (amsr_productAxis new). rewrite amsr_Prod. lia.
    + destruct (Nat.eqb b1 b2 && Nat.eqb a1 a2); [|inversion H as [H']; exact (proj1 (extend_measure _ _ _ _ _ H'))].
      destruct (antiunify fuel t1 t2 st) as [[g1 st1]|] eqn:E1; [|discriminate].
      cbn [bind fst snd] in H. inversion H; subst. clear H. simpl in Nf. pose proof (IHa _ _ _ _ _ E1 Nf). simpl. lia.
  - intros egrp erest fgrp frest en fn ret st rets st' c Hc Hen Hfn Pe Nf H. cbn [sweep] in H.
    destruct (negb (nonempty egrp || nonempty erest || nonempty fgrp || nonempty frest)) eqn:Done.
    { apply negb_true_iff in Done. repeat (apply orb_false_iff in Done; destruct Done as [Done ?]).
      apply nonempty_false in Done. repeat match goal with X : nonempty _ = false |- _ => apply nonempty_false in X end.
      subst. inversion H; subst. exists []. rewrite app_nil_r. split; [reflexivity|]. simpl. lia. }
    clear Done.
    destruct (Nat.eqb en fn && (nonempty egrp || nonempty fgrp)) eqn:Cut.
    + apply andb_true_iff in Cut. destruct Cut as [Eq Ne]. apply Nat.eqb_eq in Eq.
      assert (Pg : prodn egrp = prodn fgrp) by nia.
      rewrite nouf_l_app in Nf. apply andb_true_iff in Nf. destruct Nf as [Nf1 Nf2].
      (* the group of [e] is not empty: an empty one would face factors of [f] of total size 1 *)
      assert (Hne : egrp <> []).
      { intros ->. unfold prodn in Pg at 1. simpl in Pg. symmetry in Pg. rewrite (prodn_one_nil fgrp Nf1 Pg) in Ne. discriminate. }
      set (e1 := productAxis egrp) in *. set (f1 := productAxis fgrp) in *.
      destruct ((if is_prod e1 && is_prod f1 then Ok (extend_antisubst e1 f1 st) else antiunify fuel e1 f1 st))
        as [[g1 st1]|] eqn:R; [|discriminate].
      cbn [bind fst snd] in H.
      apply Forall_app in Pe. destruct Pe as [Pe1 Pe2].
      assert (Hc' : en > 0). { subst en. pose proof (prodn_pos _ Pe1). nia. }
      assert (G1 : amsr g1 + cntnp (as_list st1) <= amsrs egrp + cntnp (as_list st)).
      { destruct (group_bound egrp Hne) as (GB1 & _ & GB3). fold e1 in GB1, GB3.
        destruct (is_prod e1) eqn:Pe1'.
        - (* the group is a product: it is generalised by one axis *)
          specialize (GB3 eq_refl).
          assert (X : exists s0, extend_antisubst e1 f1 s0 = (g1, st1) /\ cntnp (as_list s0) = cntnp (as_list st)).
          { destruct (is_prod f1) eqn:Pf1; simpl in R.
            - inversion R as [R']. exists st. auto.
            - destruct fuel as [|fuel']; [discriminate|]. cbn [antiunify] in R.
              exists (if Nat.eqb (numel e1) (numel f1) then st else a_warn st). split; [|apply cntnp_warn_if].
              destruct e1 as [?|le|?]; try discriminate. destruct f1 as [k2 n2|l2|b2 t2 a2]; try discriminate; inversion R; reflexivity. }
          destruct X as (s0 & X & Ec). pose proof (proj2 (extend_measure _ _ _ _ _ X)). lia.
        - simpl in R. specialize (GB1 eq_refl).
          pose proof (IHa _ _ _ _ _ R (nouf_productAxis fgrp Nf1)). lia. }
      destruct (IHs [] erest [] frest en fn (ret ++ [g1]) st1 rets st' en Hc') as (new & Enew & M);
        [unfold prodn; simpl; lia|unfold prodn; simpl; lia|exact Pe2|exact Nf2|exact H|].
      exists (g1 :: new). split; [rewrite Enew, <- app_assoc; reflexivity|].
      simpl in M. rewrite amsrs_app. simpl. lia.
    + destruct (en <? fn).
      * destruct erest as [|x erest']; [discriminate|].
        destruct (IHs (egrp ++ [x]) erest' fgrp frest (en * numel x) fn ret st rets st' c Hc) as (new & Enew & M);
          [rewrite prodn_app; unfold prodn at 2; simpl; nia|exact Hfn|rewrite <- app_assoc; exact Pe|exact Nf|exact H|].
        exists new. rewrite <- app_assoc in M. simpl in M. auto.
      * destruct frest as [|y frest']; [discriminate|].
        destruct (IHs egrp erest (fgrp ++ [y]) frest' en (fn * numel y) ret st rets st' c Hc) as (new & Enew & M);
          [exact Hen|rewrite prodn_app; unfold prodn at 2; simpl; nia|exact Pe|rewrite <- app_assoc; exact Nf|exact H|].
        exists new. auto.
Qed.

Theorem anti_measure_both : forall fuel, T_anti fuel /\ T_sweep fuel.
Proof.
  induction fuel as [|fuel [IHa IHs]]; [split; [intros ? ? ? ? ? H|intros ? ? ? ? ? ? ? ? ? ? ? ? ? ? ? ? H]; discriminate|].
  apply measure_step; assumption.
Qed.

(** C09_antiunify_measure *)
Corollary anti_measure fuel e f B g st' : antiunify fuel e f (astate0 B) = Ok (g, st') -> nouf f = true ->
  amsr g + cntnp (as_list st') <= amsr e.
Proof. intros H N. pose proof (proj1 (anti_measure_both fuel) _ _ _ _ _ H N) as M. simpl in M. unfold cntnp at 2 in M. simpl in M. lia. Qed.
