(** [tree_decomposition(method='acb')] is TOTAL and OPTIMAL for every simple undirected graph:
    it returns (no assertion fails, the loop [for k in range(1, ub+1)] finds a k), the result is a
    valid tree decomposition, and its width IS the treewidth.

    - [acb_connected_w]: a tree returned by [acb_connected g k] has bags of at most k+1 vertices;
    - [acb_try_k_spec]: for a connected component with treewidth tau >= 1 the loop over k
      answers False for k < tau (a tree of width <= k would contradict tau being the treewidth;
      an error is impossible by [acb_connected_spec]) and a tree at k = tau <= upper bound;
    - components with upper bound 0 are single vertices; the treewidth of a component is at most
      that of the graph ([tw_restrict]); the empty root bag that joins the component trees does not
      change the width. *)
From Coq Require Import List Arith Bool PeanoNat Lia Permutation.
Import ListNotations.
Require Import Fggs.Model.TreeDec Fggs.Proofs.TreeDec_graph Fggs.Proofs.TreeDec_tdok
               Fggs.Proofs.TreeDec_elim Fggs.Proofs.TreeDec_qbb Fggs.Proofs.TreeDec_tw
               Fggs.Proofs.TreeDec_complete Fggs.Proofs.TreeDec_lower
               Fggs.Proofs.TreeDec_rtree Fggs.Proofs.TreeDec_cc Fggs.Proofs.TreeDec_acb
               Fggs.Proofs.TreeDec_acbopt_cc Fggs.Proofs.TreeDec_acbopt_elim
               Fggs.Proofs.TreeDec_acbopt_nf Fggs.Proofs.TreeDec_acbopt_main
               Fggs.Proofs.TreeDec_acbopt_tryv Fggs.Proofs.TreeDec_acbopt_loop.

(** * width of the trees built by [acb_connected] *)
Definition wok (k : nat) (t : rtree) : Prop := forall b, In b (rbags t) -> length b <= k + 1.
Definition chart_w (k : nat) (ch : chart_t) : Prop :=
  forall (p : bag * list (bag * cell)) (q : bag * cell) t,
    In p ch -> In q (snd p) -> cell_yes (snd q) = Some t -> wok k t.

Lemma wok_mono k k' t : k <= k' -> wok k t -> wok k' t.
Proof. intros L H b Hb. specialize (H b Hb). lia. Qed.
Lemma wok_node k b cs : length b <= k + 1 -> Forall (wok k) cs -> wok k (RNode b cs).
Proof.
  intros Lb F b0 Hb0. apply in_rbags_node in Hb0. destruct Hb0 as [->|[c [Hc Hb0]]]; auto.
  rewrite Forall_forall in F. exact (F c Hc b0 Hb0).
Qed.
Lemma set_add_length_le x l : length (set_add x l) <= S (length l).
Proof. unfold set_add. destruct (mem x l); [lia|rewrite ins_length; lia]. Qed.

Lemma try_l_none_gen jb m q : try_l jb m None q = None.
Proof. reflexivity. Qed.
Lemma fold_try_l_none_gen jb m row : fold_left (try_l jb m) row None = None.
Proof. induction row as [|q row IH]; cbn [fold_left]; auto. Qed.

Lemma try_l_w k jb m (q : bag * cell) st st' :
  (forall t, cell_yes (snd q) = Some t -> wok k t) ->
  try_l jb m (Some st) q = Some st' -> Forall (wok k) (snd st) -> Forall (wok k) (snd st').
Proof.
  intros Hq H F. destruct st as [union children]. unfold try_l in H.
  destruct (cell_yes (snd q)) as [t|]; [|inversion H; subst; exact F].
  destruct (subset (set_diff (fst q) m) jb); [|inversion H; subst; exact F].
  destruct (length (set_inter (set_diff (fst q) m) union) =? 0).
  - inversion H; subst. cbn [snd] in *. apply Forall_app. split; auto.
  - destruct (subset (set_diff (fst q) m) union); [inversion H; subst; exact F|discriminate].
Qed.
Lemma fold_try_l_w k jb m (row : list (bag * cell)) :
  (forall q t, In q row -> cell_yes (snd q) = Some t -> wok k t) ->
  forall ost st', fold_left (try_l jb m) row ost = Some st' ->
    (forall st, ost = Some st -> Forall (wok k) (snd st)) -> Forall (wok k) (snd st').
Proof.
  induction row as [|q row IH]; intros Hrow ost st' H F; cbn [fold_left] in H; [auto|].
  destruct ost as [st|]; [|rewrite fold_try_l_none_gen in H; discriminate].
  apply (IH (fun q0 t H0 => Hrow q0 t (or_intror H0)) _ _ H).
  intros st1 E1. eapply try_l_w; [|exact E1|auto]. intros t. apply Hrow. cbn; auto.
Qed.
Lemma fold_tv_w k (ch : chart_t) bg jb : chart_w k ch ->
  forall us ost st', fold_left (tv_fun ch bg jb) us ost = Some st' ->
    (forall st, ost = Some st -> Forall (wok k) (snd st)) -> Forall (wok k) (snd st').
Proof.
  intros CW. induction us as [|u us IH]; intros ost st' H F; cbn [fold_left] in H; [auto|].
  apply (IH _ _ H). intros st1 E1. unfold tv_fun in E1. cbv zeta in E1.
  destruct (chart_get ch (set_remove u bg)) as [row|] eqn:Eg; [|auto].
  destruct (chart_get_spec ch _ row Eg) as [p [Hp [Es _]]].
  apply (fold_try_l_w k jb (set_remove u bg) row) with (ost := ost); auto.
  intros q t Hq. apply (CW p q t Hp). now rewrite Es.
Qed.
Lemma try_vs_w k (ch : chart_t) (i j : bag) : chart_w k ch -> length i <= k ->
  forall vs t, try_vs ch i j vs = Some (Some t) -> wok k t.
Proof.
  intros CW Li. induction vs as [|v vs IH]; intros t H; [discriminate|].
  rewrite try_vs_cons in H.
  destruct (fold_left (tv_fun ch (set_add v i) (set_diff j (set_add v i))) i (Some ([], [])))
    as [[union children]|] eqn:E; [|discriminate].
  destruct (set_eqb union (set_diff j (set_add v i))); [|auto].
  inversion H; subst t. apply wok_node.
  - pose proof (set_add_length_le v i). lia.
  - apply (fold_tv_w k ch _ _ CW i _ _ E). intros st Es. inversion Es; subst. constructor.
Qed.

Lemma acb_main_w k : forall es (ch : chart_t) dead t, chart_w k ch ->
  (forall h (i j : bag), In (h, i, j) es -> h = length j /\ length i <= k) ->
  acb_main ch dead es k = ATree t -> wok k t.
Proof.
  induction es as [|[[h i] j] es IH]; intros ch dead t CW Hes H; [discriminate|].
  rewrite acb_main_eq in H. destruct (Hes h i j (or_introl eq_refl)) as [Eh Li].
  destruct (acb_step_r ch k h i j) as [ans|] eqn:Er; [|discriminate].
  assert (Hans : forall t0, cell_yes (cell_of ans) = Some t0 -> wok k t0).
  { intros t0 Ht0. destruct ans as [t1|]; cbn in Ht0; [|discriminate]. inversion Ht0; subst t1.
    unfold acb_step_r in Er. destruct (h <=? k + 1) eqn:Eh1.
    - inversion Er; subst. apply Nat.leb_le in Eh1. apply wok_node; [lia|constructor].
    - eapply try_vs_w; eauto. }
  cbv zeta in H.
  assert (CW1 : chart_w k (chart_set ch i j (cell_of ans))).
  { intros p' q' t0 Hp' Hq' Ht0.
    destruct (chart_set_cells' ch i j (cell_of ans) p' q' Hp' Hq')
      as [p [q [H1 [H2 [_ [_ [[_ [_ E3]]|[_ E3]]]]]]]]; rewrite E3 in Ht0; eauto. }
  destruct (length _ =? length _); [discriminate|].
  destruct (chart_get (chart_set ch i j (cell_of ans)) i) as [row|] eqn:Eg; [|discriminate].
  destruct (row_trees row) as [ts|] eqn:Ets.
  - inversion H; subst t. destruct (row_trees_spec row ts Ets) as [-> Hyes].
    destruct (chart_get_spec _ _ row Eg) as [p [Hp [Es _]]].
    apply wok_node; [lia|]. apply Forall_forall. intros t0 Ht0. apply in_map_iff in Ht0.
    destruct Ht0 as [q [<- Hq]]. apply (CW1 p q (tree_of q) Hp); [now rewrite Es|now apply Hyes].
  - eapply IH; eauto. intros h0 i0 j0 Hin. apply Hes. cbn; auto.
Qed.

Lemma sort_set_length l : length (sort_set l) <= length l.
Proof.
  apply NoDup_incl_length; [apply sort_set_NoDup|]. intros x Hx. now apply (proj1 (sort_set_In _ _)).
Qed.

Theorem acb_connected_w g k t : wf_graph g -> acb_connected g k = ATree t -> wok k t.
Proof.
  intros W H. unfold acb_connected in H.
  destruct (connected_components g []) as [[|c [|c2 cs]]|]; try discriminate.
  destruct (length g <=? k + 1) eqn:El.
  - inversion H; subst t. apply Nat.leb_le in El. apply wok_node; [|constructor].
    pose proof (sort_set_length (gverts g)). unfold gverts in *. rewrite map_length in *. lia.
  - destruct (bc_fold_spec g W (combinations (gverts g) k) []) as [ch' [F [A _]]].
    change (build_chart g k = Some ch') in F. rewrite F in H.
    destruct (length ch' =? 0); [discriminate|].
    apply (acb_main_w k (bysize ch') ch' [] t); auto.
    + intros p q t0 Hp Hq Ht0. destruct (A p Hp) as [_ [comps [_ [_ Es]]]]. rewrite Es in Hq.
      unfold new_row in Hq. apply in_map_iff in Hq. destruct Hq as [c0 [<- _]]. discriminate.
    + intros h i j Hin. apply bysize_In, entries_In in Hin. destruct Hin as [p [q [Hp [Hq [-> [-> ->]]]]]].
      split; auto. destruct (A p Hp) as [Hc _]. destruct (combinations_spec _ _ _ Hc) as [L _]. lia.
Qed.

Lemma max_len_le (bs : list bag) n : (forall b, In b bs -> length b <= n) ->
  fold_right Nat.max 0 (map (@length nat) bs) <= n.
Proof.
  induction bs as [|b bs IH]; intro H; cbn [map fold_right]; [lia|].
  apply Nat.max_lub; [apply H; cbn; auto|apply IH; intros; apply H; cbn; auto].
Qed.
Lemma wok_width k t : wok k t -> width (rbags t, redges 0 t) <= k.
Proof.
  intro H. unfold width, max_bag. cbn [fst]. pose proof (max_len_le (rbags t) (k + 1) H). lia.
Qed.
Lemma rtd_wok_tw g t k : wf_graph g -> rtd g t -> wok k t -> tw_perm g <= k.
Proof.
  intros W R Hw. destruct (rtd_valid g t R) as [_ V].
  pose proof (td_width_lower_bound g _ W V). pose proof (wok_width k t Hw). lia.
Qed.

(** * components *)
Lemma restrict_conn g c : wf_graph g -> compP g [] c -> connP (restrict g c) (inl c).
Proof.
  intros W [_ K] a b Ha Hb. eapply walk_mono; [|apply (K a b Ha Hb)].
  intros x y [Hx [Hy Hxy]]. split; auto. split; auto. rewrite nbrs_restrict; auto.
Qed.

Lemma restrict_connected g c : wf_graph g -> compP g [] c ->
  exists c', connected_components (restrict g c) [] = Some [c'].
Proof.
  intros W CP. pose proof (wf_restrict g c W (proj1 CP)) as Wc.
  destruct (cc_total (restrict g c) [] Wc) as [comps Hc].
  destruct (cc_spec (restrict g c) [] Wc comps Hc) as [C1 [C2 C3]].
  pose proof (restrict_conn g c W CP) as K.
  assert (Hin : forall a x, In a comps -> In x a -> In x c).
  { intros a x Ha Hx. rewrite Forall_forall in C1.
    destruct (co_out _ _ a (C1 a Ha) x Hx) as [H _]. now rewrite gverts_restrict in H. }
  destruct comps as [|a [|b r]].
  - exfalso. destruct c as [|x0 c0]; [exact (co_ne g [] _ (proj1 CP) eq_refl)|].
    destruct (C3 x0) as [a [[] _]]. split; [rewrite gverts_restrict; cbn; auto|intros []].
  - eauto.
  - exfalso. inversion C1 as [|? ? Ca C1']; subst. inversion C1' as [|? ? Cb _]; subst.
    inversion C2 as [|? ? Dab _]; subst. rewrite Forall_forall in Dab.
    destruct a as [|xa a0]; [exact (co_ne _ _ _ Ca eq_refl)|].
    destruct b as [|y b0]; [exact (co_ne _ _ _ Cb eq_refl)|].
    apply (Dab (y :: b0) (or_introl eq_refl) y); [|cbn; auto].
    apply (closed_walk (restrict g c) [] (xa :: a0) (inl c)) with (a := xa).
    + intros p q Hp Hq. exact (co_closed _ _ _ Ca p q Hp Hq).
    + intros x _ [].
    + apply K; [apply (Hin (xa :: a0)); cbn; auto|apply (Hin (y :: b0)); cbn; auto].
    + cbn; auto.
Qed.

Lemma tw_restrict g c : wf_graph g -> compP g [] c -> tw_perm (restrict g c) <= tw_perm g.
Proof.
  intros W CP. pose proof (wf_restrict g c W (proj1 CP)) as Wc.
  destruct (tw_perm_attained g) as [pi [P E]]. rewrite <- E.
  set (pc := filter (fun z => mem z c) pi).
  assert (Pc : Permutation pc (gverts (restrict g c))).
  { rewrite gverts_restrict. apply NoDup_Permutation.
    - apply NoDup_filter. eapply Permutation_NoDup; [apply Permutation_sym; exact P|apply W].
    - exact (co_nodup g [] c (proj1 CP)).
    - intro x. unfold pc. rewrite filter_In, mem_In. split; [tauto|]. intro Hx. split; auto.
      eapply Permutation_in; [apply Permutation_sym; exact P|]. apply (co_out g [] c (proj1 CP) x Hx). }
  etransitivity; [apply (tw_perm_le _ pc Pc)|].
  apply (restrict_order [] (fun z => mem z c) pi g (restrict g c)); auto.
  - intros z y Hz. apply mem_In in Hz. rewrite nbrs_restrict; auto. reflexivity.
  - intros z y Hz Hy. apply mem_In in Hz. destruct (co_closed g [] c (proj1 CP) z y Hz Hy) as [H|[]].
    left. now apply mem_In.
Qed.

Lemma conn_width_pos g : wf_graph g -> connP g (inl (gverts g)) -> 2 <= length g ->
  forall pi, Permutation pi (gverts g) -> 1 <= elim_width g pi.
Proof.
  intros W K L pi P.
  assert (Lv : length (gverts g) = length g) by (unfold gverts; apply map_length).
  destruct pi as [|v r]; [apply Permutation_length in P; cbn in P; lia|].
  assert (Hv : In v (gverts g)) by (eapply Permutation_in; [exact P|cbn; auto]).
  assert (Hz : exists z, In z (gverts g) /\ z <> v).
  { pose proof (wf_keys g W) as Nd. destruct (gverts g) as [|a [|b l]]; [cbn in Lv; lia|cbn in Lv; lia|].
    destruct (Nat.eq_dec a v) as [->|Hne].
    - exists b. split; [cbn; auto|]. inversion Nd as [|? ? Hn _]; subst. intro; subst. apply Hn. cbn; auto.
    - exists a. split; [cbn; auto|auto]. }
  destruct Hz as [z [Hz Hzv]].
  pose proof (K v z Hv Hz) as Wk. inversion Wk as [|? c0 ? [_ [_ Hc]] _]; subst; [congruence|].
  cbn [elim_width]. unfold deg. destruct (nbrs g v); [destruct Hc|cbn [length]; lia].
Qed.

(** * the loop [for k in range(1, ub+1)] on a connected component *)
Lemma acb_try_k_spec cg c : wf_graph cg -> connected_components cg [] = Some [c] -> gverts cg <> [] ->
  forall n kk, 1 <= kk -> kk <= tw_perm cg -> tw_perm cg < kk + n ->
    exists t, acb_try_k cg n kk = ATree t /\ wok (tw_perm cg) t /\ rtd cg t.
Proof.
  intros W Hc Hne. induction n as [|n IH]; intros kk H1 H2 H3; [lia|].
  cbn [acb_try_k]. pose proof (acb_connected_spec cg W kk c Hc) as S.
  destruct (acb_connected cg kk) as [|t|] eqn:E.
  - apply IH; lia.
  - destruct (acb_connected_ok cg W kk t H1 Hne E) as [R _].
    pose proof (acb_connected_w cg kk t W E) as Hw.
    pose proof (rtd_wok_tw cg t kk W R Hw) as Ht.
    exists t. split; auto. split; auto. replace (tw_perm cg) with kk by lia. exact Hw.
  - destruct S.
Qed.

(** * the loop over the components *)
Lemma acb_loop_total g : wf_graph g -> forall comps acc, Forall (compP g []) comps ->
  exists ts, acb_loop g comps acc = Some (acc ++ ts) /\ Forall (wok (tw_perm g)) ts.
Proof.
  intros W. induction comps as [|c comps IH]; intros acc F.
  - exists []. rewrite app_nil_r. split; [reflexivity|constructor].
  - inversion F as [|? ? CP F']; subst. cbn [acb_loop].
    set (cg := restrict g c).
    pose proof (wf_restrict g c W (proj1 CP)) as Wc. fold cg in Wc.
    assert (Hne : gverts cg <> []) by (unfold cg; rewrite gverts_restrict; exact (co_ne g [] c (proj1 CP))).
    assert (Lv : length (gverts cg) = length cg) by (unfold gverts; apply map_length).
    assert (Kc : connP cg (inl (gverts cg))).
    { unfold cg. rewrite gverts_restrict. now apply restrict_conn. }
    destruct (min_fill_reports_width cg (wf_keys cg Wc)) as [d [o [Em [P Ed]]]]. rewrite Em.
    pose proof (tw_restrict g c W CP) as Htw. fold cg in Htw.
    pose proof (tw_perm_le cg o P) as Hub.
    destruct (d =? 0) eqn:E0.
    + apply Nat.eqb_eq in E0.
      destruct (IH (acc ++ [RNode (sort_set (gverts cg)) []]) F') as [ts [E1 F1]].
      exists (RNode (sort_set (gverts cg)) [] :: ts). split; [rewrite E1, <- app_assoc; reflexivity|].
      constructor; auto. apply wok_node; [|constructor].
      assert (length cg <= 1).
      { destruct (le_lt_dec 2 (length cg)) as [L|L]; [|lia].
        pose proof (conn_width_pos cg Wc Kc L o P). lia. }
      pose proof (sort_set_length (gverts cg)). lia.
    + apply Nat.eqb_neq in E0.
      assert (L2 : 2 <= length cg).
      { destruct (le_lt_dec 2 (length cg)) as [L|L]; auto.
        pose proof (elim_width_bound o cg Wc P). destruct (gverts cg); [congruence|]. cbn in Lv. lia. }
      assert (Hpos : 1 <= tw_perm cg).
      { destruct (tw_perm_attained cg) as [o' [P' E']]. rewrite <- E'. now apply conn_width_pos. }
      destruct (restrict_connected g c W CP) as [c' Hc']. fold cg in Hc'.
      destruct (acb_try_k_spec cg c' Wc Hc' Hne d 1) as [t [Et [Hw _]]]; [lia|lia|lia|].
      rewrite Et.
      destruct (IH (acc ++ [t]) F') as [ts [E1 F1]].
      exists (t :: ts). split; [rewrite E1, <- app_assoc; reflexivity|].
      constructor; auto. eapply wok_mono; [|exact Hw]. exact Htw.
Qed.

(** * acb *)
Theorem acb_total_optimal g : wf_graph g ->
  exists t, acb g = Some t /\ valid_td g t /\ width t = tw_perm g.
Proof.
  intro W. destruct (cc_total g [] W) as [comps Ecc].
  destruct (cc_spec g [] W comps Ecc) as [C1 [C2 C3]].
  pose proof (cc_conn g [] W comps Ecc) as CK.
  assert (C3' : forall x, In x (gverts g) -> exists c, In c comps /\ In x c).
  { intros x Hx. apply C3. split; auto. }
  destruct (acb_loop_total g W comps [] CK) as [ts [El Fw]]. cbn [app] in El.
  pose proof (acb_loop_ok g W comps [] ts [] C1 (Forall2_nil _) El) as F. cbn [app] in F.
  assert (Fin : forall T, rtd g T -> wok (tw_perm g) T ->
            exists t, unroot T (Some ([], [])) = Some t /\ valid_td g t /\ width t = tw_perm g).
  { intros T R Hw. destruct (rtd_valid g T R) as [E V]. exists (rbags T, redges 0 T).
    split; auto. split; auto. apply Nat.le_antisymm; [now apply wok_width|].
    now apply td_width_lower_bound. }
  assert (Gen : exists t, unroot (RNode [] ts) (Some ([], [])) = Some t /\ valid_td g t /\ width t = tw_perm g).
  { apply Fin; [eapply forest_rtd; eauto|]. apply wok_node; [cbn; lia|exact Fw]. }
  unfold acb. rewrite Ecc, El.
  destruct ts as [|t1 [|t2 ts']]; auto.
  inversion F as [|c ? cs ? Hct F']; subst. inversion F'; subst.
  apply Fin.
  - inversion C1; subst. eapply (single_rtd g c); eauto.
    intros x Hx. destruct (C3' x Hx) as [c' [[<-|[]] Hc']]. exact Hc'.
  - inversion Fw; auto.
Qed.

(** * statements for Props/C10.v *)
Theorem cc_total_conn g s : wf_graph g ->
  exists comps, connected_components g s = Some comps /\ Forall (compP g s) comps.
Proof.
  intro W. destruct (cc_total g s W) as [comps H]. exists comps. split; auto. now apply cc_conn.
Qed.

Theorem acb_connected_complete g k c : wf_graph g -> connected_components g [] = Some [c] ->
  tw_perm g <= k -> exists t, acb_connected g k = ATree t.
Proof.
  intros W Hc Htw. pose proof (acb_connected_spec g W k c Hc) as S.
  destruct (acb_connected g k) as [|t|]; [lia|eauto|destruct S].
Qed.

Theorem acb_connected_total g k c : wf_graph g -> connected_components g [] = Some [c] ->
  acb_connected g k <> AError /\ (acb_connected g k = AFalse -> k < tw_perm g).
Proof.
  intros W Hc. pose proof (acb_connected_spec g W k c Hc) as S.
  destruct (acb_connected g k) as [|t|]; [split; [discriminate|auto]|split; discriminate|destruct S].
Qed.

Theorem acb_connected_sound_k g k t : wf_graph g -> 1 <= k -> gverts g <> [] ->
  acb_connected g k = ATree t ->
  valid_td g (rbags t, redges 0 t) /\ width (rbags t, redges 0 t) <= k /\ tw_perm g <= k /\
  (forall b, In b (rbags t) -> length b <= k + 1).
Proof.
  intros W Hk Hne H. destruct (acb_connected_ok g W k t Hk Hne H) as [R _].
  pose proof (acb_connected_w g k t W H) as Hw.
  split; [apply (rtd_valid g t R)|]. split; [now apply wok_width|]. split; [eapply rtd_wok_tw; eauto|exact Hw].
Qed.

Theorem acb_returns g m : wf_graph g -> 2 <= m -> exists t, tree_decomposition m g = Some t.
Proof.
  intros W Hm. destruct (acb_total_optimal g W) as [t [H _]]. exists t.
  destruct m as [|[|m]]; try lia. exact H.
Qed.

Theorem acb_optimal g m : wf_graph g -> 2 <= m ->
  exists t, tree_decomposition m g = Some t /\ valid_td g t /\ width t = tw_perm g.
Proof.
  intros W Hm. destruct (acb_total_optimal g W) as [t H]. exists t.
  destruct m as [|[|m]]; try lia. exact H.
Qed.

(** hypotheses satisfiable: the 4-cycle with a pendant vertex (treewidth 2) *)
Definition c4p : graph := [(0,[1;3]);(1,[0;2]);(2,[1;3;4]);(3,[0;2]);(4,[2])].
Example c4p_connected : connected_components c4p [] = Some [[0;1;2;3;4]].
Proof. reflexivity. Qed.
Example c4p_wf : wf_graphb c4p = true.
Proof. reflexivity. Qed.
Example c4p_tw : tw_perm c4p = 2.
Proof. vm_compute. reflexivity. Qed.
Example c4p_k1 : acb_connected c4p 1 = AFalse.
Proof. vm_compute. reflexivity. Qed.
Example c4p_k2 : exists t, acb_connected c4p 2 = ATree t.
Proof. eexists. vm_compute. reflexivity. Qed.
