(** Composition ("glue") for C09: carrier instances of the linear-solver theorems.
    The law records of the carriers ([sr_ring], [sr_ordered], [sr_star] of [bool_ops],
    [ereal_ops], [trop_ops]) are proved in Proofs/SemiringLaws.v (C08); here they are plugged
    into the theorems that kept them as explicit premises.  Nothing in this file has a law
    premise.  Each entry is a one-line instantiation; the statements are spelled out in
    Props/C09.v. *)
From Coq Require Import List Arith Bool PeanoNat Lia QArith Qcanon Permutation.
Import ListNotations.
Require Import Fggs.Model.Semiring Fggs.Model.EReal Fggs.Model.Trop Fggs.Model.Solve.
Require Import Fggs.Proofs.SolveElim Fggs.Proofs.SolveRefine Fggs.Proofs.SolveCarriers Fggs.Proofs.SolveBool
               Fggs.Proofs.SolveLU Fggs.Proofs.SolveBlock Fggs.Proofs.SolveMatInst.
Require Fggs.Proofs.SemiringLaws.
Local Open Scope nat_scope.

Local Notation bR := SemiringLaws.bool_ring. Local Notation bO := SemiringLaws.bool_ordered. Local Notation bS := SemiringLaws.bool_star.
Local Notation eR := SemiringLaws.ereal_ring. Local Notation eO := SemiringLaws.ereal_ordered. Local Notation eS := SemiringLaws.ereal_star.
Local Notation tR := SemiringLaws.trop_ring. Local Notation tO := SemiringLaws.trop_ordered. Local Notation tS := SemiringLaws.trop_star.

(** * C09 *)
Definition bool_solve_model_least := @solve_model_least_spec bool bool_ops bR bO bS.
Definition real_solve_model_least := @solve_model_least_spec ereal ereal_ops eR eO eS.
Definition trop_solve_model_least := @solve_model_least_spec trop trop_ops tR tO tS.

Definition bool_any_order_same_answer := @elim_any_order_eq bool bool_ops bR bO bS.
Definition real_any_order_same_answer := @elim_any_order_eq ereal ereal_ops eR eO eS.
Definition trop_any_order_same_answer := @elim_any_order_eq trop trop_ops tR tO tS.

Definition bool_elimination_least := @elim_any_order_least bool bool_ops bR bO bS.
Definition real_elimination_least := @elim_any_order_least ereal ereal_ops eR eO eS.
Definition trop_elimination_least := @elim_any_order_least trop trop_ops tR tO tS.

Definition real_least_is_series := @series_le_solve ereal ereal_ops eR eO eS.
Definition trop_least_is_series := @series_le_solve trop trop_ops tR tO tS.
Definition bool_series_exact_closed := bool_series_exact bR bO bS.

(** the oracle that judges every implementation output, with the decision procedures the check
    functions hand to it *)
Definition bool_oracle_sound :=
  @is_least_solution_b_sound bool bool_ops bR bO bS Bool.eqb bool_leb bool_eqb_eq bool_leb_iff.
Definition real_oracle_sound :=
  @is_least_solution_b_sound ereal ereal_ops eR eO eS eeqb eleb eeqb_eq eleb_iff.
Definition trop_oracle_sound :=
  @is_least_solution_b_sound trop trop_ops tR tO tS teqb tleb teqb_eq tleb_iff.

Definition real_lu_path_closed := real_lu_path eR eO eS.
Definition viterbi_code_star_solution_closed := viterbi_code_star_solution tR.
Definition viterbi_code_star_guarded_closed := viterbi_code_star_guarded tR tO tS.

Definition bool_matrix_block_elimination := @mat_block_elimination bool bool_ops bR bO bS.
Definition real_matrix_block_elimination := @mat_block_elimination ereal ereal_ops eR eO eS.
Definition trop_matrix_block_elimination := @mat_block_elimination trop trop_ops tR tO tS.
