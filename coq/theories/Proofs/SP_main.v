(** C01: the driver [sum_products_nonrec] over a dependency-respecting order of singleton
    components computes the Kleene iterates, i.e. the sums over all derivation trees; the
    tabulated specification [Ztab] is [Zk]; corollaries for the special shapes. *)
From Coq Require Import List Arith Bool PeanoNat Lia Permutation Ring Ring_theory.
Import ListNotations.
Require Import Fggs.Model.Semiring Fggs.Model.SCC Fggs.Model.SumProduct.
Require Import Fggs.Proofs.SCC_ntgraph Fggs.Proofs.BigSum Fggs.Proofs.SP_trees Fggs.Proofs.SP_nonrec
               Fggs.Proofs.SP_code Fggs.Proofs.SP_rename Fggs.Proofs.SP_spe Fggs.Proofs.SP_driver.

(** [ord] lists nonterminals, each after all the nonterminals its rules use ([done] = already evaluated) *)
Fixpoint dep_ordered (G : grammar) (done ord : list nat) : Prop :=
  match ord with
  | [] => True
  | X :: rest =>
    is_term G X = false
    /\ (forall r ed, In r (rules_of G X) -> In ed (r_edges r) -> is_term G (fst ed) = false -> In (fst ed) done)
    /\ dep_ordered G (done ++ [X]) rest
  end.

Lemma dep_ordered_split G : forall pre done X post,
  dep_ordered G done (pre ++ X :: post) ->
  is_term G X = false
  /\ (forall r ed, In r (rules_of G X) -> In ed (r_edges r) -> is_term G (fst ed) = false -> In (fst ed) (done ++ pre)).
Proof.
  induction pre as [|Y pre IH]; intros done X post H; cbn [app dep_ordered] in H.
  - rewrite app_nil_r. tauto.
  - destruct H as (_ & _ & H). specialize (IH _ _ _ H). rewrite <- app_assoc in IH. exact IH.
Qed.

Lemma dep_ordered_nonterminal G : forall ord done X, dep_ordered G done ord -> In X ord -> is_term G X = false.
Proof.
  intros ord done X H Hin. apply in_split in Hin. destruct Hin as (pre & post & ->).
  now apply dep_ordered_split in H.
Qed.

(** position of the first occurrence *)
Fixpoint index_of (X : nat) (l : list nat) : nat :=
  match l with [] => 0 | Y :: l => if Nat.eqb Y X then 0 else S (index_of X l) end.
Lemma index_of_lt X l : In X l -> index_of X l < length l.
Proof.
  induction l as [|Y l IH]; [intros []|]. intros Hin. cbn [index_of length].
  destruct (Nat.eqb Y X) eqn:E; [lia|]. apply Nat.eqb_neq in E. destruct Hin as [H|H]; [congruence|].
  specialize (IH H). lia.
Qed.
Lemma index_of_app_l X l l' : In X l -> index_of X (l ++ l') = index_of X l.
Proof.
  induction l as [|Y l IH]; [intros []|]. intros Hin. cbn [app index_of].
  destruct (Nat.eqb Y X) eqn:E; trivial. apply Nat.eqb_neq in E. destruct Hin as [H|H]; [congruence|]. now rewrite IH.
Qed.
Lemma index_of_first X pre post : ~ In X pre -> index_of X (pre ++ X :: post) = length pre.
Proof.
  induction pre as [|Y pre IH]; intros Hn; cbn [app index_of length]; [now rewrite Nat.eqb_refl|].
  destruct (Nat.eqb Y X) eqn:E; [apply Nat.eqb_eq in E; exfalso; apply Hn; now left|].
  rewrite IH; trivial. intros H. apply Hn. now right.
Qed.
Lemma in_split_first (X : nat) l : In X l -> exists pre post, l = pre ++ X :: post /\ ~ In X pre.
Proof.
  induction l as [|Y l IH]; [intros []|]. intros Hin.
  destruct (Nat.eq_dec Y X) as [->|Hne]; [exists [], l; split; [reflexivity|intros []]|].
  destruct Hin as [H|H]; [congruence|]. destruct (IH H) as (pre & post & -> & Hn).
  exists (Y :: pre), post. split; [reflexivity|]. intros [H'|H']; [congruence|tauto].
Qed.

(** a dependency-respecting order that lists every nonterminal yields a rank function *)
Theorem dep_ordered_ranked G ord :
  dep_ordered G [] ord -> (forall X, is_term G X = false -> In X ord) ->
  ranked G (fun X => index_of X ord).
Proof.
  intros Hd Hall r Hr HX ed Hed Ht.
  destruct (in_split_first _ _ (Hall _ HX)) as (pre & post & E & Hn).
  rewrite E in Hd. apply dep_ordered_split in Hd. destruct Hd as [_ Hd]. cbn [app] in Hd.
  assert (Hin : In (fst ed) pre).
  { apply (Hd r ed); trivial. apply in_rules_of. tauto. }
  rewrite E, (index_of_first _ _ _ Hn), index_of_app_l by exact Hin. now apply index_of_lt.
Qed.

Lemma nonrecursive_order_singletons G order :
  nonrecursive_order G order = true -> order = map (fun x => [x]) (concat order).
Proof.
  unfold nonrecursive_order. induction order as [|c order IH]; [reflexivity|]. cbn [forallb].
  rewrite andb_true_iff. intros [Hc H]. destruct c as [|x [|y c]]; try discriminate.
  cbn [concat app map]. f_equal. now apply IH.
Qed.

Lemma tget_map_In {R} (g : nat -> table (R:=R)) l X : In X l -> tget (map (fun X => (X, g X)) l) X = Some (g X).
Proof.
  induction l as [|Y l IH]; [intros []|]. intros Hin. cbn [map tget].
  destruct (Nat.eqb Y X) eqn:E; [apply Nat.eqb_eq in E; now subst|].
  apply Nat.eqb_neq in E. destruct Hin as [H|H]; [congruence|now apply IH].
Qed.

Section Main.
Context {R : Type} (o : sr_ops R).
Hypothesis Hr : sr_ring o.
Add Ring RingR6 : (sr_is_srt o Hr).

Variable G : grammar.
Hypothesis Hwf : wf_grammar G = true.

Lemma rules_of_wf X r : In r (rules_of G X) -> wf_rule G r = true.
Proof. intros H. apply in_rules_of in H. apply (wf_grammar_rules G Hwf). tauto. Qed.

Lemma edge_arg_in_range r ed a :
  wf_rule G r = true -> In ed (r_edges r) -> In a (all_assts (node_sizes G r)) ->
  In (sel a (snd ed)) (all_assts (lshape G (fst ed))).
Proof.
  intros Hw Hed Ha. destruct (wf_rule_facts G r Hw) as (_ & _ & Hedges & _ & Hsh).
  rewrite (Hsh ed Hed). apply sel_in_range; trivial. intros u Hu. now apply (Hedges ed).
Qed.

(** ** the invariant of the driver *)
Definition drv_inv (W : env (R:=R)) (all : tmt (R:=R)) (done : list nat) : Prop :=
  (forall l xi, is_term G l = true -> env_of o all l xi = W l xi)
  /\ (forall l, tget all l <> None -> is_term G l = true \/ In l done)
  /\ (forall Y, In Y done ->
        tget all Y <> None /\ is_term G Y = false
        /\ forall k xi, length done <= k -> In xi (all_assts (lshape G Y)) ->
                        env_of o all Y xi = Zk o G W k Y xi).

Lemma drv_step W all done X :
  drv_inv W all done -> is_term G X = false ->
  (forall r ed, In r (rules_of G X) -> In ed (r_edges r) -> is_term G (fst ed) = false -> In (fst ed) done) ->
  drv_inv W (one_step_comp o G all [X]) (done ++ [X]).
Proof.
  intros (I1 & I2 & I3) HX Hdeps.
  assert (Hkeys : forall l, tget (one_step_comp o G all [X]) l <> None -> is_term G l = true \/ In l (done ++ [X])).
  { intros l Hl. apply one_step_keys in Hl. rewrite in_app_iff. destruct Hl as [Hl| ->]; [|right; right; now left].
    destruct (I2 l Hl); tauto. }
  destruct (tget all X) as [tb|] eqn:EX.
  - (* X already has a value: nothing observable changes *)
    assert (HXd : In X done). { destruct (I2 X) as [H|H]; [congruence|congruence|exact H]. }
    assert (Hsame : forall l xi, env_of o (one_step_comp o G all [X]) l xi = env_of o all l xi).
    { intros l xi. apply one_step_other. destruct (Nat.eq_dec l X) as [->|Hne]; [left; congruence|now right]. }
    split; [intros l xi Hl; rewrite Hsame; now apply I1|]. split; trivial.
    intros Y HY. assert (HYd : In Y done) by (apply in_app_iff in HY; destruct HY as [H|[<-|[]]]; trivial).
    destruct (I3 Y HYd) as (K1 & K2 & K3). split; [apply one_step_keys; now left|]. split; trivial.
    intros k xi Hk Hxi. rewrite Hsame. apply K3; trivial. rewrite app_length in Hk. lia.
  - assert (HXn : ~ In X done) by (intros H; destruct (I3 X H) as [H' _]; congruence).
    split; [|split; trivial].
    + intros l xi Hl. rewrite one_step_other; [now apply I1|]. right. intros ->. congruence.
    + intros Y HY. apply in_app_iff in HY. rewrite app_length. cbn [length].
      destruct HY as [HY|[<-|[]]].
      * destruct (I3 Y HY) as (K1 & K2 & K3). split; [apply one_step_keys; now left|]. split; trivial.
        intros k xi Hk Hxi. rewrite one_step_other by now left. apply K3; trivial. lia.
      * split; [apply one_step_keys; now right|]. split; trivial.
        intros k xi Hk Hxi. destruct k as [|k]; [lia|].
        assert (Hnl : forall r ed, In r (rules_of G X) -> In ed (r_edges r) -> fst ed <> X).
        { intros r ed Hrin Hed E. destruct (is_term G (fst ed)) eqn:Ht; [rewrite E in Ht; congruence|].
          apply HXn. rewrite <- E. now apply (Hdeps r ed). }
        rewrite (one_step_new o Hr G all X xi (rules_of_wf X) Hnl EX Hxi).
        rewrite (Zk_S o G W k X xi HX). apply sumS_ext. intros r Hrin.
        apply (rule_val_ext o). intros ed a Hed Ha. unfold env_k.
        destruct (is_term G (fst ed)) eqn:Ht; [now apply I1|].
        destruct (I3 (fst ed) (Hdeps r ed Hrin Hed Ht)) as (_ & _ & K3). apply K3; [lia|].
        now apply (edge_arg_in_range r ed a (rules_of_wf X r Hrin)).
Qed.

Lemma drv_fold W : forall ord all done,
  drv_inv W all done -> dep_ordered G done ord ->
  drv_inv W (fold_left (one_step_comp o G) (map (fun x => [x]) ord) all) (done ++ ord).
Proof.
  induction ord as [|X ord IH]; intros all done Hinv Hd; cbn [map fold_left].
  - now rewrite app_nil_r.
  - destruct Hd as (HX & Hdeps & Hd). replace (done ++ X :: ord) with ((done ++ [X]) ++ ord) by now rewrite <- app_assoc.
    apply IH; trivial. now apply drv_step.
Qed.

(** ** 4(b): the driver computes the Kleene iterates *)
Theorem sum_products_nonrec_Zk w ord :
  (forall l, tget w l <> None -> is_term G l = true) -> dep_ordered G [] ord ->
  forall X k xi, In X ord -> length ord <= k -> In xi (all_assts (lshape G X)) ->
  env_of o (sum_products_nonrec o G w (map (fun x => [x]) ord)) X xi = Zk o G (env_of o w) k X xi.
Proof.
  intros Hkeys Hd X k xi HX Hk Hxi. unfold sum_products_nonrec.
  assert (H0 : drv_inv (env_of o w) w []).
  { split; [reflexivity|]. split; [intros l Hl; left; now apply Hkeys|intros Y []]. }
  destruct (drv_fold (env_of o w) ord w [] H0 Hd) as (_ & _ & I3). cbn [app] in I3.
  destruct (I3 X HX) as (_ & _ & K3). now apply K3.
Qed.

(** ** the tabulated specification [Ztab] is [Zk] *)
Theorem Ztab_is_Zk W k : forall X xi, is_term G X = false -> In xi (all_assts (lshape G X)) ->
  env_of o (Ztab o G W k) X xi = Zk o G W k X xi.
Proof.
  induction k as [|k IH]; intros X xi HX Hxi; [reflexivity|].
  cbn [Ztab]. rewrite env_of_tget.
  rewrite (tget_map_In (fun X => tabulate (lshape G X) (step o G W (env_of o (Ztab o G W k)) X)))
    by now apply nonterminal_In.
  rewrite (tab_get_tabulate o) by exact Hxi. rewrite (Zk_S o G W k X xi HX).
  unfold step. rewrite HX. apply sumS_ext. intros r Hrin. apply (rule_val_ext o).
  intros ed a Hed Ha. unfold env_k. destruct (is_term G (fst ed)) eqn:Ht; trivial.
  apply IH; trivial. now apply (edge_arg_in_range r ed a (rules_of_wf X r Hrin)).
Qed.

(** ** C01, end to end for the model: every entry of [sum_products] of a non-recursive grammar
    is the sum over all derivation trees and assignments of the product of the factor weights *)
Theorem sum_products_nonrec_correct w ord :
  (forall l, tget w l <> None -> is_term G l = true) ->
  dep_ordered G [] ord -> NoDup ord -> (forall X, is_term G X = false -> In X ord) ->
  forall X xi, is_term G X = false -> In xi (all_assts (lshape G X)) ->
  let N := length (nonterminals G) in
  let v := env_of o (sum_products_nonrec o G w (map (fun x => [x]) ord)) X xi in
  v = env_of o (Ztab o G (env_of o w) N) X xi
  /\ v = Zk o G (env_of o w) N X xi
  /\ v = sumS o (enum_trees G N X xi) (weight o G (env_of o w))
  /\ NoDup (enum_trees G N X xi)
  /\ (forall t, In t (enum_trees G N X xi) <-> wf_dtree G X xi t).
Proof.
  intros Hkeys Hd Hnd Hall X xi HX Hxi N v.
  assert (Hlen : length ord <= N).
  { apply NoDup_incl_length; trivial. intros Y HY. apply nonterminal_In. now apply (dep_ordered_nonterminal G ord [] Y). }
  assert (Hv : v = Zk o G (env_of o w) N X xi).
  { apply sum_products_nonrec_Zk; trivial. now apply Hall. }
  pose proof (dep_ordered_ranked G ord Hd Hall) as Hrk.
  destruct (Zk_nonrec_all_trees o Hr G (env_of o w) _ Hrk N X xi HX (le_n _)) as (H1 & H2 & H3 & _).
  split; [rewrite Hv; symmetry; now apply Ztab_is_Zk|]. split; trivial. split; [now rewrite Hv|]. now split.
Qed.

End Main.
