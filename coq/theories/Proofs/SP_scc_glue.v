(** C01 x C19: an order of components accepted by the verified oracle [scc_ok] on the
    nonterminal graph, all of whose components are single non-looping nonterminals
    ([nonrecursive_order]), is a dependency-respecting order listing every nonterminal once.
    Hence the C01 end-to-end theorem holds for the order computed by [scc] as soon as
    [scc g = Some cs -> scc_ok g cs = true] (the full Tarjan theorem of C19) is available. *)
From Coq Require Import List Arith Bool PeanoNat Lia.
Import ListNotations.
Require Import Fggs.Model.Semiring Fggs.Model.SCC Fggs.Model.SumProduct.
Require Import Fggs.Proofs.SCC_ntgraph Fggs.Proofs.BigSum Fggs.Proofs.SP_trees Fggs.Proofs.SP_nonrec
               Fggs.Proofs.SP_code Fggs.Proofs.SP_rename Fggs.Proofs.SP_spe Fggs.Proofs.SP_driver
               Fggs.Proofs.SP_main Fggs.Proofs.SP_examples.

Lemma nt_graph_verts G : verts (nt_graph G) = nonterminals G.
Proof. apply ntgraph_verts. Qed.

Lemma nt_graph_edge G X Y :
  In Y (succs (nt_graph G) X) <-> In X (nonterminals G) /\ In Y (deps G X).
Proof.
  unfold nt_graph. rewrite ntgraph_edge, in_deps. split.
  - intros (HX & r' & Hr' & Hfst & Hin). split; trivial.
    rewrite in_map_iff in Hr'. destruct Hr' as (r & <- & Hr). cbn [fst snd] in *.
    rewrite in_map_iff in Hin. destruct Hin as (ed & E & Hed). injection E as E1 E2.
    apply negb_true_iff in E2. exists r, ed. tauto.
  - intros (HX & r & ed & Hr & Hlhs & Hed & Ht & HY). split; trivial.
    exists (r_lhs r, map (fun ed => (fst ed, negb (is_term G (fst ed)))) (r_edges r)). split; [|split; trivial].
    + apply in_map_iff. now exists r.
    + cbn [snd]. apply in_map_iff. exists ed. split; trivial. now rewrite Ht, HY.
Qed.

Lemma nodupb_NoDup l : nodupb l = true -> NoDup l.
Proof.
  induction l as [|x l IH]; [constructor|]. cbn [nodupb]. rewrite andb_true_iff, negb_true_iff.
  intros [Hm Hl]. constructor; [now apply not_mem_In|now apply IH].
Qed.
Lemma nonterminals_NoDup G : NoDup (nonterminals G).
Proof. apply NoDup_filter, seq_NoDup. Qed.
Lemma nonterminals_In G X : In X (nonterminals G) -> is_term G X = false.
Proof. unfold nonterminals. rewrite filter_In, negb_true_iff. tauto. Qed.

Lemma fold_left_max_f_zero {A} (f : A -> nat) l : forall a,
  fold_left (fun m r => Nat.max m (f r)) l a = 0 -> a = 0 /\ forall r, In r l -> f r = 0.
Proof.
  induction l as [|x l IH]; intros a H; cbn [fold_left] in H; [split; [exact H|intros r []]|].
  destruct (IH _ H) as [Hm Hl]. split; [lia|]. intros r [<-|Hr]; [lia|now apply Hl].
Qed.

(** [max_rhs G [x] = 0]: no rule of x has an edge labelled x *)
Lemma max_rhs_single_zero G x : max_rhs G [x] = 0 ->
  forall r ed, In r (rules_of G x) -> In ed (r_edges r) -> fst ed <> x.
Proof.
  unfold max_rhs. cbn [fold_left]. intros H r ed Hr Hed E.
  apply fold_left_max_f_zero in H. destruct H as [_ H]. specialize (H r Hr).
  apply length_zero_iff_nil in H.
  assert (Hin : In ed (filter (fun ed => mem [x] (fst ed)) (r_edges r))).
  { apply filter_In. split; trivial. rewrite E. cbn. now rewrite Nat.eqb_refl. }
  rewrite H in Hin. destruct Hin.
Qed.

Lemma ordered_ok_head g x rest :
  ordered_ok g ([x] :: rest) = true ->
  ordered_ok g rest = true /\ forall v, In v (concat rest) -> ~ In v (succs g x).
Proof.
  cbn [ordered_ok forallb]. rewrite !andb_true_iff. intros [[H _] Hrest]. split; trivial.
  intros v Hv Hs. apply in_concat in Hv. destruct Hv as (d & Hd & Hvd).
  rewrite forallb_forall in H. specialize (H d Hd). rewrite forallb_forall in H. specialize (H v Hvd).
  apply andb_true_iff in H. destruct H as [_ H]. apply negb_true_iff in H.
  apply not_mem_In in H. now apply H.
Qed.

Lemma dep_from_ordered G : forall order done,
  nonrecursive_order G order = true -> ordered_ok (nt_graph G) order = true ->
  (forall X, In X (concat order) -> In X (nonterminals G)) ->
  (forall X Y, In X (concat order) -> In Y (deps G X) -> In Y (done ++ concat order)) ->
  dep_ordered G done (concat order).
Proof.
  induction order as [|c order IH]; intros done Hnr Hord Hnt Hdeps; [exact I|].
  unfold nonrecursive_order in Hnr. cbn [forallb] in Hnr. apply andb_true_iff in Hnr. destruct Hnr as [Hc Hnr].
  destruct c as [|x [|y c]]; try discriminate. apply Nat.eqb_eq in Hc.
  apply ordered_ok_head in Hord. destruct Hord as [Hord Hfwd].
  cbn [concat app] in *. cbn [dep_ordered].
  assert (HxN : In x (nonterminals G)) by (apply Hnt; now left).
  split; [now apply nonterminals_In|]. split.
  - intros r ed Hr Hed Ht.
    assert (HY : In (fst ed) (deps G x)).
    { apply in_deps. apply in_rules_of in Hr. exists r, ed. tauto. }
    specialize (Hdeps x (fst ed) (or_introl eq_refl) HY). apply in_app_iff in Hdeps.
    destruct Hdeps as [Hd|[Hd|Hd]]; trivial.
    + exfalso. now apply (max_rhs_single_zero G x Hc r ed Hr Hed).
    + exfalso. apply (Hfwd (fst ed) Hd). apply nt_graph_edge. now split.
  - apply IH; trivial.
    + intros X HX. apply Hnt. now right.
    + intros X Y HX HY. specialize (Hdeps X Y (or_intror HX) HY). rewrite <- app_assoc. exact Hdeps.
Qed.

Theorem scc_order_dep_ordered G order :
  scc_ok (nt_graph G) order = true -> nonrecursive_order G order = true ->
  dep_ordered G [] (concat order) /\ NoDup (concat order)
  /\ (forall X, is_term G X = false -> In X (concat order)).
Proof.
  unfold scc_ok. rewrite !andb_true_iff, nt_graph_verts.
  intros (((((Hlen & Hnd) & Hall) & _) & _) & Hord) Hnr.
  apply Nat.eqb_eq in Hlen. apply nodupb_NoDup in Hnd.
  assert (Hcover : forall X, In X (nonterminals G) -> In X (concat order)).
  { rewrite forallb_forall in Hall. intros X HX. apply mem_In. now apply Hall. }
  assert (Hincl : forall X, In X (concat order) -> In X (nonterminals G)).
  { apply (NoDup_length_incl (nonterminals_NoDup G)); [lia|exact Hcover]. }
  split; [|split; trivial].
  - apply dep_from_ordered; trivial. intros X Y _ HY. cbn [app]. apply Hcover.
    apply nonterminal_In. exact (deps_nonterminal G X Y HY).
  - intros X HX. apply Hcover. now apply nonterminal_In.
Qed.

Section Glue.
Context {R : Type} (o : sr_ops R).
Hypothesis Hr : sr_ring o.

(** C01 end to end for an order of components accepted by [scc_ok] (the statement DESIGN calls
    "composition with C19"): no premise about the order other than the two boolean checks *)
Theorem sum_products_scc_correct G w order :
  wf_grammar G = true -> (forall l, tget w l <> None -> is_term G l = true) ->
  scc_ok (nt_graph G) order = true -> nonrecursive_order G order = true ->
  forall X xi, is_term G X = false -> In xi (all_assts (lshape G X)) ->
  let N := length (nonterminals G) in
  let v := env_of o (sum_products_nonrec o G w order) X xi in
  v = env_of o (Ztab o G (env_of o w) N) X xi
  /\ v = Zk o G (env_of o w) N X xi
  /\ v = sumS o (enum_trees G N X xi) (weight o G (env_of o w))
  /\ NoDup (enum_trees G N X xi)
  /\ (forall t, In t (enum_trees G N X xi) <-> wf_dtree G X xi t).
Proof.
  intros Hwf Hkeys Hok Hnr X xi HX Hxi.
  destruct (scc_order_dep_ordered G order Hok Hnr) as (Hd & Hnd & Hall).
  pose proof (sum_products_nonrec_correct o Hr G Hwf w (concat order) Hkeys Hd Hnd Hall X xi HX Hxi) as H.
  cbn zeta in H. rewrite <- (nonrecursive_order_singletons G order Hnr) in H. exact H.
Qed.
End Glue.

(** the premises are satisfiable: the example grammar with the order Tarjan's algorithm returns *)
Example scc_ex : scc (nt_graph G_ex) = Some [[1]; [2]; [3]].
Proof. reflexivity. Qed.
Example scc_ok_ex : scc_ok (nt_graph G_ex) [[1]; [2]; [3]] = true /\ nonrecursive_order G_ex [[1]; [2]; [3]] = true.
Proof. split; reflexivity. Qed.
Example scc_ok_ex' : scc_ok (nt_graph G_ex) (map (fun x => [x]) ord_ex) = true.
Proof. reflexivity. Qed.
