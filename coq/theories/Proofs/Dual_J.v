(** C03: the code's [J] (leave one edge out, externals = rule externals ++ the edge's nodes,
    duplicated externals renamed apart) is the formal Jacobian of the grammar's equations:
    [multi_mv (J x) d] is the epsilon part of one step over the dual numbers at [x + eps d];
    transposed: the vector-Jacobian product computed by [SumProduct.backward] for a component
    evaluated in one step. *)
From Coq Require Import List Arith Bool PeanoNat Lia Permutation Ring Ring_theory.
Import ListNotations.
Require Import Fggs.Model.Semiring Fggs.Model.SCC Fggs.Model.SumProduct Fggs.Model.Dual.
Require Import Fggs.Proofs.SCC_ntgraph Fggs.Proofs.BigSum Fggs.Proofs.SP_trees Fggs.Proofs.SP_nonrec
               Fggs.Proofs.SP_code Fggs.Proofs.SP_rename Fggs.Proofs.SP_spe Fggs.Proofs.SP_driver
               Fggs.Proofs.SP_main Fggs.Proofs.Dual_ring Fggs.Proofs.Dual_leibniz.

Lemma app_eq_length_inv {A} (u v x y : list A) : length u = length x -> u ++ v = x ++ y -> u = x /\ v = y.
Proof.
  revert x. induction u as [|a u IH]; intros [|b x] Hl E; try discriminate; cbn in *.
  - now split.
  - injection E as -> E. destruct (IH x) as [-> ->]; [lia|exact E|]. now split.
Qed.

Lemma in_all_assts_app s1 s2 x y :
  In x (all_assts s1) -> In y (all_assts s2) -> In (x ++ y) (all_assts (s1 ++ s2)).
Proof. rewrite !in_all_assts. apply Forall2_app. Qed.

Lemma sel_app a l1 l2 : sel a (l1 ++ l2) = sel a l1 ++ sel a l2.
Proof. unfold sel. apply map_app. Qed.

Lemma splits_In_parts {A} (l : list A) s : In s (splits l) ->
  In (snd (fst s)) l /\ forall x, In x (fst (fst s) ++ snd s) -> In x l.
Proof.
  intros Hs. pose proof (splits_spec l s Hs) as E. split.
  - rewrite E. apply in_app_iff. right. now left.
  - intros x Hx. rewrite E. apply in_app_iff in Hx. apply in_app_iff. destruct Hx; [now left|right; now right].
Qed.

Section DualJ.
Context {R : Type} (o : sr_ops R).
Hypothesis Hr : sr_ring o.
Add Ring RingD5 : (sr_is_srt o Hr).

(** a sum over a duplicate-free list in which only one element contributes *)
Lemma sumS_pick {A} (eqb : A -> A -> bool) (l : list A) y0 (g : A -> R) :
  (forall x y, eqb x y = true <-> x = y) -> NoDup l -> In y0 l ->
  sumS o l (fun y => if eqb y y0 then g y else zero o) = g y0.
Proof.
  intros Heq Hnd Hin. induction l as [|x l IH]; [destruct Hin|].
  inversion Hnd as [|? ? Hx Hnd']; subst. rewrite sumS_cons.
  destruct Hin as [->|Hin].
  - rewrite (proj2 (Heq y0 y0) eq_refl). rewrite (sumS_all_zero o Hr); [ring|].
    intros y Hy. destruct (eqb y y0) eqn:E; trivial. apply Heq in E. subst. contradiction.
  - rewrite IH by trivial. destruct (eqb x y0) eqn:E; [|ring]. apply Heq in E. subst. contradiction.
Qed.

(** summing, over the cells yi of an edge, the assignments that agree with xi ++ yi on
    ext ++ nodes = summing over the assignments that agree with xi on ext *)
Lemma sum_collapse (A : list (list nat)) ext nodes shape xi (g : list nat -> list nat -> R) :
  length xi = length ext ->
  (forall a, In a A -> In (sel a nodes) (all_assts shape)) ->
  sumS o (all_assts shape)
       (fun yi => sumS o (filter (fun a => nat_list_eqb (sel a (ext ++ nodes)) (xi ++ yi)) A) (fun a => g a yi))
  = sumS o (filter (fun a => nat_list_eqb (sel a ext) xi) A) (fun a => g a (sel a nodes)).
Proof.
  intros Hl Hin.
  rewrite (sumS_ext o _ _ (fun yi => sumS o A (fun a => if nat_list_eqb (sel a (ext ++ nodes)) (xi ++ yi) then g a yi else zero o)))
    by (intros yi _; apply (sumS_filter o Hr)).
  rewrite (sumS_exchange o Hr), (sumS_filter o Hr). apply sumS_ext. intros a Ha.
  destruct (nat_list_eqb (sel a ext) xi) eqn:E.
  - apply nat_list_eqb_iff in E.
    rewrite <- (sumS_pick nat_list_eqb (all_assts shape) (sel a nodes) (g a) nat_list_eqb_iff
                          (NoDup_all_assts shape) (Hin a Ha)).
    apply sumS_ext. intros yi _. rewrite sel_app, E.
    destruct (nat_list_eqb yi (sel a nodes)) eqn:E2.
    + apply nat_list_eqb_iff in E2. subst yi. now rewrite (proj2 (nat_list_eqb_iff _ _) eq_refl).
    + destruct (nat_list_eqb (xi ++ sel a nodes) (xi ++ yi)) eqn:E3; trivial.
      apply nat_list_eqb_iff in E3. apply app_inv_head in E3. subst yi.
      rewrite (proj2 (nat_list_eqb_iff _ _) eq_refl) in E2. discriminate.
  - apply (sumS_all_zero o Hr). intros yi _. rewrite sel_app.
    destruct (nat_list_eqb (sel a ext ++ sel a nodes) (xi ++ yi)) eqn:E3; trivial.
    apply nat_list_eqb_iff in E3. apply app_eq_length_inv in E3.
    + destruct E3 as [E3 _]. rewrite E3, (proj2 (nat_list_eqb_iff _ _) eq_refl) in E. discriminate.
    + unfold sel. rewrite map_length. now symmetry.
Qed.

(** [spe] for arbitrary edges and (possibly duplicated) externals within a rule's node range;
    a label without value counts as zero *)
Lemma spe_general sizes0 (e : nat -> option (list nat -> R)) edges ext xi :
  (forall u, In u ext -> u < length sizes0) ->
  (forall ed u, In ed edges -> In u (snd ed) -> u < length sizes0) ->
  In xi (all_assts (map (fun i => nth i sizes0 0) ext)) ->
  oapp o (spe o sizes0 e edges ext) xi
  = sumS o (filter (fun a => nat_list_eqb (sel a ext) xi) (all_assts sizes0))
         (fun a => prodS o edges (fun ed => oenv o e (fst ed) (sel a (snd ed)))).
Proof.
  intros Hext Hedges Hxi. rewrite spe_unfold.
  destruct (forallb (fun ed => match e (fst ed) with Some _ => true | None => false end) edges) eqn:Hall.
  - cbn [oapp]. rewrite (spe_body_eq o Hr _ e _ _ xi Hext Hedges Hxi).
    apply sumS_ext. intros a _. unfold edge_prod. apply prodS_ext. intros ed _. reflexivity.
  - cbn [oapp]. symmetry. apply (sumS_all_zero o Hr). intros a _.
    assert (Hex : exists ed, In ed edges /\ e (fst ed) = None).
    { clear -Hall. induction edges as [|ed es IH]; [discriminate|]. cbn [forallb] in Hall.
      destruct (e (fst ed)) eqn:E; [|exists ed; split; [now left|exact E]].
      destruct (IH Hall) as (ed' & H1 & H2). exists ed'. split; [now right|exact H2]. }
    destruct Hex as (ed & Hin & Hnone). apply (prodS_zero o Hr) with (x := ed); trivial.
    unfold oenv. now rewrite Hnone.
Qed.

Variable G : grammar.
Hypothesis Hwf : wf_grammar G = true.

(** the value of a leave-one-out product on a well-formed rule *)
Lemma spe_leave_one_out (e : nat -> option (list nat -> R)) r s xi yi :
  wf_rule G r = true -> In s (splits (r_edges r)) ->
  In xi (all_assts (lshape G (r_lhs r))) -> In yi (all_assts (lshape G (fst (snd (fst s))))) ->
  oapp o (spe o (node_sizes G r) e (fst (fst s) ++ snd s) (r_ext r ++ snd (snd (fst s)))) (xi ++ yi)
  = sumS o (filter (fun a => nat_list_eqb (sel a (r_ext r ++ snd (snd (fst s)))) (xi ++ yi)) (all_assts (node_sizes G r)))
         (fun a => prodS o (fst (fst s) ++ snd s) (fun ed => oenv o e (fst ed) (sel a (snd ed)))).
Proof.
  intros Hw Hs Hxi Hyi. destruct (wf_rule_facts G r Hw) as (_ & Hext & Hedges & Hshape & Hesh).
  destruct (splits_In_parts _ s Hs) as [Hed Hrest].
  apply spe_general.
  - intros u Hu. apply in_app_iff in Hu. destruct Hu as [Hu|Hu]; [now apply Hext|now apply (Hedges _ u Hed)].
  - intros ed u Hin Hu. apply (Hedges ed u); trivial. now apply Hrest.
  - rewrite map_app, <- Hshape, <- (Hesh _ Hed). now apply in_all_assts_app.
Qed.

(** the contribution list of one (rule, edge) pair, summed *)
Lemma contrib_sum (f : option (list nat -> R)) (n l : nat) (h : nat * nat * (list nat -> R) -> R) :
  h (n, l, fun _ => zero o) = zero o ->
  sumS o (match f with Some f => [(n, l, f)] | None => [] end) h = h (n, l, oapp o f).
Proof.
  intros H0. destruct f as [f|].
  - rewrite (sumS_single o Hr). reflexivity.
  - rewrite sumS_nil. symmetry. exact H0.
Qed.

(** C03_J_is_formal_derivative: [multi_mv (J x) d], with J as computed by the code at the point
    [e] (the values of the edge labels; a label without value counts as zero), equals the
    derivative [dstep] of the right-hand sides at [e] in the direction [d] restricted to the
    labels J has blocks for (all labels in the backward pass, where J_inputs is given; the
    component's labels otherwise) *)
Theorem J_mv_is_dstep comp (e : nat -> option (list nat -> R)) (de : env (R:=R)) wi n xi :
  NoDup comp -> In n comp -> In xi (all_assts (lshape G n)) ->
  J_mv o G (J_contribs o G comp e wi) de n xi
  = dstep o G (oenv o e) (fun l i => if wi || mem comp l then de l i else zero o) n xi.
Proof.
  intros Hnd Hn Hxi. unfold J_mv, J_contribs.
  rewrite (sumS_flat_map o Hr).
  set (inner := fun n' : nat =>
         sumS o (rules_of G n') (fun r =>
           sumS o (splits (r_edges r)) (fun s =>
             if negb (mem comp (fst (snd (fst s)))) && negb wi then zero o
             else sumS o (filter (fun a => nat_list_eqb (sel a (r_ext r)) xi) (all_assts (node_sizes G r)))
                        (fun a => mul o (prodS o (fst (fst s) ++ snd s) (fun ed => oenv o e (fst ed) (sel a (snd ed))))
                                        (de (fst (snd (fst s))) (sel a (snd (snd (fst s))))))))).
  rewrite (sumS_ext o comp _ (fun n' => if Nat.eqb n' n then inner n' else zero o)).
  - rewrite (sumS_pick Nat.eqb comp n inner Nat.eqb_eq Hnd Hn).
    unfold inner, dstep. apply sumS_ext. intros r Hrin. unfold drule, rule_assts.
    rewrite (sumS_ext o _ _ (fun a => sumS o (splits (r_edges r))
               (fun s => mul o ((fun l i => if wi || mem comp l then de l i else zero o) (fst (snd (fst s))) (sel a (snd (snd (fst s)))))
                               (prodS o (fst (fst s) ++ snd s) (fun ed => oenv o e (fst ed) (sel a (snd ed)))))))
      by (intros a _; exact (leib_splits o Hr (r_edges r) (fun ed => oenv o e (fst ed) (sel a (snd ed)))
                                           (fun ed => if wi || mem comp (fst ed) then de (fst ed) (sel a (snd ed)) else zero o))).
    rewrite (sumS_exchange o Hr). apply sumS_ext. intros s _.
    destruct (mem comp (fst (snd (fst s)))), wi; cbn [negb andb orb].
    + apply sumS_ext. intros a _. ring.
    + apply sumS_ext. intros a _. ring.
    + apply sumS_ext. intros a _. ring.
    + symmetry. apply (sumS_all_zero o Hr). intros a _. ring.
  - intros n' Hn'. rewrite (sumS_flat_map o Hr). unfold inner.
    destruct (Nat.eqb n' n) eqn:En.
    + apply Nat.eqb_eq in En. subst n'.
      apply sumS_ext. intros r Hrin. rewrite (sumS_flat_map o Hr). apply sumS_ext. intros s Hs.
      pose proof (rules_of_wf G Hwf n r Hrin) as Hw.
      assert (Hlhs : r_lhs r = n) by (apply in_rules_of in Hrin; tauto).
      destruct (negb (mem comp (fst (snd (fst s)))) && negb wi); [reflexivity|].
      destruct (wf_rule_facts G r Hw) as (_ & Hext & Hedges & Hshape & Hesh).
      destruct (splits_In_parts _ s Hs) as [Hed _].
      assert (Hxi' : In xi (all_assts (lshape G (r_lhs r)))) by now rewrite Hlhs.
      rewrite contrib_sum.
      2:{ cbn [fst snd]. rewrite Nat.eqb_refl. apply (sumS_all_zero o Hr). intros yi _. ring. }
      cbn [fst snd]. rewrite Nat.eqb_refl.
      rewrite (sumS_ext o _ _ (fun yi =>
                 sumS o (filter (fun a => nat_list_eqb (sel a (r_ext r ++ snd (snd (fst s)))) (xi ++ yi)) (all_assts (node_sizes G r)))
                      (fun a => mul o (prodS o (fst (fst s) ++ snd s) (fun ed => oenv o e (fst ed) (sel a (snd ed))))
                                      (de (fst (snd (fst s))) yi)))).
      * apply (sum_collapse (all_assts (node_sizes G r)) (r_ext r) (snd (snd (fst s))) (lshape G (fst (snd (fst s)))) xi
                            (fun a yi => mul o (prodS o (fst (fst s) ++ snd s) (fun ed => oenv o e (fst ed) (sel a (snd ed))))
                                               (de (fst (snd (fst s))) yi))).
        -- apply all_assts_length in Hxi'. rewrite Hshape, map_length in Hxi'. exact Hxi'.
        -- intros a Ha. now apply (edge_arg_in_range G r _ a Hw Hed).
      * intros yi Hyi. rewrite (spe_leave_one_out e r s xi yi Hw Hs Hxi' Hyi). apply (sumS_mul_r o Hr).
    + apply (sumS_all_zero o Hr). intros r _. rewrite (sumS_flat_map o Hr).
      apply (sumS_all_zero o Hr). intros s _.
      destruct (negb (mem comp (fst (snd (fst s)))) && negb wi); [reflexivity|].
      destruct (spe o (node_sizes G r) e (fst (fst s) ++ snd s) (r_ext r ++ snd (snd (fst s)))); [|reflexivity].
      rewrite (sumS_single o Hr). cbn [fst snd]. now rewrite En.
Qed.
End DualJ.
