(** C18 heap model: the clone clause.  After [c := clone x], every sequence of operations that
    only mutates objects made by / after the clone (never views of older objects) leaves every
    older object -- in particular [x] and everything reachable from it -- unchanged. *)
From Coq Require Import List Arith Bool PeanoNat ZArith Lia.
Import ListNotations.
Require Import Fggs.Model.Heap Fggs.Proofs.Heap_frame.

(** ** denotations depend only on the objects and storages reached *)
Definition reach_objs (st : state) (y : nat) : list nat := y :: mt_elems st y.

Lemma phys_same st st' p :
  nth_error (st_store st') (pt_sid p) = nth_error (st_store st) (pt_sid p) -> phys st' p = phys st p.
Proof. intros H. unfold phys. apply map_ext. intros c. unfold rd. rewrite H. reflexivity. Qed.

Lemma den_stable st st' y :
  (forall r, In r (reach_objs st y) -> get_obj st' r = get_obj st r) ->
  (forall r p, In r (reach_objs st y) -> get_pt st r = Some p ->
               nth_error (st_store st') (pt_sid p) = nth_error (st_store st) (pt_sid p)) ->
  den st' y = den st y.
Proof.
  intros Ho Hs. unfold den. rewrite (Ho y) by (left; reflexivity).
  destruct (get_obj st y) as [[p|d]|] eqn:Ey; [| |reflexivity].
  - unfold den_pt. rewrite (phys_same st st' p); [reflexivity|].
    apply (Hs y); [left; reflexivity|]. unfold get_pt. rewrite Ey. reflexivity.
  - f_equal. apply map_ext_in. intros [k e] Hin. cbn. f_equal.
    assert (He : In e (reach_objs st y)).
    { right. unfold mt_elems, get_mt. rewrite Ey. apply in_map_iff. exists (k, e). auto. }
    unfold den_ref, get_pt. rewrite (Ho e He).
    destruct (get_obj st e) as [[p|d']|] eqn:Ee; cbn; [|reflexivity|reflexivity].
    unfold den_pt. rewrite (phys_same st st' p); [reflexivity|].
    apply (Hs e p He). unfold get_pt. rewrite Ee. reflexivity.
Qed.

(** ** frame, as a statement about denotations (theorem (d)) *)
Definition sids_of (st : state) (l : list nat) : list nat :=
  flat_map (fun r => match get_pt st r with Some p => [pt_sid p] | None => [] end) l.

Lemma sids_of_In st l r p : In r l -> get_pt st r = Some p -> In (pt_sid p) (sids_of st l).
Proof. intros Hr Hp. unfold sids_of. apply in_flat_map. exists r. rewrite Hp. cbn. auto. Qed.

(** [y] well-formed: it and its elements exist and their storages exist *)
Definition valid (st : state) (y : nat) : Prop :=
  forall r, In r (reach_objs st y) ->
            r < length (st_objs st) /\ forall p, get_pt st r = Some p -> pt_sid p < length (st_store st).

Theorem step_frame_den st o st' out0 y :
  step st o = (st', out0) -> valid st y ->
  (forall r, In r (reach_objs st y) -> ~ In r (mutates st o)) ->
  (forall s, In s (sids_of st (reach_objs st y)) -> ~ In s (sids_of st (mutates st o))) ->
  den st' y = den st y.
Proof.
  intros Hs Hv Ho Hd. pose proof (step_frame _ _ _ _ Hs) as F. apply den_stable.
  - intros r Hr. apply (fr_objs _ _ _ _ F); [apply (Hv r Hr) | apply Ho; exact Hr].
  - intros r p Hr Hp. apply (fr_store _ _ _ _ F); [apply (Hv r Hr); exact Hp|].
    intros r0 p0 Hr0 Hp0 Heq. apply (Hd (pt_sid p)); [eapply sids_of_In; eauto|].
    rewrite <- Heq. eapply sids_of_In; [exact Hr0|]. unfold get_pt. rewrite Hp0. reflexivity.
Qed.

(** ** the watermark invariant *)
Definition frozen (no ns : nat) (st st' : state) : Prop :=
  (forall r, r < no -> get_obj st' r = get_obj st r) /\
  (forall sid, sid < ns -> nth_error (st_store st') sid = nth_error (st_store st) sid).

Definition wmark (no ns : nat) (C : list nat) (st : state) : Prop :=
  no <= length (st_objs st) /\ ns <= length (st_store st) /\
  forall r, In r C -> no <= r /\ r < length (st_objs st) /\
                      forall p, get_obj st r = Some (OPT p) -> ns <= pt_sid p.

Lemma frozen_refl no ns st : frozen no ns st st.
Proof. split; auto. Qed.

Lemma frozen_trans no ns st st1 st2 : frozen no ns st st1 -> frozen no ns st1 st2 -> frozen no ns st st2.
Proof.
  intros [a b] [a1 b1]. split; intros x Hx; [rewrite a1, a | rewrite b1, b]; auto.
Qed.

Lemma forallb_memb l C : forallb (fun r => memb r C) l = true -> forall r, In r l -> In r C.
Proof. intros H r Hr. rewrite forallb_forall in H. apply memb_In. apply H. exact Hr. Qed.

Lemma owned_step_inv no ns C st o C' st' :
  wmark no ns C st -> owned_step C st o = Some (C', st') ->
  wmark no ns C' st' /\ frozen no ns st st'.
Proof.
  intros [Hno [Hns HC]] H. unfold owned_step in H.
  destruct (forallb _ (mutates st o)) eqn:Em; [|discriminate].
  pose proof (forallb_memb _ _ Em) as HM.
  destruct (step st o) as [st1 out1] eqn:Es. cbn [fst] in H.
  pose proof (step_frame _ _ _ _ Es) as F.
  assert (Hfz : frozen no ns st st1).
  { split.
    - intros r Hr. apply (fr_objs _ _ _ _ F); [lia|]. intros Hin. destruct (HC r (HM r Hin)). lia.
    - intros sid Hs. apply (fr_store _ _ _ _ F); [lia|].
      intros r p Hr Hp Heq. destruct (HC r (HM r Hr)) as [_ [_ Hsid]]. specialize (Hsid p Hp). lia. }
  assert (Hold : forall r, In r C -> no <= r /\ r < length (st_objs st1) /\
                                      forall p, get_obj st1 r = Some (OPT p) -> ns <= pt_sid p).
  { intros r Hr. destruct (HC r Hr) as [H1 [H2 H3]]. split; [exact H1|]. split.
    - pose proof (fr_objs_len _ _ _ _ F). lia.
    - intros p' Hp'. destruct (fr_old _ _ _ _ F r p' H2 Hp') as [p [Hp [Hs|Hs]]]; [|lia].
      rewrite Hs. apply H3. exact Hp. }
  assert (Hl1 : no <= length (st_objs st1)) by (pose proof (fr_objs_len _ _ _ _ F); lia).
  assert (Hl2 : ns <= length (st_store st1)) by (pose proof (fr_store_len _ _ _ _ F); lia).
  destruct (forallb _ (vsrcs o)) eqn:Ev; inversion H; subst; (split; [|exact Hfz]).
  - split; [exact Hl1|]. split; [exact Hl2|].
    pose proof (forallb_memb _ _ Ev) as HV.
    intros r Hr. apply in_app_or in Hr. destruct Hr as [Hr|Hr]; [apply Hold; exact Hr|].
    apply in_seq in Hr. split; [lia|]. split; [lia|].
    intros p' Hp'. destruct (fr_new _ _ _ _ F r p' ltac:(lia) Hp') as [Hs|[a [p [Ha [Hp Hs]]]]]; [lia|].
    destruct (HC a (HV a Ha)) as [_ [_ H3]]. rewrite <- Hs. apply H3. exact Hp.
  - split; [exact Hl1|]. split; [exact Hl2|]. exact Hold.
Qed.

Lemma owned_run_frozen no ns ops : forall C st st',
  wmark no ns C st -> owned_run C st ops = Some st' -> frozen no ns st st'.
Proof.
  induction ops as [|o t IH]; intros C st st' HW H; cbn in H.
  - inversion H. apply frozen_refl.
  - destruct (owned_step C st o) as [[C1 st1]|] eqn:Eo; [|discriminate].
    destruct (owned_step_inv _ _ _ _ _ _ _ HW Eo) as [HW1 Hf1].
    eapply frozen_trans; [exact Hf1|]. eapply IH; eauto.
Qed.

Lemma den_frozen no ns st st' y :
  frozen no ns st st' -> y < no -> closed no ns st y -> den st' y = den st y.
Proof.
  intros [Ho Hs] Hy Hc. unfold closed in Hc. apply den_stable.
  - intros r [<-|Hr]; [apply Ho; exact Hy|].
    unfold mt_elems, get_mt in Hr. destruct (get_obj st y) as [[p|d]|]; try contradiction.
    apply in_map_iff in Hr. destruct Hr as [kr [<- Hin]].
    rewrite Forall_forall in Hc. apply Ho. apply (Hc kr Hin).
  - intros r p [<-|Hr] Hp.
    + apply Hs. unfold get_pt in Hp. destruct (get_obj st y) as [[q|d]|]; inversion Hp. subst. exact Hc.
    + unfold mt_elems, get_mt in Hr. destruct (get_obj st y) as [[q|d]|]; try contradiction.
      apply in_map_iff in Hr. destruct Hr as [kr [<- Hin]].
      rewrite Forall_forall in Hc. apply Hs. apply (Hc kr Hin). exact Hp.
Qed.

(** the first operation creates objects only: afterwards everything it created is owned *)
Lemma first_step_wmark st o st0 out0 :
  step st o = (st0, out0) -> mutates st o = [] -> vsrcs o = [] ->
  let no := length (st_objs st) in let ns := length (st_store st) in
  wmark no ns (seq no (length (st_objs st0) - no)) st0 /\ frozen no ns st st0.
Proof.
  intros Hs Hm Hv no ns. pose proof (step_frame _ _ _ _ Hs) as F. rewrite Hm, Hv in F.
  split; [split; [apply (fr_objs_len _ _ _ _ F)|split; [apply (fr_store_len _ _ _ _ F)|]]|split].
  - intros r Hr. apply in_seq in Hr. fold no in Hr. split; [lia|]. split; [lia|].
    intros p Hp. destruct (fr_new _ _ _ _ F r p ltac:(fold no; lia) Hp) as [H|[a [q [[] _]]]]. exact H.
  - intros r Hr. apply (fr_objs _ _ _ _ F); auto.
  - intros sid Hsid. apply (fr_store _ _ _ _ F); [exact Hsid|]. intros r p [].
Qed.

(** ** theorem (a): PatternedTensor.clone *)
Theorem clone_independent st x st0 c ops st' :
  step st (OClone x) = (st0, ORefs [c]) ->
  owned_run [c] st0 ops = Some st' ->
  forall y, y < length (st_objs st) ->
            closed (length (st_objs st)) (length (st_store st)) st y ->
            den st' y = den st y.
Proof.
  intros Hs Hr y Hy Hc.
  destruct (first_step_wmark _ _ _ _ Hs eq_refl eq_refl) as [HW Hf].
  assert (Hc0 : c = length (st_objs st) /\ length (st_objs st0) = S (length (st_objs st))).
  { cbn in Hs. destruct (get_pt st x); [|discriminate]. unfold ret1, clone_pt, mk_fresh, alloc, new_obj in Hs.
    cbn in Hs. inversion Hs. cbn. rewrite app_length. cbn. lia. }
  destruct Hc0 as [-> Hl]. rewrite Hl in HW.
  replace (S (length (st_objs st)) - length (st_objs st)) with 1 in HW by lia. cbn [seq] in HW.
  eapply den_frozen; [|exact Hy|exact Hc].
  eapply frozen_trans; [exact Hf|]. eapply owned_run_frozen; eauto.
Qed.

(** in particular the source itself *)
Corollary clone_source_unchanged st x st0 c ops st' p :
  step st (OClone x) = (st0, ORefs [c]) -> owned_run [c] st0 ops = Some st' ->
  get_pt st x = Some p -> pt_sid p < length (st_store st) ->
  den st' x = den st x.
Proof.
  intros Hs Hr Hp Hsid. apply get_pt_obj in Hp.
  eapply clone_independent; eauto.
  - eapply get_obj_lt. exact Hp.
  - unfold closed. rewrite Hp. exact Hsid.
Qed.

(** the clone has the value of the source *)
Lemma wr_cells_length s cells vals : length (wr_cells s cells vals) = length s.
Proof.
  unfold wr_cells. revert s vals. induction cells as [|c cs IH]; intros s [|v vs]; cbn; auto.
  rewrite IH. apply set_nth_length.
Qed.

Lemma nth_set_nth_eq (s : list Z) c v : c < length s -> nth c (set_nth c s v) 0%Z = v.
Proof. revert c. induction s as [|h t IH]; intros [|c] H; cbn in *; try lia; auto. apply IH. lia. Qed.

Lemma nth_set_nth_neq (s : list Z) c c' v : c <> c' -> nth c' (set_nth c s v) 0%Z = nth c' s 0%Z.
Proof. revert c c'. induction s as [|h t IH]; intros [|c] [|c'] H; cbn; auto; try congruence. Qed.

Lemma wr_cells_other s cells vals c : ~ In c cells -> nth c (wr_cells s cells vals) 0%Z = nth c s 0%Z.
Proof.
  unfold wr_cells. revert s vals. induction cells as [|c0 cs IH]; intros s [|v vs] Hn; cbn; auto.
  rewrite IH by (intros Hx; apply Hn; right; exact Hx).
  apply nth_set_nth_neq. intros ->. apply Hn. left. reflexivity.
Qed.

Lemma wr_cells_read s cells vals :
  NoDup cells -> length cells = length vals -> (forall c, In c cells -> c < length s) ->
  map (fun c => nth c (wr_cells s cells vals) 0%Z) cells = vals.
Proof.
  revert s vals. induction cells as [|c cs IH]; intros s [|v vs] Hnd Hl Hb; cbn in Hl; try discriminate; [reflexivity|].
  inversion Hnd as [|? ? Hnin Hnd']. subst. cbn [map]. f_equal.
  - change (wr_cells s (c :: cs) (v :: vs)) with (wr_cells (set_nth c s v) cs vs).
    rewrite wr_cells_other by exact Hnin. apply nth_set_nth_eq. apply Hb. left. reflexivity.
  - change (wr_cells s (c :: cs) (v :: vs)) with (wr_cells (set_nth c s v) cs vs).
    apply IH; [exact Hnd' | lia |]. intros c' Hc'. rewrite set_nth_length. apply Hb. right. exact Hc'.
Qed.

(** a memory format: pairwise distinct cells inside the new storage *)
Definition good_cells (n : nat) (cells : list nat) : Prop :=
  NoDup cells /\ length cells = n /\ forall c, In c cells -> c < n.

Lemma mk_fresh_den st vals cells lay dflt dt :
  good_cells (length vals) cells ->
  den (fst (mk_fresh st vals cells lay dflt dt)) (length (st_objs st)) = DVpt (vals, lay, dflt).
Proof.
  intros [Hnd [Hl Hb]]. unfold mk_fresh, alloc, new_obj, den, get_obj. cbn.
  rewrite nth_error_app2, Nat.sub_diag by lia. cbn. unfold den_pt, phys. cbn. f_equal. f_equal. f_equal.
  transitivity (map (fun c => nth c (place vals cells) 0%Z) cells).
  - apply map_ext. intros c. unfold rd. cbn. rewrite nth_error_app2, Nat.sub_diag by lia. reflexivity.
  - unfold place. apply wr_cells_read; [exact Hnd | exact Hl |].
    intros c Hc. rewrite repeat_length. apply Hb. exact Hc.
Qed.

Lemma nodupb_NoDup l : nodupb l = true -> NoDup l.
Proof.
  induction l as [|x t IH]; cbn; [constructor|]. intros H. apply andb_prop in H. destruct H as [H1 H2].
  constructor; [|apply IH; exact H2]. intros Hin. apply negb_true_iff in H1.
  assert (existsb (Nat.eqb x) t = true); [|congruence].
  apply existsb_exists. exists x. split; [exact Hin | apply Nat.eqb_refl].
Qed.

Lemma fold_min_le t : forall c x, (x = c \/ In x t) -> fold_left Nat.min t c <= x.
Proof.
  induction t as [|h t IH]; intros c x [->|Hin]; cbn; try lia; try contradiction.
  - transitivity (Nat.min c h); [|lia]. clear IH. revert c h. induction t as [|h' t IH']; intros c h; cbn; [lia|].
    transitivity (Nat.min (Nat.min c h) h'); [apply IH' | lia].
  - destruct Hin as [->|Hin]; [|apply IH; right; exact Hin].
    transitivity (Nat.min c x); [|lia]. apply IH. left. reflexivity.
Qed.

Lemma fold_max_ge t : forall c x, (x = c \/ In x t) -> x <= fold_left Nat.max t c.
Proof.
  induction t as [|h t IH]; intros c x [->|Hin]; cbn; try lia; try contradiction.
  - transitivity (Nat.max c h); [lia|]. apply IH. left. reflexivity.
  - destruct Hin as [->|Hin]; [|apply IH; right; exact Hin].
    transitivity (Nat.max c x); [lia|]. apply IH. left. reflexivity.
Qed.

Lemma NoDup_map_inj_in (f : nat -> nat) l :
  (forall x y, In x l -> In y l -> f x = f y -> x = y) -> NoDup l -> NoDup (map f l).
Proof.
  induction l as [|a t IH]; intros Hinj Hnd; cbn; [constructor|].
  inversion Hnd as [|? ? Hnin Hnd']. subst. constructor.
  - intros Hin. apply in_map_iff in Hin. destruct Hin as [y [Hy Hyin]].
    apply Hnin. rewrite (Hinj a y); [exact Hyin | left; reflexivity | right; exact Hyin | symmetry; exact Hy].
  - apply IH; [|exact Hnd']. intros x y Hx Hy. apply Hinj; right; assumption.
Qed.

Lemma clone_cells_good cells : good_cells (length cells) (clone_cells cells).
Proof.
  unfold clone_cells. destruct (compact cells) eqn:Ec.
  - destruct cells as [|c0 t]; [repeat split; [constructor | intros c []]|].
    unfold compact in Ec. apply andb_prop in Ec. destruct Ec as [Hnd Hsz]. apply Nat.eqb_eq in Hsz.
    apply nodupb_NoDup in Hnd. set (l := c0 :: t) in *.
    assert (Hlo : forall c, In c l -> cells_lo l <= c).
    { intros c Hc. unfold cells_lo, l. apply fold_min_le. destruct Hc as [->|Hc]; auto. }
    assert (Hhi : forall c, In c l -> c <= cells_hi l).
    { intros c Hc. unfold cells_hi, l. apply fold_max_ge. destruct Hc as [->|Hc]; auto. }
    repeat split.
    + apply NoDup_map_inj_in; [|exact Hnd].
      intros x y Hx Hy Heq. pose proof (Hlo x Hx). pose proof (Hlo y Hy). lia.
    + apply map_length.
    + intros c Hc. apply in_map_iff in Hc. destruct Hc as [x [<- Hx]].
      specialize (Hlo x Hx). specialize (Hhi x Hx). lia.
  - repeat split; [apply seq_NoDup | apply seq_length | intros c Hc; apply in_seq in Hc; lia].
Qed.

Theorem clone_equal st x st0 c :
  step st (OClone x) = (st0, ORefs [c]) -> den st0 c = den st x.
Proof.
  cbn [step]. destruct (get_pt st x) as [q|] eqn:Eq; [|discriminate]. unfold ret1, clone_pt. intros H.
  injection H as H1 H2.
  assert (Hc : c = length (st_objs st)) by (rewrite <- H2; reflexivity).
  rewrite <- H1, Hc.
  change (den (fst (mk_fresh st (phys st q) (clone_cells (pt_cells q)) (pt_lay q) (pt_dflt q) (pt_dt q))) (length (st_objs st)) = den st x).
  rewrite mk_fresh_den.
  - apply get_pt_obj in Eq. unfold den. rewrite Eq. reflexivity.
  - unfold phys. rewrite map_length. apply clone_cells_good.
Qed.

(** ** theorem (b): MultiTensor.clone *)
Definition no_refs (o : out) : Prop := match o with ORefs _ => False | _ => True end.

Lemma loop_out A (body : state -> A -> state * out) :
  (forall st a st' o, body st a = (st', o) -> no_refs o) ->
  forall l st st' o, loop body st l = (st', o) -> no_refs o.
Proof.
  intros Hb l. induction l as [|a t IH]; intros st st' o H; cbn in H.
  - inversion H. exact I.
  - destruct (body st a) as [s1 o1] eqn:Eb. pose proof (Hb _ _ _ _ Eb) as Ho.
    destruct o1; try (inversion H; subst; exact Ho). eapply IH. exact H.
Qed.

Lemma copy_into_out st d s st' o : copy_into st d s = (st', o) -> no_refs o.
Proof.
  unfold copy_into. destruct (get_pt st d); [|intros H; inversion H; exact I].
  destruct (get_pt st s); [|intros H; inversion H; exact I].
  destruct (_ && _ && _); [destruct (_ && _)|]; intros H; inversion H; exact I.
Qed.

Lemma mcopy_out st m n st' o : mcopy st m n = (st', o) -> no_refs o.
Proof.
  unfold mcopy. destruct (get_mt st m); [|intros H; inversion H; exact I].
  destruct (get_mt st n); [|intros H; inversion H; exact I].
  destruct (find _ _); [intros H; inversion H; exact I|].
  apply loop_out. intros s k s' o' Hb. unfold mcopy_body in Hb.
  destruct (get_mt s m); [|inversion Hb; exact I]. destruct (get_mt s n); [|inversion Hb; exact I].
  destruct (lookup k l2); [|inversion Hb; exact I].
  destruct (lookup k l1); [eapply copy_into_out; exact Hb|].
  destruct (get_pt s n0); [|inversion Hb; exact I].
  destruct (clone_pt s p). inversion Hb. exact I.
Qed.

Lemma mclone_ref st x st0 c : mclone st x = (st0, ORefs [c]) -> c = length (st_objs st).
Proof.
  unfold mclone. destruct (get_mt st x); [|discriminate]. unfold new_obj.
  destruct (mcopy _ _ x) as [s2 o2] eqn:Ec. apply mcopy_out in Ec.
  destruct o2; intros H; inversion H; [reflexivity | destruct Ec].
Qed.

Theorem mclone_independent st x st0 c ops st' :
  step st (OMClone x) = (st0, ORefs [c]) ->
  owned_run (seq c (length (st_objs st0) - c)) st0 ops = Some st' ->
  forall y, y < length (st_objs st) ->
            closed (length (st_objs st)) (length (st_store st)) st y ->
            den st' y = den st y.
Proof.
  intros Hs Hr y Hy Hc.
  destruct (first_step_wmark _ _ _ _ Hs eq_refl eq_refl) as [HW Hf].
  assert (Hc0 : c = length (st_objs st)) by (apply (mclone_ref _ _ _ _ Hs)).
  subst c.
  eapply den_frozen; [|exact Hy|exact Hc].
  eapply frozen_trans; [exact Hf|]. eapply owned_run_frozen; eauto.
Qed.

(** the clone is deep: it is a new MultiTensor and every element of it is a new object, hence
    owned (so the discipline of [mclone_independent] allows writing INTO the elements) *)
Theorem mclone_deep st x st0 c :
  step st (OMClone x) = (st0, ORefs [c]) ->
  c = length (st_objs st) /\
  exists d, get_mt st0 c = Some d /\
            forall e, In e (map snd d) -> In e (seq c (length (st_objs st0) - c)) /\ e <> c.
Proof.
  intros Hs. cbn in Hs.
  assert (Hc0 : c = length (st_objs st)) by (apply (mclone_ref _ _ _ _ Hs)).
  split; [exact Hc0|]. subst c.
  destruct (mclone_frame_elems _ _ _ _ Hs) as [F Hel].
  destruct Hel as [d [Hd He]].
  { unfold mclone in Hs. destruct (get_mt st x); [congruence|discriminate]. }
  exists d. split; [exact Hd|]. intros e Hin. destruct (He e Hin) as [H1 H2]. split; [|lia].
  apply in_seq. lia.
Qed.

(** ** witnesses: the hypothesis "clone" is necessary -- views, aliases and a shallow clone share *)
Definition w_vals : list Z := [1; 2; 3; 4; 5; 6]%Z.
Definition w_nines : list Z := [9; 9; 9; 9; 9; 9]%Z.
Definition w_sevens : list Z := [7; 7; 7; 7; 7; 7]%Z.

(** a state with one dense 2x3 PatternedTensor (object 0) *)
Definition w_st : state := fst (step empty_state (ONew w_vals (seq 0 6) (idlay 6) 0%Z)).
(** its transpose as a layout *)
Definition w_T : layout := [Some 0; Some 3; Some 1; Some 4; Some 2; Some 5].

(** with [OView] (transpose/permute/...) in the place of [OClone] the conclusion of
    [clone_independent] fails: an in-place operation on the view changes the source *)
Theorem view_shares :
  exists st x lay st0 c ops st',
    step st (OView x lay) = (st0, ORefs [c]) /\ owned_run [c] st0 ops = Some st' /\
    den st' x <> den st x.
Proof.
  exists w_st, 0, w_T. eexists. exists 1, [OMap 0 1]. eexists.
  split; [vm_compute; reflexivity|]. split; [vm_compute; reflexivity|].
  vm_compute. intros H. discriminate H.
Qed.

(** the same for __getitem__, expand-free iteration, to(same dtype) *)
Theorem getitem_shares :
  exists st x sel lay st0 c ops st',
    step st (OGetItem x sel lay) = (st0, ORefs [c]) /\ owned_run [c] st0 ops = Some st' /\
    den st' x <> den st x.
Proof.
  exists w_st, 0, [3; 4; 5], (idlay 3). eexists. exists 1, [OMap 0 1]. eexists.
  split; [vm_compute; reflexivity|]. split; [vm_compute; reflexivity|].
  vm_compute. intros H. discriminate H.
Qed.

Theorem iter_shares :
  exists st x items st0 c1 c2 ops st',
    step st (OIter x None items) = (st0, ORefs [c1; c2]) /\ owned_run [c1; c2] st0 ops = Some st' /\
    den st' x <> den st x.
Proof.
  exists w_st, 0, [([0; 1; 2], idlay 3); ([3; 4; 5], idlay 3)]. eexists.
  exists 1, 2, [OMap 4 2]. eexists.
  split; [vm_compute; reflexivity|]. split; [vm_compute; reflexivity|].
  vm_compute. intros H. discriminate H.
Qed.

Theorem to_same_dtype_shares :
  exists st x st0 c ops st',
    step st (OTo x 0) = (st0, ORefs [c]) /\ owned_run [c] st0 ops = Some st' /\
    den st' x <> den st x.
Proof.
  exists w_st, 0. eexists. exists 1, [OMap 0 1]. eexists.
  split; [vm_compute; reflexivity|]. split; [vm_compute; reflexivity|].
  vm_compute. intros H. discriminate H.
Qed.

(** copy_ INTO a view writes the storage shared with the source (same-size branch) *)
Theorem copy_into_view_writes_source :
  exists st x y lay st0 c st' o,
    step st (OView x lay) = (st0, ORefs [c]) /\ step st0 (OCopy c y) = (st', o) /\
    den st' x <> den st x.
Proof.
  exists (fst (step w_st (ONew w_sevens (seq 0 6) (idlay 6) 0%Z))), 0, 1, w_T. eexists. exists 2. eexists. eexists.
  split; [vm_compute; reflexivity|]. split; [vm_compute; reflexivity|].
  vm_compute. intros H. discriminate H.
Qed.

(** default_to with the same default returns the object itself; MultiTensor.__getitem__ returns the
    stored object; add_single with a new key stores the given object *)
Theorem default_to_same_returns_self :
  forall st x p perm, get_pt st x = Some p -> step st (ODefaultTo x (pt_dflt p) perm) = (st, ORefs [x]).
Proof. intros st x p perm H. cbn. rewrite H, Z.eqb_refl. reflexivity. Qed.

Theorem add_single_aliases :
  exists st m k x prm st1 o1 other st2 o2,
    step st (OMAddSingle m k x prm) = (st1, o1) /\ get_mt st1 m = Some [(k, x)] /\
    step st1 (OMCopy m other) = (st2, o2) /\ den st2 x <> den st x.
Proof.
  (* objects: 0 = x, 1 = m (empty), 2 = y, 3 = other = {5: y} *)
  pose (st := run w_st [OMNew; ONew w_nines (seq 0 6) (idlay 6) 0%Z; OMNew; OMSet 3 5 2]).
  exists st, 1, 5, 0, ([], []). eexists. eexists. exists 3. eexists. eexists.
  split; [vm_compute; reflexivity|]. split; [vm_compute; reflexivity|]. split; [vm_compute; reflexivity|].
  vm_compute. intros H. discriminate H.
Qed.

(** the seeded change seeded/C18-d ([c = MultiTensor(...); c += self]): the elements of the clone
    ARE the elements of the source, and copy_ into the clone changes the source *)
Theorem shallow_clone_refuted :
  exists st x st0 c other st' o,
    mclone_shallow st x = (st0, ORefs [c]) /\ mt_elems st0 c = mt_elems st x /\
    step st0 (OMCopy c other) = (st', o) /\ den st' x <> den st x.
Proof.
  (* objects: 0 = a, 1 = x = {5: a}, 2 = y, 3 = other = {5: y} *)
  pose (st := run w_st [OMNew; OMSet 1 5 0; ONew w_nines (seq 0 6) (idlay 6) 0%Z; OMNew; OMSet 3 5 2]).
  exists st, 1. eexists. exists 4, 3. eexists. eexists.
  split; [vm_compute; reflexivity|]. split; [vm_compute; reflexivity|]. split; [vm_compute; reflexivity|].
  vm_compute. intros H. discriminate H.
Qed.

(** ... whereas the modelled clone passes exactly this scenario (hypotheses of [mclone_independent]
    are satisfiable by an operation sequence that writes INTO the elements of the clone) *)
Example mclone_independent_example :
  let st := run w_st [OMNew; OMSet 1 5 0; ONew w_nines (seq 0 6) (idlay 6) 0%Z; OMNew; OMSet 3 5 2] in
  exists st0 st',
    step st (OMClone 1) = (st0, ORefs [4]) /\
    owned_run (seq 4 (length (st_objs st0) - 4)) st0 [OMCopy 4 3; OMGet 4 5 6; OMap 0 5; OMIadd 4 4 [(5, (idlay 6, seq 0 6))]] = Some st' /\
    den st' 1 = den st 1 /\ den st' 4 <> den st0 4.
Proof.
  cbv zeta. eexists. eexists.
  split; [vm_compute; reflexivity|]. split; [vm_compute; reflexivity|].
  split; [vm_compute; reflexivity|]. vm_compute. intros H. discriminate H.
Qed.

Example clone_independent_example :
  exists st0 st',
    step w_st (OClone 0) = (st0, ORefs [1]) /\
    owned_run [1] st0 [OMap 0 1; OView 1 w_T; OMap 4 2; OCopy 1 0; OMap 2 1; OToDense 0 (seq 0 6); OCopy 1 3; OMap 4 1] = Some st' /\
    closed (length (st_objs w_st)) (length (st_store w_st)) w_st 0 /\
    den st' 0 = den w_st 0 /\ den st' 1 <> den st0 1.
Proof.
  eexists. eexists.
  split; [vm_compute; reflexivity|]. split; [vm_compute; reflexivity|].
  split; [vm_compute; lia|].
  split; [vm_compute; reflexivity|]. vm_compute. intros H. discriminate H.
Qed.

(** an operation outside the discipline is rejected: writing a view of the source *)
Example owned_run_rejects_view_of_source :
  exists st0, step w_st (OClone 0) = (st0, ORefs [1]) /\
              owned_run [1] st0 [OView 0 w_T; OMap 0 2] = None.
Proof. eexists. split; vm_compute; reflexivity. Qed.

(** the dense values the correspondence check compares are a function of the denotation *)
Lemma dense_of_den st p : dense_of (den_pt st p) = dense st p.
Proof. reflexivity. Qed.

(** the hypotheses of [step_frame_den] are satisfiable: the source of a clone while the clone is written *)
Example frame_den_example :
  let st := fst (step w_st (OClone 0)) in
  valid st 0 /\
  (forall r, In r (reach_objs st 0) -> ~ In r (mutates st (OMap 0 1))) /\
  (forall s, In s (sids_of st (reach_objs st 0)) -> ~ In s (sids_of st (mutates st (OMap 0 1)))) /\
  den (fst (step st (OMap 0 1))) 1 <> den st 1.
Proof.
  cbv zeta. split; [|split; [|split]].
  - intros r Hr. vm_compute in Hr. destruct Hr as [<-|[]]. split; [vm_compute; lia|].
    intros p Hp. vm_compute in Hp. inversion Hp. vm_compute. lia.
  - intros r Hr. vm_compute in Hr. destruct Hr as [<-|[]]. vm_compute. intros [H|[]]. discriminate.
  - intros s Hs. vm_compute in Hs. destruct Hs as [<-|[]]. vm_compute. intros [H|[]]. discriminate.
  - vm_compute. intros H. discriminate H.
Qed.
