(** [reshape_or_view] on typed tensors: the premises about the unifier that [reshape_refines_partial]
    (Proofs/PTensor_reshape.v) carries are theorems.

    A target shape is *typed* for a tensor whose dimensions have the (flattened product) types [pss] when the
    primes of [concat pss] can be regrouped, in order, into one group per target dimension with the right
    sizes ([typed_target]); adjacent merges and insertion / removal of size-1 dimensions are of that kind
    (Proofs/PTensor_reshape_ok.v).  For such targets the target axes [productAxis goals] and
    [productAxis self.vaxes] have the same type in a context that gives every fresh target axis its
    group of primes, so the completeness of [unify] on typed axes (Proofs/Axis_mgu.v) applies:
    [complete_for], [solvable] (= [model_exists]) and [size_preserving] (= [wts_ty] + [ty_numel]) hold. *)
From Coq Require Import List Arith Lia PeanoNat Bool PArith.
Import ListNotations.
Require Import Fggs.Model.Axis Fggs.Model.AxisCheck Fggs.Model.PTensor Fggs.Model.PTensorOps Fggs.Model.PTensorCheck Fggs.Model.PTensorOpsCheck.
Require Import Fggs.Proofs.Axis_sem Fggs.Proofs.Axis_unify Fggs.Proofs.Axis_complete_gen Fggs.Proofs.Axis_typed Fggs.Proofs.Axis_total.
Require Import Fggs.Proofs.Axis_fuel Fggs.Proofs.Axis_mgu Fggs.Proofs.Axis_rank Fggs.Proofs.Axis_clone Fggs.Proofs.Axis_subst.
Require Import Fggs.Proofs.PTensor_sem Fggs.Proofs.PTensor_dense Fggs.Proofs.PTensor_gen Fggs.Proofs.PTensor_binary Fggs.Proofs.PTensor_struct.
Require Import Fggs.Proofs.PTEqual_typed Fggs.Proofs.PTensor_reshape.
Local Open Scope nat_scope.

(** * typing of [productAxis] *)
Lemma gprimes_concat qss : gprimes (concat qss) <-> Forall gprimes qss.
Proof.
  induction qss as [|qs qss IH]; simpl; [split; constructor|]. rewrite gprimes_app, IH. split.
  - intros [A B]. constructor; assumption.
  - intros H. inversion H; subst. split; assumption.
Qed.

Lemma ty_of_tyl G l ps : tyl G l ps -> ty G (match l with [x] => x | es => Prod es end) ps.
Proof.
  intros H. destruct l as [|x [|y l]].
  - constructor; [simpl; lia|exact H].
  - apply tyl_cons_inv in H. destruct H as (p1 & p2 & -> & _ & Hx & Hn). apply tyl_nil_inv in Hn. subst p2. rewrite app_nil_r. exact Hx.
  - constructor; [simpl; lia|exact H].
Qed.

Lemma tys_factors G es pss : tys G es pss -> tyl G (flat_map factors_of es) (concat pss).
Proof.
  induction 1 as [|e es ps pss He Hes IH]; [constructor|]. simpl. apply tyl_app; [|exact IH].
  destruct e as [k n|l|b t a]; simpl.
  - apply tyl_single; [reflexivity|exact He].
  - apply ty_prod_inv in He. tauto.
  - apply tyl_single; [reflexivity|exact He].
Qed.

Lemma productAxis_ty G es pss : tys G es pss -> ty G (productAxis es) (concat pss).
Proof.
  intros H. unfold productAxis. pose proof (tys_factors _ _ _ H) as T.
  destruct (flat_map factors_of es) as [|x [|y l]]; exact (ty_of_tyl _ _ _ T).
Qed.

Lemma fv_factors es : flat_map fv (flat_map factors_of es) = flat_map fv es.
Proof.
  induction es as [|e es IH]; [reflexivity|]. simpl. rewrite flat_map_app, IH. f_equal.
  destruct e; simpl; try rewrite app_nil_r; reflexivity.
Qed.

Lemma fvn_factors es : flat_map fvn (flat_map factors_of es) = flat_map fvn es.
Proof.
  induction es as [|e es IH]; [reflexivity|]. simpl. rewrite flat_map_app, IH. f_equal.
  destruct e; simpl; try rewrite app_nil_r; reflexivity.
Qed.

Lemma tys_In G es pss e : tys G es pss -> In e es -> exists ps, In ps pss /\ ty G e ps.
Proof.
  induction 1 as [|e0 es ps pss He Hes IH]; intros H; [contradiction|]. destruct H as [<-|H].
  - exists ps. split; [left; reflexivity|exact He].
  - destruct (IH H) as (q & Hq & Tq). exists q. split; [right; exact Hq|exact Tq].
Qed.

Lemma tys_pos G es pss : ctx_good G -> tys G es pss -> Forall gprimes pss -> forallb pos_sizes es = true.
Proof.
  intros CG T Gp. apply forallb_forall. intros e He. destruct (tys_In _ _ _ _ T He) as (ps & Hps & Te).
  rewrite Forall_forall in Gp. eapply ty_pos; eauto.
Qed.

(** * the context of the target axes *)
Fixpoint goal_ctx (G : ctx) (qss : list (list ity)) (next : positive) : ctx :=
  match qss with
  | [] => G
  | qs :: qss' => if Nat.eqb (tsizes qs) 1 then goal_ctx G qss' next
                  else upd_ctx (goal_ctx G qss' (Pos.succ next)) next qs
  end.

Lemma goal_axes_vars : forall s next goals nx, goal_axes s next = (goals, nx) ->
  (next <= nx)%positive /\ forall k, In k (flat_map fv goals) -> (next <= k)%positive /\ (k < nx)%positive.
Proof.
  induction s as [|g s IH]; intros next goals nx H; simpl in H.
  - inversion H; subst. split; [lia|intros k []].
  - destruct (Nat.eqb g 1).
    + destruct (goal_axes s next) as [r n0] eqn:E. inversion H; subst. destruct (IH _ _ _ E) as [L K]. split; [exact L|].
      intros k Hk. simpl in Hk. exact (K k Hk).
    + destruct (goal_axes s (Pos.succ next)) as [r n0] eqn:E. inversion H; subst. destruct (IH _ _ _ E) as [L K]. split; [lia|].
      intros k [<-|Hk]; [lia|]. specialize (K k Hk). lia.
Qed.

Lemma goal_typed : forall qss G next goals nx,
  ctx_good G -> ctx_below G next -> Forall gprimes qss -> goal_axes (map tsizes qss) next = (goals, nx) ->
  ctx_good (goal_ctx G qss next) /\ ctx_below (goal_ctx G qss next) nx /\ ctx_ext next G (goal_ctx G qss next) /\
  tyl (goal_ctx G qss next) (flat_map factors_of goals) (concat qss).
Proof.
  induction qss as [|qs qss IH]; intros G next goals nx CG CB Gp H; simpl in H.
  - inversion H; subst. simpl. split; [exact CG|]. split; [exact CB|]. split; [apply ctx_ext_refl|constructor].
  - inversion Gp as [|? ? Gq Gqs]; subst. cbn [goal_ctx]. destruct (Nat.eqb_spec (tsizes qs) 1) as [E1|N1].
    + destruct (goal_axes (map tsizes qss) next) as [r n0] eqn:E. inversion H; subst.
      destruct (IH G next r nx CG CB Gqs E) as (A & B & C & D). split; [exact A|]. split; [exact B|]. split; [exact C|].
      rewrite (gprimes_one qs Gq E1). exact D.
    + destruct (goal_axes (map tsizes qss) (Pos.succ next)) as [r n0] eqn:E. inversion H; subst.
      assert (CB' : ctx_below G (Pos.succ next)) by (intros k Hk; apply CB; lia).
      destruct (IH G (Pos.succ next) r nx CG CB' Gqs E) as (A & B & C & D).
      destruct (goal_axes_vars _ _ _ _ E) as [L K].
      split; [apply upd_ctx_good; assumption|]. split; [|split].
      * intros k Hk. unfold upd_ctx. destruct (Pos.eqb_spec k next); [lia|]. apply B. exact Hk.
      * intros k Hk. unfold upd_ctx. destruct (Pos.eqb_spec k next); [lia|]. apply C. lia.
      * cbn [flat_map factors_of concat app]. change (Phys next (tsizes qs) :: flat_map factors_of r) with ([Phys next (tsizes qs)] ++ flat_map factors_of r).
        apply tyl_app.
        -- apply tyl_single; [reflexivity|]. apply ty_phys'; [apply upd_ctx_same| |reflexivity].
           intros ->. apply N1. reflexivity.
        -- apply (proj2 (ty_agree_both (goal_ctx G qss (Pos.succ next)) _) _ _ D). intros k Hk. rewrite fv_factors in Hk.
           specialize (K k Hk). unfold upd_ctx. destruct (Pos.eqb_spec k next); [lia|reflexivity].
Qed.

(** * well-typed substitutions preserve sizes *)
Lemma typed_sized_for G sigma e : wts G sigma -> (forall k n, In (k, n) (fvn e) -> n = tsizes (G k)) -> sized_for sigma e.
Proof.
  intros W S k n c Hk A. apply assoc_In in A. destruct (wts_ty _ _ W k c A) as [_ Tc].
  rewrite (ty_numel _ _ _ Tc). symmetry. apply S. exact Hk.
Qed.

Lemma wts_Sized G sigma : wts G sigma -> Sized sigma.
Proof.
  intros W k c A. apply assoc_In in A. destruct (wts_ty _ _ W k c A) as [_ Tc].
  apply (typed_sized_for G); [exact W|]. exact (proj1 (ty_sized_both G) _ _ Tc).
Qed.

Section ReshapeTyped.
Variable V : Type.
Notation ptensor := (ptensor V).

(** the primes of the tensor's type regroup, in order, into the target shape *)
Definition typed_target (pss : list (list ity)) (s : list nat) : Prop :=
  exists qss, concat qss = concat pss /\ map tsizes qss = s.

(** the premises of [reshape_refines_partial] hold for every typed target *)
Lemma reshape_premises G next pss (t : ptensor) s' goals nx st' :
  wf V t -> ctx_good G -> ctx_below G next -> tys G (vaxes t) pss -> Forall gprimes pss ->
  typed_target pss s' -> goal_axes s' next = (goals, nx) ->
  unify (rs_fuel V goals t) (productAxis goals) (productAxis (vaxes t)) (ustate0 nx) = Ok (true, st') ->
  complete_for nx (productAxis goals) (productAxis (vaxes t)) (us_subst st') /\
  solvable (us_subst st') /\
  size_preserving (us_subst st') (goals ++ paxes_axes' (paxes t)).
Proof.
  intros W CG CB Te Gp (qss & Ec & Esz) Eg Eu. subst s'.
  assert (Gq : Forall gprimes qss) by (apply gprimes_concat; rewrite Ec; apply gprimes_concat; exact Gp).
  destruct (goal_typed qss G next goals nx CG CB Gq Eg) as (CG1 & CB1 & X1 & Tg).
  set (G1 := goal_ctx G qss next) in *.
  destruct (goal_axes_vars _ _ _ _ Eg) as [Lnx Kg].
  assert (Te1 : tys G1 (vaxes t) pss) by (apply (tys_ext G G1 next); assumption).
  assert (Tpe : ty G1 (productAxis goals) (concat pss)) by (rewrite <- Ec; unfold productAxis; destruct (flat_map factors_of goals) as [|x [|y l]]; exact (ty_of_tyl _ _ _ Tg)).
  assert (Tpf : ty G1 (productAxis (vaxes t)) (concat pss)) by (apply productAxis_ty; exact Te1).
  assert (EL : unify_list (rs_fuel V goals t) [productAxis goals] [productAxis (vaxes t)] (ustate0 nx) = Ok (true, st')).
  { cbn [unify_list]. rewrite Eu. reflexivity. }
  destruct (unify_typed_mgu_any_fuel G1 [productAxis goals] [productAxis (vaxes t)] [concat pss] nx (rs_fuel V goals t) true st' CG1 CB1) as (_ & (G' & L & X & T') & HU).
  { constructor; [exact Tpe|constructor]. }
  { constructor; [exact Tpf|constructor]. }
  { constructor; [apply gprimes_concat; exact Gp|constructor]. }
  { exact EL. }
  pose proof (ts_wts _ _ T') as Wt.
  split; [|split; [|split]].
  - intros rho Re Rf Ev. destruct (HU rho) as [_ C]; [constructor; [exact Re|constructor]|constructor; [exact Rf|constructor]|].
    apply C. simpl. f_equal. exact Ev.
  - intros g. exact (model_exists G' _ g Wt).
  - exact (wts_Sized G' _ Wt).
  - intros e He. apply (typed_sized_for G'); [exact Wt|]. intros k n Hk. apply in_app_or in He. destruct He as [He|He].
    + assert (Tg' : tyl G' (flat_map factors_of goals) (concat qss)) by (eapply tyl_ext; eauto).
      apply (proj2 (ty_sized_both G') _ _ Tg'). rewrite fvn_factors. apply in_flat_map. eauto.
    + unfold paxes_axes' in He. apply in_map_iff in He. destruct He as ([k0 n0] & <- & Hk0). simpl in Hk. destruct Hk as [Hk|[]].
      inversion Hk; subst. apply (wf_fv V t W) in Hk0.
      assert (Te' : tys G' (vaxes t) pss) by (eapply tys_ext; eauto).
      exact (proj1 (tys_sized _ _ _ Te' k n Hk0)).
Qed.

(** the unifier computed for a typed target is a well-typed acyclic substitution, whatever the fuel *)
Lemma reshape_wts G next pss (t : ptensor) s' goals nx fuel b st' :
  ctx_good G -> ctx_below G next -> tys G (vaxes t) pss -> Forall gprimes pss ->
  typed_target pss s' -> goal_axes s' next = (goals, nx) ->
  unify fuel (productAxis goals) (productAxis (vaxes t)) (ustate0 nx) = Ok (b, st') ->
  exists G', wts G' (us_subst st').
Proof.
  intros CG CB Te Gp (qss & Ec & Esz) Eg Eu. subst s'.
  assert (Gq : Forall gprimes qss) by (apply gprimes_concat; rewrite Ec; apply gprimes_concat; exact Gp).
  destruct (goal_typed qss G next goals nx CG CB Gq Eg) as (CG1 & CB1 & X1 & Tg).
  set (G1 := goal_ctx G qss next) in *.
  assert (Te1 : tys G1 (vaxes t) pss) by (apply (tys_ext G G1 next); assumption).
  assert (Tpe : ty G1 (productAxis goals) (concat pss)) by (rewrite <- Ec; unfold productAxis; destruct (flat_map factors_of goals) as [|x [|y l]]; exact (ty_of_tyl _ _ _ Tg)).
  assert (Tpf : ty G1 (productAxis (vaxes t)) (concat pss)) by (apply productAxis_ty; exact Te1).
  assert (EL : unify_list fuel [productAxis goals] [productAxis (vaxes t)] (ustate0 nx) = Ok (b, st')).
  { cbn [unify_list]. rewrite Eu. destruct b; reflexivity. }
  destruct (unify_typed_mgu_any_fuel G1 [productAxis goals] [productAxis (vaxes t)] [concat pss] nx fuel b st' CG1 CB1) as (_ & (G' & L & X & T') & _).
  { constructor; [exact Tpe|constructor]. }
  { constructor; [exact Tpf|constructor]. }
  { constructor; [apply gprimes_concat; exact Gp|constructor]. }
  { exact EL. }
  exists G'. exact (ts_wts _ _ T').
Qed.

Theorem reshape_refines_typed G pss inferred s next (t r : ptensor) nx' :
  wf V t -> ctx_good G -> ctx_below G next -> tys G (vaxes t) pss -> Forall gprimes pss ->
  (Nat.eqb (prodl' (shape V t)) (pnumel (paxes t)) && (prodl' (shape V t) <=? 1)) = false ->
  pt_reshape V inferred s next t = Ok (r, nx') ->
  wf V r ->
  typed_target pss (shape V r) ->
  prodl' (shape V r) = prodl' (shape V t) /\ default r = default t /\
  forall idx', in_bounds (shape V r) idx' ->
    denote V r idx' = denote V t (unflat (shape V t) (flat_offset (shape V r) idx')).
Proof.
  intros W CG CB Te Gp Tiny H Wr TT.
  apply (reshape_refines_partial_gen V inferred s next t r nx'); trivial.
  - intros e He. exact (tys_below _ _ _ _ CB Te e He).
  - eapply tys_pos; eauto.
  - intros s' goals nx st' Es _ Eg Eu _ _. subst s'. eapply reshape_premises; eauto.
Qed.

End ReshapeTyped.

(** the hypotheses are satisfiable: the 2 x 3 example of Proofs/PTensor_reshape.v, typed [2], [3], target [6] *)
Example reshape_typed_ex :
  let G : ctx := fun k => match k with 1%positive => [TAtom 2] | 2%positive => [TAtom 3] | _ => [] end in
  ctx_good G /\ ctx_below G 3 /\ tys G (vaxes rs_ex) [[TAtom 2]; [TAtom 3]] /\ Forall gprimes [[TAtom 2]; [TAtom 3]] /\
  typed_target [[TAtom 2]; [TAtom 3]] [6] /\
  exists r nx', pt_reshape nat 0 [6] 3 rs_ex = Ok (r, nx') /\ shape nat r = [6].
Proof.
  cbv zeta. split; [|split; [|split; [|split; [|split]]]].
  - intros k. destruct k as [[|[]|]|[[]|[]|]|]; repeat constructor.
  - intros k Hk. destruct k as [[|[]|]|[[]|[]|]|]; try reflexivity; lia.
  - constructor; [apply ty_phys'; [reflexivity|discriminate|reflexivity]|].
    constructor; [apply ty_phys'; [reflexivity|discriminate|reflexivity]|constructor].
  - repeat constructor.
  - exists [[TAtom 2; TAtom 3]]. split; reflexivity.
  - do 2 eexists. split; [vm_compute; reflexivity|reflexivity].
Qed.
