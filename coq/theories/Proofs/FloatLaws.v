(** C08, level L0': laws of the binary64 formulas that hold for ALL 2^64 float values, proved by
    case analysis on [Prim2SF] (the specification of Coq's primitive floats, FloatAxioms).
    Only laws that need no rounding lemma are claimed.  Associativity and distributivity of
    float + and * are false on binary64 and are NOT claimed (see [fadd_not_assoc] below). *)
From Coq Require Import Floats ZArith Bool Lia.
Require Import Fggs.Model.FloatOps.
Local Open Scope float_scope.

(* ------------------------------------------------------------------------- *)
(** * Classification *)

Lemma SF_inv x s : Prim2SF x = s -> x = SF2Prim s.
Proof. intros <-. symmetry. apply SF2Prim_Prim2SF. Qed.

Lemma SFcompare_refl s : s <> S754_nan -> SFcompare s s = Some Eq.
Proof.
  destruct s as [b|b| |b m e]; cbn; intros H; try congruence; destruct b; try reflexivity;
    rewrite Z.compare_refl, Pos.compare_cont_refl; reflexivity.
Qed.

Lemma is_nan_spec x : is_nan x = match Prim2SF x with S754_nan => true | _ => false end.
Proof.
  unfold is_nan. rewrite FloatAxioms.eqb_spec. unfold SFeqb.
  destruct (Prim2SF x) as [b|b| |b m e] eqn:E; try (rewrite SFcompare_refl by congruence); reflexivity.
Qed.

Lemma eqb_infinity x :
  (x =? infinity) = match Prim2SF x with S754_infinity false => true | _ => false end.
Proof.
  rewrite FloatAxioms.eqb_spec. change (Prim2SF infinity) with (S754_infinity false).
  destruct (Prim2SF x) as [b|b| |b m e]; try destruct b; reflexivity.
Qed.
Lemma eqb_neg_infinity x :
  (x =? neg_infinity) = match Prim2SF x with S754_infinity true => true | _ => false end.
Proof.
  rewrite FloatAxioms.eqb_spec. change (Prim2SF neg_infinity) with (S754_infinity true).
  destruct (Prim2SF x) as [b|b| |b m e]; try destruct b; reflexivity.
Qed.

(* ------------------------------------------------------------------------- *)
(** * nan_to_num *)

Theorem f_nan_to_num_spec x a b c :
  f_nan_to_num x a b c =
  match Prim2SF x with
  | S754_nan => a | S754_infinity false => b | S754_infinity true => c | _ => x
  end.
Proof.
  unfold f_nan_to_num. rewrite is_nan_spec, eqb_infinity, eqb_neg_infinity.
  destruct (Prim2SF x) as [s|s| |s m e]; try destruct s; reflexivity.
Qed.

Corollary f_nan_to_num_nan a b c : f_nan_to_num nan a b c = a.
Proof. reflexivity. Qed.
Corollary f_nan_to_num_posinf a b c : f_nan_to_num infinity a b c = b.
Proof. reflexivity. Qed.
Corollary f_nan_to_num_neginf a b c : f_nan_to_num neg_infinity a b c = c.
Proof. reflexivity. Qed.
(** every NaN / infinity is one of these three values, so the above covers "maps nan, +inf, -inf
    to exactly the given constants" ... *)
Lemma SF_nan x : Prim2SF x = S754_nan -> x = nan.
Proof. intros H. apply SF_inv in H. exact H. Qed.
Lemma SF_posinf x : Prim2SF x = S754_infinity false -> x = infinity.
Proof. intros H. apply SF_inv in H. exact H. Qed.
Lemma SF_neginf x : Prim2SF x = S754_infinity true -> x = neg_infinity.
Proof. intros H. apply SF_inv in H. exact H. Qed.
Lemma SF_poszero x : Prim2SF x = S754_zero false -> x = zero.
Proof. intros H. apply SF_inv in H. exact H. Qed.
Lemma SF_negzero x : Prim2SF x = S754_zero true -> x = neg_zero.
Proof. intros H. apply SF_inv in H. exact H. Qed.
(** ... and it is the identity on every other value *)
Corollary f_nan_to_num_id x a b c :
  is_nan x = false -> x <> infinity -> x <> neg_infinity -> f_nan_to_num x a b c = x.
Proof.
  intros Hn Hp Hm. rewrite f_nan_to_num_spec. rewrite is_nan_spec in Hn.
  destruct (Prim2SF x) as [s|s| |s m e] eqn:E; try reflexivity; try discriminate.
  destruct s; [apply SF_neginf in E | apply SF_posinf in E]; contradiction.
Qed.
Example f_nan_to_num_id_ex :
  is_nan 0x1p-1074 = false /\ 0x1p-1074 <> infinity /\ 0x1p-1074 <> neg_infinity.
Proof.
  repeat split; intros H; apply (f_equal Prim2SF) in H; vm_compute in H; discriminate.
Qed.

(* ------------------------------------------------------------------------- *)
(** * Annihilation in RealSemiring.mul: 0 * x = x * 0 = 0 for every x >= 0, +inf included *)

Lemma leb_zero_cases x : (0 <=? x) = true ->
  match Prim2SF x with
  | S754_nan => False | S754_infinity s => s = false | S754_finite s _ _ => s = false
  | S754_zero _ => True
  end.
Proof.
  rewrite FloatAxioms.leb_spec. change (Prim2SF 0) with (S754_zero false).
  destruct (Prim2SF x) as [s|s| |s m e]; try destruct s; cbn; intros H; try discriminate; auto.
Qed.

Lemma SFmul_zero_l y :
  SF64mul (S754_zero false) y =
  match y with
  | S754_nan | S754_infinity _ => S754_nan
  | S754_zero s | S754_finite s _ _ => S754_zero s
  end.
Proof. destruct y as [s|s| |s m e]; try destruct s; reflexivity. Qed.
Lemma SFmul_zero_r y :
  SF64mul y (S754_zero false) =
  match y with
  | S754_nan | S754_infinity _ => S754_nan
  | S754_zero s | S754_finite s _ _ => S754_zero s
  end.
Proof. destruct y as [s|s| |s m e]; try destruct s; reflexivity. Qed.

Theorem freal_mul_zero_l x : (0 <=? x) = true -> x <> neg_zero -> freal_mul 0 x = 0.
Proof.
  intros H Hz. apply leb_zero_cases in H. unfold freal_mul. rewrite f_nan_to_num_spec.
  assert (P : Prim2SF (0 * x) = SF64mul (S754_zero false) (Prim2SF x)) by apply mul_spec.
  rewrite SFmul_zero_l in P.
  destruct (Prim2SF x) as [s|s| |s m e] eqn:E; try contradiction; subst; rewrite P; try reflexivity.
  - destruct s; [apply SF_negzero in E; contradiction | apply SF_poszero in P; exact P].
  - apply SF_poszero in P; exact P.
Qed.
Theorem freal_mul_zero_r x : (0 <=? x) = true -> x <> neg_zero -> freal_mul x 0 = 0.
Proof.
  intros H Hz. apply leb_zero_cases in H. unfold freal_mul. rewrite f_nan_to_num_spec.
  assert (P : Prim2SF (x * 0) = SF64mul (Prim2SF x) (S754_zero false)) by apply mul_spec.
  rewrite SFmul_zero_r in P.
  destruct (Prim2SF x) as [s|s| |s m e] eqn:E; try contradiction; subst; rewrite P; try reflexivity.
  - destruct s; [apply SF_negzero in E; contradiction | apply SF_poszero in P; exact P].
  - apply SF_poszero in P; exact P.
Qed.
(** at x = -0. (which also satisfies 0 <= x) the product is the other zero *)
Lemma freal_mul_zero_negzero : freal_mul 0 neg_zero = neg_zero /\ freal_mul neg_zero 0 = neg_zero.
Proof. split; reflexivity. Qed.
Corollary freal_mul_zero_inf : freal_mul 0 infinity = 0 /\ freal_mul infinity 0 = 0.
Proof. split; reflexivity. Qed.
Example freal_mul_zero_ex : (0 <=? 0x1p-1074) = true /\ 0x1p-1074 <> neg_zero /\ (0 <=? infinity) = true /\ infinity <> neg_zero.
Proof.
  repeat split; try reflexivity; intros H; apply (f_equal Prim2SF) in H; vm_compute in H; discriminate.
Qed.

(* ------------------------------------------------------------------------- *)
(** * Annihilation in ViterbiSemiring.mul / LogSemiring.mul: (-inf) + x = -inf for EVERY x,
      in particular (-inf) + (+inf) = -inf *)

Theorem fvit_mul_ninf_l x : fvit_mul neg_infinity x = neg_infinity.
Proof.
  unfold fvit_mul. rewrite f_nan_to_num_spec.
  assert (P : Prim2SF (neg_infinity + x) = SF64add (S754_infinity true) (Prim2SF x)) by apply add_spec.
  destruct (Prim2SF x) as [s|s| |s m e]; try destruct s; unfold SF64add, SFadd in P; cbn [Bool.eqb] in P; rewrite P; try reflexivity;
    apply SF_neginf in P; exact P.
Qed.
Theorem fvit_mul_ninf_r x : fvit_mul x neg_infinity = neg_infinity.
Proof.
  unfold fvit_mul. rewrite f_nan_to_num_spec.
  assert (P : Prim2SF (x + neg_infinity) = SF64add (Prim2SF x) (S754_infinity true)) by apply add_spec.
  destruct (Prim2SF x) as [s|s| |s m e]; try destruct s; unfold SF64add, SFadd in P; cbn [Bool.eqb] in P; rewrite P; try reflexivity;
    apply SF_neginf in P; exact P.
Qed.
Corollary fvit_mul_ninf_pinf :
  fvit_mul neg_infinity infinity = neg_infinity /\ fvit_mul infinity neg_infinity = neg_infinity.
Proof. split; reflexivity. Qed.

(* ------------------------------------------------------------------------- *)
(** * Commutativity of float + and * (as bit patterns), hence of add/mul in Real, Log, Viterbi *)

Lemma SFadd_comm a b : SF64add a b = SF64add b a.
Proof.
  destruct a as [s|s| |s m e], b as [t|t| |t n f]; try reflexivity;
    try (destruct s, t; reflexivity).
  unfold SF64add, SFadd. rewrite (Z.min_comm f e), Z.add_comm. reflexivity.
Qed.
Lemma SFmul_comm a b : SF64mul a b = SF64mul b a.
Proof.
  destruct a as [s|s| |s m e], b as [t|t| |t n f]; try reflexivity;
    try (destruct s, t; reflexivity).
  unfold SF64mul, SFmul. rewrite (xorb_comm t s), (Pos.mul_comm n m), (Z.add_comm f e). reflexivity.
Qed.

Theorem fadd_comm x y : x + y = y + x.
Proof. apply Prim2SF_inj. rewrite !add_spec. apply SFadd_comm. Qed.
Theorem fmul_comm x y : x * y = y * x.
Proof. apply Prim2SF_inj. rewrite !mul_spec. apply SFmul_comm. Qed.

Theorem freal_add_comm x y : freal_add x y = freal_add y x.
Proof. apply fadd_comm. Qed.
Theorem freal_mul_comm x y : freal_mul x y = freal_mul y x.
Proof. unfold freal_mul. rewrite fmul_comm. reflexivity. Qed.
Theorem fvit_mul_comm x y : fvit_mul x y = fvit_mul y x.
Proof. unfold fvit_mul. rewrite fadd_comm. reflexivity. Qed.

(** associativity of float + is false, which is why it is not claimed at this level *)
Lemma fadd_not_assoc : exists x y z, (x + y) + z <> x + (y + z).
Proof.
  exists 1, 0x1p-53, 0x1p-53. intros H. apply (f_equal Prim2SF) in H. vm_compute in H. discriminate.
Qed.

(* ------------------------------------------------------------------------- *)
(** * Additive identity without rounding: x + 0 = x for every x except -0. *)

Theorem fadd_zero_r x : x <> neg_zero -> x + 0 = x.
Proof.
  intros Hz. apply Prim2SF_inj. rewrite add_spec. change (Prim2SF 0) with (S754_zero false).
  destruct (Prim2SF x) as [s|s| |s m e] eqn:E; try reflexivity.
  destruct s; [apply SF_negzero in E; contradiction | reflexivity].
Qed.
Theorem freal_add_zero_r x : x <> neg_zero -> freal_add x 0 = x.
Proof. apply fadd_zero_r. Qed.
(** Viterbi/Log one = 0.: mul x one = x for every non-NaN x except -0. *)
Theorem fvit_mul_one_r x : is_nan x = false -> x <> neg_zero -> fvit_mul x 0 = x.
Proof.
  intros Hn Hz. unfold fvit_mul. rewrite (fadd_zero_r x Hz). rewrite f_nan_to_num_spec.
  rewrite is_nan_spec in Hn.
  destruct (Prim2SF x) as [s|s| |s m e] eqn:E; try reflexivity; try discriminate.
  destruct s; [apply SF_neginf in E | apply SF_posinf in E]; symmetry; exact E.
Qed.
Example fvit_mul_one_ex : is_nan (-0x1.8p+3) = false /\ (-0x1.8p+3) <> neg_zero.
Proof. split; [reflexivity|]. intros H; apply (f_equal Prim2SF) in H; vm_compute in H; discriminate. Qed.

(* ------------------------------------------------------------------------- *)
(** * star *)

Theorem freal_star_ge1 x : (1 <=? x) = true -> freal_star x = infinity.
Proof. intros H. unfold freal_star. rewrite H. reflexivity. Qed.
Theorem freal_star_values :
  freal_star 0 = 1 /\ freal_star 1 = infinity /\ freal_star infinity = infinity /\
  freal_star 0.5 = 2 /\ freal_star 0x1.fffffffffffffp-1 = 0x1p+53.
Proof. repeat split. Qed.
Example freal_star_ge1_ex : (1 <=? 0x1.0000000000001p+0) = true /\ (1 <=? 0x1.fffffffffffffp+1023) = true.
Proof. split; reflexivity. Qed.

Theorem fvit_star_pos x : (0 <? x) = true -> fvit_star x = infinity.
Proof. intros H. unfold fvit_star. rewrite H. reflexivity. Qed.
Theorem fvit_star_nonpos x : (0 <? x) = false -> fvit_star x = 0.
Proof. intros H. unfold fvit_star. rewrite H. reflexivity. Qed.
Theorem fvit_star_values :
  fvit_star neg_infinity = 0 /\ fvit_star (-1) = 0 /\ fvit_star (-0x1p-1074) = 0 /\
  fvit_star 0 = 0 /\ fvit_star neg_zero = 0 /\
  fvit_star 0x1p-1074 = infinity /\ fvit_star infinity = infinity.
Proof. repeat split. Qed.
Example fvit_star_ex : (0 <? 0x1p-1074) = true /\ (0 <? -3) = false /\ (0 <? 0) = false.
Proof. repeat split. Qed.

(** star x solves y = max(0, x + y) on floats, exactly, for every non-NaN x *)
Theorem fvit_star_solution x : is_nan x = false -> fvit_add 0 (fvit_mul x (fvit_star x)) = fvit_star x.
Proof.
  intros Hn. rewrite is_nan_spec in Hn.
  destruct (Prim2SF x) as [s|s| |s m e] eqn:E; try discriminate.
  - destruct s; [apply SF_negzero in E | apply SF_poszero in E]; subst x; reflexivity.
  - destruct s; [apply SF_neginf in E | apply SF_posinf in E]; subst x; reflexivity.
  - destruct s.
    + (* negative finite: star = 0, x + 0 = x, max(0, x) = 0 *)
      assert (Hlt : (0 <? x) = false).
      { rewrite FloatAxioms.ltb_spec, E. reflexivity. }
      unfold fvit_star. rewrite Hlt.
      assert (Hz : x <> neg_zero).
      { intros C. subst x. vm_compute in E. discriminate. }
      unfold fvit_mul. rewrite (fadd_zero_r x Hz), f_nan_to_num_spec, E.
      unfold fvit_add, f_max. change (is_nan 0) with false. cbn iota.
      rewrite is_nan_spec, E, Hlt. reflexivity.
    + (* positive finite: star = inf *)
      assert (Hlt : (0 <? x) = true).
      { rewrite FloatAxioms.ltb_spec, E. reflexivity. }
      unfold fvit_star. rewrite Hlt.
      assert (P : Prim2SF (x + infinity) = S754_infinity false).
      { rewrite add_spec, E. reflexivity. }
      apply SF_posinf in P. unfold fvit_mul. rewrite P. reflexivity.
Qed.
Example fvit_star_solution_ex : is_nan (-0x1.8p+3) = false /\ is_nan 0x1p-1074 = false.
Proof. split; reflexivity. Qed.

(** F2 (repaired in /repo by d2ec7af) at the float level: the OLD formula returns +inf at 0.
    (and -0.), although y = 0. already satisfies y = max(0, x + y); so the value returned was a
    solution but not the least one.  Away from zero old and new formula agree. *)
Theorem fvit_star_old_zero_refuted :
  fvit_star_old 0 = infinity /\ fvit_star_old neg_zero = infinity /\
  fvit_add 0 (fvit_mul 0 0) = 0 /\ (0 <? fvit_star_old 0) = true.
Proof. repeat split. Qed.
Theorem fvit_star_old_guarded x : is_zero x = false -> fvit_star_old x = fvit_star x.
Proof.
  unfold fvit_star, fvit_star_old, is_zero. rewrite FloatAxioms.leb_spec, FloatAxioms.ltb_spec, FloatAxioms.eqb_spec.
  change (Prim2SF 0) with (S754_zero false). change (Prim2SF zero) with (S754_zero false).
  destruct (Prim2SF x) as [s|s| |s m e]; try destruct s; cbn; intros H; try reflexivity; discriminate.
Qed.
Example fvit_star_old_guarded_ex : is_zero 0x1p-1074 = false /\ is_zero (-3) = false /\ is_zero infinity = false.
Proof. repeat split. Qed.

(* ------------------------------------------------------------------------- *)
(** * maximum (ViterbiSemiring.add) on non-NaN values: identity, idempotent, commutative,
      associative.  The last two hold modulo the sign of zero only (max(+0,-0) is +0 or -0
      depending on argument order, in this model as in torch). *)

Theorem f_max_idem x : f_max x x = x.
Proof. unfold f_max. destruct (is_nan x); [reflexivity|]. destruct (x <? x); reflexivity. Qed.

Lemma same_float_refl x : same_float x x = true.
Proof. apply FloatAxioms.Leibniz.eqb_spec. reflexivity. Qed.
Lemma same_float_mod_zero_refl x : same_float_mod_zero x x = true.
Proof. unfold same_float_mod_zero. rewrite same_float_refl. reflexivity. Qed.

(** order key: SFcompare on non-NaN values is the lexicographic order of these triples *)
Definition skey (a : spec_float) : Z * Z * Z :=
  match a with
  | S754_infinity true => (-2, 0, 0)
  | S754_finite true m e => (-1, - e, - Zpos m)
  | S754_zero _ => (0, 0, 0)
  | S754_finite false m e => (1, e, Zpos m)
  | S754_infinity false => (2, 0, 0)
  | S754_nan => (3, 0, 0)
  end%Z.
Definition klt (k k' : Z * Z * Z) : Prop :=
  let '(a, b, c) := k in let '(a', b', c') := k' in
  (a < a' \/ (a = a' /\ (b < b' \/ (b = b' /\ c < c'))))%Z.

Lemma SFltb_klt a b : a <> S754_nan -> b <> S754_nan ->
  (SFltb a b = true <-> klt (skey a) (skey b)).
Proof.
  intros Ha Hb. unfold SFltb.
  destruct a as [s|s| |s m e], b as [t|t| |t n f]; try congruence;
    try destruct s; try destruct t; cbn [SFcompare skey klt];
    try (split; [intros H; try discriminate H; lia | intros H; try reflexivity; lia]).
  all: change (Pos.compare_cont Eq m n) with (Pos.compare m n);
    destruct (Z.compare_spec e f) as [E|E|E]; try destruct (Pos.compare_spec m n) as [P|P|P]; cbn [CompOpp];
    (split; [intros H; try discriminate H; lia | intros H; try reflexivity; lia]).
Qed.

Lemma skey_eq a b : a <> S754_nan -> b <> S754_nan -> skey a = skey b ->
  a = b \/ (exists s t, a = S754_zero s /\ b = S754_zero t).
Proof.
  intros Ha Hb. destruct a as [s|s| |s m e], b as [t|t| |t n f]; try congruence;
    try destruct s; try destruct t; cbn [skey]; intros H; try discriminate H;
    try (left; reflexivity); try (right; eauto; fail).
  - injection H as H1 H2. left. f_equal; lia.
  - injection H as H1 H2. left. f_equal; lia.
Qed.

Lemma nan_false_sf x : is_nan x = false -> Prim2SF x <> S754_nan.
Proof. rewrite is_nan_spec. intros H E. rewrite E in H. discriminate. Qed.

Lemma mod_zero_of_keys x y : is_nan x = false -> is_nan y = false ->
  skey (Prim2SF x) = skey (Prim2SF y) -> same_float_mod_zero x y = true.
Proof.
  intros Hx Hy H. apply nan_false_sf in Hx. apply nan_false_sf in Hy.
  destruct (skey_eq _ _ Hx Hy H) as [E | (s & t & E1 & E2)].
  - apply Prim2SF_inj in E. subst y. apply same_float_mod_zero_refl.
  - unfold same_float_mod_zero, is_zero. rewrite !FloatAxioms.eqb_spec, E1, E2.
    change (Prim2SF zero) with (S754_zero false). cbn. apply orb_true_r.
Qed.

Lemma ltb_klt x y : is_nan x = false -> is_nan y = false ->
  ((x <? y) = true <-> klt (skey (Prim2SF x)) (skey (Prim2SF y))).
Proof.
  intros Hx Hy. rewrite FloatAxioms.ltb_spec. apply SFltb_klt; apply nan_false_sf; assumption.
Qed.

Ltac keys x y :=
  let H := fresh "L" in
  destruct (x <? y) eqn:H;
  [ apply (proj1 (ltb_klt x y ltac:(assumption) ltac:(assumption))) in H
  | assert (~ klt (skey (Prim2SF x)) (skey (Prim2SF y)))
      by (intros C; apply (proj2 (ltb_klt x y ltac:(assumption) ltac:(assumption))) in C; congruence);
    clear H ].

Theorem f_max_comm x y : is_nan x = false -> is_nan y = false ->
  same_float_mod_zero (f_max x y) (f_max y x) = true.
Proof.
  intros Hx Hy. unfold f_max. rewrite Hx, Hy.
  keys x y; keys y x; try apply same_float_mod_zero_refl;
    apply mod_zero_of_keys; try assumption;
    destruct (skey (Prim2SF x)) as [[a1 b1] c1]; destruct (skey (Prim2SF y)) as [[a2 b2] c2];
    unfold klt in *; repeat f_equal; lia.
Qed.

Lemma f_max_nonnan x y : is_nan x = false -> is_nan y = false -> is_nan (f_max x y) = false.
Proof. intros Hx Hy. unfold f_max. rewrite Hx, Hy. destruct (x <? y); assumption. Qed.

Theorem f_max_assoc x y z : is_nan x = false -> is_nan y = false -> is_nan z = false ->
  same_float_mod_zero (f_max x (f_max y z)) (f_max (f_max x y) z) = true.
Proof.
  intros Hx Hy Hz. unfold f_max at 2 4. rewrite Hx, Hy, Hz.
  keys y z; keys x y; unfold f_max; rewrite ?Hx, ?Hy, ?Hz;
    keys x z; try keys y z; try keys x y; try apply same_float_mod_zero_refl;
    apply mod_zero_of_keys; try assumption;
    destruct (skey (Prim2SF x)) as [[a1 b1] c1]; destruct (skey (Prim2SF y)) as [[a2 b2] c2];
    destruct (skey (Prim2SF z)) as [[a3 b3] c3];
    unfold klt in *; repeat f_equal; lia.
Qed.

(** -inf is the identity of maximum, exactly *)
Theorem f_max_ninf_l x : is_nan x = false -> f_max neg_infinity x = x.
Proof.
  intros Hx. unfold f_max. rewrite Hx. change (is_nan neg_infinity) with false. cbn iota.
  rewrite FloatAxioms.ltb_spec. change (Prim2SF neg_infinity) with (S754_infinity true).
  rewrite is_nan_spec in Hx.
  destruct (Prim2SF x) as [s|s| |s m e] eqn:E; try discriminate; try destruct s; try reflexivity.
  apply SF_neginf in E. symmetry. exact E.
Qed.
Theorem f_max_ninf_r x : is_nan x = false -> f_max x neg_infinity = x.
Proof.
  intros Hx. unfold f_max. rewrite Hx. change (is_nan neg_infinity) with false. cbn iota.
  rewrite FloatAxioms.ltb_spec. change (Prim2SF neg_infinity) with (S754_infinity true).
  rewrite is_nan_spec in Hx.
  destruct (Prim2SF x) as [s|s| |s m e] eqn:E; try discriminate; try destruct s; reflexivity.
Qed.
Example f_max_ex : is_nan 0x1p-1074 = false /\ is_nan neg_infinity = false /\ is_nan (-0x1.8p+3) = false.
Proof. repeat split. Qed.
