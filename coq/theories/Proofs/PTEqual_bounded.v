(** The premise [compare_pre_b] of C13_equal_correct / C13_allclose_correct, discharged in the
    kernel on the bounded typed universes of Model/AxisEnum.v (the ones C06_unify_complete_upto12 and
    C06_unify_complete_2d_upto6 range over), for operands renamed apart and for an operand
    compared with itself (the freshening path).  The premise only depends on the patterns
    ([paxes], [vaxes]), not on the stored values or the defaults. *)
From Coq Require Import List Arith Lia PeanoNat Bool PArith QArith Qcanon.
Import ListNotations.
Require Import Fggs.Model.Axis Fggs.Model.AxisCheck Fggs.Model.AxisEnum Fggs.Model.XVal Fggs.Model.PTensor Fggs.Model.PTensorCheck Fggs.Model.PTEqual.
Require Import Fggs.Proofs.PTensor_dense Fggs.Proofs.PTEqual_sem Fggs.Proofs.PTEqual_main.
Local Open Scope nat_scope.

(** a tensor over a pattern: physical axes = free axes of the pattern in order of first occurrence *)
Definition pat_tensor (vs : list axis) : pt := mkPT (fun _ => XF 0%Qc) (fvn_list vs) vs (XF 0%Qc).

Definition strip (t : pt) : pt := mkPT (fun _ => XF 0%Qc) (paxes t) (vaxes t) (XF 0%Qc).

Lemma compare_pre_b_strip next (t u : pt) : compare_pre_b next t u = compare_pre_b next (strip t) (strip u).
Proof.
  destruct t as [pht pst vst dt], u as [phu psu vsu du]. unfold compare_pre_b, freshened, strip, pt_isdisjoint. cbn [paxes vaxes].
  destruct (forallb _ pst); [reflexivity|].
  unfold pt_freshen. cbn [paxes vaxes physical default].
  destruct (freshen_list (map (fun kn : pn => Phys (fst kn) (snd kn)) psu) _) as [ps st1].
  destruct (freshen_list vsu st1) as [vs st2]. reflexivity.
Qed.

Lemma compare_pre_b_pattern next (t u : pt) :
  paxes t = fvn_list (vaxes t) -> paxes u = fvn_list (vaxes u) ->
  compare_pre_b next t u = compare_pre_b next (pat_tensor (vaxes t)) (pat_tensor (vaxes u)).
Proof.
  intros Et Eu. rewrite compare_pre_b_strip. unfold strip, pat_tensor. rewrite Et, Eu. reflexivity.
Qed.

(** * (a) single axes, all index types with <= 3 leaves and size <= 12 *)
Definition pre_for_type (t : ity) : bool :=
  forallb (fun ef => compare_pre_b 100 (pat_tensor [fst ef]) (pat_tensor [snd ef])) (typed_pairs t)
  && forallb (fun e => compare_pre_b 100 (pat_tensor [e]) (pat_tensor [e])) (axes_of t 1).

Lemma pre_types_upto12_b : forallb pre_for_type (types_upto 12) = true.
Proof. vm_compute. reflexivity. Qed.

Theorem overlap_exact_upto12 : forall ty e f (t u : pt),
  In ty (types_upto 12) -> In e (axes_of ty 1) -> In f (axes_of ty 50) ->
  vaxes t = [e] -> paxes t = fvn_list [e] -> vaxes u = [f] -> paxes u = fvn_list [f] ->
  compare_pre_b 100 t u = true.
Proof.
  intros ty e f t u Hty He Hf Vt Pt Vu Pu. rewrite compare_pre_b_pattern by congruence. rewrite Vt, Vu.
  pose proof pre_types_upto12_b as H. rewrite forallb_forall in H. specialize (H ty Hty).
  unfold pre_for_type in H. apply andb_true_iff in H. destruct H as [H _]. rewrite forallb_forall in H.
  exact (H (e, f) (in_prod _ _ _ _ He Hf)).
Qed.

Theorem overlap_exact_self_upto12 : forall ty e (t : pt),
  In ty (types_upto 12) -> In e (axes_of ty 1) -> vaxes t = [e] -> paxes t = fvn_list [e] ->
  compare_pre_b 100 t t = true.
Proof.
  intros ty e t Hty He Vt Pt. rewrite compare_pre_b_pattern by congruence. rewrite Vt.
  pose proof pre_types_upto12_b as H. rewrite forallb_forall in H. specialize (H ty Hty).
  unfold pre_for_type in H. apply andb_true_iff in H. destruct H as [_ H]. rewrite forallb_forall in H.
  exact (H e He).
Qed.

(** * (b) two-dimensional patterns (shared variables = diagonals included) over the small index types *)
Definition pre_for_types2 (tt : ity * ity) : bool :=
  let '(t1, t2) := tt in
  forallb (fun ef => compare_pre_b 100 (pat_tensor (fst ef)) (pat_tensor (snd ef)))
          (list_prod (patterns2 t1 t2 1) (patterns2 t1 t2 50))
  && forallb (fun es => compare_pre_b 100 (pat_tensor es) (pat_tensor es)) (patterns2 t1 t2 1).

Lemma pre_small2_b : forallb pre_for_types2 (list_prod small_types small_types) = true.
Proof. vm_compute. reflexivity. Qed.

Theorem overlap_exact_2d_upto6 : forall t1 t2 es fs (t u : pt),
  In t1 small_types -> In t2 small_types ->
  In es (patterns2 t1 t2 1) -> In fs (patterns2 t1 t2 50) ->
  vaxes t = es -> paxes t = fvn_list es -> vaxes u = fs -> paxes u = fvn_list fs ->
  compare_pre_b 100 t u = true.
Proof.
  intros t1 t2 es fs t u H1 H2 He Hf Vt Pt Vu Pu. rewrite compare_pre_b_pattern by congruence. rewrite Vt, Vu.
  pose proof pre_small2_b as H. rewrite forallb_forall in H. specialize (H (t1, t2) (in_prod _ _ _ _ H1 H2)).
  unfold pre_for_types2 in H. apply andb_true_iff in H. destruct H as [H _]. rewrite forallb_forall in H.
  exact (H (es, fs) (in_prod _ _ _ _ He Hf)).
Qed.

Theorem overlap_exact_self_2d_upto6 : forall t1 t2 es (t : pt),
  In t1 small_types -> In t2 small_types -> In es (patterns2 t1 t2 1) ->
  vaxes t = es -> paxes t = fvn_list es -> compare_pre_b 100 t t = true.
Proof.
  intros t1 t2 es t H1 H2 He Vt Pt. rewrite compare_pre_b_pattern by congruence. rewrite Vt.
  pose proof pre_small2_b as H. rewrite forallb_forall in H. specialize (H (t1, t2) (in_prod _ _ _ _ H1 H2)).
  unfold pre_for_types2 in H. apply andb_true_iff in H. destruct H as [_ H]. rewrite forallb_forall in H.
  exact (H es He).
Qed.

(** * the unconditional statements on the bounded universes *)
Theorem equal_correct_upto12 : forall ty e f (t u : pt) b,
  In ty (types_upto 12) -> In e (axes_of ty 1) -> In f (axes_of ty 50) ->
  vaxes t = [e] -> paxes t = fvn_list [e] -> vaxes u = [f] -> paxes u = fvn_list [f] ->
  equal_model 100 t u = Ok b ->
  (b = true <-> shape xval t = shape xval u /\
                forall idx, in_bounds (shape xval t) idx -> denote xval t idx = denote xval u idx /\ denote xval t idx <> XNaN).
Proof.
  intros ty e f t u b Hty He Hf Vt Pt Vu Pu. apply equal_correct. exact (overlap_exact_upto12 ty e f t u Hty He Hf Vt Pt Vu Pu).
Qed.

Theorem equal_correct_2d_upto6 : forall t1 t2 es fs (t u : pt) b,
  In t1 small_types -> In t2 small_types ->
  In es (patterns2 t1 t2 1) -> In fs (patterns2 t1 t2 50) ->
  vaxes t = es -> paxes t = fvn_list es -> vaxes u = fs -> paxes u = fvn_list fs ->
  equal_model 100 t u = Ok b ->
  (b = true <-> shape xval t = shape xval u /\
                forall idx, in_bounds (shape xval t) idx -> denote xval t idx = denote xval u idx /\ denote xval t idx <> XNaN).
Proof.
  intros t1 t2 es fs t u b H1 H2 He Hf Vt Pt Vu Pu. apply equal_correct. exact (overlap_exact_2d_upto6 t1 t2 es fs t u H1 H2 He Hf Vt Pt Vu Pu).
Qed.

Theorem allclose_correct_2d_upto6 : forall rtol atol en t1 t2 es fs (t u : pt) b,
  In t1 small_types -> In t2 small_types ->
  In es (patterns2 t1 t2 1) -> In fs (patterns2 t1 t2 50) ->
  vaxes t = es -> paxes t = fvn_list es -> vaxes u = fs -> paxes u = fvn_list fs ->
  allclose_model rtol atol en 100 t u = Ok b ->
  (b = true <-> shape xval t = shape xval u /\
                forall idx, in_bounds (shape xval t) idx -> xisclose rtol atol en (denote xval t idx) (denote xval u idx) = true).
Proof.
  intros rtol atol en t1 t2 es fs t u b H1 H2 He Hf Vt Pt Vu Pu. apply allclose_correct. exact (overlap_exact_2d_upto6 t1 t2 es fs t u H1 H2 He Hf Vt Pt Vu Pu).
Qed.

(** * (c) the universe the correspondence harness enumerates: every typed pattern of every assignment of
    index types (unit summands included: nested and disjoint supports) to the dimensions of the shapes
    (2), (3), (2,2), (3,3), (2,2,2), (6), (2,3), (4,2); all ordered pairs renamed apart, and every pattern
    against itself *)
Definition unit_t : ity := TProd [].
Definition size_types (n : nat) : list ity :=
  match n with
  | 2 => [TAtom 2; TSum [unit_t; unit_t]]
  | 3 => [TAtom 3; TSum [TAtom 2; unit_t]; TSum [unit_t; TAtom 2]; TSum [unit_t; unit_t; unit_t]]
  | 4 => [TAtom 4; TProd [TAtom 2; TAtom 2]; TSum [TAtom 2; TAtom 2]; TSum [unit_t; TAtom 3]]
  | 6 => [TAtom 6; TProd [TAtom 2; TAtom 3]; TProd [TAtom 3; TAtom 2]; TSum [TAtom 3; TAtom 3]; TSum [TAtom 2; TAtom 4]]
  | _ => []
  end.

Fixpoint patterns_of (ts : list ity) (pl : pool) (start : positive) : list (list axis) :=
  match ts with
  | [] => [[]]
  | t :: ts' => flat_map (fun r => match r with (a, pl', nx) => map (cons a) (patterns_of ts' pl' nx) end)
                         (enum_axes 4 t pl start)
  end.

Definition type_combos (shp : list nat) : list (list ity) :=
  fold_right (fun n acc => flat_map (fun t => map (cons t) acc) (size_types n)) [[]] shp.
Definition shape_pairs (shp : list nat) : list (list axis * list axis) :=
  flat_map (fun ts => list_prod (patterns_of ts [] 1) (patterns_of ts [] 50)) (type_combos shp).
Definition shape_selfs (shp : list nat) : list (list axis) :=
  flat_map (fun ts => patterns_of ts [] 1) (type_combos shp).
Definition small_shapes : list (list nat) := [[2]; [3]; [2; 2]; [3; 3]; [2; 2; 2]; [6]; [2; 3]; [4; 2]].

Definition pre_for_shape (shp : list nat) : bool :=
  forallb (fun ef => compare_pre_b 100 (pat_tensor (fst ef)) (pat_tensor (snd ef))) (shape_pairs shp)
  && forallb (fun es => compare_pre_b 100 (pat_tensor es) (pat_tensor es)) (shape_selfs shp).

Lemma pre_small_shapes_b : forallb pre_for_shape small_shapes = true.
Proof. vm_compute. reflexivity. Qed.

Theorem overlap_exact_small_shapes : forall shp es fs (t u : pt),
  In shp small_shapes -> In (es, fs) (shape_pairs shp) ->
  vaxes t = es -> paxes t = fvn_list es -> vaxes u = fs -> paxes u = fvn_list fs ->
  compare_pre_b 100 t u = true.
Proof.
  intros shp es fs t u Hs Hp Vt Pt Vu Pu. rewrite compare_pre_b_pattern by congruence. rewrite Vt, Vu.
  pose proof pre_small_shapes_b as H. rewrite forallb_forall in H. specialize (H shp Hs).
  unfold pre_for_shape in H. apply andb_true_iff in H. destruct H as [H _]. rewrite forallb_forall in H.
  exact (H (es, fs) Hp).
Qed.

Theorem overlap_exact_self_small_shapes : forall shp es (t : pt),
  In shp small_shapes -> In es (shape_selfs shp) -> vaxes t = es -> paxes t = fvn_list es ->
  compare_pre_b 100 t t = true.
Proof.
  intros shp es t Hs Hp Vt Pt. rewrite compare_pre_b_pattern by congruence. rewrite Vt.
  pose proof pre_small_shapes_b as H. rewrite forallb_forall in H. specialize (H shp Hs).
  unfold pre_for_shape in H. apply andb_true_iff in H. destruct H as [_ H]. rewrite forallb_forall in H.
  exact (H es Hp).
Qed.

Theorem equal_correct_small_shapes : forall shp es fs (t u : pt) b,
  In shp small_shapes -> In (es, fs) (shape_pairs shp) ->
  vaxes t = es -> paxes t = fvn_list es -> vaxes u = fs -> paxes u = fvn_list fs ->
  equal_model 100 t u = Ok b ->
  (b = true <-> shape xval t = shape xval u /\
                forall idx, in_bounds (shape xval t) idx -> denote xval t idx = denote xval u idx /\ denote xval t idx <> XNaN).
Proof.
  intros shp es fs t u b Hs Hp Vt Pt Vu Pu. apply equal_correct. exact (overlap_exact_small_shapes shp es fs t u Hs Hp Vt Pt Vu Pu).
Qed.

Theorem allclose_correct_small_shapes : forall rtol atol en shp es fs (t u : pt) b,
  In shp small_shapes -> In (es, fs) (shape_pairs shp) ->
  vaxes t = es -> paxes t = fvn_list es -> vaxes u = fs -> paxes u = fvn_list fs ->
  allclose_model rtol atol en 100 t u = Ok b ->
  (b = true <-> shape xval t = shape xval u /\
                forall idx, in_bounds (shape xval t) idx -> xisclose rtol atol en (denote xval t idx) (denote xval u idx) = true).
Proof.
  intros rtol atol en shp es fs t u b Hs Hp Vt Pt Vu Pu. apply allclose_correct.
  exact (overlap_exact_small_shapes shp es fs t u Hs Hp Vt Pt Vu Pu).
Qed.

(** the same universe as the Python enumerator: 4 / 11 / 18 / 129 / 90 / 11 / 46 / 45 patterns,
    10 / 35 / 122 / 1379 / 1802 / 27 / 364 / 323 ordered pairs *)
Example small_shapes_counts :
  map (fun s => (length (shape_selfs s), length (shape_pairs s))) small_shapes =
  [(4, 10); (11, 35); (18, 122); (129, 1379); (90, 1802); (11, 27); (46, 364); (45, 323)].
Proof. vm_compute. reflexivity. Qed.

(** the universes are not trivial *)
Example bounded_nonvacuous :
  (2000 <? length (flat_map typed_pairs (types_upto 12))) = true /\
  (1000 <? length (flat_map (fun tt => list_prod (patterns2 (fst tt) (snd tt) 1) (patterns2 (fst tt) (snd tt) 50))
                            (list_prod small_types small_types))) = true /\
  compare_pre_b 100 (pat_tensor [Phys 1 3; Phys 1 3]) (pat_tensor [Sum 0 (Phys 50 2) 1; Phys 51 3]) = true.
Proof. vm_compute. repeat split; reflexivity. Qed.
