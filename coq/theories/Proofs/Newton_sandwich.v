(** C02 (tier B): the iterates of Newton's method ([Model/Newton.v], the code of
    fggs/sum_product.py:newton) lie between the Kleene iterates and every pre-fixed point, form
    an increasing chain, and both [maximum_] clamps of the code are no-ops in exact arithmetic
    (Esparza-Kiefer-Luttenberger, STACS 2007; Etessami-Yannakakis).

    Setting: an ordered commutative semiring ([sr_ring], [sr_ordered]); the extra facts about the
    code's [sub] and [maximum] are the explicit premise [newton_laws] (proved for Bool, Real and
    Viterbi in Proofs/Newton_inst.v); [multi_solve] is a parameter [solve] with the premise
    [solve_spec]: "the least solution of y = A y + b" (proved for [solve_ms], the block solver
    [multi_solve_model], in Proofs/Newton_solve.v from C09's theorems).
    Everything is stated on the component's range: nonterminals of [comp] at in-range tuples. *)
From Coq Require Import List Arith Bool PeanoNat Lia Ring Ring_theory.
Import ListNotations.
Require Import Fggs.Model.Semiring Fggs.Model.SCC Fggs.Model.SumProduct Fggs.Model.Kleene
               Fggs.Model.Dual Fggs.Model.Newton.
Require Import Fggs.Proofs.SCC_ntgraph Fggs.Proofs.BigSum Fggs.Proofs.SP_trees Fggs.Proofs.SP_nonrec
               Fggs.Proofs.SP_mono Fggs.Proofs.SP_driver Fggs.Proofs.Dual_ring Fggs.Proofs.Dual_leibniz
               Fggs.Proofs.Dual_J Fggs.Proofs.Dual_vjp Fggs.Proofs.Newton_taylor.
Require Fggs.Proofs.Kleene_control.

(** what the proofs need to know about [sub] and [maximum]; [rsd u x] is the largest [a] with
    [x + a <= u] (it only occurs in the proofs: Real [u - x] (inf if x = inf); idempotent
    semirings: [u]) *)
Record newton_laws {R : Type} (o : sr_ops R) (sub maxr rsd : R -> R -> R) : Prop := {
  max_ub_l : forall a b, le o a (maxr a b);
  max_ub_r : forall a b, le o b (maxr a b);
  max_lub : forall a b c, le o a c -> le o b c -> le o (maxr a b) c;
  sub_add : forall x y, le o y x -> add o (sub x y) y = x;
  rsd_galois : forall x u a, le o x u -> (le o (add o x a) u <-> le o a (rsd u x));
}.

Section Sandwich.
Context {R : Type} (o : sr_ops R).
Hypothesis Hr : sr_ring o.
Hypothesis Ho : sr_ordered o.
Add Ring RingNS : (sr_is_srt o Hr).
Context (sub maxr rsd : R -> R -> R).
Hypothesis HL : newton_laws o sub maxr rsd.
Local Notation "x <== y" := (le o x y) (at level 70).

Variable G : grammar.
Hypothesis Hwf : wf_grammar G = true.
Variables (w inp : env (R:=R)) (comp : list nat).
Hypothesis Hnd : NoDup comp.
Hypothesis Hcomp_nt : forall m, In m comp -> is_term G m = false.

Local Notation assts n := (all_assts (lshape G n)).
Local Notation F := (ncomp_step o G w inp comp).
Local Notation F0 := (newton_F0 o maxr G w inp comp).
Local Notation NJ := (newton_J o G w inp comp).

(** order / equality on the component's range *)
Definition le_on (x y : env (R:=R)) : Prop :=
  forall n xi, In n comp -> In xi (assts n) -> x n xi <== y n xi.
Definition eq_on (x y : env (R:=R)) : Prop :=
  forall n xi, In n comp -> In xi (assts n) -> x n xi = y n xi.
Definition env_add (x d : env (R:=R)) : env (R:=R) := fun l i => add o (x l i) (d l i).

(** [multi_mv(A, y)] for a Jacobian given by blocks *)
Definition Amv (A : jmat (R:=R)) (y : env (R:=R)) : env (R:=R) :=
  fun n xi => sumS o comp (fun m => sumS o (assts m) (fun eta => mul o (A n m (xi ++ eta)) (y m eta))).

(** [solve A b] is the least solution of y = A y + b (on the range) *)
Definition solve_spec (solve : jmat (R:=R) -> env (R:=R) -> env (R:=R)) : Prop :=
  forall A b,
    (forall n xi, In n comp -> In xi (assts n) ->
       solve A b n xi = add o (Amv A (solve A b) n xi) (b n xi))
    /\ (forall y, (forall n xi, In n comp -> In xi (assts n) -> add o (Amv A y n xi) (b n xi) <== y n xi) ->
                  le_on (solve A b) y).

Lemma le_on_refl x : le_on x x.
Proof. intros n xi _ _. apply (le_refl o Ho). Qed.
Lemma le_on_trans x y z : le_on x y -> le_on y z -> le_on x z.
Proof. intros H1 H2 n xi Hn Hxi. apply (le_trans o Ho) with (y n xi); [apply H1|apply H2]; assumption. Qed.
Lemma le_on_antisym x y : le_on x y -> le_on y x -> eq_on x y.
Proof. intros H1 H2 n xi Hn Hxi. apply (le_antisym o Ho); [apply H1|apply H2]; assumption. Qed.
Lemma eq_on_le x y : eq_on x y -> le_on x y.
Proof. intros H n xi Hn Hxi. rewrite (H n xi Hn Hxi). apply (le_refl o Ho). Qed.
Lemma eq_on_sym x y : eq_on x y -> eq_on y x.
Proof. intros H n xi Hn Hxi. symmetry. now apply H. Qed.

Lemma max_eq_l a b : b <== a -> maxr a b = a.
Proof.
  intros H. apply (le_antisym o Ho).
  - apply (max_lub o sub maxr rsd HL); [apply (le_refl o Ho) | exact H].
  - apply (max_ub_l o sub maxr rsd HL).
Qed.

(** ** the equations of the component are monotone and respect equality on the range *)
Lemma comp_env_le_on x y : le_on x y ->
  env_le_on o G (comp_env inp comp x) (comp_env inp comp y).
Proof.
  intros H X xi _ Hxi. unfold comp_env. destruct (mem comp X) eqn:E; [|apply (le_refl o Ho)].
  apply mem_In in E. now apply H.
Qed.

Lemma F_mono x y : le_on x y -> forall X xi, F x X xi <== F y X xi.
Proof.
  intros H. unfold ncomp_step. apply (step_mono_on o Hr Ho G w _ _ Hwf). now apply comp_env_le_on.
Qed.

Lemma F_ext x y : eq_on x y -> forall X xi, F x X xi = F y X xi.
Proof.
  intros H X xi. apply (le_antisym o Ho); apply F_mono; [apply eq_on_le | apply eq_on_le, eq_on_sym]; exact H.
Qed.

(** ** [multi_mv] of the code-shaped Jacobian, block by block *)
Lemma newton_J_labels x c : In c (NJ x) -> In (snd (fst c)) comp.
Proof. unfold newton_J, Jx_of. intros Hc. apply filter_In in Hc as [_ Hc]. now apply mem_In. Qed.

Lemma J_mv_blocks (J : list (nat * nat * (list nat -> R))) (d : env (R:=R)) n xi :
  (forall c, In c J -> In (snd (fst c)) comp) ->
  J_mv o G J d n xi = Amv (J_val o J) d n xi.
Proof.
  intros HJ. unfold Amv, J_val, J_mv.
  rewrite (BigSum.sumS_ext o comp _
             (fun m => sumS o J (fun c => if Nat.eqb (fst (fst c)) n && Nat.eqb (snd (fst c)) m
                                          then sumS o (assts m) (fun eta => mul o (snd c (xi ++ eta)) (d m eta))
                                          else zero o))).
  2:{ intros m _.
      rewrite (BigSum.sumS_ext o (assts m) _
                 (fun eta => sumS o J (fun c => if Nat.eqb (fst (fst c)) n && Nat.eqb (snd (fst c)) m
                                                then mul o (snd c (xi ++ eta)) (d m eta) else zero o))).
      - rewrite (sumS_exchange o Hr). apply BigSum.sumS_ext. intros c _.
        destruct (Nat.eqb (fst (fst c)) n && Nat.eqb (snd (fst c)) m); [reflexivity|].
        apply (sumS_all_zero o Hr). reflexivity.
      - intros eta _. rewrite (sumS_filter o Hr), (sumS_mul_r o Hr). apply BigSum.sumS_ext. intros c _.
        destruct (Nat.eqb (fst (fst c)) n && Nat.eqb (snd (fst c)) m); ring. }
  rewrite (sumS_exchange o Hr). apply BigSum.sumS_ext. intros c Hc.
  destruct (Nat.eqb (fst (fst c)) n) eqn:En; cbn [andb].
  - rewrite (BigSum.sumS_ext o comp _
               (fun m => if Nat.eqb m (snd (fst c))
                         then sumS o (assts m) (fun eta => mul o (snd c (xi ++ eta)) (d m eta)) else zero o))
      by (intros m _; rewrite (Nat.eqb_sym (snd (fst c)) m); reflexivity).
    symmetry.
    exact (sumS_pick o Hr Nat.eqb comp (snd (fst c))
             (fun m => sumS o (assts m) (fun eta => mul o (snd c (xi ++ eta)) (d m eta)))
             Nat.eqb_eq Hnd (HJ c Hc)).
  - symmetry. apply (sumS_all_zero o Hr). reflexivity.
Qed.

(** ** C02_newton_taylor: F(x) + J(x) . d <= F(x + d), with the code's J *)
Theorem newton_taylor x d n xi : In n comp -> In xi (assts n) ->
  add o (F x n xi) (Amv (J_val o (NJ x)) d n xi) <== F (env_add x d) n xi.
Proof.
  intros Hn Hxi. rewrite <- (J_mv_blocks (NJ x) d n xi (newton_J_labels x)).
  unfold newton_J. rewrite (Jx_is_derivative o Hr G Hwf comp _ d false n xi Hnd Hn Hxi).
  set (dd := fun l i => if mem comp l then d l i else zero o).
  rewrite (dstep_ext o G _ (env_k G w (comp_env inp comp x)) dd dd n xi).
  2:{ intros r ed a _ _ _. split; [|reflexivity]. unfold oenv, oapp, env_k.
      destruct (is_term G (fst ed)); reflexivity. }
  unfold ncomp_step. apply (taylor_step o Hr Ho G w (comp_env inp comp x) (comp_env inp comp (env_add x d)) dd n xi).
  - now apply Hcomp_nt.
  - intros l i. unfold env_k, comp_env, env_add, dd. destruct (is_term G l) eqn:Et.
    + destruct (mem comp l) eqn:Em; [|ring]. apply mem_In in Em. rewrite (Hcomp_nt l Em) in Et. discriminate.
    + destruct (mem comp l); ring.
Qed.

(** [multi_mv] is monotone in the vector *)
Lemma Amv_mono A y z : le_on y z -> forall n xi, Amv A y n xi <== Amv A z n xi.
Proof.
  intros H n xi. unfold Amv. apply (sumS_mono o Ho). intros m Hm.
  apply (sumS_mono o Ho). intros eta Heta. apply (mul_mono o Ho). now apply H.
Qed.

(** * one pass of the loop *)
Section OnePass.
Variable solve : jmat (R:=R) -> env (R:=R) -> env (R:=R).
Hypothesis Hsolve : solve_spec solve.
Local Notation NS := (newton_step o sub maxr G w inp comp solve).

(** the increment [dX] of the pass at [x] *)
Definition newton_dX (x : env (R:=R)) : env (R:=R) :=
  solve (J_val o (NJ x)) (fun n xi => sub (F0 x n xi) (x n xi)).

Lemma newton_step_unfold x n xi :
  NS x n xi = maxr (add o (x n xi) (newton_dX x n xi)) (F0 x n xi).
Proof. reflexivity. Qed.

Lemma F0_ge_x x n xi : x n xi <== F0 x n xi.
Proof. unfold newton_F0. apply (max_ub_r o sub maxr rsd HL). Qed.
Lemma F0_ge_F x n xi : F x n xi <== F0 x n xi.
Proof. unfold newton_F0. apply (max_ub_l o sub maxr rsd HL). Qed.

(** no premise: the clamps make the pass inflationary *)
Lemma step_ge_F0 x n xi : F0 x n xi <== NS x n xi.
Proof. rewrite newton_step_unfold. apply (max_ub_r o sub maxr rsd HL). Qed.
Lemma step_ge_x x n xi : x n xi <== NS x n xi.
Proof. apply (le_trans o Ho) with (F0 x n xi); [apply F0_ge_x | apply step_ge_F0]. Qed.
Lemma step_ge_F x n xi : F x n xi <== NS x n xi.
Proof. apply (le_trans o Ho) with (F0 x n xi); [apply F0_ge_F | apply step_ge_F0]. Qed.
Lemma step_ge_xd x n xi : add o (x n xi) (newton_dX x n xi) <== NS x n xi.
Proof. rewrite newton_step_unfold. apply (max_ub_l o sub maxr rsd HL). Qed.

(** under the invariant x <= F x: the first clamp is a no-op and x + (F0 - x) = F x *)
Lemma F0_is_F x : le_on x (F x) -> eq_on (F0 x) (F x).
Proof. intros H n xi Hn Hxi. unfold newton_F0. apply max_eq_l. now apply H. Qed.

Lemma x_plus_delta x : le_on x (F x) ->
  forall n xi, In n comp -> In xi (assts n) -> add o (x n xi) (sub (F0 x n xi) (x n xi)) = F x n xi.
Proof.
  intros H n xi Hn Hxi. rewrite (SRadd_comm Hr).
  rewrite (sub_add o sub maxr rsd HL) by apply F0_ge_x. now apply F0_is_F.
Qed.

(** x + dX = F x + J(x) . dX *)
Lemma x_plus_dX x : le_on x (F x) ->
  forall n xi, In n comp -> In xi (assts n) ->
    add o (x n xi) (newton_dX x n xi) = add o (F x n xi) (Amv (J_val o (NJ x)) (newton_dX x) n xi).
Proof.
  intros H n xi Hn Hxi. unfold newton_dX at 1.
  rewrite (proj1 (Hsolve _ _) n xi Hn Hxi). fold (newton_dX x).
  rewrite <- (x_plus_delta x H n xi Hn Hxi). ring.
Qed.

(** the invariant is preserved: x' <= F x' *)
Lemma step_inv x : le_on x (F x) -> le_on (NS x) (F (NS x)).
Proof.
  intros H n xi Hn Hxi. rewrite newton_step_unfold.
  apply (max_lub o sub maxr rsd HL).
  - rewrite (x_plus_dX x H n xi Hn Hxi).
    apply (le_trans o Ho) with (F (env_add x (newton_dX x)) n xi).
    + now apply newton_taylor.
    + apply F_mono. intros m eta _ _. apply step_ge_xd.
  - rewrite (F0_is_F x H n xi Hn Hxi). apply F_mono. intros m eta _ _. apply step_ge_x.
Qed.

(** a pass never overshoots a pre-fixed point *)
Lemma step_upper x u : le_on x (F x) -> le_on (F u) u -> le_on x u -> le_on (NS x) u.
Proof.
  intros H Hu Hxu.
  set (e := fun n xi => rsd (u n xi) (x n xi)).
  assert (Hxe : le_on (env_add x e) u).
  { intros n xi Hn Hxi. unfold env_add, e.
    apply (rsd_galois o sub maxr rsd HL (x n xi) (u n xi) _ (Hxu n xi Hn Hxi)). apply (le_refl o Ho). }
  assert (Hpre : forall n xi, In n comp -> In xi (assts n) ->
            add o (Amv (J_val o (NJ x)) e n xi) (sub (F0 x n xi) (x n xi)) <== e n xi).
  { intros n xi Hn Hxi. unfold e at 2.
    apply (rsd_galois o sub maxr rsd HL (x n xi) (u n xi) _ (Hxu n xi Hn Hxi)).
    replace (add o (x n xi) (add o (Amv (J_val o (NJ x)) e n xi) (sub (F0 x n xi) (x n xi))))
      with (add o (add o (x n xi) (sub (F0 x n xi) (x n xi))) (Amv (J_val o (NJ x)) e n xi)) by ring.
    rewrite (x_plus_delta x H n xi Hn Hxi).
    apply (le_trans o Ho) with (F (env_add x e) n xi); [now apply newton_taylor|].
    apply (le_trans o Ho) with (F u n xi); [now apply F_mono | now apply Hu]. }
  pose proof (proj2 (Hsolve _ _) e Hpre) as HdX. fold (newton_dX x) in HdX.
  intros n xi Hn Hxi. rewrite newton_step_unfold. apply (max_lub o sub maxr rsd HL).
  - apply (le_trans o Ho) with (add o (x n xi) (e n xi)); [|now apply Hxe].
    apply (add_mono o Ho); [apply (le_refl o Ho) | now apply HdX].
  - rewrite (F0_is_F x H n xi Hn Hxi).
    apply (le_trans o Ho) with (F u n xi); [now apply F_mono | now apply Hu].
Qed.

(** under the invariant the second clamp is a no-op as well: x' = x + dX *)
Lemma step_is_x_plus_dX x : le_on x (F x) -> eq_on (NS x) (env_add x (newton_dX x)).
Proof.
  intros H n xi Hn Hxi. rewrite newton_step_unfold. unfold env_add. apply max_eq_l.
  rewrite (F0_is_F x H n xi Hn Hxi), (x_plus_dX x H n xi Hn Hxi). apply le_add_r; assumption.
Qed.

(** a fixed point of the equations is a fixed point of the pass *)
Lemma step_fixed x : eq_on (F x) x -> eq_on (NS x) x.
Proof.
  intros H. apply le_on_antisym.
  - apply step_upper; [apply eq_on_le, eq_on_sym, H | apply eq_on_le, H | apply le_on_refl].
  - intros n xi _ _. apply step_ge_x.
Qed.

(** * the sequence *)
Local Notation nu := (newton_iter o sub maxr G w inp comp solve).
Local Notation kappa := (comp_kleene o G w inp comp).

(** nu_k <= F(nu_k) *)
Theorem newton_iter_inv k : le_on (nu k) (F (nu k)).
Proof.
  induction k as [|k IH].
  - intros n xi _ _. cbn [newton_iter]. unfold zero_env. apply (zero_le o Ho).
  - cbn [newton_iter]. now apply step_inv.
Qed.

(** C02_newton_monotone: the Newton sequence is increasing *)
Theorem newton_iter_mono k : forall n xi, nu k n xi <== nu (S k) n xi.
Proof. intros n xi. cbn [newton_iter]. apply step_ge_x. Qed.

Corollary newton_iter_mono_le j k : j <= k -> forall n xi, nu j n xi <== nu k n xi.
Proof.
  induction 1 as [|k Hjk IH]; intros n xi; [apply (le_refl o Ho)|].
  apply (le_trans o Ho) with (nu k n xi); [apply IH | apply newton_iter_mono].
Qed.

(** C02_newton_sandwich, lower half: Newton converges at least as fast as Kleene *)
Theorem newton_above_kleene k : forall n xi, kappa k n xi <== nu k n xi.
Proof.
  induction k as [|k IH]; intros n xi.
  - cbn. apply (le_refl o Ho).
  - cbn [comp_kleene newton_iter].
    apply (le_trans o Ho) with (F (nu k) n xi); [|apply step_ge_F].
    apply F_mono. intros m eta _ _. apply IH.
Qed.

(** C02_newton_sandwich, upper half: Newton never overshoots a pre-fixed point *)
Theorem newton_below_prefix u : le_on (F u) u -> forall k, le_on (nu k) u.
Proof.
  intros Hu k. induction k as [|k IH].
  - intros n xi _ _. cbn [newton_iter]. unfold zero_env. apply (zero_le o Ho).
  - cbn [newton_iter]. apply step_upper; [apply newton_iter_inv | exact Hu | exact IH].
Qed.

(** F(nu_k) <= nu_{k+1} <= F(nu_{k+1}) *)
Theorem newton_F_between k : forall n xi, F (nu k) n xi <== nu (S k) n xi.
Proof. intros n xi. cbn [newton_iter]. apply step_ge_F. Qed.

(** C02_newton_clamps_noop: on the exact sequence both [maximum_] are the identity *)
Theorem newton_clamps_noop k :
  eq_on (F0 (nu k)) (F (nu k)) /\ eq_on (nu (S k)) (env_add (nu k) (newton_dX (nu k))).
Proof.
  split; [apply F0_is_F | cbn [newton_iter]; apply step_is_x_plus_dX]; apply newton_iter_inv.
Qed.

(** once a fixed point is reached the sequence is stationary *)
Theorem newton_stationary k : eq_on (F (nu k)) (nu k) -> forall j, eq_on (nu (j + k)) (nu k).
Proof.
  intros H j. induction j as [|j IH]; [intros n xi _ _; reflexivity|].
  cbn [Nat.add newton_iter].
  assert (E : eq_on (F (nu (j + k))) (nu (j + k))).
  { intros n xi Hn Hxi. rewrite (F_ext _ _ IH n xi), (IH n xi Hn Hxi). now apply H. }
  intros n xi Hn Hxi. rewrite (step_fixed _ E n xi Hn Hxi). now apply IH.
Qed.

(** * the loop with its stop test *)
Variable close : env (R:=R) -> env (R:=R) -> bool.
Local Notation body := (newton_body o sub maxr G w inp comp solve close).

Lemma newton_for_is_loop n x :
  Newton.newton_for o sub maxr G w inp comp solve close n x = Kleene_control.newton_for body n x.
Proof.
  revert x. induction n as [|n IH]; intros x; [reflexivity|].
  cbn [Newton.newton_for Kleene_control.newton_for]. destruct (body x) as [x' stop].
  destruct stop; [reflexivity | apply IH].
Qed.

Lemma nstate_is_iter i : Kleene_control.nstate body (zero_env o) i = nu i.
Proof.
  induction i as [|i IH]; [reflexivity|].
  unfold Kleene_control.nstate in *. cbn [Kleene_control.iter]. rewrite IH. reflexivity.
Qed.

(** the warning is issued iff no pass's stop test succeeded *)
Theorem newton_run_warns_iff kmax :
  snd (newton_run o sub maxr G w inp comp solve close kmax) = true
  <-> forall i, i < kmax -> close (F0 (nu i)) (nu i) = false.
Proof.
  unfold newton_run. rewrite newton_for_is_loop.
  rewrite (Kleene_control.newton_loop_warns_iff body kmax (zero_env o)).
  split; intros H i Hi; specialize (H i Hi); unfold Kleene_control.nstop in *;
    rewrite nstate_is_iter in *; exact H.
Qed.

(** C02_newton_quiet_is_lfp: with an exact stop test, a run that does not warn returns the least
    fixed point of the component's equations *)
Theorem newton_run_quiet_is_lfp kmax :
  (forall a b, close a b = true -> eq_on a b) ->
  snd (newton_run o sub maxr G w inp comp solve close kmax) = false ->
  let res := fst (newton_run o sub maxr G w inp comp solve close kmax) in
  eq_on (F res) res
  /\ (forall u, le_on (F u) u -> le_on res u)
  /\ exists i, i < kmax /\ eq_on res (nu i).
Proof.
  intros Hclose Hq. cbv zeta.
  unfold newton_run in *. rewrite newton_for_is_loop in *.
  destruct (Kleene_control.newton_loop_quiet body kmax (zero_env o) Hq) as (i & Hi & Hs & _ & Hres).
  unfold Kleene_control.newton_loop in Hres. rewrite Hres.
  unfold Kleene_control.nstop in Hs. rewrite nstate_is_iter in *.
  cbn [newton_body snd] in Hs. cbn [newton_iter].
  assert (Hfix : eq_on (F (nu i)) (nu i)).
  { apply le_on_antisym; [|apply newton_iter_inv].
    intros n xi Hn Hxi. rewrite <- (Hclose _ _ Hs n xi Hn Hxi). apply F0_ge_F. }
  pose proof (step_fixed _ Hfix) as Hst.
  split; [|split].
  - intros n xi Hn Hxi. rewrite (F_ext _ _ Hst n xi), (Hst n xi Hn Hxi). now apply Hfix.
  - intros u Hu. apply le_on_trans with (nu i); [apply eq_on_le, Hst | now apply newton_below_prefix].
  - exists i. split; [exact Hi | exact Hst].
Qed.

(** whether it warns or not, the result is an iterate: below every pre-fixed point, above the
    Kleene iterate of the same number *)
Lemma newton_for_iterate n j :
  exists i, i <= n /\ fst (Newton.newton_for o sub maxr G w inp comp solve close n (nu j)) = nu (i + j).
Proof.
  revert j. induction n as [|n IH]; intros j; cbn [Newton.newton_for].
  - exists 0. split; [lia|reflexivity].
  - unfold newton_body. destruct (close (F0 (nu j)) (nu j)).
    + exists 1. split; [lia|reflexivity].
    + destruct (IH (S j)) as (i & Hi & E). exists (S i). split; [lia|].
      change (NS (nu j)) with (nu (S j)). rewrite E. f_equal. lia.
Qed.

Theorem newton_run_is_iterate kmax :
  exists i, i <= kmax /\ fst (newton_run o sub maxr G w inp comp solve close kmax) = nu i.
Proof.
  unfold newton_run. destruct (newton_for_iterate kmax 0) as (i & Hi & E).
  exists i. split; [exact Hi|]. change (zero_env o) with (nu 0). rewrite E. f_equal. lia.
Qed.
End OnePass.
End Sandwich.
