(** C07 on typed operands: the hypotheses about the semiring (a commutative semiring with a sound
    equality test that recognises zero) hold for the three exact carriers of the check functions:
    [ereal] (Real / Log), [trop] (Viterbi), [bool]; the main theorem instantiated at each. *)
From Coq Require Import List Arith Bool PeanoNat PArith QArith Qcanon.
Import ListNotations.
Require Import Fggs.Model.Semiring Fggs.Model.SumProduct Fggs.Model.EReal Fggs.Model.Trop.
Require Import Fggs.Model.Axis Fggs.Model.PTensor Fggs.Model.Einsum.
Require Import Fggs.Proofs.SemiringLaws Fggs.Proofs.SolveCarriers Fggs.Proofs.Instances_multisolve.
Require Import Fggs.Proofs.Axis_typed Fggs.Proofs.Axis_total Fggs.Proofs.PTensor_dense Fggs.Proofs.Einsum_support Fggs.Proofs.Einsum_project.
Require Import Fggs.Proofs.Einsum_typed_prep Fggs.Proofs.Einsum_typed_main.
Local Open Scope nat_scope.

Theorem typed_carriers :
  (sr_ring ereal_ops /\ (forall a b, eeqb a b = true -> a = b) /\ eeqb (Semiring.zero ereal_ops) (Semiring.zero ereal_ops) = true) /\
  (sr_ring trop_ops /\ (forall a b, teqb a b = true -> a = b) /\ teqb (Semiring.zero trop_ops) (Semiring.zero trop_ops) = true) /\
  (sr_ring bool_ops /\ (forall a b, Bool.eqb a b = true -> a = b) /\ Bool.eqb (Semiring.zero bool_ops) (Semiring.zero bool_ops) = true).
Proof.
  split; [|split].
  - split; [exact ereal_ring|]. split; [exact eeqb_eq|apply eeqb_refl].
  - split; [exact trop_ring|]. split; [exact teqb_eq|apply teqb_refl].
  - split; [exact bool_ring|]. split; [intros a b; apply Bool.eqb_prop|reflexivity].
Qed.

Section Inst.
Variable lty : nat -> list ity.
Hypothesis Hlty : forall l, gprimes (lty l).

Theorem einsum_model_typed_real G genabled next (ts : list (stensor (R:=ereal))) inputs output p :
  typed_operands lty G next ts inputs ->
  einsum_model ereal_ops eeqb genabled next ts inputs output = Ok p ->
  forall oidx, Forall2 lt oidx (einsum_shape (map (dn (R:=ereal)) (map st_pt ts)) inputs output) ->
  denote ereal p oidx = einsum_dense ereal_ops (map (dn (R:=ereal)) (map st_pt ts)) inputs output oidx.
Proof. exact (einsum_model_typed ereal_ops ereal_ring eeqb eeqb_eq (eeqb_refl _) lty Hlty G genabled next ts inputs output p). Qed.

Theorem einsum_model_typed_trop G genabled next (ts : list (stensor (R:=trop))) inputs output p :
  typed_operands lty G next ts inputs ->
  einsum_model trop_ops teqb genabled next ts inputs output = Ok p ->
  forall oidx, Forall2 lt oidx (einsum_shape (map (dn (R:=trop)) (map st_pt ts)) inputs output) ->
  denote trop p oidx = einsum_dense trop_ops (map (dn (R:=trop)) (map st_pt ts)) inputs output oidx.
Proof. exact (einsum_model_typed trop_ops trop_ring teqb teqb_eq (teqb_refl _) lty Hlty G genabled next ts inputs output p). Qed.

Theorem einsum_model_typed_bool G genabled next (ts : list (stensor (R:=bool))) inputs output p :
  typed_operands lty G next ts inputs ->
  einsum_model bool_ops Bool.eqb genabled next ts inputs output = Ok p ->
  forall oidx, Forall2 lt oidx (einsum_shape (map (dn (R:=bool)) (map st_pt ts)) inputs output) ->
  denote bool p oidx = einsum_dense bool_ops (map (dn (R:=bool)) (map st_pt ts)) inputs output oidx.
Proof. exact (einsum_model_typed bool_ops bool_ring Bool.eqb (fun a b => Bool.eqb_prop a b) eq_refl lty Hlty G genabled next ts inputs output p). Qed.
End Inst.
