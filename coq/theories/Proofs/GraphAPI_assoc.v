(** C16 -- lemmas about the association-list model of Python dicts. *)
From Coq Require Import List Arith Bool Lia Permutation.
Import ListNotations.
Require Import Fggs.Model.GraphAPI.

Section Assoc.
  Context {K V : Type} (Keq : forall a b : K, {a = b} + {a <> b}).
  Notation aget := (aget Keq). Notation aset := (aset Keq). Notation adel := (adel Keq).
  Notation amem := (amem Keq).

  Lemma aget_aset_same : forall (m : list (K * V)) k (v : V), aget (aset m k v) k = Some v.
  Proof.
    induction m as [|[a b] m IH]; intros k v; cbn.
    - destruct (Keq k k); congruence.
    - destruct (Keq a k) as [E|E]; cbn.
      + destruct (Keq a k); congruence.
      + destruct (Keq a k); [congruence | apply IH].
  Qed.

  Lemma aget_aset_other : forall (m : list (K * V)) k k' (v : V), k' <> k -> aget (aset m k v) k' = aget m k'.
  Proof.
    induction m as [|[a b] m IH]; intros k k' v N; cbn.
    - destruct (Keq k k'); congruence.
    - destruct (Keq a k) as [E|E]; cbn.
      + subst. destruct (Keq k k'); congruence.
      + destruct (Keq a k'); [reflexivity | apply IH; assumption].
  Qed.

  Lemma aget_aset : forall (m : list (K * V)) k k' (v : V),
      aget (aset m k v) k' = if Keq k k' then Some v else aget m k'.
  Proof.
    intros. destruct (Keq k k') as [E|E].
    - subst. apply aget_aset_same.
    - apply aget_aset_other. congruence.
  Qed.

  Lemma aset_id : forall (m : list (K * V)) k (v : V), aget m k = Some v -> aset m k v = m.
  Proof.
    induction m as [|[a b] m IH]; intros k v H; cbn in *; [discriminate|].
    destruct (Keq a k); [congruence | f_equal; apply IH; assumption].
  Qed.

  Lemma aget_In : forall (m : list (K * V)) k (v : V), aget m k = Some v -> In (k, v) m.
  Proof.
    induction m as [|[a b] m IH]; intros k v H; cbn in *; [discriminate|].
    destruct (Keq a k); [left; congruence | right; apply IH; assumption].
  Qed.

  Lemma aget_None : forall (m : list (K * V)) k, aget m k = None -> ~ In k (map (@fst K V) m).
  Proof.
    induction m as [|[a b] m IH]; intros k H; cbn in *; [tauto|].
    destruct (Keq a k); [discriminate|]. intros [E|E]; [congruence | eapply IH; eauto].
  Qed.

  Lemma notin_aget : forall (m : list (K * V)) k, ~ In k (map (@fst K V) m) -> aget m k = None.
  Proof.
    induction m as [|[a b] m IH]; intros k H; cbn in *; [reflexivity|].
    destruct (Keq a k); [exfalso; apply H; left; assumption | apply IH; tauto].
  Qed.

  Lemma In_aget : forall (m : list (K * V)) k (v : V), NoDup (map fst m) -> In (k, v) m -> aget m k = Some v.
  Proof.
    induction m as [|[a b] m IH]; intros k v ND H; cbn in *; [tauto|].
    inversion ND as [|? ? NI ND']; subst.
    destruct H as [H|H].
    - inversion H; subst. destruct (Keq k k); congruence.
    - destruct (Keq a k) as [E|E]; [|apply IH; assumption].
      subst. exfalso. apply NI. change k with (fst (k, v)). apply in_map. assumption.
  Qed.

  Lemma amem_true : forall (m : list (K * V)) k, amem m k = true <-> exists v, aget m k = Some v.
  Proof.
    intros. unfold GraphAPI.amem. destruct (aget m k); split; intros H; eauto; try discriminate.
    destruct H as [? H]; discriminate.
  Qed.
  Lemma amem_false : forall (m : list (K * V)) k, amem m k = false <-> aget m k = None.
  Proof. intros. unfold GraphAPI.amem. destruct (aget m k); split; intros; congruence. Qed.

  Lemma keys_aset : forall (m : list (K * V)) k (v : V),
      map fst (aset m k v) = if amem m k then map fst m else map fst m ++ [k].
  Proof.
    induction m as [|[a b] m IH]; intros k v; cbn; [reflexivity|].
    unfold GraphAPI.amem in *. cbn. destruct (Keq a k); cbn; [reflexivity|].
    rewrite IH. destruct (aget m k); reflexivity.
  Qed.

  Lemma NoDup_aset : forall (m : list (K * V)) k (v : V), NoDup (map fst m) -> NoDup (map fst (aset m k v)).
  Proof.
    intros m k v ND. rewrite keys_aset. destruct (amem m k) eqn:E; [assumption|].
    apply amem_false, aget_None in E.
    apply (Permutation_NoDup (l := k :: map fst m)).
    - apply Permutation_cons_append.
    - constructor; assumption.
  Qed.

  Lemma In_aset : forall (m : list (K * V)) k (v : V) x, In x (aset m k v) -> x = (k, v) \/ In x m.
  Proof.
    induction m as [|[a b] m IH]; intros k v x H; cbn in *.
    - destruct H; [left; congruence | tauto].
    - destruct (Keq a k); cbn in H.
      + destruct H as [H|H]; [left; subst; congruence | right; right; assumption].
      + destruct H as [H|H]; [right; left; assumption|].
        apply IH in H. destruct H; [left | right; right]; assumption.
  Qed.


  Lemma In_aset_old : forall (m : list (K * V)) k (v : V) k' v', k' <> k -> In (k', v') m -> In (k', v') (aset m k v).
  Proof.
    induction m as [|[a b] m IH]; intros k v k' v' N H; cbn in *; [tauto|].
    destruct (Keq a k); cbn.
    - destruct H as [H|H]; [inversion H; subst; congruence | right; assumption].
    - destruct H as [H|H]; [left; assumption | right; apply IH; assumption].
  Qed.

  Lemma In_adel : forall (m : list (K * V)) k x, In x (adel m k) -> In x m.
  Proof.
    induction m as [|[a b] m IH]; intros k x H; cbn in *; [tauto|].
    destruct (Keq a k); [right; assumption|].
    destruct H; [left; assumption | right; eapply IH; eauto].
  Qed.

  Lemma keys_adel_incl : forall (m : list (K * V)) k x, In x (map (@fst K V) (adel m k)) -> In x (map fst m).
  Proof.
    intros m k x H. apply in_map_iff in H. destruct H as [[a b] [E H]].
    apply In_adel in H. subst. change (fst (a, b)) with (fst (a, b)). apply in_map. assumption.
  Qed.

  Lemma NoDup_adel : forall (m : list (K * V)) k, NoDup (map (@fst K V) m) -> NoDup (map fst (adel m k)).
  Proof.
    induction m as [|[a b] m IH]; intros k ND; cbn in *; [constructor|].
    inversion ND; subst. destruct (Keq a k); [assumption|]. cbn. constructor.
    - intro H. apply keys_adel_incl in H. tauto.
    - apply IH. assumption.
  Qed.

  Lemma aget_adel_other : forall (m : list (K * V)) k k', k' <> k -> aget (adel m k) k' = aget m k'.
  Proof.
    induction m as [|[a b] m IH]; intros k k' N; cbn; [reflexivity|].
    destruct (Keq a k) as [E|E]; cbn.
    - subst. destruct (Keq k k'); congruence.
    - destruct (Keq a k'); [reflexivity | apply IH; assumption].
  Qed.

  Lemma In_adel_other : forall (m : list (K * V)) k k' (v : V), k' <> k -> In (k', v) m -> In (k', v) (adel m k).
  Proof.
    induction m as [|[a b] m IH]; intros k k' v N H; cbn in *; [tauto|].
    destruct (Keq a k).
    - destruct H as [H|H]; [inversion H; subst; congruence | assumption].
    - destruct H as [H|H]; [left; assumption | right; apply IH; assumption].
  Qed.

  (** in a dict with distinct keys the entry removed by [adel] is the one [aget] finds *)
  Lemma In_adel_key : forall (m : list (K * V)) k k' (v : V), NoDup (map fst m) -> In (k', v) (adel m k) -> k' <> k.
  Proof.
    induction m as [|[a b] m IH]; intros k k' v ND H; cbn in *; [tauto|].
    inversion ND as [|? ? NI ND']; subst.
    destruct (Keq a k).
    - subst. intro E. subst. apply NI. change k with (fst (k, v)). apply in_map. assumption.
    - destruct H as [H|H]; [inversion H; subst; assumption | eapply IH; eauto].
  Qed.

  Lemma length_aset : forall (m : list (K * V)) k (v : V), length (aset m k v) = if amem m k then length m else S (length m).
  Proof.
    intros. rewrite <- !(map_length fst), keys_aset. destruct (amem m k); [reflexivity|].
    rewrite app_length. cbn. lia.
  Qed.
End Assoc.

(** "every value is stored under its own key" *)
Definition keyed {K V} (key : V -> K) (m : list (K * V)) : Prop :=
  NoDup (map fst m) /\ forall k v, In (k, v) m -> k = key v.

Section Keyed.
  Context {K V : Type} (Keq : forall a b : K, {a = b} + {a <> b}) (key : V -> K).

  Lemma keyed_nil : keyed key (@nil (K * V)).
  Proof. split; [constructor | intros ? ? []]. Qed.

  Lemma keyed_aset : forall (m : list (K * V)) v, keyed key m -> keyed key (aset Keq m (key v) v).
  Proof.
    intros m v [ND KV]. split; [apply NoDup_aset; assumption|].
    intros k v' H. apply In_aset in H. destruct H as [H|H]; [inversion H; reflexivity | apply KV; assumption].
  Qed.

  Lemma keyed_adel : forall (m : list (K * V)) k, keyed key m -> keyed key (adel Keq m k).
  Proof.
    intros m k [ND KV]. split; [apply NoDup_adel; assumption|].
    intros k' v H. apply KV. eapply In_adel; eauto.
  Qed.

  Lemma keyed_aget : forall (m : list (K * V)) k v, keyed key m -> aget Keq m k = Some v -> k = key v.
  Proof. intros m k v [_ KV] H. apply KV. eapply aget_In; eauto. Qed.

  Lemma keyed_In_aget : forall (m : list (K * V)) k v, keyed key m -> In (k, v) m -> aget Keq m (key v) = Some v.
  Proof.
    intros m k v [ND KV] H. pose proof (KV _ _ H). subst. apply In_aget; assumption.
  Qed.
End Keyed.

Lemma inb_true : forall {A} (eq : forall a b : A, {a = b} + {a <> b}) x l, inb eq x l = true <-> In x l.
Proof.
  intros. unfold inb. rewrite existsb_exists. split.
  - intros [y [H1 H2]]. destruct (eq y x); [subst; assumption | discriminate].
  - intros H. exists x. split; [assumption|]. destruct (eq x x); congruence.
Qed.

Lemma inb_false : forall {A} (eq : forall a b : A, {a = b} + {a <> b}) x l, inb eq x l = false <-> ~ In x l.
Proof.
  intros. rewrite <- (inb_true eq). destruct (inb eq x l); split; intros; congruence.
Qed.

Lemma nodupb_true : forall {A} (eq : forall a b : A, {a = b} + {a <> b}) l, nodupb eq l = true <-> NoDup l.
Proof.
  induction l as [|x l IH]; cbn.
  - split; [constructor | reflexivity].
  - rewrite andb_true_iff, negb_true_iff, inb_false, IH. split.
    + intros [H1 H2]. constructor; assumption.
    + intros H. inversion H; tauto.
Qed.

Lemma nth_error_set_nth_other : forall {A} (l : list A) h k x, k <> h -> nth_error (set_nth l h x) k = nth_error l k.
Proof.
  induction l as [|y l IH]; intros h k x N; cbn; [reflexivity|].
  destruct h, k; cbn; try congruence; try reflexivity. apply IH. congruence.
Qed.

Lemma nth_error_set_nth_same : forall {A} (l : list A) h x, h < length l -> nth_error (set_nth l h x) h = Some x.
Proof.
  induction l as [|y l IH]; intros h x L; cbn in *; [lia|].
  destruct h; cbn; [reflexivity | apply IH; lia].
Qed.

Lemma length_set_nth : forall {A} (l : list A) h x, length (set_nth l h x) = length l.
Proof. induction l as [|y l IH]; intros [|h] x; cbn; auto. Qed.

Lemma set_nth_same : forall {A} (l : list A) h x, nth_error l h = Some x -> set_nth l h x = l.
Proof.
  induction l as [|y l IH]; intros [|h] x H; cbn in *; try discriminate; try congruence.
  f_equal. apply IH. assumption.
Qed.
