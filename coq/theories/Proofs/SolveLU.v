(** C09 -- RealSemiring.solve_thunks: if the answer of the LU routine (an oracle: "the unique
    solution of (I - A) x = b over the rationals") is accepted (no infinite entry in A, every
    entry of the answer >= 0), it equals the answer of the generic routine.
    The semiring laws of [ereal_ops] are premises (proved under C08). *)
From Coq Require Import List Arith Lia Bool PeanoNat QArith Qcanon Lqa.
Import ListNotations.
Require Import Fggs.Model.Semiring Fggs.Model.EReal Fggs.Model.Solve.
Require Import Fggs.Proofs.SolveElim Fggs.Proofs.SolveRefine.
Local Open Scope nat_scope.

Definition nnof (x : ereal) : nnq := match x with Fin a => a | PInf => nn0 end.
Definition qof (x : ereal) : Qc := qv (nnof x).
Definition qsum (l : list nat) (f : nat -> Qc) : Qc := fold_right Qcplus 0%Qc (map f l).
Definition nnsum (l : list nat) (f : nat -> nnq) : nnq := fold_right nnadd nn0 (map f l).

Lemma qv_nnsum l f : qv (nnsum l f) = qsum l (fun j => qv (f j)).
Proof. induction l as [|k l IH]; [reflexivity|]. cbn. unfold nnsum, qsum in IH. rewrite IH. reflexivity. Qed.

Lemma esum_fin l (f : nat -> nnq) :
  sum_list ereal_ops (map (fun j => Fin (f j)) l) = Fin (nnsum l f).
Proof. induction l as [|k l IH]; [reflexivity|]. cbn [map sum_list]. rewrite IH. reflexivity. Qed.

Lemma fin_nnof x : is_inf x = false -> x = Fin (nnof x).
Proof. destruct x; [reflexivity|discriminate]. Qed.

Lemma qsum_ext l f g : (forall j, In j l -> f j = g j) -> qsum l f = qsum l g.
Proof.
  induction l as [|k l IH]; intros H; [reflexivity|]. cbn. rewrite H by now left.
  unfold qsum in IH. rewrite IH; [reflexivity|]. intros; apply H; now right.
Qed.

(** the rational linear system (I - A) y = b *)
Definition lin_sol (n : nat) (A : mat ereal) (b : vec ereal) (y : nat -> Qc) : Prop :=
  forall i, i < n ->
    (y i - qsum (seq 0 n) (fun j => qof (get2 ereal_ops A i j) * y j) = qof (get1 ereal_ops b i))%Qc.
Definition finite_sys (n : nat) (A : mat ereal) (b : vec ereal) : Prop :=
  (forall i j, i < n -> j < n -> is_inf (get2 ereal_ops A i j) = false) /\
  (forall i, i < n -> is_inf (get1 ereal_ops b i) = false).

(** the affine map on finite vectors, computed in Qc *)
Lemma affine_fin n A b (x : nat -> nnq) i : finite_sys n A b -> i < n ->
  add ereal_ops (sum_n ereal_ops n (fun j => mul ereal_ops (get2 ereal_ops A i j) (Fin (x j))))
      (get1 ereal_ops b i)
  = Fin (nnadd (nnsum (seq 0 n) (fun j => nnmul (nnof (get2 ereal_ops A i j)) (x j)))
               (nnof (get1 ereal_ops b i))).
Proof.
  intros [HA Hb] Hi. unfold sum_n.
  rewrite (map_ext_in _ (fun j => Fin (nnmul (nnof (get2 ereal_ops A i j)) (x j)))).
  - rewrite esum_fin. rewrite (fin_nnof (get1 ereal_ops b i)) at 1 by (apply Hb; exact Hi). reflexivity.
  - intros j Hj. apply in_seq in Hj. rewrite (fin_nnof (get2 ereal_ops A i j)) at 1 by (apply HA; lia).
    reflexivity.
Qed.

Lemma qv_affine n A b (x : nat -> nnq) i :
  qv (nnadd (nnsum (seq 0 n) (fun j => nnmul (nnof (get2 ereal_ops A i j)) (x j)))
            (nnof (get1 ereal_ops b i)))
  = (qsum (seq 0 n) (fun j => qof (get2 ereal_ops A i j) * qv (x j)) + qof (get1 ereal_ops b i))%Qc.
Proof. cbn [nnadd qv]. rewrite qv_nnsum. reflexivity. Qed.

Lemma map_ext_in_sum n (A : mat ereal) i (mu : nat -> ereal) (m : nat -> nnq) :
  (forall j, j < n -> mu j = Fin (m j)) ->
  sum_n ereal_ops n (fun j => mul ereal_ops (get2 ereal_ops A i j) (mu j))
  = sum_n ereal_ops n (fun j => mul ereal_ops (get2 ereal_ops A i j) (Fin (m j))).
Proof.
  intros H. unfold sum_n. f_equal. apply map_ext_in. intros j Hj. apply in_seq in Hj.
  rewrite (H j) by lia. reflexivity.
Qed.

Section LU.
Hypothesis Hring : sr_ring ereal_ops.
Hypothesis Hord : sr_ordered ereal_ops.
Hypothesis Hstar : sr_star ereal_ops.

(** a non-negative rational solution of (I - A) q = b that is unique is the least solution *)
Theorem lu_answer_is_least n A b (q : nat -> Qc) :
  finite_sys n A b -> lin_sol n A b q ->
  (forall y, lin_sol n A b y -> forall i, i < n -> y i = q i) ->
  (forall i, i < n -> nnb (q i) = true) ->
  forall i, i < n -> get1 ereal_ops (solve_model ereal_ops n A b) i = Fin (nn_of_Qc (q i)).
Proof.
  intros Hfin Hq Huniq Hnn.
  set (mu := get1 ereal_ops (solve_model ereal_ops n A b)).
  set (X := fun i => Fin (nn_of_Qc (q i))).
  (* 1. X is a solution over ereal *)
  assert (HX : sol_spec ereal_ops n A b X).
  { intros i Hi. unfold X.
    rewrite (affine_fin n A b (fun j => nn_of_Qc (q j)) i Hfin Hi).
    f_equal. apply nnq_eq. rewrite qv_affine.
    rewrite nn_of_Qc_qv by (apply Hnn; exact Hi).
    rewrite (qsum_ext (seq 0 n) _ (fun j => qof (get2 ereal_ops A i j) * q j)%Qc).
    - specialize (Hq i Hi). rewrite <- Hq. ring.
    - intros j Hj. apply in_seq in Hj. rewrite nn_of_Qc_qv by (apply Hnn; lia). reflexivity. }
  (* 2. mu <= X, hence mu is finite *)
  assert (Hle : forall i, i < n -> ele (mu i) (X i)).
  { intros i Hi. apply (solve_model_least ereal_ops Hring Hord Hstar n A b X); [|exact Hi].
    intros k Hk. rewrite <- (HX k Hk). apply (le_refl ereal_ops Hord). }
  assert (Hmufin : forall i, i < n -> mu i = Fin (nnof (mu i))).
  { intros i Hi. specialize (Hle i Hi). unfold X in Hle. destruct (mu i); [reflexivity|destruct Hle]. }
  (* 3. mu solves the rational system, so it is q *)
  assert (Hmusol : sol_spec ereal_ops n A b mu)
    by (apply solve_model_sol; [exact Hring|apply (star_unfold ereal_ops Hstar)]).
  assert (Hlin : lin_sol n A b (fun i => qv (nnof (mu i)))).
  { intros i Hi. specialize (Hmusol i Hi).
    rewrite (map_ext_in_sum n A i mu (fun j => nnof (mu j)) Hmufin) in Hmusol.
    rewrite (affine_fin n A b (fun j => nnof (mu j)) i Hfin Hi) in Hmusol.
    rewrite (Hmufin i Hi) in Hmusol. injection Hmusol as E.
    apply (f_equal qv) in E. rewrite qv_affine in E. cbn [nnof] in E. rewrite E. ring. }
  intros i Hi. rewrite (Hmufin i Hi). f_equal. apply nnq_eq.
  rewrite nn_of_Qc_qv by (apply Hnn; exact Hi).
  apply (Huniq _ Hlin i Hi).
Qed.

(** C09_real_lu_path: [real_solve_model] with an LU oracle that returns the unique rational
    solution of (I - A) x = b agrees with the generic routine, whichever branch is taken *)
Theorem real_lu_path (lu : mat ereal -> vec ereal -> option (list luval)) n A b (q : nat -> Qc) :
  finite_sys n A b ->
  lu A b = Some (map (fun i => LFin (q i)) (seq 0 n)) ->
  lin_sol n A b q -> (forall y, lin_sol n A b y -> forall i, i < n -> y i = q i) ->
  forall i, i < n ->
    get1 ereal_ops (real_solve_model lu n A b) i = get1 ereal_ops (solve_model ereal_ops n A b) i.
Proof.
  intros Hfin Hlu Hq Hu i Hi. unfold real_solve_model.
  destruct (existsb is_inf (concat A)); [reflexivity|]. rewrite Hlu.
  destruct (forallb lu_nonneg (map (fun i => LFin (q i)) (seq 0 n))) eqn:Hacc; [|reflexivity].
  assert (Hnn : forall j, j < n -> nnb (q j) = true).
  { intros j Hj. rewrite forallb_forall in Hacc. apply (Hacc (LFin (q j))).
    apply in_map_iff. exists j. split; [reflexivity|apply in_seq; lia]. }
  rewrite (lu_answer_is_least n A b q Hfin Hq Hu Hnn i Hi).
  unfold get1. rewrite map_map. rewrite nth_map_seq by exact Hi. reflexivity.
Qed.

End LU.

(** the hypotheses are satisfiable: x = x/2 + 1 has the unique rational solution 2 *)
Example real_lu_path_hyps :
  let A := [[Fin (nn_of_Q (1 # 2))]] in let b := [Fin nn1] in let q := fun _ : nat => Q2Qc 2 in
  finite_sys 1 A b /\ lin_sol 1 A b q /\ (forall y, lin_sol 1 A b y -> forall i, i < 1 -> y i = q i).
Proof.
  cbv zeta.
  assert (E2 : (Q2Qc 2 * Q2Qc (1 # 2) = 1)%Qc) by (apply Qc_is_canon; reflexivity).
  assert (Eh : qof (Fin (nn_of_Q (1 # 2))) = Q2Qc (1 # 2)) by (apply Qc_is_canon; reflexivity).
  assert (E1 : qof (Fin nn1) = 1%Qc) by reflexivity.
  split; [|split].
  - split; intros i; intros; destruct i as [|[|i]]; try lia; try reflexivity.
    destruct j as [|[|j]]; try lia; reflexivity.
  - intros i Hi. destruct i; [|lia]. unfold qsum. cbn [seq map fold_right get2 get1 nth].
    rewrite Eh, E1. rewrite Qcplus_0_r.
    replace (Q2Qc 2 - Q2Qc (1 # 2) * Q2Qc 2)%Qc with (Q2Qc 2 - Q2Qc 2 * Q2Qc (1 # 2))%Qc by ring.
    rewrite E2. apply Qc_is_canon. reflexivity.
  - intros y Hy i Hi. destruct i; [|lia]. specialize (Hy 0 Hi).
    unfold qsum in Hy. cbn [seq map fold_right get2 get1 nth] in Hy. rewrite Eh, E1, Qcplus_0_r in Hy.
    assert (E3 : Q2Qc 2 = (1 + 1)%Qc) by (apply Qc_is_canon; reflexivity).
    replace (y O) with (Q2Qc 2 * (y O - Q2Qc (1 # 2) * y O)
                        + (1 - Q2Qc 2 + Q2Qc 2 * Q2Qc (1 # 2)) * y O)%Qc by ring.
    rewrite Hy, E2, E3. ring.
Qed.
