(** C11 -- the hypotheses of the vector stop-bound theorems are satisfiable by non-trivial values *)
From Coq Require Import QArith Qabs Bool List Lqa Lia.
Require Import Fggs.Model.Tolerance Fggs.Proofs.Tolerance_vec Fggs.Proofs.Tolerance_stop Fggs.Proofs.Kleene_control.
Import ListNotations.
Local Open Scope Q_scope.

Ltac qle := apply Qle_bool_iff; vm_compute; reflexivity.

(** two mutually recursive nonterminals:  x1 = x1/2 + x2/4 + 1,  x2 = x1/4 + x2/2 + 2;
    a = 3/4, least fixed point (16/3, 20/3) *)
Definition exA : list (list Q) := [[1#2; 1#4]; [1#4; 1#2]].
Definition exc : list Q := [1; 2].
Definition exmu : list Q := [16#3; 20#3].

Example ex_hyps :
  Forall (Forall (fun q => 0 <= q)) exA /\ Forall (fun r => rowsum r <= 3#4) exA /\
  0 <= 3#4 /\ 3#4 < 1 /\ length exA = length exc /\ Forall (fun q => 0 <= q) exc /\
  veq exmu (vstep exA exc exmu) /\
  0 <= 2 /\ Forall (fun q => q <= 2) exc /\ qpow (3#4) 5 * 2 <= 1#2 /\ (5 <= 1000)%nat.
Proof.
  repeat split; try (repeat constructor; qle); try lia; try reflexivity.
Qed.

(** the run itself: with tol = 1/2 the loop stops at pass 4 (<= 5, the bound) without warning
    (Q arithmetic does not normalise fractions, so the example keeps the number of passes small) *)
Example ex_run :
  fixed_point_loop (vstep exA exc) (vclose (1#2)) 1000 (vzero 2)
    = Some (viter exA exc 4, viter exA exc 5, false)
  /\ vclose (1#2) (viter exA exc 3) (viter exA exc 4) = false
  /\ vtol_check (exA, exc, exmu, 1#2, 0, viter exA exc 4) = 0%nat.
Proof. repeat split; vm_compute; reflexivity. Qed.

(** the explicit pass bound for this instance: ceil((2 - 1/2) / (1/2 * 1/4)) = 12 *)
Example ex_pass_bound : pass_bound (3#4) (1#2) 2 = 12%nat.
Proof. vm_compute. reflexivity. Qed.

(** a value outside the band is rejected: hypotheses of [vtol_check_rejects] *)
Example ex_rejects :
  vguard exA exc exmu (1#2) [3; 20#3] = true /\
  Exists (fun mo => snd mo < fst mo - (1#2) / (1 - mnorm exA) - (1#1000)) (combine exmu [3; 20#3]).
Proof. split; [vm_compute; reflexivity|]. apply Exists_cons_hd. vm_compute. reflexivity. Qed.

(** block representations: shapes [1;1]; an implementation of x |-> A x + c that materialises
    every block, and one that drops a block whenever its entry is zero *)
Definition unfin (u : xq) : Q := match u with XFin q => q | _ => 0 end.
Definition exFR (drop_zero : bool) (X : list block) : list block :=
  map (fun q => if drop_zero && Qeq_bool q 0 then None else Some [XFin q])
      (vstep exA exc (map unfin (dense (XFin 0) [1%nat; 1%nat] X))).

Lemma unfin_xeq u x : Forall2 xeq u (map XFin x) -> veq (map unfin u) x.
Proof.
  revert x. induction u as [|e u IH]; intros [|q x] H; inversion H; subst; constructor.
  - destruct e; cbn [xeq unfin] in *; try contradiction. assumption.
  - apply IH. assumption.
Qed.

Lemma dot_veq r x y : veq x y -> dot r x == dot r y.
Proof.
  intros F. revert r. induction F as [|p q x y Hpq F IH]; intros [|a r]; cbn [dot]; try reflexivity.
  rewrite Hpq, (IH r). reflexivity.
Qed.

Example exFR_represents drop X x :
  represents [1%nat; 1%nat] X x -> represents [1%nat; 1%nat] (exFR drop X) (vstep exA exc x).
Proof.
  intros [W D]. apply unfin_xeq in D. unfold exFR.
  set (u := map unfin (dense (XFin 0) [1%nat; 1%nat] X)) in *.
  unfold exA, exc. cbn [vstep map].
  pose proof (dot_veq [1#2; 1#4] u x D) as E1. pose proof (dot_veq [1#4; 1#2] u x D) as E2.
  split.
  - cbn [wf_blocks]. destruct (drop && Qeq_bool _ 0), (drop && Qeq_bool _ 0); reflexivity.
  - cbn [dense].
    destruct (drop && Qeq_bool (dot [1 # 2; 1 # 4] u + 1) 0) eqn:Z1; destruct (drop && Qeq_bool (dot [1 # 4; 1 # 2] u + 2) 0) eqn:Z2;
      cbn [repeat app]; repeat constructor; cbn [xeq];
      try (apply andb_true_iff in Z1 as [_ Z1]; apply Qeq_bool_iff in Z1);
      try (apply andb_true_iff in Z2 as [_ Z2]; apply Qeq_bool_iff in Z2); lra.
Qed.
