(** C18 heap model: MultiTensor.clone denotes the value of its source (keys in the same order,
    every element with the denotation of the source's element). *)
From Coq Require Import List Arith Bool PeanoNat ZArith Lia.
Import ListNotations.
Require Import Fggs.Model.Heap Fggs.Proofs.Heap_frame Fggs.Proofs.Heap_clone.

Lemma lookup_app_notin k a b : ~ In k (map fst a) -> lookup k (a ++ b) = lookup k b.
Proof.
  induction a as [|[k' r] t IH]; cbn; [reflexivity|]. intros H.
  destruct (k' =? k) eqn:E; [apply Nat.eqb_eq in E; exfalso; apply H; left; exact E|].
  apply IH. intros Hin. apply H. right. exact Hin.
Qed.

Lemma lookup_notin k d : ~ In k (map fst d) -> lookup k d = None.
Proof. intros H. rewrite <- (app_nil_r d). rewrite lookup_app_notin by exact H. reflexivity. Qed.

Lemma den_DVpt_ref st r d : den st r = DVpt d -> den_ref st r = Some d.
Proof.
  unfold den, den_ref, get_pt. destruct (get_obj st r) as [[p|dd]|]; intros H; inversion H. reflexivity.
Qed.

Lemma map_pair_eq (A : Type) (f g : nat -> A) (d1 d2 : list (nat * nat)) :
  map fst d1 = map fst d2 -> map (fun kr => f (snd kr)) d1 = map (fun kr => g (snd kr)) d2 ->
  map (fun kr => (fst kr, f (snd kr))) d1 = map (fun kr => (fst kr, g (snd kr))) d2.
Proof.
  revert d2. induction d1 as [|a t IH]; intros [|b t2] H1 H2; cbn in *; try discriminate.
  - reflexivity.
  - injection H1 as Hf Ht. injection H2 as Hg Hu. rewrite Hf, Hg. f_equal. apply IH; assumption.
Qed.

Section Clone.
Variables (st : state) (x : nat) (dx : list (nat * nat)).
Let c := length (st_objs st).
Let ns := length (st_store st).
Hypothesis Hx : get_mt st x = Some dx.
Hypothesis Hnd : NoDup (map fst dx).
Hypothesis Hcl : closed c ns st x.

Definition cinv (s : state) (done : list (nat * nat)) : Prop :=
  (forall r, r < c -> get_obj s r = get_obj st r) /\
  (forall sid, sid < ns -> nth_error (st_store s) sid = nth_error (st_store st) sid) /\
  c < length (st_objs s) /\ ns <= length (st_store s) /\
  exists dc, get_mt s c = Some dc /\ map fst dc = map fst done /\
             map (fun kr => den_ref s (snd kr)) dc = map (fun kr => den_ref st (snd kr)) done /\
             Forall (fun kr => c < snd kr /\ snd kr < length (st_objs s) /\
                               forall p, get_pt s (snd kr) = Some p -> pt_sid p < length (st_store s)) dc.

Lemma x_lt : x < c.
Proof. pose proof Hx as H. apply get_mt_obj in H. eapply get_obj_lt. exact H. Qed.

Lemma elem_closed k e : In (k, e) dx -> e < c /\ forall p, get_pt st e = Some p -> pt_sid p < ns.
Proof.
  intros Hin. pose proof Hcl as H. unfold closed in H. pose proof Hx as Hx'. apply get_mt_obj in Hx'. rewrite Hx' in H.
  rewrite Forall_forall in H. apply (H (k, e) Hin).
Qed.

Lemma clone_loop rest : forall s done s',
  dx = done ++ rest -> cinv s done ->
  loop (mcopy_body c x) s (map fst rest) = (s', ONone) ->
  cinv s' dx.
Proof.
  induction rest as [|[k e] rest IH]; intros s done s' Hdx Hinv Hl.
  - cbn in Hl. inversion Hl. subst s'. rewrite app_nil_r in Hdx. subst done. exact Hinv.
  - cbn [map fst loop] in Hl.
    destruct (mcopy_body c x s k) as [s1 o1] eqn:Eb.
    destruct Hinv as [Ha [Hb [Hc [Hd [dc [Hdc [Hk [Hden Hall]]]]]]]].
    assert (Hin : In (k, e) dx) by (rewrite Hdx; apply in_or_app; right; left; reflexivity).
    destruct (elem_closed k e Hin) as [He Hsid].
    assert (Hnk : ~ In k (map fst done)).
    { pose proof Hnd as Hnd'. rewrite Hdx, map_app in Hnd'. apply NoDup_remove_2 in Hnd'.
      intros Hx'. apply Hnd'. apply in_or_app. left. exact Hx'. }
    unfold mcopy_body in Eb. rewrite Hdc in Eb.
    assert (Hgx : get_mt s x = Some dx).
    { unfold get_mt. rewrite (Ha x x_lt). pose proof Hx as Hx'. apply get_mt_obj in Hx'. rewrite Hx'. reflexivity. }
    rewrite Hgx in Eb.
    assert (Hlk : lookup k dx = Some e).
    { rewrite Hdx, lookup_app_notin by exact Hnk. cbn. rewrite Nat.eqb_refl. reflexivity. }
    rewrite Hlk in Eb.
    rewrite (lookup_notin k dc) in Eb by (rewrite Hk; exact Hnk).
    assert (Hge : get_pt s e = get_pt st e) by (unfold get_pt; rewrite (Ha e He); reflexivity).
    rewrite Hge in Eb.
    destruct (get_pt st e) as [q|] eqn:Eq; [|inversion Eb; subst; discriminate].
    set (vals := phys s q) in *. set (cs := clone_cells (pt_cells q)) in *.
    assert (Hvals : vals = phys st q).
    { unfold vals. apply phys_same. apply Hb. apply Hsid. reflexivity. }
    assert (Hgood : good_cells (length vals) cs).
    { unfold vals, cs, phys. rewrite map_length. apply clone_cells_good. }
    pose proof (mk_fresh_den s vals cs (pt_lay q) (pt_dflt q) (pt_dt q) Hgood) as Hfd.
    set (r := length (st_objs s)) in *.
    set (newp := mkpt (length (st_store s)) cs (pt_lay q) (pt_dflt q) (pt_dt q)).
    set (sf := mkst (st_store s ++ [place vals cs]) (st_objs s ++ [OPT newp])).
    change (fst (mk_fresh s vals cs (pt_lay q) (pt_dflt q) (pt_dt q))) with sf in Hfd.
    set (s2 := set_obj sf c (OMT (dc ++ [(k, r)]))).
    assert (Es1 : s1 = s2 /\ o1 = ONone) by (unfold clone_pt in Eb; inversion Eb; split; reflexivity).
    destruct Es1 as [-> ->]. clear Eb.
    assert (Hrc : r <> c) by (unfold r; lia).
    assert (Hobj2 : forall r', r' <> c -> get_obj s2 r' = get_obj sf r') by (intros r' Hne; unfold s2; apply get_obj_set_neq; congruence).
    assert (Hsfold : forall r', r' < r -> get_obj sf r' = get_obj s r') by (intros r' Hlt; unfold get_obj, sf; cbn; apply nth_error_app1; exact Hlt).
    assert (Hsfnew : get_obj sf r = Some (OPT newp)) by (unfold get_obj, sf, r; cbn; rewrite nth_error_app2, Nat.sub_diag by lia; reflexivity).
    assert (Hst2 : st_store s2 = st_store s ++ [place vals cs]) by reflexivity.
    assert (Hlen2 : length (st_objs s2) = S r) by (unfold s2, sf, r; cbn; rewrite set_nth_length, app_length; cbn; lia).
    assert (Hold : forall r', r' < r -> r' <> c -> get_obj s2 r' = get_obj s r') by (intros r' Hlt Hne; rewrite Hobj2 by exact Hne; apply Hsfold; exact Hlt).
    assert (Hdr_old : forall e' p', e' < r -> e' <> c -> get_pt s e' = Some p' ->
                                    pt_sid p' < length (st_store s) -> den_ref s2 e' = den_ref s e').
    { intros e' p' Hlt Hne Hp' Hs'. unfold den_ref, get_pt. rewrite (Hold e' Hlt Hne).
      unfold get_pt in Hp'. destruct (get_obj s e') as [[p0|d0]|]; inversion Hp'; subst. cbn. f_equal.
      unfold den_pt. rewrite (phys_same s s2 p'); [reflexivity|].
      rewrite Hst2. apply nth_error_app1. exact Hs'. }
    assert (Hdr_new : den_ref s2 r = den_ref st e).
    { transitivity (den_ref sf r).
      - unfold den_ref, get_pt. rewrite (Hobj2 r Hrc), Hsfnew. reflexivity.
      - rewrite (den_DVpt_ref _ _ _ Hfd). unfold den_ref. rewrite Eq. cbn. unfold den_pt. rewrite Hvals. reflexivity. }
    eapply (IH s2 (done ++ [(k, e)])); [rewrite <- app_assoc; exact Hdx | | exact Hl].
    split; [|split; [|split; [|split]]].
    + intros r' Hr'. rewrite Hold by (unfold r; lia). apply Ha. exact Hr'.
    + intros sid Hs'. rewrite Hst2, nth_error_app1 by lia. apply Hb. exact Hs'.
    + lia.
    + rewrite Hst2, app_length. lia.
    + exists (dc ++ [(k, r)]). split; [|split; [|split]].
      * unfold get_mt, s2. rewrite get_obj_set_eq; [reflexivity|]. unfold sf. cbn. rewrite app_length. lia.
      * rewrite !map_app, Hk. reflexivity.
      * rewrite !map_app. cbn [map snd]. rewrite Hdr_new. f_equal. rewrite <- Hden.
        apply map_ext_in. intros [k' e'] Hin'. cbn.
        rewrite Forall_forall in Hall. destruct (Hall (k', e') Hin') as [H1 [H2 H3]]. cbn in H1, H2, H3.
        destruct (get_pt s e') as [p'|] eqn:Ep'.
        -- apply (Hdr_old e' p'); [exact H2 | lia | exact Ep' | apply H3; reflexivity].
        -- unfold den_ref, get_pt. rewrite (Hold e' H2 ltac:(lia)). unfold get_pt in Ep'.
           destruct (get_obj s e') as [[p0|d0]|]; try discriminate; reflexivity.
      * apply Forall_app. split.
        -- rewrite Forall_forall in *. intros [k' e'] Hin'. destruct (Hall (k', e') Hin') as [H1 [H2 H3]]. cbn in *.
           split; [exact H1|]. split; [lia|]. intros p Hp. rewrite app_length. cbn.
           assert (get_pt s e' = Some p) by (unfold get_pt in *; rewrite (Hold e' H2 ltac:(lia)) in Hp; exact Hp).
           specialize (H3 p H). lia.
        -- constructor; [|constructor]. cbn [snd].
           split; [unfold r; lia|]. split; [rewrite Hlen2; lia|]. intros p Hp.
           unfold get_pt in Hp. rewrite (Hobj2 r Hrc), Hsfnew in Hp. inversion Hp. subst p.
           rewrite Hst2, app_length. cbn. lia.
Qed.

Theorem mclone_equal_sec st0 c0 :
  step st (OMClone x) = (st0, ORefs [c0]) -> den st0 c0 = den st x.
Proof.
  intros Hs. pose proof (mclone_ref _ _ _ _ Hs) as Hc0. fold c in Hc0. subst c0.
  cbn [step] in Hs. unfold mclone in Hs. rewrite Hx in Hs. unfold new_obj in Hs. fold c in Hs.
  set (st1 := mkst (st_store st) (st_objs st ++ [OMT []])) in *.
  destruct (mcopy st1 c x) as [s2 o2] eqn:Ec.
  assert (Ho2 : o2 = ONone /\ s2 = st0).
  { pose proof (mcopy_out _ _ _ _ _ Ec) as Hno. destruct o2; inversion Hs; try (destruct Hno); split; reflexivity. }
  destruct Ho2 as [-> ->].
  assert (Hgc : get_mt st1 c = Some []).
  { unfold get_mt, get_obj, st1, c. cbn. rewrite nth_error_app2, Nat.sub_diag by lia. reflexivity. }
  assert (Hgx : get_mt st1 x = Some dx).
  { unfold get_mt, get_obj, st1. cbn. rewrite nth_error_app1 by apply x_lt.
    pose proof Hx as Hx'. apply get_mt_obj in Hx'. unfold get_obj in Hx'. rewrite Hx'. reflexivity. }
  unfold mcopy in Ec. rewrite Hgc, Hgx in Ec. cbn [find] in Ec.
  assert (Hinv : cinv st1 []).
  { split; [|split; [|split; [|split]]].
    - intros r Hr. unfold get_obj, st1. cbn. apply nth_error_app1. exact Hr.
    - intros sid _. reflexivity.
    - unfold st1. cbn. rewrite app_length. cbn. fold c. lia.
    - unfold st1, ns. cbn. lia.
    - exists []. split; [exact Hgc|]. split; [reflexivity|]. split; [reflexivity|constructor]. }
  pose proof (clone_loop dx st1 [] st0 eq_refl Hinv Ec) as [Ha [Hb [Hc [Hd [dc [Hdc [Hk [Hden Hall]]]]]]]].
  unfold den. apply get_mt_obj in Hdc. rewrite Hdc.
  pose proof Hx as Hx'. apply get_mt_obj in Hx'. rewrite Hx'. f_equal.
  apply map_pair_eq; assumption.
Qed.
End Clone.

(** MultiTensor.clone denotes what its source denotes (distinct keys; the source's elements exist
    and their storages exist) *)
Theorem mclone_equal st x dx st0 c :
  get_mt st x = Some dx -> NoDup (map fst dx) ->
  closed (length (st_objs st)) (length (st_store st)) st x ->
  step st (OMClone x) = (st0, ORefs [c]) -> den st0 c = den st x.
Proof. intros H1 H2 H3 H4. eapply mclone_equal_sec; eauto. Qed.

Example mclone_equal_example :
  let st := run w_st [OMNew; OMSet 1 5 0; ONew w_nines (seq 0 6) (idlay 6) 0%Z; OMSet 1 2 2] in
  exists dx st0, get_mt st 1 = Some dx /\ NoDup (map fst dx) /\
                 closed (length (st_objs st)) (length (st_store st)) st 1 /\
                 step st (OMClone 1) = (st0, ORefs [3]) /\ length dx = 2.
Proof.
  cbv zeta. eexists. eexists. split; [vm_compute; reflexivity|]. split; [vm_compute; repeat constructor; cbn; intuition discriminate|].
  split; [|split; [vm_compute; reflexivity|reflexivity]].
  unfold closed.
  match goal with |- context [get_obj ?s 1] =>
    replace (get_obj s 1) with (Some (OMT [(5, 0); (2, 2)])) by (vm_compute; reflexivity) end.
  constructor; [|constructor; [|constructor]]; cbn [snd];
    (split; [vm_compute; lia|]; intros p Hp; vm_compute in Hp; inversion Hp; vm_compute; lia).
Qed.
