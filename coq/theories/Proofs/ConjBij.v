(** C17, derivations: [pair] and [unpair] are mutually inverse bijections between the
    derivation trees of the conjunction and the pairable pairs of derivation trees of the two
    grammars; they preserve well-formedness and depth.  Induction on trees: every depth.

    Derivation trees name rule *occurrences* (indices in [all_rules]), so the statement needs no
    "no rule listed twice" guard: a rule listed twice gives two occurrences, and the conjunction
    lists the corresponding conjoined rule twice (the multiplicity caveat of DESIGN, tier B). *)
From Coq Require Import List Arith Bool PeanoNat Lia Permutation Sorted.
Import ListNotations.
Require Import Fggs.Model.Conj Fggs.Proofs.ConjBase Fggs.Proofs.ConjNames Fggs.Proofs.ConjSort
               Fggs.Proofs.ConjRule Fggs.Proofs.ConjHrg.

(** * trees *)
Lemma dtree_ind' (P : dtree -> Prop) :
  (forall k cs, Forall P cs -> P (DNode k cs)) -> forall t, P t.
Proof.
  intros H. fix IH 1. intros [k cs]. apply H.
  induction cs as [|c cs IHcs]; constructor; [apply IH | exact IHcs].
Qed.

(** well-formed derivation tree rooted in nonterminal X *)
Inductive wf_dtree (h : hrg) : elabel -> dtree -> Prop :=
| wf_DNode : forall X k r cs,
    nth_error (all_rules h) k = Some r -> r_lhs r = X ->
    Forall2 (wf_dtree h) (map e_lab (nt_sorted r)) cs ->
    wf_dtree h X (DNode k cs).

Section Map2.
  Context {A B C : Type} (f : A -> B -> option C).
  Fixpoint omap2 (l1 : list A) (l2 : list B) : option (list C) :=
    match l1, l2 with
    | [], [] => Some []
    | a :: l1, b :: l2 =>
      match f a b, omap2 l1 l2 with
      | Some c, Some cs => Some (c :: cs)
      | _, _ => None
      end
    | _, _ => None
    end.
End Map2.
Section All2.
  Context {A B : Type} (f : A -> B -> bool).
  Fixpoint all2 (l1 : list A) (l2 : list B) : bool :=
    match l1, l2 with
    | [], [] => true
    | a :: l1, b :: l2 => f a b && all2 l1 l2
    | _, _ => false
    end.
End All2.

Lemma pair_tree_eq : forall prov i cs1 j cs2,
  pair_tree prov (DNode i cs1) (DNode j cs2) =
  match find_index (ij_eqb i j) prov with
  | None => None
  | Some k => match omap2 (pair_tree prov) cs1 cs2 with
              | Some cs => Some (DNode k cs)
              | None => None
              end
  end.
Proof. reflexivity. Qed.

Lemma unpair_tree_eq : forall prov k cs,
  unpair_tree prov (DNode k cs) =
  (DNode (fst (nth k prov (0, 0))) (map fst (map (unpair_tree prov) cs)),
   DNode (snd (nth k prov (0, 0))) (map snd (map (unpair_tree prov) cs))).
Proof. reflexivity. Qed.

Lemma pairable_b_eq : forall h1 h2 i cs1 j cs2,
  pairable_b h1 h2 (DNode i cs1) (DNode j cs2) =
  match nth_error (all_rules h1) i, nth_error (all_rules h2) j with
  | Some r1, Some r2 => conjoinable_model r1 r2 && all2 (pairable_b h1 h2) cs1 cs2
  | _, _ => false
  end.
Proof. reflexivity. Qed.

Lemma depth_eq : forall k cs, depth (DNode k cs) = S (fold_right Nat.max 0 (map depth cs)).
Proof. reflexivity. Qed.

(** * small facts *)
Lemma nth_error_map_some {A B} (f : A -> B) : forall l k y,
  nth_error (map f l) k = Some y -> exists x, nth_error l k = Some x /\ f x = y.
Proof.
  induction l as [|a l IH]; intros [|k] y H; simpl in *; try discriminate.
  - injection H as <-. eauto.
  - apply IH. exact H.
Qed.

Lemma nth_error_nth_default {A} : forall (l : list A) k x d, nth_error l k = Some x -> nth k l d = x.
Proof.
  induction l as [|a l IH]; intros [|k] x d H; simpl in *; try discriminate.
  - injection H as <-. reflexivity.
  - apply IH. exact H.
Qed.

Lemma find_index_some {A} (p : A -> bool) : forall l k,
  find_index p l = Some k -> exists x, nth_error l k = Some x /\ p x = true.
Proof.
  induction l as [|a l IH]; simpl; intros k H; [discriminate|].
  destruct (p a) eqn:E.
  - injection H as <-. exists a. auto.
  - destruct (find_index p l) as [k'|]; [|discriminate]. simpl in H. injection H as <-.
    destruct (IH k' eq_refl) as [x [H1 H2]]. exists x. auto.
Qed.

Lemma find_index_none {A} (p : A -> bool) : forall l,
  find_index p l = None -> forall x, In x l -> p x = false.
Proof.
  induction l as [|a l IH]; simpl; intros H x Hx; [contradiction|].
  destruct (p a) eqn:E; [discriminate|].
  destruct (find_index p l) as [k'|]; [discriminate|].
  destruct Hx as [<-|Hx]; [exact E | apply IH; auto].
Qed.

Lemma find_index_nodup {A} (p : A -> bool) : forall l k x,
  NoDup l -> nth_error l k = Some x -> (forall y, p y = true <-> y = x) -> find_index p l = Some k.
Proof.
  induction l as [|a l IH]; intros [|k] x N H P; simpl in *; try discriminate.
  - injection H as <-. rewrite (proj2 (P a) eq_refl). reflexivity.
  - inversion N as [|? ? N1 N2]; subst. destruct (p a) eqn:E.
    + apply P in E. subst a. exfalso. apply N1. eapply nth_error_In. exact H.
    + rewrite (IH k x N2 H P). reflexivity.
Qed.

Lemma ij_eqb_spec : forall i j y, ij_eqb i j y = true <-> y = (i, j).
Proof.
  intros i j [a b]. unfold ij_eqb. simpl. rewrite andb_true_iff, !Nat.eqb_eq. split.
  - intros [-> ->]. reflexivity.
  - intros E. injection E as -> ->. auto.
Qed.

Lemma omap2_length {A B C} (f : A -> B -> option C) : forall l1 l2 cs,
  omap2 f l1 l2 = Some cs -> length l1 = length cs /\ length l2 = length cs.
Proof.
  induction l1 as [|a l1 IH]; intros [|b l2] cs H; simpl in H; try discriminate.
  - injection H as <-. auto.
  - destruct (f a b); [|discriminate]. destruct (omap2 f l1 l2) as [cs'|] eqn:E; [|discriminate].
    injection H as <-. destruct (IH _ _ E). simpl. auto.
Qed.

Lemma map_fst_combine {A B} : forall (l1 : list A) (l2 : list B),
  length l1 = length l2 -> map fst (combine l1 l2) = l1 /\ map snd (combine l1 l2) = l2.
Proof.
  induction l1 as [|a l1 IH]; intros [|b l2] H; simpl in *; try discriminate; [auto|].
  injection H as H. destruct (IH l2 H) as [E1 E2]. rewrite E1, E2. auto.
Qed.

(** the labels of three aligned edge lists *)
Inductive zip3 {A B C} (P : A -> B -> C -> Prop) : list A -> list B -> list C -> Prop :=
| zip3_nil : zip3 P [] [] []
| zip3_cons : forall a b c la lb lc, P a b c -> zip3 P la lb lc -> zip3 P (a :: la) (b :: lb) (c :: lc).

Lemma labels_zip3 : forall m s1 s2 es,
  length s1 = length s2 ->
  Forall2 (nt_edge_rel m) (combine s1 s2) es ->
  zip3 (fun a b l => nt_get m (a, b) = Some l) (map e_lab s1) (map e_lab s2) (map e_lab es).
Proof.
  induction s1 as [|a s1 IH]; intros [|b s2] es L F; simpl in *; try discriminate.
  - inversion F; subst. constructor.
  - inversion F as [|p e ps es' Hp F']; subst. simpl. constructor.
    + destruct Hp as [Hp _]. exact Hp.
    + apply IH; [lia | exact F'].
Qed.

Lemma wf_hrg_rules : forall h r, wf_hrg_b h = true -> In r (all_rules h) ->
  wf_rule r /\ In (r_lhs r) (nonterminals h) /\
  forall e, In e (nt_edges (r_rhs r)) -> In (e_lab e) (nonterminals h).
Proof.
  intros h r W Hr. unfold wf_hrg_b in W. repeat rewrite andb_true_iff in W.
  destruct W as [_ W]. rewrite forallb_forall in W.
  unfold all_rules in Hr. apply in_concat in Hr. destruct Hr as [rs [Hrs Hr]].
  apply in_map_iff in Hrs. destruct Hrs as [kr [E Hkr]]. subst rs.
  specialize (W kr Hkr). apply andb_true_iff in W. destruct W as [_ W]. rewrite forallb_forall in W.
  specialize (W r Hr). repeat rewrite andb_true_iff in W. destruct W as [[_ Wr] WL].
  apply wf_rule_b_spec in Wr. unfold rule_labels_in in WL. repeat rewrite andb_true_iff in WL.
  destruct WL as [[L1 L2] _]. rewrite forallb_forall in L2.
  split; [exact Wr|]. split.
  - unfold nonterminals. apply filter_In. split; [apply mem_label_In; exact L1|].
    unfold is_nt. destruct Wr as [Wn _ _]. rewrite Wn. reflexivity.
  - intros e He. apply nt_edges_in in He. destruct He as [He Ht].
    unfold nonterminals. apply filter_In. split; [apply mem_label_In; apply L2; exact He|].
    unfold is_nt. rewrite Ht. reflexivity.
Qed.

Lemma fold_max_map_eq : forall (l1 l2 : list dtree),
  map depth l1 = map depth l2 ->
  fold_right Nat.max 0 (map depth l1) = fold_right Nat.max 0 (map depth l2).
Proof. intros l1 l2 H. rewrite H. reflexivity. Qed.

(** * the bijection, for a fixed successful run of [conjoin_hrgs] *)
Section Bijection.
  Variables (h1 h2 : hrg) (s : elabel) (st : hstate) (m : ntmap) (base : nat).
  Hypothesis W1 : wf_hrg_b h1 = true.
  Hypothesis W2 : wf_hrg_b h2 = true.
  Hypothesis HM : ntmap_spec h1 h2 m.
  Hypothesis ND : NoDup (map snd (tagged_rules st)).
  Hypothesis TS : forall r i j, In (r, (i, j)) (tagged_rules st) ->
       exists r1 r2, nth_error (all_rules h1) i = Some r1 /\ nth_error (all_rules h2) j = Some r2 /\
                     conjoinable_model r1 r2 = true /\ conjoin_rules_model base r1 r2 m = Ok r.
  Hypothesis TC : forall i j r1 r2,
       nth_error (all_rules h1) i = Some r1 -> nth_error (all_rules h2) j = Some r2 ->
       conjoinable_model r1 r2 = true -> exists r, In (r, (i, j)) (tagged_rules st).

  Local Notation g12 := (untag (s, st)).
  Local Notation prov := (prov_of (s, st)).

  Lemma m_values : nt_values m.
  Proof. intros k v G. destruct HM as [_ [V _]]. apply (V k v G). Qed.

  Lemma m_inj : forall k1 k2 v, nt_get m k1 = Some v -> nt_get m k2 = Some v -> k1 = k2.
  Proof. intros k1 k2 v G1 G2. destruct HM as [_ [_ I]]. apply (I k1 k2 v v G1 G2 eq_refl). Qed.

  Lemma g12_nth : forall k r, nth_error (all_rules g12) k = Some r ->
    exists i j, nth_error (tagged_rules st) k = Some (r, (i, j)) /\ nth_error prov k = Some (i, j).
  Proof.
    intros k r H. rewrite all_rules_untag in H. simpl in H.
    apply nth_error_map_some in H. destruct H as [[r' [i j]] [H E]]. simpl in E. subst r'.
    exists i, j. split; [exact H|]. rewrite prov_of_tagged. simpl.
    apply map_nth_error with (f := snd) in H. exact H.
  Qed.

  Lemma prov_nth : forall k i j, nth_error prov k = Some (i, j) ->
    exists r, nth_error (tagged_rules st) k = Some (r, (i, j)) /\ nth_error (all_rules g12) k = Some r.
  Proof.
    intros k i j H. rewrite prov_of_tagged in H. simpl in H.
    apply nth_error_map_some in H. destruct H as [[r t] [H E]]. simpl in E. subst t.
    exists r. split; [exact H|]. rewrite all_rules_untag. simpl.
    apply map_nth_error with (f := fst) in H. exact H.
  Qed.

  (** the rule of the conjunction made from occurrences i and j *)
  Lemma tagged_rule : forall r i j, In (r, (i, j)) (tagged_rules st) ->
    exists r1 r2, nth_error (all_rules h1) i = Some r1 /\ nth_error (all_rules h2) j = Some r2 /\
      conjoinable_model r1 r2 = true /\
      nt_get m (r_lhs r1, r_lhs r2) = Some (r_lhs r) /\
      zip3 (fun a b l => nt_get m (a, b) = Some l)
           (map e_lab (nt_sorted r1)) (map e_lab (nt_sorted r2)) (map e_lab (nt_sorted r)).
  Proof.
    intros r i j Hin. destruct (TS r i j Hin) as [r1 [r2 [H1 [H2 [C HR]]]]].
    exists r1, r2. split; [exact H1|]. split; [exact H2|]. split; [exact C|].
    destruct (wf_hrg_rules h1 r1 W1 (nth_error_In _ _ H1)) as [Wr1 _].
    destruct (wf_hrg_rules h2 r2 W2 (nth_error_In _ _ H2)) as [Wr2 _].
    destruct (conj_nt_sorted _ _ _ _ _ Wr1 Wr2 C m_values HR) as [F GL].
    split; [exact GL|]. apply labels_zip3; [|exact F].
    apply conjoinable_nt_length; assumption.
  Qed.

  (** ** unpair, then pair *)
  Definition unpair_ok (c : dtree) : Prop :=
    forall X Y X12, nt_get m (X, Y) = Some X12 -> wf_dtree g12 X12 c ->
      wf_dtree h1 X (fst (unpair_tree prov c)) /\ wf_dtree h2 Y (snd (unpair_tree prov c)) /\
      pairable_b h1 h2 (fst (unpair_tree prov c)) (snd (unpair_tree prov c)) = true /\
      pair_tree prov (fst (unpair_tree prov c)) (snd (unpair_tree prov c)) = Some c /\
      depth (fst (unpair_tree prov c)) = depth c /\ depth (snd (unpair_tree prov c)) = depth c.

  Lemma unpair_children : forall L1 L2 L cs,
    zip3 (fun a b l => nt_get m (a, b) = Some l) L1 L2 L ->
    Forall2 (wf_dtree g12) L cs -> Forall unpair_ok cs ->
    Forall2 (wf_dtree h1) L1 (map fst (map (unpair_tree prov) cs)) /\
    Forall2 (wf_dtree h2) L2 (map snd (map (unpair_tree prov) cs)) /\
    all2 (pairable_b h1 h2) (map fst (map (unpair_tree prov) cs)) (map snd (map (unpair_tree prov) cs)) = true /\
    omap2 (pair_tree prov) (map fst (map (unpair_tree prov) cs)) (map snd (map (unpair_tree prov) cs)) = Some cs /\
    map depth (map fst (map (unpair_tree prov) cs)) = map depth cs /\
    map depth (map snd (map (unpair_tree prov) cs)) = map depth cs.
  Proof.
    intros L1 L2 L cs Z. revert cs. induction Z as [|a b l la lb lc Q Z IH]; intros cs F U.
    - inversion F; subst. simpl. repeat split; constructor.
    - inversion F as [|? c ? cs' Hc F']; subst. inversion U as [|? ? Uc U']; subst.
      destruct (IH cs' F' U') as [I1 [I2 [I3 [I4 [I5 I6]]]]].
      destruct (Uc a b l Q Hc) as [C1 [C2 [C3 [C4 [C5 C6]]]]]. simpl.
      split; [constructor; assumption|]. split; [constructor; assumption|].
      split; [rewrite C3, I3; reflexivity|]. split; [rewrite C4, I4; reflexivity|].
      split; [rewrite C5, I5; reflexivity | rewrite C6, I6; reflexivity].
  Qed.

  Theorem unpair_then_pair : forall t, unpair_ok t.
  Proof.
    apply dtree_ind'. intros k cs IHcs X Y X12 G Wt.
    inversion Wt as [? ? r ? Hk HX Fc]; subst.
    destruct (g12_nth k r Hk) as [i [j [HT HP]]].
    destruct (tagged_rule r i j (nth_error_In _ _ HT)) as [r1 [r2 [H1 [H2 [C [GL Z]]]]]].
    assert (E : (r_lhs r1, r_lhs r2) = (X, Y)) by (apply (m_inj _ _ _ GL G)).
    injection E as E1 E2.
    destruct (unpair_children _ _ _ cs Z Fc IHcs) as [I1 [I2 [I3 [I4 [I5 I6]]]]].
    rewrite unpair_tree_eq. rewrite (nth_error_nth_default _ _ _ (0, 0) HP). cbn [fst snd].
    split; [econstructor; eauto|]. split; [econstructor; eauto|].
    split; [rewrite pairable_b_eq, H1, H2, C, I3; reflexivity|].
    split.
    - rewrite pair_tree_eq.
      rewrite (find_index_nodup (ij_eqb i j) prov k (i, j)); [rewrite I4; reflexivity | | exact HP | apply ij_eqb_spec].
      rewrite prov_of_tagged. exact ND.
    - rewrite !depth_eq, I5, I6. auto.
  Qed.

  (** ** pair, then unpair *)
  Definition pair_ok (c1 : dtree) : Prop :=
    forall c2 X Y X12 c, wf_dtree h1 X c1 -> wf_dtree h2 Y c2 -> nt_get m (X, Y) = Some X12 ->
      pair_tree prov c1 c2 = Some c ->
      wf_dtree g12 X12 c /\ unpair_tree prov c = (c1, c2).

  Lemma pair_children : forall L1 L2 L cs1 cs2 cs,
    zip3 (fun a b l => nt_get m (a, b) = Some l) L1 L2 L ->
    Forall2 (wf_dtree h1) L1 cs1 -> Forall2 (wf_dtree h2) L2 cs2 ->
    omap2 (pair_tree prov) cs1 cs2 = Some cs -> Forall pair_ok cs1 ->
    Forall2 (wf_dtree g12) L cs /\
    map fst (map (unpair_tree prov) cs) = cs1 /\ map snd (map (unpair_tree prov) cs) = cs2.
  Proof.
    intros L1 L2 L cs1 cs2 cs Z. revert cs1 cs2 cs.
    induction Z as [|a b l la lb lc Q Z IH]; intros cs1 cs2 cs F1 F2 O U.
    - inversion F1; subst. inversion F2; subst. simpl in O. injection O as <-. simpl.
      split; [constructor | auto].
    - inversion F1 as [|? c1 ? cs1' Hc1 F1']; subst. inversion F2 as [|? c2 ? cs2' Hc2 F2']; subst.
      inversion U as [|? ? Uc U']; subst. simpl in O.
      destruct (pair_tree prov c1 c2) as [c|] eqn:Pc; [|discriminate].
      destruct (omap2 (pair_tree prov) cs1' cs2') as [cs'|] eqn:O'; [|discriminate].
      injection O as <-.
      destruct (Uc c2 a b l c Hc1 Hc2 Q Pc) as [Wc Ec].
      destruct (IH _ _ _ F1' F2' O' U') as [I1 [I2 I3]]. simpl. rewrite Ec, I2, I3. simpl.
      split; [constructor; assumption | auto].
  Qed.

  Theorem pair_then_unpair : forall t1, pair_ok t1.
  Proof.
    apply dtree_ind'. intros i cs1 IHcs [j cs2] X Y X12 c Wt1 Wt2 G P.
    rewrite pair_tree_eq in P.
    destruct (find_index (ij_eqb i j) prov) as [k|] eqn:FI; [|discriminate].
    destruct (omap2 (pair_tree prov) cs1 cs2) as [cs|] eqn:O; [|discriminate]. injection P as <-.
    apply find_index_some in FI. destruct FI as [[i' j'] [HP E]]. apply ij_eqb_spec in E.
    injection E as -> ->.
    destruct (prov_nth k i j HP) as [r [HT Hk]].
    destruct (tagged_rule r i j (nth_error_In _ _ HT)) as [r1 [r2 [H1 [H2 [C [GL Z]]]]]].
    inversion Wt1 as [? ? r1' ? H1' HX F1]; subst. inversion Wt2 as [? ? r2' ? H2' HY F2]; subst.
    rewrite H1 in H1'. injection H1' as <-. rewrite H2 in H2'. injection H2' as <-.
    destruct (pair_children _ _ _ _ _ _ Z F1 F2 O IHcs) as [I1 [I2 I3]].
    split.
    - econstructor; [exact Hk | | exact I1]. rewrite G in GL. injection GL as <-. reflexivity.
    - rewrite unpair_tree_eq, (nth_error_nth_default _ _ _ (0, 0) HP), I2, I3. reflexivity.
  Qed.

  (** ** [pair] is defined exactly on the pairable pairs *)
  Lemma pair_defined_iff : forall t1 t2,
    pair_tree prov t1 t2 <> None <-> pairable_b h1 h2 t1 t2 = true.
  Proof.
    apply (dtree_ind' (fun t1 => forall t2, pair_tree prov t1 t2 <> None <-> pairable_b h1 h2 t1 t2 = true)).
    intros i cs1 IHcs [j cs2]. rewrite pair_tree_eq, pairable_b_eq.
    assert (CH : omap2 (pair_tree prov) cs1 cs2 <> None <-> all2 (pairable_b h1 h2) cs1 cs2 = true).
    { clear - IHcs. revert cs2. induction cs1 as [|c1 cs1 IH]; intros [|c2 cs2]; simpl;
        try (split; [intros H; exfalso; apply H; reflexivity | discriminate]);
        try (split; [reflexivity | discriminate]).
      inversion IHcs as [|? ? Hc Hcs]; subst. specialize (IH Hcs cs2). specialize (Hc c2).
      rewrite andb_true_iff, <- Hc, <- IH.
      destruct (pair_tree prov c1 c2); destruct (omap2 (pair_tree prov) cs1 cs2); split;
        try (intros [A B]); try intros A; try discriminate; try congruence;
        try (split; discriminate); try (exfalso; apply A; reflexivity); try (exfalso; apply B; reflexivity). }
    split.
    - intros H. destruct (find_index (ij_eqb i j) prov) as [k|] eqn:FI; [|congruence].
      apply find_index_some in FI. destruct FI as [[i' j'] [HP E]]. apply ij_eqb_spec in E.
      injection E as -> ->.
      destruct (prov_nth k i j HP) as [r [HT _]].
      destruct (TS r i j (nth_error_In _ _ HT)) as [r1 [r2 [H1 [H2 [C _]]]]].
      rewrite H1, H2, C. simpl. apply CH. destruct (omap2 (pair_tree prov) cs1 cs2); congruence.
    - intros H. destruct (nth_error (all_rules h1) i) as [r1|] eqn:H1; [|discriminate].
      destruct (nth_error (all_rules h2) j) as [r2|] eqn:H2; [|discriminate].
      apply andb_true_iff in H. destruct H as [C A]. apply CH in A.
      destruct (TC i j r1 r2 H1 H2 C) as [r Hin].
      destruct (find_index (ij_eqb i j) prov) as [k|] eqn:FI.
      + destruct (omap2 (pair_tree prov) cs1 cs2); congruence.
      + exfalso. assert (X : In (i, j) prov).
        { rewrite prov_of_tagged. simpl. apply in_map_iff. exists (r, (i, j)). auto. }
        pose proof (find_index_none _ _ FI _ X) as Y.
        rewrite (proj2 (ij_eqb_spec i j (i, j)) eq_refl) in Y. discriminate.
  Qed.
End Bijection.

(** * C17_bijection *)
Theorem conj_bijection : forall h1 h2 g12,
  wf_hrg_b h1 = true -> wf_hrg_b h2 = true ->
  conjoin_hrgs_model h1 h2 = Ok g12 ->
  let prov := conj_prov h1 h2 in
  (* unpair maps derivations of the conjunction to pairable pairs of derivations, and pair undoes it *)
  (forall t, wf_dtree g12 (h_start g12) t ->
     wf_dtree h1 (h_start h1) (fst (unpair_tree prov t)) /\
     wf_dtree h2 (h_start h2) (snd (unpair_tree prov t)) /\
     pairable_b h1 h2 (fst (unpair_tree prov t)) (snd (unpair_tree prov t)) = true /\
     pair_tree prov (fst (unpair_tree prov t)) (snd (unpair_tree prov t)) = Some t /\
     depth (fst (unpair_tree prov t)) = depth t /\ depth (snd (unpair_tree prov t)) = depth t) /\
  (* pair maps pairable pairs of derivations to derivations of the conjunction, and unpair undoes it *)
  (forall t1 t2, wf_dtree h1 (h_start h1) t1 -> wf_dtree h2 (h_start h2) t2 ->
     pairable_b h1 h2 t1 t2 = true ->
     exists t, pair_tree prov t1 t2 = Some t /\ wf_dtree g12 (h_start g12) t /\
               unpair_tree prov t = (t1, t2)) /\
  (* pair is defined exactly when the shapes agree and the rules are conjoinable at every position *)
  (forall t1 t2, pair_tree prov t1 t2 <> None <-> pairable_b h1 h2 t1 t2 = true).
Proof.
  intros h1 h2 g12 W1 W2 H prov. unfold conjoin_hrgs_model in H. apply bind_ok in H.
  destruct H as [[s st] [HC E]]. injection E as <-.
  assert (EP : prov = prov_of (s, st)) by (unfold prov, conj_prov; rewrite HC; reflexivity).
  rewrite EP. clear EP prov.
  destruct (conj_hrg_facts _ _ _ _ HC) as [m [HM [HS [ND [TS TC]]]]].
  pose proof (nonterminal_pairs_spec _ _ _ HM) as SP.
  split; [|split].
  - intros t Wt.
    apply (unpair_then_pair h1 h2 s st m (id_bound h1 h2) W1 W2 SP ND TS t (h_start h1) (h_start h2) s HS Wt).
  - intros t1 t2 Wt1 Wt2 PB.
    destruct (pair_tree (prov_of (s, st)) t1 t2) as [t|] eqn:P.
    + exists t. split; [reflexivity|].
      apply (pair_then_unpair h1 h2 s st m (id_bound h1 h2) W1 W2 SP TS t1 t2 (h_start h1) (h_start h2) s t Wt1 Wt2 HS P).
    + exfalso. apply (proj2 (pair_defined_iff h1 h2 s st m (id_bound h1 h2) TS TC t1 t2) PB). exact P.
  - apply (pair_defined_iff h1 h2 s st m (id_bound h1 h2) TS TC).
Qed.

(** the default of [nth] in [unpair_tree] is never reached on a well-formed derivation *)
Lemma unpair_index_in_range : forall h1 h2 g12 X k cs,
  conjoin_hrgs_model h1 h2 = Ok g12 -> wf_dtree g12 X (DNode k cs) ->
  k < length (conj_prov h1 h2).
Proof.
  intros h1 h2 g12 X k cs H W. unfold conjoin_hrgs_model in H. apply bind_ok in H.
  destruct H as [x [HC E]]. injection E as <-. unfold conj_prov. rewrite HC.
  inversion W as [? ? r ? Hk _ _]; subst. rewrite all_rules_untag in Hk.
  assert (N : nth_error (map fst (tagged_rules (snd x))) k <> None) by congruence.
  apply nth_error_Some in N. rewrite map_length in N.
  rewrite prov_of_tagged, map_length. exact N.
Qed.
