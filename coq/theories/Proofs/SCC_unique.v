(** C19 — the specification [spec] determines the components: two decompositions of the same
    graph that both satisfy it have the same components as sets of vertices.  Hence the oracle
    [scc_ok] accepts only lists whose components are those of Tarjan's output (the ORDER of the
    components is constrained by the last clause of [spec] only, as the property states). *)
From Coq Require Import List Arith Bool PeanoNat Lia Permutation.
Import ListNotations.
Require Import Fggs.Model.SCC Fggs.Proofs.SCC_checker Fggs.Proofs.SCC_tarjan.

Lemma comp_unique (cs : list (list nat)) c c' u :
  NoDup (concat cs) -> In c cs -> In c' cs -> In u c -> In u c' -> c = c'.
Proof.
  intros Hnd Hc Hc' Hu Hu'.
  destruct (two_positions cs c c' Hc Hc') as [E|[[l1 [l2 [E Hi]]]|[l1 [l2 [E Hi]]]]].
  - exact E.
  - exfalso. subst cs. destruct (concat_split_disjoint l1 c l2 Hnd) as [_ [H _]].
    apply (H u Hu). apply (in_concat_intro l2 c' u Hi Hu').
  - exfalso. subst cs. destruct (concat_split_disjoint l1 c' l2 Hnd) as [_ [H _]].
    apply (H u Hu'). apply (in_concat_intro l2 c u Hi Hu).
Qed.

Lemma spec_in_verts g cs c x : spec g cs -> In c cs -> In x c -> In x (verts g).
Proof.
  intros [_ [Hp _]] Hc Hx. apply (Permutation_in x Hp). apply (in_concat_intro cs c x Hc Hx).
Qed.

Lemma spec_has_comp g cs x : spec g cs -> In x (verts g) -> exists c, In c cs /\ In x c.
Proof.
  intros [_ [Hp _]] Hx. apply Permutation_sym in Hp.
  pose proof (Permutation_in x Hp Hx) as Hin. apply in_concat in Hin.
  destruct Hin as [c [Hc Hxc]]. exists c. split; assumption.
Qed.

Theorem spec_unique g cs1 cs2 :
  spec g cs1 -> spec g cs2 ->
  forall c1, In c1 cs1 -> exists c2, In c2 cs2 /\ forall v, In v c1 <-> In v c2.
Proof.
  intros S1 S2 c1 Hc1.
  pose proof S1 as [Hnd1 [_ [Hne1 [Hsame1 _]]]].
  pose proof S2 as [Hnd2 [_ [_ [Hsame2 _]]]].
  destruct c1 as [|u rest] eqn:Ec1; [exfalso; apply (Hne1 [] Hc1); reflexivity|].
  rewrite <- Ec1 in *. assert (Hu : In u c1) by (rewrite Ec1; left; reflexivity).
  pose proof (spec_in_verts g cs1 c1 u S1 Hc1 Hu) as Huv.
  destruct (spec_has_comp g cs2 u S2 Huv) as [c2 [Hc2 Hu2]].
  exists c2. split; [exact Hc2|]. intro v. split.
  - intro Hv. pose proof (spec_in_verts g cs1 c1 v S1 Hc1 Hv) as Hvv.
    assert (Hmr : path g u v /\ path g v u).
    { apply (Hsame1 u v Huv Hvv). exists c1. repeat split; assumption. }
    apply (Hsame2 u v Huv Hvv) in Hmr. destruct Hmr as [c' [Hc' [Hu' Hv']]].
    rewrite (comp_unique cs2 c2 c' u Hnd2 Hc2 Hc' Hu2 Hu'). exact Hv'.
  - intro Hv. pose proof (spec_in_verts g cs2 c2 v S2 Hc2 Hv) as Hvv.
    assert (Hmr : path g u v /\ path g v u).
    { apply (Hsame2 u v Huv Hvv). exists c2. repeat split; assumption. }
    apply (Hsame1 u v Huv Hvv) in Hmr. destruct Hmr as [c' [Hc' [Hu' Hv']]].
    rewrite (comp_unique cs1 c1 c' u Hnd1 Hc1 Hc' Hu Hu'). exact Hv'.
Qed.

(** Every list the oracle accepts has exactly the components of Tarjan's output, as sets. *)
Theorem scc_ok_components_are_tarjan g cs' :
  closed g = true -> scc_ok g cs' = true ->
  exists cs, scc g = Some cs /\
    (forall c, In c cs -> exists c', In c' cs' /\ forall v, In v c <-> In v c') /\
    (forall c', In c' cs' -> exists c, In c cs /\ forall v, In v c' <-> In v c).
Proof.
  intros Hcl Hok. destruct (tarjan_correct g Hcl) as [cs [Hs Hok0]].
  exists cs. split; [exact Hs|].
  apply (scc_ok_spec g cs Hcl) in Hok0. apply (scc_ok_spec g cs' Hcl) in Hok.
  split; [exact (spec_unique g cs cs' Hok0 Hok) | exact (spec_unique g cs' cs Hok Hok0)].
Qed.

(** Non-vacuity: a 3-vertex graph with one 2-cycle; both orders of listing the cycle are accepted. *)
Example scc_ok_components_example :
  let g := [(0, [1]); (1, [0; 2]); (2, [])] in
  closed g = true /\ scc_ok g [[2]; [1; 0]] = true /\ scc_ok g [[2]; [0; 1]] = true
  /\ scc_ok g [[0; 1]; [2]] = false.
Proof. vm_compute. repeat split. Qed.

(** * The order clause lifted from edges to paths: everything a vertex depends on, transitively,
    lies in its own component or in an EARLIER one. *)
Theorem spec_deps_before g cs l1 c l2 u v :
  closed g = true -> spec g cs -> cs = l1 ++ c :: l2 -> In u c -> path g u v ->
  In v c \/ In v (concat l1).
Proof.
  intros Hcl S E Hu Hp. pose proof S as [_ [Hperm [_ [_ Hord]]]].
  assert (Hclosed : forall x w, (In x c \/ In x (concat l1)) -> In w (succs g x) ->
                                (In w c \/ In w (concat l1))).
  { intros x w Hx Hw.
    assert (Hnl : ~ In w (concat l2)).
    { intro Hin. apply in_concat in Hin. destruct Hin as [d [Hd Hwd]].
      destruct Hx as [Hx|Hx].
      - exact (Hord l1 c l2 d x w E Hd Hx Hwd Hw).
      - apply in_concat in Hx. destruct Hx as [cx [Hcx Hxcx]].
        apply in_split in Hcx. destruct Hcx as [a [b Eab]].
        apply (Hord a cx (b ++ c :: l2) d x w).
        + rewrite E, Eab, <- app_assoc. reflexivity.
        + apply in_or_app. right. right. exact Hd.
        + exact Hxcx.
        + exact Hwd.
        + exact Hw. }
    assert (Hwv : In w (verts g)) by exact (closed_succs g Hcl x w Hw).
    apply Permutation_sym in Hperm. pose proof (Permutation_in w Hperm Hwv) as Hin.
    rewrite E, concat_app in Hin. cbn [concat] in Hin.
    apply in_app_or in Hin. destruct Hin as [Hin|Hin]; [right; exact Hin|].
    apply in_app_or in Hin. destruct Hin as [Hin|Hin]; [left; exact Hin | contradiction]. }
  exact (path_closed_set g (fun x => In x c \/ In x (concat l1)) Hclosed u v Hp (or_introl Hu)).
Qed.

(** Tarjan as coded: every vertex reachable from a vertex of a component lies in that component
    or in an earlier one of the output. *)
Theorem tarjan_deps_before g :
  closed g = true ->
  exists cs, scc g = Some cs /\
    forall l1 c l2 u v, cs = l1 ++ c :: l2 -> In u c -> path g u v -> In v c \/ In v (concat l1).
Proof.
  intros Hcl. destruct (tarjan_correct g Hcl) as [cs [Hs Hok]]. exists cs. split; [exact Hs|].
  apply (scc_ok_spec g cs Hcl) in Hok. intros l1 c l2 u v E Hu Hp.
  exact (spec_deps_before g cs l1 c l2 u v Hcl Hok E Hu Hp).
Qed.

(** The same for one observed call of sum_products (verdict 0 of [sp_order_check]): everything a
    nonterminal depends on TRANSITIVELY (a path in the nonterminal graph of the grammar as it is at
    the time of the call) was handed to the per-component solver in the same or an earlier block. *)
Require Import Fggs.Model.SCCOrder.
Theorem sp_order_check_transitive nts rules blocks keys :
  sp_order_check (nts, rules, blocks, keys) = 0 ->
  forall l1 c l2 x y, blocks = l1 ++ c :: l2 -> In x c -> path (ntgraph nts rules) x y ->
    In y c \/ In y (concat l1).
Proof.
  unfold sp_order_check.
  destruct (closed (ntgraph nts rules)) eqn:Hc; cbn [negb]; [|discriminate].
  destruct (forallb (mem keys) nts) eqn:Hk; cbn [negb]; [|discriminate].
  destruct (scc_ok (ntgraph nts rules) blocks) eqn:Hok; cbn [negb]; [|discriminate].
  intros _ l1 c l2 x y E Hx Hp.
  apply (scc_ok_spec (ntgraph nts rules) blocks Hc) in Hok.
  exact (spec_deps_before (ntgraph nts rules) blocks l1 c l2 x y Hc Hok E Hx Hp).
Qed.
