(** C16 -- [==] (Graph.__eq__, HRGRule.__eq__, HRG.__eq__) is an equivalence relation on the
    modelled objects and separates objects that differ in nodes, edges, external nodes, rules
    or start symbol. *)
From Coq Require Import List Arith Bool Lia.
Import ListNotations.
Require Import Fggs.Model.GraphAPI Fggs.Proofs.GraphAPI_assoc Fggs.Proofs.GraphAPI_wf.

(** * dict equality *)
Section DictEq.
  Context {K V : Type} (Keq : forall a b : K, {a = b} + {a <> b}) (veq : V -> V -> bool).
  Notation aget := (aget Keq).

  (** every binding of [m1] is matched in [m2] *)
  Definition dict_sub (m1 m2 : list (K * V)) : Prop :=
    forall k v, aget m1 k = Some v -> exists v', aget m2 k = Some v' /\ veq v v' = true.

  Lemma in_keys_aget : forall (m : list (K * V)) k, In k (map fst m) -> exists v, aget m k = Some v.
  Proof.
    intros m k H. destruct (aget m k) eqn:E; [eauto|]. apply aget_None in E. tauto.
  Qed.

  Lemma dict_eqb_spec : forall m1 m2, NoDup (map fst m1) ->
      (dict_eqb Keq veq m1 m2 = true <-> length m1 = length m2 /\ dict_sub m1 m2).
  Proof.
    intros m1 m2 ND. unfold dict_eqb. rewrite andb_true_iff, Nat.eqb_eq, forallb_forall. split.
    - intros [L F]. split; [assumption|]. intros k v H. apply aget_In in H. specialize (F _ H). cbn in F.
      destruct (aget m2 k) as [v'|]; [eauto | discriminate].
    - intros [L S]. split; [assumption|]. intros [k v] H. cbn.
      apply (In_aget Keq _ _ _ ND) in H. destruct (S _ _ H) as [v' [E1 E2]]. rewrite E1. assumption.
  Qed.

  Lemma dict_sub_keys : forall m1 m2, dict_sub m1 m2 -> incl (map fst m1) (map fst m2).
  Proof.
    intros m1 m2 S k H. destruct (in_keys_aget _ _ H) as [v E]. destruct (S _ _ E) as [v' [E' _]].
    apply aget_In in E'. change k with (fst (k, v')). apply in_map. assumption.
  Qed.

  Lemma dict_eqb_refl : forall m, NoDup (map fst m) -> (forall k v, In (k, v) m -> veq v v = true) ->
      dict_eqb Keq veq m m = true.
  Proof.
    intros m ND R. apply dict_eqb_spec; [assumption|]. split; [reflexivity|].
    intros k v H. exists v. split; [assumption|]. eapply R. eapply aget_In; eauto.
  Qed.

  Lemma dict_eqb_sym : forall m1 m2, NoDup (map fst m1) -> NoDup (map fst m2) ->
      (forall a b, veq a b = true -> veq b a = true) ->
      dict_eqb Keq veq m1 m2 = true -> dict_eqb Keq veq m2 m1 = true.
  Proof.
    intros m1 m2 N1 N2 SY H. apply dict_eqb_spec in H; [|assumption]. destruct H as [L S].
    apply dict_eqb_spec; [assumption|]. split; [congruence|].
    intros k v' H.
    assert (IN : In k (map fst m1)).
    { assert (INC : incl (map fst m2) (map fst m1)).
      { apply NoDup_length_incl; [assumption | rewrite !map_length; lia | apply dict_sub_keys; assumption]. }
      apply INC. apply aget_In in H. change k with (fst (k, v')). apply in_map. assumption. }
    destruct (in_keys_aget _ _ IN) as [v E]. destruct (S _ _ E) as [v'' [E1 E2]].
    exists v. split; [assumption|]. apply SY. congruence.
  Qed.

  Lemma dict_eqb_trans : forall m1 m2 m3, NoDup (map fst m1) -> NoDup (map fst m2) ->
      (forall a b c, veq a b = true -> veq b c = true -> veq a c = true) ->
      dict_eqb Keq veq m1 m2 = true -> dict_eqb Keq veq m2 m3 = true -> dict_eqb Keq veq m1 m3 = true.
  Proof.
    intros m1 m2 m3 N1 N2 TR H1 H2.
    apply dict_eqb_spec in H1; [|assumption]. apply dict_eqb_spec in H2; [|assumption].
    destruct H1 as [L1 S1], H2 as [L2 S2]. apply dict_eqb_spec; [assumption|]. split; [congruence|].
    intros k v H. destruct (S1 _ _ H) as [v' [E1 E2]]. destruct (S2 _ _ E1) as [v'' [E3 E4]].
    exists v''. split; [assumption | eapply TR; eauto].
  Qed.

  (** with Leibniz equality on the values, dict equality is extensional equality *)
  Lemma dict_eqb_ext : forall m1 m2, NoDup (map fst m1) -> NoDup (map fst m2) ->
      (forall a b, veq a b = true <-> a = b) ->
      (dict_eqb Keq veq m1 m2 = true <-> forall k, aget m1 k = aget m2 k).
  Proof.
    intros m1 m2 N1 N2 LE. split.
    - intros H k. pose proof (dict_eqb_sym _ _ N1 N2 (fun a b X => proj2 (LE b a) (eq_sym (proj1 (LE a b) X))) H) as H'.
      apply dict_eqb_spec in H; [|assumption]. apply dict_eqb_spec in H'; [|assumption].
      destruct H as [_ S], H' as [_ S'].
      destruct (aget m1 k) as [v|] eqn:E1.
      + destruct (S _ _ E1) as [v' [E2 E3]]. apply LE in E3. congruence.
      + destruct (aget m2 k) as [v'|] eqn:E2; [|reflexivity].
        destruct (S' _ _ E2) as [v [E3 _]]. congruence.
    - intros H. apply dict_eqb_spec; [assumption|].
      assert (I12 : incl (map fst m1) (map fst m2)).
      { intros k Hk. destruct (in_keys_aget _ _ Hk) as [v E]. rewrite H in E. apply aget_In in E.
        change k with (fst (k, v)). apply in_map. assumption. }
      assert (I21 : incl (map fst m2) (map fst m1)).
      { intros k Hk. destruct (in_keys_aget _ _ Hk) as [v E]. rewrite <- H in E. apply aget_In in E.
        change k with (fst (k, v)). apply in_map. assumption. }
      split.
      + pose proof (NoDup_incl_length N1 I12). pose proof (NoDup_incl_length N2 I21). rewrite !map_length in *. lia.
      + intros k v E. exists v. split; [rewrite <- H; assumption | apply LE; reflexivity].
  Qed.
End DictEq.

(** * graphs *)
Lemma node_eqb_eq : forall a b, node_eqb a b = true <-> a = b.
Proof. intros. unfold node_eqb. destruct (node_eq_dec a b); split; intros; congruence. Qed.
Lemma edge_eqb_eq : forall a b, edge_eqb a b = true <-> a = b.
Proof. intros. unfold edge_eqb. destruct (edge_eq_dec a b); split; intros; congruence. Qed.
Lemma elabel_eqb_eq : forall a b, elabel_eqb a b = true <-> a = b.
Proof. intros. unfold elabel_eqb. destruct (elabel_eq_dec a b); split; intros; congruence. Qed.

Definition graph_keys (g : graph) : Prop := NoDup (map fst (g_nodes g)) /\ NoDup (map fst (g_edges g)).

Lemma graph_ok_keys : forall g, graph_ok g -> graph_keys g.
Proof. intros g OK. split; [apply (gk_nodes _ OK) | apply (gk_edges _ OK)]. Qed.

(** [g1 == g2] iff they have the same nodes, the same edges (as id-indexed sets) and the same
    tuple of external nodes: in particular graphs that differ in any of these are separated *)
Theorem graph_eqb_spec : forall a b, graph_keys a -> graph_keys b ->
    (graph_eqb a b = true <->
     (forall k, aget ident_eq_dec (g_nodes a) k = aget ident_eq_dec (g_nodes b) k) /\
     (forall k, aget ident_eq_dec (g_edges a) k = aget ident_eq_dec (g_edges b) k) /\
     g_ext a = g_ext b).
Proof.
  intros a b [Na Ea] [Nb Eb]. unfold graph_eqb. rewrite !andb_true_iff.
  rewrite (dict_eqb_ext ident_eq_dec node_eqb _ _ Na Nb node_eqb_eq).
  rewrite (dict_eqb_ext ident_eq_dec edge_eqb _ _ Ea Eb edge_eqb_eq).
  destruct (lnode_eq_dec (g_ext a) (g_ext b)); split; intros H; try tauto.
  destruct H as [[? ?] ?]. discriminate.
Qed.

Lemma graph_eqb_refl : forall a, graph_keys a -> graph_eqb a a = true.
Proof. intros a K. apply graph_eqb_spec; auto. Qed.
Lemma graph_eqb_sym : forall a b, graph_keys a -> graph_keys b -> graph_eqb a b = true -> graph_eqb b a = true.
Proof.
  intros a b Ka Kb H. apply graph_eqb_spec in H; auto. apply graph_eqb_spec; auto.
  destruct H as (A & B & C). repeat split; intros; congruence.
Qed.
Lemma graph_eqb_trans : forall a b c, graph_keys a -> graph_keys b -> graph_keys c ->
    graph_eqb a b = true -> graph_eqb b c = true -> graph_eqb a c = true.
Proof.
  intros a b c Ka Kb Kc H1 H2. apply graph_eqb_spec in H1; auto. apply graph_eqb_spec in H2; auto.
  apply graph_eqb_spec; auto. destruct H1 as (A & B & C), H2 as (A' & B' & C').
  repeat split; intros; congruence.
Qed.

(** * rules and grammars *)
Definition graphs_keyed (os : list obj) : Prop := forall h g, get_graph os h = Some g -> graph_keys g.

Lemma rule_eqb_sym : forall os a b, graphs_keyed os -> rule_eqb os a b = true -> rule_eqb os b a = true.
Proof.
  intros os a b GK H. unfold rule_eqb in *. apply andb_true_iff in H. destruct H as [H1 H2].
  apply andb_true_iff. split; [apply elabel_eqb_eq; apply elabel_eqb_eq in H1; congruence|].
  destruct (get_graph os (r_rhs a)) as [x|] eqn:Ea; [|discriminate].
  destruct (get_graph os (r_rhs b)) as [y|] eqn:Eb; [|discriminate].
  exact (graph_eqb_sym x y (GK _ _ Ea) (GK _ _ Eb) H2).
Qed.

Lemma rule_eqb_trans : forall os a b c, graphs_keyed os ->
    rule_eqb os a b = true -> rule_eqb os b c = true -> rule_eqb os a c = true.
Proof.
  intros os a b c GK H1 H2. unfold rule_eqb in *.
  apply andb_true_iff in H1. destruct H1 as [A1 A2]. apply andb_true_iff in H2. destruct H2 as [B1 B2].
  apply andb_true_iff. split; [apply elabel_eqb_eq; apply elabel_eqb_eq in A1; apply elabel_eqb_eq in B1; congruence|].
  destruct (get_graph os (r_rhs a)) as [x|] eqn:Ea; [|discriminate].
  destruct (get_graph os (r_rhs b)) as [y|] eqn:Eb; [|discriminate].
  destruct (get_graph os (r_rhs c)) as [z|] eqn:Ec; [|discriminate].
  exact (graph_eqb_trans x y z (GK _ _ Ea) (GK _ _ Eb) (GK _ _ Ec) A2 B2).
Qed.

Lemma list_eqb_refl : forall {A} (eq : A -> A -> bool) l, (forall x, In x l -> eq x x = true) -> list_eqb eq l l = true.
Proof.
  induction l as [|x l IH]; intros H; cbn; [reflexivity|].
  rewrite H by (left; reflexivity). apply IH. intros; apply H; right; assumption.
Qed.
Lemma list_eqb_sym : forall {A} (eq : A -> A -> bool), (forall a b, eq a b = true -> eq b a = true) ->
    forall l1 l2, list_eqb eq l1 l2 = true -> list_eqb eq l2 l1 = true.
Proof.
  intros A eq SY. induction l1 as [|x l1 IH]; intros [|y l2] H; cbn in *; try discriminate; [reflexivity|].
  apply andb_true_iff in H. destruct H as [H1 H2]. rewrite (SY _ _ H1). apply IH. assumption.
Qed.
Lemma list_eqb_trans : forall {A} (eq : A -> A -> bool), (forall a b c, eq a b = true -> eq b c = true -> eq a c = true) ->
    forall l1 l2 l3, list_eqb eq l1 l2 = true -> list_eqb eq l2 l3 = true -> list_eqb eq l1 l3 = true.
Proof.
  intros A eq TR. induction l1 as [|x l1 IH]; intros [|y l2] [|z l3] H1 H2; cbn in *; try discriminate; [reflexivity|].
  apply andb_true_iff in H1. destruct H1 as [A1 A2]. apply andb_true_iff in H2. destruct H2 as [B1 B2].
  rewrite (TR _ _ _ A1 B1). eapply IH; eauto.
Qed.

(** the dict-key discipline of a grammar, and "every rule's rhs is a live graph" *)
Record hrg_keys (os : list obj) (x : hrg) : Prop := {
  hq_rules : NoDup (map fst (h_rules x));
  hq_nl : NoDup (map fst (t_nl (h_tab x)));
  hq_el : NoDup (map fst (t_el (h_tab x)));
  hq_live : forall k rs r, In (k, rs) (h_rules x) -> In r rs -> exists g, get_graph os (r_rhs r) = Some g }.

Lemma hrg_ok_keys : forall os x, hrg_ok os x -> hrg_keys os x.
Proof.
  intros os x [[[N1 _] [N2 _]] K L S R]. split; auto.
  intros k rs r H1 H2. destruct (R _ _ _ H1 H2) as [_ (g & Hg & _)]. eauto.
Qed.

Lemma nat_eqb_eq : forall a b : nat, Nat.eqb a b = true <-> a = b.
Proof. intros. apply Nat.eqb_eq. Qed.

Ltac split4 := apply andb_true_iff; split; [apply andb_true_iff; split; [apply andb_true_iff; split|]|].
Ltac dest4 H Hs Hn He :=
  apply andb_true_iff in H; destruct H as [H He]; apply andb_true_iff in H; destruct H as [H Hn];
  apply andb_true_iff in H; destruct H as [H Hs].

Theorem hrg_eqb_refl : forall os x, graphs_keyed os -> hrg_keys os x -> hrg_eqb os x x = true.
Proof.
  intros os x GK [R N E L]. unfold hrg_eqb. split4.
  - apply dict_eqb_refl; [assumption|]. intros k rs H. apply list_eqb_refl. intros r Hr.
    unfold rule_eqb. apply andb_true_iff. split; [apply elabel_eqb_eq; reflexivity|].
    destruct (L _ _ _ H Hr) as [g Hg]. rewrite Hg. apply graph_eqb_refl. eauto.
  - apply elabel_eqb_eq. reflexivity.
  - apply dict_eqb_refl; [assumption|]. intros. apply Nat.eqb_refl.
  - apply dict_eqb_refl; [assumption|]. intros. apply elabel_eqb_eq. reflexivity.
Qed.

Theorem hrg_eqb_sym : forall os a b, graphs_keyed os -> hrg_keys os a -> hrg_keys os b ->
    hrg_eqb os a b = true -> hrg_eqb os b a = true.
Proof.
  intros os a b GK [Ra Na Ea _] [Rb Nb Eb _] H. unfold hrg_eqb in *.
  dest4 H Hs Hn He. split4.
  - apply dict_eqb_sym; auto. intros x y. apply list_eqb_sym. intros; apply rule_eqb_sym; assumption.
  - apply elabel_eqb_eq. apply elabel_eqb_eq in Hs. congruence.
  - apply dict_eqb_sym; auto. intros x y X. apply Nat.eqb_eq in X. apply Nat.eqb_eq. congruence.
  - apply dict_eqb_sym; auto. intros x y X. apply elabel_eqb_eq in X. apply elabel_eqb_eq. congruence.
Qed.

Theorem hrg_eqb_trans : forall os a b c, graphs_keyed os -> hrg_keys os a -> hrg_keys os b ->
    hrg_eqb os a b = true -> hrg_eqb os b c = true -> hrg_eqb os a c = true.
Proof.
  intros os a b c GK [Ra Na Ea _] [Rb Nb Eb _] H1 H2. unfold hrg_eqb in *.
  dest4 H1 Hs1 Hn1 He1. dest4 H2 Hs2 Hn2 He2. split4.
  - apply (dict_eqb_trans elabel_eq_dec _ _ (h_rules b)); auto.
    intros x y z. apply list_eqb_trans. intros; eapply rule_eqb_trans; eauto.
  - apply elabel_eqb_eq. apply elabel_eqb_eq in Hs1. apply elabel_eqb_eq in Hs2. congruence.
  - apply (dict_eqb_trans Nat.eq_dec _ _ (t_nl (h_tab b))); auto.
    intros x y z X Y. apply Nat.eqb_eq in X. apply Nat.eqb_eq in Y. apply Nat.eqb_eq. congruence.
  - apply (dict_eqb_trans Nat.eq_dec _ _ (t_el (h_tab b))); auto.
    intros x y z X Y. apply elabel_eqb_eq in X. apply elabel_eqb_eq in Y. apply elabel_eqb_eq. congruence.
Qed.

(** equal grammars have the same start symbol, the same label tables, and under every lhs
    rule lists that are pairwise equal (same lhs, [==] right-hand sides, same order) *)
Theorem hrg_eqb_separates : forall os a b, hrg_keys os a -> hrg_keys os b ->
    hrg_eqb os a b = true ->
    h_start a = h_start b /\
    (forall n, aget Nat.eq_dec (t_nl (h_tab a)) n = aget Nat.eq_dec (t_nl (h_tab b)) n) /\
    (forall n, aget Nat.eq_dec (t_el (h_tab a)) n = aget Nat.eq_dec (t_el (h_tab b)) n) /\
    length (h_rules a) = length (h_rules b) /\
    forall lhs ra, aget elabel_eq_dec (h_rules a) lhs = Some ra ->
                   exists rb, aget elabel_eq_dec (h_rules b) lhs = Some rb /\ list_eqb (rule_eqb os) ra rb = true.
Proof.
  intros os a b [Ra Na Ea _] [Rb Nb Eb _] H. unfold hrg_eqb in H.
  dest4 H Hs Hn He.
  split; [apply elabel_eqb_eq; assumption|].
  split; [apply (dict_eqb_ext Nat.eq_dec Nat.eqb _ _ Na Nb nat_eqb_eq); assumption|].
  split; [apply (dict_eqb_ext Nat.eq_dec elabel_eqb _ _ Ea Eb elabel_eqb_eq); assumption|].
  apply dict_eqb_spec in H; [|assumption]. destruct H as [L S]. split; [assumption|]. exact S.
Qed.

(** * objects in a well-formed family *)
Lemma inv_graphs_keyed : forall os, inv_os os -> graphs_keyed os.
Proof.
  intros os I h g H. unfold get_graph in H. destruct (nth_error os h) as [[g0|]|] eqn:E; try discriminate.
  inversion H; subst. apply graph_ok_keys. apply (I _ _ E).
Qed.

Theorem obj_eqb_refl : forall os a, inv_os os -> In a os -> obj_eqb os a a = true.
Proof.
  intros os a I Ha. apply In_nth_error in Ha. destruct Ha as [k Hk]. pose proof (I _ _ Hk) as OK.
  destruct a as [g|x]; cbn in *.
  - apply graph_eqb_refl, graph_ok_keys. assumption.
  - apply hrg_eqb_refl; [apply inv_graphs_keyed; assumption | apply hrg_ok_keys; assumption].
Qed.

Theorem obj_eqb_sym : forall os a b, inv_os os -> In a os -> In b os -> obj_eqb os a b = true -> obj_eqb os b a = true.
Proof.
  intros os a b I Ha Hb H. apply In_nth_error in Ha. destruct Ha as [ka Hka]. apply In_nth_error in Hb. destruct Hb as [kb Hkb].
  pose proof (I _ _ Hka) as OKa. pose proof (I _ _ Hkb) as OKb.
  destruct a as [g|x], b as [g'|x']; cbn in *; try discriminate.
  - apply graph_eqb_sym; auto using graph_ok_keys.
  - apply hrg_eqb_sym; auto using hrg_ok_keys, inv_graphs_keyed.
Qed.

Theorem obj_eqb_trans : forall os a b c, inv_os os -> In a os -> In b os -> In c os ->
    obj_eqb os a b = true -> obj_eqb os b c = true -> obj_eqb os a c = true.
Proof.
  intros os a b c I Ha Hb Hc H1 H2.
  apply In_nth_error in Ha. destruct Ha as [ka Hka]. apply In_nth_error in Hb. destruct Hb as [kb Hkb].
  apply In_nth_error in Hc. destruct Hc as [kc Hkc].
  pose proof (I _ _ Hka) as OKa. pose proof (I _ _ Hkb) as OKb. pose proof (I _ _ Hkc) as OKc.
  destruct a as [g|x], b as [g'|x'], c as [g''|x'']; cbn in *; try discriminate.
  - apply (graph_eqb_trans g g' g''); auto using graph_ok_keys.
  - apply (hrg_eqb_trans os x x' x''); auto using hrg_ok_keys, inv_graphs_keyed.
Qed.
