(** C09 -- carrier-specific facts: the decision procedures used by the oracles are sound,
    ViterbiSemiring.star as coded (finding F2) still gives a solution but not the least one,
    and gives the least one when no pivot is exactly 0; a bounded exactness theorem for the
    Boolean series. *)
From Coq Require Import List Arith Lia Bool PeanoNat QArith Qcanon Lqa.
Import ListNotations.
Require Import Fggs.Model.Semiring Fggs.Model.EReal Fggs.Model.Trop Fggs.Model.Solve.
Require Import Fggs.Proofs.SolveElim Fggs.Proofs.SolveRefine.
Local Open Scope nat_scope.

(** * decision procedures *)
Lemma Qc_eq_of_Qeq_bool (a b : Qc) : Qeq_bool (this a) (this b) = true -> a = b.
Proof. intros H. apply Qc_is_canon. apply Qeq_bool_iff. exact H. Qed.

Lemma teqb_eq x y : teqb x y = true -> x = y.
Proof.
  destruct x as [|a|], y as [|b|]; cbn; try discriminate; try reflexivity.
  intros H. f_equal. apply Qc_eq_of_Qeq_bool. exact H.
Qed.
Lemma tleb_iff x y : tleb x y = true <-> tle x y.
Proof.
  destruct x as [|a|], y as [|b|]; cbn; try (split; [intros _; exact I|reflexivity]);
    try (split; [discriminate|intros []]).
  unfold Qcle. apply Qle_bool_iff.
Qed.

Lemma eeqb_eq x y : eeqb x y = true -> x = y.
Proof.
  destruct x as [a|], y as [b|]; cbn; try discriminate; try reflexivity.
  intros H. f_equal. apply nnq_eq. apply Qc_eq_of_Qeq_bool. exact H.
Qed.
Lemma eleb_iff x y : eleb x y = true <-> ele x y.
Proof.
  destruct x as [a|], y as [b|]; cbn; try (split; [intros _; exact I|reflexivity]);
    try (split; [discriminate|intros []]).
  unfold Qcle. apply Qle_bool_iff.
Qed.

Lemma bool_eqb_eq (x y : bool) : Bool.eqb x y = true -> x = y.
Proof. apply eqb_prop. Qed.
Lemma bool_leb_iff (x y : bool) : bool_leb x y = true <-> le bool_ops x y.
Proof.
  destruct x, y; cbn; split; intros H; auto; try discriminate; try (apply H; reflexivity).
Qed.

(** * ViterbiSemiring.star as coded *)
Lemma Qc_plus_0_r (a : Qc) : (a + 0 = a)%Qc.
Proof. apply Qcplus_0_r. Qed.

(** it satisfies the unfolding law: star a = 1 + a * star a (in max-plus: max(0, a + star a)) *)
Lemma tstar_code_unfold a : tstar_code a = tmax (TFin 0%Qc) (tplus a (tstar_code a)).
Proof.
  destruct a as [|a|]; try reflexivity.
  unfold tstar_code. destruct (Qle_bool 0 (this a)) eqn:E; [reflexivity|].
  change (tplus (TFin a) (TFin 0%Qc)) with (TFin (a + 0)%Qc). rewrite Qc_plus_0_r.
  change (tmax (TFin 0%Qc) (TFin a)) with (if Qle_bool (this 0%Qc) (this a) then TFin a else TFin 0%Qc).
  change (this 0%Qc) with 0%Q. rewrite E. reflexivity.
Qed.

(** it differs from the correct star exactly at 0 *)
Lemma tstar_code_agree p : teqb p (TFin 0%Qc) = false -> tstar_code p = tstar p.
Proof.
  intros Hne. destruct p as [|a|]; [reflexivity| |reflexivity].
  change (teqb (TFin a) (TFin 0%Qc)) with (Qeq_bool (this a) (this 0%Qc)) in Hne.
  change (this 0%Qc) with 0%Q in Hne.
  unfold tstar_code, tstar.
  destruct (Qle_bool 0 (this a)) eqn:E1, (Qle_bool (this a) 0) eqn:E2; try reflexivity; exfalso.
  - apply Qle_bool_iff in E1. apply Qle_bool_iff in E2.
    assert (H : (this a == 0)%Q) by lra.
    apply Qeq_bool_iff in H. congruence.
  - assert (H1 : ~ (0 <= this a)%Q) by (intros H; apply Qle_bool_iff in H; congruence).
    assert (H2 : ~ (this a <= 0)%Q) by (intros H; apply Qle_bool_iff in H; congruence).
    lra.
Qed.

Lemma tstar_code_differs : tstar_code (TFin 0%Qc) = TPInf /\ tstar (TFin 0%Qc) = TFin 0%Qc.
Proof. split; reflexivity. Qed.

(** the model run with the star of the code always returns a solution ... *)
Theorem viterbi_code_star_solution : sr_ring trop_ops ->
  forall n A b, sol_spec trop_ops n A b (get1 trop_ops (solve_model trop_code_ops n A b)).
Proof.
  intros Hring n A b.
  apply (sol_spec_of_with_star trop_ops tstar_code).
  exact (solve_model_sol trop_code_ops Hring tstar_code_unfold n A b).
Qed.

(** ... which is not always the least one (finding F2): x = max(0 + x, -1) *)
Definition f2_A : mat trop := [[TFin 0%Qc]].
Definition f2_b : vec trop := [TFin (Q2Qc (-1))].
Theorem viterbi_code_star_not_least :
  presol_spec trop_ops 1 f2_A f2_b (get1 trop_ops f2_b) /\
  ~ (forall i, i < 1 -> tle (get1 trop_ops (solve_model trop_code_ops 1 f2_A f2_b) i) (get1 trop_ops f2_b i)).
Proof.
  split.
  - apply (presol_b_sound trop_ops tleb tleb_iff). vm_compute. reflexivity.
  - intros H. specialize (H 0 (Nat.lt_0_succ 0)). apply tleb_iff in H. vm_compute in H. discriminate.
Qed.

(** ... and is the least one whenever no pivot met by the loop is exactly 0 *)
Definition no_zero_pivot (n : nat) (A : mat trop) : bool :=
  forallb (fun p => negb (teqb p (TFin 0%Qc))) (gj_pivots trop_code_ops n (seq 0 n) A).

Lemma sol_spec_ext {S} (o : sr_ops S) n A b x x' :
  (forall i, i < n -> x i = x' i) -> sol_spec o n A b x -> sol_spec o n A b x'.
Proof.
  intros E H i Hi. rewrite <- (E i Hi). rewrite (H i Hi). f_equal.
  unfold sum_n. f_equal. apply map_ext_in. intros j Hj. apply in_seq in Hj. rewrite E by lia. reflexivity.
Qed.
Lemma least_spec_ext {S} (o : sr_ops S) n A b x x' :
  (forall i, i < n -> x i = x' i) -> least_spec o n A b x -> least_spec o n A b x'.
Proof.
  intros E [Hs Hl]. split; [apply sol_spec_ext with x; assumption|].
  intros y Hy i Hi. rewrite <- (E i Hi). apply Hl; assumption.
Qed.

Theorem viterbi_code_star_guarded :
  sr_ring trop_ops -> sr_ordered trop_ops -> sr_star trop_ops ->
  forall n A b, no_zero_pivot n A = true ->
    (forall i, i < n -> get1 trop_ops (solve_model trop_code_ops n A b) i
                        = get1 trop_ops (solve_model trop_ops n A b) i)
    /\ least_spec trop_ops n A b (get1 trop_ops (solve_model trop_code_ops n A b)).
Proof.
  intros Hring Hord Hstar n A b G.
  assert (E : forall i, i < n -> get1 trop_ops (solve_model trop_code_ops n A b) i
                                 = get1 trop_ops (solve_model trop_ops n A b) i).
  { intros i Hi.
    apply (solve_model_with_star trop_code_ops tstar n A b); [|exact Hi].
    intros p Hp. unfold no_zero_pivot in G. rewrite forallb_forall in G.
    specialize (G p Hp). apply negb_true_iff in G. apply tstar_code_agree. exact G. }
  split; [exact E|].
  apply least_spec_ext with (get1 trop_ops (solve_model trop_ops n A b)).
  - intros i Hi. symmetry. apply E. exact Hi.
  - apply solve_model_least_spec; assumption.
Qed.

Example viterbi_guard_satisfiable :
  no_zero_pivot 2 [[TFin (Q2Qc (-1)); TFin (Q2Qc 1)]; [TFin (Q2Qc (-2)); NInf]] = true.
Proof. vm_compute. reflexivity. Qed.

(** * Boolean semiring: the series is exact after n steps (bounded: n <= 3, all systems) *)
Fixpoint all_bool_lists (k : nat) : list (list bool) :=
  match k with
  | 0 => [[]]
  | S k => flat_map (fun l => [false :: l; true :: l]) (all_bool_lists k)
  end.
Fixpoint all_bool_mats (rows cols : nat) : list (list (list bool)) :=
  match rows with
  | 0 => [[]]
  | S r => flat_map (fun m => map (fun row => row :: m) (all_bool_lists cols)) (all_bool_mats r cols)
  end.
Definition bool_series_exact_b (n : nat) : bool :=
  forallb (fun A => forallb (fun b =>
     vec_all2 bool_ops Bool.eqb n (series bool_ops n A b n) (solve_model bool_ops n A b))
     (all_bool_lists n)) (all_bool_mats n n).

Theorem bool_series_exact_upto3 :
  forall n, n <= 3 -> forall A b, In A (all_bool_mats n n) -> In b (all_bool_lists n) ->
    forall i, i < n -> get1 bool_ops (series bool_ops n A b n) i = get1 bool_ops (solve_model bool_ops n A b) i.
Proof.
  intros n Hn A b HA Hb.
  assert (H : bool_series_exact_b n = true).
  { destruct n as [|[|[|[|n]]]]; try lia; vm_compute; reflexivity. }
  unfold bool_series_exact_b in H. rewrite forallb_forall in H. specialize (H A HA).
  rewrite forallb_forall in H. specialize (H b Hb).
  intros i Hi. apply bool_eqb_eq.
  unfold vec_all2 in H. rewrite forallb_forall in H. apply H. apply in_seq. lia.
Qed.

Example bool_series_example :
  In [[false; true]; [true; false]] (all_bool_mats 2 2) /\ In [true; false] (all_bool_lists 2).
Proof. split; vm_compute; tauto. Qed.
