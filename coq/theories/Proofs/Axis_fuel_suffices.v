(** The fuel formula of the model suffices: on every typed pair of patterns [unify_list], run with
    [unify_fuel es fs] (Model/AxisCheck.v), answers -- it never returns [Fail OutOfFuel].

    The link between the fuel and the types CANNOT be "[tyfuel ps <= unify_fuel es fs] for the given
    typing": a typing may use types far larger than the patterns (a physical axis of size 2 may have
    a type that is a tower of a hundred one-summand sums).  What is true, and proved here:
    1. every typed pair has a COARSER typing ([co V], Proofs/Axis_coarsen.v: the sum types at which no
       [Sum] node is typed become atoms) that types the same patterns in the translated context;
    2. its path weight [pm] (Proofs/Axis_total_path.v) is at most [L + S * (L + 1)], [S] = number of
       [Sum] nodes, [L] = [log2] of the largest dimension;
    3. [unify] is total with [3 * pm + 2] units of fuel (the induction of Axis_total.v on [pm]);
    4. whatever typing was used to show that the model answers, the answer is characterised by the
       theorems that hold for every fuel ([unify_typed_mgu_any_fuel], with the ORIGINAL typing).

    The former formula of the model, [unify_fuel_old] (linear in the number of nodes), is refuted:
    [unify_fuel_old_refuted] -- the conjugacy equation [a.X = X.a'] with [X] of size [2^16]. *)
From Coq Require Import List Arith Lia PeanoNat Bool PArith.
Import ListNotations.
Require Import Fggs.Model.Axis Fggs.Model.AxisCheck.
Require Import Fggs.Proofs.Axis_sem Fggs.Proofs.Axis_unify Fggs.Proofs.Axis_complete_gen Fggs.Proofs.Axis_typed
               Fggs.Proofs.Axis_total Fggs.Proofs.Axis_fuel Fggs.Proofs.Axis_mgu Fggs.Proofs.Axis_typed_check
               Fggs.Proofs.Axis_total_path Fggs.Proofs.Axis_coarsen.

Lemma maxnumel_app l1 l2 : maxnumel (l1 ++ l2) = Nat.max (maxnumel l1) (maxnumel l2).
Proof. induction l1 as [|x l1 IH]; simpl; [reflexivity|]. fold (maxnumel (l1 ++ l2)). fold (maxnumel l1). rewrite IH. lia. Qed.

Lemma nsum_list_app l1 l2 : nsum_list (l1 ++ l2) = nsum_list l1 + nsum_list l2.
Proof. induction l1 as [|x l1 IH]; simpl; [reflexivity|]. fold (nsum_list (l1 ++ l2)). fold (nsum_list l1). rewrite IH. lia. Qed.

Lemma tys_sizes_le G es pss : tys G es pss -> Forall (fun ps => tsizes ps <= maxnumel es) pss.
Proof.
  induction 1 as [|e es ps pss He _ IH]; constructor.
  - rewrite <- (ty_numel _ _ _ He). simpl. lia.
  - eapply Forall_impl; [|exact IH]. simpl. intros q Hq. fold (maxnumel es). lia.
Qed.

(** * the arithmetic link, for the coarsened typing *)
Theorem unify_fuel_suffices G es fs pss :
  tys G es pss -> tys G fs pss -> Forall gprimes pss ->
  exists V, tys (coG V G) es (map (map (co V)) pss) /\ tys (coG V G) fs (map (map (co V)) pss) /\
            Forall gprimes (map (map (co V)) pss) /\
            Forall (fun ps => pmfuel ps <= unify_fuel es fs) (map (map (co V)) pss).
Proof.
  intros Te Tf Gp.
  destruct (co_tys G es pss Te Gp) as (Ve & Le & Hve). destruct (co_tys G fs pss Tf Gp) as (Vf & Lf & Hvf).
  exists (Ve ++ Vf).
  split; [apply Hve; intros w Hw; apply in_or_app; auto|].
  split; [apply Hvf; intros w Hw; apply in_or_app; auto|].
  split.
  - apply Forall_forall. intros q Hq. apply in_map_iff in Hq. destruct Hq as (ps & <- & Hps).
    apply co_gprimes. rewrite Forall_forall in Gp. auto.
  - apply Forall_forall. intros q Hq. apply in_map_iff in Hq. destruct Hq as (ps & <- & Hps).
    pose proof (tys_sizes_le G es pss Te) as Sz. rewrite Forall_forall in Sz, Gp.
    assert (S1 : tsizes ps <= maxnumel (es ++ fs)) by (rewrite maxnumel_app; pose proof (Sz ps Hps); lia).
    pose proof (co_pm_bound (Ve ++ Vf) (maxnumel (es ++ fs)) ps (Gp ps Hps) S1) as B.
    rewrite app_length, Le, Lf in B. unfold pmfuel, unify_fuel, unify_fuel_old.
    set (L := Nat.log2 (maxnumel (es ++ fs))) in *. set (S := nsum_list es + nsum_list fs) in *.
    set (P := pm (map (co (Ve ++ Vf)) ps)) in *. clearbody L S P. nia.
Qed.

(** * the model answers *)
Theorem unify_model_fuel_total G es fs pss next :
  ctx_good G -> ctx_below G next -> tys G es pss -> tys G fs pss -> Forall gprimes pss ->
  exists b st' G', unify_list (unify_fuel es fs) es fs (ustate0 next) = Ok (b, st') /\ us_warn st' = false /\
                   (next <= us_next st')%positive /\ ctx_ext next G G' /\ tstate G' st'.
Proof.
  intros CG CB Te Tf Gp.
  destruct (unify_fuel_suffices G es fs pss Te Tf Gp) as (V & Te' & Tf' & Gp' & Hf).
  destruct (unify_total_path_list (coG V G) es fs _ next (unify_fuel es fs)
              (coG_good V G CG) (coG_below V G next CB) Te' Tf' Gp' Hf) as (b & st' & _ & E & _).
  destruct (unify_typed_mgu_any_fuel G es fs pss next _ b st' CG CB Te Tf Gp E) as (W & (G' & L & X & T') & _).
  exists b, st', G'. auto.
Qed.

(** C06, premise-free: the model, with its own fuel, answers on every typed pair of patterns, has not
    warned, returns a well-typed acyclic substitution, and the answer is a most general unifier
    (sound; every coincidence is an instance) or, on failure, the patterns have no coincidence *)
Theorem unify_typed_mgu_model G es fs pss next :
  ctx_good G -> ctx_below G next -> tys G es pss -> tys G fs pss -> Forall gprimes pss ->
  exists b st', unify_list (unify_fuel es fs) es fs (ustate0 next) = Ok (b, st') /\ us_warn st' = false /\
    (exists G', (next <= us_next st')%positive /\ ctx_ext next G G' /\ tstate G' st') /\
    (forall rho, Forall (inrange rho) es -> Forall (inrange rho) fs ->
       if b
       then (models rho (us_subst st') -> map (eval rho) es = map (eval rho) fs) /\
            (map (eval rho) es = map (eval rho) fs ->
             exists rho', extends_to next rho rho' /\ inr_s rho' (us_subst st') /\ models rho' (us_subst st'))
       else map (eval rho) es <> map (eval rho) fs).
Proof.
  intros CG CB Te Tf Gp.
  destruct (unify_model_fuel_total G es fs pss next CG CB Te Tf Gp) as (b & st' & _ & E & _).
  exists b, st'. split; [exact E|]. exact (unify_typed_mgu_any_fuel G es fs pss next _ b st' CG CB Te Tf Gp E).
Qed.

(** two environments, for patterns over disjoint variables (what [equal] / [mul] arrange by
    freshening): whatever the fuel, if the model answers, every coincidence
    [eval rho1 es = eval rho2 fs] is an instance of the unifier; and with its own fuel it answers *)
Theorem unify_typed_mgu_two_envs_any_fuel G es fs pss next fuel b st' :
  ctx_good G -> ctx_below G next -> tys G es pss -> tys G fs pss -> Forall gprimes pss ->
  (forall k, In k (flat_map fv es) -> ~ In k (flat_map fv fs)) ->
  unify_list fuel es fs (ustate0 next) = Ok (b, st') ->
  us_warn st' = false /\
  (forall rho1 rho2, Forall (inrange rho1) es -> Forall (inrange rho2) fs ->
     map (eval rho1) es = map (eval rho2) fs ->
     b = true /\ exists rho', (forall k, In k (flat_map fv es) -> rho' k = rho1 k) /\
                              (forall k, In k (flat_map fv fs) -> rho' k = rho2 k) /\
                              models rho' (us_subst st')).
Proof.
  intros CG CB Te Tf Gp Dj E.
  destruct (unify_typed_mgu_any_fuel G es fs pss next fuel b st' CG CB Te Tf Gp E) as (W & _ & H).
  split; [exact W|].
  intros rho1 rho2 R1 R2 Ev.
  set (rho := fun k => if existsb (Pos.eqb k) (flat_map fv es) then rho1 k else rho2 k).
  assert (A1 : forall k, In k (flat_map fv es) -> rho k = rho1 k).
  { intros k Hk. unfold rho. assert (existsb (Pos.eqb k) (flat_map fv es) = true) as ->; [|reflexivity].
    apply existsb_exists. exists k. split; [exact Hk|apply Pos.eqb_refl]. }
  assert (A2 : forall k, In k (flat_map fv fs) -> rho k = rho2 k).
  { intros k Hk. unfold rho. destruct (existsb (Pos.eqb k) (flat_map fv es)) eqn:X; [|reflexivity].
    apply existsb_exists in X. destruct X as (k' & Hk' & X). apply Pos.eqb_eq in X. subst k'. exfalso. exact (Dj k Hk' Hk). }
  assert (Re : Forall (inrange rho) es).
  { rewrite Forall_forall in *. intros x Hx. apply (inrange_ext_fv rho1); [|auto]. intros k Hk. symmetry. apply A1. apply in_flat_map. eauto. }
  assert (Rf : Forall (inrange rho) fs).
  { rewrite Forall_forall in *. intros x Hx. apply (inrange_ext_fv rho2); [|auto]. intros k Hk. symmetry. apply A2. apply in_flat_map. eauto. }
  assert (Ev' : map (eval rho) es = map (eval rho) fs).
  { transitivity (map (eval rho1) es); [apply map_ext_in; intros x Hx; apply eval_ext_fv; intros k Hk; apply A1; apply in_flat_map; eauto|].
    rewrite Ev. apply map_ext_in. intros x Hx. apply eval_ext_fv. intros k Hk. symmetry. apply A2. apply in_flat_map. eauto. }
  specialize (H rho Re Rf). destruct b; [|contradiction].
  split; [reflexivity|]. destruct H as [_ H]. destruct (H Ev') as (rho' & X & _ & M).
  exists rho'. split; [|split; [|exact M]].
  - intros k Hk. rewrite <- A1 by exact Hk. apply X. apply in_flat_map in Hk. destruct Hk as (x & Hx & Hk).
    exact (tys_below _ _ _ _ CB Te x Hx k Hk).
  - intros k Hk. rewrite <- A2 by exact Hk. apply X. apply in_flat_map in Hk. destruct Hk as (x & Hx & Hk).
    exact (tys_below _ _ _ _ CB Tf x Hx k Hk).
Qed.

Corollary unify_typed_mgu_two_envs_model G es fs pss next :
  ctx_good G -> ctx_below G next -> tys G es pss -> tys G fs pss -> Forall gprimes pss ->
  (forall k, In k (flat_map fv es) -> ~ In k (flat_map fv fs)) ->
  exists b st', unify_list (unify_fuel es fs) es fs (ustate0 next) = Ok (b, st') /\ us_warn st' = false /\
    (forall rho1 rho2, Forall (inrange rho1) es -> Forall (inrange rho2) fs ->
       map (eval rho1) es = map (eval rho2) fs ->
       b = true /\ exists rho', (forall k, In k (flat_map fv es) -> rho' k = rho1 k) /\
                                (forall k, In k (flat_map fv fs) -> rho' k = rho2 k) /\
                                models rho' (us_subst st')).
Proof.
  intros CG CB Te Tf Gp Dj.
  destruct (unify_model_fuel_total G es fs pss next CG CB Te Tf Gp) as (b & st' & _ & E & _).
  exists b, st'. split; [exact E|].
  exact (unify_typed_mgu_two_envs_any_fuel G es fs pss next _ b st' CG CB Te Tf Gp Dj E).
Qed.

(** * the former fuel formula is refuted (a finding about the model, not about the code)

    [e = ProductAxis((a, X))], [f = ProductAxis((X, a'))] with [X = PhysicalAxis(2**16)] shared and
    [a], [a'] of size 2: both patterns have the type [2^17] (17 atoms of size 2), the pair is typed,
    and the only solutions make [X] a product of 16 copies of one axis of size 2, which [unify]
    finds by splitting [X] sixteen times, each time three calls deeper.  With the old fuel (46) the
    model fails; with [unify_fuel] it answers [true] without a warning. *)
Definition conj_ctx : ctx := fun k =>
  if Pos.eqb k 1 then repeat (TAtom 2) 16 else if Pos.eqb k 2 || Pos.eqb k 3 then [TAtom 2] else [].
Definition conj_es : list axis := [Prod [Phys 2 2; Phys 1 (2 ^ 16)]].
Definition conj_fs : list axis := [Prod [Phys 1 (2 ^ 16); Phys 3 2]].

Theorem unify_fuel_old_refuted :
  ctx_good conj_ctx /\ ctx_below conj_ctx 4 /\
  tys conj_ctx conj_es [repeat (TAtom 2) 17] /\ tys conj_ctx conj_fs [repeat (TAtom 2) 17] /\
  Forall gprimes [repeat (TAtom 2) 17] /\
  unify_list (unify_fuel_old conj_es conj_fs) conj_es conj_fs (ustate0 4) = Fail OutOfFuel /\
  exists st', unify_list (unify_fuel conj_es conj_fs) conj_es conj_fs (ustate0 4) = Ok (true, st') /\ us_warn st' = false.
Proof.
  split; [|split; [|split; [|split; [|split; [|split]]]]].
  - intros k. unfold conj_ctx. destruct (Pos.eqb k 1); [repeat constructor|].
    destruct (Pos.eqb k 2 || Pos.eqb k 3); repeat constructor.
  - intros k Hk. unfold conj_ctx. destruct (Pos.eqb_spec k 1); [lia|].
    destruct (Pos.eqb_spec k 2); [lia|]. destruct (Pos.eqb_spec k 3); [lia|]. reflexivity.
  - constructor; [|constructor]. apply ty_b_sound. vm_compute. reflexivity.
  - constructor; [|constructor]. apply ty_b_sound. vm_compute. reflexivity.
  - constructor; [|constructor]. repeat constructor.
  - vm_compute. reflexivity.
  - assert (H : match unify_list (unify_fuel conj_es conj_fs) conj_es conj_fs (ustate0 4) with
                 | Ok (true, st') => negb (us_warn st')
                 | _ => false
                 end = true) by (vm_compute; reflexivity).
    destruct (unify_list (unify_fuel conj_es conj_fs) conj_es conj_fs (ustate0 4)) as [[[|] st']|err]; try discriminate.
    exists st'. split; [reflexivity|]. apply negb_true_iff in H. exact H.
Qed.
