(** C11 -- magnitudes: the facts behind [Model/Magnitude.v].
    The scalar system x = F(x) = c x^2 + a x + b with a, b, c >= 0. *)
From Coq Require Import QArith Bool List Lqa.
Require Import Fggs.Model.Magnitude.
Import ListNotations.
Local Open Scope Q_scope.

Section Quad.
Variables a b c : Q.
Hypothesis Ha : 0 <= a.
Hypothesis Hb : 0 <= b.
Hypothesis Hc : 0 <= c.

Lemma qF_diff x y : qF a b c x - qF a b c y == (x - y) * (c * (x + y) + a).
Proof. unfold qF. ring. Qed.

Lemma slope_nonneg x y : 0 <= x -> 0 <= y -> 0 <= c * (x + y) + a.
Proof.
  intros Hx Hy. assert (0 <= c * (x + y)) by (apply Qmult_le_0_compat; lra). lra.
Qed.

Lemma qF_mono x y : 0 <= x -> x <= y -> qF a b c x <= qF a b c y.
Proof.
  intros Hx Hxy. pose proof (qF_diff y x) as D.
  assert (0 <= (y - x) * (c * (y + x) + a)).
  { apply Qmult_le_0_compat; [lra|apply slope_nonneg; lra]. }
  lra.
Qed.

Lemma qF_nonneg x : 0 <= x -> 0 <= qF a b c x.
Proof.
  intros Hx. unfold qF.
  assert (0 <= c * x * x) by (apply Qmult_le_0_compat; [apply Qmult_le_0_compat|]; lra).
  assert (0 <= a * x) by (apply Qmult_le_0_compat; lra). lra.
Qed.

(** every nonnegative pre-fixed point (hence the least solution) is at least the base weight F(0) = b *)
Lemma base_le_prefixed y : 0 <= y -> qF a b c y <= y -> b <= y.
Proof.
  intros Hy Hp. unfold qF in Hp.
  assert (0 <= c * y * y) by (apply Qmult_le_0_compat; [apply Qmult_le_0_compat|]; lra).
  assert (0 <= a * y) by (apply Qmult_le_0_compat; lra). lra.
Qed.

(** ** the certificate *)
(** lower end: a post-fixed point [lo <= F(lo)] with F'(lo) < 1 lies below EVERY nonnegative
    pre-fixed point, hence below the least solution (the infimum of the pre-fixed points) *)
Theorem cert_lower lo : 0 <= lo -> lo <= qF a b c lo -> qL a c lo < 1 ->
  forall y, 0 <= y -> qF a b c y <= y -> lo <= y.
Proof.
  intros Hlo Hpost HL y Hy Hpre.
  destruct (Qlt_le_dec y lo) as [Hlt|]; [exfalso|assumption].
  pose proof (qF_diff lo y) as D.
  (* F(lo) - F(y) >= lo - y > 0, so the slope c (lo + y) + a is >= 1 ... *)
  assert (S1 : (lo - y) * 1 <= (lo - y) * (c * (lo + y) + a)) by lra.
  assert (S2 : 1 <= c * (lo + y) + a).
  { destruct (Qlt_le_dec (c * (lo + y) + a) 1) as [Hs|]; [exfalso|assumption].
    assert ((lo - y) * (c * (lo + y) + a) < (lo - y) * 1).
    { rewrite (Qmult_comm (lo - y) (c * (lo + y) + a)), (Qmult_comm (lo - y) 1).
      apply Qmult_lt_compat_r; lra. }
    lra. }
  (* ... but it is at most F'(lo) < 1 *)
  assert (c * y <= c * lo).
  { rewrite (Qmult_comm c y), (Qmult_comm c lo). apply Qmult_le_compat_r; lra. }
  unfold qL in HL. lra.
Qed.

Lemma qiter_nonneg k : 0 <= qiter a b c k.
Proof. induction k as [|k IH]; cbn [qiter]; [lra|apply qF_nonneg, IH]. Qed.

(** upper end: every Kleene iterate stays below every nonnegative pre-fixed point *)
Theorem cert_upper hi : 0 <= hi -> qF a b c hi <= hi -> forall k, qiter a b c k <= hi.
Proof.
  intros Hhi Hpre k. induction k as [|k IH]; cbn [qiter]; [assumption|].
  pose proof (qF_mono _ _ (qiter_nonneg k) IH). lra.
Qed.

Lemma qiter_mono k : qiter a b c k <= qiter a b c (S k).
Proof.
  induction k as [|k IH]; [cbn [qiter]; apply qF_nonneg; lra|].
  cbn [qiter] in *. apply qF_mono; [apply qiter_nonneg|assumption].
Qed.

(** every Kleene iterate after the first is at least the base weight *)
Theorem base_le_iter k : b <= qiter a b c (S k).
Proof.
  induction k as [|k IH].
  - cbn [qiter]. unfold qF. lra.
  - pose proof (qiter_mono (S k)). lra.
Qed.

(** ** what the stopping test gives (xs: a solution with F'(xs) <= L < 1; x0 <= xs the iterate
    at which the test F(x0) - x0 <= tol succeeds) *)
Section Stop.
Variables xs x0 L tol : Q.
Hypothesis Hfix : xs == qF a b c xs.
Hypothesis Hx0 : 0 <= x0.
Hypothesis Hle : x0 <= xs.
Hypothesis HL : qL a c xs <= L.
Hypothesis HL1 : L < 1.
Hypothesis Hstop : qF a b c x0 - x0 <= tol.

Lemma slope_le_L : c * (xs + x0) + a <= L.
Proof.
  assert (c * x0 <= c * xs).
  { rewrite (Qmult_comm c x0), (Qmult_comm c xs). apply Qmult_le_compat_r; lra. }
  unfold qL in HL. lra.
Qed.

Lemma gap_contracts : xs - qF a b c x0 <= L * (xs - x0).
Proof.
  pose proof (qF_diff xs x0) as D. pose proof slope_le_L as S.
  assert ((xs - x0) * (c * (xs + x0) + a) <= (xs - x0) * L).
  { rewrite (Qmult_comm (xs - x0) (c * (xs + x0) + a)), (Qmult_comm (xs - x0) L).
    apply Qmult_le_compat_r; lra. }
  lra.
Qed.

(** fixed-point returns x0 itself: at most tol/(1-L) below the solution *)
Theorem fixed_point_stop_bound : xs - x0 <= tol / (1 - L).
Proof.
  apply Qle_shift_div_l; [lra|]. pose proof gap_contracts. lra.
Qed.

(** newton returns at least F(x0) (x.maximum_(F(x))): at most tol*L/(1-L) below the solution *)
Theorem newton_stop_bound : xs - qF a b c x0 <= tol * L / (1 - L).
Proof.
  apply Qle_shift_div_l; [lra|].
  pose proof gap_contracts as G.
  assert (D : (xs - x0) * (1 - L) <= tol) by lra.
  assert (0 <= L).
  { pose proof (slope_nonneg xs x0). pose proof slope_le_L. lra. }
  assert (L * ((xs - x0) * (1 - L)) <= L * tol).
  { rewrite (Qmult_comm L ((xs - x0) * (1 - L))), (Qmult_comm L tol). apply Qmult_le_compat_r; assumption. }
  assert ((xs - qF a b c x0) * (1 - L) <= L * (xs - x0) * (1 - L)).
  { apply Qmult_le_compat_r; lra. }
  lra.
Qed.

(** the base weight alone is already the solution up to the relative error L, whatever tol is *)
Theorem base_relative_bound : (1 - L) * xs <= b.
Proof.
  assert (Hxs : 0 <= xs) by lra.
  assert (E : xs - b == xs * (c * xs + a)) by (rewrite Hfix at 1; unfold qF; ring).
  assert (c * xs + a <= L).
  { unfold qL in HL. assert (0 <= c * xs) by (apply Qmult_le_0_compat; lra). lra. }
  assert (xs * (c * xs + a) <= xs * L).
  { rewrite (Qmult_comm xs (c * xs + a)), (Qmult_comm xs L). apply Qmult_le_compat_r; lra. }
  lra.
Qed.
End Stop.
End Quad.

(** a non-trivial instance of the hypotheses: x = x^2 + 3/16, least solution 1/4, F' = 1/2;
    the iterate x0 = 3/16 passes the test with tol = 1/16 *)
Example stop_bounds_example :
  (1#4) - qF 0 (3#16) 1 (3#16) <= (1#16) * (1#2) / (1 - (1#2)) /\ (1#4) - (3#16) <= (1#16) / (1 - (1#2)).
Proof.
  split.
  - apply (newton_stop_bound 0 (3#16) 1); unfold qF, qL; lra.
  - apply (fixed_point_stop_bound 0 (3#16) 1); unfold qF, qL; lra.
Qed.

(** ** the check function *)
Lemma Qle_bool_true x y : Qle_bool x y = true <-> x <= y.
Proof. apply Qle_bool_iff. Qed.

Lemma Qle_bool_false x y : Qle_bool x y = false -> y < x.
Proof.
  intros H. destruct (Qlt_le_dec y x) as [|Hle]; [assumption|].
  apply Qle_bool_iff in Hle. congruence.
Qed.

Lemma qmax_ge_l x y : x <= qmax x y.
Proof.
  unfold qmax. destruct (Qle_bool x y) eqn:E; [apply Qle_bool_iff in E; assumption|lra].
Qed.

Lemma cert_ok_spec a b c lo hi : cert_ok a b c lo hi = true ->
  0 <= a /\ 0 <= b /\ 0 <= c /\ 0 <= lo /\ lo <= hi /\ lo <= qF a b c lo /\ qF a b c hi <= hi /\ qL a c hi < 1.
Proof.
  unfold cert_ok, Qlt_bool. rewrite !andb_true_iff, negb_true_iff, !Qle_bool_iff.
  intros [[[[[[[H1 H2] H3] H4] H5] H6] H7] H8]. apply Qle_bool_false in H8. tauto.
Qed.

(** an accepted certificate encloses the least solution: below every nonnegative pre-fixed point,
    above every Kleene iterate *)
Theorem cert_ok_encloses a b c lo hi : cert_ok a b c lo hi = true ->
  (forall y, 0 <= y -> qF a b c y <= y -> lo <= y) /\ (forall k, qiter a b c k <= hi).
Proof.
  intros H. apply cert_ok_spec in H. destruct H as (Ha & Hb & Hc & Hlo & Hlh & Hpost & Hpre & HL).
  split.
  - apply cert_lower; try assumption.
    assert (c * lo <= c * hi).
    { rewrite (Qmult_comm c lo), (Qmult_comm c hi). apply Qmult_le_compat_r; lra. }
    unfold qL in *. lra.
  - apply cert_upper; try assumption. lra.
Qed.

(** whatever the method and tol: a value below the base weight (in particular 0 for a positive base
    weight) is rejected with verdict 1 *)
Theorem elem_check_rejects_below_base kind tol eps epsg wg a b c lo hi g mb ox ogb ogg :
  cert_ok a b c lo hi = true -> 0 <= g -> 0 <= mb -> eps < 1 ->
  ox < b * (1 - eps) ->
  elem_check kind tol eps epsg wg ((a, b, c), (lo, hi), (g, mb), (ox, ogb, ogg)) = 1%nat.
Proof.
  intros Hc Hg Hm He Hox. unfold elem_check. rewrite Hc.
  apply Qle_bool_iff in Hg, Hm. rewrite Hg, Hm. cbn [andb negb].
  replace (within (xmin kind tol a b c lo hi) hi eps ox) with false; [reflexivity|].
  symmetry. unfold within. apply andb_false_iff. left.
  apply not_true_iff_false. intros H. apply Qle_bool_iff in H.
  pose proof (qmax_ge_l b (lo - slack kind tol (qL a c hi))) as M. fold (xmin kind tol a b c lo hi) in M.
  assert (b * (1 - eps) <= xmin kind tol a b c lo hi * (1 - eps)) by (apply Qmult_le_compat_r; lra).
  lra.
Qed.

(** an accepted value lies between the method's lower limit and the upper end of the enclosure *)
Theorem elem_check_sound kind tol eps epsg wg a b c lo hi g mb ox ogb ogg :
  elem_check kind tol eps epsg wg ((a, b, c), (lo, hi), (g, mb), (ox, ogb, ogg)) = 0%nat ->
  cert_ok a b c lo hi = true /\
  xmin kind tol a b c lo hi * (1 - eps) <= ox /\ ox <= hi * (1 + eps).
Proof.
  unfold elem_check. destruct (cert_ok a b c lo hi); [|cbn; discriminate].
  destruct (Qle_bool 0 g); cbn [andb negb]; [|discriminate].
  destruct (Qle_bool 0 mb); cbn [andb negb]; [|discriminate].
  destruct (within (xmin kind tol a b c lo hi) hi eps ox) eqn:W; cbn [negb]; [|discriminate].
  intros _. unfold within in W. apply andb_true_iff in W. rewrite !Qle_bool_iff in W. tauto.
Qed.

Example elem_check_example :
  elem_check 2 (1#100000) (1#1000) (1#1000) true
    ((0, 1#1000000, 1#2), (1#1000000, 1000001#1000000000000), (1000000, 1000000), (1#1000000, 1000000, 1#1000000)) = 0%nat
  /\ elem_check 2 (1#100000) (1#1000) (1#1000) true
    ((0, 1#1000000, 1#2), (1#1000000, 1000001#1000000000000), (1000000, 1000000), (0, 0, 0)) = 1%nat.
Proof. split; vm_compute; reflexivity. Qed.
