(** C05: what [factorize_rule_model] returns on a valid rooted decomposition:
    [C05_edges_once] -- every original edge in exactly one new rule (same label, same
    attachment), every new rule's node set a bag (never more nodes than the original), the
    bags cover the node set, every fresh nonterminal has exactly one rule and exactly one use,
    fresh names collide with nothing. *)
From Coq Require Import List Arith Bool PeanoNat Lia Permutation.
Import ListNotations.
Require Import Fggs.Model.Conj Fggs.Proofs.ConjBase Fggs.Proofs.ConjNames.
Require Import Fggs.Model.TreeDec Fggs.Proofs.TreeDec_graph Fggs.Model.Factorize
               Fggs.Proofs.Fz_fresh Fggs.Proofs.Fz_rooted Fggs.Proofs.Fz_struct.

Lemma perm4 {X} (A B C D : list X) : Permutation ((A ++ B) ++ C ++ D) (C ++ A ++ D ++ B).
Proof.
  rewrite <- app_assoc.
  eapply perm_trans; [apply Permutation_app_head; apply Permutation_app_swap_app|].
  eapply perm_trans; [apply Permutation_app_swap_app|].
  do 2 apply Permutation_app_head. apply Permutation_app_comm.
Qed.

Section Main.
Variable r : frule.
Variable t : ftd.
Variable ords : list (list nat).

Notation rules_of := (rules_of_rt r t ords).
Notation placem := (placements r t).

(** the edge [Edge(child_lhs, child_ext)] that the parent of bag [j] receives *)
Definition fresh_edge (nm : nat -> elabel) (j : nat) : fedge := new_edge (nm j) (nth j ords []).

Lemma fresh_idx_some T p : fresh_idx T (Some p) = rt_root T :: fresh_idx T None.
Proof. destruct T. rewrite !fresh_idx_eq. reflexivity. Qed.

Lemma kid_edges_map nm cs : kid_edges ords nm cs = map (fun c => fresh_edge nm (rt_root c)) cs.
Proof. reflexivity. Qed.

Lemma placements_eq i cs parent :
  placem (RT i cs) parent
  = place_edges r (bag_of t i) (pbag t parent) ++ flat_map (fun c => placem c (Some i)) cs.
Proof.
  unfold placements. rewrite rt_nodes_eq. cbn [flat_map fst snd]. f_equal.
  induction cs as [|c cs IH]; [reflexivity|]. cbn [flat_map]. now rewrite flat_map_app, IH.
Qed.

(** ** the edges of the new rules = the placed original edges + one fresh edge per non-root bag *)
Lemma rules_edges nm : forall T parent,
  Permutation (flat_map fr_edges (rules_of nm T parent))
              (placem T parent ++ map (fresh_edge nm) (fresh_idx T None)).
Proof.
  induction T as [i cs IH] using rt_ind'. intro parent.
  rewrite rules_of_rt_eq, flat_map_app, placements_eq, fresh_idx_eq. cbn [flat_map app fr_edges mk_rule].
  rewrite app_nil_r.
  assert (K : Permutation (flat_map fr_edges (flat_map (fun c => rules_of nm c (Some i)) cs))
                          (flat_map (fun c => placem c (Some i)) cs
                           ++ flat_map (fun c => map (fresh_edge nm) (fresh_idx c None)) cs)).
  { clear parent. induction cs as [|c cs IHc]; [constructor|]. cbn [flat_map]. rewrite flat_map_app.
    inversion IH as [|? ? IH1 IH2]; subst.
    eapply perm_trans; [apply Permutation_app; [apply IH1|apply IHc; exact IH2]|].
    rewrite <- !app_assoc. apply Permutation_app_head. rewrite !app_assoc. apply Permutation_app_tail.
    apply Permutation_app_comm. }
  assert (F : Permutation (map (fresh_edge nm) (flat_map (fun c => fresh_idx c (Some i)) cs))
                          (kid_edges ords nm cs ++ flat_map (fun c => map (fresh_edge nm) (fresh_idx c None)) cs)).
  { clear. induction cs as [|c cs IHc]; [constructor|]. cbn [flat_map kid_edges map].
    rewrite map_app, fresh_idx_some. cbn [map app]. constructor.
    eapply perm_trans; [apply Permutation_app_head; exact IHc|].
    rewrite !app_assoc. apply Permutation_app_tail. apply Permutation_app_comm. }
  eapply perm_trans; [apply Permutation_app_tail; exact K|].
  eapply perm_trans; [|apply Permutation_app_head; apply Permutation_sym; exact F].
  rewrite <- (app_assoc (place_edges r (bag_of t i) (pbag t parent))). apply perm4.
Qed.

(** ** left-hand sides: the root's and one per non-root bag *)
Lemma rules_lhs nm : forall T parent,
  Permutation (map fr_lhs (rules_of nm T parent)) (nm (rt_root T) :: map nm (fresh_idx T None)).
Proof.
  induction T as [i cs IH] using rt_ind'. intro parent.
  rewrite rules_of_rt_eq, map_app, fresh_idx_eq. cbn [map app fr_lhs mk_rule rt_root].
  eapply perm_trans; [apply Permutation_app_comm|]. cbn [app]. constructor. clear parent.
  induction cs as [|c cs IHc]; [constructor|]. cbn [flat_map]. rewrite !map_app, fresh_idx_some.
  inversion IH as [|? ? IH1 IH2]; subst.
  apply Permutation_app; [apply IH1|apply IHc; exact IH2].
Qed.

(** ** node sets: every new rule's node list is a bag (with the original labels) *)
Lemma rules_nodes nm : forall T parent c,
  In c (rules_of nm T parent) ->
  exists j, In j (rt_indices T) /\ fr_nodes c = map (fun v => (v, nlabel (fr_nodes r) v)) (bag_of t j).
Proof.
  induction T as [i cs IH] using rt_ind'. intros parent c. rewrite rules_of_rt_eq, in_app_iff, rt_indices_eq.
  intros [H|[<-|[]]].
  - apply in_flat_map in H. destruct H as (d & Hd & Hc). rewrite Forall_forall in IH.
    destruct (IH d Hd (Some i) c Hc) as (j & Hj & E). exists j. split; [|exact E]. right. apply in_flat_map. eauto.
  - exists i. split; [now left|reflexivity].
Qed.

(** the last rule is the one of the root bag *)
Lemma rules_last nm T parent : exists front,
  rules_of nm T parent = front ++ [mk_rule r (nm (rt_root T)) (bag_of t (rt_root T))
                                          (place_edges r (bag_of t (rt_root T)) (pbag t parent) ++ kid_edges ords nm (rt_kids T))
                                          (ext_at r ords parent (rt_root T))].
Proof. destruct T as [i cs]. rewrite rules_of_rt_eq. eexists. reflexivity. Qed.

(** * the model on a valid rooted decomposition *)
(** [T] is the call tree of [visit] from the root bag, and a valid rooted decomposition *)
Record rooted_valid (root : nat) (T : rt) : Prop := {
  rr_rooted : rooted_of t root None T;
  rr_range : forall j, In j (rt_indices T) -> j < length t;
  rr_valid : rtd_valid r t T }.

Lemma rt_depth_le_indices T : rt_depth T <= length (rt_indices T).
Proof.
  induction T as [i cs IH] using rt_ind'. rewrite rt_depth_eq, rt_indices_eq. cbn [length]. apply le_n_S.
  induction cs as [|c cs IHc]; [cbn; lia|]. cbn [max_depth fold_right flat_map]. rewrite app_length.
  inversion IH as [|? ? IH1 IH2]; subst. specialize (IHc IH2). unfold max_depth in IHc. lia.
Qed.

Lemma NoDup_bounded_length (l : list nat) n : NoDup l -> (forall x, In x l -> x < n) -> length l <= n.
Proof.
  intros ND B. rewrite <- (seq_length n 0). apply NoDup_incl_length; trivial.
  intros x Hx. apply in_seq. specialize (B x Hx). lia.
Qed.

Lemma rooted_fuel root T : rooted_valid root T -> root_td (length t) t root None = Some T.
Proof.
  intros [R B V]. apply root_td_complete; trivial.
  eapply Nat.le_trans; [apply rt_depth_le_indices|]. apply NoDup_bounded_length; trivial. apply V.
Qed.

Lemma rooted_of_root root parent T : rooted_of t root parent T -> rt_root T = root.
Proof. inversion 1; reflexivity. Qed.

(** ** the model's output, as a function of a fresh naming *)
Theorem model_output labels root T rs ls :
  find_root (fr_ext r) t 0 = Some root -> rooted_valid root T ->
  factorize_rule_model r labels t ords = Ok (rs, ls) ->
  exists nm,
    rs = rules_of nm T None
    /\ nm root = fr_lhs r
    /\ ls = rev (map nm (fresh_idx T None)) ++ init_labels r labels
    /\ names_ok r ords nm (init_labels r labels) (fresh_idx T None)
    /\ ords_ok t ords T None.
Proof.
  intros FR RV H. unfold factorize_rule_model, factorize_rule_from in H. rewrite FR in H.
  rewrite (visit_eq r t ords _ _ _ T _ (rooted_fuel root T RV)) in H.
  destruct (visit_rt r t ords T None (init_labels r labels, [])) as [[[L' R'] [lhs ext]]|e] eqn:V; [|discriminate].
  cbn [bind fst snd] in H. injection H as <- <-.
  destruct (visit_rt_spec r t ords T None _ _ _ _ _ _ (rv_nodup r t T (rr_valid root T RV)) V)
    as (nm & E1 & E2 & E3 & E4 & E5 & E6 & E7).
  exists nm. cbn [app] in E1. rewrite (rooted_of_root _ _ _ (rr_rooted root T RV)) in E4.
  split; [exact E1|]. split; [apply E4; reflexivity|]. split; [exact E5|]. split; [exact E6|exact E7].
Qed.

(** an original edge never carries a fresh label: the names of all edge labels of the rule are
    in the label set from the start *)
Lemma orig_label_not_fresh labels nm idx e j :
  names_ok r ords nm (init_labels r labels) idx -> In e (fr_edges r) -> In j idx ->
  elabel_eqb (fe_lab e) (nm j) = false.
Proof.
  intros [n1 n2 n3 n4] He Hj. destruct (elabel_eqb (fe_lab e) (nm j)) eqn:E; [|reflexivity]. exfalso.
  apply elabel_eqb_eq in E. apply (n3 j Hj). rewrite <- E. apply in_map.
  unfold init_labels. apply in_or_app. left. now apply in_map.
Qed.

Definition wf_rule_p : Prop := NoDup (fr_ids r) /\ atts_in_ids r.

(** ** C05_edges_once *)
Theorem edges_once labels root T rs ls :
  wf_rule_p ->
  find_root (fr_ext r) t 0 = Some root -> rooted_valid root T ->
  factorize_rule_model r labels t ords = Ok (rs, ls) ->
  exists nm,
    (* every original edge occurs in exactly one new rule, unchanged; the other edges are the
       fresh ones, one per non-root bag *)
    Permutation (flat_map fr_edges rs) (fr_edges r ++ map (fresh_edge nm) (fresh_idx T None))
    /\ (forall e, In e (fr_edges r) -> count_placed t e T None = 1)
    (* every new rule's node set is a bag; no more nodes than the original *)
    /\ (forall c, In c rs -> exists j, In j (rt_indices T) /\ fr_ids c = bag_of t j
                                       /\ fr_nodes c = map (fun v => (v, nlabel (fr_nodes r) v)) (bag_of t j)
                                       /\ length (fr_nodes c) <= length (fr_nodes r))
    (* the union of the bags is the node set *)
    /\ (forall v, In v (fr_ids r) <-> exists c, In c rs /\ In v (fr_ids c))
    (* left-hand sides: the original one (last rule) and the fresh ones, which are nonterminals
       with pairwise different names that are not in the label set *)
    /\ Permutation (map fr_lhs rs) (fr_lhs r :: map nm (fresh_idx T None))
    /\ names_ok r ords nm (init_labels r labels) (fresh_idx T None)
    (* each fresh nonterminal labels exactly one edge of the new rules *)
    /\ (forall j, In j (fresh_idx T None) -> count_label (nm j) rs = 1).
Proof.
  intros [NDi A] FR RV H.
  destruct (model_output labels root T rs ls FR RV H) as (nm & -> & Eroot & _ & NO & OO).
  pose proof (rr_valid root T RV) as V.
  assert (PE : Permutation (flat_map fr_edges (rules_of nm T None)) (fr_edges r ++ map (fresh_edge nm) (fresh_idx T None))).
  { eapply perm_trans; [apply rules_edges|]. apply Permutation_app_tail. now apply placements_perm. }
  exists nm. split; [exact PE|]. split; [intros e He; exact (placed_once r t T e V A He)|].
  assert (NB : forall c, In c (rules_of nm T None) -> exists j, In j (rt_indices T) /\ fr_ids c = bag_of t j
              /\ fr_nodes c = map (fun v => (v, nlabel (fr_nodes r) v)) (bag_of t j)
              /\ length (fr_nodes c) <= length (fr_nodes r)).
  { intros c Hc. destruct (rules_nodes nm T None c Hc) as (j & Hj & E). exists j. split; [exact Hj|].
    assert (Ei : fr_ids c = bag_of t j).
    { unfold fr_ids. rewrite E, map_map. cbn [fst]. apply map_id. }
    split; [exact Ei|]. split; [exact E|].
    rewrite E, map_length. rewrite <- (map_length fst (fr_nodes r)). fold (fr_ids r).
    apply NoDup_incl_length; [apply (rv_bags_nodup r t T V j Hj)|].
    intros x Hx. exact (rv_bags_sub r t T V j x Hj Hx). }
  split; [exact NB|]. split.
  { intro v. split.
    - intro Hv. destruct (rv_vertex r t T V v Hv) as (j & Hj & Hvj).
      (* the rule of bag j *)
      assert (EX : forall T parent j, In j (rt_indices T) ->
                     exists c, In c (rules_of nm T parent) /\ fr_ids c = bag_of t j).
      { clear. induction T as [i cs IH] using rt_ind'. intros parent j. rewrite rt_indices_eq, rules_of_rt_eq.
        intros [<-|Hj].
        - eexists. split; [apply in_or_app; right; now left|]. unfold fr_ids. cbn [fr_nodes mk_rule].
          rewrite map_map. cbn [fst]. apply map_id.
        - apply in_flat_map in Hj. destruct Hj as (d & Hd & Hj). rewrite Forall_forall in IH.
          destruct (IH d Hd (Some i) j Hj) as (c & Hc & E). exists c. split; [|exact E].
          apply in_or_app. left. apply in_flat_map. eauto. }
      destruct (EX T None j Hj) as (c & Hc & E). exists c. split; [exact Hc|]. now rewrite E.
    - intros (c & Hc & Hv). destruct (NB c Hc) as (j & Hj & E & _). rewrite E in Hv.
      exact (rv_bags_sub r t T V j v Hj Hv). }
  split.
  { rewrite <- Eroot, <- (rooted_of_root _ _ _ (rr_rooted root T RV)). apply rules_lhs. }
  split; [exact NO|].
  intros j Hj. unfold count_label.
  assert (CP : forall l l' : list fedge, Permutation l l' ->
            length (filter (fun e => elabel_eqb (fe_lab e) (nm j)) l) = length (filter (fun e => elabel_eqb (fe_lab e) (nm j)) l')).
  { intros l l' P. induction P; cbn [filter]; try congruence.
    - destruct (elabel_eqb _ _); cbn [length]; congruence.
    - destruct (elabel_eqb (fe_lab x) _), (elabel_eqb (fe_lab y) _); reflexivity. }
  rewrite (CP _ _ PE), filter_app, app_length.
  assert (Z : filter (fun e => elabel_eqb (fe_lab e) (nm j)) (fr_edges r) = []).
  { assert (G : forall l, incl l (fr_edges r) -> filter (fun e => elabel_eqb (fe_lab e) (nm j)) l = []).
    { induction l as [|e l IHl]; intro I; [reflexivity|]. cbn [filter].
      rewrite (orig_label_not_fresh labels nm _ e j NO) by (trivial; apply I; now left).
      apply IHl. intros x Hx. apply I. now right. }
    apply G. apply incl_refl. }
  rewrite Z. cbn [length Nat.add].
  (* among the fresh edges exactly the one of bag j *)
  destruct NO as [n1 n2 n3 n4]. revert Hj n4. generalize (fresh_idx T None) as idx.
  induction idx as [|k idx IHk]; intros Hj ND; [destruct Hj|].
  cbn [map filter]. cbn [map] in ND. inversion ND as [|? ? Hk ND']; subst.
  unfold fresh_edge at 1. cbn [fe_lab new_edge]. destruct Hj as [->|Hj].
  - rewrite elabel_eqb_refl. cbn [length]. f_equal.
    assert (G : forall l, (forall k, In k l -> el_name (nm k) <> el_name (nm j)) ->
                filter (fun e => elabel_eqb (fe_lab e) (nm j)) (map (fresh_edge nm) l) = []).
    { induction l as [|k l IHl]; intro Hn; [reflexivity|]. cbn [map filter]. unfold fresh_edge at 1. cbn [fe_lab new_edge].
      destruct (elabel_eqb (nm k) (nm j)) eqn:E.
      - apply elabel_eqb_eq in E. exfalso. apply (Hn k (or_introl eq_refl)). now rewrite E.
      - apply IHl. intros k' Hk'. apply Hn. now right. }
    rewrite G; [reflexivity|]. intros k Hkin E. apply Hk. rewrite <- E. apply in_map_iff. eauto.
  - destruct (elabel_eqb (nm k) (nm j)) eqn:E.
    + apply elabel_eqb_eq in E. exfalso. apply Hk. rewrite E. apply in_map_iff. eauto.
    + now apply IHk.
Qed.

End Main.
