(** C01: soundness of the check function [sp_check] as an oracle: verdict 0 means that every
    observed cell of every nonterminal is accepted by [within] against the Kleene iterate
    [Zk] at k = number of nonterminals (= the sum over all derivation trees for a ranked grammar,
    [Zk_nonrec_all_trees]). *)
From Coq Require Import List Arith Bool PeanoNat Lia.
Import ListNotations.
Require Import Fggs.Model.Semiring Fggs.Model.SCC Fggs.Model.SumProduct Fggs.Model.SumProductCheck.
Require Import Fggs.Proofs.SCC_ntgraph Fggs.Proofs.BigSum Fggs.Proofs.SP_trees Fggs.Proofs.SP_nonrec
               Fggs.Proofs.SP_code Fggs.Proofs.SP_rename Fggs.Proofs.SP_spe Fggs.Proofs.SP_driver
               Fggs.Proofs.SP_main.

Lemma fold_left_max_ge l : forall a, a <= fold_left Nat.max l a.
Proof. induction l as [|x l IH]; intros a; cbn [fold_left]; [lia|]. specialize (IH (Nat.max a x)). lia. Qed.
Lemma fold_left_max_zero l : forall a, fold_left Nat.max l a = 0 -> a = 0 /\ forall c, In c l -> c = 0.
Proof.
  induction l as [|x l IH]; intros a H; cbn [fold_left] in H; [split; [exact H|intros c []]|].
  destruct (IH _ H) as [Hm Hl]. split; [lia|]. intros c [<-|Hc]; [lia|now apply Hl].
Qed.
Lemma worst_zero codes : worst codes = 0 -> forall c, In c codes -> c = 0.
Proof.
  unfold worst. destruct (existsb (Nat.eqb 1) codes); [discriminate|]. intros H. now apply fold_left_max_zero in H.
Qed.

Section CheckSound.
Context {R W B : Type} (o : sr_ops R) (of_wire : W -> R) (within : R -> B -> bool) (eqb : R -> R -> bool).

Lemma tmt_get_tget (t : tmt (R:=R)) X : tmt_get t X = tget t X.
Proof. induction t as [|[a tb] t IH]; cbn [tmt_get tget]; [reflexivity|]. destruct (Nat.eqb a X); trivial. Qed.

Lemma cells_ok_tabulate shape (f : list nat -> R) ob :
  cells_ok within (tabulate shape f) ob = true ->
  Forall2 (fun xi b => within (f xi) b = true) (all_assts shape) ob.
Proof.
  unfold cells_ok, tabulate. rewrite andb_true_iff, Nat.eqb_eq, map_length. generalize (all_assts shape). intros l [Hlen Hall].
  revert ob Hlen Hall. induction l as [|xi l IH]; intros [|b ob] Hlen Hall; try discriminate; constructor.
  - cbn [map combine forallb fst snd] in Hall. apply andb_true_iff in Hall. tauto.
  - apply IH; [cbn in Hlen; lia|]. cbn [map combine forallb] in Hall. apply andb_true_iff in Hall. tauto.
Qed.

Theorem sp_check_sound gw ws obs :
  sp_check o of_wire within eqb (gw, ws, obs) = 0 ->
  let G := grammar_of_w gw in
  let Wt := env_of o (weights_tmt of_wire G ws) in
  wf_grammar G = true
  /\ forall X, is_term G X = false ->
       exists ob, obs_get obs X = Some ob
                  /\ Forall2 (fun xi b => within (Zk o G Wt (length (nonterminals G)) X xi) b = true)
                             (all_assts (lshape G X)) ob.
Proof.
  unfold sp_check. cbn zeta. set (G := grammar_of_w gw).
  destruct (wf_grammar G) eqn:Hwf; [|discriminate]. cbn [negb].
  destruct (scc (nt_graph G)) as [order|]; [|discriminate].
  destruct (nonrecursive_order G order); [|discriminate]. cbn [negb].
  set (w := weights_tmt of_wire G ws). intros Hworst. split; trivial.
  intros X HX. pose proof (nonterminal_In G X HX) as HXin.
  pose proof (worst_zero _ Hworst) as Hz.
  specialize (Hz _ (in_map _ _ X HXin)). cbn beta in Hz.
  destruct (obs_get obs X) as [ob|]; [|discriminate].
  destruct (length (nonterminals G)) as [|n] eqn:EN.
  { apply length_zero_iff_nil in EN. rewrite EN in HXin. destruct HXin. }
  rewrite !tmt_get_tget in Hz. cbn [Ztab] in Hz.
  rewrite (tget_map_In (fun X => tabulate (lshape G X) (step o G (env_of o w) (env_of o (Ztab o G (env_of o w) n)) X)))
    in Hz by exact HXin.
  destruct (tget (sum_products_nonrec o G w order) X) as [mt|]; [|discriminate].
  destruct (tables_eq eqb mt _); [|discriminate]. cbn [negb] in Hz.
  destruct (cells_ok within _ ob) eqn:Hc; [|discriminate].
  exists ob. split; trivial. apply cells_ok_tabulate in Hc.
  assert (Hall : forall xi, In xi (all_assts (lshape G X)) ->
                   step o G (env_of o w) (env_of o (Ztab o G (env_of o w) n)) X xi = Zk o G (env_of o w) (S n) X xi).
  { intros xi Hxi. rewrite <- (Ztab_is_Zk o G Hwf (env_of o w) (S n) X xi HX Hxi).
    cbn [Ztab]. rewrite env_of_tget.
    rewrite (tget_map_In (fun X => tabulate (lshape G X) (step o G (env_of o w) (env_of o (Ztab o G (env_of o w) n)) X)))
      by exact HXin.
    now rewrite (tab_get_tabulate o). }
  clear Hz. revert Hc Hall. generalize (all_assts (lshape G X)). intros l Hc. induction Hc as [|xi b l ob' Hxb _ IH]; intros Hall; constructor.
  - rewrite <- Hall by now left. exact Hxb.
  - apply IH. intros xi' Hxi'. apply Hall. now right.
Qed.
End CheckSound.

(** Bool: verdict 0 means the observed table IS the table of the Kleene iterate *)
Corollary sp_check_bool_sound gw ws obs :
  sp_check_bool (gw, ws, obs) = 0 ->
  let G := grammar_of_w gw in
  forall X, is_term G X = false ->
    exists ob, obs_get obs X = Some ob
               /\ ob = map (Zk bool_ops G (env_of bool_ops (weights_tmt (fun b : bool => b) G ws)) (length (nonterminals G)) X)
                           (all_assts (lshape G X)).
Proof.
  intros H G X HX. destruct (sp_check_sound bool_ops (fun b : bool => b) Bool.eqb Bool.eqb gw ws obs H) as [_ Hs].
  destruct (Hs X HX) as (ob & Hob & Hall). exists ob. split; trivial. fold G in Hall.
  clear -Hall. induction Hall as [|xi b l ob Hxb _ IH]; [reflexivity|]. cbn [map]. f_equal; trivial.
  symmetry. now apply eqb_prop.
Qed.
