(** The extracted representation-invariant oracle [repr_inv_b] is sound: a tensor that passes it
    is well formed ([wf]: physical axes distinct and exactly the free axes of the pattern), hence
    its index map is injective (at most one backing element per virtual element) and [to_dense]
    computes its denotation. *)
From Coq Require Import List Arith Lia PeanoNat Bool PArith.
Import ListNotations.
Require Import Fggs.Model.Axis Fggs.Model.AxisCheck Fggs.Model.PTensor.
Require Import Fggs.Proofs.Axis_sem Fggs.Proofs.PTensor_sem Fggs.Proofs.PTensor_dense.

Lemma pn_eqb_eq a b : pn_eqb a b = true <-> a = b.
Proof.
  destruct a as [k n], b as [k' n']. unfold pn_eqb. simpl. rewrite andb_true_iff, Pos.eqb_eq, Nat.eqb_eq.
  split; [intros [-> ->]; reflexivity|intros H; inversion H; auto].
Qed.

Lemma memb_In {A} (eqb : A -> A -> bool) (Heq : forall a b, eqb a b = true <-> a = b) x l :
  memb eqb x l = true <-> In x l.
Proof.
  unfold memb. rewrite existsb_exists. split.
  - intros (y & Hy & E). apply Heq in E. subst. exact Hy.
  - intros H. exists x. split; [exact H|apply Heq; reflexivity].
Qed.

Lemma seteq_In {A} (eqb : A -> A -> bool) (Heq : forall a b, eqb a b = true <-> a = b) l l' :
  seteq eqb l l' = true -> forall x, In x l <-> In x l'.
Proof.
  unfold seteq, subset. intros H x. apply andb_true_iff in H. destruct H as [H1 H2].
  rewrite forallb_forall in H1, H2. split; intros Hx.
  - apply (memb_In eqb Heq). apply H1. exact Hx.
  - apply (memb_In eqb Heq). apply H2. exact Hx.
Qed.

Lemma nodup_pos_NoDup l : nodup_pos l = true -> NoDup l.
Proof.
  induction l as [|k l IH]; simpl; intros H; constructor.
  - apply andb_true_iff in H. destruct H as [H _]. apply negb_true_iff in H. intros Hin.
    assert (existsb (Pos.eqb k) l = true); [|congruence].
    apply existsb_exists. exists k. split; [exact Hin|apply Pos.eqb_refl].
  - apply IH. apply andb_true_iff in H. tauto.
Qed.

(** in a size-consistent list every occurrence of a key carries the same size *)
Lemma sizes_consistent_spec l : sizes_consistent l = true ->
  forall k n n', In (k, n) l -> In (k, n') l -> n = n'.
Proof.
  induction l as [|[k0 n0] l IH]; simpl; intros H k n n' H1 H2; [contradiction|].
  apply andb_true_iff in H. destruct H as [Hc Hl]. rewrite forallb_forall in Hc.
  assert (Q : forall m, In (k0, m) l -> m = n0).
  { intros m Hm. specialize (Hc _ Hm). simpl in Hc. rewrite Pos.eqb_refl in Hc. simpl in Hc. apply Nat.eqb_eq in Hc. exact Hc. }
  destruct H1 as [H1|H1], H2 as [H2|H2].
  - congruence.
  - inversion H1; subst. symmetry. apply Q. exact H2.
  - inversion H2; subst. apply Q. exact H1.
  - eapply IH; eauto.
Qed.

(** [dedup] keeps exactly the first occurrence of every unseen key *)
Lemma dedup_In_sub seen l x : In x (dedup seen l) -> In x l.
Proof.
  revert seen. induction l as [|[k n] l IH]; intros seen H; [contradiction|]. simpl in H.
  destruct (existsb (Pos.eqb k) seen); [right; eauto|]. destruct H as [H|H]; [left; exact H|right; eauto].
Qed.

Lemma dedup_keys seen l k n : In (k, n) l -> existsb (Pos.eqb k) seen = false -> exists n', In (k, n') (dedup seen l).
Proof.
  revert seen. induction l as [|[k0 n0] l IH]; intros seen H Hs; [contradiction|]. simpl.
  destruct (existsb (Pos.eqb k0) seen) eqn:E0.
  - destruct H as [H|H]; [inversion H; subst; congruence|]. apply IH; assumption.
  - destruct H as [H|H]; [inversion H; subst; exists n; left; reflexivity|].
    destruct (Pos.eqb_spec k0 k) as [->|Hne]; [exists n0; left; reflexivity|].
    destruct (IH (k0 :: seen) H) as (n' & Hn'); [simpl; rewrite Hs; destruct (Pos.eqb_spec k k0); [congruence|reflexivity]|].
    exists n'. right. exact Hn'.
Qed.

Section Repr.
Variable V : Type.

Theorem repr_inv_wf (t : ptensor V) psize :
  repr_inv_b psize (paxes t) (vaxes t) = true -> wf V t.
Proof.
  unfold repr_inv_b. intros H. repeat (apply andb_true_iff in H; destruct H as [H ?]).
  rename H0 into Hone, H1 into Hcons, H2 into Hset, H3 into Hnd.
  pose proof (seteq_In pn_eqb pn_eqb_eq _ _ Hset) as S.
  pose proof (sizes_consistent_spec _ Hcons) as C.
  split; [apply nodup_pos_NoDup; exact Hnd|].
  intros k n. split; intros Hk.
  - destruct (dedup_keys [] _ k n Hk eq_refl) as (n' & Hn'). unfold fvn_list in S.
    pose proof (proj2 (S (k, n')) Hn') as Hp.
    assert (n = n'); [|subst; exact Hp].
    apply (C k); apply in_or_app; [right; exact Hk|left; exact Hp].
  - apply S in Hk. unfold fvn_list in Hk. eapply dedup_In_sub; eauto.
Qed.

(** C06: whatever passes the oracle backs each virtual element by at most one physical element *)
Theorem repr_inv_injective (t : ptensor V) psize :
  repr_inv_b psize (paxes t) (vaxes t) = true ->
  forall pi1 pi2, In pi1 (all_envs (paxes t)) -> In pi2 (all_envs (paxes t)) ->
    evals (env_of pi1) (vaxes t) = evals (env_of pi2) (vaxes t) ->
    forall k, In k (map fst (paxes t)) -> env_of pi1 k = env_of pi2 k.
Proof.
  intros H pi1 pi2 H1 H2 E k Hk. pose proof (repr_inv_wf t psize H) as W.
  apply (pattern_injective (vaxes t)); try exact E.
  - apply (wf_inrange V t pi1 W H1).
  - apply (wf_inrange V t pi2 W H2).
  - apply (wf_covers V t W). exact Hk.
Qed.

End Repr.

Example repr_inv_ex :
  repr_inv_b [2; 3] [(1%positive, 2); (2%positive, 3)]
             [Prod [Phys 1 2; Phys 2 3]; Phys 1 2; Sum 1 (Phys 2 3) 0] = true.
Proof. reflexivity. Qed.
