(** Small corollaries quoted by Props/C15.v. *)
From Coq Require Import List Arith Bool PeanoNat.
Import ListNotations.
Require Import Fggs.Model.Replace Fggs.Proofs.Replace_nodup Fggs.Proofs.Replace_confl Fggs.Proofs.Replace_derive
  Fggs.Proofs.Replace_examples.

Lemma derive_is_a_linearisation : forall L t nx,
  wf_dtreeb L t = true -> functionalb L = true ->
  exists rs, run (preorder [] t) (init_state t nx) = Ok rs /\ rs_pending rs = [] /\
             derive_model t nx = (mkDS (rs_graph rs) (rs_next rs) (rs_asst rs), None).
Proof.
  intros L t nx H1 H2. destruct (derive_is_preorder_run L t nx H1 H2) as [rs [A [B [_ C]]]].
  exists rs. auto.
Qed.

Lemma derived_names_distinct : forall L t, wf_dtreeb L t = true ->
  NoDup (map fst (d_nodes (derived_graph t))) /\ NoDup (map (fun x => fst (fst x)) (d_edges (derived_graph t))).
Proof. intros L t H. split; [exact (derived_nodes_nodup L t H) | exact (derived_edges_nodup L t H)]. Qed.

Lemma examples_main :
  (wf_dtreeb xL xtree = true /\ functionalb xL = true /\ tsize xtree = 4) /\
  xcheck = true /\ xbad = true /\ xderive = true.
Proof.
  split; [exact xtree_wf|]. split; [exact xtree_two_orders|]. split; [exact xtree_bad_sequence|exact xtree_derive].
Qed.
