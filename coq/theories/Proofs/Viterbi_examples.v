(** C04: the hypotheses of the theorems of Proofs/Viterbi_proofs.v are satisfiable.
    A recursive grammar with a weight-0 cycle listed BEFORE the base rule (the shape of finding F6):

      labels  0: S (nonterminal, type [])     1: T (nonterminal, type [d])
              2: f (terminal, type [d])       3: g (terminal, type [d]),   |d| = 2
      rule 0: S    -> x:d (internal);  T(x)
      rule 1: T(x) -> T(x) g(x)          g = [0, 0]      (a cycle of log-weight 0)
      rule 2: T(x) -> f(x)               f = [-2, -1]

    The optimum at the start symbol is -1, attained by x = 1 and the base rule; going round the
    cycle any number of times ties.  Everything is evaluated by vm_compute. *)
From Coq Require Import QArith Qcanon List Arith Bool PeanoNat.
Import ListNotations.
Require Import Fggs.Model.Semiring Fggs.Model.SCC Fggs.Model.SumProduct Fggs.Model.SumProductCheck
               Fggs.Model.Kleene Fggs.Model.EReal Fggs.Model.Trop Fggs.Model.Viterbi.
Require Import Fggs.Proofs.SP_trees Fggs.Proofs.Viterbi_trop Fggs.Proofs.Viterbi_proofs.
Local Open Scope nat_scope.

Definition ex_gw : grammar_w :=
  ([2],
   [(false, []); (false, [0]); (true, [0]); (true, [0])],
   [(0, [0], [(1, [0])], []);
    (1, [0], [(1, [0]); (3, [0])], [0]);
    (1, [0], [(2, [0])], [0])],
   0).
Definition ex_ws : list (nat * list (nat * Q)) :=
  [(2, [(1, (-2) # 1); (1, (-1) # 1)]); (3, [(1, 0 # 1); (1, 0 # 1)])].
Definition ex_G : grammar := grammar_of_w ex_gw.
Definition ex_w : env (R:=trop) := env_of trop_ops (weights_tmt trop_of ex_G ex_ws).

(** the optimal derivation that uses the base rule directly ... *)
Definition ex_t : dtree := DT 0 [1] [Some (DT 2 [1] [None])].
(** ... one that goes round the weight-0 cycle once (same weight) ... *)
Definition ex_t_cycle : dtree := DT 0 [1] [Some (DT 1 [1] [Some (DT 2 [1] [None]); None])].
(** ... a well-formed but suboptimal one (x = 0) ... *)
Definition ex_t_sub : dtree := DT 0 [0] [Some (DT 2 [0] [None])].
(** ... and ill-formed ones: the child's external node disagrees with the parent; a missing child *)
Definition ex_t_bad1 : dtree := DT 0 [1] [Some (DT 2 [0] [None])].
Definition ex_t_bad2 : dtree := DT 0 [1] [None].

Definition ex_m1 : nat * Q := (1, (-1) # 1).

Example ex_wf_grammar : wf_grammar ex_G = true.
Proof. vm_compute. reflexivity. Qed.

Example ex_wf : wf_dtree_b ex_G 0 [] ex_t = true /\ wf_dtree_b ex_G 0 [] ex_t_cycle = true
                /\ wf_dtree_b ex_G 0 [] ex_t_sub = true
                /\ wf_dtree_b ex_G 0 [] ex_t_bad1 = false /\ wf_dtree_b ex_G 0 [] ex_t_bad2 = false.
Proof. vm_compute. repeat split. Qed.

(** C04_wf_reflect applies: the Prop holds for the accepted trees and fails for the rejected ones *)
Example ex_wf_prop : wf_dtree ex_G 0 [] ex_t /\ wf_dtree ex_G 0 [] ex_t_cycle /\ ~ wf_dtree ex_G 0 [] ex_t_bad1.
Proof.
  split; [apply wf_reflect; vm_compute; reflexivity|].
  split; [apply wf_reflect; vm_compute; reflexivity|].
  intros H. apply wf_reflect in H. vm_compute in H. discriminate.
Qed.

Example ex_depths : Viterbi.depth ex_t = 2 /\ Viterbi.depth ex_t_cycle = 3.
Proof. vm_compute. split; reflexivity. Qed.

Example ex_weights :
  teqb (weight trop_ops ex_G ex_w ex_t) (trop_of ex_m1) = true
  /\ teqb (weight trop_ops ex_G ex_w ex_t_cycle) (trop_of ex_m1) = true
  /\ teqb (weight trop_ops ex_G ex_w ex_t_sub) (trop_of (1, (-2) # 1)) = true.
Proof. vm_compute. repeat split. Qed.

(** the hypothesis of C04_optimal: the exact enclosure succeeds (K = 2 rounds of 4 Kleene steps)
    and the optimum at the start symbol is -1, at T it is f itself *)
Example ex_enclosure :
  match enclosure trop_ops (fun x => x) (fun x => x) tleb ex_G ex_w 2 with
  | Some (lo, u) =>
    teqb (env_of trop_ops lo 0 []) (trop_of ex_m1)
    && teqb (env_of trop_ops lo 1 [0]) (trop_of (1, (-2) # 1))
    && teqb (env_of trop_ops lo 1 [1]) (trop_of ex_m1)
  | None => false
  end = true.
Proof. vm_compute. reflexivity. Qed.

Example ex_enclosure_some :
  exists lo u, enclosure trop_ops (fun x => x) (fun x => x) tleb ex_G ex_w 2 = Some (lo, u).
Proof.
  destruct (enclosure trop_ops (fun x => x) (fun x => x) tleb ex_G ex_w 2) as [[lo u]|] eqn:E.
  - exists lo, u. reflexivity.
  - exfalso. pose proof ex_enclosure as H. rewrite E in H. discriminate.
Qed.

(** hence, by C04_optimal, -1 bounds the weight of every derivation of S (of any depth: the
    infinitely many trees that go round the cycle included) *)
Example ex_all_trees_below : forall t, wf_dtree ex_G 0 [] t -> tle (weight trop_ops ex_G ex_w t) (trop_of ex_m1).
Proof.
  intros t Ht. destruct ex_enclosure_some as (lo & u & E).
  destruct (trop_optimal ex_G ex_w 2 lo u ex_wf_grammar E) as [Hup _].
  pose proof ex_enclosure as H. rewrite E in H.
  apply andb_true_iff in H as [H _]. apply andb_true_iff in H as [H _]. apply vt_teqb_iff in H.
  rewrite <- H. apply Hup. exact Ht.
Qed.

(** the hypothesis of C04_check_sound: the check accepts the base-rule derivation and the one
    through the cycle (ties are acceptable), with derive()'s weight -1 and sum_product in [-1, -1] *)
Example ex_check_accepts :
  vit_check (ex_gw, ex_ws, [], 2, (0, ex_t, ex_m1, (ex_m1, ex_m1))) = 0
  /\ vit_check (ex_gw, ex_ws, [], 2, (0, ex_t_cycle, ex_m1, (ex_m1, ex_m1))) = 0.
Proof. vm_compute. split; reflexivity. Qed.

(** ... and rejects: a suboptimal derivation (6), an ill-formed one (5), a wrong derive() weight (7),
    a wrong sum_product value (8), an exception although the optimum is finite (1) *)
Example ex_check_rejects :
  vit_check (ex_gw, ex_ws, [], 2, (0, ex_t_sub, (1, (-2) # 1), (ex_m1, ex_m1))) = 6
  /\ vit_check (ex_gw, ex_ws, [], 2, (0, ex_t_bad1, ex_m1, (ex_m1, ex_m1))) = 5
  /\ vit_check (ex_gw, ex_ws, [], 2, (0, ex_t, (1, (-2) # 1), (ex_m1, ex_m1))) = 7
  /\ vit_check (ex_gw, ex_ws, [], 2, (0, ex_t, ex_m1, ((1, (-3) # 1), (1, (-2) # 1)))) = 8
  /\ vit_check (ex_gw, ex_ws, [], 2, (1, ex_t, ex_m1, (ex_m1, ex_m1))) = 1.
Proof. vm_compute. repeat split. Qed.

(** C04_weight_is_product on the cycle derivation: three rule instances, two factor entries *)
Example ex_flatten :
  flatten ex_t_cycle = [(0, [1]); (1, [1]); (2, [1])]
  /\ tree_factors ex_G ex_t_cycle = [(3, [1]); (2, [1])].
Proof. vm_compute. split; reflexivity. Qed.
