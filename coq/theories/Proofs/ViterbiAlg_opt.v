(** C04, code-shaped model: the value tables computed by [viterbi_tables] are the least fixed
    point of the grammar's equations in the Viterbi semiring, so the derivation returned by
    [viterbi_model] is optimal.

    - [fold_below] (no convergence needed): the tables are below every pre-fixed point of
      [step] (each pass applies the component's equations to values already below it);
    - [fold_prefixed]: when every component's loop ended STABLE (two equal iterates, or trivial)
      and the components come in dependency order, the tables are a pre-fixed point
      (the max over the candidates of the arg-max = the max over all assignments, because a
      node without edges does not affect the product);
    - hence (Park, Proofs/SP_mono.v; trees below Kleene iterates, Proofs/Viterbi_proofs.v)
      every well-formed derivation of every nonterminal weighs at most the table's value, and
      [C04_alg_optimal]: the tree [viterbi_model] returns is well formed, weighs the start
      cell's value, and no derivation of the start symbol at that assignment weighs more;
      the tables coincide with the exact [enclosure] of Model/Kleene.v whenever that exists. *)
From Coq Require Import QArith Qcanon List Arith Bool PeanoNat Lia.
Import ListNotations.
Require Import Fggs.Model.Semiring Fggs.Model.SCC Fggs.Model.SumProduct Fggs.Model.SumProductCheck
               Fggs.Model.Kleene Fggs.Model.EReal Fggs.Model.Trop Fggs.Model.Viterbi Fggs.Model.ViterbiAlg.
Require Import Fggs.Proofs.BigSum Fggs.Proofs.SP_mono Fggs.Proofs.SP_trees Fggs.Proofs.SP_rename
               Fggs.Proofs.Kleene_proofs Fggs.Proofs.Kleene_scc
               Fggs.Proofs.Viterbi_trop Fggs.Proofs.Viterbi_proofs Fggs.Proofs.ViterbiAlg_base
               Fggs.Proofs.ViterbiAlg_loop Fggs.Proofs.ViterbiAlg_recon.
Local Open Scope nat_scope.

Local Notation sumT := (sumS trop_ops).
Local Notation prodT := (prodS trop_ops).

(* ------------------------------------------------------------------------- *)
(** * tables as environments *)
Lemma tables_val_lk T l xi : tables_val T l xi = match st_lk T l with Some f => f xi | None => NInf end.
Proof. reflexivity. Qed.
Lemma tables_val_app_l D S X xi nr : aget D X = Some nr -> tables_val (D ++ S) X xi = tables_val D X xi.
Proof. intros H. unfold tables_val, x_val, st_lk. rewrite aget_app, H. reflexivity. Qed.
Lemma tables_val_app_r D S X xi : aget D X = None -> tables_val (D ++ S) X xi = tables_val S X xi.
Proof. intros H. unfold tables_val, x_val, st_lk. rewrite aget_app, H. reflexivity. Qed.
Lemma aget_key_some {A} (l : list (nat * A)) k : In k (map fst l) -> exists v, aget l k = Some v.
Proof.
  induction l as [|[a v] l IH]; [intros []|]. cbn [map fst aget]. intros [->|H].
  - rewrite Nat.eqb_refl. eexists. reflexivity.
  - destruct (Nat.eqb a k); [eexists; reflexivity | apply IH; exact H].
Qed.

(** every assignment is represented among the candidates by the one that agrees with it on
    the external and the attached nodes and carries 0 on the nodes without edges *)
Lemma node_val_agree r xi a v :
  sel a (r_ext r) = xi -> In v (r_ext r) \/ In v (attached r) ->
  node_val r xi (sel a (summed r)) v = nth v a 0.
Proof.
  intros Hxi Hv. unfold node_val. destruct (index_of v (r_ext r)) as [j|] eqn:E1.
  - destruct (index_of_some _ _ _ E1) as [Hj Hnth]. rewrite <- Hxi. unfold sel.
    rewrite (nth_map_lt _ _ _ 0) by exact Hj. rewrite Hnth. reflexivity.
  - apply index_of_none in E1. destruct Hv as [Hv|Hv]; [contradiction|].
    destruct (index_of v (summed r)) as [j|] eqn:E2.
    + destruct (index_of_some _ _ _ E2) as [Hj Hnth]. unfold sel.
      rewrite (nth_map_lt _ _ _ 0) by exact Hj. rewrite Hnth. reflexivity.
    + apply index_of_none in E2. exfalso. apply E2. apply summed_In. split; assumption.
Qed.

Lemma attached_In r ed i : In ed (r_edges r) -> In i (snd ed) -> In i (attached r).
Proof. intros Hed Hi. unfold attached. apply dedup_In. apply in_flat_map. exists ed. split; assumption. Qed.

Lemma zero_iso_cand G r xi a :
  wf_rule G r = true -> In a (all_assts (node_sizes G r)) -> sel a (r_ext r) = xi ->
  In (rebuild r xi (sel a (summed r))) (cands G r xi)
  /\ forall ed, In ed (r_edges r) -> sel (rebuild r xi (sel a (summed r))) (snd ed) = sel a (snd ed).
Proof.
  intros Hwr Ha Hxi. set (a' := rebuild r xi (sel a (summed r))).
  destruct (wf_rule_lhs G r Hwr) as (_ & _ & Hext & _).
  assert (Hlen : length (node_sizes G r) = length (r_nodes r)) by (unfold node_sizes; apply map_length).
  assert (Hsel : forall idxs, (forall i, In i idxs -> i < length (r_nodes r) /\ (In i (r_ext r) \/ In i (attached r))) ->
                              sel a' idxs = sel a idxs).
  { intros idxs H. unfold sel. apply map_ext_in. intros i Hi. destruct (H i Hi) as [Hi1 Hi2].
    unfold a'. rewrite (rebuild_nth _ _ _ _ Hi1). apply node_val_agree; assumption. }
  assert (Hext' : sel a' (r_ext r) = xi).
  { rewrite <- Hxi. apply Hsel. intros i Hi. rewrite Forall_forall in Hext. split; [apply Hext; exact Hi | left; exact Hi]. }
  split.
  - apply rebuild_in_cands; [|exact Hext'].
    apply all_assts_intro; [unfold a'; rewrite rebuild_length; symmetry; exact Hlen|].
    intros v Hv. rewrite Hlen in Hv. pose proof (all_assts_nth _ _ v Ha ltac:(lia)) as Hav.
    unfold a'. rewrite (rebuild_nth _ _ _ _ Hv). unfold node_val.
    destruct (index_of v (r_ext r)) as [j|] eqn:E1.
    + destruct (index_of_some _ _ _ E1) as [Hj Hnth]. rewrite <- Hxi. unfold sel.
      rewrite (nth_map_lt _ _ _ 0) by exact Hj. rewrite Hnth. exact Hav.
    + destruct (index_of v (summed r)) as [j|] eqn:E2; [|lia].
      destruct (index_of_some _ _ _ E2) as [Hj Hnth]. unfold sel.
      rewrite (nth_map_lt _ _ _ 0) by exact Hj. rewrite Hnth. exact Hav.
  - intros ed Hed. apply Hsel. intros i Hi. destruct (wf_rule_edge G r ed Hwr Hed) as (_ & Hidx & _).
    rewrite Forall_forall in Hidx. split; [apply Hidx; exact Hi | right; apply (attached_In r ed i Hed Hi)].
Qed.

(* ------------------------------------------------------------------------- *)
Section Opt.
Variables (G : grammar) (w : env (R:=trop)).
Hypothesis Hwf : wf_grammar G = true.

Local Notation stepT := (step trop_ops G w).
Local Notation tleon := (env_le_on trop_ops G).

(** the environment [step] evaluates a rule in *)
Definition ek (x : env (R:=trop)) : env (R:=trop) := fun l => if is_term G l then w l else x l.

Lemma step_nt x X xi : is_term G X = false ->
  stepT x X xi = sumT (rules_of G X) (fun r => rule_val trop_ops G (ek x) r xi).
Proof. intros H. unfold step. rewrite H. reflexivity. Qed.

Lemma edge_label_nt r ed : In r (g_rules G) -> In ed (r_edges r) -> is_term G (fst ed) = false ->
  In (fst ed) (nonterminals G).
Proof.
  intros Hr Hed Ht. destruct (wf_rule_edge G r ed (wf_grammar_rule G r Hwf Hr) Hed) as (Hl & _ & _).
  apply in_nonterminals. split; assumption.
Qed.

(** ** below every pre-fixed point *)
Definition below (T : cst) (v : env (R:=trop)) : Prop :=
  forall X xi, In X (nonterminals G) -> In xi (all_assts (lshape G X)) -> tle (tables_val T X xi) (v X xi).

Section Below.
Variable v : env (R:=trop).
Hypothesis Hv : tleon (stepT v) v.

Lemma comp_below done comp :
  below done v -> (forall n, In n comp -> In n (nonterminals G)) ->
  forall k n xi, In n comp -> In xi (all_assts (lshape G n)) -> tle (rho G w done comp k n xi) (v n xi).
Proof.
  intros Hdone Hnt. induction k as [|k IH]; intros n xi Hn Hxi; [exact I|].
  rewrite (rho_step G w done comp k n xi Hn Hxi).
  apply vt_tle_trans with (stepT v n xi); [|apply Hv; [apply Hnt; exact Hn | exact Hxi]].
  pose proof (proj2 (proj1 (in_nonterminals G n) (Hnt n Hn))) as Htn.
  rewrite (step_nt v n xi Htn). unfold Fval.
  apply (sumS_mono trop_ops vt_trop_ordered). intros r Hr.
  unfold rule_max. apply sumT_lub. intros a Ha. apply in_cands in Ha. destruct Ha as (Ha & Hext & _).
  apply vt_tle_trans with (prodT (r_edges r) (fun ed => ek v (fst ed) (sel a (snd ed)))).
  - apply edges_prod_mono. intros ed Hed. unfold ViterbiAlg_loop.E, sem_env, ek.
    destruct (is_term G (fst ed)) eqn:Ht; [apply vt_tle_refl|].
    pose proof (query_range G Hwf n r ed a Hr Hed Ha) as Hrange.
    assert (HNT : In (fst ed) (nonterminals G)).
    { apply (edge_label_nt r ed); [apply in_rules_of in Hr; tauto | exact Hed | exact Ht]. }
    destruct (st_lk done (fst ed)) as [f|] eqn:Hlk.
    + specialize (Hdone (fst ed) (sel a (snd ed)) HNT Hrange). rewrite tables_val_lk, Hlk in Hdone. exact Hdone.
    + destruct (in_dec Nat.eq_dec (fst ed) comp) as [Hc|Hc]; [apply IH; assumption|].
      rewrite (rho_out G w done comp _ _ _ Hc). exact I.
  - unfold rule_val.
    apply (in_le_sumT (filter (fun a => nat_list_eqb (sel a (r_ext r)) xi) (all_assts (node_sizes G r)))
                      (fun a => prodT (r_edges r) (fun ed => ek v (fst ed) (sel a (snd ed)))) a).
    apply filter_In. split; [exact Ha | apply SP_mono.nat_list_eqb_iff; exact Hext].
Qed.

Lemma comp_model_viter tol kmax done comp st c :
  comp_model false G w tol kmax done comp = Some (st, c) ->
  exists M, 1 <= M /\ viter G w done comp M = Some st.
Proof.
  unfold comp_model. destruct (trivial_comp G comp).
  - intros H. injection H as <- _. exists 1. split; [lia | reflexivity].
  - intros H. destruct (vloop_spec G w done comp tol kmax 0 None st c H) as [C|(K & _ & Hst & _)]; [discriminate|].
    exists (S K). split; [lia | exact Hst].
Qed.

Lemma fold_below tol kmax : forall order done b T b',
  below done v -> (forall n, In n (concat order) -> In n (nonterminals G)) ->
  fold_left (tstep G w tol kmax) order (Some (done, b)) = Some (T, b') -> below T v.
Proof.
  induction order as [|comp order IH]; intros done b T b' Hdone Hnt H; cbn [fold_left] in H.
  - injection H as <- _. exact Hdone.
  - unfold tstep at 2 in H. destruct (comp_model false G w tol kmax done comp) as [[st c]|] eqn:Hcm;
      [|rewrite fold_none in H; discriminate].
    cbn [concat] in Hnt.
    apply (IH (done ++ st) (b && c) T b'); [| intros n Hn; apply Hnt; apply in_or_app; right; exact Hn | exact H].
    destruct (comp_model_viter _ _ _ _ _ _ Hcm) as (M & _ & HM).
    intros X xi HX Hxi. destruct (aget done X) as [nr|] eqn:Hg.
    + rewrite (tables_val_app_l _ _ _ _ _ Hg). apply Hdone; assumption.
    + rewrite (tables_val_app_r _ _ _ _ Hg).
      assert (Hr : tables_val st X xi = rho G w done comp M X xi) by (unfold rho; rewrite HM; reflexivity).
      rewrite Hr. destruct (in_dec Nat.eq_dec X comp) as [Hc|Hc].
      * apply comp_below; [exact Hdone | intros n Hn; apply Hnt; apply in_or_app; left; exact Hn | exact Hc | exact Hxi].
      * rewrite (rho_out G w done comp _ _ _ Hc). exact I.
Qed.
End Below.

(** ** a pre-fixed point *)
Definition agree (D : cst) (x : env (R:=trop)) : Prop :=
  forall X xi, In X (map fst D) -> In xi (all_assts (lshape G X)) -> x X xi = tables_val D X xi.
Definition prefixed (D : cst) : Prop :=
  forall x, agree D x -> forall X xi, In X (map fst D) -> In xi (all_assts (lshape G X)) ->
    tle (stepT x X xi) (tables_val D X xi).

Lemma comp_prefixed done comp M S :
  prefixed done ->
  deps_in G comp (map fst done) -> (forall n, In n comp -> In n (nonterminals G)) ->
  (forall n, In n comp -> ~ In n (map fst done)) ->
  viter G w done comp M = Some S -> stable G w done comp M ->
  prefixed (done ++ S).
Proof.
  intros Hpf Hdeps Hnt Hdisj HS Hst x Hx X xi HX Hxi.
  assert (Hkeys : map fst S = comp) by (apply (viter_keys G w done comp M S HS)).
  assert (HtvS : forall l xj, tables_val S l xj = rho G w done comp M l xj) by (intros; unfold rho; rewrite HS; reflexivity).
  rewrite map_app, Hkeys in HX. destruct (aget done X) as [nr|] eqn:Hg.
  - (* a finished nonterminal *)
    rewrite (tables_val_app_l _ _ _ _ _ Hg). apply Hpf; [|apply (aget_keys _ _ _ Hg) | exact Hxi].
    intros Y yi HY Hyi. destruct (aget_key_some done Y HY) as [nr' Hg'].
    rewrite <- (tables_val_app_l done S Y yi nr' Hg'). apply Hx; [|exact Hyi].
    rewrite map_app. apply in_or_app. left. exact HY.
  - assert (Hc : In X comp).
    { apply in_app_or in HX. destruct HX as [HX|HX]; [|exact HX].
      destruct (aget_key_some done X HX) as [? C]. congruence. }
    rewrite (tables_val_app_r _ _ _ _ Hg), HtvS, <- (Hst X xi Hc Hxi).
    pose proof (proj2 (proj1 (in_nonterminals G X) (Hnt X Hc))) as HtX.
    rewrite (step_nt x X xi HtX). unfold Fval.
    apply (sumS_mono trop_ops vt_trop_ordered). intros r Hr.
    assert (Hwr : wf_rule G r = true) by (apply (wf_grammar_rule G r Hwf); apply in_rules_of in Hr; tauto).
    unfold rule_val. apply sumT_lub. intros a Ha. apply filter_In in Ha. destruct Ha as [Ha Hext].
    apply SP_mono.nat_list_eqb_iff in Hext.
    destruct (zero_iso_cand G r xi a Hwr Ha Hext) as (Hcand & Hsel).
    set (a' := rebuild r xi (sel a (summed r))) in *.
    apply vt_tle_trans with (edges_prod (ViterbiAlg_loop.E G w done comp M) r a').
    + assert (Heq : prodT (r_edges r) (fun ed => ek x (fst ed) (sel a (snd ed)))
                    = edges_prod (ViterbiAlg_loop.E G w done comp M) r a'); [|rewrite Heq; apply vt_tle_refl].
      unfold edges_prod. apply (BigSum.prodS_ext trop_ops). intros ed Hed. rewrite (Hsel ed Hed).
      pose proof (query_range G Hwf X r ed a Hr Hed Ha) as Hrange.
      unfold ek, ViterbiAlg_loop.E, sem_env. destruct (is_term G (fst ed)) eqn:Ht; [reflexivity|].
      destruct (Hdeps X r ed Hc Hr Hed Ht) as [Hl|Hl].
      * (* the component itself *)
        assert (Hgl : aget done (fst ed) = None) by (apply aget_not_key; apply Hdisj; exact Hl).
        rewrite (Hx (fst ed) (sel a (snd ed))); [|rewrite map_app, Hkeys; apply in_or_app; right; exact Hl | exact Hrange].
        rewrite (tables_val_app_r _ _ _ _ Hgl), HtvS. unfold st_lk. rewrite Hgl. reflexivity.
      * (* a finished component *)
        destruct (aget_key_some done (fst ed) Hl) as [nr' Hg'].
        rewrite (Hx (fst ed) (sel a (snd ed))); [|rewrite map_app; apply in_or_app; left; exact Hl | exact Hrange].
        rewrite (tables_val_app_l _ _ _ _ _ Hg'), tables_val_lk.
        destruct (st_lk done (fst ed)); [reflexivity|].
        assert (Hnc : ~ In (fst ed) comp) by (intros C; apply (Hdisj _ C Hl)).
        rewrite (rho_out G w done comp _ _ _ Hnc). reflexivity.
    + unfold rule_max. apply (in_le_sumT (cands G r xi) (edges_prod (ViterbiAlg_loop.E G w done comp M) r) a' Hcand).
Qed.

Lemma prefixed_nil : prefixed [].
Proof. intros x _ X xi []. Qed.

Lemma fold_prefixed tol kmax : forall order done T,
  prefixed done -> dep_ordered G (map fst done) order -> NoDup (map fst done ++ concat order) ->
  fold_left (tstep G w tol kmax) order (Some (done, true)) = Some (T, true) ->
  prefixed T /\ map fst T = map fst done ++ concat order.
Proof.
  induction order as [|comp order IH]; intros done T Hpf Hdep Hnd H; cbn [fold_left] in H.
  - injection H as <-. cbn [concat]. rewrite app_nil_r. split; [exact Hpf | reflexivity].
  - unfold tstep at 2 in H. destruct (comp_model false G w tol kmax done comp) as [[st c]|] eqn:Hcm;
      [|rewrite fold_none in H; discriminate].
    cbn [andb] in H. destruct c; [|apply fold_false in H; discriminate].
    destruct (comp_model_spec G w Hwf _ _ _ _ _ Hcm) as (M & _ & Hvit & Hstab).
    cbn [dep_ordered] in Hdep. destruct Hdep as (Hdeps & Hnt & Hrest). cbn [concat] in Hnd.
    assert (Hkeys : map fst st = comp) by (apply (viter_keys G w done comp M st Hvit)).
    assert (Hdisj : forall n, In n comp -> ~ In n (map fst done)).
    { intros n Hn Hd. apply (proj2 (NoDup_app_inv _ _ Hnd) n Hd). apply in_or_app. left. exact Hn. }
    destruct (IH (done ++ st) T) as (H1 & H2).
    + apply (comp_prefixed done comp M st); assumption.
    + rewrite map_app, Hkeys. exact Hrest.
    + rewrite map_app, Hkeys, <- app_assoc. exact Hnd.
    + exact H.
    + split; [exact H1|]. rewrite H2, map_app, Hkeys, <- app_assoc. reflexivity.
Qed.

(** ** the theorems *)
(** a valid order of components: dependency order, every nonterminal exactly once *)
Definition order_ok (order : list (list nat)) : Prop :=
  dep_ordered G [] order /\ NoDup (concat order) /\ (forall X, In X (nonterminals G) -> In X (concat order)).

Lemma dep_ordered_nts : forall order done, dep_ordered G done order -> forall n, In n (concat order) -> In n (nonterminals G).
Proof.
  induction order as [|c order IH]; intros done H n Hn; [destruct Hn|].
  cbn [dep_ordered] in H. destruct H as (_ & Hc & Hrest). cbn [concat] in Hn.
  apply in_app_or in Hn. destruct Hn as [Hn|Hn]; [apply Hc; exact Hn | apply (IH _ Hrest n Hn)].
Qed.

Theorem tables_lfp order tol kmax T :
  order_ok order -> viterbi_tables G w order tol kmax = Some (T, true) ->
  tleon (stepT (tables_val T)) (tables_val T)
  /\ (forall v : env (R:=trop), tleon (stepT v) v -> tleon (tables_val T) v)
  /\ (forall k, tleon (Zk trop_ops G w k) (tables_val T))
  /\ (forall X xi t, wf_dtree G X xi t -> tle (weight trop_ops G w t) (tables_val T X xi)).
Proof.
  intros (Hdep & Hnd & Hall) H. rewrite viterbi_tables_fold in H.
  destruct (fold_prefixed tol kmax order [] T prefixed_nil Hdep Hnd H) as (Hpf & Hkeys). cbn [map app] in Hkeys.
  assert (Hpre : tleon (stepT (tables_val T)) (tables_val T)).
  { intros X xi HX Hxi. apply Hpf; [intros Y yi _ _; reflexivity | rewrite Hkeys; apply Hall; exact HX | exact Hxi]. }
  assert (Hpark : forall k, tleon (Zk trop_ops G w k) (tables_val T)).
  { apply (park_on trop_ops vt_trop_ring vt_trop_ordered G w (tables_val T) Hwf Hpre). }
  split; [exact Hpre|]. split; [|split; [exact Hpark|]].
  - intros v Hv X xi HX Hxi.
    apply (fold_below v Hv tol kmax order [] true T true); [intros Y yi _ _; exact I | | exact H | exact HX | exact Hxi].
    apply (dep_ordered_nts order [] Hdep).
  - intros X xi t Ht. destruct (wf_dtree_in_range G X xi t Hwf Ht) as (HX & Hxi).
    apply vt_tle_trans with (Zk trop_ops G w (Viterbi.depth t) X xi).
    + apply trop_tree_weight_below_kleene_wf; assumption.
    + apply Hpark; assumption.
Qed.

(** C04_alg_optimal *)
Theorem alg_optimal order tol kmax T xi :
  order_ok order -> viterbi_tables G w order tol kmax = Some (T, true) ->
  In xi (all_assts (lshape G (g_start G))) -> tfin (tables_val T (g_start G) xi) ->
  exists t, viterbi_model G w order xi tol kmax = Some t
    /\ wf_dtree G (g_start G) xi t
    /\ weight trop_ops G w t = tables_val T (g_start G) xi
    /\ (forall t', wf_dtree G (g_start G) xi t' -> tle (weight trop_ops G w t') (weight trop_ops G w t))
    /\ (forall k, tle (Zk trop_ops G w k (g_start G) xi) (weight trop_ops G w t))
    /\ (forall K lo u, enclosure trop_ops (fun x => x) (fun x => x) tleb G w K = Some (lo, u) ->
                       weight trop_ops G w t = env_of trop_ops lo (g_start G) xi).
Proof.
  intros Hok H Hxi Hfin. pose proof Hok as (Hdep & Hnd & Hall).
  destruct (tables_lfp order tol kmax T Hok H) as (Hpre & Hleast & Hpark & Htrees).
  destruct (tables_recok G w Hwf order tol kmax T Hnd H (g_start G) xi Hxi Hfin (fuel_bound order kmax))
    as (t & Ht & Hwt & Hwe); [unfold fuel_bound; lia|].
  assert (HS : In (g_start G) (nonterminals G)) by (apply (wf_dtree_in_range G _ _ _ Hwf Hwt)).
  exists t. split.
  - unfold viterbi_model, viterbi_gen. fold (viterbi_tables G w order tol kmax). rewrite H.
    rewrite (all_assts_length _ _ Hxi). unfold lshape. rewrite map_length, Nat.eqb_refl. exact Ht.
  - split; [exact Hwt|]. split; [exact Hwe|]. rewrite Hwe. split; [intros t' Ht'; apply Htrees; exact Ht'|].
    split; [intros k; apply Hpark; assumption|].
    intros K lo u He.
    destruct (enclosure_exact trop_ops vt_trop_ring vt_trop_ordered tleb tleb_sound' G w K lo u Hwf He)
      as (_ & Hfix & Hlo_least & Hlo_up & (j & _ & Hj)).
    apply vt_tle_antisym.
    + apply Hleast; [|exact HS | exact Hxi]. intros X yi HX Hyi. rewrite (Hfix X yi HX Hyi). apply vt_tle_refl.
    + rewrite (Hj _ _ HS Hxi). apply Hpark; assumption.
Qed.
End Opt.
