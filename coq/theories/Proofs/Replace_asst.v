(** The assignment accumulated along a run: values never change, every node gets a value,
    pending tasks stay glued consistently. *)
From Coq Require Import List Arith Bool PeanoNat Lia Permutation.
Import ListNotations.
Require Import Fggs.Model.Replace Fggs.Proofs.Replace_base Fggs.Proofs.Replace_wf Fggs.Proofs.Replace_explicit
  Fggs.Proofs.Replace_spec Fggs.Proofs.Replace_model_spec Fggs.Proofs.Replace_inv Fggs.Proofs.Replace_step
  Fggs.Proofs.Replace_nodup Fggs.Proofs.Replace_confl.

Lemma glue_okb_spec : forall a att ac ext, glue_okb a att ac ext = true <->
  forall g v, In (g, v) (combine att ext) ->
    exists x, aget node_eqb a g = Some x /\ aget node_eqb ac v = Some x.
Proof.
  induction att as [|g att IH]; intros ac ext.
  - simpl. split; auto. intros _ g v [].
  - destruct ext as [|v ext].
    + simpl. split; auto. intros _ g0 v0 [].
    + cbn [glue_okb combine]. split.
      * intros H g0 v0 [E|Hin].
        -- inversion E; subst. destruct (aget node_eqb a g0); try discriminate.
           destruct (aget node_eqb ac v0); try discriminate. apply andb_true_iff in H. destruct H as [H _].
           apply Nat.eqb_eq in H. subst. eauto.
        -- destruct (aget node_eqb a g); try discriminate. destruct (aget node_eqb ac v); try discriminate.
           apply andb_true_iff in H. destruct H as [_ H]. apply (proj1 (IH ac ext) H); auto.
      * intros H. destruct (H g v (or_introl eq_refl)) as [x [-> ->]]. rewrite Nat.eqb_refl. simpl.
        apply IH. intros g0 v0 Hin. apply H. simpl; auto.
Qed.

Lemma assign_nodes_spec : forall nm a vs acc,
  (forall v, In v vs -> (exists g, aget node_eqb nm v = Some g) /\ exists x, aget node_eqb a v = Some x) ->
  (forall v1 v2, In v1 vs -> In v2 vs -> gn nm v1 = gn nm v2 -> aget node_eqb a v1 = aget node_eqb a v2) ->
  (forall v y, In v vs -> aget node_eqb acc (gn nm v) = Some y -> aget node_eqb a v = Some y) ->
  exists acc', assign_nodes nm a vs acc = (acc', None) /\
    (forall v, In v vs -> aget node_eqb acc' (gn nm v) = aget node_eqb a v) /\
    (forall g, (forall v, In v vs -> gn nm v <> g) -> aget node_eqb acc' g = aget node_eqb acc g) /\
    (forall g y, aget node_eqb acc g = Some y -> aget node_eqb acc' g = Some y).
Proof.
  induction vs as [|v vs IH]; intros acc HT HC HA.
  - exists acc. simpl. repeat split; auto. intros v [].
  - destruct (HT v (or_introl eq_refl)) as [[g Hg] [x Hx]].
    assert (Gv : gn nm v = g) by (unfold gn; rewrite Hg; auto).
    cbn [assign_nodes]. rewrite Hg, Hx.
    destruct (IH (aset node_eqb acc g x)) as [acc' [E [P1 [P2 P3]]]].
    + intros; apply HT; simpl; auto.
    + intros; apply HC; simpl; auto.
    + intros v' y Hv' Hy. destruct (node_eqb g (gn nm v')) eqn:Eg.
      * apply node_eqb_eq in Eg. rewrite <- Eg in Hy. rewrite (aget_aset_same node_eqb node_eqb_eq) in Hy.
        inversion Hy; subst. rewrite <- Hx. apply HC; simpl; auto; try congruence.
      * apply (eqb_false_gen node_eqb node_eqb_eq) in Eg.
        rewrite (aget_aset_other node_eqb node_eqb_eq) in Hy by auto. apply HA; simpl; auto.
    + exists acc'. split; auto. split; [|split].
      * intros v0 [<-|Hv0]; auto. rewrite Gv, Hx. apply P3. apply (aget_aset_same node_eqb node_eqb_eq).
      * intros g0 Hg0. rewrite P2 by (intros; apply Hg0; simpl; auto).
        apply (aget_aset_other node_eqb node_eqb_eq). rewrite <- Gv. apply Hg0; simpl; auto.
      * intros g0 y Hy. apply P3. destruct (node_eqb g g0) eqn:Eg.
        -- apply node_eqb_eq in Eg. subst g0. rewrite (aget_aset_same node_eqb node_eqb_eq).
           rewrite <- Gv in Hy. specialize (HA v y (or_introl eq_refl) Hy). congruence.
        -- apply (eqb_false_gen node_eqb node_eqb_eq) in Eg.
           rewrite (aget_aset_other node_eqb node_eqb_eq) by auto. auto.
Qed.

Definition all_valued (a : asst_t) (g : graph) : Prop := forall v, In v (g_nodes g) -> amem node_eqb a v = true.
Definition task_glued (a : asst_t) (tk : task) : Prop :=
  glue_okb a (e_att (tk_edge tk)) (t_asst (tk_tree tk)) (g_ext (r_rhs (t_rule (tk_tree tk)))) = true.

Record InvA (s : rstate) : Prop := {
  A_keys : forall v, amem node_eqb (rs_asst s) v = true -> In v (g_nodes (rs_graph s));
  A_phase :
    (rs_asst s = [] /\ exists tk, rs_pending s = [tk] /\ g_nodes (rs_graph s) = e_att (tk_edge tk) /\
                                  NoDup (e_att (tk_edge tk)))
    \/ (all_valued (rs_asst s) (rs_graph s) /\ forall tk, In tk (rs_pending s) -> task_glued (rs_asst s) tk) }.

Lemma combine_swap : forall {A B} (l1 : list A) (l2 : list B) a b, In (a, b) (combine l1 l2) -> In (b, a) (combine l2 l1).
Proof.
  induction l1; destruct l2; simpl; intros; try tauto.
  destruct H as [H|H]; [inversion H; subst; auto | right; auto].
Qed.

Lemma combine_map_l_In : forall {A B C} (f : A -> C) (l1 : list A) (l2 : list B) c b,
  In (c, b) (combine (map f l1) l2) -> exists a, c = f a /\ In (a, b) (combine l1 l2).
Proof.
  induction l1; destruct l2; simpl; intros; try tauto.
  destruct H as [H|H].
  - inversion H; subst. eauto.
  - destruct (IHl1 _ _ _ H) as [a0 [? ?]]. eauto.
Qed.

Lemma amem_Some : forall (a : asst_t) v, amem node_eqb a v = true <-> exists x, aget node_eqb a v = Some x.
Proof.
  intros. unfold amem. destruct (aget node_eqb a v); split; eauto; try discriminate. intros [x H]; discriminate.
Qed.

Section AsstStep.
  Variable L : list elabel.
  Hypothesis HF : functional L.
  Variables (s : rstate) (p0 : path) (pre post : list task) (tk : task) (r : rule) (a : asst_t) (cs : list (edge * dtree)).
  Hypothesis HI : Inv L s.
  Hypothesis HS : split_task p0 (rs_pending s) = Some (pre, tk, post).
  Hypothesis HT : tk_tree tk = DT r a cs.
  Hypothesis HA : InvA s.
  Variable as' : asst_t.
  Hypothesis Has : assign_nodes (r_nm (rs_next s) (tk_edge tk) (r_rhs r)) a (g_nodes (r_rhs r)) (rs_asst s) = (as', None).

  Local Notation G := (rs_graph s).
  Local Notation nx := (rs_next s).
  Local Notation e := (tk_edge tk).
  Local Notation R := (r_rhs r).
  Local Notation nm := (r_nm (rs_next s) (tk_edge tk) (r_rhs r)).
  Local Notation em := (r_em (rs_next s) (tk_edge tk) (r_rhs r)).
  Local Notation GD := (step_guard L HF s p0 pre post tk r a cs HI HS HT).
  Local Notation snext := (s_next s pre post tk r cs as').

  Lemma gn_cases : forall v, In v (g_nodes R) ->
    (In v (g_ext R) /\ In (v, gn nm v) (combine (g_ext R) (e_att e)) /\ In (gn nm v) (g_nodes G))
    \/ (~ In v (g_ext R) /\ In (v, gn nm v) (combine (nonext R) (copies nx (nonext R))) /\ ~ In (gn nm v) (g_nodes G)).
  Proof.
    intros v Hv. destruct (r_nm_total _ _ _ _ _ GD v Hv) as [x [Hx [Hin [Hl [HE HN]]]]].
    unfold gn. rewrite Hx. destruct (is_ext R v) eqn:E.
    - left. apply is_ext_In in E. split; auto. split; auto.
      apply (wf_att G (rg_wf _ _ _ _ _ GD) e (rg_in _ _ _ _ _ GD)). eapply in_combine_r; eauto.
    - right. assert (Hne : ~ In v (g_ext R)). { intro Hc. apply is_ext_In in Hc. congruence. }
      split; auto. split; auto. eapply (copies_not_old L s r HI). eapply in_combine_r; eauto.
  Qed.

  Lemma tk_total : forall v, In v (g_nodes R) -> exists x, aget node_eqb a v = Some x.
  Proof.
    intros v Hv. pose proof (tk_wf L s p0 pre post tk r a cs HI HS HT) as W.
    destruct (wf_dtreeb_unfold _ _ _ _ W) as [_ [_ [_ [HAm _]]]]. apply amem_Some. auto.
  Qed.

  Lemma tk_glue_phase1 : (forall t', In t' (rs_pending s) -> task_glued (rs_asst s) t') ->
    forall g v, In (g, v) (combine (e_att e) (g_ext R)) ->
      exists x, aget node_eqb (rs_asst s) g = Some x /\ aget node_eqb a v = Some x.
  Proof.
    intros HG. specialize (HG tk (tk_in s p0 pre post tk HS)). unfold task_glued in HG. rewrite HT in HG.
    cbn [t_asst t_rule] in HG. apply (proj1 (glue_okb_spec _ _ _ _) HG).
  Qed.

  Lemma asst_cons : forall v1 v2, In v1 (g_nodes R) -> In v2 (g_nodes R) -> gn nm v1 = gn nm v2 ->
    aget node_eqb a v1 = aget node_eqb a v2.
  Proof.
    intros v1 v2 H1 H2 E.
    destruct (gn_cases v1 H1) as [[X1 [C1 O1]]|[X1 [C1 O1]]], (gn_cases v2 H2) as [[X2 [C2 O2]]|[X2 [C2 O2]]].
    - destruct (A_phase s HA) as [[_ [tk0 [HP0 [_ ND]]]]|[_ HG]].
      + (* phase 0: the attachment nodes are pairwise distinct *)
        assert (tk0 = tk).
        { pose proof (tk_in s p0 pre post tk HS) as Hin. rewrite HP0 in Hin. destruct Hin as [->|[]]; auto. }
        subst tk0. f_equal. eapply (combine_inj_l (fun x : node => x)); [|exact C1|exact C2|exact E].
        rewrite map_id. auto.
      + destruct (tk_glue_phase1 HG _ _ (combine_swap _ _ _ _ C1)) as [x1 [A1 B1]].
        destruct (tk_glue_phase1 HG _ _ (combine_swap _ _ _ _ C2)) as [x2 [A2 B2]].
        rewrite E in A1. congruence.
    - rewrite E in O1. contradiction.
    - rewrite E in O1. contradiction.
    - f_equal. eapply (combine_inj_l n_id); [|exact C1|exact C2|congruence]. apply copies_ids_nodup.
  Qed.

  Lemma asst_agree : forall v y, In v (g_nodes R) -> aget node_eqb (rs_asst s) (gn nm v) = Some y ->
    aget node_eqb a v = Some y.
  Proof.
    intros v y Hv Hy. destruct (A_phase s HA) as [[E0 _]|[_ HG]].
    - rewrite E0 in Hy. discriminate.
    - destruct (gn_cases v Hv) as [[X [C O]]|[X [C O]]].
      + destruct (tk_glue_phase1 HG _ _ (combine_swap _ _ _ _ C)) as [x [A1 B1]]. congruence.
      + exfalso. apply O. apply (A_keys s HA). apply amem_Some. eauto.
  Qed.

  Lemma asst_step_facts :
    (forall v, In v (g_nodes R) -> aget node_eqb as' (gn nm v) = aget node_eqb a v) /\
    (forall g, (forall v, In v (g_nodes R) -> gn nm v <> g) -> aget node_eqb as' g = aget node_eqb (rs_asst s) g) /\
    (forall g y, aget node_eqb (rs_asst s) g = Some y -> aget node_eqb as' g = Some y).
  Proof.
    destruct (assign_nodes_spec nm a (g_nodes R) (rs_asst s)) as [acc' [E P]].
    - intros v Hv. split; [|apply tk_total; auto].
      destruct (r_nm_total _ _ _ _ _ GD v Hv) as [x [Hx _]]. eauto.
    - apply asst_cons.
    - intros; eapply asst_agree; eauto.
    - rewrite Has in E. inversion E; subst. exact P.
  Qed.

  Lemma nodup_keys_fun : forall (m : list (node * node)) k v1 v2,
    NoDup (map fst m) -> In (k, v1) m -> In (k, v2) m -> v1 = v2.
  Proof.
    intros m k v1 v2 ND H1 H2.
    pose proof (In_aget_nodup node_eqb node_eqb_eq m k v1 ND H1).
    pose proof (In_aget_nodup node_eqb node_eqb_eq m k v2 ND H2). congruence.
  Qed.

  Lemma new_node_image : forall g, In g (copies nx (nonext R)) -> exists v, In v (g_nodes R) /\ gn nm v = g.
  Proof.
    intros g Hg. pose proof (copies_length (nonext R) nx) as HL.
    assert (H : In g (map snd (combine (nonext R) (copies nx (nonext R))))) by (rewrite combine_vals; auto).
    apply in_map_iff in H. destruct H as [[v g'] [E Hin]]. cbn [snd] in E. subst g'.
    assert (Hne : In v (nonext R)) by (eapply in_combine_l; eauto).
    apply nonext_In in Hne. destruct Hne as [Hv Hx].
    exists v. split; auto.
    destruct (gn_cases v Hv) as [[X _]|[_ [C _]]]; [contradiction|].
    eapply (nodup_keys_fun (combine (nonext R) (copies nx (nonext R))) v); eauto.
    rewrite combine_keys by auto. apply nonext_nodup. apply (rg_wfr _ _ _ _ _ GD).
  Qed.

  Lemma att_node_image : forall g, In g (e_att e) -> exists v, In v (g_nodes R) /\ gn nm v = g.
  Proof.
    intros g Hg. pose proof (rs_glue _ _ _ _ _ _ (replace_model_spec _ _ _ _ _ GD)) as GL.
    assert (H : In (Some g) (map Some (e_att e))) by (apply in_map; auto).
    rewrite <- GL in H. apply in_map_iff in H. destruct H as [v [Hv Hin]].
    exists v. split.
    - apply (wf_ext R (rg_wfr _ _ _ _ _ GD)); auto.
    - unfold gn. rewrite Hv. auto.
  Qed.

  Lemma image_in_new_graph : forall v, In v (g_nodes R) -> In (gn nm v) (g_nodes G ++ copies nx (nonext R)).
  Proof.
    intros v Hv. apply in_app_iff. destruct (gn_cases v Hv) as [[_ [_ O]]|[_ [C _]]]; auto.
    right. eapply in_combine_r; eauto.
  Qed.

  Lemma asst_step_inv : InvA snext.
  Proof.
    destruct asst_step_facts as [F1 [F2 F3]].
    constructor; unfold s_next; cbn [rs_graph rs_asst rs_pending r_graph g_nodes].
    - intros v Hv. destruct (amem node_eqb (rs_asst s) v) eqn:E.
      + apply in_app_iff; left. apply (A_keys s HA); auto.
      + destruct (existsb (fun u => node_eqb (gn nm u) v) (g_nodes R)) eqn:EX.
        * apply existsb_exists in EX. destruct EX as [u [Hu Eu]]. apply node_eqb_eq in Eu. subst v.
          apply image_in_new_graph; auto.
        * exfalso. apply amem_Some in Hv. destruct Hv as [x Hx]. rewrite F2 in Hx.
          -- unfold amem in E. rewrite Hx in E. discriminate.
          -- intros u Hu Eu. assert (existsb (fun u => node_eqb (gn nm u) v) (g_nodes R) = true).
             { apply existsb_exists. exists u. split; auto. apply node_eqb_eq; auto. }
             congruence.
    - right. split.
      + intros v Hv. apply in_app_iff in Hv. apply amem_Some. destruct Hv as [Hv|Hv].
        * destruct (A_phase s HA) as [[_ [tk0 [HP0 [HN _]]]]|[AV _]].
          -- assert (tk0 = tk).
             { pose proof (tk_in s p0 pre post tk HS) as Hin. rewrite HP0 in Hin. destruct Hin as [->|[]]; auto. }
             subst tk0. rewrite HN in Hv. destruct (att_node_image v Hv) as [u [Hu <-]].
             rewrite (F1 u Hu). apply tk_total; auto.
          -- specialize (AV v Hv). apply amem_Some in AV. destruct AV as [x Hx]. exists x. apply F3; auto.
        * destruct (new_node_image v Hv) as [u [Hu <-]]. rewrite (F1 u Hu). apply tk_total; auto.
      + intros t' Hin. rewrite app_assoc in Hin. apply in_app_iff in Hin. rewrite in_app_iff in Hin.
        assert (C : In t' (pre ++ post) \/
                    In t' (map (fun kc => mkTask (tk_path tk ++ [e_id (fst kc)]) (ecopy em (fst kc)) (snd kc)) cs))
          by (rewrite in_app_iff; tauto). clear Hin.
        destruct C as [C|C].
        * destruct (A_phase s HA) as [[_ [tk0 [HP0 _]]]|[_ HG]].
          -- exfalso. pose proof (HP s p0 pre post tk HS) as HPe. rewrite HP0 in HPe.
             destruct pre as [|t1 pre'].
             ++ simpl in HPe. inversion HPe; subst. destruct C.
             ++ simpl in HPe. inversion HPe. destruct pre'; discriminate.
          -- specialize (HG t' (other_task_in s p0 pre post tk HS t' C)). unfold task_glued in *.
             apply glue_okb_spec. intros g v Hgv. destruct (proj1 (glue_okb_spec _ _ _ _) HG g v Hgv) as [x [A1 A2]].
             exists x. split; auto.
        * apply in_map_iff in C. destruct C as [[k c] [<- Hkc]]. unfold task_glued. cbn [tk_edge tk_tree fst snd].
          pose proof (tk_wf L s p0 pre post tk r a cs HI HS HT) as W.
          destruct (wf_dtreeb_unfold _ _ _ _ W) as [_ [_ [_ [_ [_ HC]]]]].
          destruct (HC k c Hkc) as [Hk [_ [HGl _]]].
          destruct (ecopy_spec s tk r k Hk) as [_ [j [Hj _]]]. rewrite Hj. cbn [e_att].
          apply glue_okb_spec. intros g v Hgv. apply combine_map_l_In in Hgv. destruct Hgv as [u [-> Huv]].
          destruct (proj1 (glue_okb_spec _ _ _ _) HGl u v Huv) as [x [A1 A2]].
          exists x. split; auto. rewrite F1; auto.
          apply (wf_att R (rg_wfr _ _ _ _ _ GD) k Hk). eapply in_combine_l; eauto.
  Qed.
End AsstStep.

(** the initial state is in phase 0 *)
Lemma init_invA : forall t nx, InvA (init_state t nx).
Proof.
  intros. rewrite (init_explicit t nx).
  constructor; cbn [rs_asst rs_graph rs_pending].
  - intros v H. unfold amem in H. simpl in H. discriminate.
  - left. split; auto. eexists. split; [reflexivity|]. cbn [tk_edge start_edge e_att g_nodes].
    split; auto. unfold start_nodes. apply (NoDup_map_NoDup n_id). apply fresh_nodes_ids_nodup.
Qed.
