(** Composition ("glue") for C11: the relations between the semirings without law premises, and
    carried from the Kleene iterates [Zk] to the tables [Ztab] that [sp_check] evaluates and to
    the code-shaped driver [sum_products_nonrec] run with the order computed by the Tarjan model
    (composition with C01, C08, C19).
    The law records of the carriers ([sr_ring], [sr_ordered], [sr_star] of [bool_ops],
    [ereal_ops], [trop_ops]) are proved in Proofs/SemiringLaws.v (C08); here they are plugged
    into the theorems that kept them as explicit premises.  Nothing in this file has a law
    premise.  Each entry is a one-line instantiation; the statements are spelled out in
    Props/C11.v. *)
From Coq Require Import List Arith Bool PeanoNat Lia QArith Qcanon.
Import ListNotations.
Require Import Fggs.Model.Semiring Fggs.Model.SCC Fggs.Model.SumProduct Fggs.Model.EReal Fggs.Model.CrossSemiring.
Require Import Fggs.Proofs.BigSum Fggs.Proofs.SP_trees Fggs.Proofs.SP_nonrec Fggs.Proofs.SP_driver
               Fggs.Proofs.SP_main Fggs.Proofs.SP_scc_glue Fggs.Proofs.Instances_scc.
Require Import Fggs.Proofs.Homomorphism.
Require Fggs.Proofs.SemiringLaws.
Local Open Scope nat_scope.

Local Notation bR := SemiringLaws.bool_ring. Local Notation bO := SemiringLaws.bool_ordered. Local Notation bS := SemiringLaws.bool_star.
Local Notation eR := SemiringLaws.ereal_ring. Local Notation eO := SemiringLaws.ereal_ordered. Local Notation eS := SemiringLaws.ereal_star.
Local Notation tR := SemiringLaws.trop_ring. Local Notation tO := SemiringLaws.trop_ordered. Local Notation tS := SemiringLaws.trop_star.

(** * C11 *)
Definition maxtimes_le_plustimes_closed := maxtimes_le_plustimes eR eO.

(** the Kleene iterates depend on the weights only through their values *)
Lemma Zk_wext {R} (o : sr_ops R) G (w w' : env (R:=R)) :
  (forall l idx, w l idx = w' l idx) -> forall k X xi, Zk o G w k X xi = Zk o G w' k X xi.
Proof.
  intros H. induction k as [|k IH]; intros X xi; [reflexivity|].
  cbn [Zk]. unfold step. destruct (is_term G X); [apply H|].
  apply BigSum.sumS_ext. intros r _. apply (SP_nonrec.rule_val_ext o). intros ed a _ _. cbn beta.
  destruct (is_term G (fst ed)); [apply H|apply IH].
Qed.

(** the tables the check functions evaluate: Boolean table = support of the Real table ... *)
Theorem supp_Ztab G W k X xi :
  wf_grammar G = true -> is_term G X = false -> In xi (all_assts (lshape G X)) ->
  env_of bool_ops (Ztab bool_ops G (fun l idx => supp (W l idx)) k) X xi
  = supp (env_of ereal_ops (Ztab ereal_ops G W k) X xi).
Proof.
  intros Hwf HX Hxi.
  rewrite (Ztab_is_Zk bool_ops G Hwf _ k X xi HX Hxi), (Ztab_is_Zk ereal_ops G Hwf W k X xi HX Hxi).
  symmetry. apply supp_Zk.
Qed.

(** ... and the max-times table is below the plus-times table *)
Theorem maxtimes_le_plustimes_Ztab G W k X xi :
  wf_grammar G = true -> is_term G X = false -> In xi (all_assts (lshape G X)) ->
  ele (env_of maxtimes_ops (Ztab maxtimes_ops G W k) X xi) (env_of ereal_ops (Ztab ereal_ops G W k) X xi).
Proof.
  intros Hwf HX Hxi.
  rewrite (Ztab_is_Zk maxtimes_ops G Hwf W k X xi HX Hxi), (Ztab_is_Zk ereal_ops G Hwf W k X xi HX Hxi).
  apply maxtimes_le_plustimes_closed.
Qed.

(** the weight table of the Boolean run: the support of every cell *)
Definition tmt_supp (w : tmt (R:=ereal)) : tmt (R:=bool) :=
  map (fun p => (fst p, map (fun c => (fst c, supp (snd c))) (snd p))) w.

Lemma tab_get_supp (tb : table (R:=ereal)) xi :
  tab_get bool_ops (map (fun c => (fst c, supp (snd c))) tb) xi = supp (tab_get ereal_ops tb xi).
Proof.
  induction tb as [|[k v] tb IH]; cbn [map tab_get fst snd].
  - reflexivity.
  - destruct (nat_list_eqb k xi); [reflexivity|exact IH].
Qed.

Lemma tget_tmt_supp w l :
  tget (tmt_supp w) l = option_map (map (fun c => (fst c, supp (snd c)))) (tget w l).
Proof.
  induction w as [|[a tb] w IH]; cbn [tmt_supp map tget fst snd option_map]; [reflexivity|].
  destruct (Nat.eqb a l); [reflexivity|exact IH].
Qed.

Lemma env_of_tmt_supp w l idx :
  env_of bool_ops (tmt_supp w) l idx = supp (env_of ereal_ops w l idx).
Proof.
  rewrite !env_of_tget, tget_tmt_supp. destruct (tget w l) as [tb|]; cbn [option_map].
  - apply tab_get_supp.
  - reflexivity.
Qed.

(** the code-shaped driver: for a well-formed grammar, the order computed by the Tarjan model,
    if it passes [nonrecursive_order], the Boolean run on the supports of the weights returns
    the support of every entry of the Real run *)
Theorem supp_sum_products_nonrec G w order X xi :
  wf_grammar G = true -> (forall l, tget w l <> None -> is_term G l = true) ->
  scc (nt_graph G) = Some order -> nonrecursive_order G order = true ->
  is_term G X = false -> In xi (all_assts (lshape G X)) ->
  env_of bool_ops (sum_products_nonrec bool_ops G (tmt_supp w) order) X xi
  = supp (env_of ereal_ops (sum_products_nonrec ereal_ops G w order) X xi).
Proof.
  intros Hwf Hkeys Hs Hnr HX Hxi.
  pose proof (scc_nt_graph_some G order Hs) as Hok.
  assert (Hkeys' : forall l, tget (tmt_supp w) l <> None -> is_term G l = true).
  { intros l Hl. apply Hkeys. rewrite tget_tmt_supp in Hl. destruct (tget w l); [discriminate|now destruct Hl]. }
  destruct (sum_products_scc_correct bool_ops bR G (tmt_supp w) order Hwf Hkeys' Hok Hnr X xi HX Hxi) as (_ & Eb & _).
  destruct (sum_products_scc_correct ereal_ops eR G w order Hwf Hkeys Hok Hnr X xi HX Hxi) as (_ & Ee & _).
  cbn zeta in Eb, Ee. rewrite Eb, Ee, supp_Zk.
  apply Zk_wext. intros l idx. apply env_of_tmt_supp.
Qed.
