(** C17, grammar level: what [conjoin_hrgs] returns.  The rules of the conjunction, in its
    [all_rules] order, are -- up to the regrouping by left-hand side done by [HRG.add_rule] --
    exactly the conjunctions of the conjoinable pairs of rule occurrences, each pair once. *)
From Coq Require Import List Arith Bool PeanoNat Lia Permutation.
Import ListNotations.
Require Import Fggs.Model.Conj Fggs.Proofs.ConjBase Fggs.Proofs.ConjNames.

Definition tagged_rules (st : hstate) : list trule := concat (map snd (s_rules st)).

Lemma all_rules_untag : forall x, all_rules (untag x) = map fst (tagged_rules (snd x)).
Proof.
  intros [s st]. unfold all_rules, untag, tagged_rules. simpl.
  rewrite map_map. simpl. rewrite concat_map, map_map. reflexivity.
Qed.

Lemma prov_of_tagged : forall x, prov_of x = map snd (tagged_rules (snd x)).
Proof. reflexivity. Qed.

(** * [_rules.setdefault(lhs, []).append(x)] only regroups *)
Lemma store_add_perm {X} : forall (s : list (elabel * list X)) k x,
  Permutation (concat (map snd (store_add s k x))) (concat (map snd s) ++ [x]).
Proof.
  induction s as [|[k' xs] s IH]; simpl; intros k x; [reflexivity|].
  destruct (elabel_eqb k' k); simpl.
  - rewrite <- !app_assoc. apply Permutation_app_head. apply Permutation_app_comm.
  - rewrite <- app_assoc. apply Permutation_app_head. apply IH.
Qed.

Lemma add_rule_tagged : forall st x st', add_rule_model st x = Ok st' ->
  Permutation (tagged_rules st') (tagged_rules st ++ [x]).
Proof.
  intros st x st' H. unfold add_rule_model in H.
  apply bind_ok in H. destruct H as [t1 [_ H]]. apply bind_ok in H. destruct H as [t2 [_ H]].
  injection H as <-. unfold tagged_rules. simpl. apply store_add_perm.
Qed.

Lemma conj_fold_tagged : forall m base ps st st',
  mfold (conj_step m base) ps st = Ok st' ->
  exists rs,
    Forall2 (fun p r => conjoin_rules_model base (fst (snd p)) (snd (snd p)) m = Ok r) ps rs /\
    Permutation (tagged_rules st') (tagged_rules st ++ combine rs (map fst ps)).
Proof.
  intros m base. induction ps as [|p ps IH]; simpl; intros st st' H.
  - injection H as <-. exists []. split; [constructor|]. rewrite app_nil_r. reflexivity.
  - destruct (conj_step m base st p) as [st1|] eqn:E; [|discriminate].
    unfold conj_step in E. apply bind_ok in E. destruct E as [r [E1 E2]].
    apply add_rule_tagged in E2. apply IH in H. destruct H as [rs [F P]].
    exists (r :: rs). split; [constructor; assumption|]. simpl.
    eapply Permutation_trans; [exact P|].
    eapply Permutation_trans; [apply Permutation_app_tail; exact E2|].
    rewrite <- app_assoc. reflexivity.
Qed.

(** * the conjoinable pairs visited by the double loop *)
Definition cp_inner (i : nat) (r1 : rule) (l2 : list (nat * rule)) : list ((nat * nat) * (rule * rule)) :=
  flat_map (fun jr2 => if conjoinable_model r1 (snd jr2) then [((i, fst jr2), (r1, snd jr2))] else []) l2.
Definition cp_outer (l1 l2 : list (nat * rule)) : list ((nat * nat) * (rule * rule)) :=
  flat_map (fun ir1 => cp_inner (fst ir1) (snd ir1) l2) l1.

Lemma cpairs_outer : forall h1 h2,
  cpairs h1 h2 = cp_outer (indexed (all_rules h1)) (indexed (all_rules h2)).
Proof. reflexivity. Qed.

Lemma cp_inner_in : forall i r1 l2 t x,
  In (t, x) (cp_inner i r1 l2) <->
  exists j r2, In (j, r2) l2 /\ conjoinable_model r1 r2 = true /\ t = (i, j) /\ x = (r1, r2).
Proof.
  intros. unfold cp_inner. rewrite in_flat_map. split.
  - intros [[j r2] [Hin H]]. simpl in H. destruct (conjoinable_model r1 r2) eqn:C; [|contradiction].
    destruct H as [H|[]]. injection H as <- <-. exists j, r2. auto.
  - intros [j [r2 [Hin [C [-> ->]]]]]. exists (j, r2). split; [exact Hin|]. simpl. rewrite C. left. reflexivity.
Qed.

Lemma cp_outer_in : forall l1 l2 t x,
  In (t, x) (cp_outer l1 l2) <->
  exists i r1 j r2, In (i, r1) l1 /\ In (j, r2) l2 /\ conjoinable_model r1 r2 = true /\
                    t = (i, j) /\ x = (r1, r2).
Proof.
  intros. unfold cp_outer. rewrite in_flat_map. split.
  - intros [[i r1] [Hin H]]. simpl in H. apply cp_inner_in in H.
    destruct H as [j [r2 [H2 [C [-> ->]]]]]. exists i, r1, j, r2. auto.
  - intros [i [r1 [j [r2 [H1 [H2 [C [-> ->]]]]]]]]. exists (i, r1). split; [exact H1|]. simpl.
    apply cp_inner_in. exists j, r2. auto.
Qed.

Lemma cpairs_in : forall h1 h2 i j r1 r2,
  In ((i, j), (r1, r2)) (cpairs h1 h2) <->
  nth_error (all_rules h1) i = Some r1 /\ nth_error (all_rules h2) j = Some r2 /\
  conjoinable_model r1 r2 = true.
Proof.
  intros. rewrite cpairs_outer, cp_outer_in. split.
  - intros [i' [r1' [j' [r2' [H1 [H2 [C [E1 E2]]]]]]]]. injection E1 as -> ->. injection E2 as -> ->.
    apply indexed_nth in H1. apply indexed_nth in H2. auto.
  - intros [H1 [H2 C]]. exists i, r1, j, r2. rewrite !indexed_nth. auto.
Qed.

Lemma NoDup_app_intro {A} : forall l1 l2 : list A,
  NoDup l1 -> NoDup l2 -> (forall x, In x l1 -> In x l2 -> False) -> NoDup (l1 ++ l2).
Proof.
  induction l1 as [|a l1 IH]; simpl; intros l2 N1 N2 D; [exact N2|].
  inversion N1 as [|? ? H1 H2]; subst. constructor.
  - rewrite in_app_iff. intros [H|H]; [contradiction | apply (D a); auto].
  - apply IH; auto. intros x Hx1 Hx2. apply (D x); auto.
Qed.

Lemma cp_inner_nodup : forall i r1 l2, NoDup (map fst l2) -> NoDup (map fst (cp_inner i r1 l2)).
Proof.
  induction l2 as [|[j r2] l2 IH]; simpl; intros N; [constructor|].
  inversion N as [|? ? N1 N2]; subst. rewrite map_app. apply NoDup_app_intro.
  - destruct (conjoinable_model r1 r2); simpl; constructor; [intros [] | constructor].
  - apply IH. exact N2.
  - intros t H1 H2. destruct (conjoinable_model r1 r2); simpl in H1; [|contradiction].
    destruct H1 as [<-|[]]. apply in_map_iff in H2. destruct H2 as [[t x] [E H2]]. simpl in E. subst t.
    apply cp_inner_in in H2. destruct H2 as [j' [r2' [Hin [_ [E _]]]]]. injection E as <-.
    apply N1. apply in_map_iff. exists (j, r2'). auto.
Qed.

Lemma cp_outer_nodup : forall l1 l2,
  NoDup (map fst l1) -> NoDup (map fst l2) -> NoDup (map fst (cp_outer l1 l2)).
Proof.
  induction l1 as [|[i r1] l1 IH]; simpl; intros l2 N1 N2; [constructor|].
  inversion N1 as [|? ? M1 M2]; subst. rewrite map_app. apply NoDup_app_intro.
  - apply cp_inner_nodup. exact N2.
  - apply IH; assumption.
  - intros t H1 H2. apply in_map_iff in H1. destruct H1 as [[t1 x1] [E1 H1]]. simpl in E1. subst t1.
    apply in_map_iff in H2. destruct H2 as [[t2 x2] [E2 H2]]. simpl in E2. subst t2.
    apply cp_inner_in in H1. destruct H1 as [j [r2 [_ [_ [E _]]]]].
    apply cp_outer_in in H2. destruct H2 as [i' [r1' [j' [r2' [Hin [_ [_ [E' _]]]]]]]].
    rewrite E in E'. injection E' as <- <-. apply M1. apply in_map_iff. exists (i, r1'). auto.
Qed.

Lemma indexed_fst_nodup {A} : forall l : list A, NoDup (map fst (indexed l)).
Proof.
  intros l. unfold indexed.
  assert (G : forall (l : list A) s, map fst (combine (seq s (length l)) l) = seq s (length l)).
  { clear. induction l as [|x l IH]; simpl; intros s; [reflexivity|]. rewrite IH. reflexivity. }
  rewrite G. apply seq_NoDup.
Qed.

Lemma cpairs_nodup : forall h1 h2, NoDup (map fst (cpairs h1 h2)).
Proof. intros. rewrite cpairs_outer. apply cp_outer_nodup; apply indexed_fst_nodup. Qed.

(** * the facts about the returned grammar *)
Lemma Forall2_combine_in {A B T} (P : A -> B -> Prop) (tag : A -> T) : forall ps rs,
  Forall2 P ps rs ->
  (forall r t, In (r, t) (combine rs (map tag ps)) -> exists p, In p ps /\ tag p = t /\ P p r) /\
  (forall p, In p ps -> exists r, In (r, tag p) (combine rs (map tag ps)) /\ P p r) /\
  map snd (combine rs (map tag ps)) = map tag ps.
Proof.
  induction 1 as [|p r ps rs Hpr H IH]; simpl.
  - split; [intros r t []|]. split; [intros p []|reflexivity].
  - destruct IH as [I1 [I2 I3]]. split; [|split].
    + intros r' t [E|Hin].
      * injection E as <- <-. exists p. auto.
      * destruct (I1 _ _ Hin) as [p' [Hp' [Et Pp']]]. exists p'. auto.
    + intros p' [<-|Hp'].
      * exists r. auto.
      * destruct (I2 _ Hp') as [r' [Hin Pp']]. exists r'. auto.
    + rewrite I3. reflexivity.
Qed.

(** everything the derivation bijection needs to know about [conjoin_hrgs_tagged] *)
Theorem conj_hrg_facts : forall h1 h2 s st,
  conjoin_hrgs_tagged h1 h2 = Ok (s, st) ->
  exists m,
    nonterminal_pairs_model h1 h2 = Ok m /\
    nt_get m (h_start h1, h_start h2) = Some s /\
    NoDup (map snd (tagged_rules st)) /\
    (forall r i j, In (r, (i, j)) (tagged_rules st) ->
       exists r1 r2, nth_error (all_rules h1) i = Some r1 /\ nth_error (all_rules h2) j = Some r2 /\
                     conjoinable_model r1 r2 = true /\
                     conjoin_rules_model (id_bound h1 h2) r1 r2 m = Ok r) /\
    (forall i j r1 r2, nth_error (all_rules h1) i = Some r1 -> nth_error (all_rules h2) j = Some r2 ->
       conjoinable_model r1 r2 = true -> exists r, In (r, (i, j)) (tagged_rules st)).
Proof.
  intros h1 h2 s st H. unfold conjoin_hrgs_tagged in H.
  destruct (check_namespace_collisions_model h1 h2) as [n_col e_col].
  destruct n_col; [|discriminate]. destruct (existsb tt_conflict e_col); [discriminate|].
  apply bind_ok in H. destruct H as [m [M H]]. exists m. split; [exact M|].
  destruct (nt_get m (h_start h1, h_start h2)) as [s'|] eqn:G; [|discriminate].
  destruct (el_term s'); [discriminate|].
  apply bind_ok in H. destruct H as [st' [H E]]. injection E as <- <-. split; [reflexivity|].
  apply conj_fold_tagged in H. destruct H as [rs [F P]]. unfold tagged_rules at 2 in P. simpl in P.
  destruct (Forall2_combine_in _ fst _ _ F) as [I1 [I2 I3]].
  split; [|split].
  - eapply Permutation_NoDup; [apply Permutation_sym; apply Permutation_map; exact P|].
    rewrite I3. apply cpairs_nodup.
  - intros r i j Hin. apply (Permutation_in _ P) in Hin. destruct (I1 _ _ Hin) as [[t [r1 r2]] [Hp [Et Pp]]].
    simpl in Et, Pp. subst t. apply cpairs_in in Hp. destruct Hp as [H1 [H2 C]].
    exists r1, r2. auto.
  - intros i j r1 r2 H1 H2 C.
    assert (Hp : In ((i, j), (r1, r2)) (cpairs h1 h2)) by (apply cpairs_in; auto).
    destruct (I2 _ Hp) as [r [Hin _]]. simpl in Hin. exists r.
    apply (Permutation_in _ (Permutation_sym P)). exact Hin.
Qed.
