(** C09 -- block elimination in an ordered star-semimodule (non-commutative coefficients).
    Coefficients [C] (blocks of the matrix) act on vectors [V] (blocks of the unknown);
    [solve1 a r] is the least solution of y = a.y + r (the dense solver on a diagonal block),
    [rstar a s] is the coefficient a.s* (computed in multi_solve by a transposed solve).
    Eliminating the block unknowns in ANY order -- an absent block is the zero coefficient --
    yields a solution of x = A x + b ([belim_sol]) which is below every pre-solution
    ([belim_least]).  No commutativity of the coefficient product is used.
    The scalar setting (C = V = S, solve1 a r = star a * r) is an instance
    ([scalar_semimodule]). *)
From Coq Require Import List Arith Lia Ring.
Import ListNotations.
Require Import Fggs.Model.Semiring.

Section Block.
Variables (C V : Type).
Variables (cadd cmul : C -> C -> C).
Variable act : C -> V -> V.
Variables (vadd : V -> V -> V) (vzero : V) (vle : V -> V -> Prop).
Variable solve1 : C -> V -> V.
Variable rstar : C -> C -> C.

Record semimodule_laws : Prop := {
  vadd_comm : forall u v, vadd u v = vadd v u;
  vadd_assoc : forall u v w, vadd u (vadd v w) = vadd (vadd u v) w;
  vadd_0_l : forall v, vadd vzero v = v;
  act_cadd : forall a b v, act (cadd a b) v = vadd (act a v) (act b v);
  act_cmul : forall a b v, act (cmul a b) v = act a (act b v);
  act_vadd : forall a u v, act a (vadd u v) = vadd (act a u) (act a v);
  act_vzero : forall a, act a vzero = vzero;
  act_rstar : forall a s v, act (rstar a s) v = act a (solve1 s v);
  solve1_sol : forall a r, solve1 a r = vadd (act a (solve1 a r)) r;
  solve1_least : forall a r y, vle (vadd (act a y) r) y -> vle (solve1 a r) y;
  vle_refl : forall v, vle v v;
  vle_trans : forall u v w, vle u v -> vle v w -> vle u w;
  vadd_mono : forall u u' v v', vle u u' -> vle v v' -> vle (vadd u v) (vadd u' v');
  act_mono : forall a u v, vle u v -> vle (act a u) (act a v);
}.

Hypothesis L : semimodule_laws.

Variable K : Type.
Variable K_eq_dec : forall a b : K, {a = b} + {a <> b}.

Fixpoint sumV (l : list K) (f : K -> V) : V :=
  match l with [] => vzero | k :: l => vadd (f k) (sumV l f) end.

Lemma vadd_0_r v : vadd v vzero = v.
Proof. rewrite (vadd_comm L). apply (vadd_0_l L). Qed.
Lemma vadd_swap4 a b c d : vadd (vadd a b) (vadd c d) = vadd (vadd a c) (vadd b d).
Proof.
  rewrite <- (vadd_assoc L a b (vadd c d)). rewrite (vadd_assoc L b c d).
  rewrite (vadd_comm L b c). rewrite <- (vadd_assoc L c b d). rewrite (vadd_assoc L a c (vadd b d)).
  reflexivity.
Qed.

Lemma sumV_ext l f g : (forall k, In k l -> f k = g k) -> sumV l f = sumV l g.
Proof.
  induction l as [|k l IH]; intros H; [reflexivity|]. cbn. rewrite H by now left.
  rewrite IH; [reflexivity|]. intros; apply H; now right.
Qed.
Lemma sumV_add l f g : sumV l (fun k => vadd (f k) (g k)) = vadd (sumV l f) (sumV l g).
Proof.
  induction l as [|k l IH]; cbn; [symmetry; apply (vadd_0_l L)|]. rewrite IH. apply vadd_swap4.
Qed.
Lemma sumV_act l a f : sumV l (fun k => act a (f k)) = act a (sumV l f).
Proof.
  induction l as [|k l IH]; cbn; [symmetry; apply (act_vzero L)|]. rewrite IH.
  symmetry. apply (act_vadd L).
Qed.
Lemma sumV_mono l f g : (forall k, In k l -> vle (f k) (g k)) -> vle (sumV l f) (sumV l g).
Proof.
  induction l as [|k l IH]; intros H; cbn; [apply (vle_refl L)|].
  apply (vadd_mono L); [apply H; now left|apply IH; intros; apply H; now right].
Qed.

Lemma solve1_mono a r r' : vle r r' -> vle (solve1 a r) (solve1 a r').
Proof.
  intros H. apply (solve1_least L). rewrite (solve1_sol L a r') at 2.
  apply (vadd_mono L); [apply (vle_refl L)|exact H].
Qed.

Definition upd (x : K -> V) (k : K) (v : V) : K -> V := fun i => if K_eq_dec i k then v else x i.

(** Schur complement after eliminating block [k] *)
Definition belimA (A : K -> K -> C) (k : K) : K -> K -> C :=
  fun i j => cadd (A i j) (cmul (rstar (A i k) (A k k)) (A k j)).
Definition belimb (A : K -> K -> C) (b : K -> V) (k : K) : K -> V :=
  fun i => vadd (b i) (act (rstar (A i k) (A k k)) (b k)).

Fixpoint belim (vs : list K) (A : K -> K -> C) (b : K -> V) : K -> V :=
  match vs with
  | [] => b
  | k :: vs =>
      let x' := belim vs (belimA A k) (belimb A b k) in
      upd x' k (solve1 (A k k) (vadd (sumV vs (fun j => act (A k j) (x' j))) (b k)))
  end.

Definition bis_sol (vs : list K) A b (x : K -> V) :=
  forall i, In i vs -> x i = vadd (sumV vs (fun j => act (A i j) (x j))) (b i).
Definition bis_presol (vs : list K) A b (y : K -> V) :=
  forall i, In i vs -> vle (vadd (sumV vs (fun j => act (A i j) (y j))) (b i)) (y i).

(** the row of the eliminated system, in terms of the original one *)
Lemma belim_row A b k vs (z : K -> V) i :
  vadd (sumV vs (fun j => act (belimA A k i j) (z j))) (belimb A b k i)
  = vadd (act (A i k) (solve1 (A k k) (vadd (sumV vs (fun j => act (A k j) (z j))) (b k))))
         (vadd (sumV vs (fun j => act (A i j) (z j))) (b i)).
Proof.
  unfold belimA, belimb. set (R := rstar (A i k) (A k k)).
  rewrite (sumV_ext vs (fun j => act (cadd (A i j) (cmul R (A k j))) (z j))
                       (fun j => vadd (act (A i j) (z j)) (act R (act (A k j) (z j))))).
  2:{ intros j _. rewrite (act_cadd L), (act_cmul L). reflexivity. }
  rewrite sumV_add, sumV_act.
  rewrite <- (act_rstar L). fold R. rewrite (act_vadd L).
  set (S1 := sumV vs (fun j => act (A i j) (z j))). set (S2 := act R (sumV vs (fun j => act (A k j) (z j)))).
  rewrite vadd_swap4. rewrite (vadd_comm L (vadd S1 (b i))). reflexivity.
Qed.

Theorem belim_sol vs : NoDup vs -> forall A b, bis_sol vs A b (belim vs A b).
Proof.
  induction vs as [|k vs IH]; intros ND A b; [intros i []|].
  inversion ND as [|? ? Hk ND']; subst. cbn [belim].
  set (A' := belimA A k). set (b' := belimb A b k). set (x' := belim vs A' b').
  set (r := vadd (sumV vs (fun j => act (A k j) (x' j))) (b k)).
  set (Xk := solve1 (A k k) r).
  assert (Hx' : bis_sol vs A' b' x') by (apply IH; assumption).
  assert (Hupd : forall j, In j vs -> upd x' k Xk j = x' j).
  { intros j Hj. unfold upd. destruct (K_eq_dec j k); [subst; contradiction|reflexivity]. }
  assert (Hk' : upd x' k Xk k = Xk) by (unfold upd; destruct (K_eq_dec k k); congruence).
  intros i Hi. cbn [sumV]. rewrite Hk'.
  rewrite (sumV_ext vs (fun j => act (A i j) (upd x' k Xk j)) (fun j => act (A i j) (x' j)))
    by (intros; rewrite Hupd; auto).
  destruct Hi as [<-|Hi].
  - rewrite Hk'. unfold Xk at 1. rewrite (solve1_sol L). fold Xk. unfold r.
    rewrite (vadd_assoc L). reflexivity.
  - rewrite (Hupd i Hi). rewrite (Hx' i Hi). unfold A', b'. rewrite belim_row. fold r. fold Xk.
    rewrite (vadd_assoc L). reflexivity.
Qed.

Theorem belim_least vs : NoDup vs -> forall A b y, bis_presol vs A b y ->
  forall i, In i vs -> vle (belim vs A b i) (y i).
Proof.
  induction vs as [|k vs IH]; intros ND A b y Hy; [intros i []|].
  inversion ND as [|? ? Hk ND']; subst. cbn [belim].
  set (A' := belimA A k). set (b' := belimb A b k). set (x' := belim vs A' b').
  set (ry := vadd (sumV vs (fun j => act (A k j) (y j))) (b k)).
  assert (Hyk : vle (solve1 (A k k) ry) (y k)).
  { apply (solve1_least L). pose proof (Hy k (or_introl eq_refl)) as H. cbn [sumV] in H.
    unfold ry. rewrite (vadd_assoc L). exact H. }
  assert (Hy' : bis_presol vs A' b' y).
  { intros i Hi. pose proof (Hy i (or_intror Hi)) as H. cbn [sumV] in H.
    unfold A', b'. rewrite belim_row. fold ry.
    eapply (vle_trans L); [|exact H]. rewrite <- (vadd_assoc L).
    apply (vadd_mono L); [apply (act_mono L); exact Hyk|apply (vle_refl L)]. }
  assert (Hx' : forall j, In j vs -> vle (x' j) (y j)) by (apply IH; assumption).
  intros i [<-|Hi]; unfold upd.
  - destruct (K_eq_dec k k) as [_|]; [|congruence].
    eapply (vle_trans L); [|exact Hyk]. apply solve1_mono. unfold ry.
    apply (vadd_mono L); [|apply (vle_refl L)].
    apply sumV_mono. intros j Hj. apply (act_mono L). apply Hx'; exact Hj.
  - destruct (K_eq_dec i k); [subst; contradiction|]. apply Hx'; exact Hi.
Qed.
End Block.

(** the scalar instance: C = V = S, a.v = a * v, solve1 a r = star a * r, a.s* = a * star s *)
Section Scalar.
Context {S : Type} (o : sr_ops S).
Hypothesis Hring : sr_ring o.
Hypothesis Hord : sr_ordered o.
Hypothesis Hstar : sr_star o.
Let SRth : semi_ring_theory (zero o) (one o) (add o) (mul o) (@eq S) := Hring.
Add Ring Sring2 : SRth.

Lemma scalar_semimodule :
  semimodule_laws S S (add o) (mul o) (mul o) (add o) (zero o) (le o)
                  (fun a r => mul o (star o a) r) (fun a s => mul o a (star o s)).
Proof.
  constructor; intros; try ring.
  - rewrite (star_unfold o Hstar a) at 1. ring.
  - apply (star_ind o Hstar). assumption.
  - apply (le_refl o Hord).
  - eapply (le_trans o Hord); eassumption.
  - apply (add_mono o Hord); assumption.
  - apply (mul_mono o Hord); assumption.
Qed.
End Scalar.
