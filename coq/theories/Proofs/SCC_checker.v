(** C19: Prop-level specification of "dependency-ordered SCC decomposition" and
    correctness (soundness AND completeness) of the executable oracle [scc_ok]
    of Model/SCC.v with respect to it, for closed graphs.

    The crux is [reaches g u v = true <-> path g u v]: the bounded iteration
    [reach_n (length g)] reaches its fixed point because the iterated set is a
    duplicate-free list of vertices that grows strictly until it is closed
    under successors. *)
From Coq Require Import List Arith Bool PeanoNat Lia Permutation.
Import ListNotations.
Require Import Fggs.Model.SCC.

(** * Reflection of the boolean helpers *)
Lemma mem_In l x : mem l x = true <-> In x l.
Proof.
  unfold mem. rewrite existsb_exists. split.
  - intros [y [Hy He]]. apply Nat.eqb_eq in He. subst. exact Hy.
  - intros H. exists x. split; [exact H | apply Nat.eqb_refl].
Qed.

Lemma mem_false l x : mem l x = false <-> ~ In x l.
Proof. rewrite <- mem_In. destruct (mem l x); split; congruence. Qed.

Lemma nodupb_NoDup l : nodupb l = true <-> NoDup l.
Proof.
  induction l as [|x l IH]; cbn [nodupb].
  - split; [constructor | reflexivity].
  - rewrite andb_true_iff, negb_true_iff, mem_false, IH. split.
    + intros [H1 H2]. constructor; assumption.
    + intros H. inversion H; subst. split; assumption.
Qed.

Lemma NoDup_app_iff (a b : list nat) :
  NoDup (a ++ b) <-> NoDup a /\ NoDup b /\ (forall x, In x a -> In x b -> False).
Proof.
  induction a as [|x a IH]; cbn [app].
  - split; [intros H; repeat split; [constructor | exact H | intros x []] | intros [_ [H _]]; exact H].
  - split.
    + intros H. inversion H as [|? ? Hx Hn]; subst. apply IH in Hn. destruct Hn as [Ha [Hb Hd]].
      repeat split.
      * constructor; [|exact Ha]. intros Hi. apply Hx. apply in_or_app. left; exact Hi.
      * exact Hb.
      * intros y [Hy|Hy] Hyb; [subst; apply Hx; apply in_or_app; right; exact Hyb | exact (Hd y Hy Hyb)].
    + intros [Ha [Hb Hd]]. inversion Ha as [|? ? Hx Hn]; subst. constructor.
      * intros Hi. apply in_app_or in Hi. destruct Hi as [Hi|Hi]; [exact (Hx Hi) | exact (Hd x (or_introl eq_refl) Hi)].
      * apply IH. repeat split; [exact Hn | exact Hb | intros y Hy; apply Hd; right; exact Hy].
Qed.

(** * Graph lemmas *)
Lemma succs_In g x w : In w (succs g x) -> exists ws, In (x, ws) g /\ In w ws.
Proof.
  induction g as [|[u ws] g IH]; cbn [succs]; [intros []|].
  destruct (Nat.eqb u x) eqn:E.
  - apply Nat.eqb_eq in E. subst. intros H. exists ws. split; [left; reflexivity | exact H].
  - intros H. destruct (IH H) as [ws' [H1 H2]]. exists ws'. split; [right; exact H1 | exact H2].
Qed.

Lemma succs_vert g x w : In w (succs g x) -> In x (verts g).
Proof.
  intros H. destruct (succs_In _ _ _ H) as [ws [H1 _]].
  unfold verts. change x with (fst (x, ws)). apply in_map. exact H1.
Qed.

Lemma closed_succs g : closed g = true -> forall x w, In w (succs g x) -> In w (verts g).
Proof.
  unfold closed. rewrite andb_true_iff. intros [_ H] x w Hw.
  destruct (succs_In _ _ _ Hw) as [ws [H1 H2]].
  rewrite forallb_forall in H. specialize (H _ H1). cbn [snd] in H.
  rewrite andb_true_iff in H. destruct H as [_ H]. rewrite forallb_forall in H.
  apply mem_In. apply H. exact H2.
Qed.

Lemma closed_NoDup g : closed g = true -> NoDup (verts g).
Proof. unfold closed. rewrite andb_true_iff. intros [H _]. apply nodupb_NoDup. exact H. Qed.

(** * Paths *)
Inductive path (g : graph) : nat -> nat -> Prop :=
| path_refl : forall u, path g u u
| path_step : forall u w v, In w (succs g u) -> path g w v -> path g u v.

Lemma path_trans g u v w : path g u v -> path g v w -> path g u w.
Proof. induction 1; intros; [assumption | eapply path_step; eauto]. Qed.

Lemma path_edge g u v : In v (succs g u) -> path g u v.
Proof. intros H. eapply path_step; [exact H | apply path_refl]. Qed.

Lemma path_snoc g u v w : path g u v -> In w (succs g v) -> path g u w.
Proof. intros H1 H2. eapply path_trans; [exact H1 | apply path_edge; exact H2]. Qed.

(** a set closed under successors is closed under paths *)
Lemma path_closed_set g (P : nat -> Prop) :
  (forall x w, P x -> In w (succs g x) -> P w) -> forall u v, path g u v -> P u -> P v.
Proof. intros HP u v H. induction H; intros; [assumption | eauto]. Qed.

Lemma path_verts g : closed g = true -> forall u v, path g u v -> In u (verts g) -> In v (verts g).
Proof.
  intros Hc. apply (path_closed_set g (fun x => In x (verts g))).
  intros x w _ Hw. exact (closed_succs g Hc x w Hw).
Qed.

(** * The reachability iteration *)
Lemma add_all_spec ws : forall acc, exists ext,
  fold_left add_new ws acc = acc ++ ext
  /\ (forall x, In x ext -> In x ws /\ ~ In x acc)
  /\ (forall x, In x ws -> In x (acc ++ ext))
  /\ (NoDup acc -> NoDup (acc ++ ext)).
Proof.
  induction ws as [|w ws IH]; intros acc; cbn [fold_left].
  - exists []. rewrite app_nil_r. refine (conj eq_refl (conj _ (conj _ _))).
    + intros x [].
    + intros x [].
    + tauto.
  - unfold add_new at 2. destruct (mem acc w) eqn:E.
    + apply mem_In in E. destruct (IH acc) as [ext [H1 [H2 [H3 H4]]]]. exists ext.
      refine (conj H1 (conj _ (conj _ H4))).
      * intros x Hx. destruct (H2 x Hx) as [Ha Hb]. split; [right; exact Ha | exact Hb].
      * intros x [Hx|Hx]; [subst; apply in_or_app; left; exact E | apply H3; exact Hx].
    + apply mem_false in E. destruct (IH (acc ++ [w])) as [ext [H1 [H2 [H3 H4]]]].
      exists (w :: ext). rewrite <- app_assoc in H1, H3, H4. cbn [app] in H1, H3, H4.
      refine (conj H1 (conj _ (conj _ _))).
      * intros x [Hx|Hx].
        -- subst. split; [left; reflexivity | exact E].
        -- destruct (H2 x Hx) as [Ha Hb]. split; [right; exact Ha|].
           intros Hn. apply Hb. apply in_or_app. left; exact Hn.
      * intros x [Hx|Hx]; [subst; apply in_or_app; right; left; reflexivity | apply H3; exact Hx].
      * intros Hn. apply H4. apply NoDup_app_iff. refine (conj Hn (conj _ _)).
        -- constructor; [intros [] | constructor].
        -- intros x Hx [Hw|[]]. subst. exact (E Hx).
Qed.

Lemma expand_spec g vs : forall acc, exists ext,
  fold_left (fun acc v => fold_left add_new (succs g v) acc) vs acc = acc ++ ext
  /\ (forall x, In x ext -> ~ In x acc /\ exists v, In v vs /\ In x (succs g v))
  /\ (forall v x, In v vs -> In x (succs g v) -> In x (acc ++ ext))
  /\ (NoDup acc -> NoDup (acc ++ ext)).
Proof.
  induction vs as [|v vs IH]; intros acc; cbn [fold_left].
  - exists []. rewrite app_nil_r. refine (conj eq_refl (conj _ (conj _ _))).
    + intros x [].
    + intros v x [].
    + tauto.
  - destruct (add_all_spec (succs g v) acc) as [e1 [A1 [A2 [A3 A4]]]].
    rewrite A1. destruct (IH (acc ++ e1)) as [e2 [B1 [B2 [B3 B4]]]].
    exists (e1 ++ e2). rewrite app_assoc. refine (conj B1 (conj _ (conj _ _))).
    + intros x H. apply in_app_or in H. destruct H as [H|H].
      * split; [apply A2; exact H|]. exists v. split; [left; reflexivity | apply A2; exact H].
      * destruct (B2 x H) as [Hn [v' [Hv' Hx]]]. split.
        -- intros Hi. apply Hn. apply in_or_app. left; exact Hi.
        -- exists v'. split; [right; exact Hv' | exact Hx].
    + intros v' x [Hv|Hv] Hx.
      * subst. apply in_or_app. left. apply A3. exact Hx.
      * eapply B3; eauto.
    + intros Hn. apply B4. apply A4. exact Hn.
Qed.

Lemma reach_step_spec g r : exists ext,
  reach_step g r = r ++ ext
  /\ (forall x, In x ext -> ~ In x r /\ exists v, In v r /\ In x (succs g v))
  /\ (forall v x, In v r -> In x (succs g v) -> In x (r ++ ext))
  /\ (NoDup r -> NoDup (r ++ ext)).
Proof. unfold reach_step. apply expand_spec. Qed.

Definition succ_closed (g : graph) (r : list nat) : Prop :=
  forall x w, In x r -> In w (succs g x) -> In w r.

Lemma reach_step_fix g r : succ_closed g r -> reach_step g r = r.
Proof.
  intros Hc. destruct (reach_step_spec g r) as [ext [H1 [H2 _]]].
  destruct ext as [|e ext]; [rewrite H1; apply app_nil_r|].
  exfalso. destruct (H2 e (or_introl eq_refl)) as [Hn [v [Hv He]]]. apply Hn. eapply Hc; eauto.
Qed.

Lemma reach_n_fix g r n : succ_closed g r -> reach_n n g r = r.
Proof.
  intros Hc. induction n as [|n IH]; cbn [reach_n]; [reflexivity|].
  rewrite reach_step_fix by exact Hc. exact IH.
Qed.

(** soundness: everything collected is reachable from a seed *)
Lemma reach_n_sound g n : forall r x, In x (reach_n n g r) -> exists y, In y r /\ path g y x.
Proof.
  induction n as [|n IH]; intros r x Hx; cbn [reach_n] in Hx.
  - exists x. split; [exact Hx | apply path_refl].
  - destruct (IH _ _ Hx) as [y [Hy Hp]].
    destruct (reach_step_spec g r) as [ext [H1 [H2 _]]]. rewrite H1 in Hy.
    apply in_app_or in Hy. destruct Hy as [Hy|Hy].
    + exists y. split; assumption.
    + destruct (proj2 (H2 y Hy)) as [v [Hv Hs]]. exists v. split; [exact Hv|].
      eapply path_step; eauto.
Qed.

(** completeness: with enough rounds the set is closed under successors
    (it is a NoDup list of vertices that grows strictly until closed) *)
Lemma reach_n_closed g : closed g = true -> forall n r,
  NoDup r -> incl r (verts g) -> length (verts g) <= length r + n ->
  succ_closed g (reach_n n g r) /\ incl r (reach_n n g r).
Proof.
  intros Hc. induction n as [|n IH]; intros r Hn Hi Hl; cbn [reach_n].
  - split; [|apply incl_refl].
    assert (Hv : incl (verts g) r) by (apply NoDup_length_incl; [exact Hn | lia | exact Hi]).
    intros x w _ Hw. apply Hv. exact (closed_succs g Hc x w Hw).
  - destruct (reach_step_spec g r) as [ext [H1 [H2 [H3 H4]]]].
    destruct ext as [|e ext].
    + rewrite app_nil_r in *.
      assert (Hcl : succ_closed g r) by (intros x w Hx Hw; eapply H3; eauto).
      rewrite H1. rewrite reach_n_fix by exact Hcl. split; [exact Hcl | apply incl_refl].
    + rewrite H1. destruct (IH (r ++ e :: ext)) as [I1 I2].
      * apply H4. exact Hn.
      * intros x Hx. apply in_app_or in Hx. destruct Hx as [Hx|Hx]; [apply Hi; exact Hx|].
        destruct (proj2 (H2 x Hx)) as [v [_ Hs]]. exact (closed_succs g Hc v x Hs).
      * rewrite app_length. cbn [length]. lia.
      * split; [exact I1|]. intros x Hx. apply I2. apply in_or_app. left; exact Hx.
Qed.

Theorem reaches_sound g u v : reaches g u v = true -> path g u v.
Proof.
  unfold reaches. intros H. apply mem_In in H.
  destruct (reach_n_sound _ _ _ _ H) as [y [[Hy|[]] Hp]]. subst. exact Hp.
Qed.

Theorem reaches_complete g u v :
  closed g = true -> In u (verts g) -> path g u v -> reaches g u v = true.
Proof.
  intros Hc Hu Hp. unfold reaches. apply mem_In.
  destruct (reach_n_closed g Hc (length g) [u]) as [H1 H2].
  - constructor; [intros [] | constructor].
  - intros x [Hx|[]]. subst. exact Hu.
  - unfold verts. rewrite map_length. cbn [length]. lia.
  - apply (path_closed_set g (fun x => In x (reach_n (length g) g [u])) H1 u v Hp).
    apply H2. left; reflexivity.
Qed.

Theorem reaches_iff g u v :
  closed g = true -> In u (verts g) -> (reaches g u v = true <-> path g u v).
Proof. intros Hc Hu. split; [apply reaches_sound | apply reaches_complete; assumption]. Qed.

Lemma same_scc_iff g u v :
  closed g = true -> In u (verts g) -> In v (verts g) ->
  (same_scc g u v = true <-> path g u v /\ path g v u).
Proof.
  intros Hc Hu Hv. unfold same_scc. rewrite andb_true_iff.
  rewrite (reaches_iff g u v Hc Hu), (reaches_iff g v u Hc Hv). tauto.
Qed.

(** * The specification *)
Definition spec (g : graph) (cs : list (list nat)) : Prop :=
  NoDup (concat cs) /\ Permutation (concat cs) (verts g)
  /\ (forall c, In c cs -> c <> [])
  /\ (forall u v, In u (verts g) -> In v (verts g) ->
        ((exists c, In c cs /\ In u c /\ In v c) <-> (path g u v /\ path g v u)))
  /\ (forall l1 c l2 d u v, cs = l1 ++ c :: l2 -> In d l2 -> In u c -> In v d -> ~ In v (succs g u)).

Lemma ordered_ok_iff g cs :
  ordered_ok g cs = true <->
  forall l1 c l2 d u v, cs = l1 ++ c :: l2 -> In d l2 -> In u c -> In v d ->
    same_scc g u v = false /\ ~ In v (succs g u).
Proof.
  induction cs as [|c0 rest IH]; cbn [ordered_ok].
  - split; [|reflexivity]. intros _ l1 c l2 d u v H. destruct l1; discriminate.
  - rewrite andb_true_iff, IH. split.
    + intros [H1 H2] l1 c l2 d u v E Hd Hu Hv. destruct l1 as [|c1 l1]; cbn [app] in E.
      * injection E as E1 E2. subst c0 rest.
        rewrite forallb_forall in H1. specialize (H1 u Hu).
        rewrite forallb_forall in H1. specialize (H1 d Hd).
        rewrite forallb_forall in H1. specialize (H1 v Hv).
        rewrite andb_true_iff, !negb_true_iff in H1. destruct H1 as [Ha Hb].
        split; [exact Ha | apply mem_false; exact Hb].
      * injection E as E1 E2. subst c1. eapply H2; eauto.
    + intros H. split.
      * apply forallb_forall. intros u Hu. apply forallb_forall. intros d Hd.
        apply forallb_forall. intros v Hv.
        destruct (H [] c0 rest d u v eq_refl Hd Hu Hv) as [Ha Hb].
        rewrite andb_true_iff, !negb_true_iff. split; [exact Ha | apply mem_false; exact Hb].
      * intros l1 c l2 d u v E. apply (H (c0 :: l1) c l2 d u v). cbn [app]. rewrite E. reflexivity.
Qed.

(** two members of a list are equal or one comes strictly before the other *)
Lemma two_positions (cs : list (list nat)) c1 c2 :
  In c1 cs -> In c2 cs ->
  c1 = c2 \/ (exists l1 l2, cs = l1 ++ c1 :: l2 /\ In c2 l2) \/ (exists l1 l2, cs = l1 ++ c2 :: l2 /\ In c1 l2).
Proof.
  induction cs as [|c cs IH]; [intros []|].
  intros [H1|H1] [H2|H2].
  - left. congruence.
  - subst c. right. left. exists [], cs. split; [reflexivity | exact H2].
  - subst c. right. right. exists [], cs. split; [reflexivity | exact H1].
  - destruct (IH H1 H2) as [E|[[l1 [l2 [E Hi]]]|[l1 [l2 [E Hi]]]]].
    + left; exact E.
    + right; left. exists (c :: l1), l2. split; [cbn [app]; rewrite E; reflexivity | exact Hi].
    + right; right. exists (c :: l1), l2. split; [cbn [app]; rewrite E; reflexivity | exact Hi].
Qed.

Lemma concat_split_disjoint (l1 : list (list nat)) c l2 :
  NoDup (concat (l1 ++ c :: l2)) ->
  (forall x, In x (concat l1) -> In x c -> False)
  /\ (forall x, In x c -> In x (concat l2) -> False)
  /\ (forall x, In x (concat l1) -> In x (concat l2) -> False).
Proof.
  rewrite concat_app. cbn [concat]. rewrite NoDup_app_iff. intros [_ [H2 H3]].
  rewrite NoDup_app_iff in H2. destruct H2 as [_ [_ H2]]. repeat split.
  - intros x Ha Hb. apply (H3 x Ha). apply in_or_app. left; exact Hb.
  - exact H2.
  - intros x Ha Hb. apply (H3 x Ha). apply in_or_app. right; exact Hb.
Qed.

Lemma in_concat_intro (cs : list (list nat)) c x : In c cs -> In x c -> In x (concat cs).
Proof. intros H1 H2. apply in_concat. exists c. split; assumption. Qed.

(** * C19_checker *)
Theorem scc_ok_spec g cs : closed g = true -> (scc_ok g cs = true <-> spec g cs).
Proof.
  intros Hc. pose proof (closed_NoDup g Hc) as Hnv.
  unfold scc_ok. rewrite !andb_true_iff. split.
  - intros [[[[[Hlen Hnd] Hall] Hne] Hsc] Hord].
    apply Nat.eqb_eq in Hlen. apply nodupb_NoDup in Hnd.
    rewrite forallb_forall in Hall, Hne, Hsc.
    assert (Hperm : Permutation (concat cs) (verts g)).
    { apply Permutation_sym. apply NoDup_Permutation_bis; [exact Hnv | lia |].
      intros x Hx. apply mem_In. apply Hall. exact Hx. }
    assert (Hin : forall c x, In c cs -> In x c -> In x (verts g)).
    { intros c x H1 H2. eapply Permutation_in; [exact Hperm|]. eapply in_concat_intro; eauto. }
    pose proof (proj1 (ordered_ok_iff g cs) Hord) as Ho.
    unfold spec. repeat split.
    + exact Hnd.
    + exact Hperm.
    + intros c Hc' E. specialize (Hne c Hc'). subst c. discriminate.
    + destruct H1 as [c [H1 [H2 H3]]]. specialize (Hsc c H1).
      rewrite forallb_forall in Hsc. specialize (Hsc u H2).
      rewrite forallb_forall in Hsc. specialize (Hsc v H3).
      apply (same_scc_iff g u v Hc H H0) in Hsc. tauto.
    + destruct H1 as [c [H1 [H2 H3]]]. specialize (Hsc c H1).
      rewrite forallb_forall in Hsc. specialize (Hsc u H2).
      rewrite forallb_forall in Hsc. specialize (Hsc v H3).
      apply (same_scc_iff g u v Hc H H0) in Hsc. tauto.
    + intros Hp.
      assert (Hs : same_scc g u v = true) by (apply same_scc_iff; assumption).
      assert (Hs' : same_scc g v u = true) by (apply same_scc_iff; tauto).
      assert (Hu : In u (concat cs)) by (eapply Permutation_in; [apply Permutation_sym; exact Hperm | exact H]).
      assert (Hv : In v (concat cs)) by (eapply Permutation_in; [apply Permutation_sym; exact Hperm | exact H0]).
      apply in_concat in Hu. destruct Hu as [c1 [Hc1 Hu]].
      apply in_concat in Hv. destruct Hv as [c2 [Hc2 Hv]].
      destruct (two_positions cs c1 c2 Hc1 Hc2) as [E|[[l1 [l2 [E Hi]]]|[l1 [l2 [E Hi]]]]].
      * subst c2. exists c1. tauto.
      * destruct (Ho l1 c1 l2 c2 u v E Hi Hu Hv) as [Hf _]. congruence.
      * destruct (Ho l1 c2 l2 c1 v u E Hi Hv Hu) as [Hf _]. congruence.
    + intros l1 c l2 d u v E Hd Hu Hv. exact (proj2 (Ho l1 c l2 d u v E Hd Hu Hv)).
  - intros [Hnd [Hperm [Hne [Hsc Hord]]]].
    assert (Hin : forall c x, In c cs -> In x c -> In x (verts g)).
    { intros c x H1 H2. eapply Permutation_in; [exact Hperm|]. eapply in_concat_intro; eauto. }
    repeat split.
    + apply Nat.eqb_eq. apply Permutation_length. exact Hperm.
    + apply nodupb_NoDup. exact Hnd.
    + apply forallb_forall. intros x Hx. apply mem_In.
      eapply Permutation_in; [apply Permutation_sym; exact Hperm | exact Hx].
    + apply forallb_forall. intros c Hc'. specialize (Hne c Hc'). destruct c; [congruence | reflexivity].
    + apply forallb_forall. intros c Hc'. apply forallb_forall. intros u Hu.
      apply forallb_forall. intros v Hv.
      apply same_scc_iff; [exact Hc | eapply Hin; eauto | eapply Hin; eauto |].
      apply Hsc; [eapply Hin; eauto | eapply Hin; eauto |]. exists c. tauto.
    + apply ordered_ok_iff. intros l1 c l2 d u v E Hd Hu Hv.
      split; [|eapply Hord; eauto].
      destruct (same_scc g u v) eqn:Hs; [exfalso | reflexivity].
      assert (Hcin : In c cs) by (rewrite E; apply in_or_app; right; left; reflexivity).
      assert (Hdin : In d cs) by (rewrite E; apply in_or_app; right; right; exact Hd).
      pose proof (Hin c u Hcin Hu) as Huv. pose proof (Hin d v Hdin Hv) as Hvv.
      apply (same_scc_iff g u v Hc Huv Hvv) in Hs.
      apply (Hsc u v Huv Hvv) in Hs. destruct Hs as [c' [Hc' [Hu' Hv']]].
      rewrite E in Hnd. destruct (concat_split_disjoint l1 c l2 Hnd) as [D1 [D2 D3]].
      rewrite E in Hc'. apply in_app_or in Hc'. destruct Hc' as [Hc'|[Hc'|Hc']].
      * apply (D1 u); [eapply in_concat_intro; eauto | exact Hu].
      * subst c'. apply (D2 v); [exact Hv' | eapply in_concat_intro; eauto].
      * apply (D2 u); [exact Hu | eapply in_concat_intro; eauto].
Qed.

(** hypotheses are satisfiable by a non-trivial value *)
Example scc_ok_spec_example :
  let g := [(0, [1]); (1, [0; 2]); (2, [])] in
  closed g = true /\ scc_ok g [[2]; [1; 0]] = true /\ scc_ok g [[1; 0]; [2]] = false.
Proof. vm_compute. repeat split. Qed.
