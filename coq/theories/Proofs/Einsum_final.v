(** C07 (b): assembly.  [raw_as_Ksum]: a cell of the model's result is the sum over the physical
    index tuples [K] of the products of the view elements, i.e. (stride lemma, clone lemma) of the
    physical elements selected by the extension of the substitution.  Together with
    Einsum_reindex this gives [einsum_raw_correct]. *)
From Coq Require Import List Arith Bool PeanoNat Lia Permutation Ring Ring_theory PArith.
Import ListNotations.
Require Import Fggs.Model.Semiring Fggs.Model.SumProduct.
Require Import Fggs.Proofs.BigSum Fggs.Proofs.SP_trees.
Require Import Fggs.Model.Axis Fggs.Model.PTensor Fggs.Model.AxisCheck Fggs.Model.Einsum Fggs.Model.EinsumCheck Fggs.Model.EinsumCert.
Require Import Fggs.Proofs.Axis_sem Fggs.Proofs.Axis_unify Fggs.Proofs.Axis_antiunify Fggs.Proofs.Axis_repr.
Require Import Fggs.Proofs.PTensor_sem Fggs.Proofs.PTensor_dense Fggs.Proofs.PTensor_gen.
Require Import Fggs.Proofs.Einsum_dense Fggs.Proofs.Einsum_envs Fggs.Proofs.Einsum_support Fggs.Proofs.Einsum_form.
Require Import Fggs.Proofs.Einsum_views Fggs.Proofs.Einsum_reduce Fggs.Proofs.Einsum_subst Fggs.Proofs.Einsum_loop.
Require Import Fggs.Proofs.Einsum_project Fggs.Proofs.Einsum_reindex Fggs.Proofs.Einsum_main.

Lemma Forall2_and {A B} (P Q : A -> B -> Prop) l l' : Forall2 P l l' -> Forall2 Q l l' -> Forall2 (fun a b => P a b /\ Q a b) l l'.
Proof. intros H. induction H; intros H'; inversion H'; subst; constructor; auto. Qed.

Lemma Forall2_map_eq {A B C} (f : A -> C) (g : B -> C) l l' : Forall2 (fun a b => f a = g b) l l' -> map f l = map g l'.
Proof. induction 1 as [|a b l l' E _ IH]; [reflexivity|]. simpl. rewrite E, IH. reflexivity. Qed.

Lemma Forall2_Forall_l {A B} (P : A -> Prop) (Q : A -> B -> Prop) l l' : Forall P l -> Forall2 Q l l' -> Forall2 (fun a b => P a /\ Q a b) l l'.
Proof. intros H H2. induction H2; inversion H; subst; constructor; auto. Qed.

Lemma keys_unique (K : list pn) k n n' : NoDup (map fst K) -> In (k, n) K -> In (k, n') K -> n = n'.
Proof.
  induction K as [|[k0 n0] K IH]; intros NDk H H'; [contradiction|]. simpl in NDk. inversion NDk as [|? ? Hk NDk']; subst.
  destruct H as [H|H], H' as [H'|H'].
  - congruence.
  - inversion H; subst. exfalso. apply Hk. apply in_map_iff. exists (k, n'). auto.
  - inversion H'; subst. exfalso. apply Hk. apply in_map_iff. exists (k, n). auto.
  - eauto.
Qed.

Section Final.
Context {R : Type} (o : sr_ops R).
Hypothesis Hr : sr_ring o.
Add Ring RingEFin : (sr_is_srt o Hr).
Variable veqb : R -> R -> bool.
Hypothesis Hveqb : forall a b, veqb a b = true -> a = b.
Notation r0 := (Semiring.zero o).
Notation ptensor := (ptensor R).
Notation stensor := (stensor (R:=R)).
Notation view := (view (R:=R)).

Lemma sumS_if_const {A} (b : bool) (l : list A) (f : A -> R) :
  (if b then sumS o l f else r0) = sumS o l (fun x => if b then f x else r0).
Proof. destruct b; [reflexivity|]. symmetry. apply (sumS_zero o Hr). Qed.

Lemma views_all_ok sigma : forall (fts : list stensor) (views : list view),
  Forall (st_ok (R:=R)) fts -> Forall2 (fun t v => project_view sigma t = Ok v) fts views -> Forall (view_ok (R:=R)) views.
Proof.
  intros fts views OK F2. induction F2 as [|t v l l' Hp _ IH]; constructor.
  - inversion OK; subst. eapply project_view_ok; eauto.
  - apply IH. inversion OK; assumption.
Qed.

Lemma views_read sigma rho rho' : models rho sigma -> (forall k, assoc k sigma = None -> rho k = rho' k) ->
  forall (fts : list stensor) (views : list view),
  Forall2 (fun t v => project_view sigma t = Ok v /\
                      ((forall strs, mapM (stride (sfuel sigma (phys_axes (paxes (st_pt t)))) sigma) (phys_axes (paxes (st_pt t))) = Ok strs ->
                          forall os k c, In os strs -> In (k, c) (snd os) -> assoc k sigma = None /\ In k (map fst (vw_vars v)))
                       /\ NoDup (map fst (vw_vars v)))) fts views ->
  Forall2 (fun t v => pget R (st_pt t) rho = vw_fn v (map rho' (map fst (vw_vars v)))) fts views.
Proof.
  intros M Unb fts views FV. induction FV as [|t v l l' [Hp [Hk _]] _ IH]; constructor; [|exact IH].
  symmetry. apply (project_view_spec sigma t v rho rho' Hp M).
  intros strs Es os k c Hos Hkc. destruct (Hk strs Es os k c Hos Hkc) as [U I]. split; [apply Unb; exact U|exact I].
Qed.

Lemma outv_read sigma (i2v : list (nat * axis)) rho rho' :
  models rho sigma -> Sized sigma -> (forall k, assoc k sigma = None -> rho k = rho' k) ->
  (forall l e, lassoc l i2v = Some e -> sized sigma e = true) ->
  forall (output : list nat) (outv : list axis),
  Forall2 (fun l c => match lassoc l i2v with
                      | Some e => clone (sfuel sigma [e]) sigma e
                      | None => Fail OtherError end = Ok c) output outv ->
  (forall e, In e outv -> closed sigma e = true) ->
  Forall2 (fun l c => lv i2v rho l = eval rho' c) output outv.
Proof.
  intros M SZ Unb Hsz output outv F2. induction F2 as [|l c lo lc Hc _ IH]; intros Cl; constructor.
  - destruct (lassoc l i2v) as [e|] eqn:El; [|discriminate].
    destruct (clone_sem rho sigma M SZ _ e c (Hsz l e El) Hc) as [_ Ev]. unfold lv. rewrite El, <- Ev.
    apply eval_ext. intros k Hk. apply Unb. apply unbound_assoc.
    specialize (Cl c (or_introl eq_refl)). unfold closed in Cl. rewrite forallb_forall in Cl. exact (Cl k Hk).
  - apply IH. intros e He. apply Cl. right. exact He.
Qed.

Section Run.
Variables (r : erun (R:=R)) (inputs : list (list nat)) (output : list nat).
Let fts := er_ts r.
Let ts := map st_pt fts.
Let sigma := er_sigma r.
Let i2v := er_i2v r.
Let occ := occurrences ts inputs.
Let V := all_vars ts.
Let views := er_views r.
Let outp := er_outp r.
Let outv := er_outv r.
Let sv := summed_vars views outp.
Let K := kvars r.
Let F := cert_fuel sigma.

Hypothesis CV : cert_views r = true.

Lemma cv_facts :
  length views = length fts /\
  Forall2 (fun t v => (forall strs, mapM (stride (sfuel sigma (phys_axes (paxes (st_pt t)))) sigma) (phys_axes (paxes (st_pt t))) = Ok strs ->
                         forall os k c, In os strs -> In (k, c) (snd os) -> assoc k sigma = None /\ In k (map fst (vw_vars v)))
                      /\ NoDup (map fst (vw_vars v))) fts views /\
  map plabel sv = summed_labels (vlabels views) (map plabel outp) /\
  map snd sv = map (lval (label_sizes (map (fun v => map snd (vw_vars v)) views) (vlabels views))) (map plabel sv) /\
  (forall v kn, In v views -> In kn (vw_vars v) -> In kn K) /\
  (forall k, In k (map fst outp) -> In k (map fst (flat_map (vw_vars (R:=R)) views))) /\
  repr_inv_b (map snd outp) outp outv = true /\
  (forall e, In e outv -> closed sigma e = true).
Proof.
  unfold cert_views in CV. fold sigma in CV. fold views in CV. fold outp in CV. fold sv in CV. fold outv in CV. fold fts in CV.
  apply andb_true_iff in CV. destruct CV as [C D8]. apply andb_true_iff in C. destruct C as [C D7].
  apply andb_true_iff in C. destruct C as [C D6]. apply andb_true_iff in C. destruct C as [C D5].
  apply andb_true_iff in C. destruct C as [C D4]. apply andb_true_iff in C. destruct C as [C D3].
  apply andb_true_iff in C. destruct C as [D1 D2]. apply Nat.eqb_eq in D1.
  split; [exact D1|]. split.
  { pose proof (forallb_combine_Forall2 _ fts views (eq_sym D1) D2) as F2. clear -F2.
    induction F2 as [|t v l l' E _ IH]; constructor; [|exact IH]. cbn [fst snd] in E.
    apply andb_true_iff in E. destruct E as [E1 E2]. split; [|apply nodup_pos_NoDup; exact E2].
    intros strs Es os k c Hos Hkc. rewrite Es in E1. rewrite forallb_forall in E1. specialize (E1 os Hos).
    rewrite forallb_forall in E1. specialize (E1 (k, c) Hkc). cbn [fst] in E1. apply andb_true_iff in E1. destruct E1 as [U M].
    split; [apply unbound_assoc; exact U|apply key_mem_In; exact M]. }
  split; [apply leqb_eq; exact D3|]. split; [apply leqb_eq; exact D4|].
  split.
  { intros v kn Hv Hkn. rewrite forallb_forall in D5. specialize (D5 v Hv). rewrite forallb_forall in D5. apply pn_mem_In. exact (D5 kn Hkn). }
  split.
  { intros k Hk. apply in_map_iff in Hk. destruct Hk as (kn & <- & Hkn). rewrite forallb_forall in D6. apply key_mem_In. exact (D6 kn Hkn). }
  split; [exact D7|]. intros e He. rewrite forallb_forall in D8. exact (D8 e He).
Qed.

Hypothesis CO : cert_operands o veqb r inputs output = true.
Hypothesis CS : cert_subst r = true.
Hypothesis OKT : Forall st_ok fts.

(** what the run computed *)
Variables (s : lstate) (ts1 : list stensor) (nx1 : positive).
Hypothesis E1 : eloop (efuel ts1) ts1 inputs (mkLS [] [] {| us_subst := []; us_next := nx1; us_warn := false |} false) [] = Ok (s, fts).
Hypothesis Esig : sigma = us_subst (ls_u s).
Hypothesis Ei2v : i2v = ls_i2v s.
Hypothesis Ezero : ls_zero s = false.
Hypothesis E2 : mapM (fun l => match lassoc l i2v with
                               | Some e => clone (sfuel sigma [e]) sigma e
                               | None => Fail OtherError end) output = Ok outv.
Hypothesis E3 : mapM (project_view sigma) fts = Ok views.
Hypothesis Eraw : er_raw r = mkPT (phys_out o views outp) outp outv r0.

Lemma occ_fvn l e k n : In (l, e) occ -> In (k, n) (fvn e) -> In (k, n) V.
Proof.
  destruct (co_facts o veqb Hveqb r inputs output CO) as (_ & HW & _).
  intros He Hk. unfold occ, occurrences in He. apply in_flat_map in He. destruct He as ([t inp] & Hti & He). simpl in He.
  apply in_combine_r in He. assert (Ht : In t ts) by (apply in_combine_l in Hti; exact Hti).
  unfold V, all_vars. apply in_flat_map. exists t. split; [exact Ht|]. rewrite Forall_forall in HW.
  apply (wf_fv R t (HW t Ht)). apply in_flat_map. exists e. split; assumption.
Qed.

(** soundness of the loop, for this run *)
Lemma loop_sound rho : models rho sigma -> coinc_b i2v occ rho = true.
Proof.
  intros M. destruct (cs_facts r CS) as (Pos & _).
  destruct (eloop_sound _ _ _ _ _ _ _ E1) as (new & En & G). simpl in En. subst new.
  assert (Pi0 : i2v_pos []) by (intros l e0 E; discriminate E).
  destruct (G Pos eq_refl Pi0) as (_ & _ & _ & _ & S).
  rewrite Esig in M. specialize (S Ezero rho M).
  unfold coinc_b. apply forallb_forall. intros [l e] Hin. simpl. apply Nat.eqb_eq.
  destruct (S l e Hin) as (e0 & E0 & Ev). unfold lv. rewrite Ei2v, E0. exact Ev.
Qed.

Lemma outv_length : length outv = length output.
Proof. apply mapM_Forall2 in E2. apply Forall2_len in E2. symmetry. exact E2. Qed.

Theorem raw_as_Ksum oidx : length oidx = length output ->
  denote R (er_raw r) oidx
  = sumS o (all_envs K) (fun pi => if leqb (map (lv i2v (xt sigma F pi)) output) oidx then term o ts (xt sigma F pi) else r0).
Proof.
  intros Lo.
  destruct (co_facts o veqb Hveqb r inputs output CO) as (HL & HW & HD & HF & HN & Hout & Hi2v & Hsz).
  destruct (cs_facts r CS) as (Pos & ND & HC & SZ & VS & NK & KU & VK & KV).
  destruct cv_facts as (Lv & V2 & V3 & V4 & V5 & V8 & V6 & V7).
  fold sigma in ND, HC, SZ, VS, KU, VK, KV. fold F in HC, VK, KV. fold K in NK, KU, VK, KV. fold V in VS, VK, KV. fold ts in HL, HW, HD, HF. fold i2v in Hout, Hi2v, Hsz.
  rewrite Eraw. set (raw := mkPT (phys_out o views outp) outp outv r0).
  assert (Wraw : wf R raw) by (apply (repr_inv_wf R raw (map snd outp)); exact V6).
  pose proof (wf_nodup R raw Wraw) as NDo. cbn [paxes raw] in NDo.
  rewrite (denote_sum o Hr raw oidx Wraw eq_refl) by (cbn [vaxes raw]; rewrite outv_length; exact Lo).
  cbn [paxes vaxes raw].
  (* the views *)
  assert (Vok : Forall (view_ok (R:=R)) views) by (apply (views_all_ok sigma fts views OKT); apply mapM_Forall2; exact E3).
  assert (Ksub : forall kn, In kn outp -> In kn K) by (intros kn H; unfold K, kvars; apply in_or_app; left; exact H).
  (* every cell of the physical result *)
  assert (Cell : forall po, In po (all_envs outp) ->
            pget R raw (env_of po)
            = sumS o (all_envs sv) (fun ps => prodS o views (fun v => vw_fn v (map (env_of (po ++ ps)) (map fst (vw_vars v)))))).
  { intros po Hpo. unfold pget. cbn [physical paxes raw].
    assert (Lc : length (pcoords outp (env_of po)) = length outp) by (unfold pcoords; apply map_length).
    assert (Eq : phys_out o views outp (pcoords outp (env_of po)) = einsum_views o views outp (pcoords outp (env_of po))).
    { unfold phys_out. destruct (use_reduce views); [|reflexivity].
      apply (reduce_equation_sound o Hr views outp _ Vok NDo V8).
      - intros v kn n Hv Hkn Hn. apply (keys_unique K (fst kn) n (snd kn) NK); [apply Ksub; exact Hn|].
        rewrite <- surjective_pairing. exact (V5 v kn Hv Hkn).
      - unfold pcoords. clear -Hpo NDo. assert (G : forall kn, In kn outp -> env_of po (fst kn) < snd kn).
        { intros [k n] Hk. exact (env_of_in_range outp po NDo Hpo k n Hk). }
        clear Hpo NDo. induction outp as [|kn l IH]; simpl; constructor; [apply G; left; reflexivity|].
        apply IH. intros kn' H. apply G. right. exact H. }
    rewrite Eq. fold sv in V3, V4.
    rewrite (einsum_views_sum o views outp _ NDo Lc V3 V4). fold sv.
    rewrite (pcoords_env_of outp po Hpo NDo). reflexivity. }
  rewrite (sumS_ext o _ _ (fun po => sumS o (all_envs sv)
             (fun ps => if leqb (evals (env_of (po ++ ps)) outv) oidx
                        then prodS o views (fun v => vw_fn v (map (env_of (po ++ ps)) (map fst (vw_vars v)))) else r0))).
  2:{ intros po Hpo. rewrite (Cell po Hpo), sumS_if_const. apply (sumS_ext o). intros ps _.
      replace (evals (env_of (po ++ ps)) outv) with (evals (env_of po) outv); [reflexivity|].
      apply evals_ext. intros k Hk. symmetry. apply env_of_app_l. rewrite (all_envs_keys outp po Hpo).
      exact (wf_keys_fv raw k Wraw Hk). }
  unfold K, kvars. fold views. fold outp. fold sv. rewrite all_envs_app, (sumS_flat_map o Hr).
  apply (sumS_ext o). intros po Hpo. rewrite (sumS_map o). apply (sumS_ext o). intros ps Hps.
  assert (HpK : In (po ++ ps) (all_envs K)).
  { unfold K, kvars. fold views. fold outp. fold sv. rewrite all_envs_app. apply in_flat_map. exists po. split; [exact Hpo|apply in_map; exact Hps]. }
  set (pi := po ++ ps) in *. set (rho := xt sigma F pi).
  assert (M : models rho sigma) by (apply ext_models; assumption).
  assert (Unb : forall k, assoc k sigma = None -> rho k = env_of pi k) by (intros k Hk; apply ext_unbound; exact Hk).
  (* the output axes *)
  assert (EO : evals (env_of pi) outv = map (lv i2v rho) output).
  { symmetry. unfold evals. apply Forall2_map_eq. apply (outv_read sigma i2v rho (env_of pi) M SZ Unb).
    - intros l e El. apply sized_of_occ. intros k n Hk. apply VS. apply (occ_fvn l e k n); [apply Hi2v; exact El|exact Hk].
    - apply mapM_Forall2. exact E2.
    - exact V7. }
  rewrite EO. destruct (leqb (map (lv i2v rho) output) oidx); [|reflexivity].
  (* the views *)
  unfold term, ts. rewrite (prodS_map o). symmetry. apply prodS_Forall2.
  apply (views_read sigma rho (env_of pi) M Unb). apply Forall2_and; [apply mapM_Forall2; exact E3|exact V2].
Qed.

(** * the normal exit: sub-sum, and equality under the counting criterion *)
Theorem raw_correct oidx : length oidx = length output ->
  (exists L, NoDup L /\ incl L (coincs ts inputs i2v) /\
     denote R (er_raw r) oidx = sumS o L (g o ts output i2v oidx) /\
     einsum_dense o (map (dn (R:=R)) ts) inputs output oidx = sumS o (coincs ts inputs i2v) (g o ts output i2v oidx)) /\
  (length (coincs ts inputs i2v) <= length (all_envs K) ->
     denote R (er_raw r) oidx = einsum_dense o (map (dn (R:=R)) ts) inputs output oidx).
Proof.
  intros Lo. rewrite (raw_as_Ksum oidx Lo).
  destruct (co_facts o veqb Hveqb r inputs output CO) as (HL & HW & HD & HF & HN & Hout & Hi2v & Hsz).
  destruct (cs_facts r CS) as (Pos & ND & HC & SZ & VS & NK & KU & VK & KV).
  split.
  - exact (reindex_sound o Hr ts inputs output i2v HL HW HD HF HN Hout Hi2v Hsz sigma F K ND HC SZ NK VS VK KV loop_sound oidx).
  - exact (reindex_complete o Hr ts inputs output i2v HL HW HD HF HN Hout Hi2v Hsz sigma F K ND HC SZ NK VS VK KV loop_sound oidx).
Qed.

(** * (d) the argmax variant: pointers *)
Lemma phys_out_eq coords : Forall2 lt coords (map snd outp) ->
  phys_out o views outp coords = einsum_views o views outp coords.
Proof.
  intros Hb.
  destruct (cs_facts r CS) as (_ & _ & _ & _ & _ & NK & _).
  destruct cv_facts as (_ & _ & _ & _ & V5 & V8 & V6 & _).
  fold K in NK.
  assert (Wraw : wf R (mkPT (phys_out o views outp) outp outv r0)) by (apply (repr_inv_wf R _ (map snd outp)); exact V6).
  pose proof (wf_nodup R _ Wraw) as NDo. cbn [paxes] in NDo.
  assert (Vok : Forall (view_ok (R:=R)) views) by (apply (views_all_ok sigma fts views OKT); apply mapM_Forall2; exact E3).
  unfold phys_out. destruct (use_reduce views); [|reflexivity].
  apply (reduce_equation_sound o Hr views outp _ Vok NDo V8); [|exact Hb].
  intros v kn n Hv Hkn Hn. apply (keys_unique K (fst kn) n (snd kn) NK).
  - unfold K, kvars. apply in_or_app. left. exact Hn.
  - rewrite <- surjective_pairing. exact (V5 v kn Hv Hkn).
Qed.

Variable rest : list (nat * axis).
Hypothesis W1 : map fst rest = summed_labels inputs output.
Hypothesis W2 : forall l e, In (l, e) rest -> lassoc l i2v = Some e.
Hypothesis W3 : forall l e, In (l, e) rest -> forall o0 s0, stride (sfuel sigma [e]) sigma e = Ok (o0, s0) ->
                  forall k c, In (k, c) s0 -> assoc k sigma = None.

Lemma lval_rest (f : nat * axis -> nat) l e : In (l, e) rest -> (forall e', In (l, e') rest -> e' = e) ->
  lval (combine (map fst rest) (map f rest)) l = f (l, e).
Proof.
  intros Hin Hu. unfold lval. clear W1 W2 W3. induction rest as [|[l0 e0] rs IH]; [contradiction|]. simpl.
  destruct (Nat.eqb_spec l0 l) as [->|Hne].
  - rewrite (Hu e0 (or_introl eq_refl)). reflexivity.
  - destruct Hin as [E|Hin]; [inversion E; congruence|]. apply IH; [exact Hin|]. intros e' H'. apply Hu. right. exact H'.
Qed.

Theorem ptr_correct oidx pi pp vp :
  length oidx = length output ->
  index_list outv [] oidx = IOk pi ->
  In pp (all_assts (map snd sv)) ->
  ptr_translate sigma (map snd rest) outp sv (pcoords outp (env_of pi)) pp = Ok vp ->
  let pi' := combine (map fst outp) (pcoords outp (env_of pi)) ++ combine (map fst sv) pp in
  In pi' (all_envs K) /\
  vp = map (eval (xt sigma F pi')) (map snd rest) /\
  einsum_term o (map (dn (R:=R)) ts) inputs (combine output oidx ++ combine (summed_labels inputs output) vp)
  = prodS o views (fun v => vw_fn v (map (env_of pi') (map fst (vw_vars v)))).
Proof.
  intros Lo Hidx Hpp Hptr pi'.
  destruct (co_facts o veqb Hveqb r inputs output CO) as (HL & HW & HD & HF & HN & Hout & Hi2v & Hsz).
  destruct (cs_facts r CS) as (Pos & ND & HC & SZ & VS & NK & KU & VK & KV).
  destruct cv_facts as (Lv & V2 & V3 & V4 & V5 & V8 & V6 & V7).
  fold sigma in ND, HC, SZ, VS, KU, VK, KV. fold F in HC, VK, KV. fold K in NK, KU, VK, KV. fold V in VS, VK, KV. fold ts in HL, HW, HD, HF. fold i2v in Hout, Hi2v, Hsz.
  set (raw := mkPT (phys_out o views outp) outp outv r0).
  assert (Wraw : wf R raw) by (apply (repr_inv_wf R raw (map snd outp)); exact V6).
  pose proof (wf_nodup R raw Wraw) as NDo. cbn [paxes raw] in NDo.
  (* the output cell is backed by [pi] *)
  destruct (index_list_sound outv [] oidx pi (eq_trans Lo (eq_sym outv_length)) Hidx) as (_ & _ & Hs).
  destruct (Hs (env_of pi) (agrees_env_of pi)) as [Eo Ro].
  set (po := combine (map fst outp) (pcoords outp (env_of pi))).
  assert (Epo : po = restrict (env_of pi) outp).
  { unfold po, pcoords, restrict. clear. induction outp as [|kn l IH]; [reflexivity|]. simpl. f_equal. exact IH. }
  assert (Hpo : In po (all_envs outp)).
  { rewrite Epo. apply all_envs_complete. intros k n Hk. apply (wf_fv R raw Wraw) in Hk. cbn [vaxes raw] in Hk.
    apply in_flat_map in Hk. destruct Hk as (e & He & Hk). rewrite Forall_forall in Ro. exact (proj2 (inrange_fvn _ e) (Ro e He) k n Hk). }
  set (ps := combine (map fst sv) pp).
  assert (Hps : In ps (all_envs sv)) by (rewrite all_envs_assts; apply in_map; exact Hpp).
  assert (HpK : In pi' (all_envs K)).
  { unfold K, kvars. fold views. fold outp. fold sv. rewrite all_envs_app. apply in_flat_map. exists po. split; [exact Hpo|apply in_map; exact Hps]. }
  split; [exact HpK|].
  set (rho := xt sigma F pi').
  assert (M : models rho sigma) by (apply ext_models; assumption).
  assert (Unb : forall k, assoc k sigma = None -> rho k = env_of pi' k) by (intros k Hk; apply ext_unbound; exact Hk).
  (* the pointers *)
  assert (Evp : vp = map (eval rho) (map snd rest)).
  { unfold ptr_translate in Hptr. fold po in Hptr. fold ps in Hptr. change (po ++ ps) with pi' in Hptr.
    apply mapM_Forall2 in Hptr. symmetry. rewrite <- (map_id vp). apply Forall2_map_eq.
    assert (W3' : forall e, In e (map snd rest) -> forall o0 s0, stride (sfuel sigma [e]) sigma e = Ok (o0, s0) ->
                    forall k c, In (k, c) s0 -> assoc k sigma = None).
    { intros e He. apply in_map_iff in He. destruct He as ([l e'] & <- & Hin). exact (W3 l e' Hin). }
    clear -Hptr M Unb W3'. induction Hptr as [|e v le lv0 Hv _ IH]; constructor.
    - destruct (stride (sfuel sigma [e]) sigma e) as [[o0 s0]|] eqn:Es; [|discriminate]. cbn [bind fst snd] in Hv. inversion Hv; subst.
      rewrite (stride_affine rho sigma M _ _ _ _ Es). cbn [fst snd]. f_equal. apply lin_eval_agree. intros k c Hkc.
      apply Unb. exact (W3' e (or_introl eq_refl) o0 s0 Es k c Hkc).
    - apply IH. intros e' He'. apply W3'. right. exact He'. }
  split; [exact Evp|].
  (* the output indices *)
  assert (EO : map (lv i2v rho) output = oidx).
  { rewrite <- Eo. symmetry.
    transitivity (evals (env_of pi') outv).
    - apply evals_ext. intros k Hk. assert (Hko : In k (map fst outp)) by exact (wf_keys_fv raw k Wraw Hk).
      unfold pi'. fold po. fold ps. rewrite env_of_app_l by (rewrite (all_envs_keys outp po Hpo); exact Hko).
      rewrite Epo. symmetry. apply restrict_env. exact Hko.
    - symmetry. unfold evals. apply Forall2_map_eq.
      apply (outv_read sigma i2v rho (env_of pi') M SZ Unb).
      + intros l e El. apply sized_of_occ. intros k n Hk. apply VS. apply (occ_fvn l e k n); [apply Hi2v; exact El|exact Hk].
      + apply mapM_Forall2. exact E2.
      + exact V7. }
  (* the valuation of the labels *)
  set (A := lval (combine output oidx ++ combine (summed_labels inputs output) vp)).
  assert (NDr : NoDup (map fst rest)) by (rewrite W1; apply dedup_nat_NoDup).
  assert (HA : forall l, In l (concat inputs) -> A l = lv i2v rho l).
  { intros l Hl. unfold A, lval. rewrite lassoc_app. destruct (in_dec Nat.eq_dec l output) as [Ho|Ho].
    - rewrite <- EO. rewrite (lassoc_combine_map output (lv i2v rho) l Ho). reflexivity.
    - rewrite (lassoc_combine_notin output oidx l Ho).
      assert (Hs' : In l (map fst rest)) by (rewrite W1; apply dedup_nat_In; split; assumption).
      apply in_map_iff in Hs'. destruct Hs' as ([l' e] & El & Hin). simpl in El. subst l'.
      rewrite <- W1, Evp, map_map.
      change (match lassoc l (combine (map fst rest) (map (fun x => eval rho (snd x)) rest)) with Some v => v | None => 0 end)
        with (lval (combine (map fst rest) (map (fun x => eval rho (snd x)) rest)) l).
      rewrite (lval_rest (fun x => eval rho (snd x)) l e Hin).
      + unfold lv. rewrite (W2 l e Hin). reflexivity.
      + intros e' H'. pose proof (W2 l e' H') as X. rewrite (W2 l e Hin) in X. congruence. }
  (* the product *)
  assert (Rin : forall x n, In (x, n) V -> rho x < n).
  { intros x n Hx. apply (ext_bound sigma F SZ (env_of pi') x n K pi' NK HpK eq_refl (VS x n Hx)). intros kn Hkn. exact (VK x n Hx kn Hkn). }
  pose proof (loop_sound rho M) as Co. unfold coinc_b in Co. rewrite forallb_forall in Co.
  transitivity (term o ts rho).
  - unfold einsum_term, term. fold A.
    assert (G : forall (tl : list ptensor) (il : list (list nat)),
              Forall2 (fun t inp => length (vaxes t) = length inp) tl il ->
              (forall l e, In (l, e) (occurrences tl il) -> In (l, e) occ) ->
              (forall t, In t tl -> In t ts) ->
              prodS o (combine (map (dn (R:=R)) tl) il) (fun oi => snd (fst oi) (map A (snd oi))) = prodS o tl (fun t => pget R t rho)).
    { induction 1 as [|t inp tl il Ft F2 IH]; intros Hocc Hsub; [reflexivity|].
      cbn [map combine]. rewrite !(prodS_cons o). f_equal.
      - cbn [fst snd dn]. assert (Ht : In t ts) by (apply Hsub; left; reflexivity).
        rewrite Forall_forall in HW.
        assert (Em : map A inp = evals rho (vaxes t)).
        { symmetry. unfold evals. apply (map_eq_combine (eval rho) A (vaxes t) inp Ft). intros e l Hin.
          assert (Hoc : In (l, e) occ) by (apply Hocc; rewrite occurrences_cons; apply in_or_app; left; exact Hin).
          specialize (Co (l, e) Hoc). simpl in Co. apply Nat.eqb_eq in Co. rewrite Co. symmetry. apply HA.
          apply (in_concat_occ ts inputs l HF). exists e. exact Hoc. }
        rewrite Em. apply denote_backed; [apply wf_covers; apply HW; exact Ht|].
        apply Forall_forall. intros e He. apply inrange_fvn. intros k n Hk. apply Rin.
        unfold V, all_vars. apply in_flat_map. exists t. split; [exact Ht|]. apply (wf_fv R t (HW t Ht)). apply in_flat_map. eauto.
      - apply IH; [|intros t' Ht'; apply Hsub; right; exact Ht'].
        intros l e Hin. apply Hocc. rewrite occurrences_cons. apply in_or_app. right. exact Hin. }
    apply (G ts inputs HF); auto.
  - unfold term, ts. rewrite (prodS_map o). apply prodS_Forall2.
    apply (views_read sigma rho (env_of pi') M Unb). apply Forall2_and; [apply mapM_Forall2; exact E3|exact V2].
Qed.

(** a pointer that attains the physical maximum attains the value of the cell *)
Theorem ptr_attains oidx pi pp vp :
  length oidx = length output ->
  index_list outv [] oidx = IOk pi ->
  In pp (all_assts (map snd sv)) ->
  ptr_translate sigma (map snd rest) outp sv (pcoords outp (env_of pi)) pp = Ok vp ->
  prodS o views (fun v => vw_fn v (map (env_of (combine (map fst outp) (pcoords outp (env_of pi)) ++ combine (map fst sv) pp)) (map fst (vw_vars v))))
  = einsum_views o views outp (pcoords outp (env_of pi)) ->
  einsum_term o (map (dn (R:=R)) ts) inputs (combine output oidx ++ combine (summed_labels inputs output) vp)
  = denote R (er_raw r) oidx.
Proof.
  intros Lo Hidx Hpp Hptr Hmax.
  destruct (ptr_correct oidx pi pp vp Lo Hidx Hpp Hptr) as (_ & _ & Et). rewrite Et, Hmax.
  rewrite Eraw. unfold denote. cbn [vaxes]. fold outv. rewrite Hidx. unfold pget. cbn [physical paxes].
  symmetry. apply phys_out_eq.
  destruct cv_facts as (_ & _ & _ & _ & _ & _ & V6 & _).
  assert (Wraw : wf R (mkPT (phys_out o views outp) outp outv r0)) by (apply (repr_inv_wf R _ (map snd outp)); exact V6).
  destruct (index_list_sound outv [] oidx pi (eq_trans Lo (eq_sym outv_length)) Hidx) as (_ & _ & Hs).
  destruct (Hs (env_of pi) (agrees_env_of pi)) as [_ Ro].
  assert (G : forall kn, In kn outp -> env_of pi (fst kn) < snd kn).
  { intros [k n] Hk. apply (wf_fv R _ Wraw) in Hk. cbn [vaxes] in Hk.
    apply in_flat_map in Hk. destruct Hk as (e & He & Hk). rewrite Forall_forall in Ro. exact (proj2 (inrange_fvn _ e) (Ro e He) k n Hk). }
  unfold pcoords. clear -G. induction outp as [|kn l IH]; simpl; constructor; [apply G; left; reflexivity|].
  apply IH. intros kn' H. apply G. right. exact H.
Qed.

End Run.
End Final.
