(** COMPLETENESS and TOTALITY of [acb_connected] (the Arnborg-Corneil-Proskurowski dynamic programme
    as coded in fggs/factorize.py), for every simple undirected graph and every k:

    - it never fails: neither of the two [assert]s in the loops can fire (the sets [l - m] offered
      to the union are components of g - bag, hence equal or disjoint), no [chart[...]] lookup
      fails, and the final [assert False] is unreachable (when every cell is decided, every
      separator either is dead or has only YES cells, and both cases return earlier);
    - a cell (i, j) whose component j - i is k-eliminable ([kelim], TreeDec_acbopt_elim.v) is
      set to YES (induction over the size order of the cells, using the normal form
      [nf_step]); therefore a separator all of whose components are k-eliminable never becomes
      dead, and if tw(g) <= k such a separator exists ([top_separator]): the programme returns
      a tree.  If it returns False then tw(g) > k. *)
From Coq Require Import List Arith Bool PeanoNat Lia Permutation.
Import ListNotations.
Require Import Fggs.Model.TreeDec Fggs.Proofs.TreeDec_graph Fggs.Proofs.TreeDec_tdok
               Fggs.Proofs.TreeDec_elim Fggs.Proofs.TreeDec_qbb Fggs.Proofs.TreeDec_tw
               Fggs.Proofs.TreeDec_complete Fggs.Proofs.TreeDec_lower
               Fggs.Proofs.TreeDec_rtree Fggs.Proofs.TreeDec_cc Fggs.Proofs.TreeDec_acb
               Fggs.Proofs.TreeDec_acbopt_cc Fggs.Proofs.TreeDec_acbopt_elim
               Fggs.Proofs.TreeDec_acbopt_nf.

(** * the shape of a chart (keys and cell names; unchanged by [chart_set]) *)
Definition shape := list (bag * list bag).
Definition cshape (ch : chart_t) : shape := map (fun p => (fst p, map fst (snd p))) ch.

Lemma row_set_fst row j c : map fst (row_set row j c) = map fst row.
Proof.
  unfold row_set. rewrite map_map. apply map_ext. intro q. cbv beta. destruct (set_eqb _ j); reflexivity.
Qed.
Lemma cshape_set ch i j c : cshape (chart_set ch i j c) = cshape ch.
Proof.
  unfold cshape, chart_set. rewrite map_map. apply map_ext. intro p. cbv beta.
  destruct (set_eqb _ i); cbn [fst snd]; [now rewrite row_set_fst|reflexivity].
Qed.
Lemma in_cshape ch p : In p ch -> In (fst p, map fst (snd p)) (cshape ch).
Proof. intro H. unfold cshape. apply in_map_iff. exists p. auto. Qed.
Lemma cshape_in ch i js : In (i, js) (cshape ch) ->
  exists p, In p ch /\ fst p = i /\ map fst (snd p) = js.
Proof.
  unfold cshape. intro H. apply in_map_iff in H. destruct H as [p [E Hp]]. inversion E; subst. eauto.
Qed.
Lemma cshape_keys ch : map fst (cshape ch) = map fst ch.
Proof. unfold cshape. rewrite map_map. reflexivity. Qed.
Lemma cshape_length ch : length (cshape ch) = length ch.
Proof. unfold cshape. apply map_length. Qed.

Lemma chart_set_cells ch i j c p' q' : In p' (chart_set ch i j c) -> In q' (snd p') ->
  exists p q, In p ch /\ In q (snd p) /\ fst p' = fst p /\ fst q' = fst q /\
              snd q' = (if set_eqb (fst p) i && set_eqb (fst q) j then c else snd q).
Proof.
  unfold chart_set. intros Hp Hq. apply in_map_iff in Hp. destruct Hp as [p [<- Hp]].
  destruct (set_eqb (fst p) i) eqn:Ei; cbn [fst snd] in *.
  - unfold row_set in Hq. apply in_map_iff in Hq. destruct Hq as [q [<- Hq]].
    exists p, q. unfold bag in *. rewrite Ei. destruct (set_eqb (fst q) j); cbn [fst snd andb]; auto 8.
  - exists p, q'. unfold bag in *. rewrite Ei. cbn [andb]. auto 8.
Qed.
Lemma chart_set_length ch i j c : length (chart_set ch i j c) = length ch.
Proof. unfold chart_set. apply map_length. Qed.

Lemma chart_get_exists ch p m : In p ch -> set_eqb (fst p) m = true ->
  exists row, chart_get ch m = Some row.
Proof.
  induction ch as [|p0 ch IH]; intros Hp E; [destruct Hp|]. cbn [chart_get].
  destruct Hp as [->|Hp].
  - unfold bag in *. rewrite E. eauto.
  - match goal with |- context [if ?b then _ else _] => destruct b end; eauto.
Qed.

Lemma row_trees_none row : row_trees row = None -> exists q, In q row /\ cell_yes (snd q) = None.
Proof.
  induction row as [|q row IH]; cbn; intro H; [discriminate|]. fold (row_trees row) in H.
  destruct (cell_yes (snd q)) eqn:E; [|exists q; auto].
  destruct (row_trees row); [discriminate|]. destruct (IH eq_refl) as [q' [H1 H2]]. exists q'. auto.
Qed.

(** keys that are pairwise different as sets *)
Definition sdiff (a b : list nat) : Prop := set_eqb a b = false.
Lemma sdiff_NoDup l : ForallOrdPairs sdiff l -> NoDup l.
Proof.
  induction 1 as [|x l Hx Hl IH]; constructor; auto.
  intro H. rewrite Forall_forall in Hx. specialize (Hx x H). unfold sdiff in Hx.
  rewrite set_eqb_refl in Hx. discriminate.
Qed.
Lemma sdiff_unique l a b : ForallOrdPairs sdiff l -> In a l -> In b l -> set_eqb a b = true -> a = b.
Proof.
  intros F Ha Hb E. destruct (FOP_In sdiff l a b F Ha Hb) as [H|[H|H]]; auto; unfold sdiff in H.
  - congruence.
  - rewrite set_eqb_sym in H. congruence.
Qed.
Lemma NoDup_fst_unique {A B} (l : list (A * B)) a b :
  NoDup (map fst l) -> In a l -> In b l -> fst a = fst b -> a = b.
Proof.
  induction l as [|x l IH]; intros Nd Ha Hb E; [destruct Ha|].
  cbn in Nd. inversion Nd as [|? ? Hx Nd']; subst.
  destruct Ha as [->|Ha]; destruct Hb as [->|Hb]; auto.
  - exfalso. apply Hx. rewrite E. now apply in_map.
  - exfalso. apply Hx. rewrite <- E. now apply in_map.
Qed.

(** * [dead] *)
Lemma dead_add_incl i dead : incl dead (dead_add i dead).
Proof. unfold dead_add. destruct (existsb (set_eqb i) dead); [apply incl_refl|]. intros x Hx. apply in_or_app. auto. Qed.
Lemma dead_add_In i dead x : In x (dead_add i dead) -> x = i \/ In x dead.
Proof.
  unfold dead_add. destruct (existsb (set_eqb i) dead); auto.
  intro H. apply in_app_or in H. destruct H as [H|[H|[]]]; auto.
Qed.

(** * entries in size order *)
Definition esize (e : entry) : nat := fst (fst e).
Definition esorted (l : list entry) : Prop := ForallOrdPairs (fun a b => esize a <= esize b) l.
Lemma insert_by_In' e l x : x = e \/ In x l -> In x (insert_by e l).
Proof.
  induction l as [|y l IH]; cbn [insert_by]; intro H.
  - destruct H as [->|[]]. cbn; auto.
  - destruct (fst (fst e) <=? fst (fst y)).
    + destruct H as [->|H]; cbn; auto.
    + destruct H as [->|[->|H]]; [right; apply IH; auto|cbn; auto|right; apply IH; auto].
Qed.
Lemma insert_by_sorted e l : esorted l -> esorted (insert_by e l).
Proof.
  induction 1 as [|y l Hy Hl IH]; cbn [insert_by].
  - constructor; constructor.
  - destruct (fst (fst e) <=? fst (fst y)) eqn:E.
    + apply Nat.leb_le in E. constructor; [|constructor; auto].
      constructor; [exact E|]. rewrite Forall_forall in *. intros z Hz. specialize (Hy z Hz).
      unfold esize in *. lia.
    + apply Nat.leb_gt in E. constructor; auto. apply Forall_forall. intros z Hz.
      apply insert_by_In in Hz. destruct Hz as [->|Hz]; [unfold esize; lia|].
      rewrite Forall_forall in Hy. auto.
Qed.
Lemma bysize_sorted ch : esorted (bysize ch).
Proof.
  unfold bysize. induction (entries ch) as [|e l IH]; cbn [fold_right]; [constructor|].
  now apply insert_by_sorted.
Qed.
Lemma bysize_In' ch e : In e (entries ch) -> In e (bysize ch).
Proof.
  unfold bysize. induction (entries ch) as [|y l IH]; cbn [fold_right]; intro H; [destruct H|].
  apply insert_by_In'. destruct H as [->|H]; auto.
Qed.
Lemma entries_In ch h i j : In (h, i, j) (entries ch) <->
  exists p q, In p ch /\ In q (snd p) /\ h = length (fst q) /\ i = fst p /\ j = fst q.
Proof.
  unfold entries. rewrite in_flat_map. split.
  - intros [p [Hp H]]. apply in_map_iff in H. destruct H as [q [E Hq]]. inversion E; subst.
    exists p, q. auto.
  - intros [p [q [Hp [Hq [-> [-> ->]]]]]]. exists p. split; auto. apply in_map_iff. exists q. auto.
Qed.
