(** The method [PatternedTensor.project(paxes, vaxes)] (Model/PTensorOps.v, [pt_project]) on typed
    operands: the dense tensor it returns, indexed according to [paxes], is [self] indexed according to
    [vaxes] -- for every typed pair (self, target pattern), whatever the fuel, whenever the model
    answers.  The freshening of a target that shares axes with [self], [new_full(default)], the
    unification of the two patterns (completeness from Proofs/Axis_mgu.v: a missed coincidence would
    leave the [new_full] value visible), the two low-level [project] calls under the unifier and the
    strided [copy_] are all covered. *)
From Coq Require Import List Arith Lia PeanoNat Bool PArith.
Import ListNotations.
Require Import Fggs.Model.Axis Fggs.Model.AxisCheck Fggs.Model.PTensor Fggs.Model.PTensorOps Fggs.Model.PTensorCheck Fggs.Model.PTEqual.
Require Import Fggs.Proofs.Axis_sem Fggs.Proofs.Axis_unify Fggs.Proofs.Axis_complete_gen Fggs.Proofs.Axis_typed Fggs.Proofs.Axis_total.
Require Import Fggs.Proofs.Axis_fuel Fggs.Proofs.Axis_mgu Fggs.Proofs.Axis_rank Fggs.Proofs.Axis_stride_typed Fggs.Proofs.Axis_stride_total.
Require Import Fggs.Proofs.PTensor_sem Fggs.Proofs.PTensor_dense Fggs.Proofs.Axis_repr Fggs.Proofs.PTensor_gen.
Require Import Fggs.Proofs.PTEqual_count Fggs.Proofs.PTEqual_sem Fggs.Proofs.PTEqual_typed Fggs.Proofs.PTEqual_typed_main Fggs.Proofs.PTEqual_freshen.
Require Import Fggs.Proofs.PTensor_d2d Fggs.Proofs.Axis_views.
Local Open Scope nat_scope.

(** the environment that gives the axes [ps] the coordinates [c] *)
Definition cenv (ps : list pn) (c : list nat) : env := env_of (combine (map fst ps) c).

Lemma combine_in_all_envs : forall (ps : list pn) c, in_bounds (map snd ps) c -> In (combine (map fst ps) c) (all_envs ps).
Proof.
  induction ps as [|[k n] ps IH]; intros c B; inversion B as [|i ? c' ? Hi B']; subst; [left; reflexivity|].
  simpl. apply in_flat_map. exists i. split; [apply in_seq; simpl in Hi; lia|]. apply in_map. apply IH. exact B'.
Qed.

Lemma combine_snd : forall (ks : list positive) (c : list nat), length ks = length c -> map snd (combine ks c) = c.
Proof. induction ks as [|k ks IH]; intros [|i c] L; simpl in *; try discriminate; [reflexivity|]. f_equal. apply IH. lia. Qed.

Lemma evals_paxes_axes rho (ps : list pn) : evals rho (paxes_axes' ps) = pcoords ps rho.
Proof. unfold evals, paxes_axes', pcoords. rewrite map_map. reflexivity. Qed.

Lemma pcoords_cenv : forall (ps : list pn) rho c, NoDup (map fst ps) -> pcoords ps rho = c ->
  forall k, In k (map fst ps) -> cenv ps c k = rho k.
Proof.
  induction ps as [|[k0 n0] ps IH]; intros rho c N E k Hk; [contradiction|]. simpl in E. subst c.
  inversion N as [|? ? Hk0 N']; subst. unfold cenv, env_of. simpl. destruct (Pos.eqb_spec k0 k) as [->|Ne]; [reflexivity|].
  destruct Hk as [Hk|Hk]; [simpl in Hk; congruence|]. exact (IH rho _ N' eq_refl k Hk).
Qed.

Lemma fits_pcoords G rho (ps : list pn) : fits G rho -> (forall k n, In (k, n) ps -> n = tsizes (G k) /\ G k <> []) ->
  in_bounds (map snd ps) (pcoords ps rho).
Proof.
  intros F S. unfold in_bounds, pcoords. induction ps as [|[k n] ps IH]; simpl; constructor.
  - destruct (S k n (or_introl eq_refl)) as [-> Gk]. apply F. exact Gk.
  - apply IH. intros k' n' H. apply S. right. exact H.
Qed.

Lemma ctx_below_mono G a b : (a <= b)%positive -> ctx_below G a -> ctx_below G b.
Proof. intros L CB k Hk. apply CB. lia. Qed.

(** the part of [pt_project] after the freshening of the target *)
Definition project_body (V : Type) (pax : list pn) (vax : list axis) (nx : positive) (t : ptensor V)
  : res (list nat * (nat -> V)) :=
  let shp := map snd pax in
  let fuel := 6 * (asize_list (vaxes t) + asize_list vax) + 10 in
  let st0 := {| us_subst := []; us_next := nx; us_warn := false |} in
  r <- unify_list fuel (vaxes t) vax st0 ;;
  if negb (fst r) then Ok (shp, fun _ => default t)
  else
    let sigma := us_subst (snd r) in
    let f2 := fuel + length sigma + 2 in
    sub <- fv_list f2 sigma (paxes_axes' pax) ;;
    selfv <- fv_list f2 sigma (paxes_axes' (paxes t)) ;;
    if negb (forallb (fun kn => pmem (fst kn) (map fst selfv)) sub && forallb (fun kn => pmem (fst kn) (map fst sub)) selfv)
    then Fail OtherError
    else
      st' <- write_all sub
               (fun rho => offs <- at_axes f2 sigma rho (paxes_axes' pax) ;; Ok (flat_offset shp offs))
               (fun rho => c <- at_axes f2 sigma rho (paxes_axes' (paxes t)) ;; Ok (Some (physical t c)))
               (fun _ => default t) ;;
      Ok (shp, st').

Definition project_next (V : Type) (pax : list pn) (vax : list axis) (next : positive) (t : ptensor V) : positive :=
  Pos.succ (fold_left Pos.max (map fst pax ++ flat_map fv vax ++ map fst (paxes t)) next).

Lemma pt_project_unfold (V : Type) pax vax next (t : ptensor V) :
  pt_project V pax vax next t =
  let '(pax', vax') :=
    if existsb (fun kn => pmem (fst kn) (map fst (paxes t))) pax
    then let '(ps, st1) := freshen_list (paxes_axes' pax) {| fs_rename := []; fs_next := next |} in
         let '(vs, _) := freshen_list vax st1 in (flat_map fvn ps, vs)
    else (pax, vax) in
  project_body V pax' vax' (project_next V pax' vax' next t) t.
Proof. unfold pt_project. destruct (existsb _ pax); [|reflexivity]. destruct (freshen_list (paxes_axes' pax) _). destruct (freshen_list vax f). reflexivity. Qed.

Lemma fold_max_ge : forall (l : list positive) a, (a <= fold_left Pos.max l a)%positive /\ forall k, In k l -> (k <= fold_left Pos.max l a)%positive.
Proof.
  induction l as [|x l IH]; intros a; simpl; [split; [lia|intros k []]|].
  destruct (IH (Pos.max a x)) as [H1 H2]. split; [lia|]. intros k [<-|Hk]; [lia|auto].
Qed.

Lemma pmem_In k l : pmem k l = true <-> In k l.
Proof.
  unfold pmem. rewrite existsb_exists. split.
  - intros (x & Hx & E). apply Pos.eqb_eq in E. subst. exact Hx.
  - intros H. exists k. split; [exact H|apply Pos.eqb_refl].
Qed.

Section Core.
Variable V : Type.
Variables t u : ptensor V.
Hypothesis Wt : wf V t.
Hypothesis Wu : wf V u.
Variable G : ctx.
Variable nx : positive.
Variable pss : list (list ity).
Hypothesis CG : ctx_good G.
Hypothesis CB : ctx_below G nx.
Hypothesis Te : tys G (vaxes t) pss.
Hypothesis Tf : tys G (vaxes u) pss.
Hypothesis Gp : Forall gprimes pss.
Hypothesis Dj : forall k, In k (map fst (paxes t)) -> ~ In k (map fst (paxes u)).

Let pax := paxes u.
Let vax := vaxes u.
Let shp := map snd pax.

Lemma len_vaxes : length (vaxes t) = length vax.
Proof. unfold vax. rewrite (tys_length _ _ _ Te), (tys_length _ _ _ Tf). reflexivity. Qed.

(** a physical index of [t] and a cell of the target give a common environment *)
Lemma merged (rho_t : env) c : Forall (inrange rho_t) (vaxes t) -> in_bounds shp c ->
  exists rho0, Forall (inrange rho0) (vaxes t) /\ Forall (inrange rho0) vax /\
    evals rho0 (vaxes t) = evals rho_t (vaxes t) /\ evals rho0 vax = evals (cenv pax c) vax /\
    pcoords pax rho0 = c /\ (forall k, In k (map fst (paxes t)) -> rho0 k = rho_t k).
Proof.
  intros R B.
  assert (Rt : forall k n, In (k, n) (paxes t) -> rho_t k < n).
  { intros k n Hk. apply (wf_fv V t Wt) in Hk. exact (proj1 (inrange_list_fvn rho_t (vaxes t)) R k n Hk). }
  pose proof (restrict_in rho_t (paxes t) Rt) as Hpi. pose proof (combine_in_all_envs pax c B) as Hpj.
  destruct (merge_facts V t u Wt Wu Dj _ _ Hpi Hpj) as (R1 & R2 & E1 & E2 & P1 & P2).
  exists (merge_env (restrict rho_t (paxes t)) (combine (map fst pax) c)).
  split; [exact R1|]. split; [exact R2|]. split; [|split; [|split]].
  - rewrite E1. unfold cell_of. apply evals_ext. intros k Hk. apply restrict_env. apply (fv_paxes V t Wt). exact Hk.
  - exact E2.
  - fold pax in P2. rewrite P2. apply combine_snd. rewrite map_length. unfold in_bounds in B. apply Forall2_len in B.
    unfold shp in B. rewrite map_length in B. lia.
  - intros k Hk. rewrite (merge_left V t _ _ k Hpi Hk). apply restrict_env. exact Hk.
Qed.

Theorem project_core shp0 st :
  project_body V pax vax nx t = Ok (shp0, st) ->
  shp0 = shp /\ forall c, in_bounds shp c -> st (flat_offset shp c) = denote V t (evals (cenv pax c) vax).
Proof.
  unfold project_body. fold shp.
  set (fuel := 6 * (asize_list (vaxes t) + asize_list vax) + 10).
  destruct (unify_list fuel (vaxes t) vax {| us_subst := []; us_next := nx; us_warn := false |}) as [[b st']|] eqn:E; [|discriminate].
  cbn [bind fst snd].
  destruct (unify_typed_mgu_any_fuel G _ _ pss nx _ b st' CG CB Te Tf Gp E) as (Wn & (G' & L & X & T') & HU).
  pose proof len_vaxes as Len.
  destruct b; cbn [negb].
  2:{ intros H. inversion H; subst shp0 st. split; [reflexivity|]. intros c B. symmetry. apply denote_unbacked.
      - rewrite Len. unfold evals. apply map_length.
      - intros rho_t R Ev. destruct (merged rho_t c R B) as (rho0 & R1 & R2 & E1 & E2 & _).
        apply (HU rho0 R1 R2). change (evals rho0 (vaxes t) = evals rho0 vax). rewrite E1, E2. exact Ev. }
  set (sigma := us_subst st') in *. set (f2 := fuel + length sigma + 2).
  destruct (fv_list f2 sigma (paxes_axes' pax)) as [sub|] eqn:Esub; [|discriminate]. cbn [bind].
  destruct (fv_list f2 sigma (paxes_axes' (paxes t))) as [selfv|] eqn:Eself; [|discriminate]. cbn [bind].
  destruct (forallb (fun kn => pmem (fst kn) (map fst selfv)) sub && forallb (fun kn => pmem (fst kn) (map fst sub)) selfv) eqn:Eset; [|discriminate].
  cbn [negb].
  destruct (write_all sub _ _ _) as [st1|] eqn:Ew; [|discriminate]. cbn [bind]. intros H. inversion H; subst shp0 st. clear H.
  split; [reflexivity|].
  pose proof (ts_wts _ _ T') as W. fold sigma in W. pose proof (ts_good _ _ T') as CG'.
  assert (Te' : tys G' (vaxes t) pss) by (eapply tys_ext; eauto).
  assert (Tf' : tys G' vax pss) by (eapply tys_ext; eauto).
  apply andb_true_iff in Eset. destruct Eset as [Es1 Es2]. rewrite forallb_forall in Es1, Es2.
  (* sizes *)
  assert (Sz_t : forall k n, In (k, n) (paxes t) -> n = tsizes (G' k) /\ G' k <> []).
  { intros k n Hk. apply (wf_fv V t Wt) in Hk. exact (tys_sized _ _ _ Te' k n Hk). }
  assert (Sz_u : forall k n, In (k, n) pax -> n = tsizes (G' k) /\ G' k <> []).
  { intros k n Hk. apply (wf_fv V u Wu) in Hk. exact (tys_sized _ _ _ Tf' k n Hk). }
  assert (Sz_s : forall k T, In (k, T) sigma -> forall j n, In (j, n) (fvn T) -> n = tsizes (G' j)).
  { intros k T Hk j n Hj. destruct (wts_ty _ _ W k T Hk) as [_ HT]. exact (proj1 (ty_sized_both G') _ _ HT j n Hj). }
  assert (Below_t : forall k, In k (map fst (paxes t)) -> (k < nx)%positive).
  { intros k Hk. apply in_map_iff in Hk. destruct Hk as ([k' n] & <- & Hk). apply (wf_fv V t Wt) in Hk.
    destruct (tys_sized _ _ _ Te k' n Hk) as [_ Gk]. simpl. destruct (Pos.ltb_spec k' nx) as [Lt|Ge]; [exact Lt|]. exfalso. apply Gk. apply CB. exact Ge. }
  assert (Below_u : forall k, In k (map fst pax) -> (k < nx)%positive).
  { intros k Hk. apply in_map_iff in Hk. destruct Hk as ([k' n] & <- & Hk). apply (wf_fv V u Wu) in Hk.
    destruct (tys_sized _ _ _ Tf k' n Hk) as [_ Gk]. simpl. destruct (Pos.ltb_spec k' nx) as [Lt|Ge]; [exact Lt|]. exfalso. apply Gk. apply CB. exact Ge. }
  destruct (fv_list_keys sigma f2 _ _ Esub) as (ND_sub & K1 & K2 & _).
  destruct (fv_list_keys sigma f2 _ _ Eself) as (_ & _ & K2s & _).
  assert (sub_size : forall j n, In (j, n) sub -> n = tsizes (G' j)).
  { intros j n Hj. eapply (fv_list_sized (fun j => tsizes (G' j)) sigma); [exact Sz_s| |exact Esub|exact Hj].
    intros j' n' Hj'. unfold paxes_axes' in Hj'. apply in_flat_map in Hj'. destruct Hj' as (e & He & Hj'). apply in_map_iff in He.
    destruct He as ([k0 n0] & <- & Hk0). simpl in Hj'. destruct Hj' as [Hj'|[]]. inversion Hj'; subst. exact (proj1 (Sz_u _ _ Hk0)). }
  (* the strides exist (the writes succeeded on the all-zero view index) *)
  assert (Hzero : In (restrict (fun _ => 0) sub) (all_envs sub)).
  { apply restrict_in. intros j n Hj. rewrite (sub_size j n Hj). apply (gprimes_pos _ (CG' j)). }
  destruct (write_all_inv _ _ _ _ _ Ew _ Hzero) as (o0 & v0 & Eo0 & Ev0).
  assert (Hs_u : forall e, In e (paxes_axes' pax) -> exists o s, stride f2 sigma e = Ok (o, s)).
  { destruct (at_axes f2 sigma (env_of (restrict (fun _ => 0) sub)) (paxes_axes' pax)) as [offs|] eqn:A; [|discriminate].
    exact (at_axes_strides _ _ _ _ _ A). }
  assert (Hs_t : forall e, In e (paxes_axes' (paxes t)) -> exists o s, stride f2 sigma e = Ok (o, s)).
  { destruct (at_axes f2 sigma (env_of (restrict (fun _ => 0) sub)) (paxes_axes' (paxes t))) as [cs|] eqn:A; [|discriminate].
    exact (at_axes_strides _ _ _ _ _ A). }
  clear o0 v0 Eo0 Ev0.
  (* keys of all the stride dicts involved lie in sub, and are unbound *)
  assert (Ku : forall e o s j, In e (paxes_axes' pax) -> stride f2 sigma e = Ok (o, s) -> In j (keys s) -> In j (map fst sub)) by exact K2.
  assert (Kt : forall e o s j, In e (paxes_axes' (paxes t)) -> stride f2 sigma e = Ok (o, s) -> In j (keys s) -> In j (map fst sub)).
  { intros e o s j He Es Hj. pose proof (K2s e o s j He Es Hj) as Hin. apply in_map_iff in Hin. destruct Hin as ([j' n] & <- & Hin).
    apply pmem_In. exact (Es2 _ Hin). }
  assert (Usub : forall j, In j (map fst sub) -> assoc j sigma = None /\ exists k n, In (k, n) pax /\ reach sigma k j).
  { intros j Hj. destruct (K1 j Hj Hs_u) as (e & o & s & He & Es & Hjs).
    destruct (stride_keys_ok sigma _ _ _ _ Es) as [_ K]. destruct (K j Hjs) as [U (j0 & Hj0 & R)]. split; [exact U|].
    unfold paxes_axes' in He. apply in_map_iff in He. destruct He as ([k n] & <- & Hk). simpl in Hj0. destruct Hj0 as [<-|[]]. eauto. }
  (* the offsets and values written, as functions of the view index *)
  set (offv := fun pi : list pn => match at_axes f2 sigma (env_of pi) (paxes_axes' pax) with Ok offs => flat_offset shp offs | Fail _ => 0 end).
  set (valv := fun pi : list pn => match at_axes f2 sigma (env_of pi) (paxes_axes' (paxes t)) with Ok c => physical t c | Fail _ => default t end).
  destruct (write_all_spec sub
              (fun rho => offs <- at_axes f2 sigma rho (paxes_axes' pax) ;; Ok (flat_offset shp offs))
              (fun rho => c <- at_axes f2 sigma rho (paxes_axes' (paxes t)) ;; Ok (Some (physical t c)))
              offv valv (fun _ => default t)) as (st2 & Ew2 & S).
  { intros pi _. unfold offv, valv. destruct (at_axes_total sigma f2 (env_of pi) _ Hs_u) as (offs & ->).
    destruct (at_axes_total sigma f2 (env_of pi) _ Hs_t) as (cs & ->). split; reflexivity. }
  rewrite Ew in Ew2. inversion Ew2; subst st2. clear Ew2.
  (* every view index denotes an environment *)
  assert (P : forall pi, In pi (all_envs sub) -> exists rho, models rho sigma /\ fits G' rho /\
            offv pi = flat_offset shp (pcoords pax rho) /\ valv pi = pget V t rho).
  { intros pi Hpi. destruct (env_model G' sigma CG' W sub pi ND_sub sub_size Hpi) as (rho & M & F & A).
    exists rho. split; [exact M|]. split; [exact F|]. unfold offv, valv.
    destruct (at_axes_total sigma f2 (env_of pi) _ Hs_u) as (offs & Eo). destruct (at_axes_total sigma f2 (env_of pi) _ Hs_t) as (cs & Ec).
    rewrite Eo, Ec. split.
    - f_equal. rewrite <- evals_paxes_axes. eapply at_axes_model; eauto. intros e o s j He Es Hj.
      symmetry. apply A. exact (proj1 (Usub j (Ku e o s j He Es Hj))).
    - unfold pget. f_equal. rewrite <- evals_paxes_axes. eapply at_axes_model; eauto. intros e o s j He Es Hj.
      symmetry. apply A. exact (proj1 (Usub j (Kt e o s j He Es Hj))). }
  intros c B. destruct (S (flat_offset shp c)) as [S1 S2].
  destruct (existsb (fun pi => Nat.eqb (offv pi) (flat_offset shp c)) (all_envs sub)) eqn:Ex.
  - (* the cell is written *)
    apply existsb_exists in Ex. destruct Ex as (pi0 & Hpi0 & Eq0). apply Nat.eqb_eq in Eq0.
    apply S2; [exists pi0; auto|]. intros pi Hpi Eq.
    destruct (P pi Hpi) as (rho & M & F & Eo & Ev). rewrite Ev. rewrite Eo in Eq.
    assert (Pc : pcoords pax rho = c).
    { apply (flat_offset_inj shp); [apply fits_pcoords with (G := G'); assumption|exact B|exact Eq]. }
    pose proof (tys_inrange _ _ _ _ Te' F) as R1. pose proof (tys_inrange _ _ _ _ Tf' F) as R2.
    pose proof (proj1 (HU rho R1 R2) M) as Snd. change (evals rho (vaxes t) = evals rho vax) in Snd.
    rewrite <- (denote_backed V t rho (wf_covers V t Wt) R1), Snd. f_equal. apply evals_ext. intros k Hk.
    symmetry. apply (pcoords_cenv pax rho c (wf_nodup V u Wu) Pc). apply (fv_paxes V u Wu). exact Hk.
  - (* the cell keeps the [new_full] value: no element of [t] is mapped there *)
    rewrite S1.
    2:{ intros pi Hpi Eq. assert (existsb (fun pi => Nat.eqb (offv pi) (flat_offset shp c)) (all_envs sub) = true); [|congruence].
        apply existsb_exists. exists pi. split; [exact Hpi|apply Nat.eqb_eq; exact Eq]. }
    symmetry. apply denote_unbacked; [rewrite Len; unfold evals; apply map_length|].
    intros rho_t R Ev. destruct (merged rho_t c R B) as (rho0 & R1 & R2 & E1 & E2 & Pc & At).
    destruct (proj2 (HU rho0 R1 R2)) as (rho' & Xr & Rs & M).
    { change (evals rho0 (vaxes t) = evals rho0 vax). rewrite E1, E2. exact Ev. }
    assert (Rsub : forall j n, In (j, n) sub -> rho' j < n).
    { intros j n Hj. destruct (Usub j) as [_ (k & m & Hk & R')]; [apply in_map_iff; exists (j, n); auto|].
      rewrite (sub_size j n Hj).
      destruct (reach_occurs _ _ _ R') as [<-|(k' & T & Hk' & HjT)].
      - rewrite (Xr k) by (apply Below_u; apply in_map_iff; exists (k, m); auto).
        rewrite <- (proj1 (Sz_u k m Hk)). apply (proj1 (inrange_list_fvn rho0 vax) R2). apply (wf_fv V u Wu). exact Hk.
      - unfold inr_s in Rs. rewrite Forall_forall in Rs. specialize (Rs _ Hk'). simpl in Rs.
        rewrite fv_fvn in HjT. apply in_map_iff in HjT. destruct HjT as ([j' n'] & Ej & HjT). simpl in Ej. subst j'.
        rewrite <- (Sz_s k' T Hk' j n' HjT). exact (fvn_of_inrange rho' T Rs j n' HjT). }
    pose proof (restrict_in rho' sub Rsub) as Hg.
    assert (existsb (fun pi => Nat.eqb (offv pi) (flat_offset shp c)) (all_envs sub) = true); [|congruence].
    apply existsb_exists. exists (restrict rho' sub). split; [exact Hg|]. apply Nat.eqb_eq. unfold offv.
    destruct (at_axes_total sigma f2 (env_of (restrict rho' sub)) _ Hs_u) as (offs & Eo). rewrite Eo. f_equal.
    rewrite (at_axes_model sigma f2 _ rho' _ _ Eo M).
    + rewrite evals_paxes_axes, <- Pc. apply pcoords_ext. intros k Hk. apply Xr. apply Below_u. exact Hk.
    + intros e o s j He Es Hj. apply restrict_env. exact (Ku e o s j He Es Hj).
Qed.

End Core.

(** * the theorem, including the freshening of the target *)
Section Project.
Variable V : Type.
Variables t u : ptensor V.      (* [u] carries the target: [paxes u], [vaxes u] *)
Variable G : ctx.
Variable next : positive.
Variable pss : list (list ity).
Hypothesis TP : typed_pair V G next pss t u.

Let Wt := tp_wft _ _ _ _ _ _ TP.
Let Wu := tp_wfu _ _ _ _ _ _ TP.

(** a context that knows exactly the axes below [nx] *)
Definition cut_ctx (G0 : ctx) (nx : positive) : ctx := fun k => if Pos.ltb k nx then G0 k else [].

Lemma cut_ctx_good G0 nx : ctx_good G0 -> ctx_good (cut_ctx G0 nx).
Proof. intros C k. unfold cut_ctx. destruct (Pos.ltb k nx); [apply C|constructor]. Qed.
Lemma cut_ctx_below G0 nx : ctx_below (cut_ctx G0 nx) nx.
Proof. intros k Hk. unfold cut_ctx. destruct (Pos.ltb_spec k nx); [lia|reflexivity]. Qed.
Lemma cut_ctx_tys G0 nx es qss : tys G0 es qss -> (forall k, In k (flat_map fv es) -> (k < nx)%positive) -> tys (cut_ctx G0 nx) es qss.
Proof. intros T B. apply (tys_agree G0); [exact T|]. intros k Hk. unfold cut_ctx. destruct (Pos.ltb_spec k nx); [reflexivity|specialize (B k Hk); lia]. Qed.

Lemma project_next_above (w : ptensor V) k :
  In k (map fst (paxes w)) \/ In k (flat_map fv (vaxes w)) \/ In k (map fst (paxes t)) ->
  (k < project_next V (paxes w) (vaxes w) next t)%positive.
Proof.
  intros H. unfold project_next. destruct (fold_max_ge (map fst (paxes w) ++ flat_map fv (vaxes w) ++ map fst (paxes t)) next) as [_ H2].
  assert (In k (map fst (paxes w) ++ flat_map fv (vaxes w) ++ map fst (paxes t))).
  { apply in_or_app. destruct H as [H|[H|H]]; [left; exact H|right; apply in_or_app; left; exact H|right; apply in_or_app; right; exact H]. }
  specialize (H2 k H0). lia.
Qed.

Theorem project_refines shp st :
  pt_project V (paxes u) (vaxes u) next t = Ok (shp, st) ->
  shp = map snd (paxes u) /\
  forall c, in_bounds shp c -> st (flat_offset shp c) = denote V t (evals (cenv (paxes u) c) (vaxes u)).
Proof.
  rewrite pt_project_unfold.
  destruct (existsb (fun kn => pmem (fst kn) (map fst (paxes t))) (paxes u)) eqn:Sh.
  - (* the target shares axes with [t]: it is freshened *)
    pose proof (pt_freshen_eq V u next Wu) as Fe. unfold pt_freshen in Fe.
    change (map (fun kn : pn => Phys (fst kn) (snd kn)) (paxes u)) with (paxes_axes' (paxes u)) in Fe.
    destruct (freshen_list (paxes_axes' (paxes u)) {| fs_rename := []; fs_next := next |}) as [ps st1].
    destruct (freshen_list (vaxes u) st1) as [vs st2]. cbn [fst] in Fe.
    set (g := ren_of (new_rename (paxes u) next)) in *.
    set (u' := fst (pt_freshen V next u)).
    assert (Eu' : u' = mkPT (physical u) (flat_map fvn ps) vs (default u)).
    { unfold u'. rewrite (pt_freshen_eq V u next Wu). fold g. symmetry. exact Fe. }
    assert (Ep : flat_map fvn ps = paxes u') by (rewrite Eu'; reflexivity).
    assert (Evs : vs = vaxes u') by (rewrite Eu'; reflexivity).
    rewrite Ep, Evs. intros H.
    set (nx := project_next V (paxes u') (vaxes u') next t) in *.
    pose proof (pt_freshen_wf V u next Wu) as Wu'. fold u' in Wu'.
    assert (Dj : forall k, In k (map fst (paxes t)) -> ~ In k (map fst (paxes u'))).
    { intros k Hk Hu. pose proof (keys_below_next V t u G next pss TP t Wt (tp_t _ _ _ _ _ _ TP) k Hk).
      pose proof (pt_freshen_fresh V u next Wu k Hu). lia. }
    destruct (project_core V t u' Wt Wu' (cut_ctx (fresh_ctx V u G next) nx) nx pss) with (shp0 := shp) (st := st) as [E1 E2].
    + apply cut_ctx_good. exact (fresh_ctx_good V t u G next pss TP).
    + apply cut_ctx_below.
    + apply cut_ctx_tys; [exact (fresh_tys_t V t u G next pss TP)|]. intros k Hk. apply (project_next_above u'). right. right.
      apply (fv_paxes V t Wt). exact Hk.
    + apply cut_ctx_tys; [exact (fresh_tys_u V t u G next pss TP)|]. intros k Hk. apply (project_next_above u'). right. left. exact Hk.
    + apply TP.
    + exact Dj.
    + exact H.
    + assert (Esh : map snd (paxes u') = map snd (paxes u)).
      { unfold u'. rewrite (pt_freshen_paxes V u next Wu), map_map. apply map_ext. intros [k n]. reflexivity. }
      rewrite Esh in E1, E2. split; [exact E1|]. rewrite E1. intros c B. rewrite (E2 c B). f_equal.
      unfold u'. rewrite (pt_freshen_vaxes V u next Wu), (pt_freshen_paxes V u next Wu). fold g.
      unfold evals. rewrite map_map. apply map_ext_in. intros e He. rewrite eval_rename. apply eval_ext. intros k Hk.
      assert (Hkp : In k (map fst (paxes u))) by (apply (fv_paxes V u Wu); apply in_flat_map; eauto).
      (* the renamed axis at position i gets coordinate c_i, like the original one *)
      assert (Len : length c = length (paxes u)).
      { apply Forall2_len in B. rewrite map_length in B. exact B. }
      clear - Hkp Len Wu. pose proof (wf_nodup V u Wu) as ND.
      assert (Inj : forall k1 k2, In k1 (map fst (paxes u)) -> In k2 (map fst (paxes u)) -> g k1 = g k2 -> k1 = k2).
      { intros k1 k2 H1 H2 Eg. apply in_map_iff in H1. destruct H1 as ([k1' n1] & <- & H1). apply in_map_iff in H2.
        destruct H2 as ([k2' n2] & <- & H2). simpl in *. eapply (ren_inj (paxes u) next); eauto. }
      revert c Len ND Inj Hkp. generalize (paxes u). induction l as [|[k0 n0] l IH]; intros c Len ND Inj Hkp; [contradiction|].
      destruct c as [|i c]; [discriminate|]. unfold cenv, env_of. simpl.
      destruct (Pos.eqb_spec k0 k) as [->|Ne].
      * rewrite Pos.eqb_refl. reflexivity.
      * destruct (Pos.eqb_spec (g k0) (g k)) as [Eg|_].
        { exfalso. apply Ne. apply Inj; [left; reflexivity|exact Hkp|exact Eg]. }
        destruct Hkp as [Hkp|Hkp]; [simpl in Hkp; congruence|]. inversion ND; subst.
        apply (IH c); [simpl in Len; lia|assumption| |exact Hkp]. intros k1 k2 Ha Hb. apply Inj; right; assumption.
  - (* disjoint already *)
    intros H.
    set (nx := project_next V (paxes u) (vaxes u) next t) in *.
    assert (Dj : forall k, In k (map fst (paxes t)) -> ~ In k (map fst (paxes u))).
    { intros k Hk Hu. assert (existsb (fun kn => pmem (fst kn) (map fst (paxes t))) (paxes u) = true); [|congruence].
      apply in_map_iff in Hu. destruct Hu as ([k' n] & <- & Hu). apply existsb_exists. exists (k', n). split; [exact Hu|]. apply pmem_In. exact Hk. }
    destruct (project_core V t u Wt Wu (cut_ctx G nx) nx pss) with (shp0 := shp) (st := st) as [E1 E2].
    + apply cut_ctx_good. apply TP.
    + apply cut_ctx_below.
    + apply cut_ctx_tys; [apply TP|]. intros k Hk. apply (project_next_above u). right. right. apply (fv_paxes V t Wt). exact Hk.
    + apply cut_ctx_tys; [apply TP|]. intros k Hk. apply (project_next_above u). right. left. exact Hk.
    + apply TP.
    + exact Dj.
    + exact H.
    + split; [exact E1|]. rewrite E1. exact E2.
Qed.

End Project.

(** the hypotheses are satisfiable: the dense 3 x 3 matrix read along the diagonal pattern of [ex_diag]
    (disjoint axes), and the diagonal tensor read along its own pattern (shared axes: the target is
    freshened); both give the vector of diagonal elements *)
Require Import Fggs.Model.XVal Fggs.Proofs.PTEqual_examples Fggs.Proofs.PTEqual_typed_ex.

Example project_ex :
  typed_pair xval (ctx_of_list [(1%positive, [TAtom 3]); (2%positive, [TAtom 3]); (3%positive, [TAtom 3])]) 10
             [[TAtom 3]; [TAtom 3]] ex_dense ex_diag /\
  typed_pair xval (ctx_of_list [(1%positive, [TAtom 3])]) 10 [[TAtom 3]; [TAtom 3]] ex_diag ex_diag /\
  (exists st, pt_project xval (paxes ex_diag) (vaxes ex_diag) 10 ex_dense = Ok ([3], st) /\ map st [0; 1; 2] = map xval_of [qx (Zpos 1); qx (Zpos 2); qx (Zpos 3)]) /\
  (exists st, pt_project xval (paxes ex_diag) (vaxes ex_diag) 10 ex_diag = Ok ([3], st) /\ map st [0; 1; 2] = map xval_of [qx (Zpos 1); qx (Zpos 2); qx (Zpos 3)]).
Proof.
  split; [apply typed_pair_tb_sound; vm_compute; reflexivity|].
  split; [apply typed_pair_tb_sound; vm_compute; reflexivity|].
  split; eexists; (split; [vm_compute; reflexivity|vm_compute; reflexivity]).
Qed.
