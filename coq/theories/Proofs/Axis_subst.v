(** [clone(subst)] and [prime_factors(subst)] under a model of the substitution (the uses that follow a
    unifier: [reshape_or_view]).  For a size-preserving substitution ([Sized]) and an environment
    satisfying its equations, the clone evaluates like the axis and mentions unbound axes only; the
    prime factors multiply to the size of the axis and their mixed-radix value is its value. *)
From Coq Require Import List Arith Lia PeanoNat Bool PArith.
Import ListNotations.
Require Import Fggs.Model.Axis.
Require Import Fggs.Proofs.Axis_sem Fggs.Proofs.Axis_unify Fggs.Proofs.Axis_antiunify Fggs.Proofs.Axis_antiunify_inv.
Require Import Fggs.Proofs.PTensor_sem Fggs.Proofs.PTensor_dense Fggs.Proofs.PTensor_views Fggs.Proofs.PTensor_gen.
Require Import Fggs.Proofs.Axis_clone.

Lemma Forall2_impl_in' {A B} (P Q : A -> B -> Prop) l l' :
  Forall2 P l l' -> (forall x y, In x l -> P x y -> Q x y) -> Forall2 Q l l'.
Proof.
  induction 1 as [|x y l l' Hxy _ IH]; intros H; constructor.
  - apply H; [left; reflexivity|exact Hxy].
  - apply IH. intros a b Ha. apply H. right. exact Ha.
Qed.

(** every binding preserves the size recorded in the physical axes that mention it *)
Definition Sized (sigma : subst) : Prop := forall k c, assoc k sigma = Some c -> sized_for sigma c.

Lemma sized_for_sum sigma b t a : sized_for sigma (Sum b t a) -> sized_for sigma t.
Proof. intros S k n c Hk Ha. exact (S k n c Hk Ha). Qed.

Lemma lookup_sized sigma : Sized sigma -> forall fuel e e', sized_for sigma e -> lookup fuel sigma e = Ok e' ->
  numel e' = numel e /\ sized_for sigma e'.
Proof.
  intros SZ. induction fuel as [|fuel IH]; intros e e' Se H; destruct e as [k n|l|b t a]; simpl in H;
    try (inversion H; subst; split; [reflexivity|exact Se]).
  - destruct (assoc k sigma) eqn:E; [discriminate|inversion H; subst; split; [reflexivity|exact Se]].
  - destruct (assoc k sigma) as [c|] eqn:E; [|inversion H; subst; split; [reflexivity|exact Se]].
    destruct (IH c e' (SZ k c E) H) as [N S']. split; [|exact S']. rewrite N. simpl.
    apply (Se k n c); [left; reflexivity|exact E].
Qed.

(** * clone *)
Lemma clone_sem_models rho sigma : models rho sigma -> Sized sigma ->
  forall fuel e c, sized_for sigma e -> clone fuel sigma e = Ok c -> numel c = numel e /\ eval rho c = eval rho e.
Proof.
  intros M SZ. induction fuel as [|fuel IH]; intros e c Se H; [discriminate|].
  destruct e as [k n|l|b t a]; cbn [clone] in H.
  - destruct (assoc k sigma) as [c0|] eqn:E.
    + destruct (IH c0 c (SZ k c0 E) H) as [N Ev]. split.
      * rewrite N. apply (Se k n c0); [left; reflexivity|exact E].
      * rewrite Ev. simpl. symmetry. eapply assoc_models; eauto.
    + inversion H; subst. split; reflexivity.
  - destruct (mapM (clone fuel sigma) l) as [l'|] eqn:E; [|discriminate]. cbn [bind] in H. inversion H; subst.
    apply mapM_Forall2' in E.
    assert (F : Forall2 (fun x y => numel y = numel x /\ eval rho y = eval rho x) l l').
    { apply (Forall2_impl_in' _ _ _ _ E). intros x y Hx Hxy. apply (IH x y); [eapply sized_for_factor; eauto|exact Hxy]. }
    assert (G : evalL rho l' = evalL rho l /\ prodn l' = prodn l).
    { clear - F. induction F as [|x y l l' [N Ev] _ [I1 I2]]; [split; reflexivity|].
      rewrite !evalL_cons, !prodn_cons, N, Ev, I1, I2. split; reflexivity. }
    destruct G as [G1 G2]. split.
    + rewrite (proj2 (productAxis_sem rho l')). exact G2.
    + rewrite (proj1 (productAxis_sem rho l')). exact G1.
  - destruct (clone fuel sigma t) as [t'|] eqn:E; [|discriminate]. cbn [bind] in H. inversion H; subst.
    destruct (IH t t' (sized_for_sum _ _ _ _ Se) E) as [N Ev]. split; simpl; [rewrite N|rewrite Ev]; reflexivity.
Qed.

Lemma clone_unbound sigma : forall fuel e c, clone fuel sigma e = Ok c -> forall k, In k (fv c) -> assoc k sigma = None.
Proof.
  induction fuel as [|fuel IH]; intros e c H k Hk; [discriminate|].
  destruct e as [k0 n|l|b t a]; cbn [clone] in H.
  - destruct (assoc k0 sigma) as [c0|] eqn:E; [exact (IH c0 c H k Hk)|].
    inversion H; subst. destruct Hk as [<-|[]]. exact E.
  - destruct (mapM (clone fuel sigma) l) as [l'|] eqn:E; [|discriminate]. cbn [bind] in H. inversion H; subst.
    apply fv_productAxis' in Hk. apply in_flat_map in Hk. destruct Hk as (y & Hy & Hk).
    apply mapM_Forall2' in E. clear H. induction E as [|x y' l l' Hxy _ IHl]; [contradiction|].
    destruct Hy as [<-|Hy]; [exact (IH x y' Hxy k Hk)|exact (IHl Hy)].
  - destruct (clone fuel sigma t) as [t'|] eqn:E; [|discriminate]. cbn [bind] in H. inversion H; subst.
    exact (IH t t' E k Hk).
Qed.

(** * prime_factors *)
Definition pf_fold (fuel : nat) (sigma : subst) (l : list axis) (acc : res (list axis)) : res (list axis) :=
  fold_left (fun acc x => a <- acc ;; r <- prime_factors fuel sigma x ;; Ok (a ++ r)) l acc.

Lemma pf_fold_fail fuel sigma l e : pf_fold fuel sigma l (Fail e) = Fail e.
Proof. induction l as [|x l IH]; [reflexivity|exact IH]. Qed.

Lemma pf_fold_spec fuel sigma : forall l a0 pf, pf_fold fuel sigma l (Ok a0) = Ok pf ->
  exists rs, Forall2 (fun x r => prime_factors fuel sigma x = Ok r) l rs /\ pf = a0 ++ concat rs.
Proof.
  induction l as [|x l IH]; intros a0 pf H.
  - simpl in H. inversion H; subst. exists []. split; [constructor|simpl; rewrite app_nil_r; reflexivity].
  - unfold pf_fold in H. simpl in H. destruct (prime_factors fuel sigma x) as [r|] eqn:E.
    + cbn [bind] in H. destruct (IH _ _ H) as (rs & F & ->). exists (r :: rs). split; [constructor; assumption|].
      simpl. rewrite app_assoc. reflexivity.
    + cbn [bind] in H. fold (pf_fold fuel sigma l (Fail e)) in H. rewrite pf_fold_fail in H. discriminate.
Qed.

Lemma evalL_concat rho (rs : list (list axis)) (l : list axis) :
  Forall2 (fun x r => eval rho x = evalL rho r /\ numel x = prodn r) l rs ->
  evalL rho l = evalL rho (concat rs) /\ prodn l = prodn (concat rs).
Proof.
  induction 1 as [|x r l rs [E N] _ [I1 I2]]; [split; reflexivity|].
  cbn [concat]. rewrite evalL_cons, prodn_cons, evalL_app, prodn_app, E, N, I1, I2. split; reflexivity.
Qed.

Theorem prime_factors_sem rho sigma : models rho sigma -> Sized sigma ->
  forall fuel e pf, sized_for sigma e -> prime_factors fuel sigma e = Ok pf ->
  eval rho e = evalL rho pf /\ numel e = prodn pf.
Proof.
  intros M SZ. induction fuel as [|fuel IH]; intros e pf Se H; [discriminate|].
  destruct e as [k n|l|b t a]; cbn [prime_factors] in H.
  - destruct (lookup (lookup_fuel sigma) sigma (Phys k n)) as [look|] eqn:L; [|discriminate]. cbn [bind] in H.
    destruct (same_object look (Phys k n)).
    + inversion H; subst. unfold evalL, prodn. simpl. split; lia.
    + destruct (lookup_sized sigma SZ _ _ _ Se L) as [N S']. destruct (IH look pf S' H) as [E1 E2].
      rewrite <- (lookup_sem rho sigma M _ _ _ L), <- N. split; assumption.
  - change (pf_fold fuel sigma l (Ok []) = Ok pf) in H. destruct (pf_fold_spec _ _ _ _ _ H) as (rs & F & ->).
    cbn [app]. rewrite eval_Prod, numel_Prod.
    apply (evalL_concat rho rs). apply (Forall2_impl_in' _ _ _ _ F). intros x r Hx Hr.
    apply (IH x r); [eapply sized_for_factor; eauto|exact Hr].
  - inversion H; subst. unfold evalL, prodn. simpl. split; lia.
Qed.

(** every prime factor is a sum axis or an unbound physical axis; the physical ones come from the axis
    itself or from inside a binding *)
Theorem prime_factors_vars sigma : forall fuel e pf, prime_factors fuel sigma e = Ok pf ->
  forall p, In p pf -> match p with
                       | Phys k n => assoc k sigma = None /\ (In (k, n) (fvn e) \/ exists k0 c, In (k0, c) sigma /\ In (k, n) (fvn c))
                       | Prod _ => False
                       | Sum _ _ _ => True
                       end.
Proof.
  induction fuel as [|fuel IH]; intros e pf H p Hp; [discriminate|].
  destruct e as [k n|l|b t a]; cbn [prime_factors] in H.
  - destruct (lookup (lookup_fuel sigma) sigma (Phys k n)) as [look|] eqn:L; [|discriminate]. cbn [bind] in H.
    destruct (same_object look (Phys k n)) eqn:SO.
    + inversion H; subst. destruct Hp as [<-|[]]. destruct look as [k' n'| |]; try discriminate.
      simpl in SO. apply Pos.eqb_eq in SO. subst k'. split; [exact (lookup_unbound _ _ _ _ _ L)|left; left; reflexivity].
    + specialize (IH look pf H p Hp). destruct p as [k1 n1| |]; try exact IH. destruct IH as [U [I|I]]; split; try exact U.
      * destruct (lookup_cases _ _ _ _ L) as [->|(k0 & Hk0)]; [left; exact I|right; exists k0, look; auto].
      * right. exact I.
  - change (pf_fold fuel sigma l (Ok []) = Ok pf) in H. destruct (pf_fold_spec _ _ _ _ _ H) as (rs & F & ->).
    simpl in Hp. apply in_concat in Hp. destruct Hp as (r & Hr & Hp).
    clear H. induction F as [|x r' l rs Hxr _ IHl]; [contradiction|].
    destruct Hr as [<-|Hr].
    + specialize (IH x r' Hxr p Hp). destruct p as [k1 n1| |]; try exact IH. destruct IH as [U [I|I]]; split; try exact U.
      * left. simpl. apply in_or_app. left. exact I.
      * right. exact I.
    + specialize (IHl Hr). destruct p as [k1 n1| |]; try exact IHl. destruct IHl as [U [I|I]]; split; try exact U.
      * left. simpl. apply in_or_app. right. exact I.
      * right. exact I.
  - inversion H; subst. destruct Hp as [<-|[]]. exact I.
Qed.
