(** C17: soundness of the executable specifications used to judge the implementation's output:
    [conj_rule_ok] implies the conclusion of C17_rule ([conj_rule_spec]); [conj_hrg_ok] implies
    that the rules of the output grammar are, one for one, conjunctions of the conjoinable pairs
    of rule occurrences. *)
From Coq Require Import List Arith Bool PeanoNat Lia Permutation.
Import ListNotations.
Require Import Fggs.Model.Conj Fggs.Proofs.ConjBase Fggs.Proofs.ConjSort Fggs.Proofs.ConjRule.

Lemma remove_first_some {A} (p : A -> bool) : forall l l',
  remove_first p l = Some l' -> exists x, p x = true /\ Permutation l (x :: l').
Proof.
  induction l as [|a l IH]; simpl; intros l' H; [discriminate|].
  destruct (p a) eqn:E.
  - injection H as <-. exists a. auto.
  - destruct (remove_first p l) as [l0|]; [|discriminate]. simpl in H. injection H as <-.
    destruct (IH l0 eq_refl) as [x [Px P]]. exists x. split; [exact Px|].
    eapply Permutation_trans; [apply perm_skip; exact P | apply perm_swap].
Qed.

(** the greedy matcher finds a one-to-one matching of [todo] with [xs] *)
Lemma match_list_sound {A B} (p : A -> B -> bool) : forall xs todo,
  match_list p todo xs = true ->
  exists ps, Permutation ps todo /\ Forall2 (fun a x => p a x = true) ps xs.
Proof.
  induction xs as [|x xs IH]; simpl; intros todo H.
  - destruct todo; [|discriminate]. exists []. split; constructor.
  - destruct (remove_first (fun a => p a x) todo) as [todo'|] eqn:R; [|discriminate].
    apply remove_first_some in R. destruct R as [a [Pa P]].
    destruct (IH _ H) as [ps [P' F]]. exists (a :: ps). split.
    + eapply Permutation_trans; [apply perm_skip; exact P' | apply Permutation_sym; exact P].
    + constructor; assumption.
Qed.

Lemma nt_edge_ok_sound : forall m p e, nt_edge_ok m p e = true -> nt_edge_rel m p e.
Proof.
  intros m p e H. unfold nt_edge_ok in H. repeat rewrite andb_true_iff in H.
  destruct H as [[A B] C]. unfold nt_edge_rel.
  destruct (nt_get m (e_lab (fst p), e_lab (snd p))) as [l|]; [|discriminate].
  apply elabel_eqb_eq in A. apply nodes_eqb_eq in B. subst l.
  split; [reflexivity|]. split; [exact B|].
  destruct (is_int_id (e_id (fst p))); [exact C | apply Nat.eqb_eq; exact C].
Qed.

Lemma t_edge_ok_sound : forall x e, t_edge_ok x e = true -> t_edge_rel x e.
Proof.
  intros [b x] e H. unfold t_edge_ok in H. unfold t_edge_rel. simpl in *. destruct b.
  - apply edge_eqb_eq. exact H.
  - repeat rewrite andb_true_iff in H. destruct H as [[A B] C].
    apply elabel_eqb_eq in A. apply nodes_eqb_eq in B. unfold t2_rel.
    split; [exact A|]. split; [exact B|]. apply orb_true_iff in C.
    destruct C as [C|C]; [left; apply Nat.eqb_eq; exact C | right; exact C].
Qed.

Lemma Forall2_impl {A B} (P Q : A -> B -> Prop) : (forall a b, P a b -> Q a b) ->
  forall l l', Forall2 P l l' -> Forall2 Q l l'.
Proof. intros H. induction 1; constructor; auto. Qed.

Theorem conj_rule_ok_sound : forall r1 r2 m r,
  conj_rule_ok r1 r2 m r = true -> conj_rule_spec r1 r2 m r.
Proof.
  intros r1 r2 m r H. unfold conj_rule_ok in H. repeat rewrite andb_true_iff in H.
  destruct H as [[[[[[[A1 A2] A3] A4] A5] A6] A7] A8].
  apply wf_rule_b_spec in A8.
  pose proof (proj1 (set_eqb_spec node_eqb node_eqb_eq _ _) A2) as S2.
  pose proof (proj1 (set_eqb_spec node_eqb node_eqb_eq _ _) A3) as S3.
  apply nodes_eqb_eq in A4. apply nats_eqb_eq in A5.
  apply match_list_sound in A6. apply match_list_sound in A7.
  unfold conj_rule_spec.
  split. { destruct (nt_get m (r_lhs r1, r_lhs r2)) as [l|]; [|discriminate].
           apply elabel_eqb_eq in A1. rewrite A1. reflexivity. }
  split; [exact S2|]. split; [exact S3|]. split; [exact A4|]. split; [exact A5|].
  split; [|split; [|exact A8]].
  - destruct A6 as [ps [P F]]. exists ps. split; [exact P|].
    eapply Forall2_impl; [|exact F]. intros a b. apply nt_edge_ok_sound.
  - destruct A7 as [ts [P F]]. exists ts. split; [exact P|].
    eapply Forall2_impl; [|exact F]. intros a b. apply t_edge_ok_sound.
Qed.

(** the output grammar consists, one for one, of conjunctions of the conjoinable pairs *)
Definition conj_hrg_spec (h1 h2 : hrg) (m : ntmap) (g : hrg) : Prop :=
  nt_get m (h_start h1, h_start h2) = Some (h_start g) /\
  exists ps, Permutation ps (cpairs h1 h2) /\
             Forall2 (fun p r => conj_rule_spec (fst (snd p)) (snd (snd p)) m r) ps (all_rules g).

Theorem conj_hrg_ok_sound : forall h1 h2 m g,
  conj_hrg_ok h1 h2 m g = true -> conj_hrg_spec h1 h2 m g.
Proof.
  intros h1 h2 m g H. unfold conj_hrg_ok in H. repeat rewrite andb_true_iff in H.
  destruct H as [[A1 A2] _]. unfold conj_hrg_spec. split.
  - destruct (nt_get m (h_start h1, h_start h2)) as [s|]; [|discriminate].
    apply elabel_eqb_eq in A1. rewrite A1. reflexivity.
  - unfold match_rules in A2. apply match_list_sound in A2. destruct A2 as [ps [P F]].
    exists ps. split; [exact P|]. eapply Forall2_impl; [|exact F].
    intros a b. apply conj_rule_ok_sound.
Qed.
