(** C17: soundness of the executable specifications used to judge the implementation's output:
    [conj_rule_ok] implies the conclusion of C17_rule ([conj_rule_spec]); [conj_hrg_ok] implies
    that the rules of the output grammar are, one for one, conjunctions of the conjoinable pairs
    of rule occurrences. *)
From Coq Require Import List Arith Bool PeanoNat Lia Permutation.
Import ListNotations.
Require Import Fggs.Model.Conj Fggs.Proofs.ConjBase Fggs.Proofs.ConjSort Fggs.Proofs.ConjRule.

Lemma find_edge_some : forall i l e, find_edge i l = Some e -> In e l /\ e_id e = i.
Proof.
  unfold find_edge. intros i l e H. apply find_some in H. destruct H as [H1 H2].
  apply Nat.eqb_eq in H2. auto.
Qed.

Lemma find_edge_unique : forall l e, NoDup (map e_id l) -> In e l -> find_edge (e_id e) l = Some e.
Proof.
  unfold find_edge. induction l as [|x l IH]; simpl; intros e N He; [contradiction|].
  inversion N as [|? ? N1 N2]; subst. destruct He as [->|He].
  - rewrite Nat.eqb_refl. reflexivity.
  - destruct (Nat.eqb (e_id x) (e_id e)) eqn:E.
    + apply Nat.eqb_eq in E. exfalso. apply N1. rewrite E. apply in_map. exact He.
    + apply IH; assumption.
Qed.

Theorem conj_rule_ok_sound : forall r1 r2 m r,
  wf_rule r1 -> wf_rule r2 -> conj_rule_ok r1 r2 m r = true -> conj_rule_spec r1 r2 m r.
Proof.
  intros r1 r2 m r W1 W2 H. unfold conj_rule_ok in H. repeat rewrite andb_true_iff in H.
  destruct H as [[[[[[[[[[A1 A2] A3] A4] A5] A6] A7] A8] A9] A10] A11].
  apply wf_rule_b_spec in A11.
  assert (N : NoDup (map e_id (nt_edges (r_rhs r)))) by (apply NoDup_map_filter; apply A11).
  assert (N1 : NoDup (map e_id (nt_edges (r_rhs r1)))) by (apply NoDup_map_filter; apply W1).
  assert (N2 : NoDup (map e_id (nt_edges (r_rhs r2)))) by (apply NoDup_map_filter; apply W2).
  pose proof (proj1 (set_eqb_spec node_eqb node_eqb_eq _ _) A2) as S2.
  pose proof (proj1 (set_eqb_spec node_eqb node_eqb_eq _ _) A3) as S3.
  apply nodes_eqb_eq in A4. apply nats_eqb_eq in A5.
  apply Nat.eqb_eq in A6. apply Nat.eqb_eq in A7.
  rewrite forallb_forall in A8.
  pose proof (proj1 (set_eqb_spec edge_eqb edge_eqb_eq _ _) A9) as S9.
  (* what the per-edge check says *)
  assert (E8 : forall e, In e (nt_edges (r_rhs r)) ->
     exists e1 e2, In e1 (nt_edges (r_rhs r1)) /\ In e2 (nt_edges (r_rhs r2)) /\
       e_id e1 = e_id e /\ e_id e2 = e_id e /\ e_att e = e_att e1 /\
       map n_id (e_att e) = map n_id (e_att e2) /\
       nt_get m (e_lab e1, e_lab e2) = Some (e_lab e)).
  { intros e He. specialize (A8 e He).
    destruct (find_edge (e_id e) (nt_edges (r_rhs r1))) as [e1|] eqn:F1; [|discriminate].
    destruct (find_edge (e_id e) (nt_edges (r_rhs r2))) as [e2|] eqn:F2; [|discriminate].
    apply find_edge_some in F1. apply find_edge_some in F2. destruct F1 as [F1 I1]. destruct F2 as [F2 I2].
    repeat rewrite andb_true_iff in A8. destruct A8 as [[B1 B2] B3].
    apply nodes_eqb_eq in B1. apply nats_eqb_eq in B2.
    destruct (nt_get m (e_lab e1, e_lab e2)) as [l|] eqn:G; [|discriminate]. apply elabel_eqb_eq in B3.
    exists e1, e2. rewrite B3. repeat split; assumption. }
  unfold conj_rule_spec.
  split. { destruct (nt_get m (r_lhs r1, r_lhs r2)) as [l|]; [|discriminate].
           apply elabel_eqb_eq in A1. rewrite A1. reflexivity. }
  split; [exact S2|]. split; [exact S3|]. split; [exact A4|]. split; [exact A5|].
  split; [|split; [exact E8|split; [|exact A11]]].
  - intros e1 e2 H1 H2 Eid.
    assert (I : incl (map e_id (nt_edges (r_rhs r1))) (map e_id (nt_edges (r_rhs r)))).
    { apply NoDup_length_incl; [exact N | rewrite !map_length; lia |].
      intros i Hi. apply in_map_iff in Hi. destruct Hi as [e [<- He]].
      destruct (E8 e He) as [e1' [_ [He1' [_ [Ei _]]]]]. rewrite <- Ei. apply in_map. exact He1'. }
    assert (Hi : In (e_id e1) (map e_id (nt_edges (r_rhs r)))) by (apply I; apply in_map; exact H1).
    apply in_map_iff in Hi. destruct Hi as [e [Ei He]].
    destruct (E8 e He) as [e1' [e2' [He1' [He2' [Ei1 [Ei2 [Ea [_ G]]]]]]]].
    assert (X1 : e1' = e1).
    { pose proof (find_edge_unique _ _ N1 He1') as Y1. pose proof (find_edge_unique _ _ N1 H1) as Y2.
      rewrite Ei1, Ei in Y1. rewrite Y1 in Y2. injection Y2. auto. }
    assert (X2 : e2' = e2).
    { pose proof (find_edge_unique _ _ N2 He2') as Y1. pose proof (find_edge_unique _ _ N2 H2) as Y2.
      rewrite Ei2, Ei, Eid in Y1. rewrite Y1 in Y2. injection Y2. auto. }
    subst e1' e2'. exists (e_lab e). split; [exact G|].
    replace {| e_id := e_id e1; e_lab := e_lab e; e_att := e_att e1 |} with e; [exact He|].
    destruct e as [i l a]. simpl in *. subst. reflexivity.
  - intros e. rewrite (S9 e). apply in_app_iff.
Qed.

(** * the grammar-level oracle *)
Lemma remove_first_some {A} (p : A -> bool) : forall l l',
  remove_first p l = Some l' -> exists x, p x = true /\ Permutation l (x :: l').
Proof.
  induction l as [|a l IH]; simpl; intros l' H; [discriminate|].
  destruct (p a) eqn:E.
  - injection H as <-. exists a. auto.
  - destruct (remove_first p l) as [l0|]; [|discriminate]. simpl in H. injection H as <-.
    destruct (IH l0 eq_refl) as [x [Px P]]. exists x. split; [exact Px|].
    eapply Permutation_trans; [apply perm_skip; exact P | apply perm_swap].
Qed.

Lemma match_rules_sound : forall m rs todo,
  match_rules m todo rs = true ->
  exists ps, Permutation ps todo /\
             Forall2 (fun p r => conj_rule_ok (fst (snd p)) (snd (snd p)) m r = true) ps rs.
Proof.
  induction rs as [|r rs IH]; simpl; intros todo H.
  - destruct todo; [|discriminate]. exists []. split; constructor.
  - destruct (remove_first _ todo) as [todo'|] eqn:R; [|discriminate].
    apply remove_first_some in R. destruct R as [p [Pp P]].
    destruct (IH _ H) as [ps [P' F]]. exists (p :: ps). split.
    + eapply Permutation_trans; [apply perm_skip; exact P' | apply Permutation_sym; exact P].
    + constructor; assumption.
Qed.

(** the output grammar consists, one for one, of conjunctions of the conjoinable pairs *)
Definition conj_hrg_spec (h1 h2 : hrg) (m : ntmap) (g : hrg) : Prop :=
  nt_get m (h_start h1, h_start h2) = Some (h_start g) /\
  exists ps, Permutation ps (cpairs h1 h2) /\
             Forall2 (fun p r => conj_rule_spec (fst (snd p)) (snd (snd p)) m r) ps (all_rules g).

Lemma cpairs_rules : forall h1 h2 p, In p (cpairs h1 h2) ->
  In (fst (snd p)) (all_rules h1) /\ In (snd (snd p)) (all_rules h2).
Proof.
  intros h1 h2 [[i j] [r1 r2]] H. unfold cpairs in H. apply in_flat_map in H.
  destruct H as [[i' r1'] [H1 H]]. apply in_flat_map in H. destruct H as [[j' r2'] [H2 H]].
  simpl in H. destruct (conjoinable_model r1' r2'); [|contradiction]. destruct H as [H|[]].
  injection H as <- <- <- <-. simpl.
  apply indexed_nth in H1. apply indexed_nth in H2.
  split; eapply nth_error_In; eauto.
Qed.

Theorem conj_hrg_ok_sound : forall h1 h2 m g,
  (forall r, In r (all_rules h1) -> wf_rule r) -> (forall r, In r (all_rules h2) -> wf_rule r) ->
  conj_hrg_ok h1 h2 m g = true -> conj_hrg_spec h1 h2 m g.
Proof.
  intros h1 h2 m g W1 W2 H. unfold conj_hrg_ok in H. repeat rewrite andb_true_iff in H.
  destruct H as [[A1 A2] _]. unfold conj_hrg_spec. split.
  - destruct (nt_get m (h_start h1, h_start h2)) as [s|]; [|discriminate].
    apply elabel_eqb_eq in A1. rewrite A1. reflexivity.
  - apply match_rules_sound in A2. destruct A2 as [ps [P F]]. exists ps. split; [exact P|].
    assert (G : forall p, In p ps -> wf_rule (fst (snd p)) /\ wf_rule (snd (snd p))).
    { intros p Hp. apply (Permutation_in _ P) in Hp. apply cpairs_rules in Hp. destruct Hp. auto. }
    clear P. induction F as [|p r ps rs Hpr F IH]; constructor.
    + destruct (G p (or_introl eq_refl)). apply conj_rule_ok_sound; assumption.
    + apply IH. intros q Hq. apply G. right. exact Hq.
Qed.
