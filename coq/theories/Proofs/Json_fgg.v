(** C14: the round trip at the FGG level: [json_to_fgg (fgg_to_json g)] -- grammar part through
    [FGG.from_hrg], domains, factors (constant / finite with weights compared as dense tensors). *)
From Coq Require Import List Arith Bool PeanoNat ZArith QArith Lia Permutation.
Import ListNotations.
Require Import Fggs.Model.Json Fggs.Proofs.Json_base Fggs.Proofs.Json_iso Fggs.Proofs.Json_rule
               Fggs.Proofs.Json_roundtrip Fggs.Proofs.Json_dense Fggs.Proofs.Json_wparse Fggs.Proofs.Json_weights.
Local Open Scope nat_scope.

(** * domains *)
Lemma json_to_domain_roundtrip : forall d, json_to_domain (domain_to_json d) = Ok d.
Proof.
  intros [vals|n]; [reflexivity|].
  change (json_to_domain (domain_to_json (DRange n))) with (do n' <- as_nat (JInt (Z.of_nat n)); Ok (DRange n')).
  now rewrite as_nat_of_nat.
Qed.

Definition jdom (kd : str * domain) : str * json := (fst kd, domain_to_json (snd kd)).

Lemma json_to_domains_roundtrip : forall ds acc, json_to_domains (map jdom ds) acc = Ok (acc ++ ds).
Proof.
  induction ds as [|[k d] ds IH]; intro acc; cbn [map json_to_domains].
  - now rewrite app_nil_r.
  - unfold jdom at 1. cbn [fst snd json_to_domains]. rewrite json_to_domain_roundtrip. cbn [bind].
    rewrite IH. now rewrite <- app_assoc.
Qed.

(** * [FGG.from_hrg] on a grammar whose rules only use registered labels: the copied label table
    is left as it is *)
Lemma add_edge_label_same : forall T l, NoDup (map el_name T) -> In l T -> add_edge_label T l = Ok T.
Proof.
  intros T l HT Hl. unfold add_edge_label. rewrite (lab_get_in T l HT Hl), elabel_eqb_refl.
  now rewrite (lab_set_same T l HT Hl).
Qed.

Lemma add_edge_labels_same : forall T ls, NoDup (map el_name T) -> (forall l, In l ls -> In l T) ->
  add_edge_labels T ls = Ok T.
Proof.
  intros T. induction ls as [|l ls IH]; intros HT Hls; [reflexivity|]. cbn [add_edge_labels].
  rewrite (add_edge_label_same T l HT (Hls l (or_introl eq_refl))). cbn [bind].
  apply IH; [assumption|]. intros x Hx. apply Hls. now right.
Qed.

Definition rule_labels (r : rule) : list elabel := r_lhs r :: map e_label (g_edges (r_rhs r)).

Definition from_hrg_go : list rule -> list elabel -> res (list elabel) :=
  fix go (rs : list rule) (tbl : list elabel) : res (list elabel) :=
    match rs with
    | [] => Ok tbl
    | r :: rs' =>
        do t1 <- add_edge_label tbl (r_lhs r);
        do t2 <- add_edge_labels t1 (map e_label (g_edges (r_rhs r)));
        go rs' t2
    end.

Lemma from_hrg_labels_go : forall g, from_hrg_labels g = from_hrg_go (all_rules g) (h_labels g).
Proof. reflexivity. Qed.

Lemma from_hrg_go_same : forall T rs, NoDup (map el_name T) ->
  (forall r l, In r rs -> In l (rule_labels r) -> In l T) -> from_hrg_go rs T = Ok T.
Proof.
  intros T. induction rs as [|r rs IH]; intros HT Hrs; [reflexivity|]. cbn [from_hrg_go].
  rewrite (add_edge_label_same T (r_lhs r) HT); [|apply (Hrs r); now left]. cbn [bind].
  rewrite (add_edge_labels_same T _ HT); [|intros l Hl; apply (Hrs r); [now left|now right]]. cbn [bind].
  apply IH; [assumption|]. intros r0 l H0 Hl. apply (Hrs r0); [now right|assumption].
Qed.

(** regrouping an already grouped rule dictionary gives it back *)
Lemma regroup_id : forall R, NoDup (map fst R) -> keys_ok R -> fold_left rules_add (concat (map snd R)) [] = R.
Proof.
  intros R Hnd Hok.
  destruct (group_spec (fun r r' => r' = r) (fun r r' H => f_equal r_lhs H) R [] (concat (map snd R))) as [R' [H1 [H2 _]]].
  - exact Hnd.
  - exact Hok.
  - generalize (concat (map snd R)). induction l; constructor; auto.
  - rewrite H1. cbn [app]. clear - H2. induction H2 as [|[k l] [k' l'] R R' [Hk Hl] _ IH]; [reflexivity|].
    cbn in Hk. subst k'. f_equal; [|assumption]. f_equal. cbn in Hl. clear - Hl. induction Hl; [reflexivity|]. now subst.
Qed.

Lemma from_hrg_spec : forall g,
  NoDup (map el_name (h_labels g)) ->
  (forall r l, In r (all_rules g) -> In l (rule_labels r) -> In l (h_labels g)) ->
  NoDup (map fst (h_rules g)) -> keys_ok (h_rules g) ->
  from_hrg g = Ok g.
Proof.
  intros g HT Hrs Hnd Hok. unfold from_hrg. rewrite from_hrg_labels_go, (from_hrg_go_same _ _ HT Hrs). cbn [bind].
  unfold all_rules. rewrite (regroup_id _ Hnd Hok). now destruct g.
Qed.

(** * what an isomorphic grammar shares with the original *)
Lemma Forall2_in_l : forall {A B : Type} (R : A -> B -> Prop) a b x, Forall2 R a b -> In x a -> exists y, In y b /\ R x y.
Proof.
  intros A B R a b x H. induction H as [|x0 y0 a b Hxy _ IH]; intro Hin; [inversion Hin|].
  destruct Hin as [<-|Hin]; [exists y0; split; [now left|assumption]|].
  destruct (IH Hin) as [y [Hy Hr]]. exists y. split; [now right|assumption].
Qed.

Lemma Forall2_in_r : forall {A B : Type} (R : A -> B -> Prop) a b y, Forall2 R a b -> In y b -> exists x, In x a /\ R x y.
Proof.
  intros A B R a b y H. induction H as [|x0 y0 a b Hxy _ IH]; intro Hin; [inversion Hin|].
  destruct Hin as [<-|Hin]; [exists x0; split; [now left|assumption]|].
  destruct (IH Hin) as [x [Hx Hr]]. exists x. split; [now right|assumption].
Qed.

Lemma rule_iso_labels : forall r r', rule_iso r r' -> forall l, In l (rule_labels r') <-> In l (rule_labels r).
Proof.
  intros r r' [Hl [ns [ns' [es [es' [_ [_ [_ [_ [_ [_ [Pe [Pe' Hm]]]]]]]]]]]]] l.
  assert (map e_label es' = map e_label es) as Hmap.
  { clear - Hm. induction Hm as [|e e' es es' [He _] _ IH]; [reflexivity|]. cbn. now rewrite He, IH. }
  unfold rule_labels. rewrite Hl. cbn [In].
  assert (In l (map e_label (g_edges (r_rhs r'))) <-> In l (map e_label (g_edges (r_rhs r)))) as Hin.
  { split; intro H.
    - apply (Permutation_in _ (Permutation_map e_label Pe)). rewrite <- Hmap.
      now apply (Permutation_in _ (Permutation_sym (Permutation_map e_label Pe'))).
    - apply (Permutation_in _ (Permutation_map e_label Pe')). rewrite Hmap.
      now apply (Permutation_in _ (Permutation_sym (Permutation_map e_label Pe))). }
  tauto.
Qed.

Lemma iso_keys : forall g g', hrg_iso g g' -> NoDup (map fst (h_rules g)) -> keys_ok (h_rules g) ->
  NoDup (map fst (h_rules g')) /\ keys_ok (h_rules g').
Proof.
  intros g g' [_ [_ H]] Hnd Hok. split.
  - assert (map fst (h_rules g') = map fst (h_rules g)) as ->; [|assumption].
    clear - H. induction H as [|kl kl' R R' [Hk _] _ IH]; [reflexivity|]. cbn. now rewrite Hk, IH.
  - intros kl' Hkl'. destruct (Forall2_in_r _ _ _ _ H Hkl') as [kl [Hkl [Hk Hr]]].
    destruct (Hok kl Hkl) as [Hne Hlhs]. split.
    + intro E. rewrite E in Hr. inversion Hr; subst. congruence.
    + intros r' Hr'. destruct (Forall2_in_r _ _ _ _ Hr Hr') as [r [Hin [Hl _]]].
      rewrite <- Hl, <- Hk. now apply Hlhs.
Qed.

(** * dense weights written as nested lists and read back *)
Lemma chunks_lengths : forall {A : Type} m n (l : list A), length l = n * m -> Forall (fun c => length c = m) (chunks m n l).
Proof.
  intros A m. induction n as [|n IH]; intros l Hl; cbn; [constructor|]. constructor.
  - rewrite firstn_length. cbn in Hl. lia.
  - apply IH. rewrite skipn_length. cbn in Hl. lia.
Qed.

Lemma chunks_length : forall {A : Type} m n (l : list A), length (chunks m n l) = n.
Proof. intros A m. induction n as [|n IH]; intro l; cbn; [reflexivity|]. now rewrite IH. Qed.

(** nested lists cannot show the dimensions after an empty one: [[]] for shape (0, n) *)
Fixpoint trunc (shape : list nat) : list nat :=
  match shape with
  | [] => []
  | 0 :: _ => [0]
  | n :: sh => n :: trunc sh
  end.

Lemma tens_shape_of_flat_trunc : forall shape flat,
  length flat = prod_list shape -> tens_shape (tens_of_flat shape flat) = Some (trunc shape).
Proof.
  induction shape as [|n sh IH]; intros flat Hlen.
  - cbn in Hlen. destruct flat as [|x [|y flat]]; cbn in Hlen; try discriminate. reflexivity.
  - assert (prod_list (n :: sh) = n * prod_list sh) as Hp by reflexivity. rewrite Hp in Hlen.
    pose proof (chunks_lengths (prod_list sh) n flat Hlen) as Hc.
    pose proof (chunks_length (prod_list sh) n flat) as Hcl.
    cbn [tens_of_flat]. destruct n as [|n].
    + cbn. reflexivity.
    + destruct (chunks (prod_list sh) (S n) flat) as [|c cs] eqn:Ec; [cbn in Hcl; lia|].
      inversion Hc as [|? ? Hc0 Hcs]; subst. cbn [map tens_shape trunc].
      rewrite (IH c Hc0).
      assert ((fix go (l : list tens) : bool :=
                 match l with
                 | [] => true
                 | y :: l'' => match tens_shape y with Some s' => nats_eqb (trunc sh) s' | None => false end && go l''
                 end) (map (tens_of_flat sh) cs) = true) as ->.
      { apply tens_shape_all_list. apply Forall_forall. intros t Ht. apply in_map_iff in Ht as [c' [<- Hc']].
        apply IH. rewrite Forall_forall in Hcs. now apply Hcs. }
      cbn [length] in *. rewrite map_length. now inversion Hcl.
Qed.

Lemma trunc_pos : forall shape, Forall (fun n => 0 < n) shape -> trunc shape = shape.
Proof.
  induction shape as [|n sh IH]; intro H; [reflexivity|]. inversion H; subst. destruct n; [lia|]. cbn. now rewrite IH.
Qed.

Lemma prod_trunc_zero : forall shape, prod_list shape = 0 -> prod_list (trunc shape) = 0.
Proof.
  induction shape as [|n sh IH]; intro H; [discriminate|]. destruct n; [reflexivity|].
  change (prod_list (S n :: sh)) with (S n * prod_list sh) in H. cbn [trunc].
  change (prod_list (S n :: trunc sh)) with (S n * prod_list (trunc sh)). rewrite IH; lia.
Qed.

Lemma prod_nonzero_pos : forall shape, prod_list shape <> 0 -> Forall (fun n => 0 < n) shape.
Proof.
  induction shape as [|n sh IH]; intro H; [constructor|].
  change (prod_list (n :: sh)) with (n * prod_list sh) in H. constructor; [lia|]. apply IH. lia.
Qed.

Lemma tens_shape_of_flat : forall shape flat,
  Forall (fun n => 0 < n) shape -> length flat = prod_list shape ->
  tens_shape (tens_of_flat shape flat) = Some shape.
Proof. intros shape flat Hpos Hlen. rewrite tens_shape_of_flat_trunc by assumption. now rewrite trunc_pos. Qed.

Definition id_spec (t : tens) : wspec := mkWS t [] None (NFin 0%Q).

Lemma id_spec_pshape : forall t shape, tens_shape t = Some shape -> ws_pshape (id_spec t) = shape.
Proof. intros t shape Hs. unfold ws_pshape, id_spec. cbn. now rewrite Hs. Qed.

Lemma id_spec_pt : forall t shape, tens_shape t = Some shape ->
  spec_pt (id_spec t) = mkPT t 0 shape (paxes_of shape) (NFin 0%Q).
Proof.
  intros t shape Hs. unfold spec_pt, ws_vaxes_eff. rewrite (id_spec_pshape t shape Hs).
  cbn [id_spec ws_phys ws_expand ws_vaxes ws_default length]. now rewrite <- paxes_identity.
Qed.

Lemma id_spec_wf : forall t shape, tens_shape t = Some shape -> wf_wspec (id_spec t) = true.
Proof.
  intros t shape Hs. unfold wf_wspec, ws_vaxes_eff. rewrite (id_spec_pshape t shape Hs).
  cbn [id_spec ws_phys ws_vaxes]. rewrite Hs.
  apply andb_true_iff. split.
  - apply forallb_forall. intros v Hv. apply in_map_iff in Hv as [k [<- Hk]]. apply in_seq in Hk. cbn [vs_in_range].
    apply andb_true_iff. split; [apply Z.leb_le|apply Z.ltb_lt]; lia.
  - apply forallb_combine_seq_intro. intros k Hk. cbn [fst snd Nat.add]. apply orb_true_iff. left.
    apply existsb_eqb_In. apply in_flat_map. exists (VInt (Z.of_nat k)). split.
    + apply in_map_iff. exists k. split; [reflexivity|apply in_seq; lia].
    + cbn. left. apply vs_axis_nat.
Qed.

Lemma map_nth_seq_gen : forall (l : list nat) s, map (fun k => nth (k - s) l 0) (seq s (length l)) = l.
Proof.
  induction l as [|x l IH]; intro s; [reflexivity|]. cbn [length seq map]. rewrite Nat.sub_diag. cbn [nth]. f_equal.
  rewrite <- (IH (S s)) at 2. apply map_ext_in. intros k Hk. apply in_seq in Hk.
  replace (k - s) with (S (k - S s)) by lia. reflexivity.
Qed.

Lemma map_nth_seq : forall (l : list nat), map (fun k => nth k l 0) (seq 0 (length l)) = l.
Proof.
  intro l. rewrite <- (map_nth_seq_gen l 0) at 2. apply map_ext. intro k. now rewrite Nat.sub_0_r.
Qed.

Lemma json_to_weights_dense : forall t shape, tens_shape t = Some shape ->
  json_to_weights_model (tens_to_json t) = Ok (mkPT t 0 shape (paxes_of shape) (NFin 0%Q)).
Proof.
  intros t shape Hs.
  assert (json_to_weights_model (tens_to_json t) =
          (do t' <- parse_tens (tens_to_json t);
           do shape <- match tens_shape t' with Some s => Ok s | None => Err ValueErr end;
           Ok (mkPT t' 0 shape (map (fun kn => APhys (fst kn) (snd kn)) (combine (seq 0 (length shape)) shape)) (NFin 0%Q)))) as ->.
  { destruct t; reflexivity. }
  rewrite parse_tens_to_json. cbn [bind]. rewrite Hs. reflexivity.
Qed.

(** the dense tensor read back denotes itself *)
Lemma dense_identity : forall t shape, tens_shape t = Some shape ->
  exists t2, pt_to_dense (mkPT t 0 shape (paxes_of shape) (NFin 0%Q)) = Ok t2 /\
             forall idx, in_bounds idx shape -> tens_get t2 idx = tens_get t idx.
Proof.
  intros t shape Hs. pose proof (id_spec_wf t shape Hs) as Hwf. pose proof (id_spec_pt t shape Hs) as Hpt.
  set (s := id_spec t) in *.
  destruct (spec_pt_dense_ok s Hwf) as [t2 Ht2]. exists t2. rewrite <- Hpt. split; [exact Ht2|].
  intros idx Hidx.
  assert (pt_pshape (spec_pt s) = shape) as Hps by (rewrite Hpt; reflexivity).
  assert (evals (spec_pt s) idx = idx) as Hev.
  { rewrite spec_pt_evals. unfold ws_vaxes_eff. unfold s at 1 2 3. rewrite (id_spec_pshape t shape Hs).
    cbn [id_spec ws_vaxes]. rewrite map_map.
    transitivity (map (fun k => nth k idx 0) (seq 0 (length idx))); [|apply map_nth_seq].
    rewrite (in_bounds_length _ _ Hidx). apply map_ext. intro k.
    cbn [vs_eval]. now rewrite vs_axis_nat. }
  assert (in_bounds idx (pt_shape (spec_pt s))) as Hidx'.
  { rewrite <- Hev. apply evals_in_bounds; [now apply spec_pt_scoped|now rewrite Hps]. }
  destruct (dense_spec (spec_pt s) t2 Ht2 (spec_pt_scoped s Hwf)) with (idx := idx) as [Hhit _].
  - intros p p' Hp Hp' E. rewrite !spec_pt_evals in E. rewrite Hps in Hp, Hp'.
    assert (ws_pshape s = shape) as Hws by (apply id_spec_pshape; exact Hs).
    rewrite <- Hws in Hp, Hp'. now rewrite (evals_injective s Hwf p p' Hp Hp' E).
  - exact Hidx'.
  - destruct (tens_get_in_bounds t shape idx Hs Hidx) as [v Hv]. rewrite Hv. apply (Hhit idx v).
    + now rewrite Hps.
    + exact Hev.
    + rewrite Hpt. unfold phys_at. cbn [pt_phys pt_nex skipn]. exact Hv.
Qed.

(** * factors *)
Definition dom_lookup (doms : list (str * domain)) (nl : str) : res domain :=
  match dict_find doms nl with Some x => Ok x | None => Err KeyErr end.

(** two factors denote the same function: equal constants / dense tensors equal entry by entry *)
Definition factor_same (f f' : factor) : Prop :=
  match f, f' with
  | FConstant w, FConstant w' => w' = w
  | FFinite pt, FFinite pt' =>
      pt_shape pt' = pt_shape pt /\
      exists t t', pt_to_dense pt = Ok t /\ pt_to_dense pt' = Ok t' /\
                   forall idx, in_bounds idx (pt_shape pt) -> tens_get t' idx = tens_get t idx
  | _, _ => False
  end.

Lemma json_to_factor_const : forall tbl doms name w,
  json_to_factor tbl doms name (JDict [(k_function, JStr k_constant); (k_weight, w)]) =
  (do el <- match lab_get tbl name with Some l => Ok l | None => Err KeyErr end;
   do ds <- mapM (dom_lookup doms) (el_type el);
   if negb (el_term el) then Err ValueErr else Ok (FConstant w)).
Proof. reflexivity. Qed.

Lemma json_to_factor_finite : forall tbl doms name jw,
  json_to_factor tbl doms name (JDict [(k_function, JStr k_finite); (k_weights, jw)]) =
  (do el <- match lab_get tbl name with Some l => Ok l | None => Err KeyErr end;
   do ds <- mapM (dom_lookup doms) (el_type el);
   do w0 <- json_to_weights_model jw;
   let w := if Nat.eqb (prod_list (pt_shape w0)) 0 then zeros_pt (map domain_size ds) else w0 in
   if negb (nats_eqb (pt_shape w) (map domain_size ds)) then Err ValueErr
   else if negb (el_term el) then Err ValueErr else Ok (FFinite w)).
Proof. reflexivity. Qed.

Lemma pt_to_dense_flat : forall pt t, pt_to_dense pt = Ok t ->
  exists flat, t = tens_of_flat (pt_shape pt) flat /\ length flat = prod_list (pt_shape pt).
Proof.
  intros pt t H. unfold pt_to_dense in H. destruct (negb _); [discriminate|]. inversion H; subst t. clear H.
  eexists. split; [reflexivity|].
  set (os := project_strides (pt_vaxes pt) (cstrides (pt_shape pt))).
  change (fold_left _ (all_indices (pt_pshape pt)) (repeat (pt_default pt) (prod_list (pt_shape pt))))
    with (fold_left (scatter_step (fun p => fst os + dot_index (snd os) p) (phys_at pt))
                    (all_indices (pt_pshape pt)) (repeat (pt_default pt) (prod_list (pt_shape pt)))).
  rewrite scatter_length. apply repeat_length.
Qed.

Lemma paxes_numel : forall shape, map ax_numel (paxes_of shape) = shape.
Proof.
  intro shape. unfold paxes_of. generalize 0. induction shape as [|n sh IH]; intro s; [reflexivity|].
  cbn [length seq combine map fst snd ax_numel]. f_equal. apply IH.
Qed.

Lemma paxes_axes : forall shape, flat_map ax_axes (paxes_of shape) = seq 0 (length shape).
Proof.
  intro shape. unfold paxes_of. rewrite (paxes_as_map shape 0). generalize (seq 0 (length shape)).
  induction l as [|k l IH]; [reflexivity|]. cbn. now rewrite IH.
Qed.

(** a tensor whose virtual axes are its physical axes can always be densified *)
Lemma dense_paxes_ok : forall t nex shape d, exists r, pt_to_dense (mkPT t nex shape (paxes_of shape) d) = Ok r.
Proof.
  intros t nex shape d. unfold pt_to_dense.
  match goal with |- context [negb ?c] => assert (c = true) as Hc end.
  { assert (forall k, In k (map fst (snd (project_strides (paxes_of shape) (cstrides (map ax_numel (paxes_of shape))))))
                      <-> k < length shape) as Hkeys.
    { intro k. rewrite project_strides_keys; [|now rewrite cstrides_length, map_length].
      rewrite paxes_axes, in_seq. lia. }
    cbn [pt_vaxes pt_pshape]. unfold pt_shape. cbn [pt_vaxes]. apply andb_true_iff. split.
    - apply forallb_combine_seq_intro. intros k Hk. cbn [fst snd Nat.add]. apply orb_true_iff. left.
      apply existsb_eqb_In. now apply Hkeys.
    - apply forallb_forall. intros k Hk. apply Nat.ltb_lt. now apply Hkeys. }
  rewrite Hc. cbn [negb]. eexists. reflexivity.
Qed.

Lemma zeros_pt_paxes : forall shape,
  zeros_pt shape = mkPT (tens_of_flat shape (repeat (NFin 0%Q) (prod_list shape))) 0 shape (paxes_of shape) (NFin 0%Q).
Proof. reflexivity. Qed.

Lemma in_bounds_prod : forall idx sh, in_bounds idx sh -> prod_list sh <> 0.
Proof. intros idx sh H. pose proof (flat_index_lt sh idx H). lia. Qed.

(** the invariants [FiniteFactor] enforces: the weights can be densified and have the shape of the domains *)
Definition finite_ok (ds : list domain) (f : factor) : Prop :=
  match f with
  | FConstant _ => True
  | FFinite pt => (exists t, pt_to_dense pt = Ok t) /\ pt_shape pt = map domain_size ds
  end.

Lemma factor_roundtrip : forall tbl doms name f el ds,
  lab_get tbl name = Some el -> el_term el = true -> mapM (dom_lookup doms) (el_type el) = Ok ds ->
  finite_ok ds f ->
  exists j f', factor_to_json f = Ok j /\ json_to_factor tbl doms name j = Ok f' /\ factor_same f f'.
Proof.
  intros tbl doms name f el ds Hl Ht Hd Hok. destruct f as [w|pt].
  - eexists. exists (FConstant w). split; [reflexivity|]. split; [|reflexivity].
    rewrite json_to_factor_const, Hl. cbn [bind]. rewrite Hd. cbn [bind]. now rewrite Ht.
  - destruct Hok as [[t Hdense] Hshape].
    destruct (pt_to_dense_flat pt t Hdense) as [flat [Et Hlen]].
    pose proof (tens_shape_of_flat_trunc (pt_shape pt) flat Hlen) as Hts. rewrite <- Et in Hts.
    assert (forall sh, pt_shape (mkPT t 0 sh (paxes_of sh) (NFin 0%Q)) = sh) as Hps.
    { intro sh. unfold pt_shape. cbn [pt_vaxes]. apply paxes_numel. }
    destruct (Nat.eq_dec (prod_list (pt_shape pt)) 0) as [Hz|Hnz].
    + (* an empty dimension: the weights are restored as zeros of the right shape; no entry to compare *)
      destruct (dense_paxes_ok (tens_of_flat (pt_shape pt) (repeat (NFin 0%Q) (prod_list (pt_shape pt)))) 0 (pt_shape pt) (NFin 0%Q))
        as [r Hr].
      eexists. exists (FFinite (zeros_pt (pt_shape pt))). split; [|split].
      * unfold factor_to_json, weights_to_json_model. rewrite Hdense. reflexivity.
      * rewrite json_to_factor_finite, Hl. cbn [bind]. rewrite Hd. cbn [bind].
        rewrite (json_to_weights_dense t (trunc (pt_shape pt)) Hts). cbn [bind]. rewrite Hps.
        rewrite (prod_trunc_zero _ Hz). cbn [Nat.eqb]. rewrite <- Hshape.
        assert (pt_shape (zeros_pt (pt_shape pt)) = pt_shape pt) as ->.
        { rewrite zeros_pt_paxes. unfold pt_shape at 1. cbn [pt_vaxes]. apply paxes_numel. }
        rewrite (proj2 (nats_eqb_eq _ _) eq_refl). cbn [negb]. now rewrite Ht.
      * unfold factor_same. split.
        -- rewrite zeros_pt_paxes. unfold pt_shape at 1. cbn [pt_vaxes]. apply paxes_numel.
        -- exists t, r. repeat split; [assumption|now rewrite zeros_pt_paxes|].
           intros idx Hidx. exfalso. now apply (in_bounds_prod idx _ Hidx).
    + pose proof (prod_nonzero_pos _ Hnz) as Hpos. rewrite (trunc_pos _ Hpos) in Hts.
      destruct (dense_identity t (pt_shape pt) Hts) as [t2 [Ht2 Heq]].
      eexists. exists (FFinite (mkPT t 0 (pt_shape pt) (paxes_of (pt_shape pt)) (NFin 0%Q))). split; [|split].
      * unfold factor_to_json, weights_to_json_model. rewrite Hdense. reflexivity.
      * rewrite json_to_factor_finite, Hl. cbn [bind]. rewrite Hd. cbn [bind].
        rewrite (json_to_weights_dense t (pt_shape pt) Hts). cbn [bind]. rewrite Hps.
        rewrite (proj2 (Nat.eqb_neq _ _) Hnz). rewrite Hps, Hshape, (proj2 (nats_eqb_eq _ _) eq_refl). cbn [negb]. now rewrite Ht.
      * cbn. split; [apply Hps|]. exists t, t2. repeat split; assumption.
Qed.

Definition jfac (kf : str * factor) : res (str * json) := do j <- factor_to_json (snd kf); Ok (fst kf, j).

(** the invariants of [add_factor] / [FiniteFactor]: every factor is bound to a registered terminal
    whose node labels have domains, with weights of the right shape that can be densified *)
Definition factor_wf (tbl : list elabel) (doms : list (str * domain)) (kf : str * factor) : Prop :=
  exists el ds, lab_get tbl (fst kf) = Some el /\ el_term el = true /\
                mapM (dom_lookup doms) (el_type el) = Ok ds /\ finite_ok ds (snd kf).

Lemma factors_roundtrip : forall tbl doms fs acc,
  Forall (factor_wf tbl doms) fs ->
  exists jfs fs', mapM jfac fs = Ok jfs /\ json_to_factors tbl doms jfs acc = Ok (acc ++ fs') /\
                  Forall2 (fun kf kf' => fst kf' = fst kf /\ factor_same (snd kf) (snd kf')) fs fs'.
Proof.
  intros tbl doms. induction fs as [|[name f] fs IH]; intros acc Hwf.
  - exists [], []. cbn. rewrite app_nil_r. repeat split; constructor.
  - inversion Hwf as [|? ? [el [ds [Hl [Ht [Hd Hok]]]]] Hwf']; subst. cbn [fst snd] in *.
    destruct (factor_roundtrip tbl doms name f el ds Hl Ht Hd Hok) as [j [f' [H1 [H2 H3]]]].
    destruct (IH (acc ++ [(name, f')]) Hwf') as [jfs [fs' [H4 [H5 H6]]]].
    exists ((name, j) :: jfs), ((name, f') :: fs'). repeat split.
    + cbn [mapM]. unfold jfac at 1. cbn [fst snd]. rewrite H1. cbn [bind]. now rewrite H4.
    + cbn [json_to_factors]. rewrite H2. cbn [bind]. rewrite H5. now rewrite <- app_assoc.
    + constructor; [|assumption]. cbn. now split.
Qed.

Lemma json_to_fgg_step : forall c jg itd itf,
  json_to_fgg_model c (JDict [(k_grammar, jg);
                              (k_interpretation, JDict [(k_domains, JDict itd); (k_factors, JDict itf)])]) =
  (do h <- json_to_hrg_model c jg;
   do h' <- from_hrg h;
   do doms <- json_to_domains itd [];
   do facs <- json_to_factors (h_labels h') doms itf [];
   Ok (mkFGG h' doms facs)).
Proof. reflexivity. Qed.

(** * the FGG round trip *)
(** a well-formed FGG: a well-formed grammar whose factors satisfy the invariants of [add_factor] *)
Definition wf_fgg (g : fgg) : Prop :=
  wf_hrg (f_hrg g) = true /\ Forall (factor_wf (h_labels (f_hrg g)) (f_domains g)) (f_factors g).

Theorem fgg_roundtrip : forall (dec : nat -> str) (g : fgg) (c : nat),
  wf_fgg g ->
  exists j g',
    fgg_to_json_model dec g = Ok j /\ json_to_fgg_model c j = Ok g' /\
    hrg_iso (f_hrg g) (f_hrg g') /\
    f_domains g' = f_domains g /\
    Forall2 (fun kf kf' => fst kf' = fst kf /\ factor_same (snd kf) (snd kf')) (f_factors g) (f_factors g').
Proof.
  intros dec g c [Hwf Hfac].
  destruct (roundtrip_iso dec (f_hrg g) c Hwf) as [jg [h [Hj [Hh Hiso]]]].
  destruct (wf_hrg_facts _ Hwf) as [Hnd [Hstart [Hnt [Hkeys [Hok Hrules]]]]].
  pose proof Hiso as [Hs [[_ [HndT HT]] HR]].
  destruct (iso_keys _ _ Hiso Hkeys Hok) as [Hkeys' Hok'].
  pose proof (hrg_iso_all_rules _ _ Hiso) as Hall.
  (* the labels occurring in h's rules are labels of g, hence registered in h *)
  assert (forall r' l, In r' (all_rules h) -> In l (rule_labels r') -> In l (h_labels h)) as Hocc.
  { intros r' l Hr' Hl. destruct (Forall2_in_r _ _ _ _ Hall Hr') as [r [Hr Hri]].
    apply (rule_iso_labels _ _ Hri) in Hl. apply HT.
    rewrite Forall_forall in Hrules. specialize (Hrules r Hr).
    destruct (wf_rule_facts _ _ Hrules) as [Hlhs [_ [_ [_ [_ [_ Hedges]]]]]].
    destruct Hl as [<-|Hl]; [assumption|]. apply in_map_iff in Hl as [e [<- He]].
    rewrite Forall_forall in Hedges. now destruct (Hedges e He). }
  pose proof (from_hrg_spec h HndT Hocc Hkeys' Hok') as Hfrom.
  assert (Forall (factor_wf (h_labels h) (f_domains g)) (f_factors g)) as Hfac'.
  { eapply Forall_impl; [|exact Hfac]. intros kf [el [ds [Hl [Ht [Hd Hok2]]]]]. exists el, ds. repeat split; try assumption.
    apply lab_get_some in Hl as [Hin Hname]. rewrite <- Hname. apply lab_get_in; [exact HndT|now apply HT]. }
  destruct (factors_roundtrip (h_labels h) (f_domains g) (f_factors g) [] Hfac') as [jfs [fs' [Hjf [Hfs Hsamef]]]].
  exists (JDict [(k_grammar, jg);
                 (k_interpretation, JDict [(k_domains, JDict (map jdom (f_domains g))); (k_factors, JDict jfs)])]),
         (mkFGG h (f_domains g) fs').
  split; [|split; [|split; [|split]]].
  - unfold fgg_to_json_model. rewrite Hj. cbn [bind]. fold jfac. rewrite Hjf. reflexivity.
  - rewrite json_to_fgg_step, Hh. cbn [bind]. rewrite Hfrom. cbn [bind].
    rewrite json_to_domains_roundtrip. cbn [bind app]. rewrite Hfs. reflexivity.
  - exact Hiso.
  - reflexivity.
  - exact Hsamef.
Qed.

(** the hypothesis is satisfiable: S -> (n : N) with t(n), N a range domain of size 2, t a finite
    factor stored with a sum axis (second cell unbacked: default); a terminal u that occurs in no
    rule but has a constant factor (the situation of the former defect F20); and a terminal z over
    (E, N) with E empty, whose weights have shape (0, 2) (the situation of the former defect F21) *)
Definition ex_S : elabel := mkEL [83] [] false.
Definition ex_t : elabel := mkEL [116] [[78]] true.
Definition ex_u : elabel := mkEL [117] [[78]; [78]] true.
Definition ex_z : elabel := mkEL [122] [[69]; [78]] true.
Definition ex_n : node := mkNode [78] (Implicit 4).
Definition ex_fgg : fgg :=
  mkFGG (mkHRG [ex_S; ex_t; ex_u; ex_z] ex_S [(ex_S, [mkRule ex_S (mkGraph [ex_n] [mkEdge ex_t [ex_n] (Implicit 5)] [])])])
        [([78], DRange 2); ([69], DFinite [])]
        [([116], FFinite (mkPT (TL [TS (NFin 3%Q)]) 0 [1] [ASum 0 (APhys 0 1) 1] NPInf));
         ([117], FConstant (JNum NPInf));
         ([122], FFinite (mkPT (TL []) 0 [0; 2] [APhys 0 0; APhys 1 2] (NFin 0%Q)))].

Example fgg_roundtrip_ex : wf_fgg ex_fgg.
Proof.
  split; [reflexivity|]. constructor; [|constructor; [|constructor; [|constructor]]].
  - exists ex_t, [DRange 2]. split; [reflexivity|]. split; [reflexivity|]. split; [reflexivity|].
    split; [eexists; vm_compute; reflexivity|reflexivity].
  - exists ex_u, [DRange 2; DRange 2]. split; [reflexivity|]. split; [reflexivity|]. split; [reflexivity|]. exact I.
  - exists ex_z, [DFinite []; DRange 2]. split; [reflexivity|]. split; [reflexivity|]. split; [reflexivity|].
    split; [eexists; vm_compute; reflexivity|reflexivity].
Qed.
