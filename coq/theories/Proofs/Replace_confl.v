(** C15_confluence: every linearisation of the replacement steps of a derivation tree yields a
    graph isomorphic (through the accumulated maps) to [derived_graph]. *)
From Coq Require Import List Arith Bool PeanoNat Lia Permutation.
Import ListNotations.
Require Import Fggs.Model.Replace Fggs.Proofs.Replace_base Fggs.Proofs.Replace_wf Fggs.Proofs.Replace_explicit
  Fggs.Proofs.Replace_spec Fggs.Proofs.Replace_model_spec Fggs.Proofs.Replace_inv Fggs.Proofs.Replace_step
  Fggs.Proofs.Replace_nodup.

(** * isomorphism through a naming (Prop level) and soundness of the oracle *)
Definition iso_via (g : graph) (nn : list (node * name)) (en : list (edge * name)) (d : dgraph) : Prop :=
  map fst nn = g_nodes g /\ map fst en = g_edges g /\
  NoDup (map n_id (g_nodes g)) /\ NoDup (map e_id (g_edges g)) /\
  NoDup (map snd nn) /\ NoDup (map snd en) /\
  exists d', rename_graph nn en = Some d' /\
             Permutation (d_nodes d') (d_nodes d) /\ Permutation (d_edges d') (d_edges d).

Theorem same_upto_naming_sound : forall g nn en d, same_upto_naming g nn en d = true -> iso_via g nn en d.
Proof.
  intros g nn en d H. unfold same_upto_naming in H.
  do 6 (apply andb_true_iff in H; destruct H as [H ?]).
  apply (list_eqb_eq node_eqb node_eqb_eq) in H.
  apply (list_eqb_eq edge_eqb edge_eqb_eq) in H5.
  apply (nodupb_NoDup id_eqb id_eqb_eq) in H4.
  apply (nodupb_NoDup id_eqb id_eqb_eq) in H3.
  apply (nodupb_NoDup name_eqb name_eqb_eq) in H2.
  apply (nodupb_NoDup name_eqb name_eqb_eq) in H1.
  destruct (rename_graph nn en) as [d'|] eqn:E; try discriminate.
  apply andb_true_iff in H0. destruct H0 as [P1 P2].
  apply (perm_eqb_sound dnode_eqb dnode_eqb_eq) in P1.
  apply (perm_eqb_sound dedge_eqb dedge_eqb_eq) in P2.
  repeat split; auto. exists d'. auto.
Qed.

(** * the start graph *)
Lemma fresh_nodes_spec : forall ls nx n, In n (fresh_nodes nx ls) ->
  exists k l, n = mkNode (Fresh k) l /\ nx <= k < nx + length ls.
Proof.
  induction ls; simpl; intros; try tauto. destruct H as [<-|H].
  - exists nx, a. split; auto. lia.
  - destruct (IHls _ _ H) as [k [l [-> ?]]]. exists k, l. split; auto. lia.
Qed.
Lemma fresh_nodes_labels : forall ls nx, map n_label (fresh_nodes nx ls) = ls.
Proof. induction ls; simpl; intros; auto. rewrite IHls; auto. Qed.
Lemma fresh_nodes_ids_nodup : forall ls nx, NoDup (map n_id (fresh_nodes nx ls)).
Proof.
  induction ls; simpl; intros; constructor; auto.
  intro H. apply in_map_iff in H. destruct H as [n [E Hn]]. apply fresh_nodes_spec in Hn.
  destruct Hn as [k [l [-> ?]]]. simpl in E. inversion E. lia.
Qed.

Lemma find_node_id_fresh : forall ns nx, (forall n, In n ns -> id_lt nx (n_id n)) ->
  find_node_id ns (Fresh nx) = None.
Proof.
  induction ns as [|m ns IH]; simpl; intros; auto.
  destruct (id_eqb (n_id m) (Fresh nx)) eqn:E.
  - apply id_eqb_eq in E. specialize (H m (or_introl eq_refl)). rewrite E in H. simpl in H. lia.
  - apply IH. intros; apply H; auto.
Qed.

Lemma check_new_nodes_fresh : forall ls nx acc, (forall n, In n acc -> id_lt nx (n_id n)) ->
  check_new_nodes empty_graph (fresh_nodes nx ls) acc = Some (acc ++ fresh_nodes nx ls).
Proof.
  induction ls as [|l ls IH]; intros nx acc H.
  - simpl. rewrite app_nil_r. reflexivity.
  - cbn [fresh_nodes check_new_nodes empty_graph g_nodes find_node_id n_id].
    rewrite find_node_id_fresh by auto. rewrite IH.
    + rewrite <- app_assoc. reflexivity.
    + intros n Hn. apply in_app_iff in Hn. destruct Hn as [Hn|[<-|[]]].
      * eapply id_lt_mono; [|apply H; auto]. lia.
      * simpl. lia.
Qed.

Definition start_nodes (s : elabel) (nx : nat) := fresh_nodes nx (l_type s).
Definition start_edge (s : elabel) (nx : nat) := mkEdge (Fresh (nx + length (l_type s))) s (start_nodes s nx).

Lemma start_graph_explicit : forall s nx,
  start_graph_model s nx = (mkGraph (start_nodes s nx) [start_edge s nx] [] [s] (add_nlabs [] (l_type s)),
                            S (nx + length (l_type s)), start_edge s nx).
Proof.
  intros. unfold start_graph_model, start_edge, start_nodes, add_edge.
  cbn [has_edge_id empty_graph g_edges g_elabs existsb e_att e_label e_id label_clash find_label].
  rewrite check_new_nodes_fresh by (simpl; tauto).
  cbn [app g_nlabs g_nodes g_edges g_ext g_elabs]. rewrite fresh_nodes_labels.
  reflexivity.
Qed.

Theorem start_graph_model_ok : forall s nx,
  start_ok s (fst (fst (start_graph_model s nx))) = true /\
  belowb (snd (fst (start_graph_model s nx))) (fst (fst (start_graph_model s nx))) = true /\
  In (snd (start_graph_model s nx)) (g_edges (fst (fst (start_graph_model s nx)))).
Proof.
  intros. rewrite start_graph_explicit. cbn [fst snd]. split; [|split].
  - unfold start_ok. cbn [g_edges g_nodes g_ext g_elabs g_nlabs start_edge e_label e_att].
    rewrite !andb_true_iff. repeat split.
    + apply elabel_eqb_eq; auto.
    + apply (list_eqb_eq node_eqb node_eqb_eq); auto.
    + apply (list_eqb_eq Nat.eqb Nat.eqb_eq). unfold start_nodes. apply fresh_nodes_labels.
    + apply (nodupb_NoDup id_eqb id_eqb_eq). apply fresh_nodes_ids_nodup.
    + apply (list_eqb_eq elabel_eqb elabel_eqb_eq); auto.
    + apply (list_eqb_eq Nat.eqb Nat.eqb_eq); auto.
  - apply belowb_iff. split; cbn [g_nodes g_edges].
    + intros n Hn. apply fresh_nodes_spec in Hn. destruct Hn as [k [l [-> ?]]]. simpl. lia.
    + intros e [<-|[]]. simpl. lia.
  - simpl; auto.
Qed.

Lemma start_names_keys : forall ns j, map fst (start_names j ns) = ns.
Proof. induction ns; simpl; intros; auto. rewrite IHns; auto. Qed.

Lemma start_names_dnodes : forall ls j nx, map dn_of (start_names j (fresh_nodes nx ls)) = start_dnodes j ls.
Proof. induction ls; simpl; intros; auto. rewrite IHls; auto. Qed.

Lemma start_names_xs : forall ns j, NoDup ns -> map (nname (start_names j ns)) ns = start_xs j (map n_label ns).
Proof.
  induction ns; simpl; intros; auto. inversion H; subst.
  unfold nname at 1. simpl. rewrite node_eqb_refl. f_equal.
  rewrite <- IHns by auto. apply map_ext_in. intros v Hv. unfold nname. simpl.
  assert (node_eqb a v = false). { apply (eqb_false_gen node_eqb node_eqb_eq). intro; subst; auto. }
  rewrite H0. auto.
Qed.

Section Init.
  Variables (L : list elabel) (t : dtree) (nx : nat).
  Hypothesis HF : functional L.
  Hypothesis HW : wf_dtreeb L t = true.
  Local Notation lhs := (r_lhs (t_rule t)).

  Lemma lhs_in : In lhs L.
  Proof. destruct t as [r a cs]. apply (wf_dtreeb_unfold _ _ _ _ HW). Qed.

  Lemma init_explicit : init_state t nx =
    mkRS (mkGraph (start_nodes lhs nx) [start_edge lhs nx] [] [lhs] (add_nlabs [] (l_type lhs))) (S (nx + length (l_type lhs))) []
         [mkTask [] (start_edge lhs nx) t] (start_names 0 (start_nodes lhs nx)) [(start_edge lhs nx, NStart 0)].
  Proof. unfold init_state. rewrite start_graph_explicit. reflexivity. Qed.

  Lemma init_inv : Inv L (init_state t nx).
  Proof.
    rewrite init_explicit. constructor; cbn [rs_graph rs_next rs_pending rs_nnames rs_enames].
    - constructor; cbn [g_nodes g_edges g_ext g_elabs].
      + apply fresh_nodes_ids_nodup.
      + simpl. constructor; [simpl; tauto | constructor].
      + intros e [<-|[]]. cbn [start_edge e_att]. apply incl_refl.
      + intros e [<-|[]]. cbn [start_edge e_att e_label]. unfold start_nodes. rewrite fresh_nodes_labels; auto.
      + intros e [<-|[]]. simpl; auto.
      + intros x [].
      + simpl. constructor; [simpl; tauto | constructor].
    - split; cbn [g_nodes g_edges].
      + intros n Hn. apply fresh_nodes_spec in Hn. destruct Hn as [k [l [-> ?]]]. simpl. lia.
      + intros e [<-|[]]. simpl. lia.
    - split; cbn [g_elabs g_edges].
      + intros x [<-|[]]. apply lhs_in.
      + intros e [<-|[]]. apply lhs_in.
    - apply start_names_keys.
    - reflexivity.
    - intros tk [<-|[]]. cbn [tk_edge tk_tree start_edge e_label g_edges]. simpl. auto.
    - simpl. constructor; [simpl; tauto | constructor].
  Qed.

  Lemma init_den_nodes : den_nodes (init_state t nx) = d_nodes (derived_graph t).
  Proof.
    rewrite init_explicit. unfold den_nodes, derived_graph. cbn [rs_nnames rs_pending flat_map d_nodes].
    unfold start_nodes. rewrite start_names_dnodes, app_nil_r. reflexivity.
  Qed.

  Lemma init_den_edges : den_edges (init_state t nx) = d_edges (derived_graph t).
  Proof.
    rewrite init_explicit. unfold den_edges, derived_graph. cbn [rs_nnames rs_pending rs_enames flat_map d_edges].
    unfold np at 1, is_pending. cbn [filter fst existsb tk_edge]. rewrite id_eqb_refl. cbn [orb negb map app].
    rewrite app_nil_r. unfold task_edges. cbn [tk_path tk_edge tk_tree start_edge e_att].
    rewrite start_names_xs.
    - unfold start_nodes. rewrite fresh_nodes_labels. reflexivity.
    - eapply NoDup_map_NoDup. apply fresh_nodes_ids_nodup.
  Qed.
End Init.

(** * runs *)
Lemma step_not_pending : forall p s, split_task p (rs_pending s) = None -> step p s = Err OtherErr.
Proof. intros. unfold step. rewrite H. reflexivity. Qed.

Lemma run_inv : forall L, functional L -> forall l s,
  Inv L s ->
  (forall k, run l s = Err k -> k = OtherErr) /\
  (forall s', run l s = Ok s' ->
     Inv L s' /\ Permutation (den_nodes s') (den_nodes s) /\ Permutation (den_edges s') (den_edges s)).
Proof.
  intros L HF. induction l as [|p l IH]; intros s HI.
  - simpl. split; [discriminate|]. intros s' E. inversion E; subst. auto.
  - simpl. destruct (split_task p (rs_pending s)) as [[[pre tk] post]|] eqn:HS.
    + destruct (tk_tree tk) as [r a cs] eqn:HT.
      destruct (step_explicit L HF s p pre post tk r a cs HI HS HT) as [as' [_ Hst]].
      rewrite Hst.
      pose proof (s_next_inv L HF s p pre post tk r a cs HI HS HT as') as HI'.
      destruct (IH _ HI') as [A B]. split; auto.
      intros s' E. destruct (B s' E) as [B1 [B2 B3]]. split; auto. split.
      * eapply perm_trans; [exact B2|]. apply (den_nodes_step L HF s p pre post tk r a cs HI HS HT).
      * eapply perm_trans; [exact B3|]. apply (den_edges_step L HF s p pre post tk r a cs HI HS HT).
    + rewrite step_not_pending by auto. split; [intros k E; inversion E; auto | discriminate].
Qed.

Lemma filter_true : forall {A} (l : list A), filter (fun _ => true) l = l.
Proof. induction l; simpl; auto. rewrite IHl; auto. Qed.

Lemma rename_total : forall L s, Inv L s ->
  rename_graph (rs_nnames s) (rs_enames s)
  = Some (mkDG (map dn_of (rs_nnames s)) (map (ren_edge (rs_nnames s)) (rs_enames s))).
Proof.
  intros L s HI. unfold rename_graph.
  rewrite (omap_Some_map _ (ren_edge (rs_nnames s))); auto.
  intros [x nmx] Hin. unfold rename_edge, ren_edge. cbn [fst snd].
  rewrite (omap_Some_map _ (nname (rs_nnames s))); auto.
  intros v Hv. unfold nname.
  destruct (aget_In_key node_eqb node_eqb_eq (rs_nnames s) v) as [y Hy].
  - rewrite (I_nn L s HI). apply (wf_att _ (I_wf L s HI) x); auto.
    rewrite <- (I_en L s HI). apply in_map_iff. exists (x, nmx); auto.
  - rewrite Hy; auto.
Qed.

Theorem confluence_main : forall L t nx,
  wf_dtreeb L t = true -> functionalb L = true ->
  forall l,
    (forall k, run l (init_state t nx) = Err k -> k = OtherErr) /\
    (forall s, run l (init_state t nx) = Ok s -> rs_pending s = [] ->
       iso_via (rs_graph s) (rs_nnames s) (rs_enames s) (derived_graph t)).
Proof.
  intros L t nx HW HFb l. apply functionalb_iff in HFb.
  destruct (run_inv L HFb l _ (init_inv L t nx HW)) as [A B]. split; auto.
  intros s E HP. destruct (B s E) as [HI [PN PE]].
  rewrite init_den_nodes in PN. rewrite init_den_edges in PE.
  unfold den_nodes in PN. unfold den_edges in PE. rewrite HP in PN, PE. cbn [flat_map] in PN, PE.
  rewrite app_nil_r in PN, PE.
  assert (FT : filter (np []) (rs_enames s) = rs_enames s) by apply filter_true.
  rewrite FT in PE.
  split; [apply (I_nn L s HI)|]. split; [apply (I_en L s HI)|]. split; [apply (wf_nodes _ (I_wf L s HI))|].
  split; [apply (wf_edges _ (I_wf L s HI))|].
  split; [|split].
  - apply (Permutation_map fst) in PN. rewrite map_map in PN. cbn [dn_of fst] in PN.
    eapply Permutation_NoDup; [apply Permutation_sym; exact PN|]. eapply derived_nodes_nodup; eauto.
  - apply (Permutation_map ename) in PE. rewrite map_map in PE.
    change (map (fun x => ename (ren_edge (rs_nnames s) x)) (rs_enames s)) with (map snd (rs_enames s)) in PE.
    eapply Permutation_NoDup; [apply Permutation_sym; exact PE|]. eapply derived_edges_nodup; eauto.
  - eexists. split; [apply (rename_total L s HI)|]. cbn [d_nodes d_edges]. auto.
Qed.

(** any two complete linearisations give graphs isomorphic to the same canonical graph *)
Corollary confluence_two_orders : forall L t nx l1 l2 s1 s2,
  wf_dtreeb L t = true -> functionalb L = true ->
  run l1 (init_state t nx) = Ok s1 -> rs_pending s1 = [] ->
  run l2 (init_state t nx) = Ok s2 -> rs_pending s2 = [] ->
  iso_via (rs_graph s1) (rs_nnames s1) (rs_enames s1) (derived_graph t) /\
  iso_via (rs_graph s2) (rs_nnames s2) (rs_enames s2) (derived_graph t).
Proof.
  intros. split; eapply confluence_main; eauto.
Qed.
