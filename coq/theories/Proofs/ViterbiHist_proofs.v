(** C04, histories of calls on one FGG object (Model/ViterbiHist.v): what verdict 0 of
    [vit_hist_check] means, and that the state a call is judged against is the initial state with
    all earlier in-place updates and rule additions applied. *)
From Coq Require Import QArith Qcanon List Arith Bool PeanoNat Lia.
Import ListNotations.
Require Import Fggs.Model.Semiring Fggs.Model.SCC Fggs.Model.SumProduct Fggs.Model.SumProductCheck
               Fggs.Model.Kleene Fggs.Model.EReal Fggs.Model.Trop Fggs.Model.Viterbi Fggs.Model.ViterbiHist.
Require Import Fggs.Proofs.SP_trees Fggs.Proofs.Viterbi_proofs Fggs.Proofs.Viterbi_examples.
Local Open Scope nat_scope.

(** * the in-place update is a lens on the weight state *)
Lemma set_nth_length {A} (l : list A) i v : length (set_nth l i v) = length l.
Proof. revert i; induction l as [|x l IH]; intros [|i]; cbn; auto. Qed.

Lemma set_nth_same {A} (l : list A) i v : i < length l -> nth_error (set_nth l i v) i = Some v.
Proof.
  revert i; induction l as [|x l IH]; intros [|i] Hi; cbn in *; try lia; auto.
  apply IH; lia.
Qed.

Lemma set_nth_other {A} (l : list A) i j v : i <> j -> nth_error (set_nth l i v) j = nth_error l j.
Proof.
  revert i j; induction l as [|x l IH]; intros [|i] [|j] Hij; cbn; auto; try congruence.
Qed.

Lemma ws_set_get_same ws el i v :
  ws_get ws el i <> None -> ws_get (ws_set ws (el, i, v)) el i = Some v.
Proof.
  induction ws as [|[a l] ws IH]; cbn; intros H; [congruence|].
  destruct (Nat.eqb a el) eqn:E; cbn; rewrite E; auto.
  apply set_nth_same. apply nth_error_Some. exact H.
Qed.

Lemma ws_set_get_other ws el i v el' i' :
  (el', i') <> (el, i) -> ws_get (ws_set ws (el, i, v)) el' i' = ws_get ws el' i'.
Proof.
  intros Hne. induction ws as [|[a l] ws IH]; cbn; auto.
  destruct (Nat.eqb a el) eqn:E; cbn.
  - destruct (Nat.eqb a el') eqn:E'; auto.
    apply Nat.eqb_eq in E, E'. subst.
    apply set_nth_other. intros ->. apply Hne. reflexivity.
  - destruct (Nat.eqb a el'); auto.
Qed.

Lemma ws_set_labels ws u : map fst (ws_set ws u) = map fst ws.
Proof.
  destruct u as [[el i] v]. induction ws as [|[a l] ws IH]; cbn; auto.
  f_equal; auto. destruct (Nat.eqb a el); reflexivity.
Qed.

(** * the state every call is judged against *)
Definition step_ups (s : hstep) : list wupd := let '(ups, _, _, _) := s in ups.
Definition step_rules (s : hstep) : list rule_w := let '(_, rs, _, _) := s in rs.

Lemma gw_add_app gw a b : gw_add (gw_add gw a) b = gw_add gw (a ++ b).
Proof. destruct gw as [[[d ls] rules] s]. cbn. rewrite app_assoc. reflexivity. Qed.

Lemma hist_cases_length gw ws K steps : length (hist_cases gw ws K steps) = length steps.
Proof.
  revert gw ws; induction steps as [|[[[ups rs] xi] ob] steps IH]; intros; cbn; auto.
Qed.

(** the j-th call is judged with: the rules of the initial grammar followed by all rules added by
    steps 0..j; the initial weights with the updates of steps 0..j applied in order; the step's own
    start assignment and observation.  Observations of earlier calls play no role. *)
Theorem hist_cases_nth gw ws K steps j ups rs xi ob :
  nth_error steps j = Some (ups, rs, xi, ob) ->
  nth_error (hist_cases gw ws K steps) j
  = Some (gw_add gw (flat_map step_rules (firstn (S j) steps)),
          fold_left ws_set (flat_map step_ups (firstn (S j) steps)) ws, xi, K, ob).
Proof.
  revert gw ws j. induction steps as [|[[[ups0 rs0] xi0] ob0] steps IH]; intros gw ws [|j] H; cbn in H; try discriminate.
  - inversion H; subst. cbn. rewrite !app_nil_r. reflexivity.
  - cbn [hist_cases nth_error]. rewrite (IH _ _ _ H).
    cbn [firstn flat_map step_ups step_rules]. rewrite gw_add_app, fold_left_app. reflexivity.
Qed.

(** * soundness of the verdict *)
Lemma code_pass_iff c : code_pass c = true <-> c = 0 \/ c = 30 \/ c = 31.
Proof.
  unfold code_pass. rewrite !orb_true_iff, !Nat.eqb_eq. tauto.
Qed.

Lemma first_bad_0 j codes : first_bad j codes = 0 -> Forall (fun c => code_pass c = true) codes.
Proof.
  revert j; induction codes as [|c codes IH]; intros j H; cbn in H; constructor.
  - destruct (code_pass c); auto. lia.
  - destruct (code_pass c); [eauto|lia].
Qed.

Lemma first_bad_pos j codes c : first_bad j codes = c -> c <> 0 ->
  exists i r, nth_error codes i = Some r /\ code_pass r = false /\ c = 100 * (S (j + i)) + r
              /\ forall i', i' < i -> exists r', nth_error codes i' = Some r' /\ code_pass r' = true.
Proof.
  revert j; induction codes as [|r codes IH]; intros j H Hc; cbn in H; [congruence|].
  destruct (code_pass r) eqn:E.
  - destruct (IH _ H Hc) as (i & r' & Hn & Hp & Hv & Hall).
    exists (S i), r'. cbn. repeat split; auto; try lia.
    intros [|i'] Hi; cbn; eauto. apply Hall; lia.
  - exists 0, r. cbn. repeat split; auto; try lia.
Qed.

Theorem hist_check_sound gw ws K steps :
  vit_hist_check (gw, ws, K, steps) = 0 ->
  (forall c, In c (hist_cases gw ws K steps) -> vit_check c = 0 \/ vit_check c = 30 \/ vit_check c = 31)
  /\ exists c, In c (hist_cases gw ws K steps) /\ vit_check c = 0.
Proof.
  unfold vit_hist_check. intros H.
  destruct (first_bad 0 (map vit_check (hist_cases gw ws K steps))) eqn:E; [|congruence].
  destruct (existsb (Nat.eqb 0) (map vit_check (hist_cases gw ws K steps))) eqn:Ex; [|discriminate].
  split.
  - intros c Hin. apply first_bad_0 in E. rewrite Forall_forall in E.
    apply code_pass_iff, E, in_map, Hin.
  - apply existsb_exists in Ex. destruct Ex as (r & Hin & Hr).
    apply in_map_iff in Hin. destruct Hin as (c & Hc & Hin).
    apply Nat.eqb_eq in Hr. subst. exists c. split; auto.
Qed.

Lemma option_map_Some {A B} (f : A -> B) o r :
  option_map f o = Some r -> exists c, o = Some c /\ r = f c.
Proof. destruct o as [c|]; cbn; intros H; inversion H; eauto. Qed.

(** a rejecting verdict names the first rejected call and [vit_check]'s verdict on it *)
Theorem hist_check_rejects gw ws K steps v :
  vit_hist_check (gw, ws, K, steps) = v -> v <> 0 -> v <> 31 ->
  exists j c, nth_error (hist_cases gw ws K steps) j = Some c
              /\ v = 100 * (S j) + vit_check c
              /\ vit_check c <> 0 /\ vit_check c <> 30 /\ vit_check c <> 31.
Proof.
  unfold vit_hist_check. intros H H0 H31.
  destruct (first_bad 0 (map vit_check (hist_cases gw ws K steps))) eqn:E.
  - destruct (existsb _ _); congruence.
  - subst v. destruct (first_bad_pos _ _ _ E ltac:(lia)) as (i & r & Hn & Hp & Hv & _).
    rewrite nth_error_map in Hn.
    apply option_map_Some in Hn. destruct Hn as (c & Ec & ->).
    exists i, c. repeat split; auto.
    all: intros Hr; rewrite Hr in Hp; discriminate.
Qed.

(** verdict 0: every call of the history that falls under the property returned a well-formed
    derivation that is optimal for the weights and rules the object had AT THAT CALL *)
Theorem hist_check_optimal gw ws K steps :
  vit_hist_check (gw, ws, K, steps) = 0 ->
  forall j ups rs xi kind t dw spv,
    nth_error steps j = Some (ups, rs, xi, (kind, t, dw, spv)) ->
    let gwj := gw_add gw (flat_map step_rules (firstn (S j) steps)) in
    let wsj := fold_left ws_set (flat_map step_ups (firstn (S j) steps)) ws in
    let G := grammar_of_w gwj in
    let w := env_of trop_ops (weights_tmt trop_of G wsj) in
    vit_check (gwj, wsj, xi, K, (kind, t, dw, spv)) = 30
    \/ vit_check (gwj, wsj, xi, K, (kind, t, dw, spv)) = 31
    \/ (kind = 0 /\ wf_grammar G = true /\ wf_dtree G (g_start G) xi t
        /\ (exists q, weight trop_ops G w t = TFin q)
        /\ (forall t', wf_dtree G (g_start G) xi t' -> tle (weight trop_ops G w t') (weight trop_ops G w t))
        /\ trop_of dw = weight trop_ops G w t).
Proof.
  intros H j ups rs xi kind t dw spv Hn gwj wsj G w.
  destruct (hist_check_sound _ _ _ _ H) as [Hall _].
  pose proof (hist_cases_nth gw ws K steps j _ _ _ _ Hn) as Hc.
  apply nth_error_In in Hc. fold gwj wsj in Hc.
  destruct (Hall _ Hc) as [H0|[H30|H31]]; auto.
  right; right.
  pose proof (vit_check_sound _ _ _ _ _ _ _ _ H0) as S. cbv zeta in S.
  fold G in S. fold w in S.
  destruct S as (S1 & S2 & S3 & S4 & S5 & _ & _ & _ & S9). repeat split; auto.
Qed.

(** * example: a result computed from an earlier state of the object is rejected *)
(** the grammar of Viterbi_examples (T(x) -> T(x) g(x) | f(x), f = [-2,-1]); call 1 with the
    initial weights returns the optimum (x = 1, -1); then f[1] = -3 in place: the optimum is now
    x = 0 with -2.  Returning the first call's derivation again (it now weighs -3) is rejected as
    call 2, verdict 6; the derivation that is optimal now is accepted. *)
Definition ex_upd : wupd := (2, 1, (1, (-3) # 1)).
Definition ex_m2 : nat * Q := (1, (-2) # 1).
Definition ex_m3 : nat * Q := (1, (-3) # 1).
Definition ex_step1 : hstep := ([], [], [], (0, ex_t, ex_m1, (ex_m1, ex_m1))).
Definition ex_step2_stale : hstep := ([ex_upd], [], [], (0, ex_t, ex_m3, (ex_m2, ex_m2))).
Definition ex_step2_fresh : hstep := ([ex_upd], [], [], (0, ex_t_sub, ex_m2, (ex_m2, ex_m2))).

Example ex_hist :
  vit_hist_check (ex_gw, ex_ws, 2, [ex_step1; ex_step2_fresh]) = 0
  /\ vit_hist_check (ex_gw, ex_ws, 2, [ex_step1; ex_step2_stale]) = 206
  /\ ws_get (fold_left ws_set [ex_upd] ex_ws) 2 1 = Some ex_m3
  /\ ws_get (fold_left ws_set [ex_upd] ex_ws) 2 0 = Some ex_m2.
Proof. vm_compute. repeat split. Qed.

(** rules added between two calls: with only the cycle rule of T the start symbol has no finite
    derivation (call 1 is outside the property, 31); after [add_rule] of the base rule the second
    call is judged against the three-rule grammar *)
Definition ex_gw_part : grammar_w :=
  ([2], [(false, []); (false, [0]); (true, [0]); (true, [0])],
   [(0, [0], [(1, [0])], []); (1, [0], [(1, [0]); (3, [0])], [0])], 0).
Definition ex_rule3 : rule_w := (1, [0], [(2, [0])], [0]).
Example ex_hist_rules :
  gw_add ex_gw_part [ex_rule3] = ex_gw
  /\ vit_hist_check (ex_gw_part, ex_ws, 2,
                     [([], [], [], (1, ex_t, ex_m1, ((0, 0 # 1), (0, 0 # 1))));
                      ([], [ex_rule3], [], (0, ex_t, ex_m1, (ex_m1, ex_m1)))]) = 0
  /\ vit_hist_check (ex_gw_part, ex_ws, 2,
                     [([], [], [], (1, ex_t, ex_m1, ((0, 0 # 1), (0, 0 # 1))));
                      ([], [ex_rule3], [], (1, ex_t, ex_m1, (ex_m1, ex_m1)))]) = 201.
Proof. vm_compute. repeat split. Qed.
