(** C07: the theorems about [einsum_run] as a whole.
    - [einsum_raw_correct]: normal exit (soundness half; equality under the counting criterion);
    - [einsum_zero_correct]: the two [zero_result()] exits;
    - [einsum_run_prepared]: operands that already have default zero and pairwise disjoint
      physical axes are used as they are;
    - [post_init_id]: on the normal exit [__post_init__] is the identity;
    - wire tensors satisfy [st_ok]; mv / mm are instances and their specification is the usual
      matrix-vector / matrix-matrix product;
    - [cert_holds_upto12]: on the bounded domain of C06_unify_complete_upto12 the premises hold. *)
From Coq Require Import List Arith Bool PeanoNat Lia Permutation Ring Ring_theory PArith.
Import ListNotations.
Require Import Fggs.Model.Semiring Fggs.Model.SumProduct.
Require Import Fggs.Proofs.BigSum Fggs.Proofs.SP_trees.
Require Import Fggs.Model.Axis Fggs.Model.PTensor Fggs.Model.AxisCheck Fggs.Model.AxisEnum Fggs.Model.Einsum Fggs.Model.EinsumCheck Fggs.Model.EinsumCert.
Require Import Fggs.Proofs.Axis_sem Fggs.Proofs.Axis_repr Fggs.Proofs.PTensor_sem Fggs.Proofs.PTensor_dense.
Require Import Fggs.Proofs.Einsum_dense Fggs.Proofs.Einsum_envs Fggs.Proofs.Einsum_support Fggs.Proofs.Einsum_form.
Require Import Fggs.Proofs.Einsum_views Fggs.Proofs.Einsum_reduce Fggs.Proofs.Einsum_subst Fggs.Proofs.Einsum_loop.
Require Import Fggs.Proofs.Einsum_project Fggs.Proofs.Einsum_reindex Fggs.Proofs.Einsum_main Fggs.Proofs.Einsum_final.

Section Top.
Context {R : Type} (o : sr_ops R).
Hypothesis Hr : sr_ring o.
Add Ring RingET : (sr_is_srt o Hr).
Variable veqb : R -> R -> bool.
Hypothesis Hveqb : forall a b, veqb a b = true -> a = b.
Notation r0 := (Semiring.zero o).
Notation ptensor := (ptensor R).
Notation stensor := (stensor (R:=R)).

Definition operands_of (r : erun (R:=R)) : list ptensor := map st_pt (er_ts r).

(** * the normal exit *)
Theorem einsum_raw_correct genabled next ts0 inputs output r :
  einsum_run o veqb genabled next ts0 inputs output = Ok r ->
  er_failed r = false -> er_zero_axis r = false ->
  Forall (st_ok (R:=R)) (er_ts r) ->
  cert_operands o veqb r inputs output = true -> cert_subst r = true -> cert_views r = true ->
  forall oidx, length oidx = length output ->
  (exists L, NoDup L /\ incl L (coincs (operands_of r) inputs (er_i2v r)) /\
     denote R (er_raw r) oidx = sumS o L (g o (operands_of r) output (er_i2v r) oidx) /\
     einsum_dense o (map (dn (R:=R)) (operands_of r)) inputs output oidx
     = sumS o (coincs (operands_of r) inputs (er_i2v r)) (g o (operands_of r) output (er_i2v r) oidx)) /\
  (cert_complete r inputs = true ->
     denote R (er_raw r) oidx = einsum_dense o (map (dn (R:=R)) (operands_of r)) inputs output oidx).
Proof.
  intros Hrun Hf Hz OK CO CS CV oidx Lo.
  destruct (einsum_run_inv o veqb genabled next ts0 inputs output r Hrun) as (s & ts1 & nx1 & _ & E1 & Es & Ei & Ef & E2 & Rest).
  destruct (Rest Hf) as [E3 Er]. specialize (Er Hz).
  rewrite <- Es in E2, E3. rewrite <- Ei in E2.
  assert (Ez : ls_zero s = false) by (rewrite <- Ef; exact Hf).
  destruct (raw_correct o Hr veqb Hveqb r inputs output CV CO CS OK s ts1 nx1 E1 Es Ei Ez E2 E3 Er oidx Lo) as [S C].
  split; [exact S|]. intros CC. apply C.
  unfold cert_complete in CC. rewrite Hf, Hz in CC. simpl in CC. apply Nat.leb_le in CC.
  rewrite all_envs_length. exact CC.
Qed.

(** * the [zero_result()] exits *)
Lemma denote_pt_full shp d next idx : denote R (fst (pt_full R shp d next)) idx = d.
Proof.
  unfold pt_full, pt_of_dense. destruct (dense_axes shp next) as [vs nx]. cbn [fst].
  unfold denote. cbn [vaxes default]. destruct (index_list vs [] idx); reflexivity.
Qed.

Theorem einsum_zero_correct genabled next ts0 inputs output r :
  einsum_run o veqb genabled next ts0 inputs output = Ok r ->
  er_failed r || er_zero_axis r = true ->
  cert_operands o veqb r inputs output = true -> cert_complete r inputs = true ->
  forall oidx, denote R (er_raw r) oidx = einsum_dense o (map (dn (R:=R)) (operands_of r)) inputs output oidx.
Proof.
  intros Hrun Hz CO CC oidx.
  destruct (co_facts o veqb Hveqb r inputs output CO) as (HL & HW & HD & HF & HN & Hout & Hi2v & Hsz).
  unfold operands_of. rewrite (spec_as_coincs o Hr _ inputs output (er_i2v r) HL HW HD HF HN Hout Hi2v Hsz oidx).
  unfold cert_complete in CC. rewrite Hz in CC. apply Nat.eqb_eq in CC.
  assert (Ec : coincs (map st_pt (er_ts r)) inputs (er_i2v r) = []).
  { unfold count_coinc in CC. unfold coincs. apply length_zero_iff_nil. exact CC. }
  rewrite Ec. cbn.
  (* the result is the all-zero tensor *)
  clear -Hrun Hz. unfold einsum_run in Hrun.
  destruct (default_all veqb genabled r0 next ts0) as [ts1 nx1].
  destruct (eloop _ _ _ _ _) as [[s fts]|]; [|discriminate]. cbn [bind] in Hrun.
  destruct (mapM _ output) as [outv|]; [|discriminate]. cbn [bind] in Hrun.
  destruct (ls_zero s).
  - inversion Hrun; subst. cbn [er_raw]. apply denote_pt_full.
  - destruct (mapM (project_view (us_subst (ls_u s))) fts) as [views|]; [|discriminate]. cbn [bind] in Hrun.
    destruct (existsb _ (flat_map vw_dims views)).
    + inversion Hrun; subst. cbn [er_raw]. apply denote_pt_full.
    + destruct (fv_list _ _ outv) as [outp|]; [|discriminate]. cbn [bind] in Hrun. inversion Hrun; subst.
      cbn in Hz. discriminate.
Qed.

(** * on the normal exit [__post_init__] does nothing *)
Lemma post_init_id (t : ptensor) : forallb (fun kn => negb (Nat.eqb (snd kn) 1)) (paxes t) = true -> post_init R t = Ok t.
Proof.
  intros H. unfold post_init.
  assert (E : filter (fun kn : pn => Nat.eqb (snd kn) 1) (paxes t) = []).
  { induction (paxes t) as [|kn l IH]; [reflexivity|]. simpl in *. apply andb_true_iff in H. destruct H as [H1 H2].
    apply negb_true_iff in H1. rewrite H1. apply IH. exact H2. }
  rewrite E. reflexivity.
Qed.

Theorem einsum_post_init_id genabled next ts0 inputs output r :
  einsum_run o veqb genabled next ts0 inputs output = Ok r ->
  er_failed r = false -> er_zero_axis r = false -> cert_views r = true ->
  post_init R (er_raw r) = Ok (er_raw r).
Proof.
  intros Hrun Hf Hz CV.
  destruct (einsum_run_inv o veqb genabled next ts0 inputs output r Hrun) as (s & ts1 & nx1 & _ & _ & _ & _ & _ & _ & Rest).
  destruct (Rest Hf) as [_ Er]. rewrite (Er Hz). apply post_init_id. cbn [paxes].
  unfold cert_views in CV. apply andb_true_iff in CV. destruct CV as [CV _]. apply andb_true_iff in CV. destruct CV as [_ CV].
  unfold repr_inv_b in CV. apply andb_true_iff in CV. destruct CV as [_ CV]. exact CV.
Qed.

(** * prepared operands are used as they are *)
Lemma default_all_id genabled d next (ts : list stensor) :
  forallb (fun t => veqb (default (st_pt t)) d) ts = true -> default_all veqb genabled d next ts = (ts, next).
Proof.
  induction ts as [|t ts IH]; intros H; [reflexivity|]. simpl in H. apply andb_true_iff in H. destruct H as [H1 H2].
  simpl. unfold st_default_to. rewrite H1, (IH H2). reflexivity.
Qed.

Lemma unify_dims_fv fuel : forall vs inp s s', unify_dims fuel vs inp s = Ok s' -> ls_fv s' = ls_fv s.
Proof.
  induction vs as [|v vs IH]; intros inp s s' H; [inversion H; reflexivity|].
  destruct inp as [|l inp]; [inversion H; reflexivity|]. cbn [unify_dims] in H.
  destruct (lassoc l (ls_i2v s)).
  - destruct (unify fuel a v (ls_u s)) as [[b u]|]; [|discriminate]. cbn [bind] in H. apply IH in H. exact H.
  - apply IH in H. exact H.
Qed.

Definition stkeys (ts : list stensor) : list positive := map fst (flat_map (fun t => paxes (st_pt t)) ts).

Lemma eloop_prepared fuel : forall ts inputs s acc s' fts,
  eloop fuel ts inputs s acc = Ok (s', fts) -> length ts = length inputs -> NoDup (ls_fv s ++ stkeys ts) ->
  fts = acc ++ ts.
Proof.
  induction ts as [|t ts IH]; intros inputs s acc s' fts H L NDk.
  - simpl in H. inversion H. rewrite app_nil_r. reflexivity.
  - destruct inputs as [|inp inputs]; [discriminate|]. cbn [eloop] in H.
    unfold stkeys in NDk. cbn [flat_map] in NDk. rewrite map_app in NDk.
    assert (D : forallb (fun kn : pn => negb (existsb (Pos.eqb (fst kn)) (ls_fv s))) (paxes (st_pt t)) = true).
    { apply forallb_forall. intros kn Hkn. apply negb_true_iff. destruct (existsb (Pos.eqb (fst kn)) (ls_fv s)) eqn:E; [|reflexivity].
      exfalso. apply existsb_pos_In in E. destruct (NoDup_app_parts _ _ NDk) as (_ & _ & Dj).
      apply (Dj (fst kn) E). apply in_or_app. left. apply in_map. exact Hkn. }
    rewrite D in H.
    destruct (unify_dims fuel (vaxes (st_pt t)) inp _) as [s1|] eqn:EU; [|discriminate]. cbn [bind] in H.
    apply unify_dims_fv in EU. cbn [ls_fv] in EU.
    rewrite (IH inputs s1 (acc ++ [t]) s' fts H); [rewrite <- app_assoc; reflexivity|simpl in L; lia|].
    rewrite EU, <- app_assoc. exact NDk.
Qed.

Theorem einsum_run_prepared genabled next (ts : list stensor) inputs output r :
  einsum_run o veqb genabled next ts inputs output = Ok r ->
  length ts = length inputs ->
  forallb (fun t => veqb (default (st_pt t)) r0) ts = true ->
  NoDup (stkeys ts) ->
  er_ts r = ts.
Proof.
  intros Hrun L HD NDk.
  destruct (einsum_run_inv o veqb genabled next ts inputs output r Hrun) as (s & ts1 & nx1 & E0 & E1 & _).
  rewrite (default_all_id genabled r0 next ts HD) in E0. inversion E0; subst.
  apply (eloop_prepared _ _ _ _ _ _ _ E1 L). exact NDk.
Qed.

(** * mv / mm *)
Theorem mv_mm_instances genabled next (a b : stensor) :
  mv_model o veqb genabled next a b = einsum_model o veqb genabled next [a; b] [[0; 1]; [1]] [0] /\
  mm_model o veqb genabled next a b = einsum_model o veqb genabled next [a; b] [[0; 1]; [1; 2]] [0; 2].
Proof. split; reflexivity. Qed.

(** the specification of "ij,j->i" is the matrix-vector product *)
Theorem einsum_dense_mv (A v : list nat -> R) m n i :
  einsum_dense o [([m; n], A); ([n], v)] [[0; 1]; [1]] [0] [i]
  = sumS o (seq 0 n) (fun j => mul o (A [i; j]) (v [j])).
Proof.
  unfold einsum_dense. cbn [out_consistent length Nat.eqb combine forallb fst snd andb lval lassoc].
  rewrite Nat.eqb_refl. cbn [andb].
  cbn [map fst label_sizes combine flat_map snd app summed_labels concat dedup_nat existsb Nat.eqb orb lval lassoc all_assts].
  rewrite (sumS_flat_map o Hr). apply (sumS_ext o). intros j _. cbn [map]. rewrite (sumS_single o Hr).
  unfold einsum_term, prodS. cbn. ring.
Qed.

(** the specification of "ij,jk->ik" is the matrix product *)
Theorem einsum_dense_mm (A B : list nat -> R) m n p i k :
  einsum_dense o [([m; n], A); ([n; p], B)] [[0; 1]; [1; 2]] [0; 2] [i; k]
  = sumS o (seq 0 n) (fun j => mul o (A [i; j]) (B [j; k])).
Proof.
  unfold einsum_dense. cbn [out_consistent length Nat.eqb combine forallb fst snd andb lval lassoc].
  rewrite !Nat.eqb_refl. cbn [andb].
  cbn [map fst label_sizes combine flat_map snd app summed_labels concat dedup_nat existsb Nat.eqb orb lval lassoc all_assts].
  rewrite (sumS_flat_map o Hr). apply (sumS_ext o). intros j _. cbn [map]. rewrite (sumS_single o Hr).
  unfold einsum_term, prodS. cbn. ring.
Qed.
End Top.

(** * wire tensors *)
Lemma dot_set_nth i v : forall idx pstr, nth i pstr 1 = 0 -> i < length idx -> dot (set_nth i v idx) pstr = dot idx pstr.
Proof.
  induction i as [|i IH]; intros idx pstr Hn Hi; destruct idx as [|x idx]; try (simpl in Hi; lia).
  - destruct pstr as [|m pstr]; [reflexivity|]. simpl in Hn. subst m. unfold set_nth, dot. simpl. lia.
  - destruct pstr as [|m pstr]; [reflexivity|]. change (set_nth (S i) v (x :: idx)) with (x :: set_nth i v idx).
    unfold dot in *. simpl. f_equal. apply IH; [exact Hn|simpl in Hi; lia].
Qed.

Theorem st_of_wire_ok {R W : Type} (ofw : W -> R) (w : wten (W:=W)) : wire_ok w = true -> st_ok (st_of_wire ofw w).
Proof.
  destruct w as [[[[[[ps pstr] off] vs] d] flat] rg]. unfold wire_ok, st_of_wire. intros H.
  apply andb_true_iff in H. destruct H as [H _]. apply andb_true_iff in H. destruct H as [H _]. apply Nat.eqb_eq in H.
  split; [exact H|]. intros i idx v Hn Hi. cbn [st_pt physical st_pstr] in *. rewrite (dot_set_nth i v idx pstr Hn Hi). reflexivity.
Qed.

(** * the premises hold on the bounded domain of C06_unify_complete_upto12 *)
Definition pair_tensor (e : axis) : stensor (R:=bool) :=
  let ps := fvn_list [e] in mkST (mkPT (fun _ => true) ps [e] false) (cstrides (map snd ps)) false.

Definition cert_pair (ef : axis * axis) : bool :=
  match einsum_run bool_ops Bool.eqb false 100 [pair_tensor (fst ef); pair_tensor (snd ef)] [[0]; [0]] [] with
  | Ok r => Nat.eqb (cert_verdict bool_ops Bool.eqb r [[0]; [0]] []) 0
  | Fail _ => false
  end.

Lemma cert_holds_upto12_b : forallb (fun t => forallb cert_pair (typed_pairs t)) (types_upto 12) = true.
Proof. vm_compute. reflexivity. Qed.

Theorem cert_holds_upto12 : forall t e f, In t (types_upto 12) -> In e (axes_of t 1) -> In f (axes_of t 50) ->
  exists r, einsum_run bool_ops Bool.eqb false 100 [pair_tensor e; pair_tensor f] [[0]; [0]] [] = Ok r /\
            cert_verdict bool_ops Bool.eqb r [[0]; [0]] [] = 0.
Proof.
  intros t e f Ht He Hf. pose proof cert_holds_upto12_b as H. rewrite forallb_forall in H. specialize (H t Ht).
  rewrite forallb_forall in H. specialize (H (e, f) (in_prod _ _ _ _ He Hf)). unfold cert_pair in H. cbn [fst snd] in H.
  destruct (einsum_run _ _ _ _ _ _ _) as [r|]; [|discriminate]. exists r. split; [reflexivity|apply Nat.eqb_eq; exact H].
Qed.
