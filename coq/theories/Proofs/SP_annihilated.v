(** C01, magnitudes: a term (assignment to the nodes of a right-hand side) that contains a ZERO factor is
    worth zero whatever the other factors are -- also when they are so large or so small that a
    floating-point partial product of them leaves the range (1e200 * 1e200 * 0 = 0, in every edge order), or
    +inf (the carrier [ereal] has 0 * inf = 0).  Consequences used by the magnitude stream of the check:
    - [rule_val_annihilated_terms]: two weight environments that differ ONLY on factors of annihilated terms
      give the same value of the rule (the value is independent of the extreme weights; this is also why the
      Log reading may hand the model a different positive number for them);
    - [rule_val_all_killed]: if every term is annihilated the rule is worth zero;
    - [rule_val_edge_order]: the value does not depend on the order of the edges;
    - [real_within_empty] / [trop_within_empty]: the observation by which the harness encodes a nan (the empty
      interval) is rejected by the oracle of [sp_check_real] / [sp_check_trop] for EVERY model value. *)
From Coq Require Import List Arith Bool PeanoNat Lia Permutation Ring Ring_theory QArith Qcanon.
Import ListNotations.
Require Import Fggs.Model.Semiring Fggs.Model.SCC Fggs.Model.SumProduct Fggs.Model.SumProductCheck
               Fggs.Model.EReal Fggs.Model.Trop.
Require Import Fggs.Proofs.BigSum Fggs.Proofs.SemiringLaws Fggs.Proofs.SolveCarriers.
Local Close Scope Qc_scope.
Local Close Scope Q_scope.

Section Annihilated.
Context {R : Type} (o : sr_ops R).
Hypothesis Hr : sr_ring o.

(** the term of assignment [a] in rule [r] under environment [e] *)
Definition term_of (e : env (R:=R)) (r : rule) (a : list nat) : R :=
  prodS o (r_edges r) (fun ed => e (fst ed) (sel a (snd ed))).

(** [a] is annihilated in both environments: some edge's factor is zero in both *)
Definition killed2 (e e' : env (R:=R)) (r : rule) (a : list nat) : Prop :=
  exists ed, In ed (r_edges r) /\ e (fst ed) (sel a (snd ed)) = zero o /\ e' (fst ed) (sel a (snd ed)) = zero o.

Lemma term_killed e r a ed :
  In ed (r_edges r) -> e (fst ed) (sel a (snd ed)) = zero o -> term_of e r a = zero o.
Proof. intros Hin Hz. unfold term_of. exact (prodS_zero o Hr _ _ ed Hin Hz). Qed.

Theorem rule_val_annihilated_terms G (e e' : env (R:=R)) r xi :
  (forall a, In a (all_assts (node_sizes G r)) ->
     killed2 e e' r a
     \/ (forall ed, In ed (r_edges r) -> e (fst ed) (sel a (snd ed)) = e' (fst ed) (sel a (snd ed)))) ->
  rule_val o G e r xi = rule_val o G e' r xi.
Proof.
  intros H. unfold rule_val. apply sumS_ext. intros a Ha.
  apply filter_In in Ha. destruct Ha as [Ha _].
  destruct (H a Ha) as [[ed [Hin [Hz Hz']]]|Heq].
  - change (term_of e r a = term_of e' r a).
    rewrite (term_killed e r a ed Hin Hz), (term_killed e' r a ed Hin Hz'). reflexivity.
  - apply prodS_ext. exact Heq.
Qed.

Theorem rule_val_all_killed G (e : env (R:=R)) r xi :
  (forall a, In a (all_assts (node_sizes G r)) ->
     exists ed, In ed (r_edges r) /\ e (fst ed) (sel a (snd ed)) = zero o) ->
  rule_val o G e r xi = zero o.
Proof.
  intros H. unfold rule_val. apply (sumS_all_zero o Hr). intros a Ha.
  apply filter_In in Ha. destruct Ha as [Ha _].
  destruct (H a Ha) as [ed [Hin Hz]]. exact (term_killed e r a ed Hin Hz).
Qed.

(** the order of the edges of a right-hand side is immaterial *)
Theorem rule_val_edge_order G (e : env (R:=R)) r r' xi :
  r_nodes r' = r_nodes r -> r_ext r' = r_ext r -> Permutation (r_edges r) (r_edges r') ->
  rule_val o G e r xi = rule_val o G e r' xi.
Proof.
  intros Hn He Hp. unfold rule_val, node_sizes. rewrite Hn, He. apply sumS_ext. intros a _.
  exact (prodS_perm o Hr _ _ _ Hp).
Qed.
End Annihilated.

(** ** nan is rejected by the oracles *)
Lemma real_within_empty (x : ereal) (lo hi : Q) : (hi < lo)%Q -> real_within x (lo, Some hi) = false.
Proof.
  intros Hlt. unfold real_within. cbn [fst snd]. destruct x as [a|]; [|reflexivity].
  destruct (Qle_bool lo (this (qv a))) eqn:E1; [|reflexivity].
  destruct (Qle_bool (this (qv a)) hi) eqn:E2; [|reflexivity].
  apply Qle_bool_iff in E1. apply Qle_bool_iff in E2.
  exfalso. apply (Qlt_not_le _ _ Hlt). eapply Qle_trans; eassumption.
Qed.

Lemma trop_within_empty (x : trop) (q q' : Q) : trop_within x (2, q) (0, q') = false.
Proof. unfold trop_within, trop_of. cbn [fst snd]. destruct x; reflexivity. Qed.

(** ** example (shape of the seeded regression C01-g): S -> f(n) g(n) h(n), |N| = 2,
    f = g = [2^1000, 1], h = [0, 1]: the value is 1 = 2^1000 * 2^1000 * 0 + 1 * 1 * 1, in every edge order, and
    also with +inf in place of 2^1000 *)
Definition G_mag (edges : list (nat * list nat)) : grammar :=
  {| g_doms := [2]; g_labels := [(false, []); (true, [0]); (true, [0]); (true, [0])];
     g_rules := [{| r_lhs := 0; r_nodes := [0]; r_edges := edges; r_ext := [] |}]; g_start := 0 |}.
Definition w_mag (big : option Q) : list (nat * list (option Q)) :=
  [(1, [big; Some 1%Q]); (2, [big; Some 1%Q]); (3, [Some 0%Q; Some 1%Q])].
Definition big_q : Q := Qmake (2 ^ 1000)%Z 1.
Definition tiny_q : Q := Qmake 1 (2 ^ 1000)%positive.
Definition obs_one : list (nat * list (Q * option Q)) := [(0, [(1%Q, Some 1%Q)])].
Definition obs_nan : list (nat * list (Q * option Q)) := [(0, [(1%Q, Some 0%Q)])].
Definition obs_inf : list (nat * list (Q * option Q)) := [(0, [(0%Q, None)])].

Example mag_example_orders :
  forallb (fun edges => forallb (fun big =>
             Nat.eqb (sp_check_real (([2], [(false, []); (true, [0]); (true, [0]); (true, [0])],
                                      [(0, [0], edges, [])], 0), w_mag big, obs_one)) 0
             && Nat.eqb (sp_check_real (([2], [(false, []); (true, [0]); (true, [0]); (true, [0])],
                                      [(0, [0], edges, [])], 0), w_mag big, obs_nan)) 1
             && Nat.eqb (sp_check_real (([2], [(false, []); (true, [0]); (true, [0]); (true, [0])],
                                      [(0, [0], edges, [])], 0), w_mag big, obs_inf)) 1)
          [Some big_q; None; Some tiny_q])
    [[(1, [0]); (2, [0]); (3, [0])]; [(1, [0]); (3, [0]); (2, [0])]; [(3, [0]); (1, [0]); (2, [0])];
     [(2, [0]); (1, [0]); (3, [0])]; [(2, [0]); (3, [0]); (1, [0])]; [(3, [0]); (2, [0]); (1, [0])]] = true.
Proof. vm_compute. reflexivity. Qed.

(** the hypotheses of [rule_val_annihilated_terms] are satisfiable non-trivially: the environments of
    [w_mag (Some 2^1000)] and [w_mag None] differ on f[0], g[0] only, the term n = 0 is killed by h[0] = 0 *)
Definition r_mag : rule := {| r_lhs := 0; r_nodes := [0]; r_edges := [(1, [0]); (2, [0]); (3, [0])]; r_ext := [] |}.
Definition e_mag (big : option Q) : env (R:=ereal) :=
  env_of ereal_ops (weights_tmt ereal_of (G_mag (r_edges r_mag)) (w_mag big)).
Example mag_example_hyp :
  forall a, In a (all_assts (node_sizes (G_mag (r_edges r_mag)) r_mag)) ->
     killed2 ereal_ops (e_mag (Some big_q)) (e_mag None) r_mag a
     \/ (forall ed, In ed (r_edges r_mag) ->
           e_mag (Some big_q) (fst ed) (sel a (snd ed)) = e_mag None (fst ed) (sel a (snd ed))).
Proof.
  intros a Ha. cbn in Ha. destruct Ha as [<-|[<-|[]]].
  - left. exists (3, [0]). split; [cbn; auto|]. split; apply eeqb_eq; vm_compute; reflexivity.
  - right. intros ed Hed. cbn in Hed. destruct Hed as [<-|[<-|[<-|[]]]]; apply eeqb_eq; vm_compute; reflexivity.
Qed.
