(** C07: the hypotheses of the theorems are satisfiable by non-trivial values. *)
From Coq Require Import List Arith Bool PeanoNat PArith.
Import ListNotations.
Require Import Fggs.Model.Semiring Fggs.Model.SumProduct.
Require Import Fggs.Model.Axis Fggs.Model.PTensor Fggs.Model.AxisCheck Fggs.Model.Einsum Fggs.Model.EinsumCheck Fggs.Model.EinsumCert.

(** a run: Z(6) against X(2) x Y(3) on "i,i->" over the Boolean semiring.  The substitution binds
    Z to X*Y, the premises (certificate) hold, and the pointer of the only cell is the index 1 of
    the first common true element *)
Example einsum_run_example :
  let a := mkST (mkPT (fun idx => Nat.odd (nth 0 idx 0)) [(1%positive, 6)] [Phys 1 6] false) [1] false in
  let b := mkST (mkPT (fun idx => Nat.odd (nth 0 idx 0 + nth 1 idx 0)) [(2%positive, 2); (3%positive, 3)]
                      [Prod [Phys 2 2; Phys 3 3]] false) [3; 1] false in
  exists r, einsum_run bool_ops Bool.eqb false 10 [a; b] [[0]; [0]] [] = Ok r /\
            er_failed r = false /\ er_zero_axis r = false /\
            er_sigma r = [(1%positive, Prod [Phys 2 2; Phys 3 3])] /\
            cert_verdict bool_ops Bool.eqb r [[0]; [0]] [] = 0 /\ cert_viterbi r [[0]; [0]] [] = true /\
            viterbi_ptr_model bool_ops (fun x y => implb x y) r [] [] = Ok [1].
Proof. vm_compute. eexists. repeat split; reflexivity. Qed.

(** F24: a repeated output index makes [index_to_vaxis.pop] fail although the signature is
    meaningful ([einsum] returns a diagonal tensor) *)
Theorem viterbi_repeated_output_refuted :
  pop_all [0; 0] [(0, Phys 1 2)] = None /\ out_consistent [0; 0] [1; 1] = true /\
  pop_all [0] [(0, Phys 1 2)] = Some [].
Proof. repeat split; reflexivity. Qed.

(** a strided view with a stride-0 dimension and a size-1 dimension: [reduce_equation] drops both *)
Example reduce_example :
  let v := mkView (fun c => Nat.even (nth 1 c 0)) [((1%positive, 3), 0); ((2%positive, 2), 1); ((3%positive, 1), 5)] false in
  let rd := reduce_equation_model (R:=bool) [v] [(1%positive, 3); (2%positive, 2); (3%positive, 1)] in
  map (fun w => vw_vars w) (rd_views rd) = [[(2%positive, 2)]] /\ rd_out rd = [(2%positive, 2)] /\ rd_unsq rd = [0; 2].
Proof. vm_compute. repeat split; reflexivity. Qed.
