(** C07: the hypotheses of the theorems are satisfiable by non-trivial values. *)
From Coq Require Import List Arith Bool PeanoNat PArith Lia.
Import ListNotations.
Require Import Fggs.Model.Semiring Fggs.Model.SumProduct.
Require Import Fggs.Model.Axis Fggs.Model.PTensor Fggs.Model.AxisCheck Fggs.Model.Einsum Fggs.Model.EinsumCheck Fggs.Model.EinsumCert.

(** a run: Z(6) against X(2) x Y(3) on "i,i->" over the Boolean semiring.  The substitution binds
    Z to X*Y, the premises (certificate) hold, and the pointer of the only cell is the index 1 of
    the first common true element *)
Example einsum_run_example :
  let a := mkST (mkPT (fun idx => Nat.odd (nth 0 idx 0)) [(1%positive, 6)] [Phys 1 6] false) [1] false in
  let b := mkST (mkPT (fun idx => Nat.odd (nth 0 idx 0 + nth 1 idx 0)) [(2%positive, 2); (3%positive, 3)]
                      [Prod [Phys 2 2; Phys 3 3]] false) [3; 1] false in
  exists r, einsum_run bool_ops Bool.eqb false 10 [a; b] [[0]; [0]] [] = Ok r /\
            er_failed r = false /\ er_zero_axis r = false /\
            er_sigma r = [(1%positive, Prod [Phys 2 2; Phys 3 3])] /\
            cert_verdict bool_ops Bool.eqb r [[0]; [0]] [] = 0 /\ cert_viterbi r [[0]; [0]] [] = true /\
            viterbi_ptr_model bool_ops (fun x y => implb x y) r [] [] = Ok [1].
Proof. vm_compute. eexists. repeat split; reflexivity. Qed.

(** repeated output indices (F24, repaired in /repo 3f6a623): [pop_all] only fails for an output
    index that does not occur in the inputs; what is left are exactly the entries of the other
    indices.  (The code before the repair, [pop_all_old], failed on the second occurrence.) *)
Theorem pop_all_spec output i2v :
  (forall l, In l output -> lassoc l i2v <> None) ->
  exists rest, pop_all output i2v = Some rest /\
    forall le, In le rest <-> In le i2v /\ ~ In (fst le) output.
Proof.
  intros H. unfold pop_all.
  assert (E : forallb (fun l => match lassoc l i2v with Some _ => true | None => false end) output = true).
  { apply forallb_forall. intros l Hl. specialize (H l Hl). destruct (lassoc l i2v); [reflexivity|congruence]. }
  rewrite E. eexists. split; [reflexivity|]. clear. revert i2v. induction output as [|l o IH]; intros i2v le; simpl.
  - tauto.
  - rewrite IH, filter_In, negb_true_iff, Nat.eqb_neq. split; [intros [[H1 H2] H3]|intros [H1 H2]]; repeat split; auto; intros [E|E]; auto.
Qed.

Theorem viterbi_repeated_output_old :
  pop_all_old [0; 0] [(0, Phys 1 2)] = None /\ pop_all [0; 0] [(0, Phys 1 2)] = Some [] /\ out_consistent [0; 0] [1; 1] = true.
Proof. repeat split; reflexivity. Qed.

(** a run with a repeated output index, "ij->ii" (j summed out): the premises of C07_argmax hold,
    the pointers of the diagonal cells are computed, off the diagonal they are the default 0 *)
Example repeated_output_example :
  let a := mkST (mkPT (fun idx => Nat.eqb (nth 0 idx 0 + 1) (nth 1 idx 0)) [(1%positive, 2); (2%positive, 3)]
                      [Phys 1 2; Phys 2 3] false) [3; 1] false in
  exists r, einsum_run bool_ops Bool.eqb false 10 [a] [[0; 1]] [0; 0] = Ok r /\
            er_failed r = false /\ er_zero_axis r = false /\ er_outv r = [Phys 1 2; Phys 1 2] /\
            cert_verdict bool_ops Bool.eqb r [[0; 1]] [0; 0] = 0 /\ cert_viterbi r [[0; 1]] [0; 0] = true /\
            viterbi_ptr_model bool_ops (fun x y => implb x y) r [0; 0] [0; 0] = Ok [1] /\
            viterbi_ptr_model bool_ops (fun x y => implb x y) r [0; 0] [1; 1] = Ok [2] /\
            viterbi_ptr_model bool_ops (fun x y => implb x y) r [0; 0] [0; 1] = Ok [0].
Proof. vm_compute. eexists. repeat split; reflexivity. Qed.

(** a strided view with a stride-0 dimension and a size-1 dimension: [reduce_equation] drops both *)
Example reduce_example :
  let v := mkView (fun c => Nat.even (nth 1 c 0)) [((1%positive, 3), 0); ((2%positive, 2), 1); ((3%positive, 1), 5)] false in
  let rd := reduce_equation_model (R:=bool) [v] [(1%positive, 3); (2%positive, 2); (3%positive, 1)] in
  map (fun w => vw_vars w) (rd_views rd) = [[(2%positive, 2)]] /\ rd_out rd = [(2%positive, 2)] /\ rd_unsq rd = [0; 2].
Proof. vm_compute. repeat split; reflexivity. Qed.
