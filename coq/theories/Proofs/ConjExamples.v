(** C17: concrete values satisfying the hypotheses of the theorems (non-vacuity), and the name
    clash of the repository's own unit test replayed on the model. *)
From Coq Require Import List Arith Bool String Ascii.
Import ListNotations.
Require Import Fggs.Model.Conj Fggs.Proofs.ConjNames Fggs.Proofs.ConjRule Fggs.Proofs.ConjBij.

Definition s2l (s : string) : list nat := List.map nat_of_ascii (list_ascii_of_string s).
Definition nt (s : string) (ty : list nat) : elabel := {| el_name := s2l s; el_type := ty; el_term := false |}.
Definition tm (s : string) (ty : list nat) : elabel := {| el_name := s2l s; el_type := ty; el_term := true |}.

(** * unique_label_name *)
Example unique_name_example :
  unique_name (s2l "<X,Y>") [s2l "<X,Y>_1"; s2l "<X,Y>"; s2l "<X,Y>_3"] = Some (s2l "<X,Y>_2").
Proof. vm_compute. reflexivity. Qed.

Example unique_name_ten :
  unique_name (s2l "a") (List.map (fun i => suffixed (s2l "a") i) (seq 1 10) ++ [s2l "a"]) = Some (s2l "a_11").
Proof. vm_compute. reflexivity. Qed.

(** * the name clash of test_nonterminal_pairs: "X"+"Y,Z" vs "X,Y"+"Z", and a terminal "<X,Z>" *)
Definition clash1 : hrg :=
  {| h_nlabels := []; h_elabels := [nt "S" []; nt "X" []; nt "X,Y" []; tm "<X,Z>" []];
     h_start := nt "S" []; h_rules := [] |}.
Definition clash2 : hrg :=
  {| h_nlabels := []; h_elabels := [nt "S" []; nt "Y,Z" []; nt "Z" []];
     h_start := nt "S" []; h_rules := [] |}.

Example clash_names :
  match nonterminal_pairs_model clash1 clash2 with
  | Ok m => List.map (fun kv => el_name (snd kv)) m
  | Err _ => []
  end =
  List.map s2l ["<S,S>"; "<S,Y,Z>"; "<S,Z>"; "<X,S>"; "<X,Y,Z>"; "<X,Z>_1"; "<X,Y,S>"; "<X,Y,Y,Z>"; "<X,Y,Z>_1"]%string.
Proof. vm_compute. reflexivity. Qed.

(** * a pair of recursive grammars over a shared skeleton *)
Definition nS := nt "S" [].
Definition nX := nt "X" [0].
Definition nY := nt "Y" [0].
Definition ta := tm "a" [0].
Definition tb := tm "b" [0].
Definition v1 : node := {| n_id := 1; n_lab := 0 |}.
Definition mkg (ns : list node) (es : list edge) (ext : list node) : graph :=
  {| g_nodes := ns; g_edges := es; g_ext := ext |}.
Definition ed (i : nat) (l : elabel) (ns : list node) : edge := {| e_id := i; e_lab := l; e_att := ns |}.

Definition exA : hrg :=
  {| h_nlabels := [0]; h_elabels := [nS; nX; ta]; h_start := nS;
     h_rules := [(nS, [{| r_lhs := nS; r_rhs := mkg [v1] [ed 3 nX [v1]] [] |}]);
                 (nX, [{| r_lhs := nX; r_rhs := mkg [v1] [ed 5 ta [v1]] [v1] |};
                       {| r_lhs := nX; r_rhs := mkg [v1] [ed 5 ta [v1]; ed 3 nX [v1]] [v1] |}])] |}.
Definition exB : hrg :=
  {| h_nlabels := [0]; h_elabels := [nS; nY; tb]; h_start := nS;
     h_rules := [(nS, [{| r_lhs := nS; r_rhs := mkg [v1] [ed 3 nY [v1]] [] |}]);
                 (nY, [{| r_lhs := nY; r_rhs := mkg [v1] [ed 7 tb [v1]] [v1] |};
                       {| r_lhs := nY; r_rhs := mkg [v1] [ed 3 nY [v1]; ed 9 tb [v1]] [v1] |}])] |}.

Example ex_wf : wf_hrg_b exA = true /\ wf_hrg_b exB = true /\ has_tt_conflict exA exB = false.
Proof. vm_compute. auto. Qed.

(** the conjunction has 3 rules: S/S, the two base rules, the two recursive rules *)
Example ex_conj :
  match conjoin_hrgs_model exA exB with
  | Ok g => (List.length (all_rules g), List.map el_name (h_elabels g), conj_prov exA exB)
  | Err _ => (0, [], [])
  end = (3, List.map s2l ["<S,S>"; "<X,Y>"; "a"; "b"]%string, [(0, 0); (1, 1); (2, 2)]).
Proof. vm_compute. reflexivity. Qed.

(** derivations of the conjunction up to depth 1..5: 0, 1, 2, 3, 4; and the count of pairable pairs *)
Example ex_counts :
  match conjoin_hrgs_model exA exB with
  | Ok g => List.map (fun d => (List.length (enum g d (h_start g)),
                                count_pairable exA exB (enum exA d (h_start exA)) (enum exB d (h_start exB))))
                     [1; 2; 3; 4; 5]
  | Err _ => []
  end = [(0, 0); (1, 1); (2, 2); (3, 3); (4, 4)].
Proof. vm_compute. reflexivity. Qed.

(** a derivation of depth 3 of the conjunction, its unpairing and re-pairing *)
Example ex_unpair :
  let prov := conj_prov exA exB in
  let t := DNode 0 [DNode 2 [DNode 1 []]] in
  unpair_tree prov t = (t, t) /\ pair_tree prov t t = Some t /\
  pairable_b exA exB t t = true /\ pairable_b exA exB (DNode 0 [DNode 1 []]) t = false.
Proof. vm_compute. auto. Qed.

(** conjoinable rules for C17_rule *)
Example ex_rule :
  let r1 := {| r_lhs := nX; r_rhs := mkg [v1] [ed 5 ta [v1]; ed 3 nX [v1]] [v1] |} in
  let r2 := {| r_lhs := nY; r_rhs := mkg [v1] [ed 3 nY [v1]; ed 9 tb [v1]] [v1] |} in
  wf_rule_b r1 = true /\ wf_rule_b r2 = true /\ conjoinable_model r1 r2 = true /\
  match nonterminal_pairs_model exA exB with
  | Ok m => match conjoin_rules_model 9 r1 r2 m with
            | Ok r => conj_rule_ok r1 r2 m r && Nat.eqb (List.length (g_edges (r_rhs r))) 3
            | Err _ => false
            end
  | Err _ => false
  end = true.
Proof. vm_compute. auto. Qed.

(** conjoining a grammar with itself (every terminal-edge id is shared): the terminal edges of rule 2
    get fresh implicit ids (10, 12: the least even numbers above all ids in use) *)
Example ex_self :
  match conjoin_hrgs_model exA exA with
  | Ok g => (List.length (all_rules g),
             List.map (fun r => List.map e_id (g_edges (r_rhs r))) (all_rules g))
  | Err _ => (0, [])
  end = (3, [[3]; [5; 6]; [3; 5; 6]]).
Proof. vm_compute. reflexivity. Qed.

(** implicit (even) ids on nonterminal edges: the new edges get fresh implicit ids, in id order,
    implicit before explicit *)
Definition exI : hrg :=
  {| h_nlabels := [0]; h_elabels := [nS; nX; ta]; h_start := nS;
     h_rules := [(nS, [{| r_lhs := nS; r_rhs := mkg [v1] [ed 3 nX [v1]; ed 4 nX [v1]; ed 2 nX [v1]] [] |}]);
                 (nX, [{| r_lhs := nX; r_rhs := mkg [v1] [ed 5 ta [v1]] [v1] |}])] |}.
Example ex_implicit :
  wf_hrg_b exI = true /\
  match conjoin_hrgs_model exI exI with
  | Ok g => List.map (fun r => List.map e_id (nt_sorted r)) (all_rules g)
  | Err _ => []
  end = [[6; 8; 3]; []].
Proof. vm_compute. auto. Qed.
