(** The denotational assignment [derived_asst t] is a function defined exactly on the node names
    of [derived_graph t]; derive()'s assignment is defined exactly on the nodes of the derived
    graph and, read through the names, IS [derived_asst t] (both directions). *)
From Coq Require Import List Arith Bool PeanoNat Lia Permutation.
Import ListNotations.
Require Import Fggs.Model.Replace Fggs.Proofs.Replace_base Fggs.Proofs.Replace_wf Fggs.Proofs.Replace_explicit
  Fggs.Proofs.Replace_spec Fggs.Proofs.Replace_model_spec Fggs.Proofs.Replace_inv Fggs.Proofs.Replace_step
  Fggs.Proofs.Replace_nodup Fggs.Proofs.Replace_confl Fggs.Proofs.Replace_derive Fggs.Proofs.Replace_asst
  Fggs.Proofs.Replace_dasst.

Lemma own_asst_names : forall (a : asst_t) p vs, (forall v, In v vs -> amem node_eqb a v = true) ->
  map fst (flat_map (fun v => match aget node_eqb a v with Some x => [(NInst p (n_id v), x)] | None => [] end) vs)
  = map (fun v => NInst p (n_id v)) vs.
Proof.
  induction vs as [|v vs IH]; simpl; intros H; auto.
  pose proof (H v (or_introl eq_refl)) as Hv. unfold amem in Hv.
  destruct (aget node_eqb a v); try discriminate. simpl. f_equal. apply IH. intros; apply H; auto.
Qed.

Lemma start_asst_names : forall (a : asst_t) ext j, (forall v, In v ext -> amem node_eqb a v = true) ->
  map fst (start_asst j a ext) = map fst (start_dnodes j (map n_label ext)).
Proof.
  induction ext as [|v ext IH]; simpl; intros j H; auto.
  pose proof (H v (or_introl eq_refl)) as Hv. unfold amem in Hv.
  destruct (aget node_eqb a v); try discriminate. simpl. f_equal. apply IH. intros; apply H; auto.
Qed.

Lemma dsub_asst_names : forall L t p, wf_dtreeb L t = true -> map fst (dsub_asst p t) = map fst (dsub_nodes p t).
Proof.
  intros L. induction t as [r a cs IH] using dtree_ind'. intros p W.
  destruct (wf_dtreeb_unfold _ _ _ _ W) as [WR [_ [_ [HA [_ HC]]]]].
  cbn [dsub_asst dsub_nodes]. rewrite !map_app. f_equal.
  - rewrite map_map. cbn [fst]. apply own_asst_names. intros v Hv. apply HA. apply filter_In in Hv. tauto.
  - rewrite map_fst_flat_map. rewrite (@map_fst_flat_map _ name nat). apply flat_map_ext_in. intros [k c] Hkc. cbn [fst snd].
    apply (IH k c Hkc). apply (HC k c Hkc).
Qed.

(** the names that carry a value are exactly (and in the same order as) the node names of the derived graph *)
Theorem derived_asst_names : forall L t, wf_dtreeb L t = true ->
  map fst (derived_asst t) = map fst (d_nodes (derived_graph t)).
Proof.
  intros L t W. destruct t as [r a cs].
  destruct (wf_dtreeb_unfold _ _ _ _ W) as [WR [_ [_ [HA _]]]].
  unfold derived_asst, derived_graph. cbn [t_rule t_asst d_nodes]. rewrite !map_app. f_equal.
  - rewrite (wr_type r WR). unfold gtype. apply start_asst_names.
    intros v Hv. apply HA. apply (wf_ext _ (wr_graph r WR)); auto.
  - apply (dsub_asst_names L); auto.
Qed.

Theorem derived_asst_nodup : forall L t, wf_dtreeb L t = true -> NoDup (map fst (derived_asst t)).
Proof. intros L t W. rewrite (derived_asst_names L t W). apply (derived_nodes_nodup L); auto. Qed.

Lemma NoDup_map_fst_fun : forall {A B} (l : list (A * B)) x y y',
  NoDup (map fst l) -> In (x, y) l -> In (x, y') l -> y = y'.
Proof.
  induction l as [|[a b] l IH]; simpl; intros x y y' ND H1 H2; try tauto. inversion ND; subst.
  destruct H1 as [H1|H1], H2 as [H2|H2].
  - congruence.
  - inversion H1; subst. exfalso. apply H3. apply in_map_iff. exists (x, y'); auto.
  - inversion H2; subst. exfalso. apply H3. apply in_map_iff. exists (x, y); auto.
  - eapply IH; eauto.
Qed.

(** [derived_asst t] is a (partial) function of the name, total on the derived graph's node names *)
Theorem derived_asst_function : forall L t, wf_dtreeb L t = true ->
  (forall x y y', In (x, y) (derived_asst t) -> In (x, y') (derived_asst t) -> y = y') /\
  (forall x, In x (map fst (d_nodes (derived_graph t))) <-> exists y, In (x, y) (derived_asst t)).
Proof.
  intros L t W. split.
  - intros x y y'. apply NoDup_map_fst_fun. apply (derived_asst_nodup L); auto.
  - intros x. rewrite <- (derived_asst_names L t W). rewrite in_map_iff. split.
    + intros [[x' y] [E H]]. cbn [fst] in E. subst. eauto.
    + intros [y H]. exists (x, y); auto.
Qed.

(** the names used by an isomorphism-through-names are exactly the derived graph's node names *)
Lemma iso_via_names : forall g nn en d, iso_via g nn en d -> Permutation (map snd nn) (map fst (d_nodes d)).
Proof.
  intros g nn en d [_ [_ [_ [_ [_ [_ [d' [R [P _]]]]]]]]].
  unfold rename_graph in R. destruct (omap (rename_edge nn) en); try discriminate. inversion R; subst d'.
  cbn [d_nodes] in P. apply (Permutation_map fst) in P. rewrite map_map in P. cbn [fst] in P. exact P.
Qed.

(** after ANY complete or partial run: the assignment's keys are nodes of the graph *)
Theorem run_asst_keys : forall L t nx l s,
  wf_dtreeb L t = true -> functionalb L = true ->
  run l (init_state t nx) = Ok s ->
  forall v, amem node_eqb (rs_asst s) v = true -> In v (g_nodes (rs_graph s)).
Proof.
  intros L t nx l s HW HFb R. apply functionalb_iff in HFb.
  destruct (run_invAD L HFb t l (init_state t nx) s (init_inv L t nx HW) (init_invA t nx) (init_invD t nx) R) as [HA _].
  apply (A_keys s HA).
Qed.

(** derive(): no exception; the graph is the derived graph; the assignment is defined on the
    graph's nodes AND NOWHERE ELSE; and read through the names it is exactly [derived_asst t] *)
Theorem derive_asst_exact : forall L t nx,
  wf_dtreeb L t = true -> functionalb L = true ->
  exists s nn en,
    derive_model t nx = (s, None) /\ iso_via (ds_graph s) nn en (derived_graph t) /\
    (forall v, amem node_eqb (ds_asst s) v = true <-> In v (g_nodes (ds_graph s))) /\
    (forall x y, In (x, y) (derived_asst t) <->
                 exists v, In (v, x) nn /\ aget node_eqb (ds_asst s) v = Some y).
Proof.
  intros L t nx HW HFb.
  destruct (derive_is_preorder_run L t nx HW HFb) as [rs [R [P [I V]]]].
  pose proof (proj2 (confluence_main L t nx HW HFb (preorder [] t)) rs R P) as ISO.
  pose proof HFb as HF. apply functionalb_iff in HF.
  destruct (run_invAD L HF t (preorder [] t) (init_state t nx) rs (init_inv L t nx HW) (init_invA t nx)
              (init_invD t nx) R) as [HA HD].
  assert (TOT : forall v, In v (g_nodes (rs_graph rs)) -> amem node_eqb (rs_asst rs) v = true).
  { destruct (A_phase rs HA) as [[_ [tk [HP' _]]]|[AV _]].
    - rewrite P in HP'. discriminate.
    - exact AV. }
  exists (proj rs), (rs_nnames rs), (rs_enames rs). split; auto. split; auto.
  cbn [proj ds_graph ds_asst]. split.
  - intros v. split; [apply (A_keys rs HA) | apply TOT].
  - intros x y. split.
    + intros Hxy.
      assert (Hx : In x (map snd (rs_nnames rs))).
      { eapply Permutation_in; [apply Permutation_sym; apply (iso_via_names _ _ _ _ ISO)|].
        apply (proj2 (derived_asst_function L t HW)). eauto. }
      apply in_map_iff in Hx. destruct Hx as [[v x'] [E Hv]]. cbn [snd] in E. subst x'.
      assert (Hg : In v (g_nodes (rs_graph rs))).
      { destruct ISO as [K _]. rewrite <- K. apply in_map_iff. exists (v, x); auto. }
      specialize (TOT v Hg). apply amem_Some in TOT. destruct TOT as [y' Hy'].
      pose proof (D_val t rs HD v x y' Hv Hy') as Hxy'.
      assert (y = y') by (eapply (proj1 (derived_asst_function L t HW)); eauto). subst y'.
      exists v; auto.
    + intros [v [Hv Hy]]. apply (D_val t rs HD v x y Hv Hy).
Qed.

(** the hypotheses are satisfiable: the worked 4-instance example *)
Require Import Fggs.Proofs.Replace_examples.
Example derived_asst_example :
  wf_dtreeb xL xtree = true /\ length (derived_asst xtree) = 3 /\
  map fst (derived_asst xtree) = map fst (d_nodes (derived_graph xtree)).
Proof. vm_compute. repeat split. Qed.
