(** C07 (b): the patterned einsum algorithm computes the dense specification.

    [einsum_raw_correct]: for a run of the model that takes the normal exit and satisfies the
    decidable premises ([cert_operands], [cert_subst], [cert_views]: evaluated on every case by
    the harness), every cell of the result (before [__post_init__]) is a sub-sum, without
    repetitions, of the sum that defines the specification on the operands' denotations
    (soundness half: no completeness premise), and equals it when the counting criterion
    [cert_complete] holds.  [einsum_zero_correct]: the two [zero_result()] exits. *)
From Coq Require Import List Arith Bool PeanoNat Lia Permutation Ring Ring_theory PArith.
Import ListNotations.
Require Import Fggs.Model.Semiring Fggs.Model.SumProduct.
Require Import Fggs.Proofs.BigSum Fggs.Proofs.SP_trees.
Require Import Fggs.Model.Axis Fggs.Model.PTensor Fggs.Model.AxisCheck Fggs.Model.Einsum Fggs.Model.EinsumCheck Fggs.Model.EinsumCert.
Require Import Fggs.Proofs.Axis_sem Fggs.Proofs.Axis_unify Fggs.Proofs.Axis_antiunify Fggs.Proofs.Axis_repr.
Require Import Fggs.Proofs.PTensor_sem Fggs.Proofs.PTensor_dense Fggs.Proofs.PTensor_gen.
Require Import Fggs.Proofs.Einsum_dense Fggs.Proofs.Einsum_envs Fggs.Proofs.Einsum_support Fggs.Proofs.Einsum_form.
Require Import Fggs.Proofs.Einsum_views Fggs.Proofs.Einsum_reduce Fggs.Proofs.Einsum_subst Fggs.Proofs.Einsum_loop.
Require Import Fggs.Proofs.Einsum_project Fggs.Proofs.Einsum_reindex.

(** * booleans to propositions *)
Lemma forallb_combine_Forall2 {A B} (p : A * B -> bool) (l : list A) (l' : list B) :
  length l = length l' -> forallb p (combine l l') = true -> Forall2 (fun a b => p (a, b) = true) l l'.
Proof.
  revert l'. induction l as [|a l IH]; intros [|b l'] L H; try discriminate; constructor.
  - simpl in H. apply andb_true_iff in H. tauto.
  - apply IH; [simpl in L; lia|]. simpl in H. apply andb_true_iff in H. tauto.
Qed.

Lemma pn_mem_In kn l : pn_mem kn l = true <-> In kn l.
Proof.
  unfold pn_mem. rewrite existsb_exists. split.
  - intros (x & Hx & E). apply pn_eqb_eq in E. subst. exact Hx.
  - intros H. exists kn. split; [exact H|apply pn_eqb_eq; reflexivity].
Qed.

Lemma key_mem_In k (l : list pn) : key_mem k l = true <-> In k (map fst l).
Proof. exact (pmem_In k l). Qed.

Lemma existsb_pos_In k (l : list positive) : existsb (Pos.eqb k) l = true <-> In k l.
Proof.
  rewrite existsb_exists. split.
  - intros (x & Hx & E). apply Pos.eqb_eq in E. subst. exact Hx.
  - intros H. exists k. split; [exact H|apply Pos.eqb_refl].
Qed.

Lemma sized_of_occ sigma e : (forall k n, In (k, n) (fvn e) -> sized sigma (Phys k n) = true) -> sized sigma e = true.
Proof.
  intros H. unfold sized. apply forallb_forall. intros [k n] Hin. specialize (H k n Hin).
  unfold sized in H. simpl in H. rewrite andb_true_r in H. exact H.
Qed.

Lemma pcoords_env_of (ps : list pn) pi : In pi (all_envs ps) -> NoDup (map fst ps) ->
  combine (map fst ps) (pcoords ps (env_of pi)) = pi.
Proof.
  intros Hp NDp. apply (envs_eq ps); [| exact Hp | exact NDp |].
  - unfold pcoords. replace (combine (map fst ps) (map (fun kn : pn => env_of pi (fst kn)) ps)) with (restrict (env_of pi) ps).
    + apply all_envs_complete. intros k n Hk. exact (env_of_in_range ps pi NDp Hp k n Hk).
    + unfold restrict. clear. induction ps as [|kn ps IH]; [reflexivity|]. simpl. f_equal. exact IH.
  - intros k Hk. unfold pcoords. rewrite <- (map_map fst (env_of pi)). apply env_of_combine_map. exact Hk.
Qed.

Section Main.
Context {R : Type} (o : sr_ops R).
Hypothesis Hr : sr_ring o.
Add Ring RingEM : (sr_is_srt o Hr).
Variable veqb : R -> R -> bool.
Hypothesis Hveqb : forall a b, veqb a b = true -> a = b.
Notation r0 := (Semiring.zero o).
Notation ptensor := (ptensor R).
Notation stensor := (stensor (R:=R)).

(** * what a successful run consists of *)
Lemma einsum_run_inv genabled next ts inputs output r :
  einsum_run o veqb genabled next ts inputs output = Ok r ->
  exists s ts1 nx1,
    default_all veqb genabled r0 next ts = (ts1, nx1) /\
    eloop (efuel ts1) ts1 inputs (mkLS [] [] {| us_subst := []; us_next := nx1; us_warn := false |} false) [] = Ok (s, er_ts r) /\
    er_sigma r = us_subst (ls_u s) /\ er_i2v r = ls_i2v s /\ er_failed r = ls_zero s /\
    mapM (fun l => match lassoc l (ls_i2v s) with
                   | Some e => clone (sfuel (us_subst (ls_u s)) [e]) (us_subst (ls_u s)) e
                   | None => Fail OtherError end) output = Ok (er_outv r) /\
    (er_failed r = false ->
       mapM (project_view (us_subst (ls_u s))) (er_ts r) = Ok (er_views r) /\
       (er_zero_axis r = false ->
          er_raw r = mkPT (phys_out o (er_views r) (er_outp r)) (er_outp r) (er_outv r) r0)).
Proof.
  unfold einsum_run. intros H.
  destruct (default_all veqb genabled r0 next ts) as [ts1 nx1] eqn:E0.
  destruct (eloop _ _ _ _ _) as [[s fts]|] eqn:E1; [|discriminate]. cbn [bind] in H.
  destruct (mapM _ output) as [outv|] eqn:E2; [|discriminate]. cbn [bind] in H.
  exists s, ts1, nx1. split; [reflexivity|].
  destruct (ls_zero s) eqn:Ez.
  - inversion H; subst; clear H. cbn [er_ts er_sigma er_i2v er_failed er_outv er_views er_zero_axis er_raw er_outp].
    split; [exact E1|]. split; [reflexivity|]. split; [reflexivity|]. split; [reflexivity|]. split; [exact E2|].
    intros D; discriminate D.
  - destruct (mapM (project_view (us_subst (ls_u s))) fts) as [views|] eqn:E3; [|discriminate]. cbn [bind] in H.
    destruct (existsb _ (flat_map vw_dims views)) eqn:E4.
    + inversion H; subst; clear H. cbn [er_ts er_sigma er_i2v er_failed er_outv er_views er_zero_axis er_raw er_outp].
      split; [exact E1|]. split; [reflexivity|]. split; [reflexivity|]. split; [reflexivity|]. split; [exact E2|].
      intros _. split; [exact E3|]. intros D; discriminate D.
    + destruct (fv_list _ _ outv) as [outp|] eqn:E5; [|discriminate]. cbn [bind] in H.
      inversion H; subst; clear H. cbn [er_ts er_sigma er_i2v er_failed er_outv er_views er_zero_axis er_raw er_outp].
      split; [exact E1|]. split; [reflexivity|]. split; [reflexivity|]. split; [reflexivity|]. split; [exact E2|].
      intros _. split; [exact E3|]. intros _. reflexivity.
Qed.

(** * the premises, as propositions *)
Section Run.
Variables (r : erun (R:=R)) (inputs : list (list nat)) (output : list nat).
Let ts := map st_pt (er_ts r).
Let sigma := er_sigma r.
Let i2v := er_i2v r.
Let occ := occurrences ts inputs.
Let V := all_vars ts.
Let K := kvars r.
Let F := cert_fuel sigma.

Hypothesis CO : cert_operands o veqb r inputs output = true.

Lemma co_facts :
  length ts = length inputs /\ Forall (wf R) ts /\ Forall (fun t => default t = r0) ts /\
  Forall2 (fun t inp => length (vaxes t) = length inp) ts inputs /\ NoDup (map fst V) /\
  (forall l, In l output -> lassoc l i2v <> None) /\
  (forall l e0, lassoc l i2v = Some e0 -> In (l, e0) occ) /\
  (forall l e, In (l, e) occ -> exists e0, lassoc l i2v = Some e0 /\ numel e0 = numel e).
Proof.
  unfold cert_operands in CO. fold ts in CO. fold i2v in CO. fold occ in CO.
  apply andb_true_iff in CO. destruct CO as [C A8]. apply andb_true_iff in C. destruct C as [C A7].
  apply andb_true_iff in C. destruct C as [C A6]. apply andb_true_iff in C. destruct C as [C A5].
  apply andb_true_iff in C. destruct C as [C A4]. apply andb_true_iff in C. destruct C as [C A3].
  apply andb_true_iff in C. destruct C as [A1 A2]. apply Nat.eqb_eq in A1.
  split; [exact A1|]. split.
  { apply Forall_forall. intros t Ht. rewrite forallb_forall in A4. exact (repr_inv_wf R t _ (A4 t Ht)). }
  split.
  { apply Forall_forall. intros t Ht. rewrite forallb_forall in A3. apply Hveqb. exact (A3 t Ht). }
  split.
  { pose proof (forallb_combine_Forall2 _ ts inputs A1 A2) as F2. clear -F2.
    induction F2 as [|t inp l l' E _ IH]; constructor; [simpl in E; apply Nat.eqb_eq in E; exact E|exact IH]. }
  split; [apply nodup_pos_NoDup; exact A5|].
  split.
  { intros l Hl. rewrite forallb_forall in A6. specialize (A6 l Hl). destruct (lassoc l i2v); [discriminate|discriminate]. }
  split.
  { intros l e0 E0. apply lassoc_In in E0. rewrite forallb_forall in A7. specialize (A7 (l, e0) E0).
    apply existsb_exists in A7. destruct A7 as ([l' e'] & Hin & E). simpl in E. apply andb_true_iff in E. destruct E as [El Ee].
    apply Nat.eqb_eq in El. apply axis_eqb_eq in Ee. subst. exact Hin. }
  { intros l e Hin. rewrite forallb_forall in A8. specialize (A8 (l, e) Hin). simpl in A8.
    destruct (lassoc l i2v) as [e0|]; [|discriminate]. exists e0. split; [reflexivity|apply Nat.eqb_eq; exact A8]. }
Qed.

Hypothesis CS : cert_subst r = true.

Lemma cs_facts :
  Forall (fun t => forallb pos_sizes (vaxes (st_pt t)) = true) (er_ts r) /\
  NoDup (map fst sigma) /\
  (forall k e, In (k, e) sigma -> closed sigma (resolve F sigma (Phys k 0)) = true) /\
  Sized sigma /\
  (forall x n, In (x, n) V -> sized sigma (Phys x n) = true) /\
  NoDup (map fst K) /\
  (forall k n, In (k, n) K -> assoc k sigma = None) /\
  (forall x n, In (x, n) V -> forall kn, In kn (fvn (resolve F sigma (Phys x n))) -> In kn K) /\
  (forall k n, In (k, n) K -> In k (flat_map fv (map (resolve F sigma) (phys_axes V)))).
Proof.
  unfold cert_subst in CS. fold ts in CS. fold sigma in CS. fold F in CS. fold V in CS. fold K in CS.
  apply andb_true_iff in CS. destruct CS as [C B9]. apply andb_true_iff in C. destruct C as [C B8].
  apply andb_true_iff in C. destruct C as [C B7]. apply andb_true_iff in C. destruct C as [C B6].
  apply andb_true_iff in C. destruct C as [C B5]. apply andb_true_iff in C. destruct C as [C B4].
  apply andb_true_iff in C. destruct C as [C B3]. apply andb_true_iff in C. destruct C as [B1 B2].
  rewrite forallb_forall in B1, B3, B4, B5, B7, B8, B9.
  split.
  { apply Forall_forall. intros t Ht. specialize (B1 (st_pt t) (in_map _ _ _ Ht)).
    rewrite <- B1. apply forallb_ext_in'. intros e _. symmetry. apply pos_sizes_b_eq. }
  split; [apply nodup_pos_NoDup; exact B2|].
  split; [intros k e Hin; exact (B3 (k, e) Hin)|].
  split; [intros k e Hin; exact (B4 (k, e) Hin)|].
  split.
  { intros x n Hx. apply B5. unfold phys_axes. apply in_map_iff. exists (x, n). auto. }
  split; [apply nodup_pos_NoDup; exact B6|].
  split; [intros k n Hin; apply unbound_assoc; exact (B7 (k, n) Hin)|].
  split.
  { intros x n Hx kn Hkn. apply pn_mem_In.
    assert (Hr' : In (resolve F sigma (Phys x n)) (map (resolve F sigma) (phys_axes V))).
    { apply in_map. unfold phys_axes. apply in_map_iff. exists (x, n). auto. }
    specialize (B8 _ Hr'). rewrite forallb_forall in B8. exact (B8 kn Hkn). }
  { intros k n Hin. apply existsb_pos_In. exact (B9 (k, n) Hin). }
Qed.
End Run.
End Main.
