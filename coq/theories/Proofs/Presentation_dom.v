(** C12: permuting the values of every domain (node label) together with the corresponding
    axes of all factors permutes the axes of every Kleene iterate in the same way. *)
From Coq Require Import List Arith Bool PeanoNat Lia Permutation.
Import ListNotations.
Require Import Fggs.Model.Semiring Fggs.Model.SCC Fggs.Model.SumProduct.
Require Import Fggs.Proofs.SCC_ntgraph Fggs.Proofs.BigSum Fggs.Proofs.SP_trees Fggs.Proofs.SP_nonrec
               Fggs.Proofs.SP_code Fggs.Proofs.SP_rename Fggs.Proofs.SP_spe Fggs.Proofs.SP_driver.
Require Import Fggs.Proofs.Presentation Fggs.Proofs.Presentation_perm.

(** [rho nl] is the permutation (as a list) of the values of node label [nl]; an index tuple
    [idx] whose coordinates have node labels [tys] is transported coordinate by coordinate *)
Definition pmap (rho : nat -> list nat) (tys idx : list nat) : list nat :=
  map (fun q => pfun (rho (fst q)) (snd q)) (combine tys idx).
Definition rho_inv (rho : nat -> list nat) : nat -> list nat := fun nl => pinv (rho nl).
(** every node label of the grammar gets a permutation of its domain *)
Definition dom_perms (G : grammar) (rho : nat -> list nat) : Prop :=
  forall nl, nl < length (g_doms G) -> is_perm (rho nl) /\ length (rho nl) = dom G nl.

Lemma dom_perms_inv G rho : dom_perms G rho -> dom_perms G (rho_inv rho).
Proof.
  intros H nl Hnl. destruct (H nl Hnl) as [H1 H2]. unfold rho_inv. split; [now apply pinv_is_perm|].
  now rewrite pinv_length.
Qed.

Lemma pmap_length rho tys idx : length idx = length tys -> length (pmap rho tys idx) = length tys.
Proof. intros H. unfold pmap. rewrite map_length, combine_length. lia. Qed.
Lemma pmap_cons rho nl tys x idx : pmap rho (nl :: tys) (x :: idx) = pfun (rho nl) x :: pmap rho tys idx.
Proof. reflexivity. Qed.
Lemma nth_pmap rho : forall tys idx i, length idx = length tys -> i < length tys ->
  nth i (pmap rho tys idx) 0 = pfun (rho (nth i tys 0)) (nth i idx 0).
Proof.
  induction tys as [|nl tys IH]; intros [|x idx] i Hl Hi; cbn [length] in *; try lia.
  rewrite pmap_cons. destruct i as [|i]; cbn [nth]; [reflexivity|]. apply IH; lia.
Qed.
Lemma pmap_inv rho : forall tys idx,
  (forall nl, In nl tys -> is_perm (rho nl)) -> length idx = length tys ->
  pmap (rho_inv rho) tys (pmap rho tys idx) = idx.
Proof.
  induction tys as [|nl tys IH]; intros [|x idx] H Hl; cbn [length] in *; try lia; [reflexivity|].
  rewrite !pmap_cons. unfold rho_inv at 1. rewrite pfun_pinv_l by (apply H; now left).
  f_equal. apply IH; [|lia]. intros nl' Hnl'. apply H. now right.
Qed.
Lemma pmap_inv_r rho : forall tys idx,
  (forall nl, In nl tys -> is_perm (rho nl)) -> length idx = length tys ->
  pmap rho tys (pmap (rho_inv rho) tys idx) = idx.
Proof.
  induction tys as [|nl tys IH]; intros [|x idx] H Hl; cbn [length] in *; try lia; [reflexivity|].
  rewrite !pmap_cons. unfold rho_inv at 1. rewrite pfun_pinv_r by (apply H; now left).
  f_equal. apply IH; [|lia]. intros nl' Hnl'. apply H. now right.
Qed.
Lemma pmap_inj rho tys x y :
  (forall nl, In nl tys -> is_perm (rho nl)) -> length x = length tys -> length y = length tys ->
  pmap rho tys x = pmap rho tys y -> x = y.
Proof.
  intros H Hx Hy E. rewrite <- (pmap_inv rho tys x H Hx), <- (pmap_inv rho tys y H Hy). now rewrite E.
Qed.
(** [all_assts] is closed under coordinatewise permutations of the domains *)
Lemma pmap_all_assts G rho : forall tys a,
  (forall nl, In nl tys -> is_perm (rho nl) /\ length (rho nl) = dom G nl) ->
  In a (all_assts (map (dom G) tys)) -> In (pmap rho tys a) (all_assts (map (dom G) tys)).
Proof.
  induction tys as [|nl tys IH]; intros a H Ha; rewrite in_all_assts in *; cbn [map] in *.
  - inversion Ha. constructor.
  - inversion Ha as [|x n a' s Hx Ha']; subst. rewrite pmap_cons. constructor.
    + destruct (H nl (or_introl eq_refl)) as [H1 H2]. rewrite <- H2. apply pfun_lt; trivial. now rewrite H2.
    + apply in_all_assts. apply IH; [|now apply in_all_assts]. intros nl' Hnl'. apply H. now right.
Qed.
(** restriction commutes with the transport *)
Lemma sel_pmap rho tys a att :
  length a = length tys -> (forall i, In i att -> i < length tys) ->
  sel (pmap rho tys a) att = pmap rho (map (fun i => nth i tys 0) att) (sel a att).
Proof.
  intros Hl. induction att as [|i att IH]; intros H; [reflexivity|].
  unfold sel in *. cbn [map]. rewrite pmap_cons. f_equal.
  - apply nth_pmap; trivial. apply H. now left.
  - apply IH. intros j Hj. apply H. now right.
Qed.

Theorem assignments_domain_perm G rho tys a :
  (forall nl, In nl tys -> is_perm (rho nl) /\ length (rho nl) = dom G nl) ->
  In a (all_assts (map (dom G) tys)) ->
  In (pmap rho tys a) (all_assts (map (dom G) tys))
  /\ pmap (rho_inv rho) tys (pmap rho tys a) = a
  /\ pmap rho tys (pmap (rho_inv rho) tys a) = a
  /\ forall att, (forall i, In i att -> i < length tys) ->
       sel (pmap rho tys a) att = pmap rho (map (fun i => nth i tys 0) att) (sel a att).
Proof.
  intros H Ha. pose proof (all_assts_length _ _ Ha) as Hl. rewrite map_length in Hl.
  assert (Hp : forall nl, In nl tys -> is_perm (rho nl)) by (intros nl Hin; now apply H).
  split; [now apply pmap_all_assts|]. split; [now apply pmap_inv|]. split; [now apply pmap_inv_r|].
  intros att Hatt. now apply sel_pmap.
Qed.

Lemma wf_rule_types G r : wf_rule G r = true ->
  r_lhs r < length (g_labels G)
  /\ (forall nl, In nl (r_nodes r) -> nl < length (g_doms G))
  /\ (forall ed, In ed (r_edges r) ->
        fst ed < length (g_labels G)
        /\ (forall i, In i (snd ed) -> i < length (r_nodes r))
        /\ map (fun i => nth i (r_nodes r) 0) (snd ed) = ltype G (fst ed))
  /\ (forall i, In i (r_ext r) -> i < length (r_nodes r))
  /\ map (fun i => nth i (r_nodes r) 0) (r_ext r) = ltype G (r_lhs r).
Proof.
  unfold wf_rule. rewrite !andb_true_iff. intros (((((Hl & _) & Hn) & Hed) & Hext) & Hty).
  apply Nat.ltb_lt in Hl. apply nat_list_eqb_iff in Hty. rewrite forallb_forall in Hed.
  split; trivial. split; [exact (forallb_ltb _ _ Hn)|]. split; [|split; [exact (forallb_ltb _ _ Hext)|exact Hty]].
  intros ed Hin. specialize (Hed ed Hin). rewrite !andb_true_iff in Hed. destruct Hed as ((H1 & H2) & H3).
  apply Nat.ltb_lt in H1. apply nat_list_eqb_iff in H3. split; trivial. split; [exact (forallb_ltb _ _ H2)|exact H3].
Qed.

Lemma wf_grammar_ltype G l nl :
  wf_grammar G = true -> In nl (ltype G l) -> nl < length (g_doms G).
Proof.
  unfold wf_grammar. rewrite !andb_true_iff. intros (((_ & H) & _) & _) Hin.
  rewrite forallb_forall in H. unfold ltype in Hin.
  destruct (Nat.lt_ge_cases l (length (g_labels G))) as [Hl|Hl].
  - specialize (H _ (nth_In (g_labels G) (true, []) Hl)). exact (forallb_ltb _ _ H nl Hin).
  - rewrite nth_overflow in Hin by exact Hl. destruct Hin.
Qed.

Lemma Forall2_diag {A} (P : A -> A -> Prop) l : (forall x, In x l -> P x x) -> Forall2 P l l.
Proof.
  induction l as [|x l IH]; intros H; constructor; [apply H; now left|].
  apply IH. intros y Hy. apply H. now right.
Qed.

Section Dom.
Context {R : Type} (o : sr_ops R) (Hring : sr_ring o).

(** labels of the grammar, and index tuples of the shape of a label *)
Definition vlab (G : grammar) (l : nat) : Prop := l < length (g_labels G).
Definition vidx (G : grammar) (l : nat) (idx : list nat) : Prop := In idx (all_assts (lshape G l)).

Theorem rule_val_dom_perm G rho (e e' : env (R:=R)) r xi :
  wf_rule G r = true -> dom_perms G rho ->
  (forall l idx, vlab G l -> vidx G l idx -> e' l (pmap rho (ltype G l) idx) = e l idx) ->
  vidx G (r_lhs r) xi ->
  rule_val o G e' r (pmap rho (ltype G (r_lhs r)) xi) = rule_val o G e r xi.
Proof.
  intros Hwf Hrho He Hxi.
  destruct (wf_rule_types G r Hwf) as (Hlhs & Hnl & Hed & Hext & Hty).
  destruct (wf_rule_facts G r Hwf) as (_ & _ & Hatt & _ & Hsh).
  assert (Hpn : forall nl, In nl (r_nodes r) -> is_perm (rho nl) /\ length (rho nl) = dom G nl).
  { intros nl Hin. apply Hrho. now apply Hnl. }
  assert (Hpt : forall nl, In nl (ltype G (r_lhs r)) -> is_perm (rho nl)).
  { intros nl Hin. rewrite <- Hty in Hin. apply in_map_iff in Hin. destruct Hin as (i & <- & Hi).
    apply Hpn. apply nth_In. now apply Hext. }
  unfold rule_val. rewrite !(sumS_filter o Hring). symmetry.
  apply (sumS_bij o Hring (pmap rho (r_nodes r))); try apply NoDup_all_assts.
  - intros a Ha. unfold node_sizes in *. now apply pmap_all_assts.
  - intros a b Ha Hb E. apply all_assts_length in Ha, Hb. rewrite node_sizes_length in Ha, Hb.
    apply (pmap_inj rho (r_nodes r)); trivial. intros nl Hin. now apply Hpn.
  - intros y Hy. exists (pmap (rho_inv rho) (r_nodes r) y). split.
    + unfold node_sizes in *. apply pmap_all_assts; trivial.
      intros nl Hin. apply (dom_perms_inv G rho Hrho). now apply Hnl.
    + apply pmap_inv_r; [intros nl Hin; now apply Hpn|].
      apply all_assts_length in Hy. now rewrite node_sizes_length in Hy.
  - intros a Ha. pose proof (all_assts_length _ _ Ha) as Hla. rewrite node_sizes_length in Hla.
    rewrite (sel_pmap rho (r_nodes r) a (r_ext r) Hla Hext), Hty.
    assert (Hlx : length xi = length (ltype G (r_lhs r))).
    { apply all_assts_length in Hxi. unfold lshape in Hxi. now rewrite map_length in Hxi. }
    assert (Hls : length (sel a (r_ext r)) = length (ltype G (r_lhs r))).
    { rewrite <- Hty. unfold sel. now rewrite !map_length. }
    destruct (nat_list_eqb (sel a (r_ext r)) xi) eqn:E.
    + apply nat_list_eqb_iff in E. rewrite E. unfold nat_list_eqb. rewrite list_eqb_refl.
      apply prodS_ext. intros ed Hin. destruct (Hed ed Hin) as (H1 & H2 & H3).
      rewrite (sel_pmap rho (r_nodes r) a (snd ed) Hla H2), H3. symmetry. apply He; [exact H1|].
      unfold vidx. rewrite (Hsh ed Hin). apply sel_in_range; trivial. intros u Hu. now apply (Hatt ed).
    + destruct (nat_list_eqb (pmap rho (ltype G (r_lhs r)) (sel a (r_ext r))) (pmap rho (ltype G (r_lhs r)) xi)) eqn:E2; [|reflexivity].
      apply nat_list_eqb_iff in E2. apply pmap_inj in E2; trivial.
      apply nat_list_eqb_iff in E2. congruence.
Qed.

(** the grammar is unchanged; the weights are read through the permutations; so is the result *)
Theorem Zk_dom_perm G rho (w w' : env (R:=R)) :
  wf_grammar G = true -> dom_perms G rho ->
  (forall l idx, vlab G l -> vidx G l idx -> is_term G l = true -> w' l (pmap rho (ltype G l) idx) = w l idx) ->
  forall k X xi, vlab G X -> vidx G X xi ->
    Zk o G w' k X (pmap rho (ltype G X) xi) = Zk o G w k X xi.
Proof.
  intros Hwf Hrho Hw.
  apply (Zk_sim o G G (fun l => l) (fun l idx => pmap rho (ltype G l) idx) (vlab G) (vidx G)); trivial.
  apply Forall2_diag. intros r Hr. pose proof (wf_grammar_rules G Hwf r Hr) as Hwr.
  split; [apply (wf_rule_types G r Hwr)|]. split; [reflexivity|].
  intros e e' xi He Hxi. now apply rule_val_dom_perm.
Qed.

(** ... in particular for the weights with permuted axes, [w' l idx' = w l (rho^-1 idx')] *)
Definition permute_weights (G : grammar) (rho : nat -> list nat) (w : env (R:=R)) : env (R:=R) :=
  fun l idx' => w l (pmap (rho_inv rho) (ltype G l) idx').

Corollary Zk_dom_perm_weights G rho (w : env (R:=R)) :
  wf_grammar G = true -> dom_perms G rho ->
  forall k X xi, vlab G X -> vidx G X xi ->
    Zk o G (permute_weights G rho w) k X (pmap rho (ltype G X) xi) = Zk o G w k X xi.
Proof.
  intros Hwf Hrho. apply Zk_dom_perm; trivial.
  intros l idx _ Hidx _. unfold permute_weights. f_equal. apply pmap_inv.
  - intros nl Hin. apply Hrho. now apply (wf_grammar_ltype G l).
  - apply all_assts_length in Hidx. unfold lshape in Hidx. now rewrite map_length in Hidx.
Qed.
End Dom.
