(** C02: the hypotheses of the property theorems are satisfiable by non-trivial values.
    A linearly recursive grammar  X -> X a | a  and a non-linear one  Y -> Y Y | a  over a node
    label of size 2, in the Boolean semiring (whose laws are proved in Kleene_proofs). *)
From Coq Require Import QArith List Arith Bool PeanoNat Lia.
Import ListNotations.
Local Open Scope nat_scope.
Require Import Fggs.Model.SCC Fggs.Model.SumProduct Fggs.Model.EReal Fggs.Model.Kleene
               Fggs.Proofs.SP_mono Fggs.Proofs.Kleene_proofs Fggs.Proofs.Kleene_control
               Fggs.Proofs.Kleene_linear Fggs.Proofs.Kleene_scc Fggs.Model.Semiring.

(** labels: 0 = terminal a, 1 = nonterminal X, 2 = nonterminal Y; all of type [node label 0] *)
Definition exG : grammar :=
  {| g_doms := [2];
     g_labels := [(true, [0]); (false, [0]); (false, [0])];
     g_rules := [ {| r_lhs := 1; r_nodes := [0]; r_edges := [(1, [0]); (0, [0])]; r_ext := [0] |};
                  {| r_lhs := 1; r_nodes := [0]; r_edges := [(0, [0])]; r_ext := [0] |};
                  {| r_lhs := 2; r_nodes := [0]; r_edges := [(2, [0]); (2, [0])]; r_ext := [0] |};
                  {| r_lhs := 2; r_nodes := [0]; r_edges := [(0, [0])]; r_ext := [0] |} ];
     g_start := 1 |}.
(** a = [false, true] *)
Definition exw : env (R:=bool) := fun l xi => match l, xi with 0, [1] => true | _, _ => false end.

Example ex_wf : wf_grammar exG = true.
Proof. reflexivity. Qed.

Example ex_nonterminals : nonterminals exG = [1; 2].
Proof. reflexivity. Qed.

(** the semiring premises hold for Bool *)
Example ex_laws : sr_ring bool_ops /\ sr_ordered bool_ops.
Proof. split; [exact bool_sr_ring | exact bool_sr_ordered]. Qed.

(** the enclosure succeeds (within the 3 rounds allowed) with a non-zero table *)
Example ex_enclosure :
  exists lo, enclosure bool_ops (fun x => x) (fun x => x) (fun a b : bool => implb a b) exG exw 3 = Some (lo, lo)
             /\ env_of bool_ops lo 1 [1] = true /\ env_of bool_ops lo 1 [0] = false
             /\ env_of bool_ops lo 2 [1] = true.
Proof. eexists. vm_compute. repeat split. Qed.

(** ... so by [enclosure_bool_exact] that table is the least fixed point *)
Example ex_lfp :
  exists lo, (forall X xi, In X (nonterminals exG) -> In xi (all_assts (lshape exG X)) ->
                           step bool_ops exG exw (env_of bool_ops lo) X xi = env_of bool_ops lo X xi)
             /\ env_of bool_ops lo 1 [1] = true.
Proof.
  destruct ex_enclosure as (lo & H & H1 & _).
  exists lo. split; [|exact H1].
  apply (enclosure_bool_exact exG exw 3 lo lo ex_wf H).
Qed.

(** the hypotheses of the SCC decomposition theorem: a global least fixed point exists, and
    [[1]; [2]] is a dependency order of exG *)
Example ex_is_lfp : exists mu, is_lfp_on bool_ops exG (nonterminals exG) (step bool_ops exG exw) mu.
Proof.
  destruct ex_enclosure as (lo & H & _).
  exists (env_of bool_ops lo).
  destruct (enclosure_bool_exact exG exw 3 lo lo ex_wf H) as (_ & Hfix & Hleast & _).
  split; [exact Hfix | exact Hleast].
Qed.

Example ex_dep_ordered : dep_ordered exG [] [[1]; [2]].
Proof.
  cbn [dep_ordered app]. repeat split.
  - intros n r ed [<-|[]] Hr Hed Ht. cbn in Hr.
    destruct Hr as [<-|[<-|[]]]; cbn in Hed.
    + destruct Hed as [<-|[<-|[]]]; cbn in Ht |- *; [auto | discriminate].
    + destruct Hed as [<-|[]]; cbn in Ht; discriminate.
  - intros n [<-|[]]. cbn. auto.
  - intros n r ed [<-|[]] Hr Hed Ht. cbn in Hr.
    destruct Hr as [<-|[<-|[]]]; cbn in Hed.
    + destruct Hed as [<-|[<-|[]]]; cbn; auto.
    + destruct Hed as [<-|[]]; cbn in Ht; discriminate.
  - intros n [<-|[]]. cbn. auto.
Qed.

(** Real: a = [0, 3/16]:  X = a X + a  has X[1] = 3/13,  Y = Y Y + a  has Y[1] = 1/4; the
    rounded iteration with inflation certifies an enclosure within 20 rounds *)
Definition exw_real : env (R:=ereal) :=
  fun l xi => match l, xi with 0, [1] => Fin (nn_of_Q (3 # 16)%Q) | _, _ => Fin nn0 end.

Example ex_real_enclosure :
  exists lo u, enclosure ereal_ops rd_real infl_real eleb exG exw_real 20 = Some (lo, u).
Proof.
  destruct (enclosure ereal_ops rd_real infl_real eleb exG exw_real 20) as [[lo u]|] eqn:E.
  - exists lo, u. reflexivity.
  - exfalso.
    assert (H : match enclosure ereal_ops rd_real infl_real eleb exG exw_real 20 with
                | Some _ => true | None => false end = true) by (vm_compute; reflexivity).
    rewrite E in H. discriminate.
Qed.

(** a pre-fixed point that is not the least one: everything true *)
Example ex_prefix : forall X xi, le bool_ops (step bool_ops exG exw (fun _ _ => true) X xi) true.
Proof. intros X xi _. reflexivity. Qed.

(** control flow: X's component is linear, Y's is not; method="linear" raises because of Y *)
Example ex_max_rhs : max_rhs exG [1] = 1 /\ max_rhs exG [2] = 2.
Proof. split; reflexivity. Qed.
Example ex_value_error :
  expect_value_error exG 2 [[1]; [2]] = true /\ expect_value_error exG 1 [[1]; [2]] = false
  /\ expect_value_error exG 2 [[1]] = false.
Proof. repeat split. Qed.
Example ex_downgrade : comp_method exG 1 [1] = 2 /\ comp_method exG 1 [2] = 1.
Proof. split; reflexivity. Qed.

(** the hypotheses of the affine form for the component [1] *)
Example ex_linear_hyps :
  (forall m, In m [1] -> is_term exG m = false) /\ NoDup [1] /\ max_rhs exG [1] <= 1
  /\ In 1 [1] /\ In [1] (all_assts (lshape exG 1)).
Proof.
  split; [intros m [<-|[]]; reflexivity|]. split; [constructor; [intros []|constructor]|].
  split; [cbn; lia|]. split; [left; reflexivity|]. right. left. reflexivity.
Qed.

(** and both sides of the affine identity evaluate to a non-trivial value there *)
Example ex_linear_value :
  step bool_ops exG exw (mix_env (fun _ _ => false) [1] (fun _ _ => true)) 1 [1] = true
  /\ lin_F0 bool_ops exG exw (fun _ _ => false) [1] 1 [1] = true
  /\ lin_J0 bool_ops exG exw (fun _ _ => false) [1] 1 1 [1] [1] = true
  /\ lin_J0 bool_ops exG exw (fun _ _ => false) [1] 1 1 [1] [0] = false.
Proof. repeat split. Qed.
