(** C01: [spe] on a well-formed rule = [rule_val]; [F_model] / [one_step_comp] /
    [sum_products_nonrec] over a dependency-respecting order of singleton components compute
    the Kleene iterate [Zk] (hence the sum over all derivation trees); [Ztab] tabulates [Zk]. *)
From Coq Require Import List Arith Bool PeanoNat Lia Permutation Ring Ring_theory.
Import ListNotations.
Require Import Fggs.Model.Semiring Fggs.Model.SCC Fggs.Model.SumProduct.
Require Import Fggs.Proofs.SCC_ntgraph Fggs.Proofs.BigSum Fggs.Proofs.SP_trees Fggs.Proofs.SP_nonrec
               Fggs.Proofs.SP_code Fggs.Proofs.SP_rename Fggs.Proofs.SP_spe.

(** * What [wf_rule] provides *)
Lemma node_sizes_length G r : length (node_sizes G r) = length (r_nodes r).
Proof. unfold node_sizes. apply map_length. Qed.
Lemma node_sizes_nth G r i : i < length (r_nodes r) -> nth i (node_sizes G r) 0 = dom G (nth i (r_nodes r) 0).
Proof.
  intros Hi. unfold node_sizes. rewrite nth_indep with (d' := dom G 0) by now rewrite map_length.
  apply map_nth.
Qed.
Lemma forallb_ltb l n : forallb (fun i => i <? n) l = true -> forall u, In u l -> u < n.
Proof. rewrite forallb_forall. intros H u Hu. apply Nat.ltb_lt. now apply H. Qed.

Lemma lshape_of_att G r att l :
  (forall u, In u att -> u < length (r_nodes r)) ->
  map (fun i => nth i (r_nodes r) 0) att = ltype G l ->
  lshape G l = map (fun i => nth i (node_sizes G r) 0) att.
Proof.
  intros Hatt E. unfold lshape. rewrite <- E, map_map. apply map_ext_in. intros i Hi.
  symmetry. apply node_sizes_nth. now apply Hatt.
Qed.

Lemma wf_rule_facts G r : wf_rule G r = true ->
  is_term G (r_lhs r) = false
  /\ (forall u, In u (r_ext r) -> u < length (node_sizes G r))
  /\ (forall ed u, In ed (r_edges r) -> In u (snd ed) -> u < length (node_sizes G r))
  /\ lshape G (r_lhs r) = map (fun i => nth i (node_sizes G r) 0) (r_ext r)
  /\ (forall ed, In ed (r_edges r) -> lshape G (fst ed) = map (fun i => nth i (node_sizes G r) 0) (snd ed)).
Proof.
  unfold wf_rule. rewrite !andb_true_iff. intros (((((_ & Hnt) & _) & Hed) & Hext) & Hty).
  apply negb_true_iff in Hnt. apply nat_list_eqb_iff in Hty. rewrite node_sizes_length.
  pose proof (forallb_ltb _ _ Hext) as Hext'. rewrite forallb_forall in Hed.
  split; trivial. split; trivial. split; [|split].
  - intros ed u Hin Hu. specialize (Hed ed Hin). rewrite !andb_true_iff in Hed.
    destruct Hed as ((_ & Hatt) & _). exact (forallb_ltb _ _ Hatt u Hu).
  - now apply lshape_of_att.
  - intros ed Hin. specialize (Hed ed Hin). rewrite !andb_true_iff in Hed.
    destruct Hed as ((_ & Hatt) & Hty'). apply nat_list_eqb_iff in Hty'.
    apply lshape_of_att; trivial. exact (forallb_ltb _ _ Hatt).
Qed.

Lemma sel_in_range sizes a att :
  In a (all_assts sizes) -> (forall u, In u att -> u < length sizes) ->
  In (sel a att) (all_assts (map (fun i => nth i sizes 0) att)).
Proof.
  intros Ha Hatt. apply in_all_assts. unfold sel. apply Forall2_map_lt.
  intros u Hu. apply all_assts_nth; trivial. now apply Hatt.
Qed.

Lemma wf_grammar_rules G : wf_grammar G = true -> forall r, In r (g_rules G) -> wf_rule G r = true.
Proof.
  unfold wf_grammar. rewrite !andb_true_iff. intros (((H & _) & _) & _). now rewrite forallb_forall in H.
Qed.

(** * tables and multi-tensors *)
Fixpoint tget {R} (t : tmt (R:=R)) (X : nat) : option (table (R:=R)) :=
  match t with [] => None | (a, tb) :: t => if Nat.eqb a X then Some tb else tget t X end.

Section Driver.
Context {R : Type} (o : sr_ops R).
Hypothesis Hr : sr_ring o.
Add Ring RingR5 : (sr_is_srt o Hr).

Definition oapp (f : option (list nat -> R)) (xi : list nat) : R :=
  match f with Some g => g xi | None => zero o end.
(** a partial environment read as a total one: absent = zero *)
Definition oenv (e : nat -> option (list nat -> R)) : env (R:=R) := fun l xi => oapp (e l) xi.

(** ** 4(a): [spe] on a well-formed rule *)
Theorem spe_spec G e r xi : wf_rule G r = true -> In xi (all_assts (lshape G (r_lhs r))) ->
  oapp (spe o (node_sizes G r) e (r_edges r) (r_ext r)) xi = rule_val o G (oenv e) r xi.
Proof.
  intros Hwf Hxi. destruct (wf_rule_facts G r Hwf) as (_ & Hext & Hedges & Hshape & _).
  rewrite spe_unfold.
  destruct (forallb (fun ed => match e (fst ed) with Some _ => true | None => false end) (r_edges r)) eqn:Hall.
  - cbn [oapp]. rewrite (spe_body_eq o Hr _ e _ _ xi Hext Hedges) by (now rewrite <- Hshape).
    unfold rule_val. apply sumS_ext. intros a _. unfold edge_prod. apply prodS_ext. intros ed _. reflexivity.
  - cbn [oapp]. symmetry. unfold rule_val. apply (sumS_all_zero o Hr). intros a _.
    assert (Hex : exists ed, In ed (r_edges r) /\ e (fst ed) = None).
    { clear -Hall. induction (r_edges r) as [|ed es IH]; [discriminate|]. cbn [forallb] in Hall.
      destruct (e (fst ed)) eqn:E; [|exists ed; split; [now left|exact E]].
      destruct (IH Hall) as (ed' & H1 & H2). exists ed'. split; [now right|exact H2]. }
    destruct Hex as (ed & Hin & Hnone). apply (prodS_zero o Hr) with (x := ed); trivial.
    unfold oenv. now rewrite Hnone.
Qed.

(** total environment: the result is [Some f] and [f] is the rule's value *)
Corollary spe_eq_rule_val G (e : env (R:=R)) r : wf_rule G r = true ->
  exists f, spe o (node_sizes G r) (fun l => Some (e l)) (r_edges r) (r_ext r) = Some f
            /\ forall xi, In xi (all_assts (lshape G (r_lhs r))) -> f xi = rule_val o G e r xi.
Proof.
  intros Hwf.
  destruct (spe o (node_sizes G r) (fun l => Some (e l)) (r_edges r) (r_ext r)) as [f|] eqn:E.
  - exists f. split; trivial. intros xi Hxi.
    pose proof (spe_spec G (fun l => Some (e l)) r xi Hwf Hxi) as H. rewrite E in H. exact H.
  - exfalso. rewrite spe_unfold in E.
    assert (Hall : forallb (fun ed : nat * list nat => match (fun l => Some (e l)) (fst ed) with Some _ => true | None => false end) (r_edges r) = true)
      by (apply forallb_forall; reflexivity).
    rewrite Hall in E. discriminate.
Qed.

(** [None]: some edge label has no value; the result is the zero tensor, which is the rule's
    value under an environment that is zero there (annihilation) *)
Corollary spe_none G e r ed : In ed (r_edges r) -> e (fst ed) = None ->
  spe o (node_sizes G r) e (r_edges r) (r_ext r) = None
  /\ forall xi, rule_val o G (oenv e) r xi = zero o.
Proof.
  intros Hin Hnone. split.
  - rewrite spe_unfold.
    destruct (forallb (fun ed => match e (fst ed) with Some _ => true | None => false end) (r_edges r)) eqn:Hall; trivial.
    rewrite forallb_forall in Hall. specialize (Hall ed Hin). now rewrite Hnone in Hall.
  - intros xi. unfold rule_val. apply (sumS_all_zero o Hr). intros a _.
    apply (prodS_zero o Hr) with (x := ed); trivial. unfold oenv. now rewrite Hnone.
Qed.

(** ** multi-tensors *)
Lemma mt_get_app (m : mt (R:=R)) k f k' :
  mt_get (m ++ [(k, f)]) k' = match mt_get m k' with Some g => Some g | None => if Nat.eqb k k' then Some f else None end.
Proof.
  induction m as [|[a h] m IH]; cbn [app mt_get]; [reflexivity|]. destruct (Nat.eqb a k'); trivial.
Qed.

Definition mt_upd (k : nat) (f : list nat -> R) : mt (R:=R) -> mt (R:=R) :=
  fix upd (m : mt) : mt :=
    match m with
    | [] => []
    | (a, h) :: m => if Nat.eqb a k then (a, fun xi => add o (h xi) (f xi)) :: m else (a, h) :: upd m
    end.
Lemma mt_add_single_unfold m k f :
  mt_add_single o m k f = match mt_get m k with None => m ++ [(k, f)] | Some _ => mt_upd k f m end.
Proof. reflexivity. Qed.
Lemma mt_upd_val k f m k' xi :
  mt_val o (mt_upd k f m) k' xi
  = if Nat.eqb k k' then match mt_get m k' with Some h => add o (h xi) (f xi) | None => zero o end
    else mt_val o m k' xi.
Proof.
  unfold mt_val. induction m as [|[a h] m IH]; cbn [mt_upd mt_get].
  - destruct (Nat.eqb k k'); reflexivity.
  - destruct (Nat.eqb a k) eqn:Eak.
    + apply Nat.eqb_eq in Eak. subst a. cbn [mt_get]. destruct (Nat.eqb k k'); reflexivity.
    + cbn [mt_get]. destruct (Nat.eqb a k') eqn:Eak'.
      * apply Nat.eqb_eq in Eak'. subst a. rewrite Nat.eqb_sym in Eak. now rewrite Eak.
      * exact IH.
Qed.
Lemma mt_add_single_val m k f k' xi :
  mt_val o (mt_add_single o m k f) k' xi
  = if Nat.eqb k k' then add o (mt_val o m k' xi) (f xi) else mt_val o m k' xi.
Proof.
  rewrite mt_add_single_unfold. destruct (mt_get m k) as [g|] eqn:Eg.
  - rewrite mt_upd_val. destruct (Nat.eqb k k') eqn:E; trivial. apply Nat.eqb_eq in E. subst k'.
    unfold mt_val. now rewrite Eg.
  - unfold mt_val. rewrite mt_get_app. destruct (Nat.eqb k k') eqn:E.
    + apply Nat.eqb_eq in E. subst k'. rewrite Eg. ring.
    + destruct (mt_get m k'); reflexivity.
Qed.

(** ** [F_model] on a singleton component: the sum of the rules' values *)
Definition F_rule_step (G : grammar) (e : nat -> option (list nat -> R)) (n : nat) (acc : mt (R:=R)) (r : rule) : mt (R:=R) :=
  match spe o (node_sizes G r) e (r_edges r) (r_ext r) with
  | Some f => mt_add_single o acc n f
  | None => acc
  end.
Lemma F_model_single G X x inputs :
  F_model o G [X] x inputs = fold_left (F_rule_step G (lookup2 x inputs) X) (rules_of G X) [].
Proof. reflexivity. Qed.
Lemma F_fold_val G e X xi rs : forall acc,
  mt_val o (fold_left (F_rule_step G e X) rs acc) X xi
  = add o (mt_val o acc X xi) (sumS o rs (fun r => oapp (spe o (node_sizes G r) e (r_edges r) (r_ext r)) xi)).
Proof.
  induction rs as [|r rs IH]; intros acc; cbn [fold_left].
  - rewrite sumS_nil. ring.
  - rewrite IH, sumS_cons. unfold F_rule_step.
    destruct (spe o (node_sizes G r) e (r_edges r) (r_ext r)) as [f|]; cbn [oapp].
    + rewrite mt_add_single_val, Nat.eqb_refl. ring.
    + ring.
Qed.
Lemma F_single_val G X x inputs xi :
  mt_val o (F_model o G [X] x inputs) X xi
  = sumS o (rules_of G X) (fun r => oapp (spe o (node_sizes G r) (lookup2 x inputs) (r_edges r) (r_ext r)) xi).
Proof. rewrite F_model_single, F_fold_val. unfold mt_val. cbn [mt_get]. ring. Qed.

(** ** [comp_inputs]: every outside label used by the component's rules is looked up in [all] *)
Lemma fold_left_flat_map {A B C} (g : A -> C -> A) (h : B -> list C) l : forall acc,
  fold_left (fun acc x => fold_left g (h x) acc) l acc = fold_left g (flat_map h l) acc.
Proof.
  induction l as [|x l IH]; intros acc; cbn [fold_left flat_map]; [reflexivity|].
  now rewrite fold_left_app, IH.
Qed.

Definition ci_step (comp : list nat) (all : mt (R:=R)) (acc : mt (R:=R)) (ed : nat * list nat) : mt (R:=R) :=
  if mem comp (fst ed) then acc
  else match mt_get acc (fst ed), mt_get all (fst ed) with
       | None, Some f => acc ++ [(fst ed, f)]
       | _, _ => acc
       end.
Lemma comp_inputs_single G X all :
  comp_inputs G [X] all = fold_left (ci_step [X] all) (flat_map r_edges (rules_of G X)) [].
Proof. rewrite <- fold_left_flat_map. reflexivity. Qed.

Definition ci_inv (all acc : mt (R:=R)) : Prop := forall l, mt_get acc l = None \/ mt_get acc l = mt_get all l.
Definition ci_cov (all acc : mt (R:=R)) (l : nat) : Prop := mt_get acc l = mt_get all l.

Lemma ci_step_inv comp all acc ed : ci_inv all acc ->
  ci_inv all (ci_step comp all acc ed)
  /\ (forall l, ci_cov all acc l -> ci_cov all (ci_step comp all acc ed) l)
  /\ (mem comp (fst ed) = false -> ci_cov all (ci_step comp all acc ed) (fst ed)).
Proof.
  intros Hinv. unfold ci_step. destruct (mem comp (fst ed)); [repeat split; trivial; discriminate|].
  destruct (mt_get acc (fst ed)) as [g|] eqn:Eg.
  { repeat split; trivial. intros _. unfold ci_cov. destruct (Hinv (fst ed)) as [H|H]; congruence. }
  destruct (mt_get all (fst ed)) as [f|] eqn:Ef.
  2:{ repeat split; trivial. intros _. unfold ci_cov. congruence. }
  split; [|split].
  - intros l. rewrite mt_get_app. destruct (mt_get acc l) as [g|] eqn:El.
    + right. destruct (Hinv l) as [H|H]; congruence.
    + destruct (Nat.eqb (fst ed) l) eqn:E; [|now left]. apply Nat.eqb_eq in E. subst l. right. congruence.
  - intros l Hc. unfold ci_cov in *. rewrite mt_get_app. destruct (mt_get acc l) as [g|] eqn:El; trivial.
    destruct (Nat.eqb (fst ed) l) eqn:E; trivial. apply Nat.eqb_eq in E. subst l. congruence.
  - intros _. unfold ci_cov. rewrite mt_get_app, Eg, Nat.eqb_refl. congruence.
Qed.

Lemma ci_fold_inv comp all es : forall acc, ci_inv all acc ->
  ci_inv all (fold_left (ci_step comp all) es acc)
  /\ (forall l, ci_cov all acc l -> ci_cov all (fold_left (ci_step comp all) es acc) l)
  /\ (forall ed, In ed es -> mem comp (fst ed) = false -> ci_cov all (fold_left (ci_step comp all) es acc) (fst ed)).
Proof.
  induction es as [|ed es IH]; intros acc Hinv; cbn [fold_left].
  - repeat split; trivial. intros ed [].
  - destruct (ci_step_inv comp all acc ed Hinv) as (H1 & H2 & H3).
    destruct (IH _ H1) as (I1 & I2 & I3). split; trivial. split.
    + intros l Hl. apply I2, H2, Hl.
    + intros ed' [<-|Hin] Hm; [apply I2, H3, Hm|now apply I3].
Qed.

Lemma comp_inputs_get G X (all : mt (R:=R)) r ed :
  In r (rules_of G X) -> In ed (r_edges r) -> fst ed <> X ->
  mt_get (comp_inputs G [X] all) (fst ed) = mt_get all (fst ed).
Proof.
  intros Hr0 Hed Hne. rewrite comp_inputs_single.
  destruct (ci_fold_inv [X] all (flat_map r_edges (rules_of G X)) []) as (_ & _ & H).
  { intros l. now left. }
  apply H.
  - apply in_flat_map. now exists r.
  - unfold mem. cbn [existsb]. rewrite orb_false_r. now apply Nat.eqb_neq.
Qed.

(** ** tables *)
Lemma tab_get_map f l xi :
  In xi l -> tab_get o (map (fun x => (x, f x)) l) xi = f xi.
Proof.
  induction l as [|k l IH]; intros Hin; [destruct Hin|]. cbn [map tab_get].
  destruct (nat_list_eqb k xi) eqn:E; [apply nat_list_eqb_iff in E; now subst|].
  destruct Hin as [->|Hin]; [now rewrite list_eqb_refl in E|now apply IH].
Qed.
Lemma tab_get_tabulate shape f xi : In xi (all_assts shape) -> tab_get o (tabulate shape f) xi = f xi.
Proof. apply tab_get_map. Qed.

Lemma env_of_tget t X xi :
  env_of o t X xi = match tget t X with Some tb => tab_get o tb xi | None => zero o end.
Proof.
  unfold env_of. induction t as [|[a tb] t IH]; cbn [tget]; [reflexivity|].
  destruct (Nat.eqb a X); [reflexivity|exact IH].
Qed.
Lemma mt_get_mt_of t l :
  mt_get (mt_of o t) l = match tget t l with Some tb => Some (tab_get o tb) | None => None end.
Proof.
  induction t as [|[a tb] t IH]; cbn [mt_of map mt_get tget fst snd]; [reflexivity|].
  destruct (Nat.eqb a l); [reflexivity|exact IH].
Qed.
Lemma oenv_mt_of t l xi : oenv (mt_get (mt_of o t)) l xi = env_of o t l xi.
Proof. unfold oenv. rewrite mt_get_mt_of, env_of_tget. destruct (tget t l); reflexivity. Qed.
Lemma tget_app (t : tmt (R:=R)) X tb l :
  tget (t ++ [(X, tb)]) l = match tget t l with Some x => Some x | None => if Nat.eqb X l then Some tb else None end.
Proof.
  induction t as [|[a tb'] t IH]; cbn [app tget]; [reflexivity|]. destruct (Nat.eqb a l); trivial.
Qed.

(** ** one component *)
Lemma one_step_single G all X :
  one_step_comp o G all [X]
  = all ++ [(X, tabulate (lshape G X) (mt_val o (F_model o G [X] [] (comp_inputs G [X] (mt_of o all))) X))].
Proof. reflexivity. Qed.

Lemma one_step_other G all X l xi :
  tget all l <> None \/ l <> X -> env_of o (one_step_comp o G all [X]) l xi = env_of o all l xi.
Proof.
  intros H. rewrite one_step_single, !env_of_tget, tget_app.
  destruct (tget all l) as [tb|] eqn:E; trivial.
  destruct H as [H|H]; [congruence|]. destruct (Nat.eqb X l) eqn:E'; trivial.
  apply Nat.eqb_eq in E'. congruence.
Qed.

Lemma one_step_new G all X xi :
  (forall r, In r (rules_of G X) -> wf_rule G r = true) ->
  (forall r ed, In r (rules_of G X) -> In ed (r_edges r) -> fst ed <> X) ->
  tget all X = None -> In xi (all_assts (lshape G X)) ->
  env_of o (one_step_comp o G all [X]) X xi
  = sumS o (rules_of G X) (fun r => rule_val o G (env_of o all) r xi).
Proof.
  intros Hwf Hnl Hnone Hxi. rewrite one_step_single, env_of_tget, tget_app, Hnone, Nat.eqb_refl.
  rewrite tab_get_tabulate by exact Hxi. rewrite F_single_val.
  apply sumS_ext. intros r Hrin.
  assert (Hlhs : r_lhs r = X) by (apply in_rules_of in Hrin; tauto).
  rewrite spe_spec; [|now apply Hwf|now rewrite Hlhs].
  apply (rule_val_ext o). intros ed a Hed _. unfold oenv at 1, lookup2. cbn [mt_get].
  rewrite (comp_inputs_get G X _ r ed Hrin Hed (Hnl r ed Hrin Hed)).
  apply oenv_mt_of.
Qed.

Lemma one_step_keys G all X l :
  tget (one_step_comp o G all [X]) l <> None <-> tget all l <> None \/ l = X.
Proof.
  rewrite one_step_single, tget_app. destruct (tget all l) eqn:E.
  - split; [left|]; congruence.
  - destruct (Nat.eqb X l) eqn:E'.
    + apply Nat.eqb_eq in E'. split; [now right|congruence].
    + apply Nat.eqb_neq in E'. split; [congruence|]. intros [H|H]; congruence.
Qed.

End Driver.
