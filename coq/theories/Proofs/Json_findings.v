(** C14: concrete witnesses.  F19 and F20 were repaired in /repo (commits fe13a06, 450bcaa) and the
    model follows the repaired code: their former counterexamples are kept as regression examples.
    F21 is not repaired: the faithful model still refutes the unguarded statement. *)
From Coq Require Import List Arith Bool PeanoNat ZArith QArith.
Import ListNotations.
Require Import Fggs.Model.Json.
Local Open Scope nat_scope.

(** formerly F19: a patterned specification without "vaxes" denotes the dense tensor [physical] *)
Definition f19_spec : json := JDict [(k_physical, JList [JNum (NFin 1); JNum (NFin 2)])].

Example f19_now_dense :
  (do pt <- json_to_weights_model f19_spec; pt_to_dense pt) = Ok (TL [TS (NFin 1); TS (NFin 2)]).
Proof. reflexivity. Qed.

(** formerly F20: S -> (empty graph); a terminal t : (N) that occurs in no rule, with a factor.
    [json_to_fgg (fgg_to_json g)] now succeeds and keeps the label. *)
Definition f20_S : elabel := mkEL [83] [] false.
Definition f20_t : elabel := mkEL [116] [[78]] true.
Definition f20_hrg : hrg := mkHRG [f20_S; f20_t] f20_S [(f20_S, [mkRule f20_S (mkGraph [] [] [])])].
Definition f20_fgg : fgg :=
  mkFGG f20_hrg [([78], DRange 2)]
        [([116], FFinite (mkPT (TL [TS (NFin 1); TS (NFin 2)]) 0 [2] [APhys 0 2] (NFin 0)))].

Example f20_now_roundtrips : forall dec,
  exists j g', fgg_to_json_model dec f20_fgg = Ok j /\ json_to_fgg_model 0 j = Ok g' /\
               h_labels (f_hrg g') = [f20_S; f20_t] /\ map fst (f_factors g') = [[116]].
Proof. intro dec. eexists. eexists. split; [reflexivity|]. split; [vm_compute; reflexivity|]. split; reflexivity. Qed.

(** F21 (found by this check, not repaired): a finite factor over (N, M) with N empty and |M| = 3.
    Its weights (shape (0, 3)) are written as the empty list, which reads back with shape (0,):
    [json_to_fgg] raises ValueError (wrong shape). *)
Definition f21_t : elabel := mkEL [116] [[78]; [77]] true.
Definition f21_n : node := mkNode [78] (Explicit [110]).
Definition f21_m : node := mkNode [77] (Explicit [109]).
Definition f21_hrg : hrg :=
  mkHRG [f20_S; f21_t] f20_S
        [(f20_S, [mkRule f20_S (mkGraph [f21_n; f21_m] [mkEdge f21_t [f21_n; f21_m] (Explicit [101])] [])])].
Definition f21_fgg : fgg :=
  mkFGG f21_hrg [([78], DFinite []); ([77], DRange 3)]
        [([116], FFinite (mkPT (TL []) 0 [0; 3] [APhys 0 0; APhys 1 3] (NFin 0)))].

Lemma f21_refuted : forall dec,
  wf_hrg f21_hrg = true /\
  exists j, fgg_to_json_model dec f21_fgg = Ok j /\ json_to_fgg_model 0 j = Err ValueErr.
Proof. intro dec. split; [reflexivity|]. eexists. split; [reflexivity|]. vm_compute. reflexivity. Qed.
