(** C14: concrete witnesses.  F19, F20 and F21 were repaired in /repo (commits fe13a06, 450bcaa,
    38f8bd3) and the model follows the repaired code: their former counterexamples are kept as
    regression examples.  For F21 the behaviour before the repair is kept as explicitly named
    [*_old] definitions, with the refutation stated about those. *)
From Coq Require Import List Arith Bool PeanoNat ZArith QArith.
Import ListNotations.
Require Import Fggs.Model.Json.
Local Open Scope nat_scope.

(** formerly F19: a patterned specification without "vaxes" denotes the dense tensor [physical] *)
Definition f19_spec : json := JDict [(k_physical, JList [JNum (NFin 1); JNum (NFin 2)])].

Example f19_now_dense :
  (do pt <- json_to_weights_model f19_spec; pt_to_dense pt) = Ok (TL [TS (NFin 1); TS (NFin 2)]).
Proof. reflexivity. Qed.

(** formerly F20: S -> (empty graph); a terminal t : (N) that occurs in no rule, with a factor.
    [json_to_fgg (fgg_to_json g)] now succeeds and keeps the label. *)
Definition f20_S : elabel := mkEL [83] [] false.
Definition f20_t : elabel := mkEL [116] [[78]] true.
Definition f20_hrg : hrg := mkHRG [f20_S; f20_t] f20_S [(f20_S, [mkRule f20_S (mkGraph [] [] [])])].
Definition f20_fgg : fgg :=
  mkFGG f20_hrg [([78], DRange 2)]
        [([116], FFinite (mkPT (TL [TS (NFin 1); TS (NFin 2)]) 0 [2] [APhys 0 2] (NFin 0)))].

Example f20_now_roundtrips : forall dec,
  exists j g', fgg_to_json_model dec f20_fgg = Ok j /\ json_to_fgg_model 0 j = Ok g' /\
               h_labels (f_hrg g') = [f20_S; f20_t] /\ map fst (f_factors g') = [[116]].
Proof. intro dec. eexists. eexists. split; [reflexivity|]. split; [vm_compute; reflexivity|]. split; reflexivity. Qed.

(** formerly F21: a finite factor over (N, M) with N empty and |M| = 3.  Its weights (shape (0, 3))
    are written as the empty list, which reads back with shape (0,).  Since 38f8bd3 [json_to_fgg]
    restores the zeros of the right shape. *)
Definition f21_t : elabel := mkEL [116] [[78]; [77]] true.
Definition f21_n : node := mkNode [78] (Explicit [110]).
Definition f21_m : node := mkNode [77] (Explicit [109]).
Definition f21_hrg : hrg :=
  mkHRG [f20_S; f21_t] f20_S
        [(f20_S, [mkRule f20_S (mkGraph [f21_n; f21_m] [mkEdge f21_t [f21_n; f21_m] (Explicit [101])] [])])].
Definition f21_fgg : fgg :=
  mkFGG f21_hrg [([78], DFinite []); ([77], DRange 3)]
        [([116], FFinite (mkPT (TL []) 0 [0; 3] [APhys 0 0; APhys 1 3] (NFin 0)))].

Example f21_now_roundtrips : forall dec,
  exists j g', fgg_to_json_model dec f21_fgg = Ok j /\ json_to_fgg_model 0 j = Ok g' /\
               map (fun kf => match snd kf with FFinite w => pt_shape w | FConstant _ => [] end) (f_factors g') = [[0; 3]].
Proof. intro dec. eexists. eexists. split; [reflexivity|]. split; vm_compute; reflexivity. Qed.

(** ** the code before 38f8bd3 *)
Definition json_to_factor_old (tbl : list elabel) (doms : list (str * domain)) (name : str) (d : json) : res factor :=
  do el <- match lab_get tbl name with Some l => Ok l | None => Err KeyErr end;
  do ds <- mapM (fun nl => match dict_find doms nl with Some x => Ok x | None => Err KeyErr end) (el_type el);
  do f <- jget d k_function;
  if json_eqb f (JStr k_constant) then
    do w <- jget d k_weight;
    if negb (el_term el) then Err ValueErr else Ok (FConstant w)
  else if json_eqb f (JStr k_finite) then
    do jw <- jget d k_weights;
    do w <- json_to_weights_model jw;
    if negb (nats_eqb (pt_shape w) (map domain_size ds)) then Err ValueErr
    else if negb (el_term el) then Err ValueErr else Ok (FFinite w)
  else Err ValueErr.

Fixpoint json_to_factors_old (tbl : list elabel) (doms : list (str * domain)) (items : list (str * json))
         (acc : list (str * factor)) : res (list (str * factor)) :=
  match items with
  | [] => Ok acc
  | (name, d) :: items' =>
      do f <- json_to_factor_old tbl doms name d;
      json_to_factors_old tbl doms items' (acc ++ [(name, f)])
  end.

Definition json_to_fgg_model_old (c : nat) (j : json) : res fgg :=
  do jg <- jget j k_grammar;
  do h <- json_to_hrg_model c jg;
  do h' <- from_hrg h;
  do ji <- jget j k_interpretation;
  do jd <- jget ji k_domains;
  do itd <- jitems jd;
  do doms <- json_to_domains itd [];
  do jf <- jget ji k_factors;
  do itf <- jitems jf;
  do facs <- json_to_factors_old (h_labels h') doms itf [];
  Ok (mkFGG h' doms facs).

Lemma f21_old_refuted : forall dec,
  wf_hrg f21_hrg = true /\
  exists j, fgg_to_json_model dec f21_fgg = Ok j /\ json_to_fgg_model_old 0 j = Err ValueErr.
Proof. intro dec. split; [reflexivity|]. eexists. split; [reflexivity|]. vm_compute. reflexivity. Qed.
