(** C14: the faithful model reproduces the defects F19 and F20 of /repo (witnesses by computation). *)
From Coq Require Import List Arith Bool PeanoNat ZArith QArith.
Import ListNotations.
Require Import Fggs.Model.Json.
Local Open Scope nat_scope.

(** F19: a patterned specification without "vaxes" -- which the format allows (the key is read with
    [j.get]) and which should denote the dense tensor [physical] -- raises AssertionError *)
Definition f19_spec : json := JDict [(k_physical, JList [JNum (NFin 1); JNum (NFin 2)])].

Lemma f19_refuted : json_to_weights_model f19_spec = Err AssertErr.
Proof. reflexivity. Qed.

(** F20: S -> (empty graph); a terminal t : (N) that occurs in no rule, with a factor.
    [fgg_to_json] writes it, [json_to_fgg] raises KeyError because [FGG.from_hrg] rebuilt the label
    table from the rules only. *)
Definition f20_S : elabel := mkEL [83] [] false.
Definition f20_t : elabel := mkEL [116] [[78]] true.
Definition f20_hrg : hrg := mkHRG [f20_S; f20_t] f20_S [(f20_S, [mkRule f20_S (mkGraph [] [] [])])].
Definition f20_fgg : fgg :=
  mkFGG f20_hrg [([78], DRange 2)]
        [([116], FFinite (mkPT (TL [TS (NFin 1); TS (NFin 2)]) 0 [2] [APhys 0 2] (NFin 0)))].

Lemma f20_wf : wf_hrg f20_hrg = true.
Proof. reflexivity. Qed.

Lemma f20_refuted : forall dec,
  exists j, fgg_to_json_model dec f20_fgg = Ok j /\ json_to_fgg_model 0 j = Err KeyErr.
Proof. intro dec. eexists. split; [reflexivity|]. vm_compute. reflexivity. Qed.

(** the silent form: without the factor the round trip succeeds but the label [t] is gone *)
Definition f20_fgg' : fgg := mkFGG f20_hrg [([78], DRange 2)] [].

Lemma f20_labels_dropped : forall dec,
  exists j g', fgg_to_json_model dec f20_fgg' = Ok j /\ json_to_fgg_model 0 j = Ok g' /\
               h_labels (f_hrg g') = [f20_S].
Proof. intro dec. eexists. eexists. split; [reflexivity|]. split; vm_compute; reflexivity. Qed.

(** F21 (found by this check): a finite factor over (N, M) with N empty and |M| = 3.  Its weights
    (shape (0, 3)) are written as the empty list, which reads back with shape (0,):
    [json_to_fgg] raises ValueError (wrong shape). *)
Definition f21_t : elabel := mkEL [116] [[78]; [77]] true.
Definition f21_n : node := mkNode [78] (Explicit [110]).
Definition f21_m : node := mkNode [77] (Explicit [109]).
Definition f21_hrg : hrg :=
  mkHRG [f20_S; f21_t] f20_S
        [(f20_S, [mkRule f20_S (mkGraph [f21_n; f21_m] [mkEdge f21_t [f21_n; f21_m] (Explicit [101])] [])])].
Definition f21_fgg : fgg :=
  mkFGG f21_hrg [([78], DFinite []); ([77], DRange 3)]
        [([116], FFinite (mkPT (TL []) 0 [0; 3] [APhys 0 0; APhys 1 3] (NFin 0)))].

Lemma f21_refuted : forall dec,
  wf_hrg f21_hrg = true /\
  exists j, fgg_to_json_model dec f21_fgg = Ok j /\ json_to_fgg_model 0 j = Err ValueErr.
Proof. intro dec. split; [reflexivity|]. eexists. split; [reflexivity|]. vm_compute. reflexivity. Qed.

(** the grammar-level functions are not affected: [json_to_hrg] keeps every label *)
Lemma f20_hrg_level_fine : forall dec,
  exists j g', hrg_to_json_model dec f20_hrg = Ok j /\ json_to_hrg_model 0 j = Ok g' /\
               h_labels g' = [f20_S; f20_t].
Proof. intro dec. eexists. eexists. split; [reflexivity|]. split; vm_compute; reflexivity. Qed.
