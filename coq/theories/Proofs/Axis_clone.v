(** [Axis.clone(subst)] for substitutions whose values are closed axes (no physical axis inside):
    the two uses inside PatternedTensor that do not come from unification --
    [__post_init__] ([k |-> unitAxis] for size-1 axes) and [__getitem__]
    ([k |-> SumAxis(i, unitAxis, n-i-1)]).  The clone has the same size, evaluates like the axis under
    the environment that assigns every bound axis the value of its image, and its free axes are the
    unbound free axes of the original.  Also: the invariants of the smart constructor [productAxis]. *)
From Coq Require Import List Arith Lia PeanoNat Bool PArith.
Import ListNotations.
Require Import Fggs.Model.Axis.
Require Import Fggs.Proofs.Axis_sem Fggs.Proofs.Axis_unify Fggs.Proofs.Axis_antiunify Fggs.Proofs.Axis_antiunify_inv.
Require Import Fggs.Proofs.PTensor_sem Fggs.Proofs.PTensor_dense Fggs.Proofs.PTensor_views Fggs.Proofs.PTensor_gen.

(** the environment seen by the original axis *)
Definition cenv (sigma : subst) (rho : env) : env :=
  fun k => match assoc k sigma with Some c => eval rho c | None => rho k end.

Definition closed_vals (sigma : subst) : Prop := forall k c, assoc k sigma = Some c -> fvn c = [].
Definition sized_for (sigma : subst) (e : axis) : Prop :=
  forall k n c, In (k, n) (fvn e) -> assoc k sigma = Some c -> numel c = n.

Lemma mapM_Forall2' {A B} (f : A -> res B) l l' : mapM f l = Ok l' -> Forall2 (fun x y => f x = Ok y) l l'.
Proof.
  revert l'. induction l as [|x l IH]; intros l' H; simpl in H.
  - inversion H. constructor.
  - destruct (f x) as [y|] eqn:E; [|discriminate]. cbn [bind] in H.
    destruct (mapM f l) as [ys|] eqn:E2; [|discriminate]. cbn [bind] in H. inversion H; subst.
    constructor; [exact E|apply IH; reflexivity].
Qed.

Lemma mapM_total {A B} (f : A -> res B) l : (forall x, In x l -> exists y, f x = Ok y) -> exists l', mapM f l = Ok l'.
Proof.
  induction l as [|x l IH]; intros H; [exists []; reflexivity|].
  destruct (H x (or_introl eq_refl)) as (y & Ey). destruct (IH (fun z Hz => H z (or_intror Hz))) as (ys & Eys).
  exists (y :: ys). simpl. rewrite Ey. cbn [bind]. rewrite Eys. reflexivity.
Qed.

Lemma closed_eval r1 r2 c : fvn c = [] -> eval r1 c = eval r2 c.
Proof. intros H. apply eval_ext. intros k Hk. apply fv_of_fvn in Hk. destruct Hk as (n & Hk). rewrite H in Hk. destruct Hk. Qed.

Lemma closed_inrange rho c : fvn c = [] -> inrange rho c.
Proof. intros H. apply inrange_fvn. intros k n Hk. rewrite H in Hk. destruct Hk. Qed.

Lemma sized_for_factor sigma l x : sized_for sigma (Prod l) -> In x l -> sized_for sigma x.
Proof. intros S Hx k n c Hk Ha. apply (S k n c); [|exact Ha]. simpl. apply in_flat_map. eauto. Qed.

(** the three facts, for one axis *)
Definition clone_ok (sigma : subst) (e e' : axis) : Prop :=
  numel e' = numel e /\ (forall rho, eval rho e' = eval (cenv sigma rho) e) /\
  (forall kn, In kn (fvn e') <-> In kn (fvn e) /\ assoc (fst kn) sigma = None).

Lemma clone_ok_list sigma l l' : Forall2 (clone_ok sigma) l l' ->
  prodn l' = prodn l /\ (forall rho, evalL rho l' = evalL (cenv sigma rho) l) /\
  (forall kn, In kn (flat_map fvn l') <-> In kn (flat_map fvn l) /\ assoc (fst kn) sigma = None).
Proof.
  induction 1 as [|x y l l' (N & E & F) _ (IN & IE & IF)];
    [split; [reflexivity|]; split; [reflexivity|]; intros kn; simpl; tauto|].
  split; [rewrite !prodn_cons, N, IN; reflexivity|]. split.
  - intros rho. rewrite !evalL_cons, E, IE, IN. reflexivity.
  - intros kn. simpl. rewrite !in_app_iff, F, IF. tauto.
Qed.

Theorem clone_spec sigma : closed_vals sigma ->
  forall fuel e e', sized_for sigma e -> clone fuel sigma e = Ok e' -> clone_ok sigma e e'.
Proof.
  intros CV. induction fuel as [|fuel IH]; intros e e' SZ H; [discriminate|].
  destruct e as [k n|l|b t a]; cbn [clone] in H.
  - destruct (assoc k sigma) as [c|] eqn:E.
    + pose proof (CV k c E) as Cc.
      assert (SZc : sized_for sigma c) by (intros k' n' c' Hk'; rewrite Cc in Hk'; destruct Hk').
      destruct (IH c e' SZc H) as (N & Ev & F). split; [|split].
      * rewrite N. apply (SZ k n c); [left; reflexivity|exact E].
      * intros rho. rewrite Ev. simpl. unfold cenv at 2. rewrite E. apply closed_eval. exact Cc.
      * intros kn. rewrite F, Cc. simpl. split; [intros [[] _]|]. intros [[<-|[]] Hn]. simpl in Hn. congruence.
    + inversion H; subst. split; [reflexivity|]. split.
      * intros rho. simpl. unfold cenv. rewrite E. reflexivity.
      * intros kn. simpl. split; [intros [<-|[]]; split; [left; reflexivity|exact E]|intros [[<-|[]] _]; left; reflexivity].
  - destruct (mapM (clone fuel sigma) l) as [l'|] eqn:E; [|discriminate]. cbn [bind] in H. inversion H; subst.
    assert (F2 : Forall2 (clone_ok sigma) l l').
    { apply mapM_Forall2' in E. clear H. induction E as [|x y l l' Hxy _ IHl]; [constructor|].
      constructor; [apply (IH x y); [eapply sized_for_factor; [exact SZ|left; reflexivity]|exact Hxy]|].
      apply IHl. intros k n c Hk Ha. apply (SZ k n c); [|exact Ha]. simpl. apply in_or_app. right. exact Hk. }
    destruct (clone_ok_list _ _ _ F2) as (N & Ev & F). split; [|split].
    + rewrite (proj2 (productAxis_sem (fun _ => 0) l')). exact N.
    + intros rho. rewrite (proj1 (productAxis_sem rho l')). exact (Ev rho).
    + intros kn. rewrite fvn_productAxis. exact (F kn).
  - destruct (clone fuel sigma t) as [t'|] eqn:E; [|discriminate]. cbn [bind] in H. inversion H; subst.
    destruct (IH t t' SZ E) as (N & Ev & F). split; [simpl; rewrite N; reflexivity|]. split.
    + intros rho. simpl. rewrite Ev. reflexivity.
    + exact F.
Qed.

(** in-range environments correspond *)
Lemma clone_inrange sigma e e' rho : closed_vals sigma -> sized_for sigma e -> clone_ok sigma e e' ->
  (inrange rho e' <-> inrange (cenv sigma rho) e).
Proof.
  intros CV SZ (_ & _ & F). rewrite <- !inrange_fvn. split.
  - intros H k n Hk. unfold cenv. destruct (assoc k sigma) as [c|] eqn:E.
    + rewrite <- (SZ k n c Hk E). apply eval_bound. apply closed_inrange. exact (CV k c E).
    + apply H. apply F. split; [exact Hk|exact E].
  - intros H k n Hk. apply F in Hk. destruct Hk as [Hk E]. cbn [fst] in E. specialize (H k n Hk). unfold cenv in H.
    rewrite E in H. exact H.
Qed.

(** fuel: the values are closed, so one extra level of recursion is all there is *)
Lemma clone_total_closed sigma : forall fuel c, fvn c = [] -> asize c <= fuel -> exists c', clone fuel sigma c = Ok c'.
Proof.
  induction fuel as [|fuel IH]; intros c Hc Hf; [destruct c; simpl in Hf; lia|].
  destruct c as [k n|l|b t a]; cbn [clone].
  - discriminate.
  - destruct (mapM_total (clone fuel sigma) l) as (l' & E).
    + intros x Hx. apply IH.
      * simpl in Hc. destruct (fvn x) as [|kn r] eqn:Ex; [reflexivity|]. exfalso.
        assert (In kn (flat_map fvn l)) by (apply in_flat_map; exists x; split; [exact Hx|rewrite Ex; left; reflexivity]).
        rewrite Hc in H. destruct H.
      * simpl in Hf. pose proof (asize_le_list x l Hx). unfold asize_list in H. lia.
    + rewrite E. cbn [bind]. eauto.
  - destruct (IH t Hc) as (t' & E); [simpl in Hf; lia|]. rewrite E. cbn [bind]. eauto.
Qed.

Lemma clone_total sigma M : (forall k c, assoc k sigma = Some c -> fvn c = [] /\ asize c <= M) ->
  forall fuel e, asize e + M <= fuel -> exists e', clone fuel sigma e = Ok e'.
Proof.
  intros HM. induction fuel as [|fuel IH]; intros e Hf; [destruct e; simpl in Hf; lia|].
  destruct e as [k n|l|b t a]; cbn [clone].
  - destruct (assoc k sigma) as [c|] eqn:E; [|eauto]. destruct (HM k c E) as [Hc Hs].
    apply clone_total_closed; [exact Hc|simpl in Hf; lia].
  - destruct (mapM_total (clone fuel sigma) l) as (l' & E).
    + intros x Hx. apply IH. simpl in Hf. pose proof (asize_le_list x l Hx). unfold asize_list in H. lia.
    + rewrite E. cbn [bind]. eauto.
  - destruct (IH t) as (t' & E); [simpl in Hf; lia|]. rewrite E. cbn [bind]. eauto.
Qed.

(** * the smart constructor [productAxis]: the invariants stated in its docstring
      ([len(factors) != 1], no factor is itself a ProductAxis), hereditarily *)
Fixpoint pnormal (e : axis) : bool :=
  match e with
  | Phys _ _ => true
  | Prod l => negb (Nat.eqb (length l) 1) && forallb (fun x => negb (is_prod x) && pnormal x) l
  | Sum _ t _ => pnormal t
  end.

Lemma pnormal_factors x : pnormal x = true -> forallb (fun y => negb (is_prod y) && pnormal y) (factors_of x) = true.
Proof.
  destruct x as [k n|l|b t a]; intros H.
  - reflexivity.
  - cbn [factors_of]. cbn [pnormal] in H. apply andb_true_iff in H. tauto.
  - cbn [factors_of forallb is_prod negb andb]. rewrite H. reflexivity.
Qed.

Theorem productAxis_normal l : forallb pnormal l = true -> pnormal (productAxis l) = true.
Proof.
  intros H.
  assert (F : forallb (fun y => negb (is_prod y) && pnormal y) (flat_map factors_of l) = true).
  { induction l as [|x l IH]; [reflexivity|]. simpl in H. apply andb_true_iff in H. destruct H as [Hx Hl].
    cbn [flat_map]. rewrite forallb_app, (pnormal_factors x Hx), (IH Hl). reflexivity. }
  unfold productAxis. destruct (flat_map factors_of l) as [|x [|y r]] eqn:E.
  - reflexivity.
  - simpl in F. rewrite andb_true_r in F. apply andb_true_iff in F. tauto.
  - cbn [pnormal length]. rewrite F. reflexivity.
Qed.

Example productAxis_normal_ex :
  productAxis [Prod [Phys 1 2; Phys 2 3]; unitAxis; Sum 1 (Phys 3 2) 0] = Prod [Phys 1 2; Phys 2 3; Sum 1 (Phys 3 2) 0] /\
  pnormal (productAxis [Prod [Phys 1 2; Phys 2 3]; unitAxis; Sum 1 (Phys 3 2) 0]) = true /\
  productAxis [unitAxis; Phys 1 2] = Phys 1 2.
Proof. repeat split. Qed.
