(** C05, grammar level, part 1: the new rules of one [factorize_rule] call are in POST-ORDER --
    every edge of the rule at position q is an edge of the original rule or the (one) use of a
    rule at an earlier position -- and the facts about one call that the grammar-level theorems
    need, collected ([call_facts]). *)
From Coq Require Import List Arith Bool PeanoNat Lia Permutation.
Import ListNotations.
Require Import Fggs.Model.Conj Fggs.Proofs.ConjBase Fggs.Proofs.ConjNames.
Require Import Fggs.Model.TreeDec Fggs.Proofs.TreeDec_graph Fggs.Proofs.TreeDec_tdok Fggs.Model.Factorize
               Fggs.Proofs.Fz_fresh Fggs.Proofs.Fz_rooted Fggs.Proofs.Fz_struct Fggs.Proofs.Fz_main
               Fggs.Proofs.Fz_bridge Fggs.Proofs.Fz_final.

Section Post.
Variables (r : frule) (t : ftd) (ords : list (list nat)).

Definition post_ok (rs : list frule) : Prop :=
  forall q c, nth_error rs q = Some c -> forall e, In e (fr_edges c) ->
    In e (fr_edges r) \/ exists q' d, q' < q /\ nth_error rs q' = Some d /\ fe_lab e = fr_lhs d.

Lemma post_ok_app A B : post_ok A -> post_ok B -> post_ok (A ++ B).
Proof.
  intros PA PB q c Hq e He. destruct (Nat.lt_ge_cases q (length A)) as [H|H].
  - rewrite nth_error_app1 in Hq by exact H. destruct (PA q c Hq e He) as [O|(q' & d & L & N & E)]; [now left|].
    right. exists q', d. split; [exact L|]. split; [|exact E]. rewrite nth_error_app1 by lia. exact N.
  - rewrite nth_error_app2 in Hq by exact H. destruct (PB _ c Hq e He) as [O|(q' & d & L & N & E)]; [now left|].
    right. exists (length A + q'), d. split; [lia|]. split; [|exact E]. rewrite nth_error_app2 by lia.
    replace (length A + q' - length A) with q' by lia. exact N.
Qed.
Lemma post_ok_nil : post_ok [].
Proof. intros [|q] c H; discriminate. Qed.
Lemma post_ok_flat_map {X} (f : X -> list frule) l : (forall x, In x l -> post_ok (f x)) -> post_ok (flat_map f l).
Proof.
  induction l as [|x l IH]; intro H; cbn [flat_map]; [apply post_ok_nil|].
  apply post_ok_app; [apply H; now left|apply IH; intros y Hy; apply H; now right].
Qed.

Theorem post_order nm : forall T parent, post_ok (rules_of_rt r t ords nm T parent).
Proof.
  induction T as [i cs IH] using rt_ind'. intro parent. rewrite rules_of_rt_eq. rewrite Forall_forall in IH.
  set (A := flat_map (fun c => rules_of_rt r t ords nm c (Some i)) cs).
  assert (PA : post_ok A) by (apply post_ok_flat_map; intros c Hc; now apply IH).
  intros q c Hq e He. destruct (Nat.lt_ge_cases q (length A)) as [H|H].
  - rewrite nth_error_app1 in Hq by exact H. destruct (PA q c Hq e He) as [O|(q' & d & L & N & E)]; [now left|].
    right. exists q', d. split; [exact L|]. split; [|exact E]. rewrite nth_error_app1 by lia. exact N.
  - rewrite nth_error_app2 in Hq by exact H. destruct (q - length A) as [|k] eqn:Ek; [|destruct k; discriminate].
    cbn in Hq. injection Hq as <-. cbn [fr_edges mk_rule] in He. apply in_app_or in He. destruct He as [He|He].
    + left. unfold place_edges in He. apply filter_In in He. tauto.
    + right. unfold kid_edges in He. apply in_map_iff in He. destruct He as (d & <- & Hd).
      destruct (rules_last r t ords nm d (Some i)) as (fr & EL).
      assert (Hin : In (mk_rule r (nm (rt_root d)) (bag_of t (rt_root d))
                          (place_edges r (bag_of t (rt_root d)) (pbag t (Some i)) ++ kid_edges ords nm (rt_kids d))
                          (ext_at r ords (Some i) (rt_root d))) A).
      { apply in_flat_map. exists d. split; trivial. rewrite EL. apply in_or_app. right. now left. }
      apply In_nth_error in Hin. destruct Hin as (q' & Hq').
      assert (Lq : q' < length A) by (apply nth_error_Some; congruence).
      exists q'. eexists. split; [lia|]. split; [rewrite nth_error_app1 by exact Lq; exact Hq'|reflexivity].
Qed.

End Post.

(** * everything about one call *)
Record call_facts (r : frule) (labels : list elabel) (front : list frule) (last : frule) (ls : list elabel) : Prop := {
  cf_lhs : fr_lhs last = fr_lhs r;
  cf_ext : fr_ext last = fr_ext r;
  cf_nt : forall c, In c front -> el_term (fr_lhs c) = false;
  cf_new : forall c, In c front -> ~ In (el_name (fr_lhs c)) (map el_name (init_labels r labels));
  cf_nodup : NoDup (map (fun c => el_name (fr_lhs c)) front);
  cf_labels : Permutation ls (map fr_lhs front ++ init_labels r labels);
  cf_post : post_ok r (front ++ [last]);
  (* the last rule lives on the root bag, which contains the externals *)
  cf_last : exists b es, last = mk_rule r (fr_lhs r) b es (fr_ext r)
                         /\ NoDup b /\ incl b (fr_ids r) /\ incl (fr_ext r) b }.

Theorem call_facts_model r t ords labels front last ls :
  wf_rule r -> ftd_wfb t = true -> valid_td (primal r) (td_of_ftd t) ->
  factorize_rule_model r labels t ords = Ok (front ++ [last], ls) ->
  call_facts r labels front last ls.
Proof.
  intros W WF V H.
  destruct (edges_once_final r t ords labels _ ls W WF V H)
    as (front' & last' & E & E1 & E2 & _ & _ & _ & F1 & F2 & _ & F4).
  apply app_inj_tail in E. destruct E as [<- <-].
  destruct W as (NDi & A & Ext).
  destruct (find_root (fr_ext r) t 0) as [root|] eqn:FR;
    [|unfold factorize_rule_model, factorize_rule_from in H; rewrite FR in H; discriminate].
  destruct (valid_rooted r t WF V root NDi A Ext FR) as (T & RV).
  destruct (model_output r t ords labels root T _ ls FR RV H) as (nm & Ers & Eroot & _ & _ & _).
  constructor; trivial.
  - intros c Hc. apply (F1 c Hc).
  - intros c Hc. apply (F1 c Hc).
  - rewrite Ers. apply post_order.
  - destruct (rules_last r t ords nm T None) as (fr & EL). rewrite <- Ers in EL.
    apply app_inj_tail in EL. destruct EL as [_ ->].
    pose proof (rooted_of_root _ _ _ _ (rr_rooted r t root T RV)) as Rt. rewrite Rt, Eroot.
    eexists. eexists. split; [reflexivity|]. pose proof (rr_valid r t root T RV) as Vt.
    assert (Hin : In root (rt_indices T)) by (rewrite <- Rt; apply root_in_indices).
    split; [now apply (rv_bags_nodup r t T Vt)|]. split; [intros x Hx; now apply (rv_bags_sub r t T Vt root)|].
    apply find_root_spec in FR. destruct FR as [_ S]. rewrite Nat.sub_0_r in S. now apply subset_incl.
Qed.
