(** Composition ("glue") for C02: carrier instances of the Kleene / enclosure theorems.
    The law records of the carriers ([sr_ring], [sr_ordered], [sr_star] of [bool_ops],
    [ereal_ops], [trop_ops]) are proved in Proofs/SemiringLaws.v (C08); here they are plugged
    into the theorems that kept them as explicit premises.  Nothing in this file has a law
    premise.  Each entry is a one-line instantiation; the statements are spelled out in
    Props/C02.v. *)
From Coq Require Import List Arith Bool PeanoNat Lia QArith.
Import ListNotations.
Require Import Fggs.Model.Semiring Fggs.Model.SCC Fggs.Model.SumProduct Fggs.Model.SumProductCheck
               Fggs.Model.EReal Fggs.Model.Trop Fggs.Model.Kleene.
Require Import Fggs.Proofs.BigSum Fggs.Proofs.SP_trees.
Require Import Fggs.Proofs.SP_mono Fggs.Proofs.Kleene_proofs Fggs.Proofs.Kleene_check Fggs.Proofs.Kleene_fixpoint
               Fggs.Proofs.Kleene_scc.
Require Fggs.Proofs.SemiringLaws.
Local Open Scope nat_scope.

Local Notation bR := SemiringLaws.bool_ring. Local Notation bO := SemiringLaws.bool_ordered. Local Notation bS := SemiringLaws.bool_star.
Local Notation eR := SemiringLaws.ereal_ring. Local Notation eO := SemiringLaws.ereal_ordered. Local Notation eS := SemiringLaws.ereal_star.
Local Notation tR := SemiringLaws.trop_ring. Local Notation tO := SemiringLaws.trop_ordered. Local Notation tS := SemiringLaws.trop_star.

(** * C02 *)
Definition trop_enclosure_exact := enclosure_trop_exact tR tO.
Definition real_enclosure_sound := enclosure_real_sound eR eO.
Definition trop_fp_check_sound gw ws meth kmax tol K warned obs :=
  fp_check_trop_sound gw ws meth kmax tol K warned obs tR tO.
Definition real_fp_check_sound gw ws meth kmax tol K warned obs :=
  fp_check_real_sound gw ws meth kmax tol K warned obs eR eO.

(** Kleene iterate = sum over the derivation trees of depth <= k, each listed once *)
Theorem kleene_is_bounded_depth {R} (o : sr_ops R) (Hr : sr_ring o) G w k X xi :
  is_term G X = false ->
  Zk o G w k X xi = SumProduct.sumS o (enum_trees G k X xi) (weight o G w)
  /\ NoDup (enum_trees G k X xi)
  /\ forall t, In t (enum_trees G k X xi) <-> wf_dtree G X xi t /\ depth t <= k.
Proof.
  intros HX. split; [exact (Zk_is_tree_sum o Hr G w k X xi HX)|].
  split; [apply enum_trees_NoDup|apply enum_trees_spec].
Qed.
Definition real_kleene_is_bounded_depth := @kleene_is_bounded_depth ereal ereal_ops eR.
Definition trop_kleene_is_bounded_depth := @kleene_is_bounded_depth trop trop_ops tR.
Definition bool_kleene_is_bounded_depth := @kleene_is_bounded_depth bool bool_ops bR.

(** a Kleene iterate that is a fixed point is the least fixed point; the loop of fixed_point *)
Definition real_Zk_fixed_is_least := @Zk_fixed_is_least ereal ereal_ops eR eO.
Definition trop_Zk_fixed_is_least := @Zk_fixed_is_least trop trop_ops tR tO.
Definition trop_fixed_point_quiet_is_lfp := @fixed_point_quiet_is_lfp trop trop_ops tR tO.
Definition real_fixed_point_result_below_prefix := @fixed_point_result_below_prefix ereal ereal_ops eR eO.
Definition trop_fixed_point_result_below_prefix := @fixed_point_result_below_prefix trop trop_ops tR tO.
Definition real_scc_decomposition := @scc_decomposition_all ereal ereal_ops eR eO.
Definition trop_scc_decomposition := @scc_decomposition_all trop trop_ops tR tO.
Definition bool_scc_decomposition := @scc_decomposition_all bool bool_ops bR bO.
