(** [minor_min_width] is a lower bound of the treewidth for EVERY graph:
    (1) contracting an edge does not increase the treewidth (rename v to u in every bag of an
        optimal tree decomposition; uses both halves of [tw_perm_is_treewidth]);
    (2) the minimum degree is at most the treewidth (first vertex of an optimal order);
    (3) the loop of [minor_min_width] takes the maximum of minimum degrees of successive
        contractions, and always terminates within its fuel. *)
From Coq Require Import List Arith Bool PeanoNat Lia Permutation Setoid Morphisms.
Import ListNotations.
Require Import Fggs.Model.TreeDec Fggs.Proofs.TreeDec_graph Fggs.Proofs.TreeDec_tdok
               Fggs.Proofs.TreeDec_elim Fggs.Proofs.TreeDec_qbb Fggs.Proofs.TreeDec_tw
               Fggs.Proofs.TreeDec_complete Fggs.Proofs.TreeDec_lower.

(** * contract_edge *)
Lemma contract_fold_eq u l g :
  fold_left (fun g vn => if vn =? u then g else add_edge g u vn) l g = mc_inner u l g.
Proof.
  unfold mc_inner. revert g. induction l as [|x l IH]; intro g; cbn [fold_left]; auto.
  rewrite (Nat.eqb_sym x u). apply IH.
Qed.
Lemma contract_edge_eq g u v : contract_edge g u v = remove_node (mc_inner u (nbrs g v) g) v.
Proof. unfold contract_edge. now rewrite contract_fold_eq. Qed.

Lemma gverts_contract g u v : gverts (contract_edge g u v) = set_remove v (gverts g).
Proof. rewrite contract_edge_eq, gverts_remove_node, gverts_mc_inner. reflexivity. Qed.

Lemma In_nbrs_contract g u v x y : wf_graph g -> In u (nbrs g v) ->
  (In y (nbrs (contract_edge g u v) x) <->
   x <> v /\ y <> v /\
   (In y (nbrs g x) \/ (x <> y /\ ((x = u /\ In y (nbrs g v)) \/ (y = u /\ In x (nbrs g v)))))).
Proof.
  intros W Hu. rewrite contract_edge_eq, In_nbrs_remove_node, !In_nbrs_mc_inner.
  pose proof (wf_irrefl g W v) as Hirr. pose proof (wf_sym g W) as Hsym. pose proof (wf_closed g W) as Hcl.
  assert (Huv : u <> v) by (intro; subst; auto).
  assert (Hku : In u (gverts g)) by (eapply Hcl; eauto).
  split.
  - intros [H1 [H2 H3]]. split; auto. split.
    + intro E. subst y. apply H3. split; auto. left.
      destruct H2 as [H2|[_ [_ [[_ H2]|[H2 _]]]]]; [auto|contradiction|congruence].
    + destruct H2 as [H2|[_ [H4 H5]]]; auto.
  - intros [H1 [H2 H3]]. split; auto. split.
    + destruct H3 as [H3|[H4 H5]]; auto. right. split; [|auto].
      destruct H5 as [[-> _]|[_ H5]]; auto. eapply nbrs_In_key. apply Hsym. exact H5.
    + intros [E _]. congruence.
Qed.

Lemma wf_contract g u v : wf_graph g -> In u (nbrs g v) -> wf_graph (contract_edge g u v).
Proof.
  intros W Hu. constructor.
  - rewrite gverts_contract. apply set_remove_NoDup, W.
  - intro x. rewrite contract_edge_eq. apply NoDup_nbrs_remove_node, NoDup_nbrs_mc_inner, W.
  - intros x H. apply In_nbrs_contract in H; auto. destruct H as [_ [_ [H|[H _]]]].
    + now apply (wf_irrefl g W x).
    + congruence.
  - intros x y H. apply In_nbrs_contract in H; auto. destruct H as [_ [Hy H]].
    rewrite gverts_contract, set_remove_In. split; auto.
    destruct H as [H|[_ [[_ H]|[-> _]]]]; eapply (wf_closed g W); eauto.
  - intros x y H. apply In_nbrs_contract in H; auto. apply In_nbrs_contract; auto.
    destruct H as [Hx [Hy H]]. split; auto. split; auto.
    destruct H as [H|[Hn H]].
    + left. now apply (wf_sym g W).
    + right. split; auto. tauto.
Qed.

Lemma length_contract g u v : NoDup (gverts g) -> In v (gverts g) ->
  S (length (contract_edge g u v)) = length g.
Proof.
  intros Hk Hv. rewrite <- (map_length fst (contract_edge g u v)), <- (map_length fst g).
  fold (gverts (contract_edge g u v)). fold (gverts g). rewrite gverts_contract.
  now apply set_remove_length.
Qed.

(** * renaming v to u in a tree decomposition *)
Definition rename_bag (u v : nat) (b : bag) : bag :=
  if mem v b then set_add u (set_remove v b) else b.

Lemma In_rename_bag u v b x :
  In x (rename_bag u v b) <-> (x <> v /\ In x b) \/ (x = u /\ In v b).
Proof.
  unfold rename_bag. destruct (mem v b) eqn:M.
  - apply mem_In in M. rewrite set_add_In, set_remove_In. tauto.
  - apply mem_nIn in M. split; [|tauto]. intro H. left. split; auto. intro; subst; auto.
Qed.
Lemma length_rename_bag u v b : NoDup b -> length (rename_bag u v b) <= length b.
Proof.
  intro Nd. unfold rename_bag. destruct (mem v b) eqn:M; auto. apply mem_In in M.
  pose proof (set_remove_length v b Nd M) as L. unfold set_add.
  destruct (mem u (set_remove v b)); [lia|]. rewrite ins_length. lia.
Qed.

Lemma contract_td g u v t : wf_graph g -> In u (nbrs g v) -> valid_td g t ->
  valid_td (contract_edge g u v) (map (rename_bag u v) (fst t), snd t) /\
  width (map (rename_bag u v) (fst t), snd t) <= width t.
Proof.
  intros W Hu V. destruct t as [bags es]. cbn [fst snd] in *.
  assert (Huv : u <> v) by (intro; subst; now apply (wf_irrefl g W v)).
  assert (Hku : In u (gverts g)) by (eapply (wf_closed g W); eauto).
  assert (Hh : forall x a, holds (map (rename_bag u v) bags, es) x a <-> (x <> v /\ holds (bags, es) x a) \/ (x = u /\ holds (bags, es) v a)).
  { intros x a. unfold holds. cbn [fst]. rewrite nth_error_map. split.
    - intros [b' [H1 H2]]. destruct (nth_error bags a) as [b|] eqn:E; [|discriminate].
      cbn in H1. inversion H1; subst b'. apply In_rename_bag in H2.
      destruct H2 as [[H2 H3]|[H2 H3]]; [left|right]; split; eauto.
    - intros [[Hx [b [H1 H2]]]|[Hx [b [H1 H2]]]]; exists (rename_bag u v b); rewrite H1;
        (split; [reflexivity|]); apply In_rename_bag; auto. }
  split.
  - constructor; cbn [fst snd].
    + rewrite map_length. exact (vt_tree g _ V).
    + intros b' Hb. apply in_map_iff in Hb. destruct Hb as [b [<- Hb]].
      pose proof (vt_nodup g _ V b Hb) as Nd. unfold rename_bag.
      destruct (mem v b); auto using set_add_NoDup, set_remove_NoDup.
    + intros b' x Hb Hx. apply in_map_iff in Hb. destruct Hb as [b [<- Hb]].
      rewrite gverts_contract, set_remove_In. apply In_rename_bag in Hx.
      destruct Hx as [[Hxv Hx]|[-> _]]; [|split; [exact Hku|exact Huv]].
      split; [exact (vt_sub g _ V b x Hb Hx)|exact Hxv].
    + intros x Hx. rewrite gverts_contract in Hx. apply set_remove_In in Hx. destruct Hx as [Hx Hxv].
      destruct (vt_vertex g _ V x Hx) as [b [Hb Hxb]]. exists (rename_bag u v b).
      split; [now apply in_map|]. apply In_rename_bag. auto.
    + intros x y Hxy. apply In_nbrs_contract in Hxy; auto. destruct Hxy as [Hxv [Hyv H]].
      assert (K : forall b, In b bags -> ((x <> v /\ In x b) \/ (x = u /\ In v b)) ->
                              ((y <> v /\ In y b) \/ (y = u /\ In v b)) ->
                  exists b', In b' (map (rename_bag u v) bags) /\ In x b' /\ In y b').
      { intros b Hb H1 H2. exists (rename_bag u v b). split; [now apply in_map|].
        split; now apply In_rename_bag. }
      destruct H as [H|[Hne [[-> H]|[-> H]]]].
      * destruct (vt_edge g _ V x y H) as [b [Hb [H1 H2]]]. apply (K b Hb); auto.
      * destruct (vt_edge g _ V v y H) as [b [Hb [H1 H2]]]. apply (K b Hb); auto.
      * destruct (vt_edge g _ V v x H) as [b [Hb [H1 H2]]]. apply (K b Hb); auto.
    + intros x a c Ha Hc.
      set (R' := fun p q => eadj es p q /\ holds (map (rename_bag u v) bags, es) x p /\ holds (map (rename_bag u v) bags, es) x q).
      destruct (Nat.eq_dec x u) as [->|Hxu].
      * (* the bags that contained u or v: two connected families sharing a bag *)
        destruct (vt_edge g _ V v u Hu) as [bm [Hbm [Hvm Hum]]].
        apply In_nth_error in Hbm. destruct Hbm as [m Hm].
        assert (Hmu : holds (bags, es) u m) by (exists bm; auto).
        assert (Hmv : holds (bags, es) v m) by (exists bm; auto).
        assert (Sym : forall p q, R' p q -> R' q p).
        { intros p q [H1 [H2 H3]]. split; [now apply eadj_sym|auto]. }
        assert (ToM : forall p, holds (map (rename_bag u v) bags, es) u p -> walk R' p m).
        { intros p Hp. apply Hh in Hp. destruct Hp as [[_ Hp]|[_ Hp]].
          - eapply walk_mono; [|exact (vt_run g _ V u p m Hp Hmu)].
            intros q r [H1 [H2 H3]]. split; auto. split; apply Hh; left; auto.
          - eapply walk_mono; [|exact (vt_run g _ V v p m Hp Hmv)].
            intros q r [H1 [H2 H3]]. split; auto. split; apply Hh; right; auto. }
        eapply walk_trans; [apply ToM; exact Ha|]. apply walk_sym; [exact Sym|]. apply ToM. exact Hc.
      * apply Hh in Ha, Hc.
        destruct Ha as [[Hxv Ha]|[E _]]; [|congruence]. destruct Hc as [[_ Hc]|[E _]]; [|congruence].
        eapply walk_mono; [|exact (vt_run g _ V x a c Ha Hc)].
        intros q r [H1 [H2 H3]]. split; auto. split; apply Hh; left; auto.
  - unfold width, max_bag. cbn [fst]. apply Nat.pred_le_mono.
    assert (Hn : forall b, In b bags -> NoDup b) by (intros b Hb; exact (vt_nodup g _ V b Hb)).
    clear - Hn. induction bags as [|b bags IH]; cbn; [lia|].
    pose proof (length_rename_bag u v b (Hn b (or_introl eq_refl))).
    specialize (IH (fun b0 H0 => Hn b0 (or_intror H0))). lia.
Qed.

Theorem tw_perm_contract g u v : wf_graph g -> In u (nbrs g v) ->
  tw_perm (contract_edge g u v) <= tw_perm g.
Proof.
  intros W Hu. destruct (tw_perm_decomposition g W) as [t [V Wd]].
  destruct (contract_td g u v t W Hu V) as [V' Le].
  pose proof (td_width_lower_bound _ _ (wf_contract g u v W Hu) V'). lia.
Qed.

(** * minimum degree *)
Lemma argmin_from_spec key l : forall b,
  let r := argmin_from key l b (key b) in
  key r <= key b /\ forall x, In x l -> key r <= key x.
Proof.
  induction l as [|x l IH]; intro b; cbn [argmin_from].
  - split; [lia|intros x []].
  - destruct (key x <? key b) eqn:E.
    + apply Nat.ltb_lt in E. destruct (IH x) as [H1 H2]. split; [lia|].
      intros y [<-|Hy]; auto.
    + apply Nat.ltb_ge in E. destruct (IH b) as [H1 H2]. split; auto.
      intros y [<-|Hy]; [lia|auto].
Qed.
Lemma argmin_spec key l v : argmin key l = Some v -> forall x, In x l -> key v <= key x.
Proof.
  destruct l as [|b l]; cbn [argmin]; intro H; [discriminate|]. inversion H; subst v.
  destruct (argmin_from_spec key l b) as [H1 H2]. intros x [<-|Hx]; auto.
Qed.

Lemma min_degree_le_tw g v : wf_graph g -> In v (gverts g) ->
  (forall x, In x (gverts g) -> deg g v <= deg g x) -> deg g v <= tw_perm g.
Proof.
  intros W Hv Hmin. destruct (tw_perm_attained g) as [o [P E]]. rewrite <- E.
  destruct o as [|x r].
  - apply Permutation_nil in P. rewrite P in Hv. destruct Hv.
  - cbn [elim_width]. assert (Hx : In x (gverts g)) by (eapply Permutation_in; [exact P|cbn; auto]).
    specialize (Hmin x Hx). lia.
Qed.

(** * minor_min_width *)
Lemma mmw_loop_bound fuel : forall g dmax r, wf_graph g ->
  mmw_loop fuel g dmax = Some r -> r <= Nat.max dmax (tw_perm g).
Proof.
  induction fuel as [|fuel IH]; intros g dmax r W H.
  - cbn [mmw_loop] in H. cbv zeta in H. destruct (argmin (deg g) (gverts g)) as [v|] eqn:A.
    + pose proof (argmin_In _ _ _ A) as Hv.
      pose proof (min_degree_le_tw g v W Hv (argmin_spec _ _ _ A)) as D.
      destruct (argmin (fun u => length (set_inter (nbrs g u) (nbrs g v))) (nbrs g v)); [discriminate|].
      inversion H; subst. lia.
    + inversion H; subst. lia.
  - cbn [mmw_loop] in H. cbv zeta in H. destruct (argmin (deg g) (gverts g)) as [v|] eqn:A.
    + pose proof (argmin_In _ _ _ A) as Hv.
      pose proof (min_degree_le_tw g v W Hv (argmin_spec _ _ _ A)) as D.
      destruct (argmin (fun u => length (set_inter (nbrs g u) (nbrs g v))) (nbrs g v)) as [u|] eqn:B.
      * pose proof (argmin_In _ _ _ B) as Hu.
        apply IH in H; [|now apply wf_contract].
        pose proof (tw_perm_contract g u v W Hu). lia.
      * inversion H; subst. lia.
    + inversion H; subst. lia.
Qed.

Lemma mmw_loop_total fuel : forall g dmax, wf_graph g -> length g <= fuel ->
  exists r, mmw_loop fuel g dmax = Some r.
Proof.
  induction fuel as [|fuel IH]; intros g dmax W L.
  - destruct g; [|cbn in L; lia]. cbn. eauto.
  - cbn [mmw_loop]. cbv zeta. destruct (argmin (deg g) (gverts g)) as [v|] eqn:A; [|eauto].
    pose proof (argmin_In _ _ _ A) as Hv.
    destruct (argmin (fun u => length (set_inter (nbrs g u) (nbrs g v))) (nbrs g v)) as [u|] eqn:B; [|eauto].
    pose proof (argmin_In _ _ _ B) as Hu.
    apply IH; [now apply wf_contract|].
    pose proof (length_contract g u v (wf_keys g W) Hv). lia.
Qed.

Theorem minor_min_width_lower_bound g : wf_graph g ->
  exists l, minor_min_width g = Some l /\ l <= tw_perm g.
Proof.
  intro W. destruct (mmw_loop_total (length g) g 0 W (le_n _)) as [l H].
  exists l. split; [exact H|]. pose proof (mmw_loop_bound _ _ _ _ W H). lia.
Qed.

(** the bracket, for every graph *)
Theorem bounds_bracket g : wf_graph g ->
  exists l u order, minor_min_width g = Some l /\ min_fill g = Some (u, order) /\
                    l <= tw_perm g /\ tw_perm g <= u.
Proof.
  intro W. destruct (minor_min_width_lower_bound g W) as [l [H1 H2]].
  destruct (min_fill_upper_bound g W) as [u [o [H3 H4]]]. exists l, u, o. auto.
Qed.
