(** C09 tier B -- PatternedTensor.solve denotes the least solution of x = A x + B.
    [A] and [B] are the dense tensors the (re-defaulted) arguments denote: [A] vanishes outside
    the pattern of [a] (row pattern [a0], column pattern [a1] over shared physical axes) and [B]
    outside the rows of the pattern [b0] of [b]'s first dimension (and outside the columns
    [cols]).  On the normal exit of the axis loop with solution axis [g], solving the system
    gathered along [g] and scattering the result back ([psolve_dense]) is, entry by entry, the
    dense solver's answer on the whole system ([psolve_denotes_least]) -- the least solution by
    C09_solve_model_least; on the [b.clone()] exit the least solution is [B] itself
    ([psolve_early_least]). *)
From Coq Require Import List Arith Lia PeanoNat Bool PArith.
Import ListNotations.
Require Import Fggs.Model.Semiring Fggs.Model.Axis Fggs.Model.AxisCheck Fggs.Model.PTensor Fggs.Model.Solve Fggs.Model.PSolve.
Require Import Fggs.Proofs.Axis_sem Fggs.Proofs.SolveElim Fggs.Proofs.SolveRefine.
Require Import Fggs.Proofs.PSolve_anti Fggs.Proofs.PSolve_step Fggs.Proofs.PSolve_sized Fggs.Proofs.PSolve_loop Fggs.Proofs.PSolve_oracle Fggs.Proofs.PSolve_dense.
Require Import Fggs.Proofs.Axis_complete_gen.

Section Main.
Context {S : Type} (o : sr_ops S).
Hypothesis Hring : sr_ring o.
Hypothesis Hord : sr_ordered o.
Hypothesis Hstar : sr_star o.
Variables (next : positive) (a0 a1 b0 : axis).
Hypothesis B0 : below next a0.
Hypothesis B1 : below next a1.
Hypothesis Bb : below next b0.
Hypothesis Dj : forall k, In k (fv b0) -> ~ In k (fv a0 ++ fv a1).
(** every physical axis has one size *)
Variable sz : positive -> nat.
Hypothesis S0 : szc sz a0.
Hypothesis S1 : szc sz a1.
Hypothesis Sb : szc sz b0.
Variables (n m : nat) (A B : mat S).
Hypothesis Nb : numel b0 = n.
(** [A] vanishes outside the pattern of [a] *)
Hypothesis HA : forall i j, i < n -> j < n ->
  (forall rho, inrange rho a0 -> inrange rho a1 -> eval rho a0 = i -> eval rho a1 = j -> False) ->
  get2 o A i j = Semiring.zero o.
(** [B] vanishes outside the rows of the pattern of [b] *)
Hypothesis HB : forall i c, i < n -> c < m -> ~ rng b0 i -> get2 o B i c = Semiring.zero o.

Theorem psolve_denotes_least fuel g ents i' cols :
  psolve_loop fuel a0 a1 b0 (mkLI 0 next false []) = LDone g ents i' ->
  li_warn i' = false ->
  NoDup cols -> (forall c, In c cols -> c < m) ->
  (forall i c, i < n -> c < m -> ~ In c cols -> get2 o B i c = Semiring.zero o) ->
  forall v w, v < n -> w < m ->
    get2 o (scatter2 (Semiring.zero o) n m (sup_rows g) cols
              (solve_model_mat o (length (sup_rows g)) (length cols)
                 (gather2 (Semiring.zero o) (sup_rows g) (sup_rows g) A) (gather2 (Semiring.zero o) (sup_rows g) cols B))) v w
    = get2 o (solve_model_mat o n m A B) v w.
Proof.
  intros H W NDc Cm HBc v w Hv Hw.
  destruct (psolve_loop_closed next a0 a1 b0 sz B0 B1 Bb Dj S0 S1 Sb fuel g ents i' H W) as [Sup Cl].
  destruct (psolve_loop_shape next a0 a1 b0 sz B0 B1 Bb Dj S0 S1 Sb fuel g ents i' H W) as [Ng Cg].
  apply (scatter_solve_gather o Hring Hord Hstar n m (sup_rows g) cols A B); try assumption.
  - exact (sup_rows_nodup g Cg).
  - intros r Hr. rewrite <- Nb, <- Ng. exact (sup_rows_bound g Cg r Hr).
  - intros i j Hi Hj Hni. apply HA; [exact Hi|rewrite <- Nb, <- Ng; exact (sup_rows_bound g Cg j Hj)|].
    intros rho R0 R1 E0 E1. apply Hni. apply (sup_rows_rng g Cg). apply Cl.
    exists rho. split; [exact R0|]. split; [exact R1|]. split; [|exact E0].
    rewrite E1. apply (sup_rows_rng g Cg). exact Hj.
  - intros i c Hi Hc Hni. apply HB; try assumption. intros Hb. apply Hni. apply (sup_rows_rng g Cg). apply Sup. exact Hb.
Qed.

(** the same, for the columns the model uses *)
Corollary psolve_dense_least fuel g ents i' ebs :
  psolve_loop fuel a0 a1 b0 (mkLI 0 next false []) = LDone g ents i' ->
  li_warn i' = false ->
  NoDup (sup_cols ebs) -> (forall c, In c (sup_cols ebs) -> c < m) ->
  (forall i c, i < n -> c < m -> ~ In c (sup_cols ebs) -> get2 o B i c = Semiring.zero o) ->
  forall v w, v < n -> w < m ->
    get2 o (psolve_dense o n m g ebs A B) v w = get2 o (solve_model_mat o n m A B) v w.
Proof. intros. unfold psolve_dense. cbv zeta. eapply psolve_denotes_least; eassumption. Qed.

(** hence the least solution, column by column *)
Corollary psolve_dense_least_spec fuel g ents i' ebs :
  psolve_loop fuel a0 a1 b0 (mkLI 0 next false []) = LDone g ents i' ->
  li_warn i' = false ->
  NoDup (sup_cols ebs) -> (forall c, In c (sup_cols ebs) -> c < m) ->
  (forall i c, i < n -> c < m -> ~ In c (sup_cols ebs) -> get2 o B i c = Semiring.zero o) ->
  forall w, w < m ->
    least_spec o n A (col o n B w) (fun v => if v <? n then get2 o (psolve_dense o n m g ebs A B) v w else Semiring.zero o).
Proof.
  intros H W NDc Cm HBc w Hw.
  pose proof (solve_model_least_spec o Hring Hord Hstar n A (col o n B w)) as [Hs Hl].
  assert (E : forall v, v < n -> (if v <? n then get2 o (psolve_dense o n m g ebs A B) v w else Semiring.zero o)
                               = get1 o (solve_model o n A (col o n B w)) v).
  { intros v Hv. destruct (Nat.ltb_spec v n); [|lia].
    rewrite (psolve_dense_least fuel g ents i' ebs H W NDc Cm HBc v w Hv Hw).
    apply solve_model_mat_col; assumption. }
  split.
  - intros v Hv. rewrite (E v Hv), (Hs v Hv). f_equal. unfold sum_n. f_equal. apply map_ext_in. intros j Hj.
    apply in_seq in Hj. rewrite (E j) by lia. reflexivity.
  - intros y Hy v Hv. rewrite (E v Hv). apply Hl; assumption.
Qed.

(** * the [b.clone()] exit *)
Theorem psolve_early_least fuel e' i' :
  psolve_loop fuel a0 a1 b0 (mkLI 0 next false []) = LEarly e' i' -> li_warn i' = false ->
  forall v w, v < n -> w < m -> get2 o (solve_model_mat o n m A B) v w = get2 o B v w.
Proof.
  intros H W v w Hv Hw.
  assert (Cb : forall k x x', In (k, x) (fvn b0) -> In (k, x') (fvn b0) -> x = x')
    by (intros k x x' H1 H2; rewrite (Sb k x H1), (Sb k x' H2); reflexivity).
  pose proof (psolve_loop_early next a0 a1 b0 sz B0 B1 Bb Dj S0 S1 Sb fuel e' i' H W) as Ds.
  rewrite (solve_model_mat_col o n m A B v w Hv Hw).
  rewrite (rhs_only_solve o Hring Hord Hstar n A (col o n B w)); [unfold col; rewrite get1_tab1 by exact Hv; reflexivity| |exact Hv].
  intros i j Hi Hj. destruct (in_dec Nat.eq_dec j (sup_rows b0)) as [Hin|Hout].
  - left. apply HA; try assumption. intros rho R0 R1 E0 E1.
    apply (Ds j); [apply (sup_rows_rng b0 Cb); exact Hin|]. exists rho. split; [exact R1|exact E1].
  - right. unfold col. rewrite get1_tab1 by exact Hj. apply HB; try assumption.
    intros Hb. apply Hout. apply (sup_rows_rng b0 Cb). exact Hb.
Qed.

End Main.

(** a vector right-hand side: one column *)
Corollary psolve_dense_least_vec {S : Type} (o : sr_ops S) :
  sr_ring o -> sr_ordered o -> sr_star o ->
  forall next a0 a1 b0, below next a0 -> below next a1 -> below next b0 ->
  (forall k, In k (fv b0) -> ~ In k (fv a0 ++ fv a1)) ->
  forall sz, szc sz a0 -> szc sz a1 -> szc sz b0 ->
  forall n (A B : mat S), numel b0 = n ->
  (forall i j, i < n -> j < n ->
     (forall rho, inrange rho a0 -> inrange rho a1 -> eval rho a0 = i -> eval rho a1 = j -> False) ->
     get2 o A i j = Semiring.zero o) ->
  (forall i c, i < n -> c < 1 -> ~ rng b0 i -> get2 o B i c = Semiring.zero o) ->
  forall fuel g ents i',
  psolve_loop fuel a0 a1 b0 (mkLI 0 next false []) = LDone g ents i' ->
  li_warn i' = false ->
  forall v, v < n ->
    get2 o (psolve_dense o n 1 g [] A B) v 0 = get1 o (solve_model o n A (col o n B 0)) v.
Proof.
  intros Hring Hord Hstar next a0 a1 b0 B0 B1 Bb Dj sz S0 S1 Sb n A B Nb HA HB fuel g ents i' H W v Hv.
  rewrite <- (solve_model_mat_col o n 1 A B v 0 Hv (le_n 1)).
  apply (psolve_dense_least o Hring Hord Hstar next a0 a1 b0 B0 B1 Bb Dj sz S0 S1 Sb n 1 A B Nb HA HB fuel g ents i' []); try assumption; try apply le_n.
  - change (sup_cols []) with [0]. constructor; [intros []|constructor].
  - change (sup_cols []) with [0]. intros c [<-|[]]. apply le_n.
  - change (sup_cols []) with [0]. intros i c _ Hc Hn. exfalso. apply Hn. left. lia.
Qed.
