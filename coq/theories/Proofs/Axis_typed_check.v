(** An executable checker [ty_b] for the typing judgement [ty] (Proofs/Axis_typed.v), its soundness,
    and a cross-check in the kernel: the universes of the bounded theorems
    [C06_unify_complete_upto12] / [_2d_upto6] (the Coq twin of the harness's typed generator, which
    shares a physical axis only between positions of the same index type) lie inside the domain of
    the unbounded theorem, fuel side condition included. *)
From Coq Require Import List Arith Lia PeanoNat Bool PArith.
Import ListNotations.
Require Import Fggs.Model.Axis Fggs.Model.AxisCheck Fggs.Model.AxisEnum.
Require Import Fggs.Proofs.Axis_sem Fggs.Proofs.Axis_unify Fggs.Proofs.Axis_complete_gen Fggs.Proofs.Axis_typed Fggs.Proofs.Axis_total.

(** * equality of index types *)
Definition ityl_eqb (l l' : list ity) : bool := list_eqb ity_eqb l l'.

Lemma ity_eqb_eq a : forall b, ity_eqb a b = true -> a = b.
Proof.
  induction a as [n|l IH|l IH] using ity_ind'; intros b H; destruct b as [m|l'|l']; simpl in H; try discriminate.
  - apply Nat.eqb_eq in H. congruence.
  - f_equal. revert l' H. induction l as [|x l IHl]; intros [|y l'] H; try discriminate; [reflexivity|].
    apply andb_true_iff in H. destruct H as [H1 H2]. inversion IH; subst. f_equal; [apply H3; exact H1|apply IHl; assumption].
  - f_equal. revert l' H. induction l as [|x l IHl]; intros [|y l'] H; try discriminate; [reflexivity|].
    apply andb_true_iff in H. destruct H as [H1 H2]. inversion IH; subst. f_equal; [apply H3; exact H1|apply IHl; assumption].
Qed.

Lemma ityl_eqb_eq l : forall l', ityl_eqb l l' = true -> l = l'.
Proof.
  unfold ityl_eqb. induction l as [|x l IH]; intros [|y l'] H; simpl in H; try discriminate; [reflexivity|].
  apply andb_true_iff in H. destruct H as [H1 H2]. f_equal; [apply ity_eqb_eq; exact H1|apply IH; exact H2].
Qed.

(** * the checker *)
Definition is_nil {A} (l : list A) : bool := match l with [] => true | _ => false end.

Fixpoint ty_b (G : ctx) (e : axis) (ps : list ity) {struct e} : bool :=
  match e with
  | Phys k n => negb (is_nil (G k)) && ityl_eqb (G k) ps && Nat.eqb n (tsizes ps)
  | Sum b t a =>
      match ps with
      | [TSum ts] =>
          (fix go (pre : nat) (ts : list ity) : bool :=
             match ts with
             | [] => false
             | tj :: ts' => (Nat.eqb b pre && Nat.eqb a (tsum ts') && ty_b G t (tprimes tj)) || go (pre + tsize tj) ts'
             end) 0 ts
      | _ => false
      end
  | Prod l =>
      negb (Nat.eqb (length l) 1) &&
      (fix go (l : list axis) (ps : list ity) : bool :=
         match l with
         | [] => is_nil ps
         | x :: l' =>
             negb (is_prod x) &&
             match x with
             | Phys k _ => let g := G k in ty_b G x g && ityl_eqb (firstn (length g) ps) g && go l' (skipn (length g) ps)
             | _ => match ps with p :: ps' => ty_b G x [p] && go l' ps' | [] => false end
             end
         end) l ps
  end.

Definition sum_go (G : ctx) (b a : nat) (t : axis) : nat -> list ity -> bool :=
  fix go (pre : nat) (ts : list ity) : bool :=
    match ts with
    | [] => false
    | tj :: ts' => (Nat.eqb b pre && Nat.eqb a (tsum ts') && ty_b G t (tprimes tj)) || go (pre + tsize tj) ts'
    end.

Definition prod_go (G : ctx) : list axis -> list ity -> bool :=
  fix go (l : list axis) (ps : list ity) : bool :=
    match l with
    | [] => is_nil ps
    | x :: l' =>
        negb (is_prod x) &&
        match x with
        | Phys k _ => let g := G k in ty_b G x g && ityl_eqb (firstn (length g) ps) g && go l' (skipn (length g) ps)
        | _ => match ps with p :: ps' => ty_b G x [p] && go l' ps' | [] => false end
        end
    end.

Lemma sum_go_spec G b a t : forall ts pre, sum_go G b a t pre ts = true ->
  exists pre_l tj post, ts = pre_l ++ tj :: post /\ b = pre + tsum pre_l /\ a = tsum post /\ ty_b G t (tprimes tj) = true.
Proof.
  induction ts as [|tj ts IH]; intros pre H; simpl in H; [discriminate|].
  apply orb_true_iff in H. destruct H as [H|H].
  - apply andb_true_iff in H. destruct H as [H H3]. apply andb_true_iff in H. destruct H as [H1 H2].
    apply Nat.eqb_eq in H1, H2. exists [], tj, ts. simpl. repeat split; auto. lia.
  - destruct (IH _ H) as (pre_l & tj' & post & -> & Hb & Ha & Ht). exists (tj :: pre_l), tj', post.
    split; [reflexivity|]. split; [rewrite tsum_cons; lia|]. split; assumption.
Qed.

Theorem ty_b_sound G e : forall ps, ty_b G e ps = true -> ty G e ps.
Proof.
  induction e as [k n|l IH|b t a IH] using axis_ind'; intros ps H.
  - simpl in H. apply andb_true_iff in H. destruct H as [H H3]. apply andb_true_iff in H. destruct H as [H1 H2].
    apply ityl_eqb_eq in H2. apply Nat.eqb_eq in H3. subst ps. constructor; [|exact H3].
    destruct (G k); [discriminate|discriminate].
  - change (negb (Nat.eqb (length l) 1) && prod_go G l ps = true) in H.
    apply andb_true_iff in H. destruct H as [HL H]. constructor.
    + apply negb_true_iff in HL. apply Nat.eqb_neq in HL. exact HL.
    + clear HL. revert ps H. induction l as [|x l IHl]; intros ps H.
      * simpl in H. destruct ps; [constructor|discriminate].
      * inversion IH as [|? ? Hx Hl]; subst. cbn [prod_go] in H. fold (prod_go G) in H.
        apply andb_true_iff in H. destruct H as [Np H]. apply negb_true_iff in Np.
        destruct x as [k n|l0|b t a].
        -- apply andb_true_iff in H. destruct H as [H H3]. apply andb_true_iff in H. destruct H as [H1 H2].
           apply ityl_eqb_eq in H2. rewrite <- (firstn_skipn (length (G k)) ps), H2.
           constructor; [exact Np|apply Hx; exact H1|apply IHl; assumption].
        -- discriminate.
        -- destruct ps as [|p ps']; [discriminate|]. apply andb_true_iff in H. destruct H as [H1 H2].
           change (p :: ps') with ([p] ++ ps'). constructor; [exact Np|apply Hx; exact H1|apply IHl; assumption].
  - simpl in H. destruct ps as [|[n|l0|ts] [|q ps]]; try discriminate.
    change (sum_go G b a t 0 ts = true) in H.
    destruct (sum_go_spec _ _ _ _ _ _ H) as (pre_l & tj & post & -> & Hb & Ha & Ht).
    constructor; [lia|exact Ha|apply IH; exact Ht].
Qed.

(** * contexts from the generator's pool *)
Definition ctx_of_pool (pl : pool) : ctx := fun k =>
  match find (fun tk : ity * pn => Pos.eqb (fst (snd tk)) k) pl with
  | Some tk => tprimes (fst tk)
  | None => []
  end.

Definition pool_ok (pl : pool) (nx : positive) : bool :=
  forallb (fun tk : ity * pn => tgood (fst tk) && Pos.ltb (fst (snd tk)) nx) pl.

Lemma pool_ok_ctx pl nx : pool_ok pl nx = true -> ctx_good (ctx_of_pool pl) /\ ctx_below (ctx_of_pool pl) nx.
Proof.
  unfold pool_ok. rewrite forallb_forall. intros H. split.
  - intros k. unfold ctx_of_pool. destruct (find _ pl) as [tk|] eqn:F; [|constructor].
    apply find_some in F. destruct F as [F _]. specialize (H _ F). apply andb_true_iff in H. apply tgood_primes. tauto.
  - intros k Hk. unfold ctx_of_pool. destruct (find _ pl) as [tk|] eqn:F; [|reflexivity]. exfalso.
    apply find_some in F. destruct F as [F1 F2]. apply Pos.eqb_eq in F2. specialize (H _ F1).
    apply andb_true_iff in H. destruct H as [_ H]. apply Pos.ltb_lt in H. lia.
Qed.

Definition gprimes_b (ps : list ity) : bool := forallb gprime ps.
Lemma gprimes_b_sound ps : gprimes_b ps = true -> gprimes ps.
Proof. unfold gprimes_b, gprimes. rewrite forallb_forall, Forall_forall. auto. Qed.

Fixpoint all2 {A B} (f : A -> B -> bool) (l : list A) (l' : list B) : bool :=
  match l, l' with
  | [], [] => true
  | x :: l, y :: l' => f x y && all2 f l l'
  | _, _ => false
  end.

(** everything the unbounded theorem asks of a pair of patterns, executable *)
Definition typed_pair_b (pl : pool) (nx : positive) (es fs : list axis) (pss : list (list ity)) : bool :=
  let G := ctx_of_pool pl in
  pool_ok pl nx &&
  all2 (ty_b G) es pss && all2 (ty_b G) fs pss &&
  forallb gprimes_b pss && forallb (fun ps => tyfuel ps <=? unify_fuel es fs) pss.

Lemma list_eqb_tys G es pss : all2 (ty_b G) es pss = true -> tys G es pss.
Proof.
  revert pss. induction es as [|e es IH]; intros [|ps pss] H; simpl in H; try discriminate; [constructor|].
  apply andb_true_iff in H. destruct H as [H1 H2]. constructor; [apply ty_b_sound; exact H1|apply IH; exact H2].
Qed.

Theorem typed_pair_b_sound pl nx es fs pss : typed_pair_b pl nx es fs pss = true ->
  let G := ctx_of_pool pl in
  ctx_good G /\ ctx_below G nx /\ tys G es pss /\ tys G fs pss /\ Forall gprimes pss /\
  Forall (fun ps => tyfuel ps <= unify_fuel es fs) pss.
Proof.
  unfold typed_pair_b. intros H. repeat (apply andb_true_iff in H; destruct H as [H ?]).
  destruct (pool_ok_ctx _ _ H) as [CG CB]. cbv zeta. split; [exact CG|]. split; [exact CB|].
  split; [apply list_eqb_tys; assumption|]. split; [apply list_eqb_tys; assumption|]. split.
  - apply Forall_forall. intros ps Hps. rewrite forallb_forall in H1. apply gprimes_b_sound. auto.
  - apply Forall_forall. intros ps Hps. rewrite forallb_forall in H0. apply Nat.leb_le. auto.
Qed.

(** * the universes of the bounded theorems are typed *)
Definition typed_universe1 (t : ity) : bool :=
  let fuel := S (tdepth t) in
  forallb (fun re => forallb (fun rf =>
      match re, rf with
      | (e, ple, _), (f, plf, _) => typed_pair_b (ple ++ plf) 100 [e] [f] [tprimes t]
      end) (enum_axes fuel t [] 50)) (enum_axes fuel t [] 1).

Lemma typed_universe_upto12_b : forallb typed_universe1 (types_upto 12) = true.
Proof. vm_compute. reflexivity. Qed.

(** [axes_of] forgets the pool *)
Theorem typed_universe_upto12 : forall t e f,
  In t (types_upto 12) -> In e (axes_of t 1) -> In f (axes_of t 50) ->
  exists G, ctx_good G /\ ctx_below G 100 /\ tys G [e] [tprimes t] /\ tys G [f] [tprimes t] /\
            Forall gprimes [tprimes t] /\ Forall (fun ps => tyfuel ps <= unify_fuel [e] [f]) [tprimes t].
Proof.
  intros t e f Ht He Hf. pose proof typed_universe_upto12_b as H. rewrite forallb_forall in H. specialize (H t Ht).
  unfold typed_universe1 in H. rewrite forallb_forall in H.
  unfold axes_of in He, Hf. apply in_map_iff in He, Hf. destruct He as ([[e' ple] nxe] & <- & He). destruct Hf as ([[f' plf] nxf] & <- & Hf).
  specialize (H _ He). rewrite forallb_forall in H. specialize (H _ Hf). cbn [fst] in *.
  exists (ctx_of_pool (ple ++ plf)). exact (typed_pair_b_sound _ _ _ _ _ H).
Qed.

(** two-dimensional patterns, variables shared between the dimensions (diagonals) *)
Definition patterns2p (t1 t2 : ity) (start : positive) : list (list axis * pool) :=
  let fuel := S (Nat.max (tdepth t1) (tdepth t2)) in
  flat_map (fun r1 => match r1 with (a1, pl, nx) =>
              map (fun r2 => ([a1; fst (fst r2)], snd (fst r2))) (enum_axes fuel t2 pl nx) end)
           (enum_axes fuel t1 [] start).

Definition typed_universe2 (tt : ity * ity) : bool :=
  let '(t1, t2) := tt in
  list_eqb (list_eqb axis_eqb) (map fst (patterns2p t1 t2 1)) (patterns2 t1 t2 1) &&
  list_eqb (list_eqb axis_eqb) (map fst (patterns2p t1 t2 50)) (patterns2 t1 t2 50) &&
  forallb (fun re => forallb (fun rf =>
      typed_pair_b (snd re ++ snd rf) 100 (fst re) (fst rf) [tprimes t1; tprimes t2])
    (patterns2p t1 t2 50)) (patterns2p t1 t2 1).

Lemma typed_universe_2d_upto6_b : forallb typed_universe2 (list_prod small_types small_types) = true.
Proof. vm_compute. reflexivity. Qed.

Example ty_b_ex :
  ty_b ex_ctx (Prod [Phys 1 2; Phys 2 15]) [TAtom 2; TAtom 3; TSum [TAtom 2; TAtom 3]] = true /\
  ty_b ex_ctx (Sum 0 (Phys 3 2) 3) [TSum [TAtom 2; TAtom 3]] = true /\
  ty_b ex_ctx (Prod [Phys 1 2]) [TAtom 2] = false /\
  ty_b ex_ctx (Phys 1 2) [TAtom 3] = false.
Proof. repeat split; reflexivity. Qed.
