(** C12: renumbering the node positions inside a rule (the order in which the nodes of a
    right-hand side were added) changes neither the value of the rule nor any Kleene iterate. *)
From Coq Require Import List Arith Bool PeanoNat Lia Permutation.
Import ListNotations.
Require Import Fggs.Model.Semiring Fggs.Model.SCC Fggs.Model.SumProduct.
Require Import Fggs.Proofs.BigSum Fggs.Proofs.SP_trees Fggs.Proofs.Presentation Fggs.Proofs.Presentation_perm.

(** [r'] is [r] with its nodes renumbered by the permutation [p]: the node at (old) position
    [i] of [r] sits at (new) position [nth i p] of [r'] (so its label is read there), and every
    attachment / external position is mapped through [pfun p] *)
Definition rule_nodes_perm (p : list nat) (r r' : rule) : Prop :=
  is_perm p /\ length p = length (r_nodes r')
  /\ r_lhs r' = r_lhs r
  /\ r_nodes r = sel (r_nodes r') p
  /\ r_edges r' = map (fun ed => (fst ed, map (pfun p) (snd ed))) (r_edges r)
  /\ r_ext r' = map (pfun p) (r_ext r).

(** the transform itself, as harness/gen.py [present] computes it: nodes2[p[old]] = nodes[old] *)
Definition permute_nodes (p : list nat) (r : rule) : rule :=
  {| r_lhs := r_lhs r;
     r_nodes := sel (r_nodes r) (pinv p);
     r_edges := map (fun ed => (fst ed, map (pfun p) (snd ed))) (r_edges r);
     r_ext := map (pfun p) (r_ext r) |}.

Lemma permute_nodes_rel p r :
  is_perm p -> length p = length (r_nodes r) -> rule_nodes_perm p r (permute_nodes p r).
Proof.
  intros H Hl. unfold rule_nodes_perm, permute_nodes. cbn [r_lhs r_nodes r_edges r_ext].
  split; trivial. split; [now rewrite sel_length, pinv_length|]. split; trivial.
  split; [symmetry; now apply sel_pinv_r|]. split; reflexivity.
Qed.

Lemma node_sizes_perm G p r r' : rule_nodes_perm p r r' -> node_sizes G r = sel (node_sizes G r') p.
Proof.
  intros (H & Hl & _ & Hn & _). unfold node_sizes. rewrite Hn. apply map_sel.
  intros i Hi. rewrite <- Hl. now apply (is_perm_In p i H).
Qed.

Section Nodes.
Context {R : Type} (o : sr_ops R) (Hring : sr_ring o).

Theorem rule_val_nodes_perm G G' (e e' : env (R:=R)) p r r' xi :
  g_doms G = g_doms G' -> (forall l idx, e l idx = e' l idx) -> rule_nodes_perm p r r' ->
  rule_val o G' e' r' xi = rule_val o G e r xi.
Proof.
  intros Hd He Hp. pose proof (node_sizes_perm G' p r r' Hp) as Hs.
  destruct Hp as (H & Hl & _ & _ & Hed & Hx).
  assert (Hs' : node_sizes G r = sel (node_sizes G' r') p).
  { rewrite <- Hs. unfold node_sizes, dom. now rewrite Hd. }
  unfold rule_val. rewrite !(sumS_filter o Hring). rewrite Hs'.
  assert (Hl' : length p = length (node_sizes G' r')) by (unfold node_sizes; now rewrite map_length).
  rewrite (sumS_all_assts_perm o Hring _ p _ H Hl').
  apply sumS_ext. intros a Ha. apply all_assts_length in Ha.
  rewrite Hx, Hed. rewrite sel_sel_perm by lia.
  destruct (nat_list_eqb (sel a (map (pfun p) (r_ext r))) xi); [|reflexivity].
  rewrite prodS_map. apply prodS_ext. intros ed _. cbn [fst snd].
  rewrite sel_sel_perm by lia. symmetry. apply He.
Qed.

(** grammars whose rules correspond one by one, each up to a renumbering of its nodes *)
Theorem Zk_nodes_perm G G' w k X xi :
  g_doms G = g_doms G' -> g_labels G = g_labels G' ->
  Forall2 (fun r r' => exists p, rule_nodes_perm p r r') (g_rules G) (g_rules G') ->
  Zk o G' w k X xi = Zk o G w k X xi.
Proof.
  intros Hd Hl HF.
  apply (Zk_sim o G G' (fun l => l) (fun _ idx => idx) (fun _ => True) (fun _ _ => True)); trivial.
  - intros l _. unfold is_term. now rewrite Hl.
  - eapply Forall2_mono; [|exact HF]. intros r r' (p & Hp). split; [exact I|].
    split; [apply Hp|]. intros e e' xi' He _. apply (rule_val_nodes_perm G G' e e' p); trivial.
    intros l idx. symmetry. now apply He.
Qed.
End Nodes.

(** example: the nodes of [ex_rule] renumbered by [2;0;1] (old node 0 becomes node 2, ...) *)
Example ex_rule_nodes : permute_nodes [2; 0; 1] ex_rule
  = {| r_lhs := 1; r_nodes := [1; 0; 0]; r_edges := [(0, [2; 0]); (2, [0; 1]); (0, [1; 0])]; r_ext := [1; 2] |}.
Proof. reflexivity. Qed.
Example ex_rule_nodes_perm : rule_nodes_perm [2; 0; 1] ex_rule (permute_nodes [2; 0; 1] ex_rule).
Proof. apply permute_nodes_rel; [exact ex_perm|reflexivity]. Qed.
