(** C14, weights, layer B (first half): what [json_to_weights] builds from a patterned
    specification, and the value / size / axes of the axes it builds ([productAxis] flattening,
    Python's negative indexing into the physical axes). *)
From Coq Require Import List Arith Bool PeanoNat ZArith Lia Permutation.
Import ListNotations.
Require Import Fggs.Model.Json Fggs.Proofs.Json_base Fggs.Proofs.Json_dense.
Local Open Scope nat_scope.

(** * induction principles *)
Fixpoint vspec_ind' (P : vspec -> Prop)
  (HI : forall z, P (VInt z)) (HL : forall l, Forall P l -> P (VList l))
  (HD : forall b t a, P t -> P (VDict b t a)) (v : vspec) : P v :=
  match v with
  | VInt z => HI z
  | VList l => HL l ((fix go (l : list vspec) : Forall P l :=
                        match l with
                        | [] => Forall_nil P
                        | x :: l' => Forall_cons x (vspec_ind' P HI HL HD x) (go l')
                        end) l)
  | VDict b t a => HD b t a (vspec_ind' P HI HL HD t)
  end.

Fixpoint tens_ind' (P : tens -> Prop)
  (HS : forall x, P (TS x)) (HL : forall l, Forall P l -> P (TL l)) (t : tens) : P t :=
  match t with
  | TS x => HS x
  | TL l => HL l ((fix go (l : list tens) : Forall P l :=
                     match l with
                     | [] => Forall_nil P
                     | x :: l' => Forall_cons x (tens_ind' P HS HL x) (go l')
                     end) l)
  end.

(** * tensors *)
Lemma parse_tens_list : forall l,
  (fix go (l : list json) : res (list tens) :=
     match l with
     | [] => Ok []
     | x :: l' => do t <- parse_tens x; do ts <- go l'; Ok (t :: ts)
     end) l = mapM parse_tens l.
Proof. induction l as [|x l IH]; [reflexivity|]. cbn [mapM]. now rewrite IH. Qed.

Lemma parse_tens_to_json : forall t, parse_tens (tens_to_json t) = Ok t.
Proof.
  induction t as [x|l IH] using tens_ind'; [reflexivity|].
  cbn [tens_to_json parse_tens]. rewrite parse_tens_list, mapM_map.
  rewrite (mapM_ok_map _ (fun t => t)).
  - now rewrite map_id.
  - intros t Ht. rewrite Forall_forall in IH. now apply IH.
Qed.

Lemma tens_shape_all_list : forall s l,
  (fix go (l : list tens) : bool :=
     match l with
     | [] => true
     | y :: l'' => match tens_shape y with Some s' => nats_eqb s s' | None => false end && go l''
     end) l = true <-> Forall (fun y => tens_shape y = Some s) l.
Proof.
  intros s. induction l as [|y l IH]; [split; [constructor|reflexivity]|].
  rewrite andb_true_iff, IH. split.
  - intros [H1 H2]. constructor; [|assumption]. destruct (tens_shape y) as [s'|]; [|discriminate].
    apply nats_eqb_eq in H1. now subst.
  - intro H. inversion H as [|? ? Hy Hl]; subst. split; [|assumption]. rewrite Hy. now apply nats_eqb_eq.
Qed.

(** a rectangular tensor has an entry at every index within its shape *)
Lemma tens_get_in_bounds : forall t sh q, tens_shape t = Some sh -> in_bounds q sh -> exists v, tens_get t q = Some v.
Proof.
  induction t as [x|l IH] using tens_ind'; intros sh q Hs Hq.
  - cbn in Hs. inversion Hs; subst. inversion Hq; subst. exists x. reflexivity.
  - destruct l as [|y l].
    + cbn in Hs. inversion Hs; subst sh. inversion Hq as [|i q' n sh' Hi Hq']; subst. exfalso; lia.
    + cbn [tens_shape] in Hs. destruct (tens_shape y) as [s|] eqn:Ey; [|discriminate].
      match type of Hs with (if ?c then _ else _) = _ => destruct c eqn:Hall; [|discriminate] end.
      inversion Hs; subst. apply tens_shape_all_list in Hall.
      inversion Hq as [|i q' n sh' Hi Hq']; subst. cbn [tens_get].
      destruct (nth_error (y :: l) i) as [t'|] eqn:Ei; [|apply nth_error_None in Ei; cbn in Ei; exfalso; lia].
      assert (tens_shape t' = Some s) as Ht'.
      { destruct i as [|i]; cbn in Ei; [inversion Ei; now subst|].
        apply nth_error_In in Ei. rewrite Forall_forall in Hall. now apply Hall. }
      rewrite Forall_forall in IH. apply (IH t' (nth_error_In _ _ Ei) s q' Ht' Hq').
Qed.

(** * axes from a specification *)
Fixpoint vs_to_axis (psh : list nat) (v : vspec) : axis :=
  match v with
  | VInt z => let k := vs_axis (length psh) z in APhys k (nth k psh 0)
  | VList l => product_axis (map (vs_to_axis psh) l)
  | VDict b t a => ASum b (vs_to_axis psh t) a
  end.

Definition paxes_of (psh : list nat) : list axis :=
  map (fun kn => APhys (fst kn) (snd kn)) (combine (seq 0 (length psh)) psh).

Lemma nth_error_paxes_gen : forall l s k, k < length l ->
  nth_error (map (fun kn => APhys (fst kn) (snd kn)) (combine (seq s (length l)) l)) k = Some (APhys (s + k) (nth k l 0)).
Proof.
  induction l as [|n l IH]; intros s k H; cbn in H; [lia|]. cbn [length seq combine map].
  destruct k as [|k]; cbn [nth_error nth].
  - now rewrite Nat.add_0_r.
  - rewrite IH by lia. do 2 f_equal. lia.
Qed.

Lemma nth_error_paxes : forall psh k, k < length psh -> nth_error (paxes_of psh) k = Some (APhys k (nth k psh 0)).
Proof. intros psh k H. unfold paxes_of. now rewrite nth_error_paxes_gen. Qed.

Lemma paxes_length : forall psh, length (paxes_of psh) = length psh.
Proof. intro psh. unfold paxes_of. rewrite map_length, combine_length, seq_length. lia. Qed.

Lemma vs_axis_lt : forall np z, ((- Z.of_nat np <=? z) && (z <? Z.of_nat np))%Z = true -> vs_axis np z < np.
Proof.
  intros np z H. apply andb_true_iff in H as [H1 H2]. apply Z.leb_le in H1. apply Z.ltb_lt in H2.
  unfold vs_axis. destruct (z <? 0)%Z eqn:E; [apply Z.ltb_lt in E|apply Z.ltb_ge in E]; lia.
Qed.

Lemma py_index_paxes : forall psh z, ((- Z.of_nat (length psh) <=? z) && (z <? Z.of_nat (length psh)))%Z = true ->
  py_index (paxes_of psh) (JInt z) = Ok (vs_to_axis psh (VInt z)).
Proof.
  intros psh z H. pose proof (vs_axis_lt _ _ H) as Hlt.
  apply andb_true_iff in H as [H1 H2]. apply Z.leb_le in H1. apply Z.ltb_lt in H2.
  unfold py_index. rewrite paxes_length. cbn [vs_to_axis]. unfold vs_axis in *.
  destruct (z <? 0)%Z eqn:E.
  - apply Z.ltb_lt in E. assert ((z + Z.of_nat (length psh) <? 0)%Z = false) as -> by (apply Z.ltb_ge; lia).
    now rewrite nth_error_paxes.
  - rewrite E. now rewrite nth_error_paxes.
Qed.

Lemma json_to_axis_list : forall env l,
  (fix go (l : list json) : res (list axis) :=
     match l with
     | [] => Ok []
     | x :: l' => do f <- json_to_axis env x; do fs <- go l'; Ok (f :: fs)
     end) l = mapM (json_to_axis env) l.
Proof. intros env. induction l as [|x l IH]; [reflexivity|]. cbn [mapM]. now rewrite IH. Qed.

Lemma as_nat_of_nat : forall n, as_nat (JInt (Z.of_nat n)) = Ok n.
Proof.
  intro n. unfold as_nat. assert ((Z.of_nat n <? 0)%Z = false) as -> by (apply Z.ltb_ge; lia).
  now rewrite Nat2Z.id.
Qed.

Lemma json_to_axis_vspec : forall psh v, vs_in_range (length psh) v = true ->
  json_to_axis (paxes_of psh) (vspec_to_json v) = Ok (vs_to_axis psh v).
Proof.
  intros psh. induction v as [z|l IH|b t a IH] using vspec_ind'; intro Hr.
  - cbn [vspec_to_json json_to_axis]. now apply py_index_paxes.
  - cbn [vspec_to_json json_to_axis vs_to_axis]. rewrite json_to_axis_list, mapM_map.
    rewrite (mapM_ok_map _ (vs_to_axis psh)); [reflexivity|].
    intros v Hv. rewrite Forall_forall in IH. apply IH; [assumption|].
    cbn in Hr. rewrite forallb_forall in Hr. now apply Hr.
  - cbn [vs_in_range] in Hr. specialize (IH Hr).
    change (json_to_axis (paxes_of psh) (vspec_to_json (VDict b t a)))
      with (do b' <- as_nat (JInt (Z.of_nat b));
            do t' <- json_to_axis (paxes_of psh) (vspec_to_json t);
            do a' <- as_nat (JInt (Z.of_nat a));
            Ok (ASum b' t' a')).
    rewrite !as_nat_of_nat, IH. reflexivity.
Qed.

(** * what [json_to_weights] builds *)
Definition spec_pt (s : wspec) : ptensor :=
  mkPT (ws_phys s) (length (ws_expand s)) (ws_pshape s) (map (vs_to_axis (ws_pshape s)) (ws_vaxes_eff s)) (ws_default s).

Lemma mapM_as_nat : forall ex, mapM as_nat (map (fun n => JInt (Z.of_nat n)) ex) = Ok ex.
Proof. induction ex as [|n ex IH]; [reflexivity|]. cbn [map mapM]. now rewrite as_nat_of_nat, IH. Qed.

Lemma vs_axis_nat : forall m k, vs_axis m (Z.of_nat k) = k.
Proof. intros m k. unfold vs_axis. assert ((Z.of_nat k <? 0)%Z = false) as -> by (apply Z.ltb_ge; lia). apply Nat2Z.id. Qed.

Lemma paxes_as_map : forall l s,
  map (fun kn => APhys (fst kn) (snd kn)) (combine (seq s (length l)) l) =
  map (fun k => APhys k (nth (k - s) l 0)) (seq s (length l)).
Proof.
  induction l as [|n l IH]; intro s; [reflexivity|]. cbn [length seq combine map fst snd].
  rewrite Nat.sub_diag. cbn [nth]. f_equal. rewrite IH. apply map_ext_in. intros k Hk. apply in_seq in Hk.
  replace (k - s) with (S (k - S s)) by lia. reflexivity.
Qed.

(** the physical axes, as the axes of the identity specification *)
Lemma paxes_identity : forall psh,
  paxes_of psh = map (vs_to_axis psh) (map (fun k => VInt (Z.of_nat k)) (seq 0 (length psh))).
Proof.
  intro psh. unfold paxes_of. rewrite (paxes_as_map psh 0), map_map. apply map_ext. intro k.
  cbn [vs_to_axis]. rewrite vs_axis_nat. now rewrite Nat.sub_0_r.
Qed.

Lemma expand_parse : forall ex,
  match Some (JList (map (fun n => JInt (Z.of_nat n)) ex)) with
  | None | Some JNull | Some (JList []) => Ok []
  | Some (JList l) => mapM as_nat l
  | Some _ => Err Unmodelled
  end = Ok ex.
Proof.
  intros [|n ex]; [reflexivity|]. cbn [map]. rewrite <- (mapM_as_nat (n :: ex)). reflexivity.
Qed.

Lemma json_to_weights_spec : forall s, wf_wspec s = true -> json_to_weights_model (wspec_to_json s) = Ok (spec_pt s).
Proof.
  intros s Hwf. unfold wf_wspec in Hwf. unfold spec_pt.
  assert (ws_pshape s = ws_expand s ++ match tens_shape (ws_phys s) with Some sh => sh | None => [] end) as Hps by reflexivity.
  destruct (tens_shape (ws_phys s)) as [shape|] eqn:Es; [|discriminate].
  apply andb_true_iff in Hwf as [Hr _]. rewrite forallb_forall in Hr.
  unfold wspec_to_json, ws_vaxes_eff in *. destruct (ws_vaxes s) as [l|] eqn:Ev.
  - change (json_to_weights_model _) with
      (do t <- parse_tens (tens_to_json (ws_phys s));
       do shape <- match tens_shape t with Some s => Ok s | None => Err ValueErr end;
       do ex <- match Some (JList (map (fun n => JInt (Z.of_nat n)) (ws_expand s))) with
                | None | Some JNull | Some (JList []) => Ok []
                | Some (JList l) => mapM as_nat l
                | Some _ => Err Unmodelled
                end;
       let pshape := ex ++ shape in
       let paxes := map (fun kn => APhys (fst kn) (snd kn)) (combine (seq 0 (length pshape)) pshape) in
       do vaxes <- (do lv <- jiter (JList (map vspec_to_json l)); mapM (json_to_axis paxes) lv);
       do default <- as_num (JNum (ws_default s));
       Ok (mkPT t (length ex) pshape vaxes default)).
    rewrite parse_tens_to_json. cbn [bind]. rewrite Es. cbn [bind]. rewrite expand_parse.
    cbn [bind jiter]. rewrite <- Hps. fold (paxes_of (ws_pshape s)).
    rewrite mapM_map, (mapM_ok_map _ (vs_to_axis (ws_pshape s))).
    + reflexivity.
    + intros v Hv. apply json_to_axis_vspec. now apply Hr.
  - change (json_to_weights_model _) with
      (do t <- parse_tens (tens_to_json (ws_phys s));
       do shape <- match tens_shape t with Some s => Ok s | None => Err ValueErr end;
       do ex <- match Some (JList (map (fun n => JInt (Z.of_nat n)) (ws_expand s))) with
                | None | Some JNull | Some (JList []) => Ok []
                | Some (JList l) => mapM as_nat l
                | Some _ => Err Unmodelled
                end;
       let pshape := ex ++ shape in
       let paxes := map (fun kn => APhys (fst kn) (snd kn)) (combine (seq 0 (length pshape)) pshape) in
       do vaxes <- Ok paxes;
       do default <- as_num (JNum (ws_default s));
       Ok (mkPT t (length ex) pshape vaxes default)).
    rewrite parse_tens_to_json. cbn [bind]. rewrite Es. cbn [bind]. rewrite expand_parse.
    cbn [bind]. rewrite <- Hps. fold (paxes_of (ws_pshape s)). now rewrite paxes_identity.
Qed.

(** * [productAxis] *)
Definition flat1 (f : axis) : list axis := match f with AProd l => l | _ => [f] end.

Definition prod_numel (fs : list axis) : nat := fold_right (fun g a => ax_numel g * a) 1 fs.
Definition radix (f : nat -> nat) (fs : list axis) (acc : nat) : nat :=
  fold_left (fun acc g => acc * ax_numel g + ax_eval f g) fs acc.

Lemma prod_numel_app : forall l1 l2, prod_numel (l1 ++ l2) = prod_numel l1 * prod_numel l2.
Proof. unfold prod_numel. induction l1 as [|g l1 IH]; intro l2; cbn; [lia|]. rewrite IH. lia. Qed.

Lemma radix_shift : forall f l acc, radix f l acc = acc * prod_numel l + radix f l 0.
Proof.
  intros f. unfold radix, prod_numel. induction l as [|g l IH]; intro acc; cbn; [lia|].
  rewrite IH. rewrite (IH (ax_eval f g)). lia.
Qed.

Lemma radix_app : forall f l1 l2 acc, radix f (l1 ++ l2) acc = radix f l2 (radix f l1 acc).
Proof. intros. unfold radix. apply fold_left_app. Qed.

Lemma flat_numel : forall fs, prod_numel (flat_map flat1 fs) = prod_numel fs.
Proof.
  induction fs as [|g fs IH]; [reflexivity|]. cbn [flat_map]. rewrite prod_numel_app, IH.
  destruct g; unfold prod_numel; cbn; lia.
Qed.

Lemma flat_radix : forall f fs acc, radix f (flat_map flat1 fs) acc = radix f fs acc.
Proof.
  intros f. induction fs as [|g fs IH]; intro acc; [reflexivity|]. cbn [flat_map]. rewrite radix_app, IH.
  destruct g as [k n|l|b t a]; try reflexivity.
  cbn [flat1]. unfold radix. cbn [fold_left ax_eval ax_numel]. f_equal. exact (radix_shift f l acc).
Qed.

Lemma product_axis_numel : forall fs, ax_numel (product_axis fs) = prod_numel fs.
Proof.
  intro fs. unfold product_axis. fold flat1. rewrite <- flat_numel.
  destruct (flat_map flat1 fs) as [|e [|e' es]]; try reflexivity. unfold prod_numel. cbn. lia.
Qed.

Lemma product_axis_eval : forall f fs, ax_eval f (product_axis fs) = radix f fs 0.
Proof.
  intros f fs. unfold product_axis. fold flat1. rewrite <- flat_radix.
  destruct (flat_map flat1 fs) as [|e [|e' es]]; reflexivity.
Qed.

Lemma flat1_ok : forall f fs, Forall (ax_ok f) fs -> Forall (ax_ok f) (flat_map flat1 fs).
Proof.
  intros f. induction fs as [|g fs IH]; intro H; [constructor|]. inversion H; subst. cbn [flat_map].
  apply Forall_app. split; [|now apply IH].
  destruct g; cbn [flat1]; try (constructor; [assumption|constructor]). now apply ax_ok_prod.
Qed.

Lemma product_axis_ok : forall f fs, Forall (ax_ok f) fs -> ax_ok f (product_axis fs).
Proof.
  intros f fs H. apply flat1_ok in H. unfold product_axis. fold flat1.
  destruct (flat_map flat1 fs) as [|e [|e' es]].
  - exact I.
  - now inversion H.
  - now apply ax_ok_prod.
Qed.

Lemma flat1_axes : forall fs k, In k (flat_map ax_axes (flat_map flat1 fs)) <-> In k (flat_map ax_axes fs).
Proof.
  induction fs as [|g fs IH]; intro k; [reflexivity|]. cbn [flat_map]. rewrite flat_map_app, !in_app_iff, IH.
  destruct g; cbn [flat1 flat_map ax_axes]; rewrite ?app_nil_r; tauto.
Qed.

Lemma product_axis_axes : forall fs k, In k (ax_axes (product_axis fs)) <-> In k (flat_map ax_axes fs).
Proof.
  intros fs k. rewrite <- flat1_axes. unfold product_axis. fold flat1.
  destruct (flat_map flat1 fs) as [|e [|e' es]]; cbn [ax_axes flat_map]; rewrite ?app_nil_r; tauto.
Qed.

(** * value, size and axes of the axes built from a specification *)
Fixpoint vs_eval (psh : list nat) (f : nat -> nat) (v : vspec) : nat :=
  match v with
  | VInt z => f (vs_axis (length psh) z)
  | VList l => fold_left (fun acc g => acc * vs_numel psh g + vs_eval psh f g) l 0
  | VDict b t _ => b + vs_eval psh f t
  end.

Lemma vs_to_axis_numel : forall psh v, ax_numel (vs_to_axis psh v) = vs_numel psh v.
Proof.
  intros psh. induction v as [z|l IH|b t a IH] using vspec_ind'.
  - reflexivity.
  - cbn [vs_to_axis vs_numel]. rewrite product_axis_numel. unfold prod_numel.
    induction l as [|g l IHl]; [reflexivity|]. inversion IH; subst. cbn. now rewrite H1, IHl.
  - cbn. now rewrite IH.
Qed.

Lemma vs_to_axis_eval : forall psh f v, ax_eval f (vs_to_axis psh v) = vs_eval psh f v.
Proof.
  intros psh f. induction v as [z|l IH|b t a IH] using vspec_ind'.
  - reflexivity.
  - cbn [vs_to_axis vs_eval]. rewrite product_axis_eval. unfold radix. generalize 0.
    induction l as [|g l IHl]; intro acc; [reflexivity|]. inversion IH; subst. cbn [map fold_left].
    rewrite H1, vs_to_axis_numel. now apply IHl.
  - cbn. now rewrite IH.
Qed.

Lemma vs_to_axis_axes : forall psh v k, In k (ax_axes (vs_to_axis psh v)) <-> In k (vs_axes (length psh) v).
Proof.
  intros psh. induction v as [z|l IH|b t a IH] using vspec_ind'; intro k.
  - reflexivity.
  - cbn [vs_to_axis vs_axes]. rewrite product_axis_axes.
    induction l as [|g l IHl]; [reflexivity|]. inversion IH; subst. cbn [map flat_map].
    rewrite !in_app_iff, H1, IHl; [reflexivity|assumption].
  - cbn. apply IH.
Qed.

(** physical coordinates within the sizes *)
Definition in_range (psh : list nat) (f : nat -> nat) : Prop := forall k, k < length psh -> f k < nth k psh 0.

Lemma in_bounds_nth : forall p sh, in_bounds p sh -> in_range sh (nthp p).
Proof.
  intros p sh H. unfold in_range, nthp. induction H as [|i idx n sh Hi _ IH]; intros k Hk; cbn in Hk; [lia|].
  destruct k as [|k]; cbn; [assumption|]. apply IH. lia.
Qed.

Lemma in_bounds_length : forall p sh, in_bounds p sh -> length p = length sh.
Proof. intros p sh H. induction H; cbn; [reflexivity|]. now f_equal. Qed.

Lemma vs_to_axis_ok : forall psh f v, in_range psh f -> vs_in_range (length psh) v = true -> ax_ok f (vs_to_axis psh v).
Proof.
  intros psh f v Hf. induction v as [z|l IH|b t a IH] using vspec_ind'; intro Hr.
  - cbn in *. apply Hf. now apply vs_axis_lt.
  - cbn [vs_to_axis]. apply product_axis_ok. cbn in Hr. rewrite forallb_forall in Hr.
    apply Forall_forall. intros e He. apply in_map_iff in He as [v [<- Hv]].
    rewrite Forall_forall in IH. apply IH; [assumption|now apply Hr].
  - cbn in *. now apply IH.
Qed.

Lemma vs_eval_lt : forall psh f v, in_range psh f -> vs_in_range (length psh) v = true ->
  vs_eval psh f v < vs_numel psh v.
Proof.
  intros psh f v Hf Hr. rewrite <- vs_to_axis_eval, <- vs_to_axis_numel. apply ax_eval_lt. now apply vs_to_axis_ok.
Qed.
