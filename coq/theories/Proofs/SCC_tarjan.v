(** C19: unbounded correctness of the Tarjan model [Model.SCC.scc] (which follows
    fggs/utils.py [scc] statement by statement).

    Direct invariant proof on the model's state, in the style of Chen, Cohen, Levy,
    Merz, Thery (ITP 2019) with a ghost list [G] of "gray" vertices (the call stack):
    - [inv G s]: the state invariant (visited = stack + emitted, stack sorted by index,
      emitted prefixes closed under successors, every stack vertex reaches all higher
      stack vertices and some gray vertex at or below it, emitted components strongly
      connected);
    - [post]: what [visit v] guarantees, including the characterisation of [lowlink v];
    - [linv]: the invariant of the inner successor loop.
    Induction on the fuel with an inner induction on the successor list. *)
From Coq Require Import List Arith Bool PeanoNat Lia Permutation.
Import ListNotations.
Require Import Fggs.Model.SCC Fggs.Proofs.SCC_checker.

(** * Layer 1: association-list maps *)
Lemma get_set_same m k v : get (set m k v) k = Some v.
Proof.
  induction m as [|[a b] m IH]; cbn [set get].
  - rewrite Nat.eqb_refl. reflexivity.
  - destruct (Nat.eqb a k) eqn:E; cbn [get]; rewrite E; [reflexivity | exact IH].
Qed.

Lemma get_set_other m k v x : x <> k -> get (set m k v) x = get m x.
Proof.
  intros Hx. induction m as [|[a b] m IH]; cbn [set get].
  - destruct (Nat.eqb k x) eqn:E; [apply Nat.eqb_eq in E; congruence | reflexivity].
  - destruct (Nat.eqb a k) eqn:E; cbn [get].
    + apply Nat.eqb_eq in E. subst a.
      destruct (Nat.eqb k x) eqn:E2; [apply Nat.eqb_eq in E2; congruence | reflexivity].
    + destruct (Nat.eqb a x); [reflexivity | exact IH].
Qed.

Lemma get_In m k : get m k <> None <-> In k (map fst m).
Proof.
  induction m as [|[a b] m IH]; cbn [get map fst In].
  - split; [congruence | intros []].
  - destruct (Nat.eqb a k) eqn:E.
    + apply Nat.eqb_eq in E. split; [intros _; left; exact E | congruence].
    + apply Nat.eqb_neq in E. rewrite IH.
      split; [intros H; right; exact H | intros [H|H]; [congruence | exact H]].
Qed.

Lemma set_new m k v : get m k = None -> set m k v = m ++ [(k, v)].
Proof.
  induction m as [|[a b] m IH]; cbn [get set app]; [reflexivity|].
  destruct (Nat.eqb a k); [discriminate|]. intros H. rewrite IH by exact H. reflexivity.
Qed.

(** * Layer 2: lists, stacks *)
Fixpoint ssorted (f : nat -> nat) (l : list nat) : Prop :=
  match l with [] => True | x :: l => (forall y, In y l -> f y < f x) /\ ssorted f l end.

Lemma ssorted_app f a b :
  ssorted f (a ++ b) -> ssorted f a /\ ssorted f b /\ forall x y, In x a -> In y b -> f y < f x.
Proof.
  induction a as [|x a IH]; cbn [app ssorted].
  - intros H. refine (conj I (conj H _)). intros x y [].
  - intros [H1 H2]. destruct (IH H2) as [Ha [Hb Hab]]. refine (conj (conj _ Ha) (conj Hb _)).
    + intros y Hy. apply H1. apply in_or_app. left; exact Hy.
    + intros x' y [Hx|Hx] Hy; [subst; apply H1; apply in_or_app; right; exact Hy | exact (Hab x' y Hx Hy)].
Qed.

Lemma ssorted_ext f f' l : (forall x, In x l -> f' x = f x) -> ssorted f l -> ssorted f' l.
Proof.
  induction l as [|x l IH]; cbn [ssorted]; [tauto|].
  intros He [H1 H2]. split.
  - intros y Hy. rewrite (He x (or_introl eq_refl)), (He y (or_intror Hy)). apply H1; exact Hy.
  - apply IH; [intros z Hz; apply He; right; exact Hz | exact H2].
Qed.

Lemma pop_until_split v s2 r : ~ In v s2 -> pop_until v (s2 ++ v :: r) = (s2 ++ [v], r).
Proof.
  induction s2 as [|w s2 IH]; intros Hn; cbn [app pop_until].
  - rewrite Nat.eqb_refl. reflexivity.
  - destruct (Nat.eqb w v) eqn:E; [apply Nat.eqb_eq in E; exfalso; apply Hn; left; exact E|].
    rewrite IH; [reflexivity | intros H; apply Hn; right; exact H].
Qed.

Lemma app_snoc_split (A : Type) (l l1 l2 : list A) c :
  l ++ [c] = l1 ++ l2 -> (l2 = [] /\ l1 = l ++ [c]) \/ exists l2', l2 = l2' ++ [c] /\ l = l1 ++ l2'.
Proof.
  induction l2 as [|d l2 _] using rev_ind; intros E.
  - left. rewrite app_nil_r in E. split; [reflexivity | symmetry; exact E].
  - right. rewrite app_assoc in E. apply app_inj_tail in E. destruct E as [E1 E2]. subst.
    exists l2. split; reflexivity.
Qed.

Lemma nodup_move (a b c : list nat) : NoDup ((a ++ b) ++ c) -> NoDup (b ++ c ++ a).
Proof.
  apply Permutation_NoDup. rewrite <- app_assoc. rewrite (app_assoc b c a). apply Permutation_app_comm.
Qed.

(** * Layer 3: the model, unfolded *)
Definition push (v : nat) (s : st) : st :=
  {| idx := S (idx s); indexof := set (indexof s) v (idx s); lowlink := set (lowlink s) v (idx s);
     stack := v :: stack s; comps := comps s |}.

Definition go_body (rec : nat -> st -> option st) (v : nat) : list nat -> st -> option st :=
  fix go (ws : list nat) (s : st) : option st :=
    match ws with
    | [] => Some s
    | w :: ws =>
      match get (indexof s) w with
      | None => match rec w s with
                | None => None
                | Some s' => go ws (set_low s' v (Nat.min (getd (lowlink s') v) (getd (lowlink s') w)))
                end
      | Some iw => if mem (stack s) w
                   then go ws (set_low s v (Nat.min (getd (lowlink s) v) iw))
                   else go ws s
      end
    end.

Definition finish (v : nat) (s : st) : option st :=
  if Nat.eqb (getd (lowlink s) v) (getd (indexof s) v)
  then let (c, r) := pop_until v (stack s) in
       Some {| idx := idx s; indexof := indexof s; lowlink := lowlink s; stack := r; comps := comps s ++ [c] |}
  else Some s.

Lemma visit_S fuel g v s :
  visit (S fuel) g v s =
  match go_body (visit fuel g) v (succs g v) (push v s) with None => None | Some s => finish v s end.
Proof. reflexivity. Qed.

Definition vis (s : st) (x : nat) : Prop := get (indexof s) x <> None.
Definition num (s : st) (x : nat) : nat := getd (indexof s) x.
Definition low (s : st) (x : nat) : nat := getd (lowlink s) x.
Definition frame_i (s s' : st) : Prop := forall x, vis s x -> get (indexof s') x = get (indexof s) x.
Definition frame_l (s s' : st) : Prop := forall x, vis s x -> get (lowlink s') x = get (lowlink s) x.

Lemma not_vis_None s x : ~ vis s x -> get (indexof s) x = None.
Proof. unfold vis. destruct (get (indexof s) x); [intros H; exfalso; apply H; discriminate | reflexivity]. Qed.

Lemma frame_i_vis s s' x : frame_i s s' -> vis s x -> vis s' x.
Proof. intros F H. unfold vis. rewrite (F x H). exact H. Qed.

Lemma frame_i_num s s' x : frame_i s s' -> vis s x -> num s' x = num s x.
Proof. intros F H. unfold num, getd. rewrite (F x H). reflexivity. Qed.

Lemma frame_l_low s s' x : frame_l s s' -> vis s x -> low s' x = low s x.
Proof. intros F H. unfold low, getd. rewrite (F x H). reflexivity. Qed.

Lemma frame_i_refl s : frame_i s s.
Proof. intros x _. reflexivity. Qed.
Lemma frame_l_refl s : frame_l s s.
Proof. intros x _. reflexivity. Qed.

Lemma frame_i_trans s1 s2 s3 : frame_i s1 s2 -> frame_i s2 s3 -> frame_i s1 s3.
Proof. intros F1 F2 x H. rewrite (F2 x (frame_i_vis _ _ _ F1 H)). apply F1. exact H. Qed.

Lemma frame_l_trans s1 s2 s3 : frame_i s1 s2 -> frame_l s1 s2 -> frame_l s2 s3 -> frame_l s1 s3.
Proof. intros Fi F1 F2 x H. rewrite (F2 x (frame_i_vis _ _ _ Fi H)). apply F1. exact H. Qed.

Lemma vis_push v s x : vis (push v s) x <-> x = v \/ vis s x.
Proof.
  unfold vis. cbn [push indexof]. destruct (Nat.eq_dec x v) as [E|E].
  - subst. rewrite get_set_same. split; [intros _; left; reflexivity | discriminate].
  - rewrite get_set_other by exact E. split; [intros H; right; exact H | intros [H|H]; [congruence | exact H]].
Qed.

Lemma num_push_same v s : num (push v s) v = idx s.
Proof. unfold num, getd. cbn [push indexof]. rewrite get_set_same. reflexivity. Qed.

Lemma num_push_other v s x : x <> v -> num (push v s) x = num s x.
Proof. intros E. unfold num, getd. cbn [push indexof]. rewrite get_set_other by exact E. reflexivity. Qed.

Lemma frame_i_push v s : ~ vis s v -> frame_i s (push v s).
Proof.
  intros Hw x Hx. cbn [push indexof]. apply get_set_other. intros E. subst. exact (Hw Hx).
Qed.

Lemma frame_l_push v s : ~ vis s v -> frame_l s (push v s).
Proof.
  intros Hw x Hx. cbn [push lowlink]. apply get_set_other. intros E. subst. exact (Hw Hx).
Qed.

(** * Layer 4: the state invariant *)
Section Tarjan.
Variable g : graph.
Hypothesis Hc : closed g = true.

Record inv (G : list nat) (s : st) : Prop := mk_inv {
  i_nd : NoDup (map fst (indexof s));
  i_len : length (indexof s) = idx s;
  i_vs : incl (map fst (indexof s)) (verts g);
  i_lt : forall x i, get (indexof s) x = Some i -> i < idx s;
  i_part : forall x, vis s x <-> In x (stack s) \/ In x (concat (comps s));
  i_pnd : NoDup (stack s ++ concat (comps s));
  i_sorted : ssorted (num s) (stack s);
  i_gray : incl G (stack s);
  i_bnw : forall x w, vis s x -> ~ In x G -> In w (succs g x) -> vis s w;
  i_closed : forall l1 l2, comps s = l1 ++ l2 -> succ_closed g (concat l1);
  i_up : forall x y, In x (stack s) -> In y (stack s) -> num s x <= num s y -> path g x y;
  i_down : forall y, In y (stack s) -> exists z, In z G /\ num s z <= num s y /\ path g y z;
  i_sc : forall c, In c (comps s) -> c <> [] /\ forall u v, In u c -> In v c -> path g u v
}.

Lemma inv_stack_vis G s x : inv G s -> In x (stack s) -> vis s x.
Proof. intros H Hx. apply (i_part _ _ H). left; exact Hx. Qed.

Lemma inv_num_lt G s x : inv G s -> vis s x -> num s x < idx s.
Proof.
  intros H Hx. unfold num, getd. unfold vis in Hx.
  destruct (get (indexof s) x) as [i|] eqn:E; [|congruence]. exact (i_lt _ _ H x i E).
Qed.

Lemma inv_init : inv [] init_st.
Proof.
  constructor; cbn [init_st indexof idx stack comps map length concat app].
  - constructor.
  - reflexivity.
  - intros x [].
  - intros x i H. discriminate.
  - intros x. unfold vis. cbn. split; [congruence | intros [[]|[]]].
  - constructor.
  - exact I.
  - intros x [].
  - intros x w H. exfalso. apply H. reflexivity.
  - intros l1 l2 E. destruct l1; [|discriminate]. intros x w [].
  - intros x y [].
  - intros y [].
  - intros c [].
Qed.

Lemma inv_set_low G s v x : inv G s -> inv G (set_low s v x).
Proof. intros H. destruct H. constructor; assumption. Qed.

Lemma inv_push G s v :
  inv G s -> ~ vis s v -> In v (verts g) -> (forall x, In x G -> path g x v) ->
  inv (v :: G) (push v s).
Proof.
  intros H Hw Hv Hp.
  pose proof (not_vis_None _ _ Hw) as Hget.
  assert (Hne : forall x, vis s x -> x <> v) by (intros x Hx E; subst; exact (Hw Hx)).
  destruct H as [nd len vs lt part pnd sorted gray bnw closed up down sc].
  assert (Hsv : forall x, In x (stack s) -> vis s x) by (intros x Hx; apply part; left; exact Hx).
  assert (Hlt : forall x, vis s x -> num s x < idx s).
  { intros x Hx. unfold num, getd. unfold vis in Hx.
    destruct (get (indexof s) x) as [i|] eqn:E; [|congruence]. exact (lt x i E). }
  constructor.
  - cbn [push indexof]. rewrite set_new by exact Hget. rewrite map_app. cbn [map fst].
    apply NoDup_app_iff. refine (conj nd (conj _ _)).
    + constructor; [intros [] | constructor].
    + intros x Hx [E|[]]. subst. apply Hw. apply get_In. exact Hx.
  - cbn [push indexof idx]. rewrite set_new by exact Hget. rewrite app_length. cbn [length]. lia.
  - cbn [push indexof]. rewrite set_new by exact Hget. rewrite map_app. cbn [map fst].
    intros x Hx. apply in_app_or in Hx. destruct Hx as [Hx|[Hx|[]]]; [apply vs; exact Hx | subst; exact Hv].
  - intros x i Hg. cbn [push indexof idx] in *. destruct (Nat.eq_dec x v) as [E|E].
    + subst. rewrite get_set_same in Hg. injection Hg as Hg. lia.
    + rewrite get_set_other in Hg by exact E. apply lt in Hg. lia.
  - intros x. rewrite vis_push. cbn [push stack comps In]. rewrite part.
    split; [intros [H|[H|H]]; [left; left; symmetry; exact H | left; right; exact H | right; exact H]
           | intros [[H|H]|H]; [left; symmetry; exact H | right; left; exact H | right; right; exact H]].
  - cbn [push stack comps app]. constructor; [|exact pnd].
    intros Hi. apply Hw. apply part. apply in_app_or in Hi. exact Hi.
  - cbn [push stack comps ssorted]. fold (push v s). split.
    + intros y Hy. rewrite num_push_same, num_push_other by (apply Hne, Hsv, Hy). apply Hlt, Hsv, Hy.
    + eapply ssorted_ext; [|exact sorted]. intros x Hx. apply num_push_other. apply Hne, Hsv, Hx.
  - cbn [push stack]. intros x [E|Hx]; [left; exact E | right; apply gray; exact Hx].
  - intros x w Hx Hn Hs. apply vis_push in Hx. destruct Hx as [E|Hx]; [exfalso; apply Hn; left; symmetry; exact E|].
    apply vis_push. right. apply (bnw x w Hx); [|exact Hs]. intros Hi; apply Hn; right; exact Hi.
  - exact closed.
  - intros x y Hx Hy Hle. cbn [push stack] in Hx, Hy. fold (push v s) in Hle. destruct Hy as [Ey|Hy].
    + subst y. destruct Hx as [Ex|Hx]; [subst; apply path_refl|].
      destruct (down x Hx) as [z [Hz [_ Hpz]]]. eapply path_trans; [exact Hpz | apply Hp; exact Hz].
    + destruct Hx as [Ex|Hx].
      * subst x. exfalso. rewrite num_push_same, num_push_other in Hle by (apply Hne, Hsv, Hy).
        pose proof (Hlt y (Hsv y Hy)). lia.
      * rewrite !num_push_other in Hle by (apply Hne, Hsv; assumption). apply up; assumption.
  - intros y Hy. cbn [push stack] in Hy. fold (push v s). destruct Hy as [Ey|Hy].
    + subst y. exists v. split; [left; reflexivity | split; [lia | apply path_refl]].
    + destruct (down y Hy) as [z [Hz [Hle Hpz]]]. exists z. split; [right; exact Hz|].
      split; [|exact Hpz].
      rewrite !num_push_other; [exact Hle | apply Hne, Hsv, Hy | apply Hne, Hsv, gray, Hz].
  - exact sc.
Qed.

(** a white vertex leaves room: fewer than [length g] vertices are visited *)
Lemma inv_white_room G s v : inv G s -> ~ vis s v -> In v (verts g) -> idx s < length g.
Proof.
  intros H Hw Hv.
  assert (Hn : NoDup (v :: map fst (indexof s))).
  { constructor; [|exact (i_nd _ _ H)]. intros Hi. apply Hw. apply get_In. exact Hi. }
  assert (Hi : incl (v :: map fst (indexof s)) (verts g)).
  { intros x [E|Hx]; [subst; exact Hv | exact (i_vs _ _ H x Hx)]. }
  pose proof (NoDup_incl_length Hn Hi) as Hl. cbn [length] in Hl.
  rewrite map_length, (i_len _ _ H) in Hl. unfold verts in Hl. rewrite map_length in Hl. lia.
Qed.

(** * Layer 5: specification of [visit] and of its successor loop *)
Definition post (G : list nat) (v : nat) (s s' : st) : Prop :=
  inv G s' /\ frame_i s s' /\ frame_l s s' /\ idx s < idx s' /\ vis s' v /\ num s' v = idx s /\
  (exists s2, stack s' = s2 ++ stack s /\
     forall y w, In y s2 -> In w (succs g y) -> In w (stack s) -> low s' v <= num s' w) /\
  (low s' v = num s' v \/ exists y, In y (stack s') /\ num s' y = low s' v /\ path g v y).

Definition visit_ok (fuel : nat) : Prop :=
  forall v s G, inv G s -> ~ vis s v -> In v (verts g) -> (forall x, In x G -> path g x v) ->
    length g < fuel + idx s -> exists s', visit fuel g v s = Some s' /\ post G v s s'.

Lemma go_body_cons rec v w ws s :
  go_body rec v (w :: ws) s =
  match get (indexof s) w with
  | None => match rec w s with
            | None => None
            | Some s' => go_body rec v ws (set_low s' v (Nat.min (getd (lowlink s') v) (getd (lowlink s') w)))
            end
  | Some iw => if mem (stack s) w
               then go_body rec v ws (set_low s v (Nat.min (getd (lowlink s) v) iw))
               else go_body rec v ws s
  end.
Proof. reflexivity. Qed.

Lemma low_set_low_same s v x : low (set_low s v x) v = x.
Proof. unfold low, getd. cbn [set_low lowlink]. rewrite get_set_same. reflexivity. Qed.

Lemma num_set_low s v x w : num (set_low s v x) w = num s w.
Proof. reflexivity. Qed.

Lemma low_push_same v s : low (push v s) v = idx s.
Proof. unfold low, getd. cbn [push lowlink]. rewrite get_set_same. reflexivity. Qed.

Definition ctx (G0 : list nat) (v : nat) (s0 : st) : Prop :=
  inv G0 s0 /\ ~ vis s0 v /\ In v (verts g) /\ (forall x, In x G0 -> path g x v).

Section Loop.
Variables (G0 : list nat) (v : nat) (s0 : st).
Hypothesis Hctx : ctx G0 v s0.

(** invariant of the loop over [succs g v]; [done] = the successors already processed *)
Definition linv (done : list nat) (s : st) : Prop :=
  inv (v :: G0) s /\ frame_i (push v s0) s /\ frame_l s0 s /\ idx s0 < idx s /\
  (exists s2, stack s = s2 ++ v :: stack s0 /\
     forall y w, In y s2 -> In w (succs g y) -> In w (stack s0) -> low s v <= num s w) /\
  (forall w, In w done -> vis s w /\ (In w (stack s0) -> low s v <= num s w)) /\
  low s v <= num s v /\
  (exists y, In y (stack s) /\ num s y = low s v /\ path g v y).

Lemma linv_facts done s : linv done s ->
  vis s v /\ num s v = idx s0 /\ (forall x, vis s0 x -> vis s x /\ num s x = num s0 x)
  /\ (forall x, In x (stack s0) -> In x (stack s)).
Proof.
  destruct Hctx as (H0 & Hw & Hv & Hp).
  intros (Hi & Fi & Fl & Hidx & (s2 & Hst & Hx) & Hd & Hle & Hwit).
  assert (Hpv : vis (push v s0) v) by (apply vis_push; left; reflexivity).
  split; [exact (frame_i_vis _ _ _ Fi Hpv)|].
  split; [rewrite (frame_i_num _ _ _ Fi Hpv); apply num_push_same|].
  split.
  - intros x Hx0. assert (Hpx : vis (push v s0) x) by (apply vis_push; right; exact Hx0).
    split; [exact (frame_i_vis _ _ _ Fi Hpx)|].
    rewrite (frame_i_num _ _ _ Fi Hpx). apply num_push_other. intros E; subst; exact (Hw Hx0).
  - intros x Hx0. rewrite Hst. apply in_or_app. right; right; exact Hx0.
Qed.

Lemma linv_init : linv [] (push v s0).
Proof.
  destruct Hctx as (H0 & Hw & Hv & Hp). unfold linv.
  refine (conj (inv_push _ _ _ H0 Hw Hv Hp) (conj (frame_i_refl _) (conj (frame_l_push _ _ Hw)
         (conj _ (conj _ (conj _ (conj _ _))))))).
  - cbn [push idx]. lia.
  - exists []. split; [reflexivity | intros y w []].
  - intros w [].
  - rewrite low_push_same, num_push_same. lia.
  - exists v. split; [left; reflexivity | split; [rewrite low_push_same, num_push_same; reflexivity | apply path_refl]].
Qed.

Lemma linv_lower done s w L' :
  linv done s -> L' <= low s v ->
  (exists y, In y (stack s) /\ num s y = L' /\ path g v y) ->
  vis s w -> (In w (stack s0) -> L' <= num s w) ->
  linv (done ++ [w]) (set_low s v L').
Proof.
  destruct Hctx as (H0 & Hw & Hv & Hp).
  intros (Hi & Fi & Fl & Hidx & (s2 & Hst & Hx) & Hd & Hle & Hwit) HL Hwit' Hvw Hnw.
  unfold linv. rewrite low_set_low_same.
  refine (conj (inv_set_low _ _ _ _ Hi) (conj Fi (conj _ (conj Hidx (conj _ (conj _ (conj _ Hwit'))))))).
  - intros x Hx'. cbn [set_low lowlink].
    rewrite get_set_other; [apply Fl; exact Hx' | intros E; subst; exact (Hw Hx')].
  - exists s2. split; [exact Hst|]. intros y w' Hy Hs Hin. rewrite num_set_low.
    specialize (Hx y w' Hy Hs Hin). lia.
  - intros w' Hw'. rewrite num_set_low. apply in_app_or in Hw'. destruct Hw' as [Hw'|[E|[]]].
    + destruct (Hd w' Hw') as [A B]. split; [exact A | intros Hin; specialize (B Hin); lia].
    + subst w'. split; [exact Hvw | exact Hnw].
  - rewrite num_set_low. lia.
Qed.

Lemma linv_skip done s w : linv done s -> vis s w -> ~ In w (stack s0) -> linv (done ++ [w]) s.
Proof.
  intros (Hi & Fi & Fl & Hidx & Hs2 & Hd & Hle & Hwit) Hvw Hn.
  refine (conj Hi (conj Fi (conj Fl (conj Hidx (conj Hs2 (conj _ (conj Hle Hwit))))))).
  intros w' Hw'. apply in_app_or in Hw'. destruct Hw' as [Hw'|[E|[]]]; [exact (Hd w' Hw')|].
  subst w'. split; [exact Hvw | intros Hin; exfalso; exact (Hn Hin)].
Qed.

Lemma linv_call done s w s' :
  linv done s -> ~ vis s w -> In w (succs g v) -> post (v :: G0) w s s' ->
  linv (done ++ [w]) (set_low s' v (Nat.min (low s' v) (low s' w))).
Proof.
  intros Hl Hnw Hws (Hi' & Fi' & Fl' & Hidx' & Hvw & Hnumw & (s2' & Hst' & Hx') & Hlw).
  destruct (linv_facts _ _ Hl) as (Hvs & Hnv & Hold & Hsub).
  destruct Hctx as (H0 & Hw & Hv & Hp).
  destruct Hl as (Hi & Fi & Fl & Hidx & (s2 & Hst & Hx) & Hd & Hle & Hwit).
  pose proof (frame_l_low _ _ _ Fl' Hvs) as Elow.
  pose proof (frame_i_num _ _ _ Fi' Hvs) as Enum.
  pose proof (inv_num_lt _ _ _ Hi Hvs) as Hlt.
  remember (Nat.min (low s' v) (low s' w)) as L' eqn:EL.
  unfold linv. rewrite low_set_low_same.
  refine (conj (inv_set_low _ _ _ _ Hi') (conj (frame_i_trans _ _ _ Fi Fi')
         (conj _ (conj _ (conj _ (conj _ (conj _ _))))))).
  - intros x Hx0. cbn [set_low lowlink].
    rewrite get_set_other by (intros E; subst; exact (Hw Hx0)).
    rewrite (Fl' x (proj1 (Hold x Hx0))). apply Fl. exact Hx0.
  - cbn [set_low idx]. lia.
  - exists (s2' ++ s2). split; [cbn [set_low stack]; rewrite Hst', Hst, app_assoc; reflexivity|].
    intros y w' Hy Hs Hin. rewrite num_set_low. apply in_app_or in Hy. destruct Hy as [Hy|Hy].
    + specialize (Hx' y w' Hy Hs (Hsub w' Hin)). lia.
    + specialize (Hx y w' Hy Hs Hin).
      rewrite (frame_i_num _ _ _ Fi' (inv_stack_vis _ _ _ Hi (Hsub w' Hin))). lia.
  - intros w' Hw'. rewrite num_set_low. apply in_app_or in Hw'. destruct Hw' as [Hw'|[E|[]]].
    + destruct (Hd w' Hw') as [A B]. split; [exact (frame_i_vis _ _ _ Fi' A)|].
      intros Hin. specialize (B Hin). rewrite (frame_i_num _ _ _ Fi' A). lia.
    + subst w'. split; [exact Hvw|]. intros Hin. exfalso. apply Hnw.
      exact (proj1 (Hold w (inv_stack_vis _ _ _ H0 Hin))).
  - rewrite num_set_low. lia.
  - cbn [set_low stack].
    destruct (le_lt_dec (low s' v) (low s' w)) as [Hcmp|Hcmp].
    + destruct Hwit as [y [Hy [Hny Hpy]]]. exists y.
      split; [rewrite Hst'; apply in_or_app; right; exact Hy|].
      split; [|exact Hpy]. rewrite num_set_low.
      rewrite (frame_i_num _ _ _ Fi' (inv_stack_vis _ _ _ Hi Hy)). lia.
    + destruct Hlw as [Hlw|[y [Hy [Hny Hpy]]]]; [exfalso; lia|].
      exists y. split; [exact Hy|]. split; [rewrite num_set_low; lia | eapply path_step; eauto].
Qed.

Lemma go_ok fuel :
  visit_ok fuel -> length g < S fuel + idx s0 ->
  forall ws done s, succs g v = done ++ ws -> linv done s ->
    exists s', go_body (visit fuel g) v ws s = Some s' /\ linv (succs g v) s'.
Proof.
  intros IHf Hfuel. induction ws as [|w ws IH]; intros done s Hsplit Hl.
  - exists s. split; [reflexivity|]. rewrite app_nil_r in Hsplit. rewrite Hsplit. exact Hl.
  - rewrite go_body_cons.
    assert (Hws : In w (succs g v)) by (rewrite Hsplit; apply in_or_app; right; left; reflexivity).
    assert (Hsplit' : succs g v = (done ++ [w]) ++ ws) by (rewrite <- app_assoc; exact Hsplit).
    destruct (linv_facts _ _ Hl) as (Hvs & Hnv & Hold & Hsub).
    pose proof Hl as (Hi & Fi & Fl & Hidx & (s2 & Hst & Hx) & Hd & Hle & Hwit).
    destruct (get (indexof s) w) as [iw|] eqn:Ew.
    + assert (Hvw : vis s w) by (unfold vis; rewrite Ew; discriminate).
      assert (Hnw : num s w = iw) by (unfold num, getd; rewrite Ew; reflexivity).
      destruct (mem (stack s) w) eqn:Em.
      * apply mem_In in Em. apply (IH (done ++ [w]) _ Hsplit').
        change (getd (lowlink s) v) with (low s v).
        apply linv_lower; [exact Hl | lia | | exact Hvw | intros _; lia].
        destruct (le_lt_dec (low s v) iw) as [Hcmp|Hcmp].
        -- destruct Hwit as [y [Hy [Hny Hpy]]]. exists y. split; [exact Hy|]. split; [lia | exact Hpy].
        -- exists w. split; [exact Em|]. split; [lia | apply path_edge; exact Hws].
      * apply mem_false in Em. apply (IH (done ++ [w]) _ Hsplit').
        apply linv_skip; [exact Hl | exact Hvw | intros Hin; apply Em; apply Hsub; exact Hin].
    + assert (Hnw : ~ vis s w) by (unfold vis; rewrite Ew; intros H; apply H; reflexivity).
      destruct Hctx as (H0 & Hw & Hv & Hp).
      destruct (IHf w s (v :: G0) Hi Hnw (closed_succs g Hc v w Hws)) as [s' [Evis Hpost]].
      * intros x [E|Hx0]; [subst; apply path_edge; exact Hws | eapply path_snoc; [apply Hp; exact Hx0 | exact Hws]].
      * lia.
      * rewrite Evis. apply (IH (done ++ [w]) _ Hsplit').
        change (getd (lowlink s') v) with (low s' v). change (getd (lowlink s') w) with (low s' w).
        exact (linv_call done s w s' Hl Hnw Hws Hpost).
Qed.

Lemma finish_ok s : linv (succs g v) s -> exists s', finish v s = Some s' /\ post G0 v s0 s'.
Proof.
  intros Hl. destruct (linv_facts _ _ Hl) as (Hvs & Hnv & Hold & Hsub).
  destruct Hctx as (H0 & Hw & Hv & Hp).
  destruct Hl as (Hi & Fi & Fl & Hidx & (s2 & Hst & Hx) & Hd & Hle & Hwit).
  assert (Fi0 : frame_i s0 s) by (eapply frame_i_trans; [apply frame_i_push; exact Hw | exact Fi]).
  pose proof Hi as [nd len vs lt part pnd sorted gray bnw closed up down sc].
  unfold finish. change (getd (lowlink s) v) with (low s v). change (getd (indexof s) v) with (num s v).
  destruct (Nat.eqb (low s v) (num s v)) eqn:Eroot.
  - (* v is the root of its component: pop it *)
    apply Nat.eqb_eq in Eroot.
    pose proof pnd as Hpnd. rewrite Hst in Hpnd.
    apply NoDup_app_iff in Hpnd. destruct Hpnd as (HndS & HndE & HdSE).
    pose proof HndS as HndS'. apply NoDup_app_iff in HndS'. destruct HndS' as (Hnd2 & Hndvr & Hd2).
    assert (Hvr : ~ In v (stack s0)) by (inversion Hndvr; assumption).
    assert (Hv2 : ~ In v s2) by (intros Hin; apply (Hd2 v Hin); left; reflexivity).
    pose proof sorted as Hsort. rewrite Hst in Hsort. apply ssorted_app in Hsort.
    destruct Hsort as (_ & [Hsr Hsr'] & Hs2r).
    assert (HinS : forall x, In x (s2 ++ [v]) -> In x (stack s)).
    { intros x Hx0. rewrite Hst. apply in_app_or in Hx0. apply in_or_app.
      destruct Hx0 as [Hx0|[Hx0|[]]]; [left; exact Hx0 | right; left; exact Hx0]. }
    (* K1: emitted + the popped segment is closed under successors *)
    assert (K1 : succ_closed g (concat (comps s) ++ (s2 ++ [v]))).
    { intros x w Hx0 Hs. apply in_app_or in Hx0. destruct Hx0 as [Hx0|Hx0].
      - apply in_or_app. left.
        apply (closed (comps s) [] (eq_sym (app_nil_r _)) x w Hx0 Hs).
      - assert (Hvw : vis s w /\ (In w (stack s0) -> low s v <= num s w)).
        { apply in_app_or in Hx0. destruct Hx0 as [Hx0|[Hx0|[]]].
          - split.
            + apply (bnw x w); [apply part; left; apply HinS; apply in_or_app; left; exact Hx0 | | exact Hs].
              intros [E|Hg]; [subst x; exact (Hv2 Hx0) |].
              apply (Hd2 x Hx0). right. apply (i_gray _ _ H0). exact Hg.
            + intros Hin. exact (Hx x w Hx0 Hs Hin).
          - subst x. exact (Hd w Hs). }
        destruct Hvw as [Hvw Hlow]. apply part in Hvw. destruct Hvw as [Hvw|Hvw].
        + rewrite Hst in Hvw. apply in_app_or in Hvw. destruct Hvw as [Hvw|[Hvw|Hvw]].
          * apply in_or_app. right. apply in_or_app. left; exact Hvw.
          * apply in_or_app. right. apply in_or_app. right. left; exact Hvw.
          * exfalso. specialize (Hlow Hvw). specialize (Hsr w Hvw). lia.
        + apply in_or_app. left; exact Hvw. }
    (* K2, K3: the popped segment is strongly connected through v *)
    assert (K3 : forall b, In b (s2 ++ [v]) -> path g v b).
    { intros b Hb. apply up; [apply HinS; apply in_or_app; right; left; reflexivity | apply HinS; exact Hb |].
      apply in_app_or in Hb. destruct Hb as [Hb|[Hb|[]]]; [|subst; lia].
      specialize (Hs2r b v Hb (or_introl eq_refl)). lia. }
    assert (K2 : forall a, In a (s2 ++ [v]) -> path g a v).
    { intros a Ha. destruct (down a (HinS a Ha)) as [z [[Ez|Hz] [_ Hpz]]]; [subst z; exact Hpz|].
      exfalso. pose proof (i_gray _ _ H0 z Hz) as Hzr.
      assert (Hzc : In z (concat (comps s) ++ (s2 ++ [v]))).
      { apply (path_closed_set g (fun x => In x (concat (comps s) ++ (s2 ++ [v]))) K1 a z Hpz).
        apply in_or_app. right; exact Ha. }
      apply in_app_or in Hzc. destruct Hzc as [Hzc|Hzc].
      - apply (HdSE z); [apply in_or_app; right; right; exact Hzr | exact Hzc].
      - apply in_app_or in Hzc. destruct Hzc as [Hzc|[Hzc|[]]].
        + apply (Hd2 z Hzc). right; exact Hzr.
        + subst z. exact (Hvr Hzr). }
    rewrite Hst. rewrite pop_until_split by exact Hv2.
    eexists. split; [reflexivity|].
    unfold post.
    refine (conj _ (conj Fi0 (conj Fl (conj Hidx (conj Hvs (conj Hnv (conj _ (or_introl Eroot)))))))).
    + constructor; cbn [idx indexof stack comps].
      * exact nd.
      * exact len.
      * exact vs.
      * exact lt.
      * intros x. transitivity (In x (stack s) \/ In x (concat (comps s))); [exact (part x)|].
        rewrite Hst, concat_app. cbn [concat]. rewrite app_nil_r, !in_app_iff. cbn [In]. tauto.
      * rewrite concat_app. cbn [concat]. rewrite app_nil_r. apply nodup_move.
        replace ((s2 ++ [v]) ++ stack s0) with (stack s) by (rewrite Hst, <- app_assoc; reflexivity).
        exact pnd.
      * exact Hsr'.
      * exact (i_gray _ _ H0).
      * intros x w Hx0 Hn Hs. destruct (Nat.eq_dec x v) as [E|E].
        -- subst x. exact (proj1 (Hd w Hs)).
        -- apply (bnw x w Hx0); [|exact Hs]. intros [E'|Hg]; [apply E; symmetry; exact E' | exact (Hn Hg)].
      * intros l1 l2 E12. apply app_snoc_split in E12. destruct E12 as [[E1 E2]|[l2' [E1 E2]]].
        -- subst l1. rewrite concat_app. cbn [concat]. rewrite app_nil_r. exact K1.
        -- exact (closed l1 l2' E2).
      * intros x y Hx0 Hy Hle'. apply up; [apply Hsub; exact Hx0 | apply Hsub; exact Hy | exact Hle'].
      * intros y Hy. destruct (down y (Hsub y Hy)) as [z [[Ez|Hz] [Hle' Hpz]]].
        -- exfalso. subst z. specialize (Hsr y Hy). lia.
        -- exists z. split; [exact Hz | split; [exact Hle' | exact Hpz]].
      * intros c Hcin. apply in_app_or in Hcin. destruct Hcin as [Hcin|[Ec|[]]]; [exact (sc c Hcin)|].
        subst c. split.
        -- intros E. apply app_eq_nil in E. destruct E as [_ E]. discriminate E.
        -- intros a b Ha Hb. eapply path_trans; [exact (K2 a Ha) | exact (K3 b Hb)].
    + exists []. split; [reflexivity | intros y w []].
  - (* v is not a root: it stays on the stack and turns black *)
    apply Nat.eqb_neq in Eroot. exists s. split; [reflexivity|].
    unfold post.
    refine (conj _ (conj Fi0 (conj Fl (conj Hidx (conj Hvs (conj Hnv (conj _ (or_intror Hwit)))))))).
    + constructor; try assumption.
      * intros x Hx0. apply Hsub. exact (i_gray _ _ H0 x Hx0).
      * intros x w Hx0 Hn Hs. destruct (Nat.eq_dec x v) as [E|E].
        -- subst x. exact (proj1 (Hd w Hs)).
        -- apply (bnw x w Hx0); [|exact Hs]. intros [E'|Hg]; [apply E; symmetry; exact E' | exact (Hn Hg)].
      * intros y Hy. destruct (down y Hy) as [z [[Ez|Hz] [Hzle Hpz]]].
        -- subst z. destruct Hwit as [yl [Hyl [Hnyl Hpyl]]].
           destruct (down yl Hyl) as [z' [[Ez'|Hz'] [Hz'le Hpz']]]; [exfalso; subst z'; lia|].
           exists z'. split; [exact Hz'|]. split; [lia|].
           eapply path_trans; [exact Hpz|]. eapply path_trans; [exact Hpyl | exact Hpz'].
        -- exists z. split; [exact Hz | split; [exact Hzle | exact Hpz]].
    + exists (s2 ++ [v]). split; [rewrite Hst, <- app_assoc; reflexivity|].
      intros y w Hy Hs Hin. apply in_app_or in Hy. destruct Hy as [Hy|[Hy|[]]].
      * exact (Hx y w Hy Hs Hin).
      * subst y. exact (proj2 (Hd w Hs) Hin).
Qed.

End Loop.

(** * Layer 6: the main induction on the fuel *)
Theorem visit_all fuel : visit_ok fuel.
Proof.
  induction fuel as [|fuel IHf]; intros v s G Hi Hw Hv Hp Hf.
  - exfalso. pose proof (inv_white_room _ _ _ Hi Hw Hv). lia.
  - rewrite visit_S.
    pose proof (conj Hi (conj Hw (conj Hv Hp)) : ctx G v s) as Hctx.
    destruct (go_ok G v s Hctx fuel IHf Hf (succs g v) [] (push v s) eq_refl (linv_init G v s Hctx))
      as [s1 [E1 Hl1]].
    rewrite E1. exact (finish_ok G v s Hctx s1 Hl1).
Qed.

(** * Layer 7: the outer loop and the final theorems *)
Lemma scc_loop_ok fuel : length g < fuel -> forall vs s, inv [] s -> incl vs (verts g) ->
  exists s', scc_loop fuel g vs s = Some s' /\ inv [] s' /\ frame_i s s' /\ forall x, In x vs -> vis s' x.
Proof.
  intros Hf. induction vs as [|v vs IH]; intros s Hi Hvs.
  - exists s. split; [reflexivity|]. split; [exact Hi|]. split; [apply frame_i_refl | intros x []].
  - assert (Hvs' : incl vs (verts g)) by (intros x Hx; apply Hvs; right; exact Hx).
    cbn [scc_loop]. destruct (get (indexof s) v) as [i|] eqn:E.
    + destruct (IH s Hi Hvs') as [s' (E' & Hi' & F & Hall)]. exists s'.
      split; [exact E'|]. split; [exact Hi'|]. split; [exact F|].
      intros x [Ex|Hx]; [|apply Hall; exact Hx].
      subst x. apply (frame_i_vis _ _ _ F). unfold vis. rewrite E. discriminate.
    + assert (Hw : ~ vis s v) by (unfold vis; rewrite E; intros H; apply H; reflexivity).
      destruct (visit_all fuel v s [] Hi Hw (Hvs v (or_introl eq_refl))) as [s1 [E1 Hpost]].
      * intros x [].
      * lia.
      * destruct Hpost as (Hi1 & Fi1 & _ & _ & Hv1 & _).
        rewrite E1. destruct (IH s1 Hi1 Hvs') as [s' (E' & Hi' & F & Hall)]. exists s'.
        split; [exact E'|]. split; [exact Hi'|]. split; [exact (frame_i_trans _ _ _ Fi1 F)|].
        intros x [Ex|Hx]; [|apply Hall; exact Hx].
        subst x. exact (frame_i_vis _ _ _ F Hv1).
Qed.

Theorem tarjan_spec : exists cs, scc g = Some cs /\ spec g cs.
Proof.
  unfold scc.
  destruct (scc_loop_ok (S (length g)) (Nat.lt_succ_diag_r _) (verts g) init_st inv_init (incl_refl _))
    as [s (E & Hi & _ & Hall)].
  rewrite E. exists (comps s). split; [reflexivity|].
  assert (Hst : stack s = []).
  { destruct (stack s) as [|y r] eqn:Es; [reflexivity|].
    destruct (i_down _ _ Hi y) as [z [[] _]]. rewrite Es; left; reflexivity. }
  pose proof Hi as [nd len vs lt part pnd sorted gray bnw closed up down sc].
  rewrite Hst in pnd. cbn [app] in pnd.
  assert (Hin : forall x, In x (concat (comps s)) <-> In x (verts g)).
  { intros x. split.
    - intros Hx. apply vs. apply get_In. apply part. right; exact Hx.
    - intros Hx. destruct (proj1 (part x) (Hall x Hx)) as [H|H]; [rewrite Hst in H; destruct H | exact H]. }
  assert (Hpre : forall l1 c l2 x y, comps s = l1 ++ c :: l2 ->
            In x (concat l1 ++ c) -> In y (concat l2) -> path g x y -> False).
  { intros l1 c l2 x y E12 Hx Hy Hpxy.
    assert (Hcl : succ_closed g (concat (l1 ++ [c]))).
    { apply (closed (l1 ++ [c]) l2). rewrite <- app_assoc. exact E12. }
    rewrite concat_app in Hcl. cbn [concat] in Hcl. rewrite app_nil_r in Hcl.
    pose proof (path_closed_set g (fun z => In z (concat l1 ++ c)) Hcl x y Hpxy Hx) as Hy'.
    rewrite E12 in pnd. destruct (concat_split_disjoint l1 c l2 pnd) as [D1 [D2 D3]].
    apply in_app_or in Hy'. destruct Hy' as [Hy'|Hy']; [exact (D3 y Hy' Hy) | exact (D2 y Hy' Hy)]. }
  unfold spec. refine (conj pnd (conj _ (conj _ (conj _ _)))).
  - apply NoDup_Permutation; [exact pnd | exact (closed_NoDup g Hc) | exact Hin].
  - intros c Hcin. exact (proj1 (sc c Hcin)).
  - intros u v Hu Hv. split.
    + intros [c [Hcin [Huc Hvc]]]. split; apply (proj2 (sc c Hcin)); assumption.
    + intros [Huv Hvu]. apply Hin in Hu. apply Hin in Hv.
      apply in_concat in Hu. destruct Hu as [c1 [Hc1 Hu]].
      apply in_concat in Hv. destruct Hv as [c2 [Hc2 Hv]].
      destruct (two_positions (comps s) c1 c2 Hc1 Hc2) as [E0|[[l1 [l2 [E0 Hi2]]]|[l1 [l2 [E0 Hi2]]]]].
      * subst c2. exists c1. tauto.
      * exfalso. apply (Hpre l1 c1 l2 u v E0);
          [apply in_or_app; right; exact Hu | eapply in_concat_intro; eauto | exact Huv].
      * exfalso. apply (Hpre l1 c2 l2 v u E0);
          [apply in_or_app; right; exact Hv | eapply in_concat_intro; eauto | exact Hvu].
  - intros l1 c l2 d u v E0 Hd Hu Hv Hedge. apply (Hpre l1 c l2 u v E0);
      [apply in_or_app; right; exact Hu | eapply in_concat_intro; eauto | apply path_edge; exact Hedge].
Qed.

End Tarjan.

(** * C19_tarjan_correct, C19_partition *)
Theorem tarjan_correct_spec g : closed g = true -> exists cs, scc g = Some cs /\ spec g cs.
Proof. exact (tarjan_spec g). Qed.

Theorem tarjan_correct g : closed g = true -> exists cs, scc g = Some cs /\ scc_ok g cs = true.
Proof.
  intros Hc. destruct (tarjan_spec g Hc) as [cs [E H]]. exists cs. split; [exact E|].
  apply (scc_ok_spec g cs Hc). exact H.
Qed.

(** the fuel [S (length g)] never runs out, and the output lists every vertex exactly once *)
Theorem tarjan_partition g : closed g = true ->
  exists cs, scc g = Some cs /\ NoDup (concat cs) /\ Permutation (concat cs) (verts g).
Proof.
  intros Hc. destruct (tarjan_spec g Hc) as [cs [E [H1 [H2 _]]]]. exists cs. tauto.
Qed.

Lemma list_eqb_refl a : list_eqb a a = true.
Proof.
  unfold list_eqb. rewrite Nat.eqb_refl. cbn [andb]. induction a as [|x a IH]; [reflexivity|].
  cbn [combine forallb fst snd]. rewrite Nat.eqb_refl. exact IH.
Qed.

Lemma llist_eqb_refl cs : llist_eqb cs cs = true.
Proof.
  unfold llist_eqb. rewrite Nat.eqb_refl. cbn [andb]. induction cs as [|c cs IH]; [reflexivity|].
  cbn [combine forallb fst snd]. rewrite list_eqb_refl. exact IH.
Qed.

(** the model's verdict on its own output is 0 *)
Corollary scc_check_model g : closed g = true -> exists cs, scc g = Some cs /\ scc_check (g, cs) = 0.
Proof.
  intros Hc. destruct (tarjan_correct g Hc) as [cs [E H]]. exists cs. split; [exact E|].
  unfold scc_check. rewrite Hc, H, E. cbn [negb]. rewrite llist_eqb_refl. reflexivity.
Qed.

Example tarjan_correct_example :
  let g := [(3, [1]); (1, [0; 2]); (2, [3]); (0, [0])] in
  closed g = true /\ scc g = Some [[0]; [2; 1; 3]].
Proof. vm_compute. split; reflexivity. Qed.
