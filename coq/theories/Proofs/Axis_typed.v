(** A theory of typed axes (DESIGN.md Appendix C).

    Index types [ity] and the boolean judgement [has_type] are in Model/Axis.v.  Here:
    - [tgood]: the index types for which unification is complete: every atom has size >= 1 and
      every sum type has size >= 2 (a sum type of size 1, e.g. [TSum [TAtom 1]], is a *prime of
      size 1*: [unify] warns and fails on overlapping patterns of such a type,
      [unify_size1_sum_refuted] in Proofs/Axis_total.v);
    - [ty G e ps]: axis [e] has the flattened product type [ps] (a list of primes) in the typing
      context [G], which gives every physical axis ONE type (two occurrences of the same physical
      axis at two different factorisations of its size do not unify);  the judgement also demands
      what [PatternedTensor.__post_init__] and the smart constructor [productAxis] guarantee: no
      physical axis of size 1, no product with exactly one factor, no product directly inside a
      product;
    - inversion lemmas, [numel e = tsizes ps], positivity, weakening of the context;
    - [wts G s]: substitution [s] is well typed (every physical axis is bound to an axis of its
      own type) and acyclic (bindings of a variable to a variable point forward in insertion order;
      all other bindings strictly decrease the type); closed under the bindings [unify] makes;
    - [lookup] terminates within [lookup_fuel] on such substitutions and preserves the type. *)
From Coq Require Import List Arith Lia PeanoNat Bool PArith.
Import ListNotations.
Require Import Fggs.Model.Axis Fggs.Proofs.Axis_sem Fggs.Proofs.Axis_unify Fggs.Proofs.Axis_complete_gen.

(** * index types *)
Section ItyInd.
  Variable P : ity -> Prop.
  Hypothesis HAtom : forall n, P (TAtom n).
  Hypothesis HProd : forall l, Forall P l -> P (TProd l).
  Hypothesis HSum : forall l, Forall P l -> P (TSum l).
  Fixpoint ity_ind' (t : ity) : P t :=
    let go := fix go (l : list ity) : Forall P l :=
                match l with [] => Forall_nil _ | x :: l => Forall_cons _ (ity_ind' x) (go l) end in
    match t with
    | TAtom n => HAtom n
    | TProd l => HProd l (go l)
    | TSum l => HSum l (go l)
    end.
End ItyInd.

Definition tsum (l : list ity) : nat := fold_right (fun t acc => tsize t + acc) 0 l.

Fixpoint tgood (t : ity) : bool :=
  match t with
  | TAtom n => 1 <=? n
  | TProd l => forallb tgood l
  | TSum l => forallb tgood l && (2 <=? fold_right (fun t acc => tsize t + acc) 0 l)
  end.

(** a good prime: an atom of size >= 2 or a good sum type *)
Definition gprime (p : ity) : bool :=
  match p with TAtom n => 2 <=? n | TProd _ => false | TSum _ => tgood p end.
Definition gprimes (ps : list ity) : Prop := Forall (fun p => gprime p = true) ps.

(** weight of a type: bounds the nesting depth of the recursion of [unify] *)
Fixpoint tw (t : ity) : nat :=
  match t with
  | TAtom _ => 1
  | TProd l => S (fold_right (fun t acc => tw t + acc) 0 l)
  | TSum l => S (fold_right (fun t acc => tw t + acc) 0 l)
  end.
Definition tws (ps : list ity) : nat := fold_right (fun t acc => tw t + acc) 0 ps.

Lemma tsizes_app l1 l2 : tsizes (l1 ++ l2) = tsizes l1 * tsizes l2.
Proof. induction l1 as [|x l1 IH]; simpl; [lia|]. fold (tsizes (l1 ++ l2)). fold (tsizes l1). rewrite IH. lia. Qed.
Lemma tsizes_cons x l : tsizes (x :: l) = tsize x * tsizes l.
Proof. reflexivity. Qed.
Lemma tsum_app l1 l2 : tsum (l1 ++ l2) = tsum l1 + tsum l2.
Proof. induction l1 as [|x l1 IH]; simpl; [lia|]. fold (tsum (l1 ++ l2)). fold (tsum l1). rewrite IH. lia. Qed.
Lemma tsum_cons x l : tsum (x :: l) = tsize x + tsum l.
Proof. reflexivity. Qed.
Lemma tws_app l1 l2 : tws (l1 ++ l2) = tws l1 + tws l2.
Proof. induction l1 as [|x l1 IH]; simpl; [lia|]. fold (tws (l1 ++ l2)). fold (tws l1). rewrite IH. lia. Qed.
Lemma tws_cons x l : tws (x :: l) = tw x + tws l.
Proof. reflexivity. Qed.
Lemma tw_pos t : 1 <= tw t.
Proof. destruct t; simpl; lia. Qed.
Lemma tws_pos ps : ps <> [] -> 1 <= tws ps.
Proof. destruct ps as [|p ps]; [congruence|]. intros _. rewrite tws_cons. pose proof (tw_pos p). lia. Qed.

Lemma tsizes_tprimes t : tsizes (tprimes t) = tsize t.
Proof.
  induction t as [n|l IH|l IH] using ity_ind'; simpl.
  - destruct (Nat.eqb_spec n 1); subst; simpl; lia.
  - induction l as [|x l IHl]; simpl; [reflexivity|]. inversion IH; subst. rewrite tsizes_app, H1.
    fold (tsizes (flat_map tprimes l)). rewrite IHl by assumption. reflexivity.
  - lia.
Qed.

Lemma tws_tprimes t : tws (tprimes t) <= tw t.
Proof.
  induction t as [n|l IH|l IH] using ity_ind'; simpl.
  - destruct (Nat.eqb n 1); simpl; lia.
  - induction l as [|x l IHl]; simpl; [lia|]. inversion IH; subst. rewrite tws_app.
    specialize (IHl H2). fold (tws (flat_map tprimes l)) in *. lia.
  - lia.
Qed.

Lemma tgood_pos t : tgood t = true -> 1 <= tsize t.
Proof.
  induction t as [n|l IH|l IH] using ity_ind'; cbn [tgood tsize]; intros H.
  - apply Nat.leb_le in H. exact H.
  - induction l as [|x l IHl]; cbn [forallb fold_right] in *; [lia|]. apply andb_true_iff in H. destruct H as [Hx Hl].
    inversion IH; subst. specialize (H1 Hx). specialize (IHl H2 Hl). nia.
  - apply andb_true_iff in H. destruct H as [_ H]. apply Nat.leb_le in H. lia.
Qed.

Lemma tgood_primes t : tgood t = true -> gprimes (tprimes t).
Proof.
  unfold gprimes. induction t as [n|l IH|l IH] using ity_ind'; intros H.
  - simpl in *. destruct (Nat.eqb_spec n 1); [constructor|]. constructor; [|constructor].
    destruct n as [|[|n]]; try discriminate; try congruence; reflexivity.
  - simpl in *. induction l as [|x l IHl]; simpl; [constructor|]. apply andb_true_iff in H. destruct H as [Hx Hl].
    inversion IH; subst. apply Forall_app. split; auto.
  - constructor; [exact H|constructor].
Qed.

Lemma gprime_size p : gprime p = true -> 2 <= tsize p.
Proof.
  destruct p as [n|l|l]; cbn [gprime tgood tsize]; intros H; [apply Nat.leb_le in H; exact H|discriminate|].
  apply andb_true_iff in H. destruct H as [_ H]. apply Nat.leb_le in H. exact H.
Qed.

Lemma gprimes_pos ps : gprimes ps -> 1 <= tsizes ps.
Proof.
  induction 1 as [|p ps Hp Hps IH]; [simpl; lia|]. rewrite tsizes_cons. apply gprime_size in Hp. nia.
Qed.

Lemma gprimes_big ps : gprimes ps -> ps <> [] -> 2 <= tsizes ps.
Proof.
  intros H N. destruct ps as [|p ps]; [congruence|]. inversion H; subst. rewrite tsizes_cons.
  pose proof (gprime_size _ H2). pose proof (gprimes_pos _ H3). nia.
Qed.

Lemma gprimes_one ps : gprimes ps -> tsizes ps = 1 -> ps = [].
Proof.
  intros H E. destruct ps as [|p ps]; [reflexivity|].
  assert (X : 2 <= tsizes (p :: ps)) by (apply gprimes_big; [exact H|discriminate]). lia.
Qed.

Lemma gprimes_app l1 l2 : gprimes (l1 ++ l2) <-> gprimes l1 /\ gprimes l2.
Proof. apply Forall_app. Qed.

Lemma gprime_summand pre tj post : gprime (TSum (pre ++ tj :: post)) = true -> tgood tj = true.
Proof.
  simpl. intros H. apply andb_true_iff in H. destruct H as [H _]. rewrite forallb_app in H.
  apply andb_true_iff in H. destruct H as [_ H]. simpl in H. apply andb_true_iff in H. tauto.
Qed.

Lemma gprime_summands_pos l : gprime (TSum l) = true -> Forall (fun t => 1 <= tsize t) l.
Proof.
  simpl. intros H. apply andb_true_iff in H. destruct H as [H _]. rewrite forallb_forall in H.
  apply Forall_forall. intros t Ht. apply tgood_pos. auto.
Qed.

(** two decompositions of the same list of summands *)
Lemma split_compare {A} (pre pre' post post' : list A) x x' :
  pre ++ x :: post = pre' ++ x' :: post' ->
  (pre = pre' /\ x = x' /\ post = post') \/
  (exists mid, pre' = pre ++ x :: mid) \/ (exists mid, pre = pre' ++ x' :: mid).
Proof.
  revert pre'. induction pre as [|a pre IH]; intros pre' E.
  - destruct pre' as [|a' pre']; simpl in E; inversion E; subst.
    + left. repeat split.
    + right. left. exists pre'. reflexivity.
  - destruct pre' as [|a' pre']; simpl in E; inversion E; subst.
    + right. right. exists pre. reflexivity.
    + destruct (IH _ H1) as [(-> & -> & ->)|[[mid ->]|[mid ->]]].
      * left. repeat split.
      * right. left. exists mid. reflexivity.
      * right. right. exists mid. reflexivity.
Qed.

(** comparing two suffixes of the same list *)
Lemma suffix_compare {A} (p0 p1 q0 q1 : list A) :
  p0 ++ p1 = q0 ++ q1 ->
  (exists g, q1 = g ++ p1 /\ p0 = q0 ++ g) \/ (exists g, p1 = g ++ q1 /\ q0 = p0 ++ g).
Proof.
  revert q0. induction p0 as [|a p0 IH]; intros q0 E; simpl in E.
  - right. exists q0. subst. split; reflexivity.
  - destruct q0 as [|b q0]; simpl in E.
    + left. exists (a :: p0). subst. split; reflexivity.
    + inversion E; subst. destruct (IH _ H1) as [(g & -> & ->)|(g & -> & ->)]; [left|right]; exists g; split; reflexivity.
Qed.

(** * typing contexts and the judgement *)
Definition ctx := positive -> list ity.
Definition ctx_good (G : ctx) : Prop := forall k, gprimes (G k).
Definition ctx_below (G : ctx) (nx : positive) : Prop := forall k, (nx <= k)%positive -> G k = [].
Definition ctx_ext (nx : positive) (G G' : ctx) : Prop := forall k, (k < nx)%positive -> G' k = G k.

Inductive ty (G : ctx) : axis -> list ity -> Prop :=
| ty_phys k n : G k <> [] -> n = tsizes (G k) -> ty G (Phys k n) (G k)
| ty_sum b t a pre tj post : b = tsum pre -> a = tsum post -> ty G t (tprimes tj) ->
    ty G (Sum b t a) [TSum (pre ++ tj :: post)]
| ty_prod l ps : length l <> 1 -> tyl G l ps -> ty G (Prod l) ps
with tyl (G : ctx) : list axis -> list ity -> Prop :=
| tyl_nil : tyl G [] []
| tyl_cons x l p1 ps : is_prod x = false -> ty G x p1 -> tyl G l ps -> tyl G (x :: l) (p1 ++ ps).

Scheme ty_mind := Minimality for ty Sort Prop
  with tyl_mind := Minimality for tyl Sort Prop.
Combined Scheme ty_tyl_ind from ty_mind, tyl_mind.

(** ** inversion *)
Lemma ty_phys_inv G k n ps : ty G (Phys k n) ps -> ps = G k /\ G k <> [] /\ n = tsizes (G k).
Proof. intros H. inversion H; subst. auto. Qed.

Lemma ty_sum_inv G b t a ps : ty G (Sum b t a) ps ->
  exists pre tj post, ps = [TSum (pre ++ tj :: post)] /\ b = tsum pre /\ a = tsum post /\ ty G t (tprimes tj).
Proof. intros H. inversion H; subst. eauto 8. Qed.

Lemma ty_prod_inv G l ps : ty G (Prod l) ps -> length l <> 1 /\ tyl G l ps.
Proof. intros H. inversion H; subst. auto. Qed.

Lemma tyl_nil_inv G ps : tyl G [] ps -> ps = [].
Proof. intros H. inversion H. reflexivity. Qed.

Lemma tyl_cons_inv G x l ps : tyl G (x :: l) ps ->
  exists p1 p2, ps = p1 ++ p2 /\ is_prod x = false /\ ty G x p1 /\ tyl G l p2.
Proof. intros H. inversion H; subst. eauto 8. Qed.

Lemma ty_factor_nonempty G x ps : ty G x ps -> is_prod x = false -> ps <> [].
Proof. intros H N. inversion H; subst; try discriminate; auto. Qed.

Lemma tyl_app G l1 l2 p1 p2 : tyl G l1 p1 -> tyl G l2 p2 -> tyl G (l1 ++ l2) (p1 ++ p2).
Proof.
  induction 1 as [|x l q1 q2 Hx Hty Hl IH]; intros H2; [exact H2|].
  simpl. rewrite <- app_assoc. constructor; auto.
Qed.

Lemma tyl_app_inv G l1 l2 ps : tyl G (l1 ++ l2) ps ->
  exists p1 p2, ps = p1 ++ p2 /\ tyl G l1 p1 /\ tyl G l2 p2.
Proof.
  revert ps. induction l1 as [|x l1 IH]; intros ps H.
  - exists [], ps. split; [reflexivity|]. split; [constructor|exact H].
  - simpl in H. apply tyl_cons_inv in H. destruct H as (q1 & q2 & -> & Hx & Hty & Hl).
    destruct (IH _ Hl) as (p1 & p2 & -> & H1 & H2). exists (q1 ++ p1), p2.
    split; [rewrite app_assoc; reflexivity|]. split; [constructor; assumption|exact H2].
Qed.

Lemma tyl_snoc_inv G l x ps : tyl G (l ++ [x]) ps ->
  exists p0 px, ps = p0 ++ px /\ tyl G l p0 /\ ty G x px /\ is_prod x = false.
Proof.
  intros H. apply tyl_app_inv in H. destruct H as (p0 & px & -> & H0 & Hx).
  apply tyl_cons_inv in Hx. destruct Hx as (q1 & q2 & -> & Np & Hty & Hn). apply tyl_nil_inv in Hn. subst q2.
  exists p0, q1. rewrite app_nil_r. auto.
Qed.

Lemma tyl_single G x ps : is_prod x = false -> ty G x ps -> tyl G [x] ps.
Proof. intros N H. rewrite <- (app_nil_r ps). constructor; [exact N|exact H|constructor]. Qed.

Lemma tyl_length G l ps : tyl G l ps -> length l <= length ps.
Proof.
  induction 1 as [|x l p1 p2 Hx Hty Hl IH]; [simpl; lia|]. simpl. rewrite app_length.
  pose proof (ty_factor_nonempty _ _ _ Hty Hx). destruct p1; [congruence|simpl; lia].
Qed.

Lemma tyl_nil_type G l : tyl G l [] -> l = [].
Proof. intros H. apply tyl_length in H. destruct l; [reflexivity|simpl in H; lia]. Qed.

(** ** sizes *)
Lemma ty_numel_both G :
  (forall e ps, ty G e ps -> numel e = tsizes ps) /\ (forall l ps, tyl G l ps -> prodn l = tsizes ps).
Proof.
  apply ty_tyl_ind.
  - intros k n _ ->. reflexivity.
  - intros b t a pre tj post -> -> _ IH. simpl. rewrite IH, tsizes_tprimes.
    fold (tsum (pre ++ tj :: post)). rewrite tsum_app, tsum_cons. lia.
  - intros l ps _ _ IH. exact IH.
  - reflexivity.
  - intros x l p1 ps _ _ IHx _ IHl. rewrite prodn_cons, tsizes_app, IHx, IHl. reflexivity.
Qed.

Lemma ty_numel G e ps : ty G e ps -> numel e = tsizes ps.
Proof. apply ty_numel_both. Qed.
Lemma tyl_prodn G l ps : tyl G l ps -> prodn l = tsizes ps.
Proof. apply ty_numel_both. Qed.

(** ** good types are inhabited only by axes without empty ranges *)
Lemma ty_pos_both G : ctx_good G ->
  (forall e ps, ty G e ps -> gprimes ps -> pos_sizes e = true) /\
  (forall l ps, tyl G l ps -> gprimes ps -> forallb pos_sizes l = true).
Proof.
  intros CG. apply ty_tyl_ind.
  - intros k n _ -> Gp. simpl. pose proof (gprimes_pos _ Gp). destruct (Nat.eqb_spec (tsizes (G k)) 0); [lia|reflexivity].
  - intros b t a pre tj post _ _ _ IH Gp. simpl. apply IH. apply tgood_primes.
    inversion Gp; subst. eapply gprime_summand; eauto.
  - intros l ps _ _ IH Gp. simpl. apply IH. exact Gp.
  - reflexivity.
  - intros x l p1 ps _ _ IHx _ IHl Gp. apply gprimes_app in Gp. destruct Gp. simpl. rewrite IHx, IHl by assumption. reflexivity.
Qed.

Lemma ty_pos G e ps : ctx_good G -> ty G e ps -> gprimes ps -> pos_sizes e = true.
Proof. intros CG. apply (ty_pos_both G CG). Qed.

(** ** the variables of a typed axis have a type; weakening *)
Lemma ty_fv_both G :
  (forall e ps, ty G e ps -> forall k, In k (fv e) -> G k <> []) /\
  (forall l ps, tyl G l ps -> forall k, In k (flat_map fv l) -> G k <> []).
Proof.
  apply ty_tyl_ind.
  - intros k n N _ k' [<-|[]]. exact N.
  - intros b t a pre tj post _ _ _ IH k Hk. apply IH. exact Hk.
  - intros l ps _ _ IH k Hk. apply IH. exact Hk.
  - intros k [].
  - intros x l p1 ps _ _ IHx _ IHl k Hk. simpl in Hk. apply in_app_or in Hk. destruct Hk; auto.
Qed.

Lemma ty_below G nx e ps : ctx_below G nx -> ty G e ps -> below nx e.
Proof.
  intros CB H k Hk. pose proof (proj1 (ty_fv_both G) e ps H k Hk) as N.
  destruct (Pos.ltb_spec k nx) as [L|L]; [exact L|]. exfalso. apply N. apply CB. exact L.
Qed.

Lemma tyl_below G nx l ps : ctx_below G nx -> tyl G l ps -> forall x, In x l -> below nx x.
Proof.
  intros CB H x Hx k Hk. pose proof (proj2 (ty_fv_both G) l ps H k) as N.
  destruct (Pos.ltb_spec k nx) as [L|L]; [exact L|]. exfalso. apply N; [apply in_flat_map; eauto|]. apply CB. exact L.
Qed.

Lemma ty_agree_both G G' :
  (forall e ps, ty G e ps -> (forall k, In k (fv e) -> G' k = G k) -> ty G' e ps) /\
  (forall l ps, tyl G l ps -> (forall k, In k (flat_map fv l) -> G' k = G k) -> tyl G' l ps).
Proof.
  apply ty_tyl_ind.
  - intros k n N -> A. rewrite <- (A k (or_introl eq_refl)). constructor; rewrite (A k (or_introl eq_refl)); auto.
  - intros b t a pre tj post Hb Ha _ IH A. constructor; auto.
  - intros l ps Hl _ IH A. constructor; auto.
  - intros _. constructor.
  - intros x l p1 ps Hx _ IHx _ IHl A. constructor; [exact Hx|apply IHx|apply IHl]; intros k Hk; apply A; simpl; apply in_or_app; auto.
Qed.

Lemma ty_ext G G' nx e ps : ctx_below G nx -> ctx_ext nx G G' -> ty G e ps -> ty G' e ps.
Proof.
  intros CB X H. apply (proj1 (ty_agree_both G G') e ps H). intros k Hk. apply X. exact (ty_below _ _ _ _ CB H k Hk).
Qed.

Lemma tyl_ext G G' nx l ps : ctx_below G nx -> ctx_ext nx G G' -> tyl G l ps -> tyl G' l ps.
Proof.
  intros CB X H. apply (proj2 (ty_agree_both G G') l ps H). intros k Hk. apply X.
  apply in_flat_map in Hk. destruct Hk as (x & Hx & Hk). exact (tyl_below _ _ _ _ CB H x Hx k Hk).
Qed.

Lemma ctx_ext_refl nx G : ctx_ext nx G G.
Proof. intros k _. reflexivity. Qed.
Lemma ctx_ext_trans nx nx' G0 G1 G2 : (nx <= nx')%positive -> ctx_ext nx G0 G1 -> ctx_ext nx' G1 G2 -> ctx_ext nx G0 G2.
Proof. intros L X1 X2 k Hk. rewrite X2 by lia. apply X1. exact Hk. Qed.

(** context with one more variable *)
Definition upd_ctx (G : ctx) (k : positive) (g : list ity) : ctx := fun j => if Pos.eqb j k then g else G j.

Lemma upd_ctx_same G k g : upd_ctx G k g k = g.
Proof. unfold upd_ctx. rewrite Pos.eqb_refl. reflexivity. Qed.
Lemma upd_ctx_ext G nx g : ctx_ext nx G (upd_ctx G nx g).
Proof. intros k Hk. unfold upd_ctx. destruct (Pos.eqb_spec k nx); [lia|reflexivity]. Qed.
Lemma upd_ctx_below G nx g : ctx_below G nx -> ctx_below (upd_ctx G nx g) (Pos.succ nx).
Proof. intros CB k Hk. unfold upd_ctx. destruct (Pos.eqb_spec k nx); [lia|]. apply CB. lia. Qed.
Lemma upd_ctx_good G k g : ctx_good G -> gprimes g -> ctx_good (upd_ctx G k g).
Proof. intros CG Hg j. unfold upd_ctx. destruct (Pos.eqb j k); auto. Qed.

(** * well-typed acyclic substitutions *)
Lemma NoDup_app_snoc {A} (l : list A) x : NoDup l -> ~ In x l -> NoDup (l ++ [x]).
Proof.
  induction l as [|y l IH]; intros N H; simpl; [constructor; [intros []|constructor]|].
  inversion N; subst. constructor.
  - intros Hin. apply in_app_or in Hin. destruct Hin as [Hin|[->|[]]]; [contradiction|]. apply H. left. reflexivity.
  - apply IH; [assumption|]. intros Hin. apply H. right. exact Hin.
Qed.

Lemma exists_last_or_nil {A} (l : list A) : l = [] \/ exists l' z, l = l' ++ [z].
Proof.
  destruct l as [|x l]; [left; reflexivity|right].
  destruct (exists_last (l := x :: l)) as (l' & z & E); [discriminate|]. eauto.
Qed.

Record wts (G : ctx) (s : subst) : Prop := {
  wts_nodup : NoDup (map fst s);
  wts_ty : forall k T, In (k, T) s -> G k <> [] /\ ty G T (G k);
  wts_fwd : forall s1 k j n s2, s = s1 ++ (k, Phys j n) :: s2 -> j <> k /\ assoc j s1 = None }.

Lemma wts_nil G : wts G [].
Proof.
  split; [constructor|intros k T []|]. intros s1 k j n s2 E. destruct s1; discriminate.
Qed.

Lemma assoc_None_notin {A} k (s : list (positive * A)) : assoc k s = None -> ~ In k (map fst s).
Proof.
  induction s as [|[k' a] s IH]; simpl; intros H; [tauto|].
  destruct (Pos.eqb_spec k' k); [discriminate|]. intros [E|E]; [congruence|exact (IH H E)].
Qed.

Lemma notin_assoc_None {A} k (s : list (positive * A)) : ~ In k (map fst s) -> assoc k s = None.
Proof.
  induction s as [|[k' a] s IH]; simpl; intros H; [reflexivity|].
  destruct (Pos.eqb_spec k' k) as [->|_]; [exfalso; apply H; left; reflexivity|]. apply IH. tauto.
Qed.

Lemma assoc_In_nodup {A} k (s : list (positive * A)) a : NoDup (map fst s) -> In (k, a) s -> assoc k s = Some a.
Proof.
  induction s as [|[k' a'] s IH]; simpl; intros N H; [contradiction|]. inversion N as [|? ? Hk N']; subst.
  destruct H as [H|H].
  - inversion H; subst. rewrite Pos.eqb_refl. reflexivity.
  - destruct (Pos.eqb_spec k' k) as [->|_]; [|apply IH; assumption].
    exfalso. apply Hk. apply in_map_iff. exists (k, a). auto.
Qed.

Lemma assoc_split {A} k (s : list (positive * A)) a : assoc k s = Some a ->
  exists s1 s2, s = s1 ++ (k, a) :: s2 /\ assoc k s1 = None.
Proof.
  induction s as [|[k' a'] s IH]; simpl; [discriminate|]. destruct (Pos.eqb_spec k' k) as [->|Hne]; intros H.
  - inversion H; subst. exists [], s. split; reflexivity.
  - destruct (IH H) as (s1 & s2 & -> & N). exists ((k', a') :: s1), s2. split; [reflexivity|].
    simpl. destruct (Pos.eqb_spec k' k); [congruence|exact N].
Qed.

Lemma assoc_app {A} k (s1 s2 : list (positive * A)) :
  assoc k (s1 ++ s2) = match assoc k s1 with Some a => Some a | None => assoc k s2 end.
Proof.
  induction s1 as [|[k' a] s1 IH]; simpl; [reflexivity|]. destruct (Pos.eqb k' k); [reflexivity|exact IH].
Qed.

(** binding an unbound variable to a looked-up axis of its type keeps the substitution well typed *)
Lemma wts_bind G s k T :
  wts G s -> assoc k s = None -> G k <> [] -> ty G T (G k) ->
  (forall j n, T = Phys j n -> j <> k /\ assoc j s = None) ->
  wts G (s ++ [(k, T)]).
Proof.
  intros [N Ty Fw] Hk Gk HT Hv. split.
  - rewrite map_app. simpl. apply NoDup_app_snoc; [exact N|apply assoc_None_notin; exact Hk].
  - intros k' T' H. apply in_app_or in H. destruct H as [H|[H|[]]]; [exact (Ty _ _ H)|]. inversion H; subst. auto.
  - intros s1 k' j n s2 E. destruct (exists_last_or_nil s2) as [->|(s2' & z & ->)].
    + apply app_inj_tail in E. destruct E as [<- E]. inversion E; subst. exact (Hv j n eq_refl).
    + change (s ++ [(k, T)] = s1 ++ ((k', Phys j n) :: s2') ++ [z]) in E. rewrite app_assoc in E.
      apply app_inj_tail in E. destruct E as [E _]. exact (Fw _ _ _ _ _ E).
Qed.

Lemma wts_ext G G' nx s : ctx_below G nx -> ctx_ext nx G G' -> wts G s -> wts G' s.
Proof.
  intros CB X [N Ty Fw]. split; [exact N| |exact Fw]. intros k T H. destruct (Ty _ _ H) as [Gk HT].
  assert (L : (k < nx)%positive).
  { destruct (Pos.ltb_spec k nx) as [L|L]; [exact L|]. exfalso. apply Gk. apply CB. exact L. }
  rewrite (X k L). split; [exact Gk|]. eapply ty_ext; eauto.
Qed.

(** * [lookup] on a well-typed substitution: total within [lookup_fuel], type preserving, and the
    result is not a bound physical axis *)
Definition unbound (s : subst) (e : axis) : Prop := forall k n, e = Phys k n -> assoc k s = None.

Lemma lookup_chain G s : wts G s ->
  forall m s1 k T s2, s = s1 ++ (k, T) :: s2 -> length s2 <= m ->
  exists e', lookup m s T = Ok e' /\ ty G e' (G k) /\ unbound s e'.
Proof.
  intros W. induction m as [|m IH]; intros s1 k T s2 E L.
  - destruct s2; [|simpl in L; lia].
    assert (HT : ty G T (G k)) by (apply (wts_ty G s W); rewrite E; apply in_or_app; right; left; reflexivity).
    destruct T as [j n|l|b t a].
    + destruct (wts_fwd G s W _ _ _ _ _ E) as [Hjk Hj1].
      assert (Aj : assoc j s = None).
      { rewrite E, assoc_app, Hj1. simpl. destruct (Pos.eqb_spec k j); [congruence|reflexivity]. }
      exists (Phys j n). simpl. rewrite Aj. split; [reflexivity|]. split; [exact HT|].
      intros k' n' E'. inversion E'; subst. exact Aj.
    + exists (Prod l). split; [reflexivity|]. split; [exact HT|intros ? ? E'; discriminate].
    + exists (Sum b t a). split; [reflexivity|]. split; [exact HT|intros ? ? E'; discriminate].
  - assert (HT : ty G T (G k)) by (apply (wts_ty G s W); rewrite E; apply in_or_app; right; left; reflexivity).
    destruct T as [j n|l|b t a].
    + destruct (wts_fwd G s W _ _ _ _ _ E) as [Hjk Hj1].
      simpl. destruct (assoc j s) as [T'|] eqn:Aj.
      * assert (Aj2 : assoc j s2 = Some T').
        { rewrite E, assoc_app, Hj1 in Aj. simpl in Aj. destruct (Pos.eqb_spec k j); [congruence|exact Aj]. }
        destruct (assoc_split _ _ _ Aj2) as (s3 & s4 & -> & _).
        destruct (IH (s1 ++ (k, Phys j n) :: s3) j T' s4) as (e' & Le & Te & Ue).
        { rewrite E. rewrite <- app_assoc. reflexivity. }
        { rewrite app_length in L. simpl in L. lia. }
        exists e'. split; [exact Le|]. split; [|exact Ue].
        apply ty_phys_inv in HT. destruct HT as (-> & _). exact Te.
      * exists (Phys j n). split; [reflexivity|]. split; [exact HT|].
        intros k' n' E'. inversion E'; subst. exact Aj.
    + exists (Prod l). split; [reflexivity|]. split; [exact HT|intros ? ? E'; discriminate].
    + exists (Sum b t a). split; [reflexivity|]. split; [exact HT|intros ? ? E'; discriminate].
Qed.

Lemma lookup_typed G s e ps : wts G s -> ty G e ps ->
  exists e', lookup (lookup_fuel s) s e = Ok e' /\ ty G e' ps /\ unbound s e'.
Proof.
  intros W H. destruct e as [k n|l|b t a].
  - unfold lookup_fuel. simpl. destruct (assoc k s) as [T|] eqn:A.
    + destruct (assoc_split _ _ _ A) as (s1 & s2 & E & _).
      destruct (lookup_chain G s W (length s) s1 k T s2 E) as (e' & Le & Te & Ue).
      { rewrite E, app_length. simpl. lia. }
      exists e'. split; [exact Le|]. split; [|exact Ue]. apply ty_phys_inv in H. destruct H as (-> & _). exact Te.
    + exists (Phys k n). split; [reflexivity|]. split; [exact H|]. intros k' n' E'. inversion E'; subst. exact A.
  - exists (Prod l). split; [reflexivity|]. split; [exact H|intros ? ? E'; discriminate].
  - exists (Sum b t a). split; [reflexivity|]. split; [exact H|intros ? ? E'; discriminate].
Qed.

(** * examples *)
Definition ex_ctx : ctx := fun k =>
  match k with
  | 1%positive => [TAtom 2]
  | 2%positive => [TAtom 3; TSum [TAtom 2; TAtom 3]]
  | 3%positive => [TAtom 2]
  | _ => []
  end.

Example ty_ex :
  ty ex_ctx (Prod [Phys 1 2; Phys 2 15]) [TAtom 2; TAtom 3; TSum [TAtom 2; TAtom 3]] /\
  ty ex_ctx (Sum 0 (Phys 3 2) 3) [TSum [TAtom 2; TAtom 3]] /\
  gprimes [TAtom 2; TAtom 3; TSum [TAtom 2; TAtom 3]] /\ ctx_good ex_ctx /\ ctx_below ex_ctx 4.
Proof.
  split; [|split; [|split; [|split]]].
  - constructor; [simpl; lia|].
    apply (tyl_cons ex_ctx (Phys 1 2) [Phys 2 15] [TAtom 2] [TAtom 3; TSum [TAtom 2; TAtom 3]]); [reflexivity| |].
    + apply (ty_phys ex_ctx 1 2); [discriminate|reflexivity].
    + apply tyl_single; [reflexivity|]. apply (ty_phys ex_ctx 2 15); [discriminate|reflexivity].
  - apply (ty_sum ex_ctx 0 (Phys 3 2) 3 [] (TAtom 2) [TAtom 3]); [reflexivity|reflexivity|].
    apply (ty_phys ex_ctx 3 2); [discriminate|reflexivity].
  - repeat constructor.
  - intros k. unfold ex_ctx. destruct k as [[|[]|]|[[]|[]|]|]; repeat constructor.
  - intros k Hk. unfold ex_ctx. destruct k as [[|[]|]|[[]|[]|]|]; try reflexivity; lia.
Qed.
