(** C03: running [rule_val] / [step] / [Zk] over the dual numbers: the first component is the
    ordinary value (projection is a homomorphism), the epsilon component is the formal
    (directional) derivative [dstep] of the grammar's equations -- the Leibniz rule for the
    einsum polynomials -- and satisfies the linear recurrence
      eps Z_{k+1} = J(Z_k) . eps Z_k + (dF/dw)(Z_k) . eps w. *)
From Coq Require Import List Arith Bool PeanoNat Lia Ring Ring_theory.
Import ListNotations.
Require Import Fggs.Model.Semiring Fggs.Model.SumProduct Fggs.Model.Dual.
Require Import Fggs.Proofs.BigSum Fggs.Proofs.SP_trees Fggs.Proofs.SP_nonrec Fggs.Proofs.Dual_ring.

Section DualLeibniz.
Context {R : Type} (o : sr_ops R).
Hypothesis Hr : sr_ring o.
Add Ring RingD2 : (sr_is_srt o Hr).
Local Notation D := (dual_ops o).

(** the assignments of a rule's nodes that agree with [xi] on the external nodes *)
Definition rule_assts (G : grammar) (r : rule) (xi : list nat) : list (list nat) :=
  filter (fun a => nat_list_eqb (sel a (r_ext r)) xi) (all_assts (node_sizes G r)).

(** the derivative of one rule's value at the point [e] in the direction [de] (both give every
    edge label a tensor): sum over assignments, over each edge of the rule, of the value of
    the direction at that edge times the product of the values of the OTHER edges *)
Definition drule (G : grammar) (e de : env (R:=R)) (r : rule) (xi : list nat) : R :=
  sumS o (rule_assts G r xi)
       (fun a => leib o (r_edges r) (fun ed => e (fst ed) (sel a (snd ed))) (fun ed => de (fst ed) (sel a (snd ed)))).

(** ... of the right-hand side of nonterminal X's equation *)
Definition dstep (G : grammar) (e de : env (R:=R)) (X : nat) (xi : list nat) : R :=
  sumS o (rules_of G X) (fun r => drule G e de r xi).

(** ** rule values *)
Lemma fst_rule_val G (E : env (R:=R * R)) r xi :
  fst (rule_val D G E r xi) = rule_val o G (penv E) r xi.
Proof. unfold rule_val. rewrite fst_sumS. apply sumS_ext. intros a _. now rewrite fst_prodS. Qed.

Lemma snd_rule_val G (E : env (R:=R * R)) r xi :
  snd (rule_val D G E r xi) = drule G (penv E) (eenv E) r xi.
Proof. unfold rule_val, drule, rule_assts. rewrite snd_sumS. apply sumS_ext. intros a _. now rewrite snd_prodS. Qed.

Lemma drule_ext G e e' de de' r xi :
  (forall ed a, In ed (r_edges r) -> In a (all_assts (node_sizes G r)) ->
                e (fst ed) (sel a (snd ed)) = e' (fst ed) (sel a (snd ed))
                /\ de (fst ed) (sel a (snd ed)) = de' (fst ed) (sel a (snd ed))) ->
  drule G e de r xi = drule G e' de' r xi.
Proof.
  intros H. unfold drule, rule_assts. apply sumS_ext. intros a Ha. apply filter_In in Ha.
  apply (leib_ext o); intros ed Hed; apply H; tauto.
Qed.

(** the derivative is additive and homogeneous in the direction *)
Lemma drule_add G e d1 d2 r xi :
  drule G e (fun l i => add o (d1 l i) (d2 l i)) r xi = add o (drule G e d1 r xi) (drule G e d2 r xi).
Proof.
  unfold drule. rewrite <- (sumS_add o Hr). apply sumS_ext. intros a _. apply (leib_add o Hr).
Qed.
Lemma dstep_add G e d1 d2 X xi :
  dstep G e (fun l i => add o (d1 l i) (d2 l i)) X xi = add o (dstep G e d1 X xi) (dstep G e d2 X xi).
Proof.
  unfold dstep. rewrite <- (sumS_add o Hr). apply sumS_ext. intros r _. apply drule_add.
Qed.
Lemma dstep_zero G e de X xi :
  (forall l i, de l i = zero o) -> dstep G e de X xi = zero o.
Proof.
  intros H. unfold dstep, drule. apply (sumS_all_zero o Hr). intros r _.
  apply (sumS_all_zero o Hr). intros a _. apply (leib_zero o Hr). intros ed _. apply H.
Qed.

(** ** one application of the equations *)
Lemma fst_step G (W Y : env (R:=R * R)) X xi :
  fst (step D G W Y X xi) = step o G (penv W) (penv Y) X xi.
Proof.
  unfold step. destruct (is_term G X); [reflexivity|].
  rewrite fst_sumS. apply sumS_ext. intros r _. rewrite fst_rule_val.
  apply (rule_val_ext o). intros ed a _ _. unfold penv. now destruct (is_term G (fst ed)).
Qed.

Lemma snd_step G (W Y : env (R:=R * R)) X xi : is_term G X = false ->
  snd (step D G W Y X xi) = dstep G (env_k G (penv W) (penv Y)) (env_k G (eenv W) (eenv Y)) X xi.
Proof.
  intros HX. unfold step. rewrite HX, snd_sumS. unfold dstep. apply sumS_ext. intros r _.
  rewrite snd_rule_val. apply drule_ext. intros ed a _ _. unfold penv, eenv, env_k.
  now destruct (is_term G (fst ed)).
Qed.

Lemma step_ext G (w w' x x' : env (R:=R)) X xi :
  (forall l i, w l i = w' l i) -> (forall l i, x l i = x' l i) -> step o G w x X xi = step o G w' x' X xi.
Proof.
  intros Hw Hx. unfold step. destruct (is_term G X); [apply Hw|].
  apply sumS_ext. intros r _. apply (rule_val_ext o). intros ed a _ _.
  destruct (is_term G (fst ed)); [apply Hw|apply Hx].
Qed.

(** ** Kleene iterates: projection is a homomorphism *)
Theorem fst_Zk G (W : env (R:=R * R)) k : forall X xi,
  fst (Zk D G W k X xi) = Zk o G (penv W) k X xi.
Proof.
  induction k as [|k IH]; intros X xi; [reflexivity|].
  cbn [Zk]. rewrite fst_step. apply step_ext; [reflexivity|]. intros l i. apply IH.
Qed.

(** ** ... and the epsilon part obeys the linearised recurrence *)
Theorem snd_Zk_S G (W : env (R:=R * R)) k X xi : is_term G X = false ->
  snd (Zk D G W (S k) X xi)
  = dstep G (env_k G (penv W) (Zk o G (penv W) k)) (env_k G (eenv W) (eenv (Zk D G W k))) X xi.
Proof.
  intros HX. cbn [Zk]. rewrite (snd_step G W (Zk D G W k) X xi HX).
  unfold dstep. apply sumS_ext. intros r _. apply drule_ext. intros ed a _ _. split; [|reflexivity].
  unfold env_k, penv. destruct (is_term G (fst ed)); [reflexivity|]. apply fst_Zk.
Qed.

(** split into the Jacobian part (direction supported on nonterminals) and the input part
    (direction supported on terminals):  eps Z_{k+1} = J(Z_k) eps Z_k + dF/dw(Z_k) eps w *)
Definition only_nt (G : grammar) (d : env (R:=R)) : env (R:=R) := fun l i => if is_term G l then zero o else d l i.
Definition only_t (G : grammar) (d : env (R:=R)) : env (R:=R) := fun l i => if is_term G l then d l i else zero o.

Theorem snd_Zk_S_split G (W : env (R:=R * R)) k X xi : is_term G X = false ->
  let e := env_k G (penv W) (Zk o G (penv W) k) in
  snd (Zk D G W (S k) X xi)
  = add o (dstep G e (only_nt G (eenv (Zk D G W k))) X xi) (dstep G e (only_t G (eenv W)) X xi).
Proof.
  intros HX e. rewrite snd_Zk_S by exact HX. fold e. rewrite <- dstep_add.
  unfold dstep. apply sumS_ext. intros r _. apply drule_ext. intros ed a _ _. split; [reflexivity|].
  unfold env_k, only_nt, only_t. destruct (is_term G (fst ed)); ring.
Qed.

(** terminals keep their weights *)
Lemma Zk_S_term G (W : env (R:=R * R)) k X xi : is_term G X = true -> Zk D G W (S k) X xi = W X xi.
Proof. intros HX. cbn [Zk]. unfold step. now rewrite HX. Qed.

(** pairing an environment with a direction, and projecting back *)
Lemma penv_denv (x d : env (R:=R)) l i : penv (denv x d) l i = x l i. Proof. reflexivity. Qed.
Lemma eenv_denv (x d : env (R:=R)) l i : eenv (denv x d) l i = d l i. Proof. reflexivity. Qed.

Lemma Zk_ext G (w w' : env (R:=R)) k : (forall l i, w l i = w' l i) ->
  forall X xi, Zk o G w k X xi = Zk o G w' k X xi.
Proof.
  intros Hw. induction k as [|k IH]; intros X xi; [reflexivity|].
  cbn [Zk]. apply step_ext; trivial.
Qed.

(** C03 (projection): the value part of [grad_model]'s dual computation is the ordinary iterate *)
Corollary fst_Zk_denv G (w d : env (R:=R)) k X xi :
  fst (Zk D G (denv w d) k X xi) = Zk o G w k X xi.
Proof. rewrite fst_Zk. apply Zk_ext. reflexivity. Qed.
End DualLeibniz.
