(** C09 tier B -- what one call of [antiunify] from the empty antisubst means for the supports
    (ranges) of the patterns:
    - without a warning every recorded pair has two parts of the same size ([anti_balanced]);
    - hence the generalisation covers both arguments ([anti_range1], [anti_range2]: every value of
      [e] resp. [f] at an in-range environment is a value of [g] at an in-range environment);
    - if the first parts are pairwise distinct physical axes (the repaired exit test of
      PatternedTensor.solve), [g] is [e] up to renaming: it covers nothing more ([anti_injective]). *)
From Coq Require Import List Arith Lia PeanoNat Bool PArith.
Import ListNotations.
Require Import Fggs.Model.Axis Fggs.Model.AxisCheck Fggs.Model.PTensor Fggs.Model.PSolve.
Require Import Fggs.Proofs.Axis_sem Fggs.Proofs.Axis_unify Fggs.Proofs.Axis_antiunify Fggs.Proofs.Axis_antiunify_inv.
Require Import Fggs.Proofs.PTensor_sem Fggs.Proofs.PTensor_dense Fggs.Proofs.PTensor_gen Fggs.Proofs.PTensor_binary.
Require Import Fggs.Proofs.Axis_repr.

(** the support of a pattern: the virtual indices it can hold a value at *)
Definition rng (e : axis) (v : nat) : Prop := exists rho, inrange rho e /\ eval rho e = v.

(** * the warning flag only grows *)
Lemma extend_warn e f st g st' : extend_antisubst e f st = (g, st') -> as_warn st' = as_warn st.
Proof.
  unfold extend_antisubst. destruct (afind e f (as_list st)) as [[k n]|]; intros H; inversion H; subst; reflexivity.
Qed.

Definition M_anti (fuel : nat) : Prop :=
  forall e f st g st', antiunify fuel e f st = Ok (g, st') -> as_warn st = true -> as_warn st' = true.
Definition M_sweep (fuel : nat) : Prop :=
  forall egrp erest fgrp frest en fn ret st rets st',
    sweep fuel egrp erest fgrp frest en fn ret st = Ok (rets, st') -> as_warn st = true -> as_warn st' = true.

Lemma warn_mono_step fuel : M_anti fuel -> M_sweep fuel -> M_anti (S fuel) /\ M_sweep (S fuel).
Proof.
  intros IHa IHs. split.
  - intros e f st0 g st' H W0. cbn [antiunify] in H.
    set (st := if Nat.eqb (numel e) (numel f) then st0 else a_warn st0) in *.
    assert (W : as_warn st = true) by (unfold st; destruct (Nat.eqb _ _); [exact W0|reflexivity]).
    assert (X : forall g0 s0, extend_antisubst e f st = (g0, s0) -> as_warn s0 = true).
    { intros g0 s0 Hx. rewrite (extend_warn _ _ _ _ _ Hx). exact W. }
    clearbody st. clear W0 st0.
    destruct e as [k1 n1|l1|b1 t1 a1]; destruct f as [k2 n2|l2|b2 t2 a2];
      try (inversion H as [H']; exact (X _ _ H')).
    + destruct (negb (zero (Prod l1)) && negb (zero (Prod l2))); [|inversion H as [H']; exact (X _ _ H')].
      destruct (sweep fuel [] l1 [] l2 1 1 [] st) as [[rets s1]|] eqn:Sw; [|discriminate].
      cbn [bind fst snd] in H. inversion H; subst. exact (IHs _ _ _ _ _ _ _ _ _ _ Sw W).
    + destruct (Nat.eqb b1 b2 && Nat.eqb a1 a2); [|inversion H as [H']; exact (X _ _ H')].
      destruct (antiunify fuel t1 t2 st) as [[g1 s1]|] eqn:E1; [|discriminate].
      cbn [bind fst snd] in H. inversion H; subst. exact (IHa _ _ _ _ _ E1 W).
  - intros egrp erest fgrp frest en fn ret st rets st' H W. cbn [sweep] in H.
    destruct (negb (nonempty egrp || nonempty erest || nonempty fgrp || nonempty frest)).
    { inversion H; subst. exact W. }
    destruct (Nat.eqb en fn && (nonempty egrp || nonempty fgrp)).
    + set (e1 := productAxis egrp) in *. set (f1 := productAxis fgrp) in *.
      destruct ((if is_prod e1 && is_prod f1 then Ok (extend_antisubst e1 f1 st) else antiunify fuel e1 f1 st))
        as [[g1 st1]|] eqn:R; [|discriminate].
      cbn [bind fst snd] in H.
      assert (W1 : as_warn st1 = true).
      { destruct (is_prod e1 && is_prod f1).
        - inversion R as [R']. rewrite (extend_warn _ _ _ _ _ R'). exact W.
        - exact (IHa _ _ _ _ _ R W). }
      exact (IHs _ _ _ _ _ _ _ _ _ _ H W1).
    + destruct (en <? fn).
      * destruct erest as [|x erest']; [discriminate|]. exact (IHs _ _ _ _ _ _ _ _ _ _ H W).
      * destruct frest as [|y frest']; [discriminate|]. exact (IHs _ _ _ _ _ _ _ _ _ _ H W).
Qed.

Theorem warn_mono : forall fuel, M_anti fuel /\ M_sweep fuel.
Proof.
  induction fuel as [|fuel [IHa IHs]]; [split; [intros ? ? ? ? ? H|intros ? ? ? ? ? ? ? ? ? ? H]; discriminate|].
  apply warn_mono_step; assumption.
Qed.

Lemma not_true_false (b : bool) : (b = true -> False) -> b = false.
Proof. destruct b; [intros H; exfalso; auto|reflexivity]. Qed.

(** a call that ends without a warning started without one, on arguments of equal size *)
Lemma anti_flag fuel e f st g st' : antiunify fuel e f st = Ok (g, st') -> as_warn st' = false ->
  numel e = numel f /\ as_warn st = false.
Proof.
  intros H W. split.
  - destruct (Nat.eqb_spec (numel e) (numel f)) as [N|N]; [exact N|exfalso].
    destruct fuel as [|fuel]; [discriminate|].
    assert (H' : antiunify (S fuel) e f (a_warn st) = Ok (g, st')).
    { cbn [antiunify] in *. destruct (Nat.eqb_spec (numel e) (numel f)) as [N'|_]; [contradiction|]. exact H. }
    pose proof (proj1 (warn_mono (S fuel)) _ _ _ _ _ H' eq_refl). congruence.
  - apply not_true_false. intros W0. pose proof (proj1 (warn_mono fuel) _ _ _ _ _ H W0). congruence.
Qed.

Lemma sweep_flag fuel egrp erest fgrp frest en fn ret st rets st' :
  sweep fuel egrp erest fgrp frest en fn ret st = Ok (rets, st') -> as_warn st' = false -> as_warn st = false.
Proof.
  intros H W. apply not_true_false. intros W0. pose proof (proj2 (warn_mono fuel) _ _ _ _ _ _ _ _ _ _ H W0). congruence.
Qed.

(** * no warning: the two parts of every recorded pair have the same size *)
Definition bal (l : list aentry) : Prop := Forall (fun en => numel (part1 en) = numel (part2 en)) l.

Lemma extend_bal e f st g st' : extend_antisubst e f st = (g, st') ->
  numel e = numel f -> bal (as_list st) -> bal (as_list st').
Proof.
  unfold extend_antisubst. destruct (afind e f (as_list st)) as [[k n]|]; intros H; inversion H; subst; clear H.
  - auto.
  - cbn [as_list]. intros N Hb. apply Forall_app. split; [exact Hb|]. constructor; [exact N|constructor].
Qed.

Definition W_anti (fuel : nat) : Prop :=
  forall e f st g st', antiunify fuel e f st = Ok (g, st') -> as_warn st' = false -> bal (as_list st) ->
    bal (as_list st').
Definition W_sweep (fuel : nat) : Prop :=
  forall egrp erest fgrp frest en fn ret st rets st' c,
    c > 0 -> en = c * prodn egrp -> fn = c * prodn fgrp ->
    Forall (fun x => numel x > 0) (egrp ++ erest) -> Forall (fun x => numel x > 0) (fgrp ++ frest) ->
    sweep fuel egrp erest fgrp frest en fn ret st = Ok (rets, st') -> as_warn st' = false -> bal (as_list st) ->
    bal (as_list st').

Lemma bal_step fuel : W_anti fuel -> W_sweep fuel -> W_anti (S fuel) /\ W_sweep (S fuel).
Proof.
  intros IHa IHs. split.
  - intros e f st0 g st' H W Hb0.
    destruct (anti_flag _ _ _ _ _ _ H W) as [N W0].
    cbn [antiunify] in H. rewrite (proj2 (Nat.eqb_eq _ _) N) in H.
    assert (X : forall g0 s0, extend_antisubst e f st0 = (g0, s0) -> bal (as_list s0)).
    { intros g0 s0 Hx. exact (extend_bal _ _ _ _ _ Hx N Hb0). }
    destruct e as [k1 n1|l1|b1 t1 a1]; destruct f as [k2 n2|l2|b2 t2 a2];
      try (inversion H as [H']; exact (X _ _ H')).
    + destruct (negb (zero (Prod l1)) && negb (zero (Prod l2))) eqn:Z; [|inversion H as [H']; exact (X _ _ H')].
      apply andb_true_iff in Z. destruct Z as [Z1 Z2]. apply negb_true_iff in Z1, Z2.
      destruct (sweep fuel [] l1 [] l2 1 1 [] st0) as [[rets st1]|] eqn:Sw; [|discriminate].
      cbn [bind fst snd] in H. inversion H; subst. clear H.
      exact (IHs [] l1 [] l2 1 1 [] st0 rets st' 1 (le_n 1) eq_refl eq_refl
                 (zero_factors_pos _ Z1) (zero_factors_pos _ Z2) Sw W Hb0).
    + destruct (Nat.eqb b1 b2 && Nat.eqb a1 a2); [|inversion H as [H']; exact (X _ _ H')].
      destruct (antiunify fuel t1 t2 st0) as [[g1 st1]|] eqn:E1; [|discriminate].
      cbn [bind fst snd] in H. inversion H; subst. clear H. exact (IHa _ _ _ _ _ E1 W Hb0).
  - intros egrp erest fgrp frest en fn ret st rets st' c Hc Hen Hfn Pe Pf H W Hb. cbn [sweep] in H.
    destruct (negb (nonempty egrp || nonempty erest || nonempty fgrp || nonempty frest)).
    { inversion H; subst. exact Hb. }
    destruct (Nat.eqb en fn && (nonempty egrp || nonempty fgrp)) eqn:Cut.
    + apply andb_true_iff in Cut. destruct Cut as [Eq _]. apply Nat.eqb_eq in Eq.
      assert (Pg : prodn egrp = prodn fgrp) by nia.
      set (e1 := productAxis egrp) in *. set (f1 := productAxis fgrp) in *.
      destruct ((if is_prod e1 && is_prod f1 then Ok (extend_antisubst e1 f1 st) else antiunify fuel e1 f1 st))
        as [[g1 st1]|] eqn:R; [|discriminate].
      cbn [bind fst snd] in H.
      apply Forall_app in Pe. destruct Pe as [Pe1 Pe2]. apply Forall_app in Pf. destruct Pf as [Pf1 Pf2].
      assert (Hc' : en > 0). { subst en. pose proof (prodn_pos _ Pe1). nia. }
      assert (N1 : numel e1 = numel f1).
      { unfold e1, f1. rewrite (proj2 (productAxis_sem (fun _ => 0) egrp)), (proj2 (productAxis_sem (fun _ => 0) fgrp)). exact Pg. }
      pose proof (sweep_flag _ _ _ _ _ _ _ _ _ _ _ H W) as W1.
      assert (B1 : bal (as_list st1)).
      { destruct (is_prod e1 && is_prod f1).
        - inversion R as [R']. exact (extend_bal _ _ _ _ _ R' N1 Hb).
        - exact (IHa _ _ _ _ _ R W1 Hb). }
      apply (IHs [] erest [] frest en fn (ret ++ [g1]) st1 rets st' en Hc'); try assumption; unfold prodn; simpl; lia.
    + destruct (en <? fn).
      * destruct erest as [|x erest']; [discriminate|].
        apply (IHs (egrp ++ [x]) erest' fgrp frest (en * numel x) fn ret st rets st' c); try assumption.
        -- rewrite prodn_app. unfold prodn at 2. simpl. nia.
        -- rewrite <- app_assoc. exact Pe.
      * destruct frest as [|y frest']; [discriminate|].
        apply (IHs egrp erest (fgrp ++ [y]) frest' en (fn * numel y) ret st rets st' c); try assumption.
        -- rewrite prodn_app. unfold prodn at 2. simpl. nia.
        -- rewrite <- app_assoc. exact Pf.
Qed.

Theorem anti_balanced_both : forall fuel, W_anti fuel /\ W_sweep fuel.
Proof.
  induction fuel as [|fuel [IHa IHs]]; [split; [intros ? ? ? ? ? H|intros ? ? ? ? ? ? ? ? ? ? ? ? ? ? ? ? H]; discriminate|].
  apply bal_step; assumption.
Qed.

Corollary anti_balanced fuel e f B g st' :
  antiunify fuel e f (astate0 B) = Ok (g, st') -> as_warn st' = false -> bal (as_list st').
Proof. intros H W. exact (proj1 (anti_balanced_both fuel) _ _ _ _ _ H W (Forall_nil _)). Qed.

(** * the generalisation covers both arguments *)
Lemma aent_part1 en : aent_e en = part1 en.
Proof. destruct en as [[[k n] e] f]. reflexivity. Qed.
Lemma aent_part2 en : aent_f en = part2 en.
Proof. destruct en as [[[k n] e] f]. reflexivity. Qed.

Section Range.
Variables (fuel : nat) (B : positive) (e f g : axis) (st' : astate).
Hypothesis Be : below B e.
Hypothesis Bf : below B f.
Hypothesis H : antiunify fuel e f (astate0 B) = Ok (g, st').
Hypothesis W : as_warn st' = false.

Lemma anti_as_list : antiunify_list fuel [e] [f] (astate0 B) = Ok ([g], st').
Proof. simpl. rewrite H. reflexivity. Qed.

Lemma anti_aresult : aresult B [e] [f] [g] (astate0 B) st'.
Proof. exact (proj1 (antiunify_inv fuel) B e f (astate0 B) g st' Be Bf (ainv_init B) H). Qed.

Lemma anti_sizes : forall en, In en (as_list st') -> numel (part1 en) = numel (part2 en).
Proof. pose proof (anti_balanced _ _ _ _ _ _ H W) as Hb. unfold bal in Hb. rewrite Forall_forall in Hb. exact Hb. Qed.

Lemma anti_gen1 : gen_ok part1 B (as_list st') [g] [e].
Proof.
  destruct (antiunify_generalises fuel [e] [f] B [g] st' eq_refl anti_as_list) as (_ & S1 & _).
  change [g] with (rev [g]). change [e] with (rev [e]).
  apply (gen_ok_of part1 B [e] [f] [e] [g] st' B).
  - left. split; reflexivity.
  - intros x [<-|[]]. exact Be.
  - intros x [<-|[]]. exact Bf.
  - reflexivity.
  - exact anti_aresult.
  - apply Pos.le_refl.
  - intros rho M. rewrite sigma_of_part1 in M. exact (S1 rho M).
  - reflexivity.
  - exact anti_sizes.
Qed.

Lemma anti_gen2 : gen_ok part2 B (as_list st') [g] [f].
Proof.
  destruct (antiunify_generalises fuel [e] [f] B [g] st' eq_refl anti_as_list) as (_ & _ & S2).
  change [g] with (rev [g]). change [f] with (rev [f]).
  apply (gen_ok_of part2 B [e] [f] [f] [g] st' B).
  - right. split; reflexivity.
  - intros x [<-|[]]. exact Be.
  - intros x [<-|[]]. exact Bf.
  - reflexivity.
  - exact anti_aresult.
  - apply Pos.le_refl.
  - intros rho M. rewrite sigma_of_part2 in M. exact (S2 rho M).
  - reflexivity.
  - exact anti_sizes.
Qed.

Theorem anti_range1 v : rng e v -> rng g v.
Proof.
  intros (rho & R & E).
  destruct (core_complete part1 B (as_list st') [g] [e] anti_gen1 rho) as (gg & Rg & Eg); [constructor; [exact R|constructor]|].
  exists gg. split; [inversion Rg; assumption|]. unfold evals in Eg. simpl in Eg. inversion Eg. congruence.
Qed.

Theorem anti_range2 v : rng f v -> rng g v.
Proof.
  intros (rho & R & E).
  destruct (core_complete part2 B (as_list st') [g] [f] anti_gen2 rho) as (gg & Rg & Eg); [constructor; [exact R|constructor]|].
  exists gg. split; [inversion Rg; assumption|]. unfold evals in Eg. simpl in Eg. inversion Eg. congruence.
Qed.

(** the new variables of [g] are fresh *)
Lemma anti_g_key k : In k (fv g) -> In k (akeys (as_list st')).
Proof.
  intros Hk. apply fv_of_fvn in Hk. destruct Hk as (n & Hn).
  destruct (g_lggs1 _ _ _ _ _ anti_gen1 (k, n)) as (en & Hen & E); [simpl; rewrite app_nil_r; exact Hn|].
  unfold akeys. apply in_map_iff. exists en. split; [|exact Hen].
  destruct en as [[[k' n'] e'] f']. simpl in E. inversion E. reflexivity.
Qed.

Lemma anti_g_fresh k : In k (fv g) -> (B <= k)%positive.
Proof. intros Hk. exact (g_fresh _ _ _ _ _ anti_gen1 k (anti_g_key k Hk)). Qed.

Lemma anti_g_below k : In k (fv g) -> (k < as_next st')%positive.
Proof.
  intros Hk. destruct anti_aresult as [I _ _ _ _]. exact (proj2 (ai_keys _ _ I k (anti_g_key k Hk))).
Qed.

Lemma anti_next_le : (B <= as_next st')%positive.
Proof. destruct anti_aresult as [I _ _ _ _]. exact (ai_next _ _ I). Qed.

Lemma anti_numel : numel g = numel e.
Proof.
  destruct (antiunify_generalises fuel [e] [f] B [g] st' eq_refl anti_as_list) as (N & _ & _).
  simpl in N. inversion N. reflexivity.
Qed.

(** every new axis has one size *)
Lemma anti_g_consistent k n n' : In (k, n) (fvn g) -> In (k, n') (fvn g) -> n = n'.
Proof.
  intros H1 H2. pose proof anti_gen1 as G.
  destruct (g_lggs1 _ _ _ _ _ G (k, n)) as (en & Hen & E); [simpl; rewrite app_nil_r; exact H1|].
  destruct (g_lggs1 _ _ _ _ _ G (k, n')) as (en' & Hen' & E'); [simpl; rewrite app_nil_r; exact H2|].
  assert (K : akey en' = akey en)
    by (destruct en as [[[? ?] ?] ?], en' as [[[? ?] ?] ?]; simpl in *; inversion E; inversion E'; reflexivity).
  pose proof (entry_of_In _ en (g_nodup _ _ _ _ _ G) Hen) as F1.
  pose proof (entry_of_In _ en' (g_nodup _ _ _ _ _ G) Hen') as F2.
  rewrite K in F2. rewrite F1 in F2. inversion F2; subst en'. rewrite E in E'. inversion E'. reflexivity.
Qed.

(** * an injective renaming covers nothing more *)
Definition puid (x : axis) : positive := match x with Phys k _ => k | _ => xH end.

Lemma assoc_In_nd {A} k (s : list (positive * A)) a : NoDup (map fst s) -> In (k, a) s -> assoc k s = Some a.
Proof.
  induction s as [|[k' a'] s IH]; intros ND Hin; [contradiction|]. simpl in *. inversion ND as [|? ? Hn ND']; subst.
  destruct Hin as [E|Hin].
  - inversion E; subst. rewrite Pos.eqb_refl. reflexivity.
  - destruct (Pos.eqb_spec k' k) as [->|_]; [exfalso; apply Hn; apply in_map_iff; exists (k, a); auto|auto].
Qed.

Lemma inj_keys (L : list aentry) : acq_injective L = true ->
  (forall en, In en L -> exists k n, part1 en = Phys k n) /\ NoDup (map (fun en => puid (part1 en)) L).
Proof.
  unfold acq_injective, acq_all_phys. intros Hi. apply andb_true_iff in Hi. destruct Hi as [Hp Hn].
  rewrite forallb_forall in Hp. split.
  - intros en Hen. specialize (Hp en Hen). rewrite aent_part1 in Hp. destruct (part1 en) as [k n| |]; try discriminate. eauto.
  - apply nodup_pos_NoDup in Hn.
    assert (E : flat_map (fun en => fv (aent_e en)) L = map (fun en => puid (part1 en)) L).
    { clear Hn. induction L as [|en L IH]; [reflexivity|]. simpl. rewrite IH by (intros x Hx; apply Hp; right; exact Hx).
      specialize (Hp en (or_introl eq_refl)). rewrite aent_part1 in *. destruct (part1 en) as [k n| |]; try discriminate. reflexivity. }
    rewrite E in Hn. exact Hn.
Qed.

Theorem anti_injective v : acq_injective (as_list st') = true -> rng g v -> rng e v.
Proof.
  intros Hi (gg & Rg & Eg). set (L := as_list st') in *.
  destruct (inj_keys L Hi) as [Hphys ND].
  pose proof anti_gen1 as G. fold L in G.
  set (pairs := map (fun en => (puid (part1 en), gg (akey en))) L).
  set (r := env_of pairs).
  assert (Hr : forall en, In en L -> r (puid (part1 en)) = gg (akey en)).
  { intros en Hen. unfold r, env_of. rewrite (assoc_In_nd (puid (part1 en)) pairs (gg (akey en))); [reflexivity| |].
    - unfold pairs. rewrite map_map. simpl. exact ND.
    - unfold pairs. apply in_map_iff. exists en. auto. }
  assert (Rg' : Forall (inrange gg) [g]) by (constructor; [exact Rg|constructor]).
  assert (Hlt : forall en, In en L -> gg (akey en) < snd (apair en)).
  { intros en Hen. destruct (g_lggs2 _ _ _ _ _ G (akey en)) as (n' & Hn'); [rewrite akeys_akey; apply in_map; exact Hen|].
    destruct (g_lggs1 _ _ _ _ _ G _ Hn') as (en' & Hen' & E').
    assert (K : akey en' = akey en) by (destruct en' as [[[? ?] ?] ?]; simpl in E'; inversion E'; reflexivity).
    pose proof (entry_of_In L en (g_nodup _ _ _ _ _ G) Hen) as F1.
    pose proof (entry_of_In L en' (g_nodup _ _ _ _ _ G) Hen') as F2.
    rewrite K in F2. rewrite F1 in F2. inversion F2; subst en'. rewrite E'. simpl.
    exact (proj1 (inrange_list_fvn gg [g]) Rg' _ _ Hn'). }
  destruct (proj2 (core_iff part1 B L [g] [e] G gg r Rg')) as [Re Ee].
  { split.
    - rewrite Forall_forall. intros x Hx. apply in_map_iff in Hx. destruct Hx as (en & <- & Hen).
      destruct (Hphys en Hen) as (k & n & Ep). pose proof (Hr en Hen) as Hr1. rewrite Ep in *. simpl in *. rewrite Hr1.
      destruct (g_entries _ _ _ _ _ G en Hen) as (Hn & _ & _). rewrite Ep in Hn. simpl in Hn. rewrite <- Hn. exact (Hlt en Hen).
    - rewrite evals_es, pcoords_gs. apply map_ext_in. intros en Hen.
      destruct (Hphys en Hen) as (k & n & Ep). pose proof (Hr en Hen) as Hr1. rewrite Ep in *. simpl in *. exact Hr1. }
  exists r. split; [inversion Re; assumption|]. unfold evals in Ee. simpl in Ee. inversion Ee. congruence.
Qed.

End Range.
