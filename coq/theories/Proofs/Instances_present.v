(** Composition ("glue") for C12: carrier instances of the presentation theorem.
    The law records of the carriers ([sr_ring], [sr_ordered], [sr_star] of [bool_ops],
    [ereal_ops], [trop_ops]) are proved in Proofs/SemiringLaws.v (C08); here they are plugged
    into the theorems that kept them as explicit premises.  Nothing in this file has a law
    premise.  Each entry is a one-line instantiation; the statements are spelled out in
    Props/C12.v. *)
From Coq Require Import List Arith Bool PeanoNat.
Import ListNotations.
Require Import Fggs.Model.Semiring Fggs.Model.SCC Fggs.Model.SumProduct Fggs.Model.EReal Fggs.Model.Trop.
Require Import Fggs.Proofs.Presentation Fggs.Proofs.Presentation_cor.
Require Import Fggs.Model.Kleene Fggs.Proofs.Kleene_proofs Fggs.Proofs.Presentation_lfp Fggs.Proofs.Presentation_grad.
Require Fggs.Proofs.SemiringLaws.

Local Notation bR := SemiringLaws.bool_ring. Local Notation bO := SemiringLaws.bool_ordered. Local Notation bS := SemiringLaws.bool_star.
Local Notation eR := SemiringLaws.ereal_ring. Local Notation eO := SemiringLaws.ereal_ordered. Local Notation eS := SemiringLaws.ereal_star.
Local Notation tR := SemiringLaws.trop_ring. Local Notation tO := SemiringLaws.trop_ordered. Local Notation tS := SemiringLaws.trop_star.

(** * C12 *)
Definition bool_presentation := @Zk_presentation bool bool_ops bR.
Definition real_presentation := @Zk_presentation ereal ereal_ops eR.
Definition trop_presentation := @Zk_presentation trop trop_ops tR.

(** least fixed points / enclosures of recursive grammars (Proofs/Presentation_lfp.v) *)
Definition bool_lfp_presentation := @lfp_presentation bool bool_ops bR.
Definition real_lfp_presentation := @lfp_presentation ereal ereal_ops eR.
Definition trop_lfp_presentation := @lfp_presentation trop trop_ops tR.
Definition bool_lfp_value_presentation := @lfp_value_presentation bool bool_ops bR bO.
Definition real_lfp_value_presentation := @lfp_value_presentation ereal ereal_ops eR eO.
Definition trop_lfp_value_presentation := @lfp_value_presentation trop trop_ops tR tO.
Definition real_enclosure_run_presentation :=
  @enclosure_run_presentation ereal ereal_ops eR eO rd_real infl_real eleb rd_real_le eleb_sound.
(** gradients over [0, inf] (Proofs/Presentation_grad.v) *)
Definition real_grad_presentation := @grad_presentation ereal ereal_ops eR.
