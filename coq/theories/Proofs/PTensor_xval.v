(** The laws the binary code paths rely on, proved for the concrete carrier [xval], and the
    resulting refinement theorems for add / mul / maximum / sub on tensors. *)
From Coq Require Import List Arith Lia PeanoNat Bool PArith QArith Qcanon.
Import ListNotations.
Require Import Fggs.Model.Axis Fggs.Model.XVal Fggs.Model.PTensor Fggs.Model.PTensorCheck.
Require Import Fggs.Proofs.PTensor_sem Fggs.Proofs.PTensor_dense Fggs.Proofs.PTensor_unary Fggs.Proofs.PTensor_binary.
Local Open Scope nat_scope.

Lemma xeqb_sound a b : xeqb a b = true -> a = b.
Proof.
  destruct a as [p| | |], b as [q| | |]; simpl; try discriminate; try reflexivity.
  intros H. apply Qc_eq_bool_correct in H. subst. reflexivity.
Qed.

Lemma xadd_comm a b : xadd a b = xadd b a.
Proof. destruct a, b; simpl; try reflexivity. f_equal. apply Qcplus_comm. Qed.
Lemma xadd_0_r a : xadd a (XF 0) = a.
Proof. destruct a; simpl; try reflexivity. f_equal. apply Qcplus_0_r. Qed.
Lemma xadd_0_l a : xadd (XF 0) a = a.
Proof. rewrite xadd_comm. apply xadd_0_r. Qed.

Lemma xmul_comm a b : xmul a b = xmul b a.
Proof. destruct a, b; simpl; try reflexivity. f_equal. apply Qcmult_comm. Qed.
Lemma xmul_1_r a : xmul a (XF 1) = a.
Proof. destruct a; simpl; try reflexivity. f_equal. apply Qcmult_1_r. Qed.

Lemma xmax_ninf_r a : xmax a XNInf = a.
Proof. destruct a; reflexivity. Qed.

Lemma xmax_comm a b : xmax a b = xmax b a.
Proof.
  destruct a as [p| | |], b as [q| | |]; try reflexivity.
  unfold xmax. simpl. pose proof (Qccompare_antisym p q) as A.
  destruct (Qccompare p q) eqn:E; simpl in A; rewrite <- A; simpl; try reflexivity.
  apply Qceq_alt in E. subst. reflexivity.
Qed.

Lemma xsub_0_r a : xsub a (XF 0) = a.
Proof. unfold xsub. simpl. apply xadd_0_r. Qed.
Lemma xsub_as_add a b : xadd (xneg b) a = xsub a b.
Proof. unfold xsub. apply xadd_comm. Qed.
Lemma xsub_0_l b : xsub (XF 0) b = xneg b.
Proof. unfold xsub. apply xadd_0_l. Qed.

Definition xeqb' (a b : xval) : bool := xeqb a b.

Section Instances.
Variables (next : positive) (t u r : pt) (next' : positive) (x : expansion_t) (idx : list nat).
Hypothesis Wt : wf xval t.
Hypothesis Wu : wf xval u.
Hypothesis Bt : vars_below xval next t.
Hypothesis Bu : vars_below xval next u.
Hypothesis NB : no_broadcast xval t u = true.
Hypothesis Ex : expansion xval next t u = Ok x.
Hypothesis SA : sizes_agree x = true.
Hypothesis Li : length idx = length (vaxes t).

(** add *)
Theorem add_refines :
  pt_commutative xval xeqb' xadd (XF 0) (xadd (default t) (default u)) next t u = Ok (r, next') ->
  denote xval r idx = xadd (denote xval t idx) (denote xval u idx).
Proof.
  intros H. eapply (commutative_refines xval xeqb' xadd (XF 0)); eauto using xeqb_sound, xadd_0_r, xadd_comm.
Qed.

(** mul *)
Theorem mul_refines :
  pt_commutative xval xeqb' xmul (XF 1) (xmul (default t) (default u)) next t u = Ok (r, next') ->
  denote xval r idx = xmul (denote xval t idx) (denote xval u idx).
Proof.
  intros H. eapply (commutative_refines xval xeqb' xmul (XF 1)); eauto using xeqb_sound, xmul_1_r, xmul_comm.
Qed.

(** maximum: the default is Python's [max], which equals torch's maximum unless the second default is NaN *)
Theorem maximum_refines : xisnan (default u) = false ->
  pt_commutative xval xeqb' xmax XNInf (py_max (default t) (default u)) next t u = Ok (r, next') ->
  denote xval r idx = xmax (denote xval t idx) (denote xval u idx).
Proof.
  intros Hn H. eapply (commutative_refines xval xeqb' xmax XNInf); eauto using xeqb_sound, xmax_ninf_r, xmax_comm.
  apply py_max_xmax. exact Hn.
Qed.

(** sub *)
Theorem sub_refines :
  pt_sub_like xval xeqb' xsub xneg xadd (XF 0) (xsub (default t) (default u)) next t u = Ok (r, next') ->
  denote xval r idx = xsub (denote xval t idx) (denote xval u idx).
Proof.
  intros H. eapply (sub_like_refines xval xeqb' xsub xneg xadd (XF 0));
    eauto using xeqb_sound, xsub_0_r, xsub_as_add, xsub_0_l.
Qed.

End Instances.

(** the hypotheses are satisfiable: two 2 x 2 patterns (a diagonal and a dense one) *)
Example binary_ex :
  let t := mkPT (fun c => match c with [0] => XF 1 | _ => XF (Q2Qc (Qmake 3 2)) end) [(1%positive, 2)] [Phys 1 2; Phys 1 2] (XF 0) in
  let u := mkPT (fun c => XF 1) [(2%positive, 2); (3%positive, 2)] [Phys 2 2; Phys 3 2] (XF 0) in
  exists x r n, expansion xval 4 t u = Ok x /\ no_broadcast xval t u = true /\ sizes_agree x = true /\
    pt_commutative xval xeqb' xadd (XF 0) (xadd (default t) (default u)) 4 t u = Ok (r, n) /\
    denote xval r [1; 1] = XF (Q2Qc (Qmake 5 2)) /\ denote xval r [0; 1] = XF 1.
Proof. do 3 eexists. repeat split; vm_compute; reflexivity. Qed.
