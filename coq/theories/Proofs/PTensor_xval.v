(** The laws the binary code paths rely on, proved for the concrete carrier [xval], and the
    resulting refinement theorems for add / mul / maximum / sub on tensors. *)
From Coq Require Import List Arith Lia PeanoNat Bool PArith QArith Qcanon Lqa.
Import ListNotations.
Require Import Fggs.Model.Axis Fggs.Model.XVal Fggs.Model.PTensor Fggs.Model.PTensorCheck.
Require Import Fggs.Proofs.PTensor_sem Fggs.Proofs.PTensor_dense Fggs.Proofs.PTensor_unary Fggs.Proofs.PTensor_binary.
Local Open Scope nat_scope.

Lemma xeqb_sound a b : xeqb a b = true -> a = b.
Proof.
  destruct a as [p| | |], b as [q| | |]; simpl; try discriminate; try reflexivity.
  intros H. apply Qc_eq_bool_correct in H. subst. reflexivity.
Qed.

Lemma xadd_comm a b : xadd a b = xadd b a.
Proof. destruct a, b; simpl; try reflexivity. f_equal. apply Qcplus_comm. Qed.
Lemma xadd_0_r a : xadd a (XF 0) = a.
Proof. destruct a; simpl; try reflexivity. f_equal. apply Qcplus_0_r. Qed.
Lemma xadd_0_l a : xadd (XF 0) a = a.
Proof. rewrite xadd_comm. apply xadd_0_r. Qed.

Lemma xmul_comm a b : xmul a b = xmul b a.
Proof. destruct a, b; simpl; try reflexivity. f_equal. apply Qcmult_comm. Qed.
Lemma xmul_1_r a : xmul a (XF 1) = a.
Proof. destruct a; simpl; try reflexivity. f_equal. apply Qcmult_1_r. Qed.

Lemma xmax_ninf_r a : xmax a XNInf = a.
Proof. destruct a; reflexivity. Qed.

Lemma xmax_comm a b : xmax a b = xmax b a.
Proof.
  destruct a as [p| | |], b as [q| | |]; try reflexivity.
  unfold xmax. simpl. pose proof (Qccompare_antisym p q) as A.
  destruct (Qccompare p q) eqn:E; simpl in A; rewrite <- A; simpl; try reflexivity.
  apply Qceq_alt in E. subst. reflexivity.
Qed.

Lemma xsub_0_r a : xsub a (XF 0) = a.
Proof. unfold xsub. simpl. apply xadd_0_r. Qed.
Lemma xsub_as_add a b : xadd (xneg b) a = xsub a b.
Proof. unfold xsub. apply xadd_comm. Qed.
Lemma xsub_0_l b : xsub (XF 0) b = xneg b.
Proof. unfold xsub. apply xadd_0_l. Qed.

(** division: [x / 1 = x] and [(1 / b) * a = a / b] (what the third code path of [div] computes),
    including the special values *)
Lemma xdiv_1_r a : xdiv a (XF 1) = a.
Proof.
  destruct a as [p| | |]; try reflexivity. simpl. f_equal. field. discriminate.
Qed.

Lemma this_inv' (a : Qc) : (this (/ a) == / this a)%Q.
Proof. unfold Qcinv, Q2Qc; cbn [this]; apply Qred_correct. Qed.

Lemma qsign_inv (q : Qc) : q <> 0%Qc -> qsign (1 / q) = qsign q.
Proof.
  intros Hq. unfold qsign, Qccompare.
  assert (E : (this (1 / q) == / this q)%Q).
  { unfold Qcdiv. rewrite Qcmult_1_l. apply this_inv'. }
  assert (Hq' : ~ (this q == 0)%Q).
  { intros H. apply Hq. apply Qc_is_canon. exact H. }
  change (this 0%Qc) with 0%Q.
  destruct (Qcompare (this q) 0) eqn:C.
  - apply Qeq_alt in C. contradiction.
  - apply Qlt_alt in C. apply (proj1 (Qlt_alt _ _)). rewrite E.
    assert (0 < / (- this q))%Q by (apply Qinv_lt_0_compat; lra).
    assert (/ (- this q) == - / this q)%Q by (field; exact Hq').
    set (a := (/ this q)%Q) in *. set (b := (/ (- this q))%Q) in *. lra.
  - apply Qgt_alt in C. apply (proj1 (Qgt_alt _ _)). rewrite E. apply Qinv_lt_0_compat. exact C.
Qed.

Lemma xdiv_recip a b : xmul (xdiv (XF 1) b) a = xdiv a b.
Proof.
  destruct b as [q| | |].
  - simpl. destruct (Qc_eq_bool q 0) eqn:Eq.
    + apply Qc_eq_bool_correct in Eq. subst q. destruct a; reflexivity.
    + assert (Hq : q <> 0%Qc) by (intros ->; discriminate).
      destruct a as [p| | |]; simpl; try reflexivity.
      * rewrite Eq. f_equal. field. exact Hq.
      * rewrite (qsign_inv q Hq). destruct (qsign q) eqn:S; try reflexivity.
        exfalso. apply Hq. unfold qsign in S. apply Qceq_alt in S. exact S.
      * rewrite (qsign_inv q Hq). destruct (qsign q) eqn:S; try reflexivity.
        exfalso. apply Hq. unfold qsign in S. apply Qceq_alt in S. exact S.
  - destruct a as [p| | |]; simpl; try reflexivity. f_equal. ring.
  - destruct a as [p| | |]; simpl; try reflexivity. f_equal. ring.
  - destruct a; reflexivity.
Qed.

Definition xeqb' (a b : xval) : bool := xeqb a b.

Section Instances.
Variables (next : positive) (t u r : pt) (next' : positive) (x : expansion_t) (idx : list nat).
Hypothesis Wt : wf xval t.
Hypothesis Wu : wf xval u.
Hypothesis Bt : vars_below xval next t.
Hypothesis Bu : vars_below xval next u.
Hypothesis NB : no_broadcast xval t u = true.
Hypothesis Ex : expansion xval next t u = Ok x.
Hypothesis SA : sizes_agree x = true.
Hypothesis Li : length idx = length (vaxes t).

(** add *)
Theorem add_refines :
  pt_commutative xval xeqb' xadd (XF 0) (xadd (default t) (default u)) next t u = Ok (r, next') ->
  denote xval r idx = xadd (denote xval t idx) (denote xval u idx).
Proof.
  intros H. eapply (commutative_refines xval xeqb' xadd (XF 0)); eauto using xeqb_sound, xadd_0_r, xadd_comm.
Qed.

(** mul *)
Theorem mul_refines :
  pt_commutative xval xeqb' xmul (XF 1) (xmul (default t) (default u)) next t u = Ok (r, next') ->
  denote xval r idx = xmul (denote xval t idx) (denote xval u idx).
Proof.
  intros H. eapply (commutative_refines xval xeqb' xmul (XF 1)); eauto using xeqb_sound, xmul_1_r, xmul_comm.
Qed.

(** maximum: the default is torch.maximum of the defaults (fd2047f), for every pair of defaults *)
Theorem maximum_refines :
  pt_commutative xval xeqb' xmax XNInf (xmax (default t) (default u)) next t u = Ok (r, next') ->
  denote xval r idx = xmax (denote xval t idx) (denote xval u idx).
Proof.
  intros H. eapply (commutative_refines xval xeqb' xmax XNInf); eauto using xeqb_sound, xmax_ninf_r, xmax_comm.
Qed.

(** div: the default is computed with torch (fc474fc), for every divisor default (0 included) *)
Theorem div_refines :
  pt_sub_like xval xeqb' xdiv (fun b => xdiv (XF 1) b) xmul (XF 1) (xdiv (default t) (default u)) next t u = Ok (r, next') ->
  denote xval r idx = xdiv (denote xval t idx) (denote xval u idx).
Proof.
  intros H. eapply (sub_like_refines xval xeqb' xdiv (fun b => xdiv (XF 1) b) xmul (XF 1));
    eauto using xeqb_sound, xdiv_1_r, xdiv_recip.
Qed.

(** sub *)
Theorem sub_refines :
  pt_sub_like xval xeqb' xsub xneg xadd (XF 0) (xsub (default t) (default u)) next t u = Ok (r, next') ->
  denote xval r idx = xsub (denote xval t idx) (denote xval u idx).
Proof.
  intros H. eapply (sub_like_refines xval xeqb' xsub xneg xadd (XF 0));
    eauto using xeqb_sound, xsub_0_r, xsub_as_add, xsub_0_l.
Qed.

End Instances.

(** the hypotheses are satisfiable: two 2 x 2 patterns (a diagonal and a dense one) *)
Example binary_ex :
  let t := mkPT (fun c => match c with [0] => XF 1 | _ => XF (Q2Qc (Qmake 3 2)) end) [(1%positive, 2)] [Phys 1 2; Phys 1 2] (XF 0) in
  let u := mkPT (fun c => XF 1) [(2%positive, 2); (3%positive, 2)] [Phys 2 2; Phys 3 2] (XF 0) in
  exists x r n, expansion xval 4 t u = Ok x /\ no_broadcast xval t u = true /\ sizes_agree x = true /\
    pt_commutative xval xeqb' xadd (XF 0) (xadd (default t) (default u)) 4 t u = Ok (r, n) /\
    denote xval r [1; 1] = XF (Q2Qc (Qmake 5 2)) /\ denote xval r [0; 1] = XF 1.
Proof. do 3 eexists. repeat split; vm_compute; reflexivity. Qed.
