(** C01, operands that occur on several levels: the value of a right-hand side that uses a terminal t
    AND a nonterminal X whose own rule uses t again is the product of the two INDEPENDENT sums -- the
    variables of X's rule are bound inside X, they are never identified with the parent's variables.
    (In the implementation the value of X reuses the storage axes of t's weight tensor; einsum has to
    rename such an operand apart from every earlier operand with which it shares ANY axis.)
    Stated for the smallest grammar of the class, over an arbitrary commutative semiring:
        S(c)   -> t(c) X(a,b)          (edge t before edge X)
        X(a,b) -> t(a) u(b)            all nodes over a 2-element domain *)
From Coq Require Import List Arith Bool PeanoNat Lia Ring Ring_theory.
Import ListNotations.
Require Import Fggs.Model.Semiring Fggs.Model.SCC Fggs.Model.SumProduct.
Require Import Fggs.Proofs.BigSum Fggs.Proofs.SP_examples.

Definition G_share : grammar :=
  {| g_doms := [2];
     g_labels := [(true, [0]); (true, [0]); (false, [0; 0]); (false, [0])];
     g_rules := [{| r_lhs := 3; r_nodes := [0; 0; 0]; r_edges := [(0, [0]); (2, [1; 2])]; r_ext := [0] |};
                 {| r_lhs := 2; r_nodes := [0; 0]; r_edges := [(0, [0]); (1, [1])]; r_ext := [0; 1] |}];
     g_start := 3 |}.
Example G_share_wf : wf_grammar G_share = true.
Proof. reflexivity. Qed.

Section Shared.
Context {R : Type} (o : sr_ops R).
Hypothesis Hr : sr_ring o.
Add Ring RingR_sh : (sr_is_srt o Hr).

Theorem shared_operand_X (w : env (R:=R)) a b : a < 2 -> b < 2 ->
  Zk o G_share w 2 2 [a; b] = mul o (w 0 [a]) (w 1 [b]).
Proof.
  intros Ha Hb.
  destruct a as [|[|a]]; [| |lia]; (destruct b as [|[|b]]; [| |lia]);
    cbv -[add mul zero one]; ring.
Qed.

Theorem shared_operand_S (w : env (R:=R)) c : c < 2 ->
  Zk o G_share w 2 3 [c]
  = mul o (w 0 [c]) (mul o (add o (w 0 [0]) (w 0 [1])) (add o (w 1 [0]) (w 1 [1]))).
Proof.
  intros Hc. destruct c as [|[|c]]; [| |lia]; cbv -[add mul zero one]; ring.
Qed.
End Shared.

(** the right value is not the one obtained by identifying c with a (t[c] * t[c] * sum u):
    t = [1; 2], u = [1; 1] in the natural numbers: S[0] = 1 * 3 * 2 = 6, not 1 * 1 * 2 *)
Example shared_operand_nat :
  Zk nat_ops_example G_share (fun l xi => if Nat.eqb l 0 then 1 + nth 0 xi 0 else 1) 2 3 [0] = 6
  /\ Zk nat_ops_example G_share (fun l xi => if Nat.eqb l 0 then 1 + nth 0 xi 0 else 1) 2 3 [1] = 12.
Proof. vm_compute. split; reflexivity. Qed.
