(** C03: soundness of the oracle of the correspondence check [grad_check_real]:
    the rounding functions of the Real instance round in the right direction, the bounds of the
    start symbol's dual cells returned by [start_bounds] are bounds of the dual Kleene iterates
    (exact for non-recursive grammars, an enclosure of all late iterates for recursive ones),
    the interval arithmetic ([contract], [cell_interval]) is sound, and verdict 0 means that
    every observed gradient entry meets the interval computed from those bounds. *)
From Coq Require Import QArith Qcanon Qround Qabs Lqa List Arith Bool PeanoNat Lia.
Import ListNotations.
Require Import Fggs.Model.Semiring Fggs.Model.SCC Fggs.Model.SumProduct Fggs.Model.SumProductCheck
               Fggs.Model.EReal Fggs.Model.Kleene Fggs.Model.Dual.
Require Import Fggs.Proofs.BigSum Fggs.Proofs.SP_trees Fggs.Proofs.SP_nonrec Fggs.Proofs.SP_driver
               Fggs.Proofs.SP_main Fggs.Proofs.SP_check_sound Fggs.Proofs.SolveCarriers
               Fggs.Proofs.Dual_ring Fggs.Proofs.Dual_encl.
Local Open Scope Q_scope.

(** * the carrier [0, inf]: rounding *)
Lemma this_Q2Qc q : this (Q2Qc q) == q.
Proof. unfold Q2Qc. cbn [this]. apply Qred_correct. Qed.

Lemma qv_nn_of_Q q : 0 <= q -> this (qv (nn_of_Q q)) == q.
Proof.
  intros H. unfold nn_of_Q. rewrite nn_of_Qc_qv; [apply this_Q2Qc|].
  apply nnb_le. now rewrite this_Q2Qc.
Qed.
Lemma qnn_nonneg (a : nnq) : 0 <= this (qv a).
Proof. apply nnb_le. exact (qnn a). Qed.

Lemma ele_Fin_l q a : 0 <= q -> q <= this (qv a) -> ele (Fin (nn_of_Q q)) (Fin a).
Proof. intros H0 H. cbn [ele]. unfold Qcle. now rewrite (qv_nn_of_Q q H0). Qed.
Lemma ele_Fin_r q a : this (qv a) <= q -> ele (Fin a) (Fin (nn_of_Q q)).
Proof.
  intros H. cbn [ele]. unfold Qcle. rewrite qv_nn_of_Q; trivial.
  eapply Qle_trans; [apply qnn_nonneg|exact H].
Qed.

Lemma fgrid_pos : 0 < fgrid. Proof. reflexivity. Qed.
Lemma big_nonneg : 0 <= big. Proof. discriminate. Qed.

Lemma floor_div_le q : (Qfloor (q * fgrid) # 1) / fgrid <= q.
Proof.
  apply Qle_shift_div_r; [apply fgrid_pos|]. apply Qfloor_le.
Qed.
Lemma floor_div_nonneg q : 0 <= q -> 0 <= (Qfloor (q * fgrid) # 1) / fgrid.
Proof.
  intros H. apply Qle_shift_div_l; [apply fgrid_pos|]. rewrite Qmult_0_l.
  assert (H1 : 0 <= q * fgrid) by (apply Qmult_le_0_compat; trivial; discriminate).
  assert (Hz : (0 <= Qfloor (q * fgrid))%Z) by (change 0%Z with (Qfloor 0); now apply Qfloor_resp_le).
  unfold Qle. cbn [Qnum Qden]. lia.
Qed.
Lemma ceil_div_ge q : q <= (Qceiling (q * fgrid) # 1) / fgrid.
Proof.
  apply Qle_shift_div_l; [apply fgrid_pos|]. apply Qle_ceiling.
Qed.

Lemma rd_f_le x : ele (rd_f x) x.
Proof.
  destruct x as [a|]; [|exact I]. unfold rd_f.
  pose proof (qnn_nonneg a) as Ha.
  destruct (Qle_bool big (this (qv a))) eqn:E.
  - apply Qle_bool_iff in E. apply ele_Fin_l; [apply big_nonneg|exact E].
  - apply ele_Fin_l; [now apply floor_div_nonneg|apply floor_div_le].
Qed.
Lemma ru_f_ge x : ele x (ru_f x).
Proof.
  destruct x as [a|]; [|exact I]. unfold ru_f.
  destruct (Qle_bool big (this (qv a))); [exact I|].
  apply ele_Fin_r. apply ceil_div_ge.
Qed.

Lemma pair_rd_le (x : D) : le dops (pair_map rd_f x) x.
Proof. split; apply rd_f_le. Qed.
Lemma pair_ru_ge (x : D) : le dops x (pair_map ru_f x).
Proof. split; apply ru_f_ge. Qed.
Lemma pair_eleb_sound (a b : D) : pair_rel eleb a b = true -> le dops a b.
Proof. unfold pair_rel. rewrite andb_true_iff, !eleb_iff. intros [H1 H2]. split; assumption. Qed.

(** * interval arithmetic *)
Fixpoint dot (cs gs : list Q) : Q :=
  match cs, gs with c :: cs, g :: gs => c * g + dot cs gs | _, _ => 0 end.

Inductive bounded3 : list Q -> list Q -> list Q -> Prop :=
| b3_nil : bounded3 [] [] []
| b3_cons l g h ls gs hs : l <= g -> g <= h -> bounded3 ls gs hs -> bounded3 (l :: ls) (g :: gs) (h :: hs).

Lemma contract_sound cs los gs his :
  bounded3 los gs his -> fst (contract cs los his) <= dot cs gs /\ dot cs gs <= snd (contract cs los his).
Proof.
  intros H. revert cs. induction H as [|l g h ls gs hs Hl Hh _ IH]; intros [|c cs]; cbn [contract dot fst snd]; try lra.
  specialize (IH cs). destruct (contract cs ls hs) as [a b]. cbn [fst snd] in IH.
  destruct (Qle_bool 0 c) eqn:E; cbn [fst snd].
  - apply Qle_bool_iff in E.
    assert (c * l <= c * g) by nra.
    assert (c * g <= c * h) by nra. lra.
  - assert (Hc : c <= 0).
    { destruct (Qlt_le_dec c 0) as [H|H]; [lra|]. apply Qle_bool_iff in H. congruence. }
    assert (c * h <= c * g) by nra.
    assert (c * g <= c * l) by nra. lra.
Qed.

(** * one cell: from bounds on the dual value to bounds on the observed quantity *)
(** the quantity contracted with the cotangent: Real: dZ;  Log: w * dZ / Z *)
Definition cell_quantity (is_log : bool) (wq z d : Q) : Q := if is_log then wq * d / z else d.

Lemma Fin_le_inv (x : ereal) b : ele x (Fin b) -> exists a, x = Fin a /\ this (qv a) <= this (qv b).
Proof. destruct x as [a|]; [|intros []]. intros H. exists a. split; trivial. Qed.

Lemma cell_interval_sound is_log wq (lo v x : D) l h :
  0 <= wq -> cell_interval is_log wq lo v = Some (Some (l, h)) ->
  le dops lo x -> le dops x v ->
  exists az ad, x = (Fin az, Fin ad)
    /\ (is_log = true -> 0 < this (qv az))
    /\ l <= cell_quantity is_log wq (this (qv az)) (this (qv ad))
    /\ cell_quantity is_log wq (this (qv az)) (this (qv ad)) <= h.
Proof.
  intros Hw H [Hl1 Hl2] [Hv1 Hv2]. destruct x as [z d]. cbn [fst snd] in *.
  unfold cell_interval in H.
  destruct lo as [[zlo|] [dlo|]]; cbn [fst snd fin_q] in H; try discriminate.
  destruct v as [[zv|] [dv|]]; cbn [fst snd fin_q] in H; try discriminate.
  cbn [fst snd] in *.
  destruct (Fin_le_inv z zv Hv1) as (az & -> & Hz2). destruct (Fin_le_inv d dv Hv2) as (ad & -> & Hd2).
  assert (Hl1' : this (qv zlo) <= this (qv az)) by exact Hl1.
  assert (Hl2' : this (qv dlo) <= this (qv ad)) by exact Hl2.
  clear Hl1 Hl2 Hv1 Hv2.
  exists az, ad. split; trivial.
  destruct is_log; cbn [cell_quantity].
  - destruct (Qle_bool (this (qv zv)) 0) eqn:E1; [discriminate|].
    destruct (Qle_bool (this (qv zlo)) 0) eqn:E2; [discriminate|].
    injection H as <- <-.
    assert (Hzlo : 0 < this (qv zlo)).
    { destruct (Qlt_le_dec 0 (this (qv zlo))) as [Hp|Hp]; trivial. apply Qle_bool_iff in Hp. congruence. }
    pose proof (qnn_nonneg dlo) as Hdlo0.
    set (zl := this (qv zlo)) in *. set (zz := this (qv az)) in *. set (zu := this (qv zv)) in *.
    set (dl := this (qv dlo)) in *. set (dd := this (qv ad)) in *. set (du := this (qv dv)) in *.
    assert (Hzz : 0 < zz) by lra. assert (Hzu : 0 < zu) by lra.
    split; [intros _; exact Hzz|]. split.
    + apply Qle_shift_div_l; trivial.
      assert (E : wq * dl / zu * zz == (wq * dl) * (zz / zu)) by (field; lra). rewrite E.
      assert (Hr1 : zz / zu <= 1) by (apply Qle_shift_div_r; lra).
      assert (Hr0 : 0 <= zz / zu) by (apply Qle_shift_div_l; lra).
      assert (0 <= wq * dl) by (apply Qmult_le_0_compat; trivial).
      assert (wq * dl <= wq * dd) by nra. nra.
    + apply Qle_shift_div_r; trivial.
      assert (E : wq * du / zl * zz == (wq * du) * (zz / zl)) by (field; lra). rewrite E.
      assert (Hr1 : 1 <= zz / zl) by (apply Qle_shift_div_l; lra).
      assert (0 <= dd) by (unfold dd; apply qnn_nonneg).
      assert (wq * dd <= wq * du) by nra.
      assert (0 <= wq * du) by nra. nra.
  - injection H as <- <-. split; [discriminate|]. split; assumption.
Qed.

(** all cells of the start symbol *)
Lemma cells_intervals_sound is_log wq (val : list nat -> D) : forall cells tlo tv los his,
  0 <= wq -> cells_intervals is_log wq cells tlo tv = Some (Some (los, his)) ->
  (forall xi, In xi cells -> le dops (tab_get dops tlo xi) (val xi) /\ le dops (val xi) (tab_get dops tv xi)) ->
  exists gs,
    Forall2 (fun xi g => exists az ad, val xi = (Fin az, Fin ad) /\ (is_log = true -> 0 < this (qv az))
                                      /\ g = cell_quantity is_log wq (this (qv az)) (this (qv ad))) cells gs
    /\ bounded3 los gs his.
Proof.
  induction cells as [|xi cells IH]; intros tlo tv los his Hw H Hb; cbn [cells_intervals] in H.
  - injection H as <- <-. exists []. split; constructor.
  - destruct (cell_interval is_log wq (tab_get dops tlo xi) (tab_get dops tv xi)) as [[[l h]|]|] eqn:E1;
      destruct (cells_intervals is_log wq cells tlo tv) as [[[ls hs]|]|] eqn:E2; try discriminate.
    injection H as <- <-.
    destruct (Hb xi (or_introl eq_refl)) as [Hl Hv].
    destruct (cell_interval_sound is_log wq _ _ (val xi) l h Hw E1 Hl Hv) as (az & ad & Hx & Hpos & H1 & H2).
    destruct (IH tlo tv ls hs Hw E2 (fun y Hy => Hb y (or_intror Hy))) as (gs & Hgs & Hb3).
    exists (cell_quantity is_log wq (this (qv az)) (this (qv ad)) :: gs). split.
    + constructor; trivial. exists az, ad. tauto.
    + now constructor.
Qed.

(** * the bounds of the start symbol's dual cells *)
Section Sound.
Hypothesis Hring : sr_ring ereal_ops.
Hypothesis Hord : sr_ordered ereal_ops.

Lemma wf_start_nonterminal G : wf_grammar G = true -> is_term G (g_start G) = false.
Proof. unfold wf_grammar. rewrite !andb_true_iff. intros [_ H]. now apply negb_true_iff in H. Qed.

Theorem start_bounds_sound G ws rounds nonrec l i0 tlo tv :
  wf_grammar G = true -> start_bounds G ws rounds nonrec l i0 = Some (tlo, tv) ->
  exists K, forall k, (if nonrec then k = length (nonterminals G) else (K <= k)%nat) ->
    forall xi, In xi (all_assts (lshape G (g_start G))) ->
      le dops (tab_get dops tlo xi) (Zk dops G (env_of dops (dual_weights G ws l i0)) k (g_start G) xi)
      /\ le dops (Zk dops G (env_of dops (dual_weights G ws l i0)) k (g_start G) xi) (tab_get dops tv xi).
Proof.
  intros Hwf H. pose proof (wf_start_nonterminal G Hwf) as HS.
  pose proof (dual_ordered ereal_ops Hord) as HordD.
  unfold start_bounds in H. destruct nonrec.
  - destruct (tmt_get (Ztab dops G (env_of dops (dual_weights G ws l i0)) (length (nonterminals G))) (g_start G)) as [t|] eqn:E; [|discriminate].
    injection H as <- <-. exists 0%nat. intros k -> xi Hxi.
    rewrite <- (Ztab_is_Zk dops G Hwf _ _ _ xi HS Hxi).
    rewrite (env_of_tget dops), <- tmt_get_tget, E. split; apply (le_refl dops HordD).
  - destruct (encl2_dual G (env_of dops (dual_weights G ws l i0)) rounds) as [[lo v]|] eqn:E; [|discriminate].
    destruct (tmt_get lo (g_start G)) as [a|] eqn:Ea; [|discriminate].
    destruct (tmt_get v (g_start G)) as [b|] eqn:Eb; [|discriminate].
    injection H as <- <-.
    destruct (encl2_sound dops (dual_ring ereal_ops Hring) HordD (pair_map rd_f) (pair_map ru_f) (pair_map infl_f)
                          (pair_rel eleb) (pair_rel close_f) pair_rd_le pair_ru_ge pair_eleb_sound G Hwf _ rounds lo v E)
      as (K & HK).
    exists K. intros k Hk xi Hxi. specialize (HK k Hk (g_start G) xi HS Hxi).
    rewrite !(env_of_tget dops), <- !tmt_get_tget, Ea, Eb in HK. exact HK.
Qed.

(** * the interval of one gradient entry *)
(** Real: the interval contains  sum_j c_j * dZ_j / dw(l, i0);  Log: sum_j c_j * w * (dZ_j/dw) / Z_j
    (= sum_j c_j * d log Z_j / d log w), Z_j and dZ_j/dw being the two components of the dual Kleene
    iterates of the start symbol's cells (for all large k; at k = #nonterminals for non-recursive
    grammars, where the iterate is the sum over all derivations) *)
Theorem entry_interval_sound G ws is_log rounds nonrec cot l i0 wv iv :
  wf_grammar G = true -> 0 <= wq_of wv ->
  entry_interval G ws is_log rounds nonrec cot l i0 wv = Some (Some iv) ->
  exists K, forall k, (if nonrec then k = length (nonterminals G) else (K <= k)%nat) ->
    exists gs,
      Forall2 (fun xi g => exists az ad,
                 Zk dops G (env_of dops (dual_weights G ws l i0)) k (g_start G) xi = (Fin az, Fin ad)
                 /\ (is_log = true -> 0 < this (qv az))
                 /\ g = cell_quantity is_log (wq_of wv) (this (qv az)) (this (qv ad)))
              (all_assts (lshape G (g_start G))) gs
      /\ fst iv <= dot cot gs /\ dot cot gs <= snd iv.
Proof.
  intros Hwf Hw H. unfold entry_interval in H.
  destruct (start_bounds G ws rounds nonrec l i0) as [[tlo tv]|] eqn:Eb; [|discriminate].
  destruct (cells_intervals is_log (wq_of wv) (all_assts (lshape G (g_start G))) tlo tv) as [[[los his]|]|] eqn:Ec; try discriminate.
  injection H as <-.
  destruct (start_bounds_sound G ws rounds nonrec l i0 tlo tv Hwf Eb) as (K & HK).
  exists K. intros k Hk.
  destruct (cells_intervals_sound is_log (wq_of wv)
              (fun xi => Zk dops G (env_of dops (dual_weights G ws l i0)) k (g_start G) xi)
              _ tlo tv los his Hw Ec (HK k Hk)) as (gs & Hgs & Hb3).
  exists gs. split; [exact Hgs|]. now apply contract_sound.
Qed.
End Sound.

(** * verdict 0 *)
Lemma verdict_of_zero codes : verdict_of codes = 0%nat -> forall c, In c codes -> c = 0%nat.
Proof.
  unfold verdict_of. destruct (existsb (Nat.eqb 1) codes); [discriminate|].
  destruct (existsb (Nat.eqb 20) codes); [discriminate|].
  destruct (existsb (Nat.eqb 4) codes); [discriminate|].
  intros H c Hc. apply fold_left_max_zero in H. now apply H.
Qed.

Lemma entry_verdict_zero iv ob1 bpv :
  entry_verdict iv ob1 bpv = 0%nat -> exists i, iv = Some (Some i) /\ meets i ob1 = true.
Proof.
  unfold entry_verdict. destruct iv as [[i|]|]; try discriminate.
  destruct (meets i ob1) eqn:E; [|discriminate]. intros _. exists i. split; [reflexivity|exact E].
Qed.

(** C03_check_oracle_sound: verdict 0 of [grad_check_real] = the grammar is well-formed and every
    observed gradient entry (an interval around the float) meets the interval [entry_interval]
    which, by [entry_interval_sound], contains the cotangent-weighted dual-number derivative *)
Theorem grad_check_sound gw ws is_log rounds cot obs :
  grad_check_real (gw, ws, (is_log, rounds), cot, obs) = 0%nat ->
  let G := grammar_of_w gw in
  wf_grammar G = true
  /\ length cot = length (all_assts (lshape G (g_start G)))
  /\ exists order, scc (nt_graph G) = Some order
     /\ forall l wl ob, In (l, wl) ws -> obs_get obs l = Some ob ->
          length ob = length (all_assts (lshape G l)) /\ length wl = length (all_assts (lshape G l))
          /\ forall i0 wv ob1, In (i0, wv, ob1) (combine (combine (all_assts (lshape G l)) wl) ob) ->
               exists iv, entry_interval G ws is_log rounds (nonrecursive_order G order) cot l i0 wv = Some (Some iv)
                          /\ meets iv ob1 = true.
Proof.
  intros H G. unfold grad_check_real in H. fold G in H.
  destruct (wf_grammar G) eqn:Hwf; [|discriminate]. cbn [negb] in H.
  destruct (Nat.eqb (length cot) (length (all_assts (lshape G (g_start G))))) eqn:Hc; [|discriminate]. cbn [negb] in H.
  apply Nat.eqb_eq in Hc.
  destruct (scc (nt_graph G)) as [order|] eqn:Hs; [|discriminate].
  split; trivial. split; trivial. exists order. split; trivial.
  intros l wl ob Hin Hob.
  pose proof (verdict_of_zero _ H) as Hz. clear H.
  match type of Hz with
  | (forall c, In c (flat_map ?f _) -> _) =>
    assert (Hp : forall c, In c (f (l, wl)) -> c = 0%nat)
      by (intros c Hcin; apply Hz; apply in_flat_map; exists (l, wl); split; trivial)
  end.
  cbn beta iota zeta in Hp. cbn [fst snd] in Hp.
  rewrite Hob in Hp.
  destruct (Nat.eqb (length ob) (length (all_assts (lshape G l))) && Nat.eqb (length wl) (length (all_assts (lshape G l)))) eqn:El; cbn [negb] in Hp.
  2:{ specialize (Hp 4%nat (or_introl eq_refl)). discriminate. }
  apply andb_true_iff in El. destruct El as [E1 E2]. apply Nat.eqb_eq in E1, E2.
  split; trivial. split; trivial.
  intros i0 wv ob1 Hin3.
  specialize (Hp _ (in_map _ _ _ Hin3)). cbn beta iota in Hp.
  apply entry_verdict_zero in Hp. exact Hp.
Qed.
