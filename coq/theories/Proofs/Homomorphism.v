(** C11: relations between the semirings.  A semiring homomorphism commutes with the
    sum-product (every Kleene iterate); a "lax" comparison between two additions on the same
    ordered carrier (max <= +) transfers to the sum-product.  Instances: the support map
    ereal -> bool (Boolean result = support of the Real result) and max-times <= plus-times on
    [0,inf] (Viterbi <= Log in the exp reading). *)
From Coq Require Import List Arith Bool PeanoNat QArith Qcanon Lqa.
Import ListNotations.
Require Import Fggs.Model.Semiring Fggs.Model.SCC Fggs.Model.SumProduct Fggs.Model.EReal Fggs.Model.CrossSemiring.
Local Open Scope nat_scope.

Section Hom.
Context {R R' : Type} (o : sr_ops R) (o' : sr_ops R') (h : R -> R').
Hypothesis h_zero : h (zero o) = zero o'.
Hypothesis h_one : h (one o) = one o'.
Hypothesis h_add : forall a b, h (add o a b) = add o' (h a) (h b).
Hypothesis h_mul : forall a b, h (mul o a b) = mul o' (h a) (h b).

Lemma h_sumS {A} (l : list A) f : h (sumS o l f) = sumS o' l (fun x => h (f x)).
Proof.
  unfold sumS. induction l as [|x l IH]; simpl; [exact h_zero|]. rewrite h_add, IH. reflexivity.
Qed.
Lemma h_prodS {A} (l : list A) f : h (prodS o l f) = prodS o' l (fun x => h (f x)).
Proof.
  unfold prodS. induction l as [|x l IH]; simpl; [exact h_one|]. rewrite h_mul, IH. reflexivity.
Qed.

Lemma h_rule_val G e r xi :
  h (rule_val o G e r xi) = rule_val o' G (fun l idx => h (e l idx)) r xi.
Proof.
  unfold rule_val. rewrite h_sumS. unfold sumS. f_equal. apply map_ext. intros a. apply h_prodS.
Qed.

Theorem hom_Zk G w k X xi :
  h (Zk o G w k X xi) = Zk o' G (fun l idx => h (w l idx)) k X xi.
Proof.
  revert X xi. induction k as [|k IH]; intros X xi; [exact h_zero|].
  cbn [Zk]. unfold step. destruct (is_term G X); [reflexivity|].
  rewrite h_sumS. unfold sumS. f_equal. apply map_ext_in. intros r _.
  rewrite h_rule_val. unfold rule_val, sumS. f_equal. apply map_ext. intros a.
  unfold prodS. f_equal. apply map_ext. intros ed.
  destruct (is_term G (fst ed)); [reflexivity|apply IH].
Qed.
End Hom.

Section Lax.
Context {R : Type} (o1 o2 : sr_ops R).
Hypothesis Hord : sr_ordered o2.
Hypothesis same_zero : zero o1 = zero o2.
Hypothesis same_one : one o1 = one o2.
Hypothesis same_mul : forall a b, mul o1 a b = mul o2 a b.
Hypothesis add_le : forall a b, le o2 (add o1 a b) (add o2 a b).
Hypothesis mul_mono_l : forall a b c, le o2 a b -> le o2 (mul o2 a c) (mul o2 b c).

Lemma lax_sumS {A} (l : list A) f g :
  (forall x, le o2 (f x) (g x)) -> le o2 (sumS o1 l f) (sumS o2 l g).
Proof.
  intros H. unfold sumS. induction l as [|x l IH]; simpl.
  - rewrite same_zero. apply (le_refl _ Hord).
  - eapply (le_trans _ Hord); [apply add_le|]. apply (add_mono _ Hord); [apply H|exact IH].
Qed.
Lemma lax_prodS {A} (l : list A) f g :
  (forall x, le o2 (f x) (g x)) -> le o2 (prodS o1 l f) (prodS o2 l g).
Proof.
  intros H. unfold prodS. induction l as [|x l IH]; simpl.
  - rewrite same_one. apply (le_refl _ Hord).
  - rewrite same_mul. eapply (le_trans _ Hord); [apply (mul_mono _ Hord); exact IH|].
    apply mul_mono_l. apply H.
Qed.

Theorem lax_Zk G w k X xi : le o2 (Zk o1 G w k X xi) (Zk o2 G w k X xi).
Proof.
  revert X xi. induction k as [|k IH]; intros X xi.
  - cbn. unfold zero_env. rewrite same_zero. apply (le_refl _ Hord).
  - cbn [Zk]. unfold step. destruct (is_term G X); [apply (le_refl _ Hord)|].
    apply lax_sumS. intros r. unfold rule_val. apply lax_sumS. intros a. apply lax_prodS. intros ed.
    destruct (is_term G (fst ed)); [apply (le_refl _ Hord)|apply IH].
Qed.
End Lax.

(** * support: ereal -> bool *)

Lemma is0_iff a : is0 a = true <-> qv a = Q2Qc 0.
Proof.
  unfold is0. rewrite Qeq_bool_iff. split.
  - intros H. apply Qc_is_canon. exact H.
  - intros ->. reflexivity.
Qed.

Lemma is0_add a b : is0 (nnadd a b) = is0 a && is0 b.
Proof.
  apply eq_true_iff_eq. rewrite andb_true_iff, !is0_iff.
  pose proof (proj1 (nnb_le _) (qnn a)) as Ha. pose proof (proj1 (nnb_le _) (qnn b)) as Hb.
  cbn [nnadd qv]. split.
  - intros H. assert (H' : (this (qv a + qv b) == 0)%Q) by (rewrite H; reflexivity).
    rewrite this_plus in H'.
    split; apply Qc_is_canon; cbn; lra.
  - intros [-> ->]. apply Qc_is_canon. reflexivity.
Qed.

Lemma is0_mul a b : is0 (nnmul a b) = is0 a || is0 b.
Proof.
  apply eq_true_iff_eq. rewrite orb_true_iff, !is0_iff. cbn [nnmul qv]. split.
  - intros H. destruct (Qcmult_integral _ _ H) as [H1|H1]; [left|right]; exact H1.
  - intros [-> | ->].
    + apply Qcmult_0_l.
    + apply Qcmult_0_r.
Qed.

Theorem supp_add x y : supp (eadd x y) = supp x || supp y.
Proof.
  destruct x as [a|], y as [b|]; cbn; try reflexivity.
  - rewrite is0_add. destruct (is0 a), (is0 b); reflexivity.
  - destruct (is0 a); reflexivity.
Qed.

Theorem supp_mul x y : supp (emul x y) = supp x && supp y.
Proof.
  destruct x as [a|], y as [b|]; cbn; try reflexivity.
  - rewrite is0_mul. destruct (is0 a), (is0 b); reflexivity.
  - destruct (is0 a) eqn:E; cbn; [reflexivity|reflexivity].
  - destruct (is0 b) eqn:E; cbn; [reflexivity|reflexivity].
Qed.

(** Boolean sum-product = support of the Real sum-product (every Kleene iterate) *)
Theorem supp_Zk G w k X xi :
  supp (Zk ereal_ops G w k X xi) = Zk bool_ops G (fun l idx => supp (w l idx)) k X xi.
Proof.
  apply (hom_Zk ereal_ops bool_ops supp); try reflexivity.
  - exact supp_add.
  - exact supp_mul.
Qed.

(** * max-times below plus-times on [0, inf] (Viterbi <= Log/Real in the exp reading) *)

Lemma eleb_ele x y : eleb x y = true <-> ele x y.
Proof.
  destruct x as [a|], y as [b|]; cbn; try tauto.
  - rewrite Qle_bool_iff. unfold Qcle. tauto.
  - split; [discriminate | intros []].
Qed.

Lemma emax_le_eadd x y : ele (emax x y) (eadd x y).
Proof.
  unfold emax. destruct (eleb x y) eqn:E.
  - destruct x as [a|], y as [b|]; cbn; try exact I.
    pose proof (proj1 (nnb_le _) (qnn a)) as Ha.
    unfold Qcle. rewrite this_plus. lra.
  - destruct x as [a|], y as [b|]; cbn; try exact I; try discriminate.
    pose proof (proj1 (nnb_le _) (qnn b)) as Hb.
    unfold Qcle. rewrite this_plus. lra.
Qed.

Theorem maxtimes_le_plustimes :
  sr_ring ereal_ops -> sr_ordered ereal_ops ->
  forall G w k X xi, ele (Zk maxtimes_ops G w k X xi) (Zk ereal_ops G w k X xi).
Proof.
  intros Hr Ho G w k X xi.
  apply (lax_Zk maxtimes_ops ereal_ops Ho); try reflexivity.
  - exact emax_le_eadd.
  - intros a b c Hab. change (le ereal_ops (mul ereal_ops a c) (mul ereal_ops b c)).
    rewrite (Ring_theory.SRmul_comm Hr a c), (Ring_theory.SRmul_comm Hr b c).
    apply (mul_mono _ Ho). exact Hab.
Qed.
