(** C02: what verdict 0 of the check function [fp_check] means.  If the check accepts a run
    whose values were to be judged ([chkvals = true], no ValueError), then an enclosure
    [lo, u] was certified and EVERY observed cell of EVERY nonterminal is [compat]-ible with
    the corresponding cells of [lo] and [u]; by [enclosure_sound] the least fixed point lies
    in between.  For Bool: every observed cell equals the least fixed point's. *)
From Coq Require Import QArith List Arith Bool PeanoNat Lia.
Import ListNotations.
Require Import Fggs.Model.SCC Fggs.Model.SumProduct Fggs.Model.SumProductCheck Fggs.Model.Kleene Fggs.Model.EReal Fggs.Model.Trop
               Fggs.Proofs.SP_mono Fggs.Proofs.Kleene_proofs Fggs.Model.Semiring.
Local Open Scope nat_scope.

(** * lists *)
Lemma nth_error_map' {A B} (f : A -> B) l i : nth_error (map f l) i = option_map f (nth_error l i).
Proof. revert i. induction l as [|a l IH]; intros [|i]; cbn; auto. Qed.

Lemma nth_error_ext' {A} (l1 l2 : list A) : (forall i, nth_error l1 i = nth_error l2 i) -> l1 = l2.
Proof.
  revert l2. induction l1 as [|a l1 IH]; intros [|b l2] H.
  - reflexivity.
  - specialize (H 0). discriminate.
  - specialize (H 0). discriminate.
  - pose proof (H 0) as H0. cbn in H0. injection H0 as ->. f_equal. apply IH. intros i. apply (H (S i)).
Qed.

Lemma forallb_combine3_nth{A B C} (p : A * B * C -> bool) (l1 : list A) (l2 : list B) (l3 : list C) i a b c :
  forallb p (combine (combine l1 l2) l3) = true ->
  nth_error l1 i = Some a -> nth_error l2 i = Some b -> nth_error l3 i = Some c -> p (a, b, c) = true.
Proof.
  revert l2 l3 i. induction l1 as [|x l1 IH]; intros [|y l2] [|z l3] [|i]; cbn; try discriminate.
  - intros H Ha Hb Hc. injection Ha as ->. injection Hb as ->. injection Hc as ->.
    apply andb_true_iff in H. apply H.
  - intros H. apply andb_true_iff in H as [_ H]. apply IH. exact H.
Qed.

Lemma fold_max_zero (l : list nat) m : fold_left Nat.max l m = 0 -> m = 0 /\ forall c, In c l -> c = 0.
Proof.
  revert m. induction l as [|x l IH]; intros m H; cbn [fold_left] in H.
  - split; [exact H | intros c []].
  - destruct (IH _ H) as [Hm Hl]. split; [lia|]. intros c [<-|Hc]; [lia | apply Hl; exact Hc].
Qed.

Lemma worst_zero (codes : list nat) : worst codes = 0 -> forall c, In c codes -> c = 0.
Proof.
  unfold worst. destruct (existsb (Nat.eqb 1) codes); [discriminate|].
  intros H. apply (fold_max_zero codes 0 H).
Qed.

Section CheckSound.
Context {R W B : Type} (o : sr_ops R).
Variables (rd infl : R -> R) (leb : R -> R -> bool) (far : Q -> R -> R -> bool).
Variables (of_wire : W -> R) (compat : R -> R -> B -> bool).

(** the tables of the Kleene iteration: one tabulated function per nonterminal *)
Lemma Ktab_shape G w k :
  exists f : nat -> list nat -> R,
    Ktab o rd G w k = map (fun X => (X, tabulate (lshape G X) (f X))) (nonterminals G).
Proof.
  destruct k as [|k]; cbn [Ktab].
  - exists (fun _ _ => zero o). reflexivity.
  - unfold Kstep. exists (fun X xi => rd (step o G w (env_of o (Ktab o rd G w k)) X xi)). reflexivity.
Qed.

Lemma inflate_tabmap (l : list nat) (sh : nat -> list nat) (f : nat -> list nat -> R) :
  inflate infl (map (fun X => (X, tabulate (sh X) (f X))) l)
  = map (fun X => (X, tabulate (sh X) (fun xi => infl (f X xi)))) l.
Proof.
  unfold inflate. rewrite map_map. apply map_ext. intros X. cbn [fst snd]. f_equal.
  unfold tabulate. rewrite map_map. reflexivity.
Qed.

Lemma nth_error_tabulate shape (f : list nat -> R) i xi :
  nth_error (all_assts shape) i = Some xi -> nth_error (tabulate shape f) i = Some (xi, f xi).
Proof. intros H. unfold tabulate. rewrite nth_error_map', H. reflexivity. Qed.

(** cell by cell: [cells_compat] on the tables of a nonterminal *)
Lemma cells_compat_cells sh (f g : list nat -> R) (ob : list B) :
  cells_compat compat (tabulate sh f) (tabulate sh g) ob = true ->
  length ob = length (all_assts sh)
  /\ forall i xi b, nth_error (all_assts sh) i = Some xi -> nth_error ob i = Some b ->
                    compat (f xi) (g xi) b = true.
Proof.
  unfold cells_compat. intros H. apply andb_true_iff in H as [H Hall]. apply andb_true_iff in H as [Hl _].
  apply Nat.eqb_eq in Hl. unfold tabulate in Hl at 1. rewrite map_length in Hl. split; [symmetry; exact Hl|].
  intros i xi b Hxi Hb.
  apply (forallb_combine3_nth _ _ _ _ i (xi, f xi) (xi, g xi) b Hall
           (nth_error_tabulate sh f i xi Hxi) (nth_error_tabulate sh g i xi Hxi) Hb).
Qed.

(** verdict 0, values judged, no ValueError: every observed cell is compatible with the enclosure *)
Theorem fp_check_zero_values gw ws meth kmax tol K warned obs :
  fp_check o rd infl leb far of_wire compat (gw, ws, (meth, kmax, tol), K, (false, warned, true, obs)) = 0 ->
  let G := grammar_of_w gw in
  let w := env_of o (weights_tmt of_wire G ws) in
  wf_grammar G = true
  /\ exists lo u,
       enclosure o rd infl leb G w K = Some (lo, u)
       /\ forall X, In X (nonterminals G) ->
            exists ob, obs_get obs X = Some ob
              /\ length ob = length (all_assts (lshape G X))
              /\ forall i xi b, nth_error (all_assts (lshape G X)) i = Some xi -> nth_error ob i = Some b ->
                                compat (env_of o lo X xi) (env_of o u X xi) b = true.
Proof.
  intros H G w. unfold fp_check in H. fold G in H.
  destruct (wf_grammar G) eqn:Hwf; cbn [negb] in H; [|discriminate]. split; [reflexivity|].
  destruct (scc (nt_graph G)) as [order|]; [|discriminate].
  destruct (expect_value_error G meth order); [discriminate|].
  destruct (must_warn o far tol G meth kmax order (weights_tmt of_wire G ws) && negb warned); [discriminate|].
  cbn [negb] in H. fold w in H.
  destruct (enclosure o rd infl leb G w K) as [[lo u]|] eqn:Henc; [|discriminate].
  exists lo, u. split; [reflexivity|]. intros X HX.
  pose proof (worst_zero _ H) as Hz.
  specialize (Hz _ (in_map (fun X => match obs_get obs X, tmt_get lo X, tmt_get u X with
                                     | Some ob, Some l, Some uu => if cells_compat compat l uu ob then 0 else 1
                                     | None, _, _ => 4
                                     | _, _, _ => 20 end) (nonterminals G) X HX)).
  destruct (enclosure_spec o rd infl leb G w K lo u Henc) as (j & _ & Hlo & Hu & _).
  destruct (Ktab_shape G w (4 * j)) as (f & Hf). rewrite Hf in Hlo.
  assert (Hu' : u = map (fun X => (X, tabulate (lshape G X) (fun xi => infl (f X xi)))) (nonterminals G)).
  { rewrite Hu, Hlo. apply inflate_tabmap. }
  assert (Hgl : tmt_get lo X = Some (tabulate (lshape G X) (f X))).
  { rewrite Hlo. apply (tmt_get_map_in (nonterminals G) (fun Y => tabulate (lshape G Y) (f Y)) X HX). }
  assert (Hgu : tmt_get u X = Some (tabulate (lshape G X) (fun xi => infl (f X xi)))).
  { rewrite Hu'. apply (tmt_get_map_in (nonterminals G) (fun Y => tabulate (lshape G Y) (fun xi => infl (f Y xi))) X HX). }
  rewrite Hgl, Hgu in Hz.
  destruct (obs_get obs X) as [ob|]; [|discriminate]. exists ob. split; [reflexivity|].
  destruct (cells_compat compat _ _ ob) eqn:Hc; [|discriminate].
  destruct (cells_compat_cells _ _ _ ob Hc) as [Hlen Hcells]. split; [exact Hlen|].
  intros i xi b Hxi Hb.
  assert (Hin : In xi (all_assts (lshape G X))) by (apply nth_error_In with i; exact Hxi).
  rewrite Hlo at 1. rewrite Hu' at 1.
  rewrite (env_of_tabmap_in o (nonterminals G) (lshape G) f X xi HX Hin).
  rewrite (env_of_tabmap_in o (nonterminals G) (lshape G) (fun Y xj => infl (f Y xj)) X xi HX Hin).
  apply (Hcells i xi b Hxi Hb).
Qed.

(** the other verdicts folded into 0: ValueError raised iff expected; a provable budget
    exhaustion was reported by a warning *)
Theorem fp_check_zero_control gw ws meth kmax tol K raised warned chkvals obs :
  fp_check o rd infl leb far of_wire compat (gw, ws, (meth, kmax, tol), K, (raised, warned, chkvals, obs)) = 0 ->
  let G := grammar_of_w gw in
  wf_grammar G = true
  /\ exists order, scc (nt_graph G) = Some order
       /\ raised = expect_value_error G meth order
       /\ (raised = false -> must_warn o far tol G meth kmax order (weights_tmt of_wire G ws) = true -> warned = true).
Proof.
  intros H G. unfold fp_check in H. fold G in H.
  destruct (wf_grammar G) eqn:Hwf; cbn [negb] in H; [|discriminate]. split; [reflexivity|].
  destruct (scc (nt_graph G)) as [order|]; [|discriminate]. exists order. split; [reflexivity|].
  destruct (expect_value_error G meth order).
  - destruct raised; [|discriminate]. split; [reflexivity | discriminate].
  - destruct raised; [discriminate|]. split; [reflexivity|]. intros _ Hm. rewrite Hm in H.
    destruct warned; [reflexivity | discriminate].
Qed.
End CheckSound.

(** * Bool: an accepted run's values ARE the least fixed point *)
Theorem fp_check_bool_sound gw ws meth kmax tol K warned obs :
  fp_check_bool (gw, ws, (meth, kmax, tol), K, (false, warned, true, obs)) = 0 ->
  let G := grammar_of_w gw in
  let w := env_of bool_ops (weights_tmt (fun b : bool => b) G ws) in
  exists mu : env (R:=bool),
    (* mu is the least fixed point of the grammar's equations (on the range) *)
    env_eq_on G (step bool_ops G w mu) mu
    /\ (forall v : env (R:=bool), env_le_on bool_ops G (step bool_ops G w v) v -> env_le_on bool_ops G mu v)
    /\ (exists k, env_eq_on G mu (Zk bool_ops G w k))
    (* and the implementation returned exactly mu, cell by cell, for every nonterminal *)
    /\ forall X, In X (nonterminals G) ->
         exists ob, obs_get obs X = Some ob /\ ob = map (mu X) (all_assts (lshape G X)).
Proof.
  intros H G w. unfold fp_check_bool in H.
  destruct (fp_check_zero_values bool_ops (fun x => x) (fun x => x) (fun a b : bool => implb a b)
              (fun _ a b => negb (Bool.eqb a b)) (fun b : bool => b)
              (fun lo u (b : bool) => implb lo b && implb b u) gw ws meth kmax tol K warned obs H)
    as (Hwf & lo & u & Henc & Hobs).
  fold G in Hwf, Henc, Hobs. fold w in Henc.
  destruct (enclosure_bool_exact G w K lo u Hwf Henc) as (-> & Hfix & Hleast & _ & (j & _ & Hj)).
  exists (env_of bool_ops lo). split; [exact Hfix|]. split; [exact Hleast|]. split; [exists (4 * j); exact Hj|].
  intros X HX. destruct (Hobs X HX) as (ob & Hget & Hlen & Hcells). exists ob. split; [exact Hget|].
  apply nth_error_ext'. intros i. rewrite nth_error_map'.
  destruct (nth_error (all_assts (lshape G X)) i) as [xi|] eqn:Hxi; cbn [option_map].
  - destruct (nth_error ob i) as [b|] eqn:Hb.
    + specialize (Hcells i xi b Hxi Hb). cbn beta in Hcells. f_equal.
      destruct (env_of bool_ops lo X xi), b; cbn in Hcells; try reflexivity; discriminate.
    + exfalso. apply nth_error_None in Hb. assert (i < length (all_assts (lshape G X))) by (apply nth_error_Some; congruence). lia.
  - apply nth_error_None. apply nth_error_None in Hxi. lia.
Qed.

(** * Viterbi: the least fixed point lies in every observed interval *)
Theorem fp_check_trop_sound gw ws meth kmax tol K warned obs :
  sr_ring trop_ops -> sr_ordered trop_ops ->
  fp_check_trop (gw, ws, (meth, kmax, tol), K, (false, warned, true, obs)) = 0 ->
  let G := grammar_of_w gw in
  let w := env_of trop_ops (weights_tmt trop_of G ws) in
  exists mu : env (R:=trop),
    env_eq_on G (step trop_ops G w mu) mu
    /\ (forall v : env (R:=trop), env_le_on trop_ops G (step trop_ops G w v) v -> env_le_on trop_ops G mu v)
    /\ (exists k, env_eq_on G mu (Zk trop_ops G w k))
    /\ forall X, In X (nonterminals G) ->
         exists ob, obs_get obs X = Some ob
           /\ length ob = length (all_assts (lshape G X))
           /\ forall i xi b, nth_error (all_assts (lshape G X)) i = Some xi -> nth_error ob i = Some b ->
                             tle (trop_of (fst b)) (mu X xi) /\ tle (mu X xi) (trop_of (snd b)).
Proof.
  intros Hr Ho H G w. unfold fp_check_trop in H.
  destruct (fp_check_zero_values trop_ops (fun x => x) (fun x => x) tleb far_trop trop_of compat_trop
              gw ws meth kmax tol K warned obs H) as (Hwf & lo & u & Henc & Hobs).
  fold G in Hwf, Henc, Hobs. fold w in Henc.
  destruct (enclosure_trop_exact Hr Ho G w K lo u Hwf Henc) as (-> & Hfix & Hleast & _ & (j & _ & Hj)).
  exists (env_of trop_ops lo). split; [exact Hfix|]. split; [exact Hleast|]. split; [exists (4 * j); exact Hj|].
  intros X HX. destruct (Hobs X HX) as (ob & Hget & Hlen & Hcells). exists ob. split; [exact Hget|].
  split; [exact Hlen|]. intros i xi b Hxi Hb. specialize (Hcells i xi b Hxi Hb).
  unfold compat_trop in Hcells. apply andb_true_iff in Hcells as [H1 H2].
  split; apply tleb_sound; assumption.
Qed.

(** * Real / Log: every observed interval meets a certified enclosure of the least fixed point *)
Theorem fp_check_real_sound gw ws meth kmax tol K warned obs :
  sr_ring ereal_ops -> sr_ordered ereal_ops ->
  fp_check_real (gw, ws, (meth, kmax, tol), K, (false, warned, true, obs)) = 0 ->
  let G := grammar_of_w gw in
  let w := env_of ereal_ops (weights_tmt ereal_of G ws) in
  exists lo u : env (R:=ereal),
    (* every Kleene iterate (hence their limit) is below u, and u is a pre-fixed point *)
    (forall k, env_le_on ereal_ops G (Zk ereal_ops G w k) u)
    /\ env_le_on ereal_ops G (step ereal_ops G w u) u
    (* lo is below some Kleene iterate (hence below the limit) and below every pre-fixed point *)
    /\ (exists k, env_le_on ereal_ops G lo (Zk ereal_ops G w k))
    /\ (forall v : env (R:=ereal), env_le_on ereal_ops G (step ereal_ops G w v) v -> env_le_on ereal_ops G lo v)
    (* every observed interval [olo, ohi] meets [lo, u] *)
    /\ forall X, In X (nonterminals G) ->
         exists ob, obs_get obs X = Some ob
           /\ length ob = length (all_assts (lshape G X))
           /\ forall i xi b, nth_error (all_assts (lshape G X)) i = Some xi -> nth_error ob i = Some b ->
                             compat_real (lo X xi) (u X xi) b = true.
Proof.
  intros Hr Ho H G w. unfold fp_check_real in H.
  destruct (fp_check_zero_values ereal_ops rd_real infl_real eleb far_real ereal_of compat_real
              gw ws meth kmax tol K warned obs H) as (Hwf & lo & u & Henc & Hobs).
  fold G in Hwf, Henc, Hobs. fold w in Henc.
  destruct (enclosure_real_sound Hr Ho G w K lo u Hwf Henc) as (Hup & (j & _ & _ & Hlow) & Hleast & _ & Hpre).
  exists (env_of ereal_ops lo), (env_of ereal_ops u).
  split; [exact Hup|]. split; [exact Hpre|]. split; [exists (4 * j); exact Hlow|]. split; [exact Hleast|].
  exact Hobs.
Qed.
