(** C16 -- the invariant theorem: [inv] holds initially and is preserved by every call that
    satisfies [guard_wf] (= [alias_ok]: the only remaining class is the mutation of a graph that
    a grammar uses as a rule's rhs); hence it holds in every state reached by such calls, and
    the observation-level oracle [wf_b] accepts every such state. *)
From Coq Require Import List Arith Bool Lia.
Import ListNotations.
Require Import Fggs.Model.GraphAPI Fggs.Proofs.GraphAPI_assoc Fggs.Proofs.GraphAPI_wf
        Fggs.Proofs.GraphAPI_graph Fggs.Proofs.GraphAPI_hrg.

(** * copying a grammar *)
Section CopyRules.
  Variable os : list obj.

  Definition copied_rule (rs : list rule) (base : nat) (news : list obj) (r' : rule) : Prop :=
    exists r g c, In r rs /\ r_lhs r' = r_lhs r /\ get_graph os (r_rhs r) = Some g /\ g_copy g = inl c /\
                  rule_ok (r_lhs r') c = true /\ base <= r_rhs r' /\
                  nth_error news (r_rhs r' - base) = Some (OG c).
  Definition copied_obj (rs : list rule) (o : obj) : Prop :=
    exists r g c, o = OG c /\ In r rs /\ get_graph os (r_rhs r) = Some g /\ g_copy g = inl c.

  Lemma copy_rules_spec : forall rs base rs' news,
      copy_rules os base rs = inl (rs', news) ->
      map r_lhs rs' = map r_lhs rs /\
      (forall r', In r' rs' -> copied_rule rs base news r') /\
      (forall o, In o news -> copied_obj rs o).
  Proof.
    induction rs as [|r rs IH]; intros base rs' news E; cbn in E.
    - inversion E; subst. split; [reflexivity|]. split; intros ? [].
    - destruct (get_graph os (r_rhs r)) as [g|] eqn:G; [|discriminate].
      destruct (g_copy g) as [c|] eqn:C; [|discriminate].
      destruct (negb (rule_ok (r_lhs r) c)) eqn:RO; [discriminate|].
      apply negb_false_iff in RO.
      destruct (copy_rules os (S base) rs) as [[rs0 news0]|] eqn:E0; [|discriminate].
      inversion E; subst. destruct (IH _ _ _ E0) as (A & B & D).
      split; [cbn; f_equal; assumption|]. split.
      + intros r' [<-|H].
        * exists r, g, c. cbn. rewrite Nat.sub_diag. split; [left; reflexivity|]. repeat split; auto.
        * destruct (B _ H) as (r0 & g0 & c0 & H1 & H2 & H3 & H4 & H5 & H6 & H7).
          exists r0, g0, c0. split; [right; assumption|]. do 4 (split; [assumption|]). split; [lia|].
          replace (r_rhs r' - base) with (S (r_rhs r' - S base)) by lia. exact H7.
      + intros o [<-|H].
        * exists r, g, c. split; [reflexivity|]. split; [left; reflexivity|]. split; assumption.
        * destruct (D _ H) as (r0 & g0 & c0 & H1 & H2 & H3 & H4).
          exists r0, g0, c0. split; [assumption|]. split; [right; assumption|]. split; assumption.
  Qed.

  Lemma copy_groups_spec : forall gs base gs' news,
      copy_groups os base gs = inl (gs', news) ->
      map fst gs' = map fst gs /\
      (forall k rs' r', In (k, rs') gs' -> In r' rs' ->
                        exists rs, In (k, rs) gs /\ In (r_lhs r') (map r_lhs rs) /\ copied_rule rs base news r') /\
      (forall o, In o news -> exists k rs, In (k, rs) gs /\ copied_obj rs o).
  Proof.
    induction gs as [|[k rs] gs IH]; intros base gs' news E; cbn in E.
    - inversion E; subst. split; [reflexivity|]. split; [intros ? ? ? [] | intros ? []].
    - destruct (copy_rules os base rs) as [[rs1 news1]|] eqn:E1; [|discriminate].
      destruct (copy_groups os (base + length news1) gs) as [[gs2 news2]|] eqn:E2; [|discriminate].
      inversion E; subst. destruct (copy_rules_spec _ _ _ _ E1) as (A1 & B1 & D1).
      destruct (IH _ _ _ E2) as (A2 & B2 & D2).
      split; [cbn; f_equal; assumption|]. split.
      + intros k0 rs' r' [H|H] Hr.
        * inversion H; subst. exists rs. split; [left; reflexivity|]. split.
          -- rewrite <- A1. apply in_map. assumption.
          -- destruct (B1 _ Hr) as (r0 & g0 & c0 & H1 & H2 & H3 & H4 & H5 & H6 & H7).
             exists r0, g0, c0. do 6 (split; [assumption|]).
             rewrite nth_error_app1; [assumption|]. apply nth_error_Some. congruence.
        * destruct (B2 _ _ _ H Hr) as (rs0 & H0 & HL & (r0 & g0 & c0 & H1 & H2 & H3 & H4 & H5 & H6 & H7)).
          exists rs0. split; [right; assumption|]. split; [assumption|].
          exists r0, g0, c0. do 5 (split; [assumption|]). split; [lia|].
          rewrite nth_error_app2 by lia.
          replace (r_rhs r' - base - length news1) with (r_rhs r' - (base + length news1)) by lia. exact H7.
      + intros o H. apply in_app_or in H. destruct H as [H|H].
        * exists k, rs. split; [left; reflexivity | apply D1; assumption].
        * destruct (D2 _ H) as (k0 & rs0 & H1 & H2). exists k0, rs0. split; [right; assumption | assumption].
  Qed.
End CopyRules.

Lemma in_rules_of : forall x k rs r, In (k, rs) (h_rules x) -> In r rs -> In r (rules_of (OH x)).
Proof.
  intros x k rs r H1 H2. cbn. apply in_concat. exists rs. split; [|assumption].
  change rs with (snd (k, rs)). apply in_map. assumption.
Qed.

Lemma rules_of_in : forall x r, In r (rules_of (OH x)) -> exists k rs, In (k, rs) (h_rules x) /\ In r rs.
Proof.
  intros x r H. cbn in H. apply in_concat in H. destruct H as (rs & H1 & H2).
  apply in_map_iff in H1. destruct H1 as [[k rs0] [E H1]]. cbn in E. subst. eauto.
Qed.

Lemma get_graph_ok : forall os h g, inv_os os -> get_graph os h = Some g -> graph_ok g.
Proof.
  intros os h g I H. unfold get_graph in H. destruct (nth_error os h) as [[g0|]|] eqn:E; try discriminate.
  inversion H; subst. apply (I _ _ E).
Qed.

Lemma h_copy_inv : forall os x x' news,
    inv_os os -> hrg_ok os x -> h_copy os x = inl (x', news) ->
    inv_os (os ++ OH x' :: news).
Proof.
  intros os x x' news I OK E. unfold h_copy in E.
  destruct (h_new (h_fgg x) (SLabel (h_start x))) as [[c|] r0] eqn:E0.
  2:{ destruct r0; discriminate. }
  destruct (copy_groups os (S (length os)) (h_rules x)) as [[gs news0]|] eqn:E1; [|discriminate].
  inversion E; subst x' news0. clear E.
  destruct (h_new_start _ _ _ _ E0) as [ST _].
  destruct (copy_groups_spec os _ _ _ _ E1) as (A & B & D).
  destruct OK as [T K L SR R].
  apply inv_app; [assumption|]. intros o [<-|Ho].
  - (* the new grammar *)
    cbn. split; cbn.
    + destruct T; split; assumption.
    + rewrite A. assumption.
    + intros k rs' r' H1 H2. destruct (B _ _ _ H1 H2) as (rs & H3 & H4 & _).
      apply in_map_iff in H4. destruct H4 as (r & H4 & H5). rewrite <- H4. eapply L; eauto.
    + rewrite ST. exact SR.
    + intros k rs' r' H1 H2. destruct (B _ _ _ H1 H2) as (rs & H3 & _ & (r & g & c0 & Hr & Hl & Hg & Hc & Hro & Hb & Hn)).
      destruct (R _ _ _ H3 Hr) as [RG (g1 & Hg1 & Ty1 & Ed1)].
      rewrite Hg in Hg1. inversion Hg1; subst g1.
      destruct (g_copy_ok g c0 (get_graph_ok _ _ _ I Hg) Hc) as (OKc & Xc & Edc & _).
      split; [unfold registered in *; cbn; rewrite Hl; exact RG|].
      exists c0. split; [|split].
      * unfold get_graph. rewrite nth_error_app2 by lia.
        replace (r_rhs r' - length os) with (S (r_rhs r' - S (length os))) by lia. cbn. rewrite Hn. reflexivity.
      * unfold rule_ok in Hro. apply andb_true_iff in Hro. destruct Hro as [_ Hro].
        destruct (lnat_eq_dec (el_ty (r_lhs r')) (g_type c0)); [assumption | discriminate].
      * intros k0 e0 He. unfold registered. cbn. apply (Ed1 k0 e0). apply Edc. assumption.
  - (* the copies of the rhs graphs *)
    destruct (D _ Ho) as (k & rs & H1 & (r & g & c0 & -> & Hr & Hg & Hc)).
    cbn. apply (g_copy_ok g c0 (get_graph_ok _ _ _ I Hg) Hc).
Qed.

(** * the step theorem *)
Lemma on_graph_inv : forall s c h f,
    inv s ->
    (forall g, get_graph (objs s) h = Some g ->
               graph_ok (fst (f g)) /\
               forall j x rs r ke, nth_error (objs s) j = Some (OH x) -> In (ke, rs) (h_rules x) -> In r rs -> r_rhs r = h ->
                                   el_ty (r_lhs r) = g_type (fst (f g)) /\
                                   forall k e, In (k, e) (g_edges (fst (f g))) -> registered (h_tab x) (e_label e)) ->
    inv (fst (on_graph s c h f)).
Proof.
  intros s c h f I H. unfold on_graph. destruct (get_graph (objs s) h) as [g|] eqn:G; [|exact I].
  destruct (H g eq_refl) as [A B]. destruct (f g) as [g' r]. cbn in *.
  unfold inv. cbn. unfold get_graph in G. destruct (nth_error (objs s) h) as [[g0|]|] eqn:N; try discriminate.
  inversion G; subst. eapply inv_replace_graph; eauto.
Qed.

(** graph calls that keep the type and introduce no edge label *)
Lemma on_graph_inv_same : forall s c h f,
    inv s ->
    (forall g, graph_ok g -> graph_ok (fst (f g)) /\ g_ext (fst (f g)) = g_ext g /\
               forall k e, In (k, e) (g_edges (fst (f g))) -> In (k, e) (g_edges g)) ->
    inv (fst (on_graph s c h f)).
Proof.
  intros s c h f I H. apply on_graph_inv; [assumption|]. intros g G.
  destruct (H g (get_graph_ok _ _ _ I G)) as (A & B & C). split; [assumption|].
  intros j x rs r ke Hj H1 H2 Eh.
  pose proof (I _ _ Hj) as Ho. cbn in Ho. destruct (hk_rules _ _ Ho _ _ _ H1 H2) as [R (g1 & Hg & T & E)].
  rewrite Eh, G in Hg. inversion Hg; subst g1. split.
  - unfold g_type in *. rewrite B. assumption.
  - intros k e He. eapply E. apply C. eassumption.
Qed.

Lemma on_hrg_inv : forall s h f,
    inv s -> (forall x, hrg_ok (objs s) x -> hrg_ok (objs s) (fst (f x))) -> inv (fst (on_hrg s h f)).
Proof.
  intros s h f I H. unfold on_hrg. destruct (get_hrg (objs s) h) as [x|] eqn:G; [|exact I].
  unfold get_hrg in G. destruct (nth_error (objs s) h) as [[|x0]|] eqn:N; try discriminate. inversion G; subst.
  pose proof (H x (I _ _ N)) as OK. destruct (f x) as [x' r]. cbn in *.
  unfold inv. cbn. eapply inv_replace_hrg; eauto.
Qed.

Lemma on_tab_inv : forall s b h f,
    inv s -> (forall t, tab_ok t -> tab_ok (fst (f t)) /\ tab_le t (fst (f t))) -> inv (fst (on_tab s b h f)).
Proof.
  intros s b h f I H. unfold on_tab. destruct (nth_error (objs s) h) as [o|] eqn:N; [|exact I].
  destruct (b && negb (has_interp o)); [exact I|].
  pose proof (I _ _ N) as Ho.
  destruct o as [g|x]; cbn in *.
  - destruct (H (g_tab g) (gk_tab _ Ho)) as [A B]. destruct (f (g_tab g)) as [t r]. cbn in *.
    unfold inv. cbn. eapply inv_replace_graph_same; eauto.
    destruct Ho as [a1 a2 a3 a4 a5 a6 a7]. split; cbn; auto. intros k e He. apply B. eapply a6; eauto.
  - destruct (H (h_tab x) (hk_tab _ _ Ho)) as [A B]. destruct (f (h_tab x)) as [t r]. cbn in *.
    unfold inv. cbn. eapply inv_replace_hrg; eauto.
    destruct Ho as [a1 a2 a3 a4 a5]. split; cbn; auto.
    intros k rs r0 H1 H2. eapply rule_wf_mono; [intros ? ? X; exact X | exact B | eauto].
Qed.

Lemma inv_new : forall s o, inv s -> (forall os, obj_ok os o) -> inv_os (objs s ++ [o]).
Proof. intros s o I H. apply inv_app; [exact I|]. intros o' [<-|[]]. apply H. Qed.

(** the facts the guards give about an AddEdge / NewEdge call *)
Lemma mk_edge_inv : forall s c h l ns i,
    inv s ->
    (forall g, get_graph (objs s) h = Some g -> snd (mk_edge_and_add l ns i g) = ROk ->
               forallb (fun x => forallb (fun r => negb (Nat.eqb (r_rhs r) h) ||
                                          match aget Nat.eq_dec (t_el (tab_of x)) (el_name l) with
                                          | Some l' => elabel_eqb l' l
                                          | None => false
                                          end) (rules_of x)) (objs s) = true) ->
    inv (fst (on_graph s c h (mk_edge_and_add l ns i))).
Proof.
  intros s c h l ns i I GD. apply on_graph_inv; [assumption|]. intros g G.
  pose proof (get_graph_ok _ _ _ I G) as OK.
  specialize (GD g G). unfold mk_edge_and_add in *.
  assert (SAME : graph_ok g /\
                 forall j x rs r ke, nth_error (objs s) j = Some (OH x) -> In (ke, rs) (h_rules x) -> In r rs -> r_rhs r = h ->
                                     el_ty (r_lhs r) = g_type g /\
                                     forall k e, In (k, e) (g_edges g) -> registered (h_tab x) (e_label e)).
  { split; [assumption|]. intros j x rs r ke Hj H1 H2 Eh.
    pose proof (I _ _ Hj) as Ho. cbn in Ho. destruct (hk_rules _ _ Ho _ _ _ H1 H2) as [R (g1 & Hg & T & E)].
    rewrite Eh, G in Hg. inversion Hg; subst g1. split; assumption. }
  destruct i as [i|]; [|exact SAME].
  destruct (lnat_eq_dec (el_ty l) (map n_label ns)) as [TY|]; [|exact SAME].
  set (e := Edge l ns i) in *.
  split.
  - apply g_add_edge_ok; [assumption | exact TY].
  - intros j x rs r ke Hj H1 H2 Eh. destruct SAME as [_ SAME]. destruct (SAME _ _ _ _ _ Hj H1 H2 Eh) as [T E].
    destruct (g_add_edge_shape g e) as [SX SE]. split.
    + unfold g_type. rewrite SX. assumption.
    + intros k e0 He. destruct (SE _ _ He) as [X|[-> R]]; [eapply E; eauto|].
      pose proof (GD R) as AL. rewrite forallb_forall in AL.
      specialize (AL (OH x) (nth_error_In _ _ Hj)). rewrite forallb_forall in AL.
      specialize (AL r (in_rules_of _ _ _ _ H1 H2)). rewrite Eh, Nat.eqb_refl in AL. cbn in AL.
      unfold registered. cbn. destruct (aget Nat.eq_dec (t_el (h_tab x)) (el_name l)) as [l'|]; [|discriminate].
      unfold elabel_eqb in AL. destruct (elabel_eq_dec l' l); [congruence | discriminate].
Qed.

Theorem step_inv : forall s o, inv s -> guard_wf s o = true -> inv (fst (step s o)).
Proof.
  intros s o I G3. unfold guard_wf in G3.
  destruct o; cbn [step].
  - (* NewGraph *) apply inv_new; [assumption | intros; apply empty_graph_ok].
  - (* NewFactorGraph *) apply inv_new; [assumption | intros; apply empty_graph_ok].
  - (* NewHRG *)
    destruct (h_new false s0) as [[x|] r] eqn:E; [|exact I].
    apply inv_new; [assumption | intros; cbn; eapply h_new_ok; eauto].
  - (* NewFGG *)
    destruct (h_new true s0) as [[x|] r] eqn:E; [|exact I].
    apply inv_new; [assumption | intros; cbn; eapply h_new_ok; eauto].
  - (* AddNode *)
    destruct (resolve (ctr s) [n]) as [ns c]. destruct ns as [|x [|y ns]]; try exact I.
    apply on_graph_inv_same; [assumption|]. intros g OK.
    pose proof (add_node_grows g x) as GR.
    split; [apply g_add_node_ok; assumption|]. rewrite (gr_ext _ _ GR), (gr_edges _ _ GR). auto.
  - (* NewNode *)
    destruct (resolve_id (ctr s) i) as [[i'|] c]; [|exact I].
    apply on_graph_inv_same; [assumption|]. intros g OK.
    pose proof (add_node_grows g (Node l i')) as GR.
    split; [apply g_add_node_ok; assumption|]. rewrite (gr_ext _ _ GR), (gr_edges _ _ GR). auto.
  - (* RemoveNode *)
    apply on_graph_inv_same; [assumption|]. intros g OK.
    destruct (g_remove_node_same g n) as [SE SX].
    split; [apply g_remove_node_ok; assumption|]. rewrite SE, SX. auto.
  - (* AddEdge *)
    cbn in G3. unfold resolved in *.
    destruct (resolve (ctr s) ns) as [ns' c] eqn:ER. destruct (resolve_id c i) as [i' c'] eqn:EI.
    cbn [fst] in *. apply mk_edge_inv; [assumption|]. intros g Hg R.
    assert (RS : snd (on_graph s c' h (mk_edge_and_add l ns' i')) = ROk).
    { unfold on_graph. rewrite Hg. destruct (mk_edge_and_add l ns' i' g). exact R. }
    rewrite RS in G3. cbn in G3. assumption.
  - (* NewEdge *)
    cbn in G3. unfold resolved in *.
    destruct (resolve (ctr s) ns) as [ns' c] eqn:ER. destruct (resolve_id c i) as [i' c'] eqn:EI.
    cbn [fst] in *.
    destruct ((t && nt) || (negb t && negb nt)); [exact I|].
    apply mk_edge_inv; [assumption|]. intros g Hg R.
    assert (RS : snd (on_graph s c' h (mk_edge_and_add (EL name (map n_label ns') t) ns' i')) = ROk).
    { unfold on_graph. rewrite Hg. destruct (mk_edge_and_add _ ns' i' g). exact R. }
    rewrite RS in G3. cbn in G3. assumption.
  - (* RemoveEdge *)
    apply on_graph_inv_same; [assumption|]. intros g OK.
    split; [apply g_remove_edge_ok; assumption|]. split; [|apply g_remove_edge_edges].
    unfold g_remove_edge. destruct (negb (amem ident_eq_dec (g_edges g) (e_id e))); reflexivity.
  - (* SetExt *)
    cbn in G3. unfold resolved in *.
    destruct (resolve (ctr s) ns) as [ns' c] eqn:ER. cbn [fst] in *.
    apply on_graph_inv; [assumption|]. intros g Hg.
    pose proof (get_graph_ok _ _ _ I Hg) as OK.
    split; [apply g_set_ext_ok; assumption|].
    intros j x rs r ke Hj H1 H2 Eh.
    pose proof (I _ _ Hj) as Ho. cbn in Ho. destruct (hk_rules _ _ Ho _ _ _ H1 H2) as [R (g1 & Hg1 & T & E)].
    rewrite Eh, Hg in Hg1. inversion Hg1; subst g1.
    destruct (g_set_ext_shape g ns') as [SE [[RO SX]|[RE SI]]].
    + assert (RS : snd (on_graph s c h (fun g => g_set_ext g ns')) = ROk).
      { unfold on_graph. rewrite Hg. destruct (g_set_ext g ns'). exact RO. }
      rewrite RS in G3. cbn in G3.
      rewrite forallb_forall in G3. specialize (G3 (OH x) (nth_error_In _ _ Hj)).
      rewrite forallb_forall in G3. specialize (G3 r (in_rules_of _ _ _ _ H1 H2)).
      rewrite Eh, Nat.eqb_refl in G3. cbn in G3.
      destruct (lnat_eq_dec (el_ty (r_lhs r)) (map n_label ns')); [|discriminate].
      split; [unfold g_type; rewrite SX; assumption|]. rewrite SE. assumption.
    + rewrite SI. split; assumption.
  - (* Copy *)
    destruct (nth_error (objs s) h) as [[g|x]|] eqn:N; [| |exact I].
    + destruct (g_copy g) as [c|] eqn:C; [|exact I].
      apply inv_new; [assumption|]. intros os. cbn.
      apply (g_copy_ok g c (I _ _ N) C).
    + destruct (h_copy (objs s) x) as [[c news]|] eqn:C; [|exact I].
      unfold inv. cbn. eapply h_copy_inv; eauto. apply (I _ _ N).
  - (* MkRule *)
    destruct (get_graph (objs s) g); exact I.
  - (* AddRule *)
    destruct (get_graph (objs s) g) as [g0|] eqn:Hg; [|exact I].
    destruct (rule_ok l g0) eqn:RO; [|exact I].
    apply (on_hrg_inv s h (fun x => h_add_rule x (Rule l g) g0)); [assumption|].
    intros x OK. apply h_add_rule_ok; assumption.
  - (* NewRule *)
    destruct (get_graph (objs s) g) as [g0|] eqn:Hg; [|exact I].
    destruct (rule_ok (EL name (g_type g0) false) g0) eqn:RO; [|exact I].
    apply (on_hrg_inv s h (fun x => h_add_rule x (Rule (EL name (g_type g0) false) g) g0)); [assumption|].
    intros x OK. apply h_add_rule_ok; assumption.
  - (* SetStart *)
    apply on_hrg_inv; [assumption|]. intros x OK. apply h_set_start_ok. assumption.
  - (* AddNodeLabel *)
    apply on_tab_inv; [assumption|]. intros t0 T. cbn. apply add_node_label_ok. assumption.
  - (* AddEdgeLabel *)
    apply on_tab_inv; [assumption|]. intros t0 T.
    destruct (t_add_edge_label t0 l) as [t1 r1] eqn:E.
    destruct (add_edge_label_spec _ _ _ _ E T) as (A & B & _). cbn. split; assumption.
  - apply on_tab_inv; [assumption|]. intros t0 T. apply add_domain_ok. assumption.
  - apply on_tab_inv; [assumption|]. intros t0 T. apply add_factor_ok. assumption.
  - apply on_tab_inv; [assumption|]. intros t0 T. apply add_domain_ok. assumption.
  - apply on_tab_inv; [assumption|]. intros t0 T. apply new_finite_factor_ok. assumption.
  - apply on_tab_inv; [assumption|]. intros t0 T. apply upd_weights_ok. assumption.
  - (* EqOp *)
    destruct (nth_error (objs s) h1), (nth_error (objs s) h2); exact I.
Qed.

Lemma inv_init : inv init.
Proof. intros k o H. destruct k; discriminate. Qed.

(** every call of the sequence satisfies the guard in the state it is issued in *)
Fixpoint all_guarded (s : state) (ops : list op) : bool :=
  match ops with
  | [] => true
  | o :: ops => guard_wf s o && all_guarded (fst (step s o)) ops
  end.

Theorem run_inv : forall ops s, inv s -> all_guarded s ops = true -> inv (run s ops).
Proof.
  induction ops as [|o ops IH]; intros s I G; cbn in *; [exact I|].
  apply andb_true_iff in G. destruct G as [G1 G2].
  unfold run in *. cbn. apply IH; [apply step_inv; assumption | assumption].
Qed.
