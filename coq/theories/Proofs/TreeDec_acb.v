(** [tree_decomposition(method='acb')] returns a valid tree decomposition whenever it returns --
    for EVERY simple undirected graph (unbounded).

    The certificates stored in the chart of [acb_connected] satisfy [cert_ok i j t]: [t] is a rooted
    tree decomposition of G[j] + clique(i) whose root bag contains the separator [i]; a component
    [j - i] of G - i is closed under neighbours outside [i], so every edge with an end point in it
    is covered inside the certificate.  The bags of a certificate are pairwise different (each bag
    contains a vertex of the part it was built for that no bag outside that part contains), which is
    what makes the un-rooting into a dict keyed by bag faithful ([TreeDec_rtree]). *)
From Coq Require Import List Arith Bool PeanoNat Lia Permutation Setoid Morphisms.
Import ListNotations.
Require Import Fggs.Model.TreeDec Fggs.Proofs.TreeDec_graph Fggs.Proofs.TreeDec_tdok
               Fggs.Proofs.TreeDec_elim Fggs.Proofs.TreeDec_lower Fggs.Proofs.TreeDec_rtree
               Fggs.Proofs.TreeDec_cc.

(** * generic list facts *)
Lemma FOP_impl {A} (R R' : A -> A -> Prop) l :
  (forall a b, In a l -> In b l -> R a b -> R' a b) -> ForallOrdPairs R l -> ForallOrdPairs R' l.
Proof.
  intros H F. induction F as [|a l Ha Hl IH]; constructor.
  - rewrite Forall_forall in *. intros b Hb. apply H; cbn; auto.
  - apply IH. intros x y Hx Hy. apply H; cbn; auto.
Qed.
Lemma FOP_map {A B} (f : A -> B) (R : B -> B -> Prop) l :
  ForallOrdPairs (fun a b => R (f a) (f b)) l <-> ForallOrdPairs R (map f l).
Proof.
  induction l as [|a l IH]; cbn [map].
  - split; constructor.
  - split; intro F; inversion F as [|? ? Ha Hl]; subst; constructor.
    + rewrite Forall_forall in *. intros b Hb. apply in_map_iff in Hb. destruct Hb as [x [<- Hx]]. auto.
    + now apply IH.
    + rewrite Forall_forall in *. intros b Hb. apply Ha. now apply in_map.
    + now apply IH.
Qed.
Lemma set_eqb_false_wit a b w : In w b -> ~ In w a -> set_eqb a b = false.
Proof.
  intros Hb Ha. apply not_true_is_false. intro E. apply Ha. apply (set_eqb_In a b w E). exact Hb.
Qed.
Definition seteq (a b : list nat) : Prop := forall x, In x a <-> In x b.
Lemma set_eqb_seteq a b : set_eqb a b = true -> seteq a b.
Proof. intros E x. now apply set_eqb_In. Qed.

(** * children labelled with the vertex set they are responsible for *)
Record kid_ok (b : bag) (t : rtree) (c : list nat) : Prop := {
  k_sub : forall bg w, In bg (rbags t) -> In w bg -> In w b \/ In w c;
  k_wit : forall bg, In bg (rbags t) -> exists w, In w bg /\ In w c;
  k_root : forall x, occ x t -> In x b -> In x (root_bag t);
  k_disj : forall x, In x c -> ~ In x b;
  k_RI : rRI t;
  k_dist : sdist (rbags t) }.
Definition kids_ok (b : bag) (ks : list (rtree * list nat)) : Prop :=
  Forall (fun k => kid_ok b (fst k) (snd k)) ks /\
  ForallOrdPairs (fun k k' => disjoint (snd k) (snd k')) ks.

Lemma occ_sub b t c x : kid_ok b t c -> occ x t -> In x b \/ In x c.
Proof. intros K [bg [H1 H2]]. eapply k_sub; eauto. Qed.

Lemma kids_sepkids b ks : kids_ok b ks -> sepkids b (map fst ks).
Proof.
  intros [H1 H2]. induction ks as [|[t c] ks IH]; cbn [map sepkids fst]; auto.
  inversion H1 as [|? ? K1 K2]; subst. inversion H2 as [|? ? D1 D2]; subst. cbn [fst snd] in *.
  split; [|split].
  - intros x Ho Hb. eapply k_root; eauto.
  - intros x Ho [t' [Ht' Ho']]. destruct (in_dec Nat.eq_dec x b) as [|Hn]; auto. exfalso.
    apply in_map_iff in Ht'. destruct Ht' as [[t2 c2] [E Hk]]. cbn in E. subst t2.
    rewrite Forall_forall in K2, D1. specialize (K2 _ Hk). specialize (D1 _ Hk). cbn [fst snd] in *.
    destruct (occ_sub _ _ _ _ K1 Ho) as [|Hc]; [contradiction|].
    destruct (occ_sub _ _ _ _ K2 Ho') as [|Hc2]; [contradiction|].
    exact (D1 x Hc Hc2).
  - apply IH; auto.
Qed.

Lemma kids_sdist b ks : kids_ok b ks -> sdist (b :: fbags (map fst ks)).
Proof.
  intros [H1 H2]. cbn [sdist]. split.
  - intros bg Hbg. unfold fbags in Hbg. apply in_flat_map in Hbg. destruct Hbg as [t [Ht Hbg]].
    apply in_map_iff in Ht. destruct Ht as [[t2 c] [E Hk]]. cbn in E; subst t2.
    rewrite Forall_forall in H1. specialize (H1 _ Hk). cbn [fst snd] in H1.
    destruct (k_wit _ _ _ H1 bg Hbg) as [w [Hw Hc]].
    apply (set_eqb_false_wit b bg w Hw). eapply k_disj; eauto.
  - induction ks as [|[t c] ks IH]; cbn [map fst]; [exact I|].
    inversion H1 as [|? ? K1 K2]; subst. inversion H2 as [|? ? D1 D2]; subst. cbn [fst snd] in *.
    rewrite fbags_cons. apply sdist_app. split; [eapply k_dist; eauto|]. split; [apply IH; auto|].
    intros bg bg' Hbg Hbg'. unfold fbags in Hbg'. apply in_flat_map in Hbg'.
    destruct Hbg' as [t' [Ht' Hbg']].
    apply in_map_iff in Ht'. destruct Ht' as [[t2 c2] [E Hk]]. cbn in E; subst t2.
    rewrite Forall_forall in K2, D1. specialize (K2 _ Hk). specialize (D1 _ Hk). cbn [fst snd] in *.
    destruct (k_wit _ _ _ K2 bg' Hbg') as [w [Hw Hc2]].
    apply (set_eqb_false_wit bg bg' w Hw). intro Hwb.
    destruct (k_sub _ _ _ K1 bg w Hbg Hwb) as [Hb|Hc].
    + revert Hb. eapply k_disj; eauto.
    + exact (D1 w Hc Hc2).
Qed.

Lemma kids_rRI b ks : kids_ok b ks -> rRI (RNode b (map fst ks)).
Proof.
  intro K. constructor; [|now apply kids_sepkids].
  destruct K as [H1 _]. rewrite Forall_forall in *. intros t Ht.
  apply in_map_iff in Ht. destruct Ht as [k [<- Hk]]. eapply k_RI. apply (H1 k Hk).
Qed.

Lemma occ_node b cs x : occ x (RNode b cs) <-> In x b \/ exists c, In c cs /\ occ x c.
Proof.
  unfold occ. rewrite rbags_node. split.
  - intros [bg [[<-|Hbg] Hx]]; [auto|]. right. unfold fbags in Hbg. apply in_flat_map in Hbg.
    destruct Hbg as [c [Hc Hbg]]. exists c. split; auto. exists bg. auto.
  - intros [Hx|[c [Hc [bg [Hbg Hx]]]]].
    + exists b. cbn; auto.
    + exists bg. split; auto. right. unfold fbags. apply in_flat_map. exists c. auto.
Qed.
Lemma in_rbags_node b cs bg : In bg (rbags (RNode b cs)) <-> bg = b \/ exists c, In c cs /\ In bg (rbags c).
Proof.
  rewrite rbags_node. cbn [In]. unfold fbags. rewrite in_flat_map. split.
  - intros [<-|H]; auto.
  - intros [->|H]; auto.
Qed.

Section ACB.
  Variable g : graph.
  Hypothesis W : wf_graph g.

  (** * chart entries and certificates *)
  Record entry_ok (i j : list nat) : Prop := {
    e_sub : incl i j;
    e_V : incl j (gverts g);
    e_nodup : NoDup j;
    e_ne : exists x, In x j /\ ~ In x i;
    e_closed : forall x y, In x j -> ~ In x i -> In y (nbrs g x) -> In y j }.

  Record cert_ok (i j : list nat) (t : rtree) : Prop := {
    c_root : incl i (root_bag t);
    c_sub : forall b, In b (rbags t) -> incl b j;
    c_wit : forall b, In b (rbags t) -> exists w, In w b /\ In w j /\ ~ In w i;
    c_vertex : forall x, In x j -> ~ In x i -> occ x t;
    c_edge : forall x y, In x j -> ~ In x i -> In y (nbrs g x) ->
               exists b, In b (rbags t) /\ In x b /\ In y b;
    c_RI : rRI t;
    c_dist : sdist (rbags t);
    c_nodup : forall b, In b (rbags t) -> NoDup b }.

  Lemma entry_ok_ext i i' j : seteq i i' -> entry_ok i j -> entry_ok i' j.
  Proof.
    intros Hi [A1 A2 A3 A4 A5]. constructor; auto.
    - intros x Hx. apply A1. now apply Hi.
    - destruct A4 as [x [H1 H2]]. exists x. split; auto. intro H. apply H2. now apply Hi.
    - intros x y Hx Hn Hy. apply (A5 x y); auto. intro H. apply Hn. now apply Hi.
  Qed.
  Lemma cert_ok_ext i i' j j' t : seteq i i' -> seteq j j' -> cert_ok i j t -> cert_ok i' j' t.
  Proof.
    intros Hi Hj [A1 A2 A3 A4 A5 A6 A7 A8]. constructor; auto.
    - intros x Hx. apply A1. now apply Hi.
    - intros b Hb x Hx. apply Hj. now apply (A2 b Hb).
    - intros b Hb. destruct (A3 b Hb) as [w [H1 [H2 H3]]]. exists w. split; auto. split.
      + now apply Hj.
      + intro H. apply H3. now apply Hi.
    - intros x Hx Hn. apply A4; [now apply Hj|]. intro H. apply Hn. now apply Hi.
    - intros x y Hx Hn Hy. apply A5; auto; [now apply Hj|]. intro H. apply Hn. now apply Hi.
  Qed.

  Lemma leaf_cert i j : entry_ok i j -> cert_ok i j (RNode j []).
  Proof.
    intros [A1 A2 A3 A4 A5]. constructor; cbn [root_bag rbags flat_map].
    - exact A1.
    - intros b [<-|[]]. apply incl_refl.
    - intros b [<-|[]]. destruct A4 as [x [H1 H2]]. exists x. auto.
    - intros x Hx _. exists j. cbn; auto.
    - intros x y Hx Hn Hy. exists j. split; [cbn; auto|]. split; auto. eapply A5; eauto.
    - constructor; [constructor|exact I].
    - split; [intros c []|exact I].
    - intros b [<-|[]]. exact A3.
  Qed.

  Lemma cert_kid m l t bg c : cert_ok m l t -> incl m bg ->
    (forall x, In x c <-> In x l /\ ~ In x m) -> (forall x, In x c -> ~ In x bg) -> kid_ok bg t c.
  Proof.
    intros [A1 A2 A3 A4 A5 A6 A7 A8] Hm Hc Hd. constructor; auto.
    - intros b w Hb Hw. destruct (in_dec Nat.eq_dec w m) as [H|H]; [left; auto|].
      right. apply Hc. split; auto. apply (A2 b Hb). exact Hw.
    - intros b Hb. destruct (A3 b Hb) as [w [H1 [H2 H3]]]. exists w. split; auto. apply Hc. auto.
    - intros x [b [Hb Hx]] Hxb. apply A1.
      destruct (in_dec Nat.eq_dec x m) as [H|H]; auto. exfalso.
      apply (Hd x); auto. apply Hc. split; auto. apply (A2 b Hb). exact Hx.
  Qed.

  (** the certificate built in the [for v in j - i] loop *)
  Definition kids_src (bg : bag) (ks : list (rtree * list nat)) : Prop :=
    forall k, In k ks -> exists m l, incl m bg /\ cert_ok m l (fst k) /\
                                    (forall x, In x (snd k) <-> In x l /\ ~ In x m).

  Lemma node_cert i j v ks :
    NoDup i -> entry_ok i j -> In v j -> ~ In v i ->
    kids_ok (set_add v i) ks -> kids_src (set_add v i) ks ->
    (forall x, (In x j /\ ~ In x (set_add v i)) <-> exists k, In k ks /\ In x (snd k)) ->
    cert_ok i j (RNode (set_add v i) (map fst ks)).
  Proof.
    intros Ni [A1 A2 A3 A4 A5] Hv Hvi K S U.
    set (bg := set_add v i) in *.
    assert (Hbg : forall x, In x bg <-> x = v \/ In x i) by (intro x; apply set_add_In).
    assert (Hbgj : incl bg j).
    { intros x Hx. apply Hbg in Hx. destruct Hx as [->|Hx]; auto. }
    assert (Hkid : forall t, In t (map fst ks) -> exists k m l, In k ks /\ fst k = t /\ incl m bg /\
                     cert_ok m l t /\ (forall x, In x (snd k) <-> In x l /\ ~ In x m)).
    { intros t Ht. apply in_map_iff in Ht. destruct Ht as [k [<- Hk]].
      destruct (S k Hk) as [m [l [H1 [H2 H3]]]]. exists k, m, l. auto. }
    assert (Hlj : forall k m l x, In k ks -> incl m bg -> (forall x, In x (snd k) <-> In x l /\ ~ In x m) ->
                    In x l -> In x j).
    { intros k m l x Hk Hm Hl Hx. destruct (in_dec Nat.eq_dec x m) as [H|H].
      - apply Hbgj. auto.
      - assert (Hs : In x (snd k)) by (apply Hl; auto).
        assert (Hu : exists k, In k ks /\ In x (snd k)) by eauto.
        apply U in Hu. tauto. }
    constructor.
    - cbn [root_bag]. intros x Hx. apply Hbg. auto.
    - intros b Hb. apply in_rbags_node in Hb. destruct Hb as [->|[t [Ht Hb]]]; [exact Hbgj|].
      destruct (Hkid t Ht) as [k [m [l [Hk [_ [Hm [C Hl]]]]]]].
      intros x Hx. apply (Hlj k m l x Hk Hm Hl). apply (c_sub _ _ _ C b Hb). exact Hx.
    - intros b Hb. apply in_rbags_node in Hb. destruct Hb as [->|[t [Ht Hb]]].
      + exists v. split; [apply Hbg; auto|auto].
      + destruct (Hkid t Ht) as [k [m [l [Hk [_ [Hm [C Hl]]]]]]].
        destruct (c_wit _ _ _ C b Hb) as [w [H1 [H2 H3]]]. exists w. split; auto.
        assert (Hs : In w (snd k)) by (apply Hl; auto).
        assert (Hu : exists k, In k ks /\ In w (snd k)) by eauto.
        apply U in Hu. destruct Hu as [Hu1 Hu2]. split; auto.
        intro Hwi. apply Hu2. apply Hbg. auto.
    - intros x Hx Hxi. apply occ_node. destruct (Nat.eq_dec x v) as [->|Hne].
      + left. apply Hbg. auto.
      + right. assert (Hu : In x j /\ ~ In x bg) by (split; auto; rewrite Hbg; tauto).
        apply U in Hu. destruct Hu as [k [Hk Hs]].
        destruct (S k Hk) as [m [l [Hm [C Hl]]]]. exists (fst k). split; [now apply in_map|].
        apply Hl in Hs. apply (c_vertex _ _ _ C); tauto.
    - intros x y Hx Hxi Hy.
      assert (Hyj : In y j) by (eapply A5; eauto).
      assert (Hin : forall a b0, In a j -> ~ In a bg -> In b0 (nbrs g a) ->
                exists b, In b (rbags (RNode bg (map fst ks))) /\ In a b /\ In b0 b).
      { intros a b0 Ha Hab Hb0. assert (Hu : In a j /\ ~ In a bg) by auto.
        apply U in Hu. destruct Hu as [k [Hk Hs]].
        destruct (S k Hk) as [m [l [Hm [C Hl]]]]. apply Hl in Hs.
        destruct (c_edge _ _ _ C a b0) as [b [Hb [H1 H2]]]; try tauto.
        exists b. split; auto. apply in_rbags_node. right. exists (fst k). split; auto. now apply in_map. }
      destruct (in_dec Nat.eq_dec x bg) as [Hxb|Hxb]; destruct (in_dec Nat.eq_dec y bg) as [Hyb|Hyb].
      + exists bg. split; [apply in_rbags_node; auto|auto].
      + destruct (Hin y x Hyj Hyb) as [b [Hb [H1 H2]]]; [eapply wf_sym; eauto|]. exists b. auto.
      + apply Hin; auto.
      + apply Hin; auto.
    - now apply kids_rRI.
    - rewrite rbags_node. now apply kids_sdist.
    - intros b Hb. apply in_rbags_node in Hb. destruct Hb as [->|[t [Ht Hb]]].
      + now apply set_add_NoDup.
      + destruct (Hkid t Ht) as [k [m [l [Hk [_ [Hm [C Hl]]]]]]]. apply (c_nodup _ _ _ C b Hb).
  Qed.

  (** * the chart *)
  Definition row_ok (i : list nat) (row : list (bag * cell)) : Prop :=
    (forall q, In q row -> entry_ok i (fst q) /\
                           forall t, cell_yes (snd q) = Some t -> cert_ok i (fst q) t) /\
    ForallOrdPairs (fun q q' => forall x, In x (fst q) -> In x (fst q') -> In x i) row /\
    (forall x, In x (gverts g) -> ~ In x i -> exists q, In q row /\ In x (fst q)).
  Definition key_ok (k : nat) (i : list nat) : Prop :=
    NoDup i /\ incl i (gverts g) /\ length i = k.
  Definition chart_ok (k : nat) (ch : chart_t) : Prop :=
    forall p, In p ch -> key_ok k (fst p) /\ row_ok (fst p) (snd p).

  Lemma row_ok_ext i i' row : seteq i i' -> row_ok i row -> row_ok i' row.
  Proof.
    intros Hi [R1 [R2 R3]]. split; [|split].
    - intros q Hq. destruct (R1 q Hq) as [E C]. split.
      + eapply entry_ok_ext; eauto.
      + intros t Ht. eapply cert_ok_ext; [exact Hi|intro; reflexivity|auto].
    - eapply FOP_impl; [|exact R2]. cbn beta. intros a b _ _ H x Ha Hb. apply Hi. auto.
    - intros x Hx Hn. apply R3; auto. intro H. apply Hn. now apply Hi.
  Qed.

  Lemma chart_get_spec ch i row : chart_get ch i = Some row ->
    exists p, In p ch /\ snd p = row /\ set_eqb (fst p) i = true.
  Proof.
    induction ch as [|p ch IH]; cbn [chart_get]; intro H; [discriminate|].
    destruct (set_eqb (fst p) i) eqn:E.
    - inversion H; subst. exists p. cbn; auto.
    - destruct (IH H) as [p' [H1 H2]]. exists p'. cbn; auto.
  Qed.
  Lemma chart_get_ok k ch i row : chart_ok k ch -> chart_get ch i = Some row -> row_ok i row.
  Proof.
    intros C H. destruct (chart_get_spec ch i row H) as [p [Hp [<- E]]].
    eapply row_ok_ext; [apply set_eqb_seteq; exact E|]. apply (C p Hp).
  Qed.

  Lemma row_set_ok i row j c : row_ok i row ->
    (forall t q, cell_yes c = Some t -> In q row -> set_eqb (fst q) j = true -> cert_ok i (fst q) t) ->
    row_ok i (row_set row j c).
  Proof.
    intros [R1 [R2 R3]] Hc. unfold row_set. split; [|split].
    - intros q' Hq'. apply in_map_iff in Hq'. destruct Hq' as [q [<- Hq]].
      destruct (R1 q Hq) as [E C]. destruct (set_eqb (fst q) j) eqn:Ej; cbn [fst snd]; split; auto;
        intros t Ht; eapply Hc; eauto.
    - apply FOP_map. eapply FOP_impl; [|exact R2]. cbn beta. intros a b _ _ H x.
      destruct (set_eqb (fst a) j); destruct (set_eqb (fst b) j); cbn [fst]; apply H.
    - intros x Hx Hn. destruct (R3 x Hx Hn) as [q [Hq Hxq]].
      exists (if set_eqb (fst q) j then (fst q, c) else q). split.
      + apply in_map_iff. exists q. auto.
      + destruct (set_eqb (fst q) j); auto.
  Qed.

  Lemma chart_set_ok k ch i j c : chart_ok k ch ->
    (forall t, cell_yes c = Some t -> cert_ok i j t) -> chart_ok k (chart_set ch i j c).
  Proof.
    intros C Hc p' Hp'. unfold chart_set in Hp'. apply in_map_iff in Hp'. destruct Hp' as [p [<- Hp]].
    destruct (C p Hp) as [K R]. destruct (set_eqb (fst p) i) eqn:Ei; cbn [fst snd]; split; auto.
    apply row_set_ok; auto. intros t q Ht Hq Ej.
    eapply cert_ok_ext; [| |apply (Hc t Ht)].
    - intro x. symmetry. now apply set_eqb_In.
    - intro x. symmetry. now apply set_eqb_In.
  Qed.

  (** * the inner loops of [acb_connected] *)
  Section TryV.
    Variables (k : nat) (ch : chart_t) (i j : list nat) (v : nat).
    Hypothesis CH : chart_ok k ch.
    Let bg := set_add v i.
    Let jb := set_diff j bg.

    Definition st_ok (st : list nat * list rtree) : Prop :=
      exists ks, snd st = map fst ks /\ kids_ok bg ks /\ kids_src bg ks /\
                 (forall x, In x (fst st) <-> exists k0, In k0 ks /\ In x (snd k0)) /\
                 (forall x, In x (fst st) -> In x jb).

    Lemma try_l_none m q : try_l jb m None q = None.
    Proof. reflexivity. Qed.
    Lemma fold_try_l_none m row : fold_left (try_l jb m) row None = None.
    Proof. induction row as [|q row IH]; cbn [fold_left]; auto. Qed.

    Lemma try_l_ok m q st st' : incl m bg ->
      (forall t, cell_yes (snd q) = Some t -> cert_ok m (fst q) t) ->
      st_ok st -> try_l jb m (Some st) q = Some st' -> st_ok st'.
    Proof.
      intros Hm Hq Hst H. destruct st as [union children]. unfold try_l in H.
      match type of H with context [cell_yes ?s] => destruct (cell_yes s) as [t|] eqn:Ec end;
        [|inversion H; subst; exact Hst].
      match type of H with context [subset ?a jb] => set (lm := a) in * end.
      destruct (subset lm jb) eqn:Es; [|inversion H; subst; exact Hst].
      destruct (length (set_inter lm union) =? 0) eqn:El.
      2:{ destruct (subset lm union); [inversion H; subst; exact Hst|discriminate]. }
      inversion H; subst st'. clear H.
      apply subset_incl in Es. apply Nat.eqb_eq in El.
      assert (Hdis : forall x, In x lm -> ~ In x union).
      { intros x H1 H2. assert (Hi : In x (set_inter lm union)) by (apply set_inter_In; auto).
        destruct (set_inter lm union); [destruct Hi|discriminate]. }
      destruct Hst as [ks [H1 [H2 [H3 [H4 H5]]]]]. cbn [fst snd] in *.
      assert (Hlm : forall x, In x lm <-> In x (fst q) /\ ~ In x m) by (intro x; apply set_diff_In).
      exists (ks ++ [(t, lm)]). cbn [fst snd]. split; [|split; [|split; [|split]]].
      - rewrite map_app, H1. reflexivity.
      - destruct H2 as [K1 K2]. split.
        + apply Forall_app. split; auto. constructor; [|constructor]. cbn [fst snd].
          apply (cert_kid m (fst q)); auto.
          intros x Hx. apply Es in Hx. unfold jb in Hx. apply set_diff_In in Hx. tauto.
        + apply FOP_snoc; auto. intros k0 Hk0 x Hx. cbn [snd]. intro Hxl.
          apply (Hdis x Hxl). apply H4. eauto.
      - intros k0 Hk0. apply in_app_or in Hk0. destruct Hk0 as [Hk0|[<-|[]]]; [auto|].
        exists m, (fst q). cbn [fst snd]. auto.
      - intro x. rewrite set_union_In, H4. split.
        + intros [[k0 [Hk0 Hx]]|Hx].
          * exists k0. split; auto. apply in_or_app. auto.
          * exists (t, lm). split; [apply in_or_app; right; cbn; auto|auto].
        + intros [k0 [Hk0 Hx]]. apply in_app_or in Hk0. destruct Hk0 as [Hk0|[<-|[]]]; eauto.
      - intros x Hx. apply set_union_In in Hx. destruct Hx; auto.
    Qed.

    Lemma fold_try_l_ok m row : incl m bg ->
      (forall q t, In q row -> cell_yes (snd q) = Some t -> cert_ok m (fst q) t) ->
      forall st st', st_ok st -> fold_left (try_l jb m) row (Some st) = Some st' -> st_ok st'.
    Proof.
      intros Hm. induction row as [|q row IH]; intros Hq st st' Hst H; cbn [fold_left] in H.
      - inversion H; subst; auto.
      - destruct (try_l jb m (Some st) q) as [st1|] eqn:E.
        + apply (IH (fun q0 t H0 => Hq q0 t (or_intror H0)) st1 st'); auto.
          eapply try_l_ok; eauto. intros t. apply Hq. cbn; auto.
        + rewrite fold_try_l_none in H. discriminate.
    Qed.

    Definition tv_step (st : option (list nat * list rtree)) (u : nat) :=
      let m := set_remove u bg in
      match chart_get ch m with
      | Some row => fold_left (try_l jb m) row st
      | None => st
      end.
    Lemma tv_step_ok ost u st1 : (forall st, ost = Some st -> st_ok st) ->
      tv_step ost u = Some st1 -> st_ok st1.
    Proof.
      intros Hst H. unfold tv_step in H.
      destruct (chart_get ch (set_remove u bg)) as [row|] eqn:Eg; [|auto].
      destruct ost as [st|]; [|rewrite fold_try_l_none in H; discriminate].
      pose proof (chart_get_ok k ch _ row CH Eg) as [R1 _].
      eapply (fold_try_l_ok (set_remove u bg) row); eauto.
      - intros x Hx. apply set_remove_In in Hx. tauto.
      - intros q t Hq. apply (R1 q Hq).
    Qed.
    Lemma tv_fold_ok us : forall ost st', (forall st, ost = Some st -> st_ok st) ->
      fold_left tv_step us ost = Some st' -> st_ok st'.
    Proof.
      induction us as [|u us IH]; intros ost st' Hst H; cbn [fold_left] in H; [auto|].
      apply (IH (tv_step ost u) st'); auto. intros st1. now apply tv_step_ok.
    Qed.
    Lemma st_ok_init : st_ok ([], []).
    Proof.
      exists []. split; [reflexivity|]. split; [split; constructor|]. split; [intros k0 []|].
      split; [|intros x []]. intro x. split; [intros []|intros [k0 [[] _]]].
    Qed.
  End TryV.

  Lemma try_vs_ok k ch i j : chart_ok k ch -> NoDup i -> entry_ok i j ->
    forall vs t, (forall v, In v vs -> In v j /\ ~ In v i) ->
      try_vs ch i j vs = Some (Some t) -> cert_ok i j t.
  Proof.
    intros CH Ni E. induction vs as [|v vs IH]; intros t Hvs H; cbn [try_vs] in H; [discriminate|].
    match type of H with
    | match ?s with _ => _ end = _ => destruct s as [[union children]|] eqn:Est; [|discriminate]
    end.
    destruct (set_eqb union (set_diff j (set_add v i))) eqn:Eu.
    - inversion H; subst t. clear H.
      assert (Hst : st_ok i j v (union, children)).
      { apply (tv_fold_ok k ch i j v CH i (Some ([], []))); [|exact Est].
        intros st Hs. inversion Hs; subst. apply st_ok_init. }
      destruct Hst as [ks [H1 [H2 [H3 [H4 H5]]]]]. cbn [fst snd] in *. subst children.
      destruct (Hvs v (or_introl eq_refl)) as [Hvj Hvi].
      apply node_cert; auto.
      intro x. rewrite <- H4. rewrite (set_eqb_In _ _ x Eu). rewrite set_diff_In. reflexivity.
    - apply IH; auto. intros v0 Hv0. apply Hvs. cbn; auto.
  Qed.

  (** * the main loop *)
  Definition acb_step_r (ch : chart_t) (k h : nat) (i j : bag) : option (option rtree) :=
    if h <=? k + 1 then Some (Some (RNode j [])) else try_vs ch i j (set_diff j i).
  Definition cell_of (ans : option rtree) : cell :=
    match ans with Some t => Some (Some t) | None => Some None end.
  Definition row_trees (row : list (bag * cell)) : option (list rtree) :=
    fold_right (fun q acc => match cell_yes (snd q), acc with
                             | Some t, Some ts => Some (t :: ts)
                             | _, _ => None end) (Some []) row.
  Lemma acb_main_eq ch dead h i j es k :
    acb_main ch dead ((h, i, j) :: es) k =
    match acb_step_r ch k h i j with
    | None => AError
    | Some ans =>
      let ch1 := chart_set ch i j (cell_of ans) in
      let dead1 := match ans with None => dead_add i dead | Some _ => dead end in
      if length dead1 =? length ch1 then AFalse
      else match chart_get ch1 i with
           | None => AError
           | Some row => match row_trees row with
                         | Some ts => ATree (RNode i ts)
                         | None => acb_main ch1 dead1 es k
                         end
           end
    end.
  Proof. reflexivity. Qed.

  Definition tree_of (q : bag * cell) : rtree :=
    match cell_yes (snd q) with Some t => t | None => RNode [] [] end.
  Lemma row_trees_spec row : forall ts, row_trees row = Some ts ->
    ts = map tree_of row /\ forall q, In q row -> cell_yes (snd q) = Some (tree_of q).
  Proof.
    induction row as [|q row IH]; intros ts H; cbn in H.
    - inversion H; subst. split; auto. intros q [].
    - fold (row_trees row) in H. destruct (cell_yes (snd q)) as [t|] eqn:Ec; [|discriminate].
      destruct (row_trees row) as [ts'|]; [|discriminate]. inversion H; subst ts.
      destruct (IH ts' eq_refl) as [H1 H2]. split.
      + cbn [map]. unfold tree_of at 1. rewrite Ec. now rewrite H1.
      + intros q0 [<-|Hq0]; auto. unfold tree_of. now rewrite Ec.
  Qed.

  Definition nonempty_bags (t : rtree) : Prop := forall b, In b (rbags t) -> b <> [].

  Lemma root_cert k i row ts : 1 <= k -> key_ok k i -> row_ok i row -> row_trees row = Some ts ->
    rtd g (RNode i ts) /\ nonempty_bags (RNode i ts).
  Proof.
    intros Hk [K1 [K2 K3]] [R1 [R2 R3]] Hts.
    destruct (row_trees_spec row ts Hts) as [-> Hyes].
    set (ks := map (fun q => (tree_of q, set_diff (fst q) i)) row).
    assert (Hmap : map tree_of row = map fst ks).
    { unfold ks. rewrite map_map. cbn [fst]. reflexivity. }
    assert (Hcert : forall q, In q row -> entry_ok i (fst q) /\ cert_ok i (fst q) (tree_of q)).
    { intros q Hq. destruct (R1 q Hq) as [E C]. split; auto. }
    assert (HK : kids_ok i ks).
    { split.
      - unfold ks. apply Forall_forall. intros k0 Hk0. apply in_map_iff in Hk0.
        destruct Hk0 as [q [<- Hq]]. cbn [fst snd]. destruct (Hcert q Hq) as [E C].
        apply (cert_kid i (fst q)); auto.
        + apply incl_refl.
        + intro x. apply set_diff_In.
        + intros x Hx. apply set_diff_In in Hx. tauto.
      - unfold ks.
        apply (proj1 (FOP_map (fun q : bag * cell => (tree_of q, set_diff (fst q) i))
                              (fun k0 k' => disjoint (snd k0) (snd k')) row)).
        cbn [snd]. eapply FOP_impl; [|exact R2]. cbn beta.
        intros a b _ _ H x Ha Hb. apply set_diff_In in Ha, Hb. destruct Ha, Hb. auto. }
    assert (Htree : forall t, In t (map tree_of row) -> exists q, In q row /\ t = tree_of q).
    { intros t Ht. apply in_map_iff in Ht. destruct Ht as [q [<- Hq]]. eauto. }
    split.
    - constructor.
      + rewrite Hmap. now apply kids_rRI.
      + rewrite rbags_node, Hmap. now apply kids_sdist.
      + intros b Hb. apply in_rbags_node in Hb. destruct Hb as [->|[t [Ht Hb]]]; auto.
        destruct (Htree t Ht) as [q [Hq ->]]. destruct (Hcert q Hq) as [E C]. apply (c_nodup _ _ _ C b Hb).
      + intros b x Hb Hx. apply in_rbags_node in Hb. destruct Hb as [->|[t [Ht Hb]]]; auto.
        destruct (Htree t Ht) as [q [Hq ->]]. destruct (Hcert q Hq) as [E C].
        apply (e_V _ _ E). apply (c_sub _ _ _ C b Hb). exact Hx.
      + intros x Hx. apply occ_node. destruct (in_dec Nat.eq_dec x i) as [Hi|Hi]; auto. right.
        destruct (R3 x Hx Hi) as [q [Hq Hxq]]. exists (tree_of q). split; [now apply in_map|].
        destruct (Hcert q Hq) as [E C]. apply (c_vertex _ _ _ C); auto.
      + intros x y Hy.
        assert (Hx : In x (gverts g)) by (eapply nbrs_In_key; eauto).
        assert (Hyv : In y (gverts g)) by (eapply wf_closed; eauto).
        assert (Hin : forall a b0, In a (gverts g) -> ~ In a i -> In b0 (nbrs g a) ->
                  exists b, In b (rbags (RNode i (map tree_of row))) /\ In a b /\ In b0 b).
        { intros a b0 Ha Hai Hb0. destruct (R3 a Ha Hai) as [q [Hq Haq]].
          destruct (Hcert q Hq) as [E C].
          destruct (c_edge _ _ _ C a b0 Haq Hai Hb0) as [b [Hb [H1 H2]]].
          exists b. split; auto. apply in_rbags_node. right. exists (tree_of q). split; auto. now apply in_map. }
        destruct (in_dec Nat.eq_dec x i) as [Hxi|Hxi]; destruct (in_dec Nat.eq_dec y i) as [Hyi|Hyi].
        * exists i. split; [apply in_rbags_node; auto|auto].
        * destruct (Hin y x Hyv Hyi) as [b [Hb [H1 H2]]]; [eapply wf_sym; eauto|]. exists b. auto.
        * apply Hin; auto.
        * apply Hin; auto.
    - intros b Hb. apply in_rbags_node in Hb. destruct Hb as [->|[t [Ht Hb]]].
      + intro E. subst i. cbn in K3. lia.
      + destruct (Htree t Ht) as [q [Hq ->]]. destruct (Hcert q Hq) as [E C].
        destruct (c_wit _ _ _ C b Hb) as [w [Hw _]]. intro Eb. subst b. destruct Hw.
  Qed.

  Lemma acb_main_ok k : 1 <= k -> forall es ch dead t, chart_ok k ch ->
    (forall h i j, In (h, i, j) es -> key_ok k i /\ entry_ok i j) ->
    acb_main ch dead es k = ATree t -> rtd g t /\ nonempty_bags t.
  Proof.
    intros Hk. induction es as [|[[h i] j] es IH]; intros ch dead t CH Hes H; [discriminate|].
    rewrite acb_main_eq in H.
    destruct (Hes h i j (or_introl eq_refl)) as [Ki E].
    assert (Ni : NoDup i) by apply Ki.
    destruct (acb_step_r ch k h i j) as [ans|] eqn:Er; [|discriminate].
    assert (Hans : forall t0, cell_yes (cell_of ans) = Some t0 -> cert_ok i j t0).
    { intros t0 Ht0. destruct ans as [t1|]; cbn in Ht0; [|discriminate]. inversion Ht0; subst t1.
      unfold acb_step_r in Er. destruct (h <=? k + 1).
      - inversion Er; subst. now apply leaf_cert.
      - apply (try_vs_ok k ch i j CH Ni E (set_diff j i)); auto.
        intros v Hv. apply set_diff_In in Hv. exact Hv. }
    cbv zeta in H.
    pose proof (chart_set_ok k ch i j (cell_of ans) CH Hans) as CH1.
    destruct (length (match ans with None => dead_add i dead | Some _ => dead end) =?
              length (chart_set ch i j (cell_of ans))); [discriminate|].
    destruct (chart_get (chart_set ch i j (cell_of ans)) i) as [row|] eqn:Eg; [|discriminate].
    destruct (row_trees row) as [ts|] eqn:Ets.
    - inversion H; subst t. apply (root_cert k i row ts); auto.
      eapply chart_get_ok; eauto.
    - eapply IH; eauto. intros h0 i0 j0 Hin. apply (Hes h0 i0 j0). cbn; auto.
  Qed.

  (** * building the chart *)
  Lemma combinations_spec l : forall k c, In c (combinations l k) ->
    length c = k /\ incl c l /\ (NoDup l -> NoDup c).
  Proof.
    induction l as [|x l IH]; intros k c Hc.
    - destruct k; cbn in Hc; [|destruct Hc]. destruct Hc as [<-|[]].
      split; [reflexivity|]. split; [apply incl_refl|auto].
    - destruct k as [|k]; cbn [combinations] in Hc.
      + destruct Hc as [<-|[]]. split; [reflexivity|]. split; [intros y []|constructor].
      + apply in_app_or in Hc. destruct Hc as [Hc|Hc].
        * apply in_map_iff in Hc. destruct Hc as [c' [<- Hc']].
          destruct (IH k c' Hc') as [H1 [H2 H3]]. split; [cbn; lia|]. split.
          -- intros y [<-|Hy]; cbn; auto.
          -- intro Hn. inversion Hn; subst. constructor; auto.
        * destruct (IH (S k) c Hc) as [H1 [H2 H3]]. split; auto. split.
          -- intros y Hy. cbn; auto.
          -- intro Hn. inversion Hn; subst. auto.
  Qed.

  Lemma new_row_ok i comps : NoDup i -> incl i (gverts g) ->
    connected_components g i = Some comps ->
    row_ok i (map (fun c => (set_union c i, @None (option rtree))) comps).
  Proof.
    intros Ni Vi Hcc. destruct (cc_spec g i W comps Hcc) as [C1 [C2 C3]].
    rewrite Forall_forall in C1. split; [|split].
    - intros q Hq. apply in_map_iff in Hq. destruct Hq as [c [<- Hc]]. cbn [fst snd].
      destruct (C1 c Hc) as [D1 D2 D3 D4]. split; [|intros t Ht; discriminate].
      constructor.
      + intros x Hx. apply set_union_In. auto.
      + intros x Hx. apply set_union_In in Hx. destruct Hx as [Hx|Hx]; [apply (D3 x Hx)|auto].
      + now apply set_union_NoDup.
      + destruct c as [|x c]; [congruence|]. exists x. split.
        * apply set_union_In. cbn; auto.
        * apply (D3 x). cbn; auto.
      + intros x y Hx Hn Hy. apply set_union_In in Hx. destruct Hx as [Hx|Hx]; [|contradiction].
        apply set_union_In. destruct (D4 x y Hx Hy); auto.
    - apply FOP_map. cbn [fst]. eapply FOP_impl; [|exact C2]. cbn beta.
      intros a b _ _ H x Ha Hb. apply set_union_In in Ha, Hb.
      destruct Ha as [Ha|Ha]; auto. destruct Hb as [Hb|Hb]; auto. destruct (H x Ha Hb).
    - intros x Hx Hn. destruct (C3 x (conj Hx Hn)) as [c [Hc Hxc]].
      exists (set_union c i, None). split; [apply in_map_iff; eauto|]. cbn [fst]. apply set_union_In. auto.
  Qed.

  Definition bc_step (och : option chart_t) (i : list nat) : option chart_t :=
    match och with
    | None => None
    | Some ch =>
      match connected_components g i with
      | None => None
      | Some comps =>
        if 1 <? length comps
        then Some (ch ++ [(i, map (fun c => (set_union c i, @None (option rtree))) comps)])
        else Some ch
      end
    end.
  Lemma bc_fold_none l : fold_left bc_step l None = None.
  Proof. induction l; cbn; auto. Qed.
  Lemma bc_fold_ok k l : forall och ch', (forall i, In i l -> key_ok k i) ->
    (forall ch, och = Some ch -> chart_ok k ch) -> fold_left bc_step l och = Some ch' -> chart_ok k ch'.
  Proof.
    induction l as [|i l IH]; intros och ch' Hl Hch H; cbn [fold_left] in H; [auto|].
    apply (IH (bc_step och i) ch'); auto.
    - intros i0 Hi0. apply Hl. cbn; auto.
    - intros ch1 H1. unfold bc_step in H1. destruct och as [ch|]; [|discriminate].
      destruct (connected_components g i) as [comps|] eqn:Ecc; [|discriminate].
      specialize (Hch ch eq_refl). destruct (1 <? length comps); inversion H1; subst; auto.
      intros p Hp. apply in_app_or in Hp. destruct Hp as [Hp|[<-|[]]]; [auto|]. cbn [fst snd].
      destruct (Hl i (or_introl eq_refl)) as [K1 [K2 K3]]. split; [repeat split; auto|].
      now apply new_row_ok.
  Qed.
  Lemma build_chart_ok k ch : build_chart g k = Some ch -> chart_ok k ch.
  Proof.
    intro H. apply (bc_fold_ok k (combinations (gverts g) k) (Some []) ch); auto.
    - intros i Hi. destruct (combinations_spec _ _ _ Hi) as [H1 [H2 H3]].
      split; [apply H3, (wf_keys g W)|]. split; auto.
    - intros ch0 E. inversion E; subst. intros p [].
  Qed.

  Lemma insert_by_In e l x : In x (insert_by e l) -> x = e \/ In x l.
  Proof.
    induction l as [|y l IH]; cbn [insert_by]; intro H.
    - destruct H as [<-|[]]; auto.
    - destruct (fst (fst e) <=? fst (fst y)).
      + destruct H as [<-|H]; auto.
      + destruct H as [<-|H]; [cbn; auto|]. destruct (IH H); cbn; auto.
  Qed.
  Lemma bysize_In ch e : In e (bysize ch) -> In e (entries ch).
  Proof.
    unfold bysize. induction (entries ch) as [|y l IH]; cbn [fold_right]; intro H; [destruct H|].
    apply insert_by_In in H. destruct H as [->|H]; cbn; auto.
  Qed.
  Lemma entries_ok k ch h i j : chart_ok k ch -> In (h, i, j) (entries ch) -> key_ok k i /\ entry_ok i j.
  Proof.
    intros C H. unfold entries in H. apply in_flat_map in H. destruct H as [p [Hp H]].
    apply in_map_iff in H. destruct H as [q [E Hq]]. inversion E; subst.
    destruct (C p Hp) as [K [R1 _]]. split; auto. apply (R1 q Hq).
  Qed.

  (** * [acb_connected] *)
  Lemma single_bag_rtd : rtd g (RNode (sort_set (gverts g)) []).
  Proof.
    constructor; cbn [rbags flat_map].
    - constructor; [constructor|exact I].
    - split; [intros c []|exact I].
    - intros b [<-|[]]. apply sort_set_NoDup.
    - intros b x [<-|[]] Hx. exact (proj1 (sort_set_In _ _) Hx).
    - intros x Hx. exists (sort_set (gverts g)). split; [cbn; auto|now apply sort_set_In].
    - intros x y Hy. exists (sort_set (gverts g)). split; [cbn; auto|].
      split; apply sort_set_In; [eapply nbrs_In_key; eauto|eapply wf_closed; eauto].
  Qed.
  Lemma single_bag_nonempty : gverts g <> [] -> nonempty_bags (RNode (sort_set (gverts g)) []).
  Proof.
    intros Hne b [<-|[]] E. destruct (gverts g) as [|x l] eqn:Eg; [congruence|].
    assert (Hx : In x (sort_set (x :: l))) by (apply sort_set_In; cbn; auto).
    rewrite E in Hx. destruct Hx.
  Qed.

  Theorem acb_connected_ok k t : 1 <= k -> gverts g <> [] ->
    acb_connected g k = ATree t -> rtd g t /\ nonempty_bags t.
  Proof.
    intros Hk Hne H. unfold acb_connected in H.
    destruct (connected_components g []) as [[|c [|c2 cs]]|]; try discriminate.
    destruct (length g <=? k + 1).
    - inversion H; subst t. split; [apply single_bag_rtd|now apply single_bag_nonempty].
    - destruct (build_chart g k) as [ch|] eqn:Eb; [|discriminate].
      destruct (length ch =? 0); [discriminate|].
      pose proof (build_chart_ok k ch Eb) as CH.
      apply (acb_main_ok k Hk (bysize ch) ch [] t CH); auto.
      intros h i j Hin. apply bysize_In in Hin. eapply entries_ok; eauto.
  Qed.
End ACB.

(** * the components *)
Lemma gverts_restrict g c : gverts (restrict g c) = c.
Proof. unfold gverts, restrict. rewrite map_map. cbn [fst]. apply map_id. Qed.
Lemma nbrs_restrict g c v : In v c -> nbrs (restrict g c) v = nbrs g v.
Proof.
  induction c as [|a c IH]; intro H; [destruct H|]. cbn [restrict map nbrs fst snd].
  destruct (Nat.eqb_spec a v) as [->|Hne]; [reflexivity|].
  destruct H as [H|H]; [congruence|]. apply IH. exact H.
Qed.
Lemma wf_restrict g c : wf_graph g -> comp_ok g [] c -> wf_graph (restrict g c).
Proof.
  intros W [D1 D2 D3 D4].
  assert (Hn : forall x y, In y (nbrs (restrict g c) x) -> In x c /\ In y (nbrs g x)).
  { intros x y Hy. assert (Hx : In x c).
    { apply nbrs_In_key in Hy. now rewrite gverts_restrict in Hy. }
    rewrite nbrs_restrict in Hy; auto. }
  constructor.
  - now rewrite gverts_restrict.
  - intro x. destruct (in_dec Nat.eq_dec x c) as [Hx|Hx].
    + rewrite nbrs_restrict; auto. apply (wf_nodup g W).
    + rewrite nbrs_not_key; [constructor|]. now rewrite gverts_restrict.
  - intros x Hx. destruct (Hn x x Hx) as [_ H]. revert H. apply (wf_irrefl g W).
  - intros x y Hy. destruct (Hn x y Hy) as [Hx Hy']. rewrite gverts_restrict.
    destruct (D4 x y Hx Hy') as [H|[]]. exact H.
  - intros x y Hy. destruct (Hn x y Hy) as [Hx Hy'].
    destruct (D4 x y Hx Hy') as [H|[]]. rewrite nbrs_restrict; auto. apply (wf_sym g W). exact Hy'.
Qed.

Definition comp_tree (g : graph) (c : list nat) (t : rtree) : Prop :=
  rtd (restrict g c) t /\ nonempty_bags t.

Lemma acb_try_k_ok cg : wf_graph cg -> gverts cg <> [] ->
  forall n k t, 1 <= k -> acb_try_k cg n k = ATree t -> rtd cg t /\ nonempty_bags t.
Proof.
  intros W Hne. induction n as [|n IH]; intros k t Hk H; cbn [acb_try_k] in H; [discriminate|].
  destruct (acb_connected cg k) as [|t0|] eqn:E.
  - apply (IH (S k)); auto.
  - inversion H; subst t0. eapply acb_connected_ok; eauto.
  - discriminate.
Qed.

Lemma acb_loop_ok g : wf_graph g -> forall comps acc ts done,
  Forall (comp_ok g []) comps -> Forall2 (comp_tree g) done acc ->
  acb_loop g comps acc = Some ts -> Forall2 (comp_tree g) (done ++ comps) ts.
Proof.
  intros W. induction comps as [|c comps IH]; intros acc ts done Hc Hd H; cbn [acb_loop] in H.
  - inversion H; subst. now rewrite app_nil_r.
  - inversion Hc as [|? ? C1 C2]; subst.
    pose proof (wf_restrict g c W C1) as Wc.
    assert (Hne : gverts (restrict g c) <> []) by (rewrite gverts_restrict; apply (co_ne g [] c C1)).
    destruct (min_fill (restrict g c)) as [[ub o]|]; [|discriminate].
    assert (Hstep : forall t, comp_tree g c t -> acb_loop g comps (acc ++ [t]) = Some ts ->
                      Forall2 (comp_tree g) (done ++ c :: comps) ts).
    { intros t Ht H1. change (c :: comps) with ([c] ++ comps). rewrite app_assoc.
      apply (IH (acc ++ [t]) ts (done ++ [c])); auto.
      apply Forall2_app; auto. }
    destruct (ub =? 0).
    + apply (Hstep _ (conj (single_bag_rtd _ Wc) (single_bag_nonempty _ Hne)) H).
    + destruct (acb_try_k (restrict g c) ub 1) as [|t|] eqn:E; try discriminate.
      apply (Hstep t); auto. apply (acb_try_k_ok _ Wc Hne ub 1 t); auto.
Qed.

Lemma comp_tree_kid g c t : comp_tree g c t -> kid_ok [] t c.
Proof.
  intros [[R1 R2 R3 R4 R5 R6] Hne]. rewrite gverts_restrict in R4. constructor; auto.
  - intros bg w Hb Hw. right. eapply R4; eauto.
  - intros bg Hb. destruct bg as [|w bg']; [exfalso; apply (Hne _ Hb); reflexivity|].
    exists w. split; [cbn; auto|]. apply (R4 (w :: bg') w Hb). cbn; auto.
  - intros x _ [].
Qed.

Lemma forest_rtd g comps ts : wf_graph g ->
  Forall (comp_ok g []) comps -> ForallOrdPairs disjoint comps ->
  (forall x, In x (gverts g) -> exists c, In c comps /\ In x c) ->
  Forall2 (comp_tree g) comps ts -> rtd g (RNode [] ts).
Proof.
  intros W C1 C2 C3 F.
  assert (Hks : exists ks, map fst ks = ts /\ map snd ks = comps /\
                           Forall (fun k => comp_tree g (snd k) (fst k)) ks).
  { clear C1 C2 C3. induction F as [|c t comps ts Hct F IH].
    - exists []. split; [reflexivity|split; [reflexivity|constructor]].
    - destruct IH as [ks [H1 [H2 H3]]]. exists ((t, c) :: ks). cbn [map fst snd].
      rewrite H1, H2. split; [reflexivity|split; [reflexivity|constructor; auto]]. }
  destruct Hks as [ks [<- [Hsnd Hall]]].
  rewrite Forall_forall in Hall, C1.
  assert (HK : kids_ok [] ks).
  { split.
    - apply Forall_forall. intros k Hk. apply (comp_tree_kid g). auto.
    - rewrite <- Hsnd in C2. apply FOP_map in C2. exact C2. }
  assert (Hk : forall t, In t (map fst ks) -> exists k, In k ks /\ fst k = t).
  { intros t Ht. apply in_map_iff in Ht. destruct Ht as [k [<- Hk]]. eauto. }
  assert (Hcov : forall x, In x (gverts g) -> exists k, In k ks /\ In x (snd k)).
  { intros x Hx. destruct (C3 x Hx) as [c [Hc Hxc]]. rewrite <- Hsnd in Hc.
    apply in_map_iff in Hc. destruct Hc as [k [<- Hk0]]. eauto. }
  constructor.
  - now apply kids_rRI.
  - rewrite rbags_node. now apply kids_sdist.
  - intros b Hb. apply in_rbags_node in Hb. destruct Hb as [->|[t [Ht Hb]]]; [constructor|].
    destruct (Hk t Ht) as [k [Hk0 <-]]. destruct (Hall k Hk0) as [R _]. apply (rt_nodup _ _ R b Hb).
  - intros b x Hb Hx. apply in_rbags_node in Hb. destruct Hb as [->|[t [Ht Hb]]]; [destruct Hx|].
    destruct (Hk t Ht) as [k [Hk0 <-]]. destruct (Hall k Hk0) as [R _].
    pose proof (rt_sub _ _ R b x Hb Hx) as Hc. rewrite gverts_restrict in Hc.
    assert (Hin : In (snd k) comps) by (rewrite <- Hsnd; now apply in_map).
    apply (proj1 (co_out g [] (snd k) (C1 _ Hin) x Hc)).
  - intros x Hx. apply occ_node. right. destruct (Hcov x Hx) as [k [Hk0 Hxk]].
    exists (fst k). split; [now apply in_map|]. destruct (Hall k Hk0) as [R _].
    apply (rt_vertex _ _ R). now rewrite gverts_restrict.
  - intros x y Hy. assert (Hx : In x (gverts g)) by (eapply nbrs_In_key; eauto).
    destruct (Hcov x Hx) as [k [Hk0 Hxk]]. destruct (Hall k Hk0) as [R _].
    destruct (rt_edge _ _ R x y) as [b [Hb [H1 H2]]]; [rewrite nbrs_restrict; auto|].
    exists b. split; auto. apply in_rbags_node. right. exists (fst k). split; auto. now apply in_map.
Qed.

Lemma single_rtd g c t : wf_graph g -> comp_ok g [] c ->
  (forall x, In x (gverts g) -> In x c) -> comp_tree g c t -> rtd g t.
Proof.
  intros W C Hall [[R1 R2 R3 R4 R5 R6] _]. rewrite gverts_restrict in R4, R5. constructor; auto.
  - intros b x Hb Hx. apply (proj1 (co_out g [] c C x (R4 b x Hb Hx))).
  - intros x y Hy. assert (Hx : In x (gverts g)) by (eapply nbrs_In_key; eauto).
    apply R6. rewrite nbrs_restrict; auto.
Qed.

Theorem acb_valid g t : wf_graph g -> acb g = Some t -> valid_td g t.
Proof.
  intros W H. unfold acb in H.
  destruct (connected_components g []) as [comps|] eqn:Ecc; [|discriminate].
  destruct (cc_spec g [] W comps Ecc) as [C1 [C2 C3]].
  assert (C3' : forall x, In x (gverts g) -> exists c, In c comps /\ In x c).
  { intros x Hx. apply C3. split; auto. }
  destruct (acb_loop g comps []) as [ts|] eqn:El; [|discriminate].
  pose proof (acb_loop_ok g W comps [] ts [] C1 (Forall2_nil _) El) as F. cbn [app] in F.
  assert (Hgen : forall td, unroot (RNode [] ts) (Some ([], [])) = Some td -> valid_td g td).
  { intros td Hu. destruct (rtd_valid g (RNode [] ts)) as [E V].
    - eapply forest_rtd; eauto.
    - rewrite E in Hu. inversion Hu; subst. exact V. }
  destruct ts as [|t1 [|t2 ts]]; auto.
  inversion F as [|c ? cs ? Hct F']; subst. inversion F'; subst.
  destruct (rtd_valid g t1) as [E V].
  - inversion C1; subst. eapply (single_rtd g c); eauto.
    intros x Hx. destruct (C3' x Hx) as [c' [[<-|[]] Hc']]. exact Hc'.
  - rewrite E in H. inversion H; subst. exact V.
Qed.

Theorem tree_decomposition_acb_valid g m t : wf_graph g -> 2 <= m ->
  tree_decomposition m g = Some t -> valid_td g t.
Proof.
  intros W Hm H. destruct m as [|[|m]]; try lia. cbn [tree_decomposition] in H. now apply acb_valid.
Qed.

(** whatever [acb] returns is a valid tree decomposition, hence of width >= treewidth *)
Theorem acb_partial_correct g m t : wf_graph g -> 2 <= m ->
  tree_decomposition m g = Some t -> valid_td g t /\ tw_perm g <= width t.
Proof.
  intros W Hm H. pose proof (tree_decomposition_acb_valid g m t W Hm H) as V.
  split; [exact V|]. now apply td_width_lower_bound.
Qed.
