(** C02, part 5: linear recursion.  For a component [comp] all of whose rules have at most one
    edge labelled by a nonterminal of the component, the grammar's equations restricted to the
    component are affine,  F x = J0 . x + F0,  with F0 / J0 as computed by [linear] in
    fggs/sum_product.py:  F0[n] sums [sum_product_edges] of the rules of n without component
    edge;  J0[n, m] sums, over the rules of n whose single component edge is labelled m, the
    sum-product of the OTHER edges of the rule with that edge's attachment nodes added to the
    external nodes ("leave that edge out").  Only the commutative-semiring laws are used. *)
From Coq Require Import List Arith Bool PeanoNat Lia Ring_theory Ring FinFun.
Import ListNotations.
Require Import Fggs.Model.SCC Fggs.Model.SumProduct Fggs.Model.Kleene
               Fggs.Proofs.SP_mono Fggs.Proofs.Kleene_control Fggs.Model.Semiring.

(** * lists *)
Lemma NoDup_app_intro {A} (l1 l2 : list A) :
  NoDup l1 -> NoDup l2 -> (forall x, In x l1 -> ~ In x l2) -> NoDup (l1 ++ l2).
Proof.
  intros H1 H2 Hd. induction H1 as [|x l1 Hx H1 IH]; cbn [app]; [exact H2|].
  constructor.
  - rewrite in_app_iff. intros [H|H]; [apply Hx; exact H | apply (Hd x); [left; reflexivity | exact H]].
  - apply IH. intros y Hy. apply Hd. right. exact Hy.
Qed.

Lemma NoDup_flat_map_intro {A B} (f : A -> list B) (l : list A) :
  NoDup l -> (forall x, In x l -> NoDup (f x)) ->
  (forall x y z, In x l -> In y l -> In z (f x) -> In z (f y) -> x = y) -> NoDup (flat_map f l).
Proof.
  intros Hl. induction Hl as [|x l Hx Hl IH]; intros Hf Hd; cbn [flat_map]; [constructor|].
  apply NoDup_app_intro.
  - apply Hf. left. reflexivity.
  - apply IH; [intros y Hy; apply Hf; right; exact Hy|].
    intros y y' z Hy Hy'. apply Hd; right; assumption.
  - intros z Hz Hz'. apply in_flat_map in Hz' as (y & Hy & Hz').
    assert (x = y) by (apply (Hd x y z); [left; reflexivity | right; exact Hy | exact Hz | exact Hz']).
    subst y. apply Hx. exact Hy.
Qed.

Lemma all_assts_NoDup sizes : NoDup (all_assts sizes).
Proof.
  induction sizes as [|n rest IH]; cbn [all_assts].
  - constructor; [intros []|constructor].
  - apply NoDup_flat_map_intro.
    + apply seq_NoDup.
    + intros i _. apply Injective_map_NoDup; [|exact IH]. intros a b H. injection H as H. exact H.
    + intros i j z _ _ Hi Hj. apply in_map_iff in Hi as (a & <- & _). apply in_map_iff in Hj as (b & Hb & _).
      injection Hb as Hb _. symmetry. exact Hb.
Qed.

Lemma app_eq_app_same_length {A} (l1 l1' l2 l2' : list A) :
  length l1 = length l1' -> l1 ++ l2 = l1' ++ l2' -> l1 = l1' /\ l2 = l2'.
Proof.
  revert l1'. induction l1 as [|x l1 IH]; intros [|y l1'] Hlen H; cbn in Hlen; try discriminate.
  - cbn in H. auto.
  - cbn in H. injection H as -> H. destruct (IH l1' (eq_add_S _ _ Hlen) H) as [-> ->]. auto.
Qed.

Lemma Forall2_same_length {A B} (P : A -> B -> Prop) l1 l2 : Forall2 P l1 l2 -> length l1 = length l2.
Proof. induction 1; cbn; [reflexivity | f_equal; assumption]. Qed.

Lemma filter_filter_and {A} (p q : A -> bool) (l : list A) :
  filter p (filter q l) = filter (fun a => q a && p a) l.
Proof.
  induction l as [|a l IH]; [reflexivity|]. cbn [filter].
  destruct (q a); cbn [andb filter]; [destruct (p a); rewrite IH; reflexivity | exact IH].
Qed.

Lemma sel_app a i1 i2 : sel a (i1 ++ i2) = sel a i1 ++ sel a i2.
Proof. unfold sel. apply map_app. Qed.

Lemma sel_length a idxs : length (sel a idxs) = length idxs.
Proof. unfold sel. apply map_length. Qed.

Lemma nat_list_eqb_app l1 l1' l2 l2' :
  length l1 = length l1' ->
  nat_list_eqb (l1 ++ l2) (l1' ++ l2') = nat_list_eqb l1 l1' && nat_list_eqb l2 l2'.
Proof.
  intros Hlen. apply eq_true_iff_eq. rewrite andb_true_iff, !nat_list_eqb_iff. split.
  - apply app_eq_app_same_length. exact Hlen.
  - intros [-> ->]. reflexivity.
Qed.

(** * finite sums and products in a commutative semiring *)
Section Algebra.
Context {R : Type} (o : sr_ops R).
Hypothesis Hr : sr_ring o.

Add Ring sr_ring_inst : (Hr : semi_ring_theory (zero o) (one o) (add o) (mul o) eq).

Lemma sumS_zero {A} (l : list A) : sumS o l (fun _ => zero o) = zero o.
Proof. unfold sumS. induction l as [|a l IH]; cbn [map sum_list]; [reflexivity|]. rewrite IH. ring. Qed.

Lemma sumS_cons {A} (a : A) l (f : A -> R) : sumS o (a :: l) f = add o (f a) (sumS o l f).
Proof. reflexivity. Qed.

Lemma prodS_cons {A} (a : A) l (f : A -> R) : prodS o (a :: l) f = mul o (f a) (prodS o l f).
Proof. reflexivity. Qed.

Lemma sumS_add {A} (l : list A) (f g : A -> R) :
  sumS o l (fun a => add o (f a) (g a)) = add o (sumS o l f) (sumS o l g).
Proof.
  induction l as [|a l IH]; rewrite ?sumS_cons; [unfold sumS; cbn; ring|]. rewrite IH. ring.
Qed.

Lemma sumS_mul_r {A} (l : list A) (f : A -> R) c :
  mul o (sumS o l f) c = sumS o l (fun a => mul o (f a) c).
Proof.
  induction l as [|a l IH]; rewrite ?sumS_cons; [unfold sumS; cbn; ring|]. rewrite <- IH. ring.
Qed.

Lemma sumS_filter_split {A} (p : A -> bool) (l : list A) (f : A -> R) :
  sumS o l f = add o (sumS o (filter p l) f) (sumS o (filter (fun a => negb (p a)) l) f).
Proof.
  induction l as [|a l IH]; [unfold sumS; cbn; ring|].
  cbn [filter]. destruct (p a); cbn [negb]; rewrite !sumS_cons, IH; ring.
Qed.

Lemma prodS_filter_split {A} (p : A -> bool) (l : list A) (f : A -> R) :
  prodS o l f = mul o (prodS o (filter p l) f) (prodS o (filter (fun a => negb (p a)) l) f).
Proof.
  induction l as [|a l IH]; [unfold prodS; cbn; ring|].
  cbn [filter]. destruct (p a); cbn [negb]; rewrite !prodS_cons, IH; ring.
Qed.

(** a sum with a single non-zero term *)
Lemma sumS_indicator (Eta : list (list nat)) (k : list nat) (g : list nat -> R) :
  NoDup Eta -> In k Eta ->
  sumS o Eta (fun eta => if nat_list_eqb k eta then g eta else zero o) = g k.
Proof.
  intros Hnd. induction Hnd as [|e Eta He Hnd IH]; intros Hin; [destruct Hin|].
  rewrite sumS_cons. destruct (nat_list_eqb k e) eqn:E.
  - apply nat_list_eqb_eq in E. subst e.
    rewrite (sumS_ext o Eta _ (fun _ => zero o)).
    + rewrite sumS_zero. ring.
    + intros eta Heta. destruct (nat_list_eqb k eta) eqn:E'; [|reflexivity].
      apply nat_list_eqb_eq in E'. subst eta. contradiction.
  - destruct Hin as [->|Hin]; [rewrite nat_list_eqb_refl in E; discriminate|].
    rewrite (IH Hin). ring.
Qed.

(** regrouping a sum by the value of a key *)
Lemma sumS_reindex {A} (Eta : list (list nat)) (key : A -> list nat) (L : list A) (h : A -> list nat -> R) :
  NoDup Eta -> (forall a, In a L -> In (key a) Eta) ->
  sumS o Eta (fun eta => sumS o (filter (fun a => nat_list_eqb (key a) eta) L) (fun a => h a eta))
  = sumS o L (fun a => h a (key a)).
Proof.
  intros Hnd. induction L as [|a L IH]; intros Hk.
  - cbn [filter]. unfold sumS at 2 3. cbn [map sum_list]. apply sumS_zero.
  - rewrite sumS_cons. rewrite <- IH by (intros b Hb; apply Hk; right; exact Hb).
    rewrite <- (sumS_indicator Eta (key a) (h a) Hnd (Hk a (or_introl eq_refl))).
    rewrite <- sumS_add. apply sumS_ext. intros eta _.
    cbn [filter]. destruct (nat_list_eqb (key a) eta); [rewrite sumS_cons; reflexivity | ring].
Qed.
End Algebra.

(** * the affine form of one rule *)
Section Linear.
Context {R : Type} (o : sr_ops R).
Hypothesis Hr : sr_ring o.
Add Ring sr_ring_inst2 : (Hr : semi_ring_theory (zero o) (one o) (add o) (mul o) eq).

Variables (G : grammar) (w inp : env (R:=R)) (comp : list nat).
Hypothesis Hwf : wf_grammar G = true.
Hypothesis Hcomp_nt : forall m, In m comp -> is_term G m = false.

(** the environment [linear] evaluates in: terminals and nonterminals outside the component
    have known values ([inputs]) ... *)
Definition base_env : env (R:=R) := fun l => if is_term G l then w l else inp l.
(** ... and the one [F] evaluates in: additionally the current value [x] of the component *)
Definition mix_env (x : env (R:=R)) : env (R:=R) := fun l => if mem comp l then x l else inp l.
Definition full_env (x : env (R:=R)) : env (R:=R) := fun l => if is_term G l then w l else mix_env x l.

(** the rule with its component edge [ed] left out and [ed]'s nodes added to the external nodes:
    the arguments of the [sum_product_edges] call that fills J0 *)
Definition rule_minus (r : rule) (ed : nat * list nat) : rule :=
  {| r_lhs := r_lhs r; r_nodes := r_nodes r;
     r_edges := filter (fun e => negb (mem comp (fst e))) (r_edges r);
     r_ext := r_ext r ++ snd ed |}.

Lemma mem_In l x : mem l x = true <-> In x l.
Proof.
  unfold mem. rewrite existsb_exists. split.
  - intros (y & Hy & E). apply Nat.eqb_eq in E. subst y. exact Hy.
  - intros H. exists x. split; [exact H | apply Nat.eqb_refl].
Qed.

(** a rule without component edge does not look at x *)
Lemma rule_val_const r (x : env (R:=R)) xi :
  comp_edges comp r = [] -> rule_val o G (full_env x) r xi = rule_val o G base_env r xi.
Proof.
  intros Hnone. apply (rule_val_ext_queried o). intros l xj (ed & a & Hed & _ & -> & _).
  unfold full_env, base_env, mix_env. destruct (is_term G (fst ed)); [reflexivity|].
  destruct (mem comp (fst ed)) eqn:E; [|reflexivity].
  assert (In ed (comp_edges comp r)) as Hin by (unfold comp_edges; apply filter_In; auto).
  rewrite Hnone in Hin. destruct Hin.
Qed.

(** the product over the edges of a rule with exactly one component edge *)
Lemma prod_one_comp_edge r ed (x : env (R:=R)) a :
  comp_edges comp r = [ed] ->
  prodS o (r_edges r) (fun e => full_env x (fst e) (sel a (snd e)))
  = mul o (prodS o (r_edges (rule_minus r ed)) (fun e => base_env (fst e) (sel a (snd e))))
          (x (fst ed) (sel a (snd ed))).
Proof.
  intros Hone.
  assert (Hed : In ed (r_edges r) /\ mem comp (fst ed) = true).
  { apply (proj1 (filter_In (fun e => mem comp (fst e)) ed (r_edges r))).
    fold (comp_edges comp r). rewrite Hone. left. reflexivity. }
  destruct Hed as [_ Hmem].
  rewrite (prodS_filter_split o Hr (fun e => mem comp (fst e)) (r_edges r)).
  fold (comp_edges comp r). rewrite Hone. cbn [rule_minus r_edges].
  rewrite prodS_cons. unfold prodS at 1. cbn [map prod_list].
  unfold full_env at 1, mix_env. rewrite (Hcomp_nt (fst ed)) by (apply mem_In; exact Hmem). rewrite Hmem.
  rewrite (prodS_ext o _ (fun e => full_env x (fst e) (sel a (snd e))) (fun e => base_env (fst e) (sel a (snd e)))).
  - ring.
  - intros e He. apply filter_In in He as [_ He]. apply negb_true_iff in He.
    unfold full_env, base_env, mix_env. rewrite He. reflexivity.
Qed.

Theorem rule_val_affine r ed (x : env (R:=R)) xi :
  wf_rule G r = true -> comp_edges comp r = [ed] -> length xi = length (r_ext r) ->
  rule_val o G (full_env x) r xi
  = sumS o (all_assts (lshape G (fst ed)))
           (fun eta => mul o (rule_val o G base_env (rule_minus r ed) (xi ++ eta)) (x (fst ed) eta)).
Proof.
  intros Hwr Hone Hlen.
  assert (Hed : In ed (r_edges r)).
  { assert (In ed (comp_edges comp r)) as H by (rewrite Hone; left; reflexivity).
    unfold comp_edges in H. apply filter_In in H. apply H. }
  unfold rule_val at 1.
  rewrite (sumS_ext o _ _ (fun a => mul o (prodS o (r_edges (rule_minus r ed)) (fun e => base_env (fst e) (sel a (snd e))))
                                        (x (fst ed) (sel a (snd ed)))))
    by (intros a _; apply prod_one_comp_edge; exact Hone).
  rewrite <- (sumS_reindex o Hr (all_assts (lshape G (fst ed))) (fun a => sel a (snd ed)) _
                (fun a eta => mul o (prodS o (r_edges (rule_minus r ed)) (fun e => base_env (fst e) (sel a (snd e)))) (x (fst ed) eta))
                (all_assts_NoDup _)).
  - apply sumS_ext. intros eta _. unfold rule_val. rewrite (sumS_mul_r o Hr).
    change (node_sizes G (rule_minus r ed)) with (node_sizes G r).
    cbn [rule_minus r_ext]. rewrite filter_filter_and.
    f_equal. apply filter_ext. intros a. rewrite sel_app.
    rewrite nat_list_eqb_app by (rewrite sel_length; symmetry; exact Hlen). reflexivity.
  - intros a Ha. apply filter_In in Ha as [Ha _]. apply (wf_rule_query_in_range G r ed a Hwr Hed Ha).
Qed.

(** * the component's equations are affine *)
Definition has_comp_edge (r : rule) : bool := negb (Nat.eqb (length (comp_edges comp r)) 0).

(** F0[n] as computed by [linear]: rules with len(edges) == 0 *)
Definition lin_F0 (n : nat) (xi : list nat) : R :=
  sumS o (filter (fun r => negb (has_comp_edge r)) (rules_of G n)) (fun r => rule_val o G base_env r xi).

(** the tensor [linear] adds to J0[(n, edge.label)] for a rule with len(edges) == 1 *)
Definition lin_J0_rule (r : rule) (xi eta : list nat) : R :=
  match comp_edges comp r with
  | ed :: _ => rule_val o G base_env (rule_minus r ed) (xi ++ eta)
  | [] => zero o
  end.
Definition rule_label (r : rule) : nat := match comp_edges comp r with ed :: _ => fst ed | [] => 0 end.

(** (J0 . x)[n], summed rule by rule *)
Definition lin_J0x_by_rule (x : env (R:=R)) (n : nat) (xi : list nat) : R :=
  sumS o (filter has_comp_edge (rules_of G n))
       (fun r => sumS o (all_assts (lshape G (rule_label r)))
                      (fun eta => mul o (lin_J0_rule r xi eta) (x (rule_label r) eta))).

Lemma in_range_length n xi r :
  In r (rules_of G n) -> In xi (all_assts (lshape G n)) -> length xi = length (r_ext r).
Proof.
  intros Hr' Hxi. apply in_rules_of in Hr' as [Hr' Hlhs].
  pose proof (wf_grammar_rule G r Hwf Hr') as Hwr. unfold wf_rule in Hwr.
  apply andb_true_iff in Hwr as [_ Hty]. apply nat_list_eqb_eq in Hty.
  apply in_all_assts in Hxi. apply Forall2_same_length in Hxi. rewrite Hxi.
  unfold lshape. rewrite map_length, <- Hlhs, <- Hty, map_length. reflexivity.
Qed.

Theorem step_linear_affine_by_rule (x : env (R:=R)) n xi :
  max_rhs G comp <= 1 -> In n comp -> In xi (all_assts (lshape G n)) ->
  step o G w (mix_env x) n xi = add o (lin_J0x_by_rule x n xi) (lin_F0 n xi).
Proof.
  intros Hmax Hn Hxi. unfold step. rewrite (Hcomp_nt n Hn).
  change (fun l => if is_term G l then w l else mix_env x l) with (full_env x).
  rewrite (sumS_filter_split o Hr has_comp_edge (rules_of G n)).
  unfold lin_J0x_by_rule, lin_F0. f_equal.
  - apply sumS_ext. intros r Hr'. apply filter_In in Hr' as [Hr' Hhas].
    pose proof (max_rhs_ge G comp n r Hn Hr') as Hle.
    unfold has_comp_edge in Hhas. apply negb_true_iff, Nat.eqb_neq in Hhas.
    unfold lin_J0_rule, rule_label.
    destruct (comp_edges comp r) as [|ed [|ed' rest]] eqn:E; cbn [length] in *; [lia | | lia].
    apply rule_val_affine.
    + apply in_rules_of in Hr' as [Hr' _]. apply (wf_grammar_rule G r Hwf Hr').
    + exact E.
    + apply (in_range_length n xi r Hr' Hxi).
  - apply sumS_ext. intros r Hr'. apply filter_In in Hr' as [_ Hno].
    unfold has_comp_edge in Hno. rewrite negb_involutive in Hno. apply Nat.eqb_eq in Hno.
    apply rule_val_const. destruct (comp_edges comp r); [reflexivity | discriminate].
Qed.

(** the matrix form: J0[n, m] collects the rules of n whose component edge is labelled m, and
    (J0 . x)[n] = sum over m in the component and over the cells of m *)
Definition lin_J0 (n m : nat) (xi eta : list nat) : R :=
  sumS o (filter (fun r => has_comp_edge r && Nat.eqb (rule_label r) m) (rules_of G n))
       (fun r => lin_J0_rule r xi eta).

Definition lin_J0x (x : env (R:=R)) (n : nat) (xi : list nat) : R :=
  sumS o comp (fun m => sumS o (all_assts (lshape G m)) (fun eta => mul o (lin_J0 n m xi eta) (x m eta))).

Lemma sumS_swap {A B} (l1 : list A) (l2 : list B) (f : A -> B -> R) :
  sumS o l1 (fun a => sumS o l2 (fun b => f a b)) = sumS o l2 (fun b => sumS o l1 (fun a => f a b)).
Proof.
  induction l1 as [|a l1 IH].
  - unfold sumS at 1. cbn [map sum_list]. symmetry. apply (sumS_zero o Hr).
  - rewrite sumS_cons, IH, <- (sumS_add o Hr). apply sumS_ext. intros b _. rewrite sumS_cons. reflexivity.
Qed.

(** a sum over the labels of a duplicate-free list with a single non-zero term *)
Lemma sumS_indicator_nat (l : list nat) (k : nat) (g : nat -> R) :
  NoDup l -> In k l -> sumS o l (fun m => if Nat.eqb k m then g m else zero o) = g k.
Proof.
  intros Hnd. induction Hnd as [|e l He Hnd IH]; intros Hin; [destruct Hin|].
  rewrite sumS_cons. destruct (Nat.eqb k e) eqn:E.
  - apply Nat.eqb_eq in E. subst e.
    rewrite (sumS_ext o l _ (fun _ => zero o)).
    + rewrite (sumS_zero o Hr). ring.
    + intros m Hm. destruct (Nat.eqb k m) eqn:E'; [|reflexivity].
      apply Nat.eqb_eq in E'. subst m. contradiction.
  - destruct Hin as [->|Hin]; [rewrite Nat.eqb_refl in E; discriminate|].
    rewrite (IH Hin). ring.
Qed.

Lemma sumS_filter_indicator {A} (p : A -> bool) (l : list A) (f : A -> R) :
  sumS o (filter p l) f = sumS o l (fun a => if p a then f a else zero o).
Proof.
  induction l as [|a l IH]; [reflexivity|]. cbn [filter]. destruct (p a) eqn:E.
  - rewrite !sumS_cons, IH, E. reflexivity.
  - rewrite sumS_cons, IH, E. ring.
Qed.

Theorem lin_J0x_matrix_form (x : env (R:=R)) n xi :
  NoDup comp -> lin_J0x x n xi = lin_J0x_by_rule x n xi.
Proof.
  intros Hnd. unfold lin_J0x, lin_J0x_by_rule, lin_J0.
  (* push the multiplication by x into the sum over rules, then swap the sums *)
  rewrite (sumS_ext o comp _
             (fun m => sumS o (rules_of G n)
                            (fun r => if has_comp_edge r && Nat.eqb (rule_label r) m
                                      then sumS o (all_assts (lshape G m)) (fun eta => mul o (lin_J0_rule r xi eta) (x m eta))
                                      else zero o))).
  2:{ intros m _.
      rewrite (sumS_ext o (all_assts (lshape G m)) _
                 (fun eta => sumS o (filter (fun r => has_comp_edge r && Nat.eqb (rule_label r) m) (rules_of G n))
                                  (fun r => mul o (lin_J0_rule r xi eta) (x m eta))))
        by (intros eta _; apply (sumS_mul_r o Hr)).
      rewrite (sumS_swap (all_assts (lshape G m))
                 (filter (fun r => has_comp_edge r && Nat.eqb (rule_label r) m) (rules_of G n))
                 (fun eta r => mul o (lin_J0_rule r xi eta) (x m eta))).
      apply sumS_filter_indicator. }
  rewrite (sumS_swap comp (rules_of G n)
             (fun m r => if has_comp_edge r && Nat.eqb (rule_label r) m
                         then sumS o (all_assts (lshape G m)) (fun eta => mul o (lin_J0_rule r xi eta) (x m eta))
                         else zero o)).
  rewrite (sumS_filter_indicator has_comp_edge (rules_of G n)).
  apply sumS_ext. intros r Hr'.
  destruct (has_comp_edge r) eqn:Hhas; cbn [andb].
  - rewrite (sumS_indicator_nat comp (rule_label r)
               (fun m => sumS o (all_assts (lshape G m)) (fun eta => mul o (lin_J0_rule r xi eta) (x m eta))) Hnd).
    + reflexivity.
    + unfold has_comp_edge in Hhas. apply negb_true_iff, Nat.eqb_neq in Hhas. unfold rule_label.
      destruct (comp_edges comp r) as [|ed rest] eqn:E; [cbn in Hhas; lia|].
      assert (In ed (comp_edges comp r)) as Hin by (rewrite E; left; reflexivity).
      unfold comp_edges in Hin. apply filter_In in Hin as [_ Hin]. apply mem_In. exact Hin.
  - apply (sumS_zero o Hr).
Qed.

(** the component's equations:  F x = J0 . x + F0  *)
Theorem step_linear_affine (x : env (R:=R)) n xi :
  NoDup comp -> max_rhs G comp <= 1 -> In n comp -> In xi (all_assts (lshape G n)) ->
  step o G w (mix_env x) n xi = add o (lin_J0x x n xi) (lin_F0 n xi).
Proof.
  intros Hnd Hmax Hn Hxi. rewrite (lin_J0x_matrix_form x n xi Hnd).
  apply step_linear_affine_by_rule; assumption.
Qed.

End Linear.
