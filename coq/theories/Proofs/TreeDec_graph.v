(** Lemmas about the list-as-set operations and the graph helpers of Model/TreeDec.v
    ([add_edge], [make_clique], [remove_node], [eliminate_node]); Prop-level notion of
    simple undirected graph [wf_graph] and its preservation by elimination. *)
From Coq Require Import List Arith Bool PeanoNat Lia Permutation Setoid Morphisms.
Import ListNotations.
Require Import Fggs.Model.TreeDec.

(** * sets *)
Lemma mem_In x l : mem x l = true <-> In x l.
Proof.
  unfold mem. rewrite existsb_exists. split.
  - intros [y [Hy He]]. apply Nat.eqb_eq in He. subst; auto.
  - intro H. exists x. split; auto. apply Nat.eqb_refl.
Qed.
Lemma mem_nIn x l : mem x l = false <-> ~ In x l.
Proof.
  rewrite <- mem_In. destruct (mem x l); intuition congruence.
Qed.

Lemma ins_In x y l : In y (ins x l) <-> y = x \/ In y l.
Proof.
  induction l as [|z l IH]; cbn [ins In].
  - intuition.
  - destruct (x <? z); cbn [In]; [|rewrite IH]; intuition.
Qed.
Lemma set_add_In x y l : In y (set_add x l) <-> y = x \/ In y l.
Proof.
  unfold set_add. destruct (mem x l) eqn:E.
  - apply mem_In in E. intuition. subst; auto.
  - apply ins_In.
Qed.
Lemma ins_NoDup x l : ~ In x l -> NoDup l -> NoDup (ins x l).
Proof.
  induction l as [|z l IH]; cbn [ins]; intros Hx Hl.
  - constructor; auto.
  - cbn [In] in Hx. destruct (x <? z).
    + constructor; auto.
    + inversion Hl; subst. constructor.
      * rewrite ins_In. intuition.
      * apply IH; auto.
Qed.
Lemma set_add_NoDup x l : NoDup l -> NoDup (set_add x l).
Proof.
  unfold set_add. destruct (mem x l) eqn:E; auto. apply mem_nIn in E. now apply ins_NoDup.
Qed.
Lemma ins_length x l : length (ins x l) = S (length l).
Proof. induction l as [|z l IH]; cbn [ins length]; auto. destruct (x <? z); cbn [length]; auto. Qed.
Lemma set_add_length x l : ~ In x l -> length (set_add x l) = S (length l).
Proof. intro H. unfold set_add. apply mem_nIn in H. rewrite H. apply ins_length. Qed.

Lemma set_remove_In x y l : In y (set_remove x l) <-> In y l /\ y <> x.
Proof.
  unfold set_remove. rewrite filter_In. rewrite negb_true_iff, Nat.eqb_neq. tauto.
Qed.
Lemma set_remove_NoDup x l : NoDup l -> NoDup (set_remove x l).
Proof. apply NoDup_filter. Qed.
Lemma set_remove_notin x l : ~ In x l -> set_remove x l = l.
Proof.
  induction l as [|z l IH]; cbn; intro H; auto.
  destruct (Nat.eqb_spec z x) as [->|Hne]; cbn.
  - exfalso; auto.
  - f_equal. apply IH. auto.
Qed.

Lemma subset_incl a b : subset a b = true <-> incl a b.
Proof.
  unfold subset. rewrite forallb_forall. unfold incl. split; intros H x Hx; apply mem_In; auto.
Qed.
Lemma nodupb_NoDup l : nodupb l = true <-> NoDup l.
Proof.
  induction l as [|x l IH]; cbn.
  - split; auto. constructor.
  - rewrite andb_true_iff, negb_true_iff, mem_nIn, IH. split.
    + intros [H1 H2]. constructor; auto.
    + intro H. inversion H; auto.
Qed.

Lemma NoDup_perm_remove (v : nat) l : NoDup l -> In v l -> Permutation l (v :: set_remove v l).
Proof.
  induction l as [|z l IH]; intros Hl Hv; [destruct Hv|].
  inversion Hl; subst. cbn. destruct (Nat.eqb_spec z v) as [->|Hne]; cbn.
  - fold (set_remove v l). rewrite set_remove_notin; auto.
  - destruct Hv as [->|Hv]; [congruence|]. fold (set_remove v l).
    eapply perm_trans; [apply perm_skip, IH; auto|]. apply perm_swap.
Qed.
Lemma set_remove_length (v : nat) l : NoDup l -> In v l -> S (length (set_remove v l)) = length l.
Proof.
  intros Hl Hv. apply NoDup_perm_remove in Hv; auto. apply Permutation_length in Hv. cbn in Hv. lia.
Qed.

(** * graphs *)
Lemma nbrs_not_key g v : ~ In v (gverts g) -> nbrs g v = [].
Proof.
  induction g as [|p g IH]; cbn; intro H; auto.
  destruct (Nat.eqb_spec (fst p) v) as [E|E]; [exfalso; auto|]. apply IH. auto.
Qed.
Lemma nbrs_In_key g v y : In y (nbrs g v) -> In v (gverts g).
Proof.
  intro H. destruct (in_dec Nat.eq_dec v (gverts g)) as [|Hn]; auto.
  rewrite nbrs_not_key in H; auto. destruct H.
Qed.
Lemma nbrs_entry g v : In v (gverts g) -> exists p, In p g /\ fst p = v /\ snd p = nbrs g v.
Proof.
  induction g as [|p g IH]; cbn; intro H; [destruct H|].
  destruct (Nat.eqb_spec (fst p) v) as [E|E].
  - exists p. auto.
  - destruct H as [H|H]; [congruence|]. destruct (IH H) as [q [Hq1 Hq2]]. exists q. auto.
Qed.
Lemma nbrs_In_entry g p : NoDup (gverts g) -> In p g -> nbrs g (fst p) = snd p.
Proof.
  induction g as [|q g IH]; intros Hk Hp; [destruct Hp|].
  cbn. inversion Hk as [|? ? Hn Hk']; subst. destruct Hp as [->|Hp].
  - now rewrite Nat.eqb_refl.
  - destruct (Nat.eqb_spec (fst q) (fst p)) as [E|E].
    + exfalso. apply Hn. rewrite E. apply in_map. exact Hp.
    + now apply IH.
Qed.
Lemma has_key_In g v : has_key g v = true <-> In v (gverts g).
Proof. apply mem_In. Qed.

Record wf_graph (g : graph) : Prop := {
  wf_keys : NoDup (gverts g);
  wf_nodup : forall x, NoDup (nbrs g x);
  wf_irrefl : forall x, ~ In x (nbrs g x);
  wf_closed : forall x y, In y (nbrs g x) -> In y (gverts g);
  wf_sym : forall x y, In y (nbrs g x) -> In x (nbrs g y) }.

Lemma wf_graphb_sound g : wf_graphb g = true -> wf_graph g.
Proof.
  unfold wf_graphb. rewrite andb_true_iff, nodupb_NoDup, forallb_forall. intros [Hk Ha].
  assert (Hx : forall x, nbrs g x = [] \/ exists p, In p g /\ fst p = x /\ snd p = nbrs g x).
  { intro x. destruct (in_dec Nat.eq_dec x (gverts g)) as [Hi|Hn].
    - right. now apply nbrs_entry.
    - left. now apply nbrs_not_key. }
  assert (Hp : forall x, NoDup (nbrs g x) /\ ~ In x (nbrs g x) /\
                         forall w, In w (nbrs g x) -> In w (gverts g) /\ In x (nbrs g w)).
  { intro x. destruct (Hx x) as [E|[p [Hp [Hf Hs]]]].
    - rewrite E. split; [constructor|]. split; auto. intros w [].
    - specialize (Ha p Hp). rewrite !andb_true_iff in Ha. destruct Ha as [[H1 H2] H3].
      rewrite Hs, Hf in *. apply nodupb_NoDup in H1. apply negb_true_iff, mem_nIn in H2.
      rewrite forallb_forall in H3. split; auto. split; auto.
      intros w Hw. specialize (H3 w Hw). apply andb_true_iff in H3. destruct H3 as [H3 H4].
      apply has_key_In in H3. apply mem_In in H4. auto. }
  constructor; auto.
  - intro x. apply Hp.
  - intro x. apply Hp.
  - intros x y H. apply (Hp x); auto.
  - intros x y H. apply (Hp x); auto.
Qed.

(** ** add_edge *)
Lemma gverts_add_edge g a b : gverts (add_edge g a b) = gverts g.
Proof. unfold gverts, add_edge. rewrite map_map. reflexivity. Qed.

Lemma In_nbrs_add_edge g a b x y :
  In y (nbrs (add_edge g a b) x) <->
  In y (nbrs g x) \/ (In x (gverts g) /\ ((x = a /\ y = b) \/ (x = b /\ y = a))).
Proof.
  induction g as [|p g IH]; cbn [add_edge map nbrs gverts fst snd In].
  - tauto.
  - fold (add_edge g a b). destruct (Nat.eqb_spec (fst p) x) as [E|E].
    + subst x.
      destruct (Nat.eqb_spec (fst p) a) as [Ea|Ea]; destruct (Nat.eqb_spec (fst p) b) as [Eb|Eb];
        rewrite ?set_add_In; intuition congruence.
    + rewrite IH. fold (gverts g). intuition congruence.
Qed.

Lemma NoDup_nbrs_add_edge g a b x : NoDup (nbrs g x) -> NoDup (nbrs (add_edge g a b) x).
Proof.
  induction g as [|p g IH]; cbn [add_edge map nbrs fst snd]; auto.
  fold (add_edge g a b). destruct (Nat.eqb_spec (fst p) x) as [E|E]; auto.
  intro H. destruct (fst p =? a); destruct (fst p =? b); auto using set_add_NoDup.
Qed.

(** ** make_clique *)
Definition mc_inner (v1 : nat) (l : list nat) (g : graph) : graph :=
  fold_left (fun g v2 => if v1 =? v2 then g else add_edge g v1 v2) l g.

Lemma gverts_mc_inner v1 l g : gverts (mc_inner v1 l g) = gverts g.
Proof.
  unfold mc_inner. revert g. induction l as [|v2 l IH]; intro g; cbn; auto.
  rewrite IH. destruct (v1 =? v2); auto using gverts_add_edge.
Qed.
Lemma NoDup_nbrs_mc_inner v1 l g x : NoDup (nbrs g x) -> NoDup (nbrs (mc_inner v1 l g) x).
Proof.
  unfold mc_inner. revert g. induction l as [|v2 l IH]; intros g H; cbn; auto.
  apply IH. destruct (v1 =? v2); auto using NoDup_nbrs_add_edge.
Qed.
Lemma In_nbrs_mc_inner v1 l g x y :
  In y (nbrs (mc_inner v1 l g) x) <->
  In y (nbrs g x) \/ (In x (gverts g) /\ x <> y /\ ((x = v1 /\ In y l) \/ (y = v1 /\ In x l))).
Proof.
  unfold mc_inner. revert g. induction l as [|v2 l IH]; intro g; cbn [fold_left In].
  - tauto.
  - rewrite IH. destruct (Nat.eqb_spec v1 v2) as [E|E].
    + subst. intuition congruence.
    + rewrite gverts_add_edge, In_nbrs_add_edge. intuition congruence.
Qed.

Lemma make_clique_eq g nodes :
  make_clique g nodes = fold_left (fun g v1 => mc_inner v1 nodes g) nodes g.
Proof. reflexivity. Qed.

Lemma gverts_mc_outer l1 l2 g : gverts (fold_left (fun g v1 => mc_inner v1 l2 g) l1 g) = gverts g.
Proof.
  revert g. induction l1 as [|v1 l1 IH]; intro g; cbn; auto. rewrite IH. apply gverts_mc_inner.
Qed.
Lemma NoDup_nbrs_mc_outer l1 l2 g x :
  NoDup (nbrs g x) -> NoDup (nbrs (fold_left (fun g v1 => mc_inner v1 l2 g) l1 g) x).
Proof.
  revert g. induction l1 as [|v1 l1 IH]; intros g H; cbn; auto. apply IH. now apply NoDup_nbrs_mc_inner.
Qed.
Lemma In_nbrs_mc_outer l1 l2 g x y :
  In y (nbrs (fold_left (fun g v1 => mc_inner v1 l2 g) l1 g) x) <->
  In y (nbrs g x) \/ (In x (gverts g) /\ x <> y /\ ((In x l1 /\ In y l2) \/ (In y l1 /\ In x l2))).
Proof.
  revert g. induction l1 as [|v1 l1 IH]; intro g; cbn [fold_left In].
  - tauto.
  - rewrite IH, gverts_mc_inner, In_nbrs_mc_inner. intuition congruence.
Qed.

Lemma gverts_make_clique g nodes : gverts (make_clique g nodes) = gverts g.
Proof. rewrite make_clique_eq. apply gverts_mc_outer. Qed.
Lemma NoDup_nbrs_make_clique g nodes x : NoDup (nbrs g x) -> NoDup (nbrs (make_clique g nodes) x).
Proof. rewrite make_clique_eq. apply NoDup_nbrs_mc_outer. Qed.
Lemma In_nbrs_make_clique g nodes x y :
  In y (nbrs (make_clique g nodes) x) <->
  In y (nbrs g x) \/ (In x (gverts g) /\ x <> y /\ In x nodes /\ In y nodes).
Proof. rewrite make_clique_eq, In_nbrs_mc_outer. tauto. Qed.

(** ** remove_node *)
Definition rn (nv : list nat) (g : graph) (v : nat) : graph :=
  map (fun p => (fst p, if mem (fst p) nv then set_remove v (snd p) else snd p))
      (filter (fun p => negb (fst p =? v)) g).
Lemma remove_node_eq g v : remove_node g v = rn (nbrs g v) g v.
Proof. reflexivity. Qed.

Lemma gverts_rn nv g v : gverts (rn nv g v) = set_remove v (gverts g).
Proof.
  unfold rn, gverts, set_remove. induction g as [|p g IH]; cbn; auto.
  destruct (fst p =? v); cbn; rewrite IH; auto.
Qed.
Lemma nbrs_rn nv g v x :
  nbrs (rn nv g v) x =
  if x =? v then [] else if mem x nv then set_remove v (nbrs g x) else nbrs g x.
Proof.
  unfold rn. induction g as [|p g IH]; cbn.
  - destruct (x =? v); auto. destruct (mem x nv); auto.
  - destruct (Nat.eqb_spec (fst p) v) as [E|E]; cbn.
    + rewrite IH. destruct (Nat.eqb_spec x v) as [E2|E2]; auto.
      destruct (Nat.eqb_spec (fst p) x) as [E3|E3]; [congruence|]. auto.
    + destruct (Nat.eqb_spec (fst p) x) as [E3|E3].
      * subst x. destruct (Nat.eqb_spec (fst p) v); [congruence|]. auto.
      * apply IH.
Qed.

Lemma gverts_remove_node g v : gverts (remove_node g v) = set_remove v (gverts g).
Proof. rewrite remove_node_eq. apply gverts_rn. Qed.
Lemma In_nbrs_remove_node g v x y :
  In y (nbrs (remove_node g v) x) <->
  x <> v /\ In y (nbrs g x) /\ ~ (y = v /\ In x (nbrs g v)).
Proof.
  rewrite remove_node_eq, nbrs_rn. destruct (Nat.eqb_spec x v) as [E|E].
  - cbn. tauto.
  - destruct (mem x (nbrs g v)) eqn:M.
    + apply mem_In in M. rewrite set_remove_In. tauto.
    + apply mem_nIn in M. tauto.
Qed.
Lemma NoDup_nbrs_remove_node g v x : NoDup (nbrs g x) -> NoDup (nbrs (remove_node g v) x).
Proof.
  intro H. rewrite remove_node_eq, nbrs_rn. destruct (x =? v); [constructor|].
  destruct (mem x (nbrs g v)); auto using set_remove_NoDup.
Qed.

(** ** eliminate_node *)
Lemma gverts_eliminate g v : gverts (eliminate_node g v) = set_remove v (gverts g).
Proof. unfold eliminate_node. rewrite gverts_remove_node, gverts_make_clique. reflexivity. Qed.

Lemma In_nbrs_eliminate g v x y : wf_graph g ->
  (In y (nbrs (eliminate_node g v) x) <->
   x <> v /\ y <> v /\ (In y (nbrs g x) \/ (x <> y /\ In x (nbrs g v) /\ In y (nbrs g v)))).
Proof.
  intro W. unfold eliminate_node. rewrite In_nbrs_remove_node, !In_nbrs_make_clique.
  pose proof (wf_irrefl g W v) as Hirr. pose proof (wf_sym g W) as Hsym.
  pose proof (wf_closed g W) as Hcl.
  split.
  - intros [H1 [H2 H3]]. split; auto. split.
    + intro E. subst y. apply H3. split; auto. left.
      destruct H2 as [H2|[_ [_ [_ H2]]]]; [auto | contradiction].
    + destruct H2 as [H2|[_ [H4 [H5 H6]]]]; auto.
  - intros [H1 [H2 H3]]. split; auto. split.
    + destruct H3 as [H3|[H4 [H5 H6]]]; auto. right. split; auto.
      apply (Hcl v); auto.
    + intros [E _]. congruence.
Qed.

Lemma length_eliminate g v : NoDup (gverts g) -> In v (gverts g) ->
  S (length (eliminate_node g v)) = length g.
Proof.
  intros Hk Hv. rewrite <- (map_length fst (eliminate_node g v)), <- (map_length fst g).
  fold (gverts (eliminate_node g v)). fold (gverts g). rewrite gverts_eliminate.
  now apply set_remove_length.
Qed.

Lemma wf_eliminate g v : wf_graph g -> wf_graph (eliminate_node g v).
Proof.
  intro W. constructor.
  - rewrite gverts_eliminate. apply set_remove_NoDup, W.
  - intro x. unfold eliminate_node. apply NoDup_nbrs_remove_node, NoDup_nbrs_make_clique, W.
  - intros x H. apply In_nbrs_eliminate in H; auto. destruct H as [_ [_ [H|[H _]]]].
    + now apply (wf_irrefl g W x).
    + congruence.
  - intros x y H. apply In_nbrs_eliminate in H; auto. destruct H as [_ [Hy H]].
    rewrite gverts_eliminate, set_remove_In. split; auto.
    destruct H as [H|[_ [_ H]]]; eapply (wf_closed g W); eauto.
  - intros x y H. apply In_nbrs_eliminate in H; auto. apply In_nbrs_eliminate; auto.
    destruct H as [Hx [Hy H]]. split; auto. split; auto.
    destruct H as [H|[Hn [H1 H2]]].
    + left. now apply (wf_sym g W).
    + right. auto.
Qed.

(** degrees are bounded by the number of other vertices *)
Lemma deg_lt_length g v : wf_graph g -> In v (gverts g) -> deg g v < length g.
Proof.
  intros W Hv. unfold deg.
  assert (H : incl (nbrs g v) (set_remove v (gverts g))).
  { intros y Hy. apply set_remove_In. split.
    - eapply (wf_closed g W); eauto.
    - intro E. subst. now apply (wf_irrefl g W v). }
  apply NoDup_incl_length in H; [|apply W].
  pose proof (set_remove_length v (gverts g) (wf_keys g W) Hv) as L.
  unfold gverts in L at 2. rewrite map_length in L. lia.
Qed.
