(** C15_derive: the main statement. *)
From Coq Require Import List Arith Bool PeanoNat Lia Permutation Ring.
Import ListNotations.
Require Import Fggs.Model.Semiring Fggs.Model.Replace Fggs.Proofs.Replace_base Fggs.Proofs.Replace_wf
  Fggs.Proofs.Replace_explicit Fggs.Proofs.Replace_spec Fggs.Proofs.Replace_model_spec Fggs.Proofs.Replace_inv
  Fggs.Proofs.Replace_step Fggs.Proofs.Replace_nodup Fggs.Proofs.Replace_confl Fggs.Proofs.Replace_derive
  Fggs.Proofs.Replace_asst Fggs.Proofs.Replace_weights.

Lemma bool_sr : semi_ring_theory false true orb andb (@eq bool).
Proof.
  constructor; intros; try reflexivity.
  - apply orb_comm.
  - apply orb_assoc.
  - apply andb_comm.
  - apply andb_assoc.
  - destruct n, m, p; reflexivity.
Qed.

Theorem derive_main : forall L t nx,
  wf_dtreeb L t = true -> functionalb L = true ->
  exists s nn en,
    derive_model t nx = (s, None) /\
    iso_via (ds_graph s) nn en (derived_graph t) /\
    (forall v, In v (g_nodes (ds_graph s)) -> amem node_eqb (ds_asst s) v = true) /\
    forall (S : Type) (o : sr_ops S) (w : elabel -> list nat -> S), sr_ring o ->
      exists W, graph_weight o w (ds_graph s) (ds_asst s) = Some W /\ tree_weight o w t = Some W.
Proof.
  intros L t nx HW HFb.
  destruct (derive_is_preorder_run L t nx HW HFb) as [rs [R [P [I V]]]].
  exists (proj rs), (rs_nnames rs), (rs_enames rs). split; auto.
  split. { apply (proj2 (confluence_main L t nx HW HFb (preorder [] t)) rs R P). }
  pose proof HFb as HF. apply functionalb_iff in HF.
  split.
  - pose proof (run_invAW bool_ops (fun _ _ => true) bool_sr L HF (twd bool_ops (fun _ _ => true) t)
                  (preorder [] t) (init_state t nx) rs (init_inv L t nx HW) (init_invA t nx)
                  (init_invW bool_ops (fun _ _ => true) bool_sr L t nx HW) R) as [HA _].
    destruct (A_phase rs HA) as [[_ [tk [HP' _]]]|[AV _]].
    + rewrite P in HP'. discriminate.
    + exact AV.
  - intros S o w HR.
    pose proof (run_invAW o w HR L HF (twd o w t) (preorder [] t) (init_state t nx) rs
                  (init_inv L t nx HW) (init_invA t nx) (init_invW o w HR L t nx HW) R) as [_ HWt].
    exists (twd o w t). split; [|eapply tree_weight_d; eauto].
    unfold graph_weight. cbn [proj ds_graph ds_asst].
    rewrite (edges_weight_d o w) by (apply (W_val o w _ _ HWt)).
    f_equal. pose proof (W_eq o w _ _ HWt) as EQ. rewrite P in EQ. cbn [map prod_list] in EQ.
    rewrite <- EQ. destruct HR. rewrite SRmul_comm. rewrite SRmul_1_l. reflexivity.
Qed.
