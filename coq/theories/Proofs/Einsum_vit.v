(** C07 (d): the Viterbi variant as a whole.  On the normal exit, for every output cell that has a
    backing element, the pointer tuple computed by [viterbi_ptr_model] (physical argmax, then
    [p = o + sum_k alpha_k * ptr_k] through [Axis.stride]) is the tuple of the values [eval] gives
    to the summed-out axes at the physical pointer, and the product of the operand entries at the
    pointed indices equals the value of the cell. *)
From Coq Require Import List Arith Bool PeanoNat Lia Permutation Ring Ring_theory PArith.
Import ListNotations.
Require Import Fggs.Model.Semiring Fggs.Model.SumProduct.
Require Import Fggs.Proofs.BigSum Fggs.Proofs.SP_trees.
Require Import Fggs.Model.Axis Fggs.Model.PTensor Fggs.Model.AxisCheck Fggs.Model.Einsum Fggs.Model.EinsumCheck Fggs.Model.EinsumCert.
Require Import Fggs.Proofs.Axis_sem Fggs.Proofs.Axis_antiunify Fggs.Proofs.Axis_repr Fggs.Proofs.PTensor_sem Fggs.Proofs.PTensor_dense.
Require Import Fggs.Proofs.Einsum_dense Fggs.Proofs.Einsum_envs Fggs.Proofs.Einsum_support Fggs.Proofs.Einsum_form.
Require Import Fggs.Proofs.Einsum_views Fggs.Proofs.Einsum_reduce Fggs.Proofs.Einsum_subst Fggs.Proofs.Einsum_loop.
Require Import Fggs.Proofs.Einsum_project Fggs.Proofs.Einsum_reindex Fggs.Proofs.Einsum_main Fggs.Proofs.Einsum_final.
Require Import Fggs.Proofs.Einsum_top Fggs.Proofs.Einsum_argmax.

Section Vit.
Context {R : Type} (o : sr_ops R).
Hypothesis Hr : sr_ring o.
Variable veqb : R -> R -> bool.
Hypothesis Hveqb : forall a b, veqb a b = true -> a = b.
Variable leb : R -> R -> bool.
Hypothesis Hsel : forall a b, add o a b = if leb a b then b else a.
Notation r0 := (Semiring.zero o).

Lemma cert_viterbi_facts (r : erun (R:=R)) inputs output : cert_viterbi r inputs output = true ->
  exists rest, pop_all output (er_i2v r) = Some rest /\
    map fst rest = summed_labels inputs output /\
    (forall l e, In (l, e) rest -> lassoc l (er_i2v r) = Some e) /\
    (forall l e, In (l, e) rest -> forall o0 s0, stride (sfuel (er_sigma r) [e]) (er_sigma r) e = Ok (o0, s0) ->
       forall k c, In (k, c) s0 -> assoc k (er_sigma r) = None).
Proof.
  unfold cert_viterbi. destruct (pop_all output (er_i2v r)) as [rest|]; [|discriminate]. intros H.
  apply andb_true_iff in H. destruct H as [H H3]. apply andb_true_iff in H. destruct H as [H1 H2].
  exists rest. split; [reflexivity|]. split; [apply leqb_eq; exact H1|]. rewrite forallb_forall in H2, H3. split.
  - intros l e Hin. specialize (H2 (l, e) Hin). cbn [fst snd] in H2.
    destruct (lassoc l (er_i2v r)) as [e'|]; [|discriminate]. apply axis_eqb_eq in H2. subst. reflexivity.
  - intros l e Hin o0 s0 Es k c Hkc. specialize (H3 (l, e) Hin). cbn [fst snd] in H3. rewrite Es in H3.
    rewrite forallb_forall in H3. specialize (H3 (k, c) Hkc). apply unbound_assoc. exact H3.
Qed.

Theorem viterbi_ptr_correct genabled next ts0 inputs output r :
  einsum_run o veqb genabled next ts0 inputs output = Ok r ->
  er_failed r = false -> er_zero_axis r = false ->
  Forall (st_ok (R:=R)) (er_ts r) ->
  cert_operands o veqb r inputs output = true -> cert_subst r = true -> cert_views r = true ->
  cert_viterbi r inputs output = true ->
  forall oidx pi vp, length oidx = length output ->
  index_list (er_outv r) [] oidx = IOk pi ->
  viterbi_ptr_model o leb r output oidx = Ok vp ->
  (exists rest pi', pop_all output (er_i2v r) = Some rest /\ In pi' (all_envs (kvars r)) /\
      vp = map (eval (xt (er_sigma r) (cert_fuel (er_sigma r)) pi')) (map snd rest)) /\
  einsum_term o (map (dn (R:=R)) (operands_of r)) inputs (combine output oidx ++ combine (summed_labels inputs output) vp)
  = denote R (er_raw r) oidx.
Proof.
  intros Hrun Hf Hz OK CO CS CV CW oidx pi vp Lo Hidx Hptr.
  destruct (einsum_run_inv o veqb genabled next ts0 inputs output r Hrun) as (s & ts1 & nx1 & _ & E1 & Es & Ei & Ef & E2 & Rest).
  destruct (Rest Hf) as [E3 Er]. specialize (Er Hz).
  rewrite <- Es in E2, E3. rewrite <- Ei in E2.
  assert (Ez : ls_zero s = false) by (rewrite <- Ef; exact Hf).
  destruct (cert_viterbi_facts r inputs output CW) as (rest & Ep & W1 & W2 & W3).
  unfold viterbi_ptr_model in Hptr. rewrite Ep, Hf, Hz, Hidx in Hptr. cbn [orb] in Hptr.
  destruct (phys_argmax o leb (er_views r) (er_outp r) (pcoords (er_outp r) (env_of pi))) as [pp|] eqn:Ea; [|discriminate].
  destruct (cv_facts r CV) as (_ & _ & V3 & V4 & _ & _ & V6 & _).
  assert (Wraw : wf R (mkPT (phys_out o (er_views r) (er_outp r)) (er_outp r) (er_outv r) r0))
    by (apply (repr_inv_wf R _ (map snd (er_outp r))); exact V6).
  pose proof (wf_nodup R _ Wraw) as NDo. cbn [paxes] in NDo.
  assert (Lc : length (pcoords (er_outp r) (env_of pi)) = length (er_outp r)) by (unfold pcoords; apply map_length).
  destruct (phys_argmax_attains o Hr leb Hsel (er_views r) (er_outp r) _ pp NDo Lc V3 V4 Ea) as [Hpp Hmax].
  split.
  - destruct (ptr_correct o veqb Hveqb r inputs output CV CO CS s ts1 nx1 E1 Es Ei Ez E2 E3 rest W1 W2 W3 oidx pi pp vp Lo Hidx Hpp Hptr)
      as (HK & Evp & _).
    eexists rest, _. split; [exact Ep|]. split; [exact HK|exact Evp].
  - exact (ptr_attains o Hr veqb Hveqb r inputs output CV CO CS OK s ts1 nx1 E1 Es Ei Ez E2 E3 Er rest W1 W2 W3 oidx pi pp vp Lo Hidx Hpp Hptr Hmax).
Qed.
End Vit.
