(** C16 -- a copied graph SHOWS exactly what its original shows, provided the label tables
    survive the copy (the F13 guard): [Graph.copy] empties them, [FactorGraph.copy] rebuilds
    them from nodes and edges. *)
From Coq Require Import List Arith Bool Lia.
Import ListNotations.
Require Import Fggs.Model.GraphAPI Fggs.Proofs.GraphAPI_assoc Fggs.Proofs.GraphAPI_wf
        Fggs.Proofs.GraphAPI_graph Fggs.Proofs.GraphAPI_hrg Fggs.Proofs.GraphAPI_atomic Fggs.Proofs.GraphAPI_copy.

Lemma aset_new : forall {K V} (Keq : forall a b : K, {a = b} + {a <> b}) (m : list (K * V)) k v,
    aget Keq m k = None -> aset Keq m k v = m ++ [(k, v)].
Proof.
  induction m as [|[a b] m IH]; intros k v H; cbn in *; [reflexivity|].
  destruct (Keq a k); [discriminate|]. f_equal. apply IH. assumption.
Qed.

Lemma nodes_phase_list : forall (l : list (ident * node)) c0 c1 r,
    fold_err g_add_node (map snd l) c0 = (c1, r) -> is_err r = false ->
    (forall k v, In (k, v) l -> k = n_id v) ->
    g_nodes c1 = g_nodes c0 ++ l /\ g_fg c1 = g_fg c0.
Proof.
  induction l as [|[k n] l IH]; intros c0 c1 r E NE KV; cbn in E.
  - inversion E; subst. rewrite app_nil_r. auto.
  - unfold g_add_node in E at 1. cbn [snd] in E.
    destruct (amem ident_eq_dec (g_nodes c0) (n_id n)) eqn:M.
    + inversion E; subst. discriminate.
    + destruct (IH _ _ _ E NE) as [A B]; [intros; apply KV; right; assumption|].
      cbn in A, B. rewrite A, B. split; [|reflexivity].
      apply amem_false in M. rewrite (aset_new ident_eq_dec _ _ _ M).
      rewrite <- app_assoc. cbn. rewrite (KV k n (or_introl eq_refl)). reflexivity.
Qed.

Lemma g_add_edge_list : forall g e, tab_ok (g_tab g) -> snd (g_add_edge g e) = ROk ->
    g_edges (fst (g_add_edge g e)) = g_edges g ++ [(e_id e, e)] /\ g_fg (fst (g_add_edge g e)) = g_fg g.
Proof.
  intros g e T R. pose proof (add_missing_grows (e_nodes e) g) as GR.
  destruct (g_add_edge_cases g e T) as [[E _]|[[E _]|(t' & E & M & _)]]; rewrite E in *; cbn [fst snd] in *; try discriminate.
  cbn. apply amem_false in M. rewrite (aset_new ident_eq_dec _ _ _ M). split; [reflexivity | apply (gr_fg _ _ GR)].
Qed.

Lemma edges_phase_list : forall (l : list (ident * edge)) c1 c2 r,
    fold_err g_add_edge (map snd l) c1 = (c2, r) -> is_err r = false -> tab_ok (g_tab c1) ->
    (forall k e, In (k, e) l -> k = e_id e) ->
    g_edges c2 = g_edges c1 ++ l /\ g_fg c2 = g_fg c1.
Proof.
  induction l as [|[k e] l IH]; intros c1 c2 r E NE T KV; cbn in E.
  - inversion E; subst. rewrite app_nil_r. auto.
  - cbn [snd] in E.
    pose proof (g_add_edge_list c1 e T) as GL. pose proof (g_add_edge_tab c1 e T) as T'.
    pose proof (g_add_edge_result c1 e T) as RR.
    destruct (g_add_edge c1 e) as [c1' r1]. cbn [fst snd] in *.
    destruct RR as [->| ->].
    2:{ inversion E; subst. discriminate. }
    destruct (GL eq_refl) as [G1 G2].
    destruct (IH _ _ _ E NE T') as [A B]; [intros; apply KV; right; assumption|].
    rewrite A, B, G1, G2. split; [|reflexivity].
    rewrite <- app_assoc. cbn. rewrite (KV k e (or_introl eq_refl)). reflexivity.
Qed.

(** the tables a copy ends up with are the original's: this is the guard that excludes F13 *)
Definition copy_tables_kept (g c : graph) : Prop :=
  t_nl (g_tab c) = t_nl (g_tab g) /\ t_el (g_tab c) = t_el (g_tab g) /\
  (g_fg g = false -> t_dom (g_tab g) = [] /\ t_fac (g_tab g) = []).

Theorem g_copy_observe : forall g c,
    graph_ok g -> g_copy g = inl c -> copy_tables_kept g c -> obs_obj (OG c) = obs_obj (OG g).
Proof.
  intros g c OK E (K1 & K2 & K3). unfold g_copy in E. destruct (g_fg g) eqn:FG.
  - destruct (fold_err g_add_node (map snd (g_nodes g)) (empty_graph true)) as [c1 r1] eqn:E1.
    assert (NE1 : is_err r1 = false) by (destruct r1; [reflexivity | reflexivity | discriminate]).
    destruct (nodes_phase_list _ _ _ _ E1 NE1 (proj2 (gk_nodes _ OK))) as [N1 F1]. cbn in N1, F1.
    destruct (nodes_phase _ _ _ _ E1) as [G1 _].
    assert (E' : match fold_err g_add_edge (map snd (g_edges g)) c1 with
                 | (_, RErr k) => inr k
                 | (c0, _) => inl (gset_tab (gset_ext c0 (g_ext g))
                                            (set_fac (set_dom (g_tab c0) (t_dom (g_tab g))) (t_fac (g_tab g))))
                 end = inl c) by (destruct r1; [exact E | exact E | discriminate]).
    clear E. destruct (fold_err g_add_edge (map snd (g_edges g)) c1) as [c2 r2] eqn:E2.
    assert (NE2 : is_err r2 = false) by (destruct r2; [reflexivity | reflexivity | discriminate]).
    pose proof (gr_tab _ _ G1 tab_ok_empty) as T1.
    destruct (edges_phase_list _ _ _ _ E2 NE2 T1 (proj2 (gk_edges _ OK))) as [ED F2].
    rewrite (gr_edges _ _ G1) in ED. cbn in ED.
    assert (HAS : forall e n, In e (map snd (g_edges g)) -> In n (e_nodes e) -> has_node c1 n).
    { intros e n He Hn. apply in_map_iff in He. destruct He as [[k e'] [<- He]].
      pose proof (gk_att _ OK _ _ _ He Hn) as X. unfold has_node in *. rewrite N1. exact X. }
    destruct (edges_phase_all _ _ _ _ E2 NE2 T1 HAS) as (NS & _ & _).
    assert (Ec : c = gset_tab (gset_ext c2 (g_ext g))
                              (set_fac (set_dom (g_tab c2) (t_dom (g_tab g))) (t_fac (g_tab g))))
      by (destruct r2; inversion E'; reflexivity).
    subst c. cbn in *. unfold g_type. cbn.
    rewrite F2, F1, NS, N1, ED. unfold obs_tab. cbn. rewrite K1, K2, FG. reflexivity.
  - inversion E; subst c. destruct (K3 eq_refl) as [D1 D2]. cbn in *.
    unfold g_type, obs_tab. cbn. rewrite FG, <- K1, <- K2, D1, D2. reflexivity.
Qed.

Lemma graph_copy_match_refl : forall a b d s, graph_copy_match s (ObsG a b d) (ObsG a b d) = true.
Proof.
  intros. unfold graph_copy_match.
  destruct (oobs_eq_dec (ObsG a b d) (ObsG a b d)) as [|N]; [|congruence]. destruct s; reflexivity.
Qed.

(** hence the observation-level copy oracle (strict) accepts it *)
Corollary g_copy_match : forall g c,
    graph_ok g -> g_copy g = inl c -> copy_tables_kept g c ->
    graph_copy_match true (obs_obj (OG g)) (obs_obj (OG c)) = true.
Proof.
  intros g c OK E K. rewrite (g_copy_observe g c OK E K). unfold obs_obj. apply graph_copy_match_refl.
Qed.
