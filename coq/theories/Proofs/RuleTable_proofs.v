(** C18: the read-only lookups of the rule table (Model/RuleTable.v). *)
From Coq Require Import List Arith Bool PeanoNat NArith Lia.
Import ListNotations.
Require Import Fggs.Model.RuleTable.

(** HRG.rules never changes the table *)
Lemma rules_table_unchanged t k : fst (rules t k) = t.
Proof. reflexivity. Qed.

(** ... hence no loop of lookups does, whatever labels it asks for (with or without rules) *)
Theorem query_table_unchanged t ks : fst (query t ks) = t.
Proof.
  unfold query. revert t. induction ks as [|k ks IH]; intros t; [reflexivity|].
  cbn [query_with rules]. specialize (IH t).
  destruct (query_with rules t ks) as [t2 ls] eqn:E. cbn in IH |- *. exact IH.
Qed.

(** and a lookup returns exactly the rules added for that label, in the order added *)
Lemma tget_add_rule_same t k r :
  tget (add_rule t k r) k = Some (match tget t k with Some l => l ++ [r] | None => [r] end).
Proof.
  induction t as [|[k' l] t IH]; cbn [add_rule tget].
  - rewrite N.eqb_refl. reflexivity.
  - destruct (N.eqb k' k) eqn:E; cbn [tget]; rewrite E; [reflexivity | exact IH].
Qed.

Lemma tget_add_rule_other t k r k2 : k2 <> k -> tget (add_rule t k r) k2 = tget t k2.
Proof.
  intros Hne. induction t as [|[k' l] t IH]; cbn [add_rule tget].
  - destruct (N.eqb k k2) eqn:E; [apply N.eqb_eq in E; congruence | reflexivity].
  - destruct (N.eqb k' k) eqn:E; cbn [tget].
    + apply N.eqb_eq in E. subst k'. destruct (N.eqb k k2) eqn:E2; [apply N.eqb_eq in E2; congruence | reflexivity].
    + destruct (N.eqb k' k2); [reflexivity | exact IH].
Qed.

Theorem rules_after_add_rule t k r :
  snd (rules (add_rule t k r) k) = snd (rules t k) ++ [r].
Proof.
  unfold rules. cbn [snd]. rewrite tget_add_rule_same. destruct (tget t k); reflexivity.
Qed.

(** the observation level determines the outcome: the shape the query leaves behind is the shape
    it was given *)
Lemma shape_table_of_shape s : shape (table_of_shape s) = s.
Proof.
  unfold shape, table_of_shape. induction s as [|[k n] s IH]; [reflexivity|].
  cbn [map fst snd]. rewrite repeat_length, IH. reflexivity.
Qed.

Lemma shape_eqb_refl s : shape_eqb s s = true.
Proof.
  unfold shape_eqb. rewrite Nat.eqb_refl. cbn [andb].
  induction s as [|[k n] s IH]; [reflexivity|].
  cbn [combine forallb fst snd]. rewrite N.eqb_refl, Nat.eqb_refl. exact IH.
Qed.

Lemma shape_eqb_eq a b : shape_eqb a b = true -> a = b.
Proof.
  unfold shape_eqb. revert b. induction a as [|[k n] a IH]; intros [|[k' n'] b] H; try reflexivity; try discriminate.
  cbn [length combine forallb fst snd] in H.
  apply andb_prop in H. destruct H as [Hl H]. apply andb_prop in H. destruct H as [Hh Ht].
  apply andb_prop in Hh. destruct Hh as [Hk Hn].
  apply N.eqb_eq in Hk. apply Nat.eqb_eq in Hn. subst.
  f_equal. apply IH. cbn in Hl. rewrite Hl. exact Ht.
Qed.

(** soundness of the check function: verdict 0 means the table observed after the call has the
    shape observed before it and == with the earlier copy did not change *)
Theorem ruletable_check_sound before ks after eq0 eq1 :
  ruletable_check (before, ks, after, eq0, eq1) = 0 -> after = before /\ eq0 = eq1.
Proof.
  unfold ruletable_check. rewrite query_table_unchanged, shape_table_of_shape.
  destruct (shape_eqb before after) eqn:E.
  - destruct (Bool.eqb eq0 eq1) eqn:E2; [|discriminate]. intros _.
    split; [symmetry; apply shape_eqb_eq; exact E | apply eqb_prop; exact E2].
  - intros H. destruct (shape_eqb _ after) in H; discriminate H.
Qed.

(** ... and completeness: an unchanged table with an unchanged == is accepted *)
Theorem ruletable_check_complete before ks eq0 :
  ruletable_check (before, ks, before, eq0, eq0) = 0.
Proof.
  unfold ruletable_check. rewrite query_table_unchanged, shape_table_of_shape, shape_eqb_refl.
  rewrite Bool.eqb_reflx. reflexivity.
Qed.

(** * the defaultdict variant is not read-only *)

Lemma tget_app_none t k u : tget t k = None -> tget (t ++ u) k = tget u k.
Proof.
  induction t as [|[k' l] t IH]; cbn [tget app]; [reflexivity|].
  destruct (N.eqb k' k); [discriminate | exact IH].
Qed.

Lemma tget_app_some t k u l : tget t k = Some l -> tget (t ++ u) k = Some l.
Proof.
  induction t as [|[k' l'] t IH]; cbn [tget app]; [discriminate|].
  destruct (N.eqb k' k); [trivial | exact IH].
Qed.

Lemma rules_dd_length t k : length (fst (rules_dd t k)) = length t + (if tget t k then 0 else 1).
Proof.
  unfold rules_dd. destruct (tget t k); cbn [fst]; [lia | rewrite app_length; cbn; lia].
Qed.

Lemma query_dd_length_ge t ks : length t <= length (fst (query_dd t ks)).
Proof.
  unfold query_dd. revert t. induction ks as [|k ks IH]; intros t; [cbn; lia|].
  cbn [query_with]. destruct (rules_dd t k) as [t1 l] eqn:E1.
  specialize (IH t1). destruct (query_with rules_dd t1 ks) as [t2 ls]. cbn [fst] in *.
  pose proof (rules_dd_length t k) as H. rewrite E1 in H. cbn [fst] in H. lia.
Qed.

(** it leaves the table unchanged iff every label looked up already has an entry: a nonterminal
    without rules gets an (empty) entry by merely being asked for (= seeded/C18-f) *)
Theorem query_dd_unchanged_iff t ks :
  fst (query_dd t ks) = t <-> forall k, In k ks -> tget t k <> None.
Proof.
  unfold query_dd. revert t. induction ks as [|k ks IH]; intros t.
  - cbn. split; [intros _ k [] | reflexivity].
  - cbn [query_with]. destruct (rules_dd t k) as [t1 l] eqn:E1.
    pose proof (query_dd_length_ge t1 ks) as Hge. unfold query_dd in Hge.
    specialize (IH t1). destruct (query_with rules_dd t1 ks) as [t2 ls]. cbn [fst] in *.
    unfold rules_dd in E1. destruct (tget t k) as [l0|] eqn:Eg.
    + inversion E1; subst t1 l. rewrite IH. split.
      * intros H k' [<-|Hin]; [congruence | apply H; exact Hin].
      * intros H k' Hin. apply H. right. exact Hin.
    + inversion E1; subst t1 l. split.
      * intros ->. rewrite app_length in Hge. cbn in Hge. lia.
      * intros H. exfalso. apply (H k); [left; reflexivity | exact Eg].
Qed.

(** concrete witness: S -> a X | Y,  X -> b,  Y without rules (labels S=0, X=1, Y=2) *)
Example query_dd_refuted :
  let t := add_rule (add_rule (add_rule [] 0 0) 0 1) 1 2 in
  fst (query t [0; 1; 2]%N) = t /\ fst (query_dd t [0; 1; 2]%N) <> t /\
  snd (query t [0; 1; 2]%N) = snd (query_dd t [0; 1; 2]%N) /\
  all_rules (fst (query_dd t [0; 1; 2]%N)) = all_rules t.
Proof. vm_compute. repeat split; try reflexivity. discriminate. Qed.

(** and the check function tells the two apart on that witness *)
Example ruletable_check_witness :
  let b := [(0%N, 2); (1%N, 1)] in let ks := [0; 1; 2]%N in
  ruletable_check (b, ks, b, true, true) = 0 /\
  ruletable_check (b, ks, b ++ [(2%N, 0)], true, false) = 2 /\
  ruletable_check (b, ks, [(0%N, 1); (1%N, 1)], true, true) = 4 /\
  ruletable_check (b, ks, b, true, false) = 3.
Proof. vm_compute. repeat split. Qed.
