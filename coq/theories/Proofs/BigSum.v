(** Finite sums and products over lists in a commutative semiring ([sumS], [prodS] of
    Model/SumProduct.v): app, map, flat_map, extensionality, permutation invariance,
    exchange of two sums, distributivity, sums of zeros, filter, NoDup re-indexing and the
    *product of sums* lemma over [choices]. *)
From Coq Require Import List Arith Bool PeanoNat Lia Permutation Ring Ring_theory.
Import ListNotations.
Require Import Fggs.Model.Semiring Fggs.Model.SumProduct.

Section BigSum.
Context {R : Type} (o : sr_ops R).
Hypothesis Hr : sr_ring o.

Local Notation "0" := (zero o).
Local Notation "1" := (one o).
Local Infix "+" := (add o).
Local Infix "*" := (mul o).

Lemma sr_is_srt : semi_ring_theory (zero o) (one o) (add o) (mul o) (@eq R).
Proof. exact Hr. Qed.
Add Ring RingR : sr_is_srt.

(** ** basic semiring facts in the form used later *)
Lemma r_add_0_l x : 0 + x = x. Proof. ring. Qed.
Lemma r_add_0_r x : x + 0 = x. Proof. ring. Qed.
Lemma r_mul_0_l x : 0 * x = 0. Proof. ring. Qed.
Lemma r_mul_0_r x : x * 0 = 0. Proof. ring. Qed.
Lemma r_mul_1_l x : 1 * x = x. Proof. ring. Qed.
Lemma r_mul_1_r x : x * 1 = x. Proof. ring. Qed.

(** ** sumS *)
Lemma sumS_nil {A} (f : A -> R) : sumS o [] f = 0.
Proof. reflexivity. Qed.
Lemma sumS_cons {A} (x : A) l (f : A -> R) : sumS o (x :: l) f = f x + sumS o l f.
Proof. reflexivity. Qed.
Lemma sumS_app {A} (l1 l2 : list A) f : sumS o (l1 ++ l2) f = sumS o l1 f + sumS o l2 f.
Proof.
  induction l1 as [|x l1 IH]; [rewrite sumS_nil; cbn [app]; ring|].
  cbn [app]. rewrite !sumS_cons, IH. ring.
Qed.
Lemma sumS_map {A B} (g : A -> B) l (f : B -> R) : sumS o (map g l) f = sumS o l (fun x => f (g x)).
Proof. unfold sumS. now rewrite map_map. Qed.
Lemma sumS_ext {A} (l : list A) f g : (forall x, In x l -> f x = g x) -> sumS o l f = sumS o l g.
Proof.
  intros H. induction l as [|x l IH]; [reflexivity|].
  rewrite !sumS_cons, (H x (or_introl eq_refl)), IH; [reflexivity|].
  intros y Hy. apply H. now right.
Qed.
Lemma sumS_flat_map {A B} (g : A -> list B) l (f : B -> R) :
  sumS o (flat_map g l) f = sumS o l (fun x => sumS o (g x) f).
Proof.
  induction l as [|x l IH]; [reflexivity|].
  cbn [flat_map]. now rewrite sumS_app, sumS_cons, IH.
Qed.
Lemma sumS_zero {A} (l : list A) : sumS o l (fun _ => 0) = 0.
Proof. induction l as [|x l IH]; [reflexivity|]. rewrite sumS_cons, IH. ring. Qed.
Lemma sumS_all_zero {A} (l : list A) f : (forall x, In x l -> f x = 0) -> sumS o l f = 0.
Proof. intros H. rewrite (sumS_ext l f (fun _ => 0) H). apply sumS_zero. Qed.
Lemma sumS_add {A} (l : list A) f g : sumS o l (fun x => f x + g x) = sumS o l f + sumS o l g.
Proof. induction l as [|x l IH]; [rewrite !sumS_nil; ring|]. rewrite !sumS_cons, IH. ring. Qed.
Lemma sumS_mul_l {A} (l : list A) c f : c * sumS o l f = sumS o l (fun x => c * f x).
Proof. induction l as [|x l IH]; [rewrite !sumS_nil; ring|]. rewrite !sumS_cons, <- IH. ring. Qed.
Lemma sumS_mul_r {A} (l : list A) c f : sumS o l f * c = sumS o l (fun x => f x * c).
Proof. induction l as [|x l IH]; [rewrite !sumS_nil; ring|]. rewrite !sumS_cons, <- IH. ring. Qed.
Lemma sumS_perm {A} (l l' : list A) f : Permutation l l' -> sumS o l f = sumS o l' f.
Proof.
  induction 1 as [|x l l' _ IH|x y l|l l' l'' _ IH1 _ IH2].
  - reflexivity.
  - now rewrite !sumS_cons, IH.
  - rewrite !sumS_cons. ring.
  - now rewrite IH1.
Qed.
Lemma sumS_exchange {A B} (l : list A) (l' : list B) (f : A -> B -> R) :
  sumS o l (fun x => sumS o l' (fun y => f x y)) = sumS o l' (fun y => sumS o l (fun x => f x y)).
Proof.
  induction l as [|x l IH].
  - rewrite sumS_nil. symmetry. apply sumS_zero.
  - rewrite sumS_cons, IH, <- sumS_add. apply sumS_ext. intros y _. now rewrite sumS_cons.
Qed.
Lemma sumS_filter {A} (p : A -> bool) l (f : A -> R) :
  sumS o (filter p l) f = sumS o l (fun x => if p x then f x else 0).
Proof.
  induction l as [|x l IH]; [reflexivity|].
  cbn [filter]. rewrite sumS_cons. destruct (p x).
  - now rewrite sumS_cons, IH.
  - rewrite IH. ring.
Qed.
Lemma sumS_single {A} (x : A) f : sumS o [x] f = f x.
Proof. rewrite sumS_cons, sumS_nil. ring. Qed.
(** re-indexing: two duplicate-free lists with the same elements give the same sum *)
Lemma sumS_NoDup_equiv {A} (l l' : list A) f :
  NoDup l -> NoDup l' -> (forall x, In x l <-> In x l') -> sumS o l f = sumS o l' f.
Proof. intros H1 H2 H. apply sumS_perm. now apply NoDup_Permutation. Qed.
(** re-indexing along a bijection between duplicate-free lists *)
Lemma sumS_bij {A B} (phi : A -> B) (l : list A) (l' : list B) f g :
  NoDup l -> NoDup l' ->
  (forall x, In x l -> In (phi x) l') ->
  (forall x y, In x l -> In y l -> phi x = phi y -> x = y) ->
  (forall y, In y l' -> exists x, In x l /\ phi x = y) ->
  (forall x, In x l -> f x = g (phi x)) ->
  sumS o l f = sumS o l' g.
Proof.
  intros Hl Hl' Hin Hinj Hsur Hfg.
  rewrite (sumS_ext l f (fun x => g (phi x)) Hfg), <- sumS_map.
  apply sumS_NoDup_equiv; trivial.
  - clear -Hl Hinj. induction l as [|x l IH]; [constructor|].
    cbn [map]. inversion Hl as [|? ? Hx Hl']; subst. constructor.
    + rewrite in_map_iff. intros (y & Hy & Hyl). apply Hx.
      rewrite (Hinj x y); trivial; [now left|now right|now symmetry].
    + apply IH; trivial. intros a b Ha Hb. apply Hinj; now right.
  - intros y. rewrite in_map_iff. split.
    + intros (x & <- & Hx). now apply Hin.
    + intros Hy. destruct (Hsur y Hy) as (x & Hx & <-). now exists x.
Qed.
(** a constant summand: n copies of c = from_nat n * c *)
Lemma sumS_const {A} (l : list A) c : sumS o l (fun _ => c) = from_nat o (length l) * c.
Proof.
  induction l as [|x l IH]; [rewrite sumS_nil; cbn [length from_nat]; ring|].
  rewrite sumS_cons, IH. cbn [length from_nat]. ring.
Qed.

(** ** from_nat is a homomorphism *)
Lemma from_nat_add n m : from_nat o (n + m)%nat = from_nat o n + from_nat o m.
Proof. induction n as [|n IH]; cbn [Nat.add from_nat]; [ring|]. rewrite IH. ring. Qed.
Lemma from_nat_mul n m : from_nat o (n * m)%nat = from_nat o n * from_nat o m.
Proof.
  induction n as [|n IH]; cbn [Nat.mul from_nat]; [ring|].
  rewrite from_nat_add, IH. ring.
Qed.
Lemma from_nat_1 : from_nat o 1%nat = 1.
Proof. cbn [from_nat]. ring. Qed.

(** ** prodS *)
Lemma prodS_nil {A} (f : A -> R) : prodS o [] f = 1.
Proof. reflexivity. Qed.
Lemma prodS_cons {A} (x : A) l (f : A -> R) : prodS o (x :: l) f = f x * prodS o l f.
Proof. reflexivity. Qed.
Lemma prodS_app {A} (l1 l2 : list A) f : prodS o (l1 ++ l2) f = prodS o l1 f * prodS o l2 f.
Proof.
  induction l1 as [|x l1 IH]; [rewrite prodS_nil; cbn [app]; ring|].
  cbn [app]. rewrite !prodS_cons, IH. ring.
Qed.
Lemma prodS_map {A B} (g : A -> B) l (f : B -> R) : prodS o (map g l) f = prodS o l (fun x => f (g x)).
Proof. unfold prodS. now rewrite map_map. Qed.
Lemma prodS_ext {A} (l : list A) f g : (forall x, In x l -> f x = g x) -> prodS o l f = prodS o l g.
Proof.
  intros H. induction l as [|x l IH]; [reflexivity|].
  rewrite !prodS_cons, (H x (or_introl eq_refl)), IH; [reflexivity|].
  intros y Hy. apply H. now right.
Qed.
Lemma prodS_one {A} (l : list A) : prodS o l (fun _ => 1) = 1.
Proof. induction l as [|x l IH]; [reflexivity|]. rewrite prodS_cons, IH. ring. Qed.
Lemma prodS_mul {A} (l : list A) f g : prodS o l (fun x => f x * g x) = prodS o l f * prodS o l g.
Proof. induction l as [|x l IH]; [rewrite !prodS_nil; ring|]. rewrite !prodS_cons, IH. ring. Qed.
Lemma prodS_perm {A} (l l' : list A) f : Permutation l l' -> prodS o l f = prodS o l' f.
Proof.
  induction 1 as [|x l l' _ IH|x y l|l l' l'' _ IH1 _ IH2].
  - reflexivity.
  - now rewrite !prodS_cons, IH.
  - rewrite !prodS_cons. ring.
  - now rewrite IH1.
Qed.
(** annihilation: one zero factor kills the product *)
Lemma prodS_zero {A} (l : list A) f x : In x l -> f x = 0 -> prodS o l f = 0.
Proof.
  intros Hin Hx. induction l as [|y l IH]; [destruct Hin|].
  rewrite prodS_cons. destruct Hin as [->|Hin]; [rewrite Hx; ring|]. rewrite IH; trivial. ring.
Qed.

(** ** the product of sums *)
(** [Π_{i ∈ l} Σ_{x ∈ f i} g i x = Σ_{c ∈ choices (map f l)} Π_{(i,x) ∈ combine l c} g i x] *)
Lemma prod_of_sums {A B} (l : list A) (f : A -> list B) (g : A -> B -> R) :
  prodS o l (fun i => sumS o (f i) (g i))
  = sumS o (choices (map f l)) (fun c => prodS o (combine l c) (fun p => g (fst p) (snd p))).
Proof.
  induction l as [|i l IH].
  - cbn [map choices combine]. rewrite prodS_nil, sumS_single. reflexivity.
  - cbn [map choices]. rewrite prodS_cons, sumS_flat_map, IH, sumS_mul_r.
    apply sumS_ext. intros x _. rewrite sumS_map, sumS_mul_l.
    apply sumS_ext. intros c _. reflexivity.
Qed.

(** ** choices: membership, NoDup *)
Lemma in_choices {A} (ls : list (list A)) (c : list A) :
  In c (choices ls) <-> Forall2 (fun x l => In x l) c ls.
Proof.
  revert c. induction ls as [|l ls IH]; intros c; cbn [choices].
  - split; [intros [<-|[]]; constructor|]. intros H. inversion H. now left.
  - rewrite in_flat_map. split.
    + intros (x & Hx & Hc). rewrite in_map_iff in Hc. destruct Hc as (c' & <- & Hc').
      constructor; trivial. now apply IH.
    + intros H. inversion H as [|x ? c' ? Hx Hc']; subst. exists x. split; trivial.
      apply in_map. now apply IH.
Qed.
End BigSum.

Lemma NoDup_app_intro {A} (l1 l2 : list A) :
  NoDup l1 -> NoDup l2 -> (forall x, In x l1 -> In x l2 -> False) -> NoDup (l1 ++ l2).
Proof.
  intros H1 H2 Hd. induction l1 as [|x l1 IH]; [exact H2|].
  cbn [app]. inversion H1 as [|? ? Hx H1']; subst. constructor.
  - rewrite in_app_iff. intros [Hi|Hi]; [now apply Hx|]. apply (Hd x); [now left|trivial].
  - apply IH; trivial. intros y Hy. apply Hd. now right.
Qed.

Lemma NoDup_flat_map {A B} (f : A -> list B) (l : list A) :
  NoDup l -> (forall x, In x l -> NoDup (f x)) ->
  (forall x y z, In x l -> In y l -> In z (f x) -> In z (f y) -> x = y) ->
  NoDup (flat_map f l).
Proof.
  intros Hl Hf Hd. induction l as [|x l IH]; [constructor|].
  cbn [flat_map]. inversion Hl as [|? ? Hx Hl']; subst.
  apply NoDup_app_intro.
  - apply Hf. now left.
  - apply IH; trivial.
    + intros y Hy. apply Hf. now right.
    + intros a b z Ha Hb. apply Hd; now right.
  - intros z Hz Hz'. rewrite in_flat_map in Hz'. destruct Hz' as (y & Hy & Hzy).
    apply Hx. rewrite (Hd x y z); trivial; [now left|now right].
Qed.

Lemma NoDup_map_inj {A B} (f : A -> B) (l : list A) :
  (forall x y, In x l -> In y l -> f x = f y -> x = y) -> NoDup l -> NoDup (map f l).
Proof.
  intros Hinj Hl. induction l as [|x l IH]; [constructor|].
  cbn [map]. inversion Hl as [|? ? Hx Hl']; subst. constructor.
  - rewrite in_map_iff. intros (y & Hy & Hyl). apply Hx.
    rewrite (Hinj x y); trivial; [now left|now right|now symmetry].
  - apply IH; trivial. intros a b Ha Hb. apply Hinj; now right.
Qed.

Lemma NoDup_choices {A} (ls : list (list A)) :
  (forall l, In l ls -> NoDup l) -> NoDup (choices ls).
Proof.
  induction ls as [|l ls IH]; intros H; cbn [choices].
  - constructor; [intros []|constructor].
  - apply NoDup_flat_map.
    + apply H. now left.
    + intros x _. apply NoDup_map_inj; [intros a b _ _ E; now inversion E|].
      apply IH. intros l' Hl'. apply H. now right.
    + intros x y z _ _ Hx Hy. rewrite in_map_iff in Hx, Hy.
      destruct Hx as (a & <- & _), Hy as (b & E & _). now inversion E.
Qed.
