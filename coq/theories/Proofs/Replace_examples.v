(** Non-trivial values satisfying the hypotheses of the C15 theorems. *)
From Coq Require Import List Arith Bool PeanoNat NArith.
Import ListNotations.
Require Import Fggs.Model.Semiring Fggs.Model.Replace.

(** grammar:  S -> X(a) X(a) t1(a)      X(u) -> t2(u, v) X'(v)?  (here: X(u) -> t2(u, v))
    derivation: the S rule with both X edges expanded by the same X rule (rule reuse) *)
Definition xS : elabel := mkLab 0 [] false.
Definition xX : elabel := mkLab 1 [0] false.
Definition xt1 : elabel := mkLab 2 [0] true.
Definition xt2 : elabel := mkLab 3 [0; 0] true.
Definition xL : list elabel := [xS; xX; xt1; xt2].

Definition xa : node := mkNode (Explicit 0) 0.
Definition xe1 : edge := mkEdge (Explicit 1) xX [xa].
Definition xe2 : edge := mkEdge (Explicit 2) xX [xa].
Definition xe3 : edge := mkEdge (Explicit 3) xt1 [xa].
Definition xrS : rule := mkRule xS (mkGraph [xa] [xe1; xe2; xe3] [] [xX; xt1] [0]).

Definition xu : node := mkNode (Explicit 0) 0.
Definition xv : node := mkNode (Fresh 7) 0.
Definition xrX : rule := mkRule xX (mkGraph [xu; xv] [mkEdge (Explicit 1) xt2 [xu; xv]] [xu] [xt2] [0]).

Definition xchild : dtree := DT xrX [(xu, 1); (xv, 0)] [].
Definition xrX' : rule :=
  mkRule xX (mkGraph [xu] [mkEdge (Explicit 5) xt1 [xu]; mkEdge (Explicit 6) xX [xu]] [xu] [xt1; xX] [0]).
Definition xchild' : dtree := DT xrX' [(xu, 1)] [(mkEdge (Explicit 6) xX [xu], xchild)].
Definition xtree : dtree := DT xrS [(xa, 1)] [(xe2, xchild); (xe1, xchild')].

Definition xlin1 : list path := [[]; [Explicit 2]; [Explicit 1]; [Explicit 1; Explicit 6]].
Definition xlin2 : list path := [[]; [Explicit 1]; [Explicit 1; Explicit 6]; [Explicit 2]].

Example xtree_wf : wf_dtreeb xL xtree = true /\ functionalb xL = true /\ tsize xtree = 4.
Proof. vm_compute. repeat split. Qed.

(** two different complete linearisations: nothing pending at the end, different graphs
    (different edge lists), both accepted by the oracle *)
Definition xcheck : bool :=
  match run xlin1 (init_state xtree 0), run xlin2 (init_state xtree 0) with
  | Ok s1, Ok s2 =>
    Nat.eqb (length (rs_pending s1)) 0 && Nat.eqb (length (rs_pending s2)) 0
    && Nat.eqb (length (g_nodes (rs_graph s1))) 3 && Nat.eqb (length (g_edges (rs_graph s1))) 4
    && negb (list_eqb edge_eqb (g_edges (rs_graph s1)) (g_edges (rs_graph s2)))
    && same_upto_naming (rs_graph s1) (rs_nnames s1) (rs_enames s1) (derived_graph xtree)
    && same_upto_naming (rs_graph s2) (rs_nnames s2) (rs_enames s2) (derived_graph xtree)
  | _, _ => false
  end.
Example xtree_two_orders : xcheck = true.
Proof. vm_compute. reflexivity. Qed.

(** a sequence that names a path which is not pending is rejected with OtherErr *)
Definition xbad : bool := match run [[Explicit 1]] (init_state xtree 0) with Err OtherErr => true | _ => false end.
Example xtree_bad_sequence : xbad = true.
Proof. vm_compute. reflexivity. Qed.

(** derive(): no exception, total assignment, weight 2 * 3 * 2 * 3 = 36 with t1 := 2, t2 := 3 in (N, +, x) *)
Definition xw (l : elabel) (vs : list nat) : N := match l_name l with 2 => 2%N | 3 => 3%N | _ => 1%N end.
Definition xN_ops : sr_ops N :=
  {| zero := 0%N; one := 1%N; add := N.add; mul := N.mul; star := fun _ => 0%N; le := N.le |}.
Definition xderive : bool :=
  match derive_model xtree 0 with
  | (s, None) =>
    forallb (fun v => amem node_eqb (ds_asst s) v) (g_nodes (ds_graph s))
    && match graph_weight xN_ops xw (ds_graph s) (ds_asst s), tree_weight xN_ops xw xtree with
       | Some x, Some y => N.eqb x 36 && N.eqb y 36 | _, _ => false end
  | _ => false
  end.
Example xtree_derive : xderive = true.
Proof. vm_compute. reflexivity. Qed.
